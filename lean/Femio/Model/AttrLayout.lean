import Femio.Model.Core
/-! Memory layout of tensor rows and dtype of element ids (C08, round 4, class F). Core only.

Two things that are NOT part of the table an attribute describes, and the two shortcuts that make them observable:

* `flattenC` / `flattenA`: how the `p × q` tensor of one id becomes the row of the id-keyed frame. `np.reshape(data, (n, -1))`
  reads in C order whatever the memory layout; `order='A'` reads a Fortran-contiguous array in Fortran order, i.e. it stores the
  TRANSPOSED tensor, while the positional view `.data[k]` still serves the original array.
* `looksAscendingU`: `np.all(np.diff(ids) > 0)` evaluated in an unsigned dtype of `bits` bits, where the difference wraps
  around, and `flattenGuarded`: `_update_self` skipping the id sort when a guard says "already ascending". -/
namespace AttrLayout
open Core

/-- transpose of a `p × q` tensor given as the list of its rows (`q` = length of the first row) -/
def transposeT {α : Type} (t : List (List α)) : List (List α) :=
  match t with
  | [] => []
  | r :: _ => (List.range r.length).map fun j => t.filterMap (fun row => row[j]?)

/-- the frame row made by `np.reshape(data, (n, -1))`: C order (last index fastest), independent of the memory layout -/
def flattenC {α : Type} (t : List (List α)) : List α := t.flatten

/-- the frame row made by `np.reshape(data, (n, -1), order='A')`: `fortran = true` for a Fortran-contiguous input (first trailing
index fastest), C order otherwise -/
def flattenA {α : Type} (fortran : Bool) (t : List (List α)) : List α :=
  if fortran then (transposeT t).flatten else t.flatten

/-- rows of length `q` cut from a flat row: what every id-keyed read path does (`reshape(new_shape)`, always C order);
`fuel` bounds the number of rows -/
def unflattenC {α : Type} (q : Nat) : Nat → List α → List (List α)
  | 0, _ => []
  | _ + 1, [] => []
  | fuel + 1, l => l.take q :: unflattenC q fuel (l.drop q)

/-- `b - a` in an unsigned dtype of `bits` bits (wraps around) -/
def diffU (bits a b : Nat) : Nat := (b + 2 ^ bits - a) % 2 ^ bits

/-- all adjacent pairs satisfy `r` (the shape of `np.all(np.diff(ids) ...)`) -/
def adjAll (r : Nat → Nat → Bool) : List Nat → Bool
  | [] => true
  | [_] => true
  | a :: b :: t => r a b && adjAll r (b :: t)

/-- `np.all(np.diff(ids) > 0)` on ids stored in an unsigned dtype of `bits` bits -/
def looksAscendingU (bits : Nat) (ids : List Nat) : Bool := adjAll (fun a b => decide (0 < diffU bits a b)) ids

/-- `np.all(np.diff(ids) > 0)` on ids stored in a signed dtype wide enough for the differences -/
def looksAscendingS (ids : List Nat) : Bool := adjAll (fun a b => decide (a < b)) ids

/-- `_update_self` with the shortcut "skip the sort when the guard says the concatenation is already ascending" -/
def flattenGuarded (guard : List Nat → Bool) (blocks : List (List Elem)) : List Elem :=
  match blocks with
  | [b] => b
  | bs => if guard (bs.flatten.map Elem.id) then bs.flatten else sortElems bs.flatten

end AttrLayout
