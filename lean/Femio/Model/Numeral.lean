/-! Decimal numerals on `List Char` (core only). -/
namespace Numeral

def digitChar (d : Nat) : Char := Char.ofNat (48 + d)
def charDigit (c : Char) : Option Nat :=
  let n := c.toNat
  if 48 ≤ n ∧ n ≤ 57 then some (n - 48) else none

/-- most significant digit first -/
def natDigitsAux : Nat → Nat → List Nat → List Nat
  | 0, _, acc => acc
  | f + 1, n, acc => if n < 10 then n :: acc else natDigitsAux f (n / 10) (n % 10 :: acc)
def natDigits (n : Nat) : List Nat := natDigitsAux (n + 1) n []

def showNat (n : Nat) : List Char := (natDigits n).map digitChar

def evalDigits (a : Nat) (ds : List Nat) : Nat := ds.foldl (fun x d => x * 10 + d) a

def parseNat (s : List Char) : Option Nat :=
  if s.isEmpty then none else (s.mapM charDigit).map (evalDigits 0)

end Numeral
