/-! C04 — `FEMWriter._align_data` over ids of ANY sign (the character-level model `Model/Ucd.lean` has natural-number ids).

The writer puts the rows of a variable (own id order `ownIds`) into the order of the mesh ids `meshIds`.  The tree does it
with a python dict id ↦ row (`ACfg.dict`: a function of the id as a KEY, whatever its sign or size).  `ACfg.denseTable` is
the class of changes that turn the id into an array POSITION (seeded change C04-9): a table of `max id + 1` slots filled by
`id2row[ownIds] = arange(n)` and read by `id2row[meshIds]`, both with numpy's wrap-around of negative indices, so that the
id `-k` shares the slot of the id `max + 1 - k`.  Results are row POSITIONS in the variable's own table (`none` = the
real code raises).  Core only. -/
namespace Femio.C04

/-- position of the key `i` in `ids` (a python dict built by `{id: k for k, id in enumerate(ids)}` on ids without repeats) -/
def keyPos {I : Type} [DecidableEq I] (ids : List I) (i : I) : Option Nat :=
  match ids with
  | [] => none
  | a :: t => if i = a then some 0 else (keyPos t i).map (· + 1)

/-- numpy indexing of an axis of length `n` with the integer `k`: `0 ≤ k < n` is position `k`, `-n ≤ k < 0` is position
    `n + k`, anything else raises -/
def pyPos (n : Nat) (k : Int) : Option Nat :=
  if 0 ≤ k then (if k.toNat < n then some k.toNat else none)
  else if (-k).toNat ≤ n then some (n - (-k).toNat) else none

def maxId : List Int → Int
  | [] => -1
  | a :: t => if maxId t < a then a else maxId t

/-- `id2row = np.full(max + 1, -1); id2row[ownIds] = np.arange(n)`: later assignments overwrite earlier ones -/
def fillTable (n : Nat) : List Int → Nat → List (Option Nat) → List (Option Nat)
  | [], _, t => t
  | i :: rest, row, t => fillTable n rest (row + 1) (match pyPos n i with | some p => t.set p (some row) | none => t)

structure ACfg where
  /-- rows looked up by id as a key (the tree) instead of through a dense table indexed by the id -/
  byKey : Bool
deriving Repr, DecidableEq
def ACfg.dict : ACfg := ⟨true⟩
def ACfg.denseTable : ACfg := ⟨false⟩

/-- for every mesh id the position of the row the writer emits next to it -/
def alignPositions (cfg : ACfg) (ownIds meshIds : List Int) : List (Option Nat) :=
  if cfg.byKey then meshIds.map (keyPos ownIds)
  else
    let n := (maxId ownIds + 1).toNat
    let t := fillTable n ownIds 0 (List.replicate n none)
    meshIds.map fun i => (pyPos n i).bind fun p => (t[p]?).getD none

end Femio.C04
