import Femio.Model.Ucd
/-! C04 — from a FEMData (every variable an id-keyed table with its *own* id order) to "what the writer
    looks at" (`Ucd.Mesh`, rows positional).  One `Cfg` flag for the repair of DESIGN §5 F9. Core only. -/
namespace Femio.C04
open Ucd

/-- a 2-D variable as the FEMData holds it: its own ids and one row per id -/
structure VarTab (V : Type) where
  name : List Char
  width : Nat
  ids : List Nat
  rows : List (List V)
deriving Repr, DecidableEq

structure Fem (V : Type) where
  nodes : List (Nat × List V)
  blocks : List (Nat × List Elem)
  nodalVars : List (VarTab V)
  elemVars : List (VarTab V)
deriving Repr, DecidableEq

structure Cfg where
  /-- repair of F9: the writer takes the row of a variable by id instead of by position -/
  alignById : Bool
deriving Repr, DecidableEq
def Cfg.fixed : Cfg := ⟨true⟩
def Cfg.upstream : Cfg := ⟨false⟩

variable {V : Type}

/-- the rows of a variable in the order in which the writer emits them next to `meshIds`
    (upstream: the variable's own order, i.e. positional; fixed: looked up by id — a missing id makes the
    repaired code raise, here it yields an empty row; the theorems assume the ids are those of the mesh) -/
def rowsFor (cfg : Cfg) (meshIds : List Nat) (v : VarTab V) : List (List V) :=
  if cfg.alignById then meshIds.map fun i => ((v.ids.zip v.rows).lookup i).getD [] else v.rows

/-- `np.concatenate([v.data …], axis=1)`: row `k` = the `k`-th rows of all variables side by side -/
def catRows (tabs : List (List (List V))) (n : Nat) : List (List V) :=
  (List.range n).map fun k => tabs.flatMap fun rows => (rows[k]?).getD []

def toMesh (cfg : Cfg) (f : Fem V) : Mesh V :=
  let nids := f.nodes.map Prod.fst
  let eids := elemIds f.blocks
  ⟨f.nodes, f.blocks,
   f.nodalVars.map (fun v => ⟨v.name, v.width⟩), catRows (f.nodalVars.map (rowsFor cfg nids)) nids.length,
   f.elemVars.map (fun v => ⟨v.name, v.width⟩), catRows (f.elemVars.map (rowsFor cfg eids)) eids.length⟩

end Femio.C04
