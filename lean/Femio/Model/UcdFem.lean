import Femio.Model.Ucd
/-! C04 — from a FEMData (every variable an id-keyed table with its *own* id order) to "what the writer
    looks at" (`Ucd.Mesh`, rows positional).  One `Cfg` flag for the repair of DESIGN §5 F9. Core only. -/
namespace Femio.C04
open Ucd

/-- a 2-D variable as the FEMData holds it: its own ids and one row per id -/
structure VarTab (V : Type) where
  name : List Char
  width : Nat
  ids : List Nat
  rows : List (List V)
deriving Repr, DecidableEq

structure Fem (V : Type) where
  nodes : List (Nat × List V)
  blocks : List (Nat × List Elem)
  nodalVars : List (VarTab V)
  elemVars : List (VarTab V)
deriving Repr, DecidableEq

structure Cfg where
  /-- repair of F9: the writer takes the row of a variable by id instead of by position -/
  alignById : Bool
deriving Repr, DecidableEq
def Cfg.fixed : Cfg := ⟨true⟩
def Cfg.upstream : Cfg := ⟨false⟩

variable {V : Type}

/-- the rows of a variable in the order in which the writer emits them next to `meshIds`
    (upstream: the variable's own order, i.e. positional; fixed: looked up by id — a missing id makes the
    repaired code raise, here it yields an empty row; the theorems assume the ids are those of the mesh) -/
def rowsFor (cfg : Cfg) (meshIds : List Nat) (v : VarTab V) : List (List V) :=
  if cfg.alignById then meshIds.map fun i => ((v.ids.zip v.rows).lookup i).getD [] else v.rows

/-- `np.concatenate([v.data …], axis=1)`: row `k` = the `k`-th rows of all variables side by side -/
def catRows (tabs : List (List (List V))) (n : Nat) : List (List V) :=
  (List.range n).map fun k => tabs.flatMap fun rows => (rows[k]?).getD []

def toMesh (cfg : Cfg) (f : Fem V) : Mesh V :=
  let nids := f.nodes.map Prod.fst
  let eids := elemIds f.blocks
  ⟨f.nodes, f.blocks,
   f.nodalVars.map (fun v => ⟨v.name, v.width⟩), catRows (f.nodalVars.map (rowsFor cfg nids)) nids.length,
   f.elemVars.map (fun v => ⟨v.name, v.width⟩), catRows (f.elemVars.map (rowsFor cfg eids)) eids.length⟩

/-! ### the writer's requirements as Boolean functions (the driver evaluates them on every case) -/
/-- the variable's own ids are a permutation of `meshIds`, one row per id, rows as wide as the variable, ≥ 1 column -/
def varOKB (meshIds : List Nat) (v : VarTab V) : Bool :=
  v.ids.isPerm meshIds && v.rows.length == v.ids.length && v.rows.all (fun r => r.length == v.width) && decide (0 < v.width)
def nodupB : List Nat → Bool
  | [] => true
  | a :: t => !t.contains a && nodupB t
def femOKB (f : Fem V) : Bool :=
  nodupB (f.nodes.map Prod.fst) && nodupB (elemIds f.blocks) &&
  f.nodalVars.all (varOKB (f.nodes.map Prod.fst)) && f.elemVars.all (varOKB (elemIds f.blocks))

/-! ### reader side: one id-keyed table per variable -/
/-- `_read_associated_data`: the table of every variable, cut out of the rows read by cumulative column offsets
    (`slice(cum_dim, cum_dim + dim)`; column 0 of the file row is the id) -/
def tablesFrom (rows : List (Nat × List V)) : Nat → List Var → List (VarTab V)
  | _, [] => []
  | off, x :: xs =>
    ⟨x.name, x.width, rows.map (·.1), rows.map fun r => (r.2.drop off).take x.width⟩ :: tablesFrom rows (off + x.width) xs
def readTables (vars : List Var) (rows : List (Nat × List V)) : List (VarTab V) := tablesFrom rows 0 vars

/-- a variable re-ordered to the id order `meshIds`: under every id the row the variable holds for that id -/
def alignedTab (meshIds : List Nat) (v : VarTab V) : VarTab V := ⟨v.name, v.width, meshIds, rowsFor Cfg.fixed meshIds v⟩

end Femio.C04
