/-! Boolean matrices as functions with an explicit dimension; model of the scipy bool CSR algebra
    used by graph_processor (`dot` = OR of ANDs, `+` = OR). Core only. -/
namespace Graph

abbrev BMat := Nat → Nat → Bool

def mul (n : Nat) (A B : BMat) : BMat := fun i j => (List.range n).any (fun k => A i k && B k j)
def add (A B : BMat) : BMat := fun i j => A i j || B i j

/-- `calculate_n_hop_adj`: return_adj = adj; power = adj; repeat (n_hop-1): power = power·adj; ret += power -/
def nHopAux (n : Nat) (A : BMat) : Nat → BMat × BMat
  | 0 => (A, A)
  | h + 1 => let (ret, pw) := nHopAux n A h
             let pw' := mul n pw A
             (add ret pw', pw')

def nHop (n : Nat) (A : BMat) (hops : Nat) : BMat := (nHopAux n A (hops - 1)).1

end Graph
