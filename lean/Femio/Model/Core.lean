/-! Shared mesh core (core Lean only). -/
namespace Core

abbrev Id := Nat

/-- storage position of an id (model of `ids2indices`, `dict_node_id2index`) -/
def idPos : List Id → Id → Option Nat
  | [], _ => none
  | a :: t, i => if a = i then some 0 else (idPos t i).map (· + 1)

/-- an element: id, type tag (index into ELEMENT_TYPES), connectivity -/
structure Elem where
  id : Id
  ty : Nat
  conn : List Id
deriving Repr, DecidableEq

/-- insertion into a list ascending by element id -/
def insertElem (e : Elem) : List Elem → List Elem
  | [] => [e]
  | f :: t => if e.id ≤ f.id then e :: f :: t else f :: insertElem e t

/-- `_update_self` for several type blocks: all elements, ascending id -/
def sortElems (l : List Elem) : List Elem := l.foldr insertElem []

/-- `_update_self`: one block keeps storage order, several blocks are merged ascending by id -/
def flatten (blocks : List (List Elem)) : List Elem :=
  match blocks with
  | [b] => b
  | bs => sortElems bs.flatten

/-- position of an element id in the flattened order (model of `elements.id2index.loc[id]`) -/
def elemPos (flat : List Elem) (i : Id) : Option Nat := idPos (flat.map Elem.id) i

/-- `calculate_incidence_matrix`, both branches: iterate blocks in type order, elements in block storage
    order; row = storage position of the node, column = position of the element in the flattened order -/
def incidence (nodeIds : List Id) (blocks : List (List Elem)) : List (Nat × Nat) :=
  let flat := flatten blocks
  blocks.flatten.flatMap fun e =>
    match elemPos flat e.id with
    | none => []
    | some j => e.conn.filterMap fun n => (idPos nodeIds n).map fun i => (i, j)

end Core
