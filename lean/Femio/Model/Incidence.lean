import Femio.Model.Surface
/-! C12 model (core Lean only): facet mesh, relative incidence and its sign, area vectors.

    * `toFacets`      – `to_facets(remove_duplicates=True)`: `functions.remove_duplicates` keeps, for every
                        sorted node tuple, the **first** face that has it, in the order of the sorted tuples
    * `incident`      – `calculate_relative_incidence_metrix_element(minimum_n_sharing=None)`: the cell contains
                        every node of the facet
    * `signDot`/`signOf` – `calculate_normal_incidence_matrix`: sign of (facet centre − cell centre)·normal,
                        centres = vertex means (`convert_nodal2elemental(calc_average=True)`), normal direction =
                        `_calculate_tri_crosses` / `_calculate_quad_normals_centroid` before normalisation -/
namespace Femio.C12
open Core Faces Femio.C10

def firstOccAux (seen : List (List Nat)) : List Face → List Face
  | [] => []
  | f :: t => if seen.contains (key f) then firstOccAux seen t else f :: firstOccAux (key f :: seen) t

/-- `functions.remove_duplicates` on one facet array -/
def removeDuplicates (fs : List Face) : List Face := sortBy keyLe (firstOccAux [] fs)

/-- facet elements of `to_facets()`: triangles (ids 1..) then quadrilaterals -/
def toFacets (blocks : List (List Elem)) : List Face :=
  let fs := allFaces blocks
  removeDuplicates (ofShape 3 fs) ++ removeDuplicates (ofShape 4 fs)

/-- the code's incidence test: every node of the facet is a node of the cell -/
def incident (conn : List Nat) (f : Face) : Bool := f.all fun n => conn.contains n

section Kernels
open V3 Geom
variable {R : Type} [Add R] [Sub R] [Mul R] [NatCast R]

def vsum (l : List (V3 R)) : V3 R := l.foldr V3.add ⟨((0 : Nat) : R), ((0 : Nat) : R), ((0 : Nat) : R)⟩

/-- un-normalised normal as the code computes it: tri `cross(p1−p0, p2−p0)`; quad `Σ cross(v_i, v_{i+1})` with
    `v_i = p_i − centroid`, here scaled by 16 (`quadCrossC`) -/
def normalDir (pts : List (V3 R)) : V3 R :=
  match pts with
  | [a, b, c] => triCross a b c
  | [a, b, c, d] => quadCrossC a b c d ((4 : Nat) : R)
  | _ => ⟨((0 : Nat) : R), ((0 : Nat) : R), ((0 : Nat) : R)⟩

/-- doubled vector area of a facet: tri `cross(p1−p0, p2−p0)`, quad `cross(p2−p0, p3−p1)` -/
def areaVec2 (pts : List (V3 R)) : V3 R :=
  match pts with
  | [a, b, c] => triCross a b c
  | [a, b, c, d] => cross (sub c a) (sub d b)
  | _ => ⟨((0 : Nat) : R), ((0 : Nat) : R), ((0 : Nat) : R)⟩

/-- `(#cell nodes · #facet nodes) · (facet centre − cell centre) · n` -/
def signDot (cellPts facetPts : List (V3 R)) (n : V3 R) : R :=
  dot (sub (smul ((cellPts.length : Nat) : R) (vsum facetPts)) (smul ((facetPts.length : Nat) : R) (vsum cellPts))) n

/-- `dots.data[dots.data < 0] = -1; dots.data[dots.data >= 0] = 1` -/
def signOf [LT R] [DecidableLT R] (cellPts facetPts : List (V3 R)) : Int :=
  if signDot cellPts facetPts (normalDir facetPts) < ((0 : Nat) : R) then -1 else 1

end Kernels

/-- signed incidence: `(cell position, facet position, sign)` for every incident pair -/
def signedIncidence {R : Type} [Add R] [Sub R] [Mul R] [NatCast R] [LT R] [DecidableLT R]
    (pt : Nat → V3 R) (cells : List Elem) (facets : List Face) : List (Nat × Nat × Int) :=
  ((List.range cells.length).zip cells).flatMap fun (i, c) =>
    ((List.range facets.length).zip facets).filterMap fun (j, f) =>
      if incident c.conn f then some (i, j, signOf (c.conn.map pt) (f.map pt)) else none

/-! Boolean hypotheses of `C12_structure`, evaluated by the driver per mesh -/

/-- a facet whose nodes all lie in a cell is (as a node set) one of that cell's faces -/
def faceDeterminedB (cells : List Elem) (facets : List Face) : Bool :=
  cells.all fun c => facets.all fun f => !incident c.conn f || (elemFaces c).any fun g => key g == key f

/-- each face of a cell uses only nodes of the cell -/
def ownNodesB (cells : List Elem) : Bool :=
  cells.all fun c => (elemFaces c).all fun g => g.all fun n => c.conn.contains n

/-- the faces of one cell have pairwise different node sets -/
def distinctKeysB (cells : List Elem) : Bool :=
  cells.all fun c => let ks := (elemFaces c).map key; ks.all fun k => ks.count k == 1

/-- hypothesis of `C12_hex_sign_meanplane` (strict form) for every own face `g` of the cell, with the outward doubled vector
    area `areaVec2` of `g` as the normal: every cell vertex that is not a node of `g` lies strictly on the inner side of the
    MEAN plane of `g` (through the vertex mean of `g`): `Σ_{q ∈ g} (q − p)·S > 0`.  Evaluated by the driver (`c12.meanplane`)
    on the meshes of the stream `warped-layers` (hexahedra with skew faces). -/
def meanPlaneB (pt : Nat → V3 Rat) (c : Elem) : Bool :=
  (elemFaces c).all fun g =>
    let fp := g.map pt
    let n : V3 Rat := areaVec2 fp
    (c.conn.filter fun v => !g.contains v).all fun v =>
      decide ((0 : Rat) < (fp.map fun q => V3.dot (V3.sub q (pt v)) n).foldr (· + ·) 0)

end Femio.C12
