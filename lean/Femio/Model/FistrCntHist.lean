import Femio.Model.FistrCnt
/-! History model for C03: the object that `write_cnt` is given is not "as constructed" - it was modified through
public means between construction and `write()`.

`FEMAttribute` keeps a constraint kind twice: the ndarray `_data` (what `.data` / `.values` return, hence what an
in-place edit `attr.data[r, c] = v` hits, and what `write_cnt` reads) and the pandas frame `_data_frame` built from it
at construction (what `.loc` / `.iloc` / `data_frame` see and what a write-through starts from).  With the pandas of
this environment the two never share memory.  The model transcribes both (`AttrSt.arr`, `AttrSt.frame`); the public
state of a kind is `(ids, arr)` (`AttrSt.rows`).  `HistCfg.fromArray` says which of the two the writer takes the
`!BOUNDARY` / `!CLOAD` rows from (`true` = the tree; `false` = seeded change C03-6).  Core Lean only. -/
namespace Femio.Fistr

/-- one constraint kind of a live object; `ρ` = what a row carries (`List (Option Sci)` for the 3-dof tables, `Sci` for
    fixtemp / cflux) -/
structure AttrSt (ρ : Type) where
  /-- `.ids` (the index of the frame) -/
  ids : List Nat
  /-- `_data`: `.data`, `.values`, the array the caller handed in -/
  arr : List ρ
  /-- values of `_data_frame` -/
  frame : List ρ

/-- `FEMAttribute(name, ids, data)` -/
def AttrSt.fresh {ρ} (rows : List (Nat × ρ)) : AttrSt ρ := ⟨rows.map (·.1), rows.map (·.2), rows.map (·.2)⟩
/-- the public table `(.ids, .data)` -/
def AttrSt.rows {ρ} (a : AttrSt ρ) : List (Nat × ρ) := a.ids.zip a.arr
/-- the table the frame holds -/
def AttrSt.frameRows {ρ} (a : AttrSt ρ) : List (Nat × ρ) := a.ids.zip a.frame

def modifyAt {α} (l : List α) (i : Nat) (f : α → α) : List α :=
  match l[i]? with
  | some x => l.set i (f x)
  | none => l

/-- `frame.iloc[pos] = d` row by row -/
def writeRows {α} (t : List α) : List Nat → List α → List α
  | p :: ps, x :: xs => writeRows (t.set p x) ps xs
  | _, _ => t

/-- public modifications of one kind that keep its ids -/
inductive AttrOp (ρ : Type) where
  /-- in place through the array returned by `.data` / `.values` (or kept by the caller): `arr[r] = f arr[r]`
      (`f` = "set cell c to v", "release cell c", "replace the row") - the frame does not see it -/
  | poke (r : Nat) (f : ρ → ρ)
  /-- `attr.data = d`, `attr.update_data(d)`, `constraints.overwrite(kind, d)`: array and frame rebuilt
      (`_validate_data_length` raises when the length differs: nothing changes) -/
  | setData (d : List ρ)
  /-- write-through `attr.iloc[pos].data = d` / `attr.loc[ids].data = d` (distinct ids): the rows are written into the
      FRAME and the array is re-derived from the frame (so earlier in-place edits are lost - as the code does) -/
  | writeThrough (pos : List Nat) (d : List ρ)

def AttrSt.step {ρ} (a : AttrSt ρ) : AttrOp ρ → AttrSt ρ
  | .poke r f => { a with arr := modifyAt a.arr r f }
  | .setData d => if d.length = a.ids.length then { a with arr := d, frame := d } else a
  | .writeThrough pos d => let f := writeRows a.frame pos d; { a with arr := f, frame := f }

abbrev TRow := List (Option Sci)

/-- the analysis conditions of a live `FEMData` -/
structure ObjSt where
  solution : Name
  onlySolid : Bool
  boundary : Option (AttrSt TRow)
  spring : Option (AttrSt TRow)
  cload : Option (AttrSt TRow)
  fixtemp : Option (AttrSt Sci)
  cflux : Option (AttrSt Sci)
  pureCflux : Option (AttrSt Sci)

inductive TKind where | boundary | spring | cload
deriving DecidableEq
inductive SKind where | fixtemp | cflux | pureCflux
deriving DecidableEq

def ObjSt.getT (o : ObjSt) : TKind → Option (AttrSt TRow)
  | .boundary => o.boundary | .spring => o.spring | .cload => o.cload
def ObjSt.setT (o : ObjSt) (k : TKind) (a : Option (AttrSt TRow)) : ObjSt :=
  match k with
  | .boundary => { o with boundary := a } | .spring => { o with spring := a } | .cload => { o with cload := a }
def ObjSt.getS (o : ObjSt) : SKind → Option (AttrSt Sci)
  | .fixtemp => o.fixtemp | .cflux => o.cflux | .pureCflux => o.pureCflux
def ObjSt.setS (o : ObjSt) (k : SKind) (a : Option (AttrSt Sci)) : ObjSt :=
  match k with
  | .fixtemp => { o with fixtemp := a } | .cflux => { o with cflux := a } | .pureCflux => { o with pureCflux := a }

/-- public modifications of the conditions of an object between construction and `write()` -/
inductive ObjOp where
  | table (k : TKind) (op : AttrOp TRow)
  | scalar (k : SKind) (op : AttrOp Sci)
  /-- `constraints[kind] = FEMAttribute(..)`, `overwrite(kind, d, ids=..)`, `update({kind: ..})`, `update_data` of an
      absent kind (`some rows`); `constraints.pop(kind)` (`none`) -/
  | putTable (k : TKind) (rows : Option (List (Cnt.Row Sci)))
  | putScalar (k : SKind) (rows : Option (List (Nat × Sci)))
  /-- `settings['solution_type'] = s` -/
  | solution (s : Name)

def ObjSt.step (o : ObjSt) : ObjOp → ObjSt
  | .table k op => o.setT k ((o.getT k).map (·.step op))
  | .scalar k op => o.setS k ((o.getS k).map (·.step op))
  | .putTable k rows => o.setT k (rows.map AttrSt.fresh)
  | .putScalar k rows => o.setS k (rows.map AttrSt.fresh)
  | .solution s => { o with solution := s }

def ObjSt.run (o : ObjSt) (ops : List ObjOp) : ObjSt := ops.foldl ObjSt.step o

/-- the object as constructed from the tables `c` -/
def ObjSt.fresh (c : CntIn) : ObjSt :=
  ⟨c.solution, c.onlySolid, c.boundary.map AttrSt.fresh, c.spring.map AttrSt.fresh, c.cload.map AttrSt.fresh,
   c.fixtemp.map AttrSt.fresh, c.cflux.map AttrSt.fresh, c.pureCflux.map AttrSt.fresh⟩

/-- where `_generate_constraints` (the `!BOUNDARY` / `!CLOAD` rows) takes the table from -/
structure HistCfg where
  /-- `constraint_attribute.data` / `.ids` (the tree) - `false`: `constraint_attribute.data_frame` (seeded C03-6) -/
  fromArray : Bool
deriving DecidableEq

def HistCfg.fixed : HistCfg := ⟨true⟩

/-- what `write_cnt` takes from the live object -/
def ObjSt.view (cfg : HistCfg) (o : ObjSt) : CntIn :=
  let gc : AttrSt TRow → List (Cnt.Row Sci) := if cfg.fromArray then AttrSt.rows else AttrSt.frameRows
  ⟨o.solution, o.onlySolid, o.boundary.map gc, o.spring.map AttrSt.rows, o.cload.map gc,
   o.fixtemp.map AttrSt.rows, o.cflux.map AttrSt.rows, o.pureCflux.map AttrSt.rows⟩

/-- the CURRENT public state of the object: solution type and `(.ids, .data)` of every kind -/
abbrev ObjSt.state (o : ObjSt) : CntIn := o.view HistCfg.fixed

/-- `fem_data.write('fistr', ..)`, control file -/
def writeObj (cfg : HistCfg) (o : ObjSt) : Option (List Line) := writeCnt (o.view cfg)

end Femio.Fistr
