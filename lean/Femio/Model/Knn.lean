/-! Concrete model of `build_octree_node` + `_nns_from_nodes_to_nodes` (C16), over `Rat`, squared distances.
    Tree nodes are *paths* (child digits from the root); boxes are computed from the path. Core only. -/
namespace Knn

structure P3 where
  x : Rat
  y : Rat
  z : Rat
deriving Repr, DecidableEq

structure Box where
  c : P3
  w : Rat
deriving Repr, DecidableEq

/-- child `r` of a box: bit 4 ↦ x, bit 2 ↦ y, bit 1 ↦ z; a set bit means "minus side" (as in the code) -/
def child (b : Box) (r : Nat) : Box :=
  let vw := b.w / 2
  ⟨⟨if r / 4 % 2 = 1 then b.c.x - vw else b.c.x + vw,
    if r / 2 % 2 = 1 then b.c.y - vw else b.c.y + vw,
    if r % 2 = 1 then b.c.z - vw else b.c.z + vw⟩, vw⟩

def inBox (b : Box) (p : P3) : Bool :=
  decide (b.c.x - b.w ≤ p.x) && decide (p.x ≤ b.c.x + b.w) &&
  decide (b.c.y - b.w ≤ p.y) && decide (p.y ≤ b.c.y + b.w) &&
  decide (b.c.z - b.w ≤ p.z) && decide (p.z ≤ b.c.z + b.w)

/-- first child (in the order 0..7 the code tries) that contains the point; 0 if none (cannot happen) -/
def pick (b : Box) (p : P3) : Nat := ((List.range 8).find? fun r => inBox (child b r) p).getD 0

/-- the digits chosen while descending `depth` levels -/
def assign (b : Box) (p : P3) : Nat → List Nat
  | 0 => []
  | d + 1 => let r := pick b p; r :: assign (child b r) p d

def boxOf (b : Box) : List Nat → Box
  | [] => b
  | r :: rs => boxOf (child b r) rs

def clamp (lo hi v : Rat) : Rat := if v < lo then lo else if hi < v then hi else v
def sq (a : Rat) : Rat := a * a
def dist2 (p q : P3) : Rat := sq (p.x - q.x) + sq (p.y - q.y) + sq (p.z - q.z)
/-- `possible_dist_min` squared -/
def lb2 (b : Box) (q : P3) : Rat :=
  sq (q.x - clamp (b.c.x - b.w) (b.c.x + b.w) q.x) + sq (q.y - clamp (b.c.y - b.w) (b.c.y + b.w) q.y)
  + sq (q.z - clamp (b.c.z - b.w) (b.c.z + b.w) q.z)

end Knn

namespace Knn
/-! explicit octree and the search loop -/
/-- (squared distance, target index) — a structure, not a product, so that it can carry its own order -/
structure Key where
  d : Rat
  idx : Nat
deriving Repr, DecidableEq

/-- heap order of `(-d, idx)` tuples read from the far end: nearer first, on ties the larger index first -/
def keyLe (a b : Key) : Bool := decide (a.d < b.d) || (decide (a.d = b.d) && decide (b.idx ≤ a.idx))

def insKeySorted (x : Key) : List Key → List Key
  | [] => [x]
  | y :: t => if keyLe x y then x :: y :: t else y :: insKeySorted x t
/-- `heapq.heappushpop` on the bounded result heap -/
def insKey (k : Nat) (x : Key) (r : List Key) : List Key := (insKeySorted x r).take k

inductive Oct where
  | empty
  | leaf (idxs : List Nat)
  | node (kids : Fin 8 → Oct)

/-- `build_octree_node`: descend `d` levels; children without points are `empty` (the search skips them) -/
def build (pt : Nat → P3) : Nat → Box → List Nat → Oct
  | 0, _, is => .leaf is
  | d + 1, b, is => .node fun r =>
      let cis := is.filter fun i => pick b (pt i) = r.val
      if cis.isEmpty then .empty else build pt d (child b r.val) cis

def Oct.idxs : Oct → List Nat
  | .empty => []
  | .leaf is => is
  | .node kids => (List.finRange 8).flatMap fun r => (kids r).idxs

def Oct.isEmpty : Oct → Bool
  | .empty => true
  | _ => false

/-- children of a boxed tree, each with its own box; `none` for a leaf -/
def kidList (b : Box) : Oct → Option (List (Box × Oct))
  | .empty => some []
  | .leaf _ => none
  | .node kids => some (((List.finRange 8).map fun r => (child b r.val, kids r)).filter fun bt => !bt.2.isEmpty)

abbrev QEntry := Rat × (Box × Oct)
def insQ (e : QEntry) : List QEntry → List QEntry
  | [] => [e]
  | f :: t => if e.1 ≤ f.1 then e :: f :: t else f :: insQ e t

structure CSt where
  queue : List QEntry
  res : List Key

def kthLt (res : List Key) (d : Rat) : Bool := match res.getLast? with | some m => decide (m.d < d) | none => false

def keysOf (pt : Nat → P3) (q : P3) (is : List Nat) : List Key := is.map fun i => ⟨dist2 q (pt i), i⟩

def step (pt : Nat → P3) (k : Nat) (q : P3) (s : CSt) : CSt :=
  match s.queue with
  | [] => s
  | (d, (b, t)) :: rest =>
    if s.res.length = k ∧ kthLt s.res d = true then ⟨rest, s.res⟩
    else match kidList b t with
      | some kids => ⟨kids.foldr (fun bt acc => insQ (lb2 bt.1 q, bt) acc) rest, s.res⟩
      | none => ⟨rest, (keysOf pt q t.idxs).foldl (fun r x => insKey k x r) s.res⟩

def iter (f : CSt → CSt) : Nat → CSt → CSt
  | 0, s => s
  | n + 1, s => iter f n (f s)

def run (pt : Nat → P3) (n depth k : Nat) (root : Box) (q : P3) (fuel : Nat) : CSt :=
  iter (step pt k q) fuel ⟨[(0, (root, build pt depth root (List.range n)))], []⟩

end Knn
