import Femio.Model.Geom
/-! C11: `femio/util/brick_generator.py` (core Lean only).

    Node `k` (0-based, id `k+1`) of the 3-D brick sits at grid point
    `(k % n_x, (k / n_x) % n_y, k / (n_x n_y))` (that is what `np.meshgrid` + `np.ravel` produce), at
    position `(x·hx, y·hy, z·hz)` with `hx = x_length / n_x_element` (`np.linspace`).  Elements are
    generated for the start indices `i` that pass the generator's filter. -/
namespace Femio.C11

/-- the filter of `_generate_brick_3d` (`n_x = nx+1`, `n_xy = n_x·n_y`) -/
def brickFilter3 (nx ny nz i : Nat) : Bool :=
  let n_x := nx + 1
  let n_xy := n_x * (ny + 1)
  (i + 1) % n_x != 0 && decide ((i + 1) % n_xy < 1 + n_xy - n_x) && decide (i < n_xy * nz)

/-- the filter of `_generate_brick_2d` -/
def brickFilter2 (nx ny i : Nat) : Bool :=
  let n_x := nx + 1
  (i + 1) % n_x != 0 && decide (i < n_x * ny)

def brickIdx3 (nx ny nz : Nat) : List Nat :=
  (List.range ((nx + 1) * (ny + 1) * (nz + 1))).filter (brickFilter3 nx ny nz)

def brickIdx2 (nx ny : Nat) : List Nat :=
  (List.range ((nx + 1) * (ny + 1))).filter (brickFilter2 nx ny)

/-- `generate_element(i)` for `hex` (0-based node indices; the generator adds 1 at the end) -/
def hexRow (n_x n_xy i : Nat) : List Nat :=
  [i, i + 1, i + 1 + n_x, i + n_x, i + n_xy, i + n_xy + 1, i + n_xy + 1 + n_x, i + n_xy + n_x]

/-- `generate_element(i)` for `tet`: the six tets of one cell -/
def tetRows (n_x n_xy i : Nat) : List (List Nat) :=
  let i1 := i; let i2 := i + 1; let i3 := i + n_x + 1; let i4 := i + n_x
  let i5 := i + n_xy; let i6 := i + n_xy + 1; let i7 := i + n_xy + n_x + 1; let i8 := i + n_xy + n_x
  [[i1, i2, i3, i5], [i2, i7, i5, i6], [i2, i3, i5, i7], [i1, i3, i4, i8], [i1, i3, i8, i5], [i3, i8, i5, i7]]

def quadRow (n_x i : Nat) : List Nat := [i, i + 1, i + 1 + n_x, i + n_x]
def triRows (n_x i : Nat) : List (List Nat) := [[i, i + 1, i + 1 + n_x], [i, i + 1 + n_x, i + n_x]]

/-- element rows (0-based node indices) -/
def brickRows (ty : String) (nx ny nz : Nat) : Option (List (List Nat)) :=
  let n_x := nx + 1
  let n_xy := n_x * (ny + 1)
  match ty with
  | "hex" => some ((brickIdx3 nx ny nz).map (hexRow n_x n_xy))
  | "tet" => some ((brickIdx3 nx ny nz).flatMap (tetRows n_x n_xy))
  | "quad" => some ((brickIdx2 nx ny).map (quadRow n_x))
  | "tri" => some ((brickIdx2 nx ny).flatMap (triRows n_x))
  | _ => none

/-- `element_connectivities` as returned (node ids = index + 1) -/
def brickConn (ty : String) (nx ny nz : Nat) : Option (List (List Nat)) :=
  (brickRows ty nx ny nz).map fun rows => rows.map fun r => r.map (· + 1)

section Pos
variable {R : Type} [NatCast R] [Mul R]

/-- position of node index `k` of the 3-D brick with spacings `hx hy hz` -/
def gridNode3 (nx ny : Nat) (hx hy hz : R) (k : Nat) : V3 R :=
  ⟨((k % (nx + 1) : Nat) : R) * hx, (((k / (nx + 1)) % (ny + 1) : Nat) : R) * hy,
   ((k / ((nx + 1) * (ny + 1)) : Nat) : R) * hz⟩

/-- position of node index `k` of the 2-D brick (z = 0) -/
def gridNode2 (nx : Nat) (hx hy : R) (zero : R) (k : Nat) : V3 R :=
  ⟨((k % (nx + 1) : Nat) : R) * hx, ((k / (nx + 1) : Nat) : R) * hy, zero⟩

def brickNodes3 (nx ny nz : Nat) (hx hy hz : R) : List (V3 R) :=
  (List.range ((nx + 1) * (ny + 1) * (nz + 1))).map (gridNode3 nx ny hx hy hz)

def brickNodes2 (nx ny : Nat) (hx hy zero : R) : List (V3 R) :=
  (List.range ((nx + 1) * (ny + 1))).map (gridNode2 nx hx hy zero)

end Pos

end Femio.C11
