import Femio.Model.FistrCnt
/-! Model of `FrontISTRData._read_node_groups` (the `!NGROUP, NGRP=name` blocks of the mesh file: one OR SEVERAL node ids per
data line, a group possibly defined in several blocks) and of reading a control file together with the mesh file that
defines the node groups its rows are addressed to — C03, group clause ("every node-group definition used in place of
explicit ids").  Core Lean only. -/
namespace Femio.Fistr

/-- how the data lines of one `!NGROUP` block become ids -/
structure NgCfg where
  /-- upstream: `to_values(data_type=int)` = `str.split(',', expand=True).astype(int)`: lines with fewer fields than the longest
      are padded with `None` and the conversion raises, i.e. every line of a block must have the same number of ids.
      `false` = the repair (each line converted by itself) -/
  rect : Bool
  /-- a reader that picks "the" id of each line (`str.extract(r'(\d+)')`, first match only): the structure of seeded change C03-10.
      Upstream: `false` -/
  firstOnly : Bool
deriving DecidableEq, Repr

/-- upstream femio -/
def NgCfg.upstream : NgCfg := ⟨true, false⟩
/-- the reader with the ragged-block repair -/
def NgCfg.repaired : NgCfg := ⟨false, false⟩

def sameLengths (rows : List (List Nat)) : Bool :=
  match rows with
  | [] => true
  | r :: t => t.all fun x => x.length == r.length

/-- the ids of one block -/
def ngBlockIds (cfg : NgCfg) (lines : List Line) : Option (List Nat) := do
  let rows ← lines.mapM parseRowI
  if cfg.rect && !sameLengths rows then none
  else pure (if cfg.firstOnly then rows.filterMap List.head? else rows.flatten)

/-- `_read_node_groups`: `ALL` = every node of the file; the blocks of one name are concatenated in file order -/
def readNodeGroups (cfg : NgCfg) (all : List Nat) (bs : List (Line × List Line)) : Option (List (Name × List Nat)) := do
  let gbs := blocksOf c!"!NGROUP" bs
  let names ← gbs.mapM fun b => capture c!"NGRP=" b.1
  let vals ← gbs.mapM fun b => if b.2.isEmpty then none else ngBlockIds cfg b.2
  pure (dictOfList ((c!"ALL", all) :: (names.zip vals).foldl (fun d p => dictAppend p.1 p.2 d) []))

/-- the analysis conditions read from a mesh file + control file pair: the node groups come from the mesh TEXT -/
def readCntFiles (cfg : NgCfg) (msh cnt : List Line) : Option CntRead := do
  let bs := toBlocks msh
  let nodes ← readNodes bs
  let ng ← readNodeGroups cfg (nodes.map (·.1)) bs
  readCnt ng cnt

/-- one `!NGROUP` block as text: header + one line per chunk of ids (`%d` joined by commas) -/
def ngBlockText (name : Name) (chunks : List (List Nat)) : List Line :=
  (c!"!NGROUP, NGRP=" ++ name) :: chunks.map renderNatRow

end Femio.Fistr
