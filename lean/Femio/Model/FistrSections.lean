import Femio.Model.FistrMsh
/-! Several sections, each with one material (C01, round 5): the part of `FistrWriter.write_msh` that writes the section
and the material table when there is more than one row, and `_resolve_assignments_materials` of the reader
(`_extract_ids_from_sections` and `_extract_material_values` walk the section table together).  Core Lean only.
The relation section → material is many-to-one (two parts made of the same material): the section table is a LIST of
rows `(material, group)`, not a dictionary keyed by the material name. -/
namespace Femio.Fistr
open Numeral

/-- one row of the section table: `!SECTION, TYPE=…, EGRP=…, MATERIAL=…` (+ the shell parameter line) -/
def secRowLines (s : Bool × Name × Name) : List Line :=
  (c!"!SECTION,TYPE=" ++ (if s.1 then c!"SHELL" else c!"SOLID") ++ c!",EGRP=" ++ s.2.1 ++ c!",MATERIAL=" ++ s.2.2)
    :: (if s.1 then [c!"1.0,1"] else [])

/-- one row of the material table (STATIC: Young's modulus, Poisson ratio; 8 decimals) -/
def matRowLines (m : Name × Sci × Sci) : List Line :=
  [c!"!MATERIAL,NAME=" ++ m.1 ++ c!",ITEM=1", c!"!ITEM=1,SUBITEM=2", renderSci 8 m.2.1 ++ ',' :: renderSci 8 m.2.2]

/-- the writer: all section rows `(shell, group, material)` in table order, then all materials in their own table order -/
def secMatLines (secs : List (Bool × Name × Name)) (mats : List (Name × Sci × Sci)) : List Line :=
  secs.flatMap secRowLines ++ mats.flatMap matRowLines

/-- `_resolve_assignments_materials`: for every row `(material, group)` of the section table, in table order, the members
    of the group, each with the value of the material (`none`: a group / material the row names does not exist — the
    real code raises `KeyError`) -/
def assignRows {β} (groups : List (Name × List Nat)) (mats : List (Name × β)) :
    List (Name × Name) → Option (List (Nat × β))
  | [] => some []
  | s :: t =>
    match lookupS s.2 groups, lookupS s.1 mats, assignRows groups mats t with
    | some ids, some v, some r => some (ids.map (fun i => (i, v)) ++ r)
    | _, _, _ => none

/-- the section walk through a dictionary `material name ↦ group` (what `dict(zip(materials, groups))` builds): two
    sections that share a material collapse into the last one -/
def assignRowsDict {β} (groups : List (Name × List Nat)) (mats : List (Name × β)) (secs : List (Name × Name)) :
    Option (List (Nat × β)) :=
  assignRows groups mats (dictOfList secs)

/-- the assignment the real reader would make from what `readMsh` returned (values = the material's `!ITEM` row) -/
def assignOfRead (r : MshRead) : Option (List (Nat × List Dec)) :=
  assignRows r.egroups r.materials (r.sections.map fun s => (s.1, s.2.2))

end Femio.Fistr
