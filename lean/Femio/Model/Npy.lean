/-! Model of FEMData.save / read_directory as a directory state machine with crash points (C05). Core only. -/
namespace Npy

inductive File | nodes | elements | nodal | elemental | constraints | settings | sentinel
deriving Repr, DecidableEq

/-- an object to be saved: `tag` identifies its content; flags say which optional groups are non-empty -/
structure Obj where
  tag : Nat
  hasNodal : Bool
  hasElemental : Bool
  hasConstraints : Bool
deriving Repr, DecidableEq

/-- directory: for every cache file, the tag of the object it was written from (`none` = absent) -/
abbrev Dir := File → Option Nat

structure Cfg where
  unlinkFirst : Bool     -- `save` removes an existing sentinel before rewriting (repair F6b)
  removeStale : Bool     -- `save` deletes optional files whose group is empty (repair F6c)
deriving Repr, DecidableEq
def Cfg.current : Cfg := ⟨false, false⟩
def Cfg.fixed : Cfg := ⟨true, true⟩

inductive Step | write (f : File) (t : Nat) | remove (f : File) | nop
deriving Repr, DecidableEq

def Step.apply (d : Dir) : Step → Dir
  | .write f t => fun g => if g = f then some t else d g
  | .remove f => fun g => if g = f then none else d g
  | .nop => d

def optStep (cfg : Cfg) (has : Bool) (f : File) (t : Nat) : Step :=
  if has then .write f t else if cfg.removeStale then .remove f else .nop

/-- the ordered effects of one `save` (order = traced `npyFileOrder`) -/
def saveSteps (cfg : Cfg) (x : Obj) : List Step :=
  [ if cfg.unlinkFirst then .remove .sentinel else .nop,
    .write .nodes x.tag, .write .elements x.tag,
    optStep cfg x.hasNodal .nodal x.tag, optStep cfg x.hasElemental .elemental x.tag,
    optStep cfg x.hasConstraints .constraints x.tag,
    .write .settings x.tag, .write .sentinel x.tag ]

/-- `save` interrupted after `k` effects (k ≥ 8 = completed) -/
def crashSave (cfg : Cfg) (d : Dir) (x : Obj) (k : Nat) : Dir := ((saveSteps cfg x).take k).foldl Step.apply d

def expected (x : Obj) : Dir
  | .nodes | .elements | .settings | .sentinel => some x.tag
  | .nodal => if x.hasNodal then some x.tag else none
  | .elemental => if x.hasElemental then some x.tag else none
  | .constraints => if x.hasConstraints then some x.tag else none

/-- what `read_npy_directory` assembles: per file, whose content it loaded -/
structure Loaded where
  files : Dir
deriving Inhabited

/-- `read_directory(read_npy=True, save=True)` with source object `src` -/
def read (cfg : Cfg) (d : Dir) (src : Obj) : Dir × Dir :=   -- (what was returned, directory afterwards)
  if (d .sentinel).isSome then (d, d) else (expected src, crashSave cfg d src 8)

end Npy
