/-! Model of femio.FEMAttribute as two views of one table (C08). Core only.
    `Val = Option Rat` with `none` = NaN.  `frame` is `_data_frame` (index = ids), `data` is `_data`. -/
namespace Attr

abbrev Id := Nat
abbrev Val := Option Rat
abbrev Row := List Val

inductive Err | valueError | keyError | other
deriving Repr, DecidableEq

/-- which of the repairs (F2, F3, F4 of DESIGN §5; round 3: single-int `iloc` label, slices own their data) are present
in the code being modelled -/
structure Cfg where
  syncParent : Bool        -- `_update_parent` refreshes the parent's positional `_data`
  overwriteSetter : Bool   -- `FEMAttributes.overwrite` goes through the `data` setter
  rebuildIndex : Bool      -- `id2index` is rebuilt when the frame changes
  ilocLabel : Bool := true      -- `a.iloc[k]` (one int) is labelled with the id stored at `k` (upstream: with `k` itself)
  sliceOwnsData : Bool := true  -- a slice copies its rows (upstream: `_data` may be a view of the parent's block)
deriving Repr, DecidableEq

def Cfg.current : Cfg := ⟨false, false, false, false, false⟩   -- the pinned upstream commit
def Cfg.fixed : Cfg := ⟨true, true, true, true, true⟩

structure State where
  ids : List Id
  frame : List Row                      -- rows of `_data_frame`, aligned with `ids`
  data : List Row                       -- rows of `_data`
  id2index : Option (List (Id × Nat))   -- only for `generate_id2index=True`
deriving Repr, DecidableEq

def enumIds (ids : List Id) : List (Id × Nat) := ids.zipIdx

def mk (ids : List Id) (rows : List Row) (withIndex : Bool) : Except Err State :=
  if ids.length ≠ rows.length then .error .valueError
  else .ok ⟨ids, rows, rows, if withIndex then some (enumIds ids) else none⟩

def lookupRow (ids : List Id) (rows : List Row) (i : Id) : Option Row :=
  match ids, rows with
  | a :: as, r :: rs => if a = i then some r else lookupRow as rs i
  | _, _ => none

/-- `.data = v` -/
def setData (s : State) (v : List Row) : Except Err State :=
  if s.ids.length ≠ v.length then .error .valueError
  else .ok { s with frame := v, data := v }

/-- insert into an ascending id list (pandas sorts the union index) -/
def insertSorted (i : Id) (r : Row) : List (Id × Row) → List (Id × Row)
  | [] => [(i, r)]
  | (j, q) :: t => if i < j then (i, r) :: (j, q) :: t else (j, q) :: insertSorted i r t

def sortById (l : List (Id × Row)) : List (Id × Row) := l.foldr (fun p acc => insertSorted p.1 p.2 acc) []

/-- cell-wise `new.combine_first(old)`: new unless NaN -/
def combineRow (new old : Row) : Row := List.zipWith (fun n o => match n with | some x => some x | none => o) new old

/-- `combine_first`, rows of ids that were present: new cells unless NaN -/
def mergeCell (ids' : List Id) (rows : List Row) (i : Id) (r : Row) : Row :=
  match lookupRow ids' rows i with
  | some n => combineRow n r
  | none => r
def mergedOld (ids' : List Id) (rows : List Row) (olds : List (Id × Row)) : List (Id × Row) :=
  olds.map fun p => (p.1, mergeCell ids' rows p.1 p.2)
/-- … and the rows of ids that were not present -/
def newOnly (ids : List Id) (news : List (Id × Row)) : List (Id × Row) := news.filter fun p => !ids.contains p.1

/-- `update(ids', rows, allow_overwrite=True)` -/
def updateOverwrite (cfg : Cfg) (s : State) (ids' : List Id) (rows : List Row) : Except Err State :=
  if ids'.length ≠ rows.length then .error .valueError
  else
    let merged : List (Id × Row) := mergedOld ids' rows (s.ids.zip s.frame) ++ newOnly s.ids (ids'.zip rows)
    -- pandas: the union of two *identical* indexes is returned as it is; any other union is sorted
    let sorted := if ids' = s.ids then merged else sortById merged
    let ids2 := sorted.map Prod.fst
    let rows2 := sorted.map Prod.snd
    .ok { ids := ids2, frame := rows2, data := rows2,
          id2index := if cfg.rebuildIndex then s.id2index.map (fun _ => enumIds ids2) else s.id2index }

/-- `update(..., allow_overwrite=False)`: `DataFrame.append` no longer exists in the installed pandas -/
def updateAppend (_s : State) (_ids' : List Id) (_rows : List Row) : Except Err State := .error .other

def setRow (ids : List Id) (rows : List Row) (i : Id) (r : Row) : List Row :=
  match ids, rows with
  | a :: as, q :: qs => (if a = i then r else q) :: setRow as qs i r
  | _, rs => rs

/-- `a.loc[sel].data = v` : child built by `_Indexer`, its data setter, then `_update_parent` -/
def locWrite (cfg : Cfg) (s : State) (sel : List Id) (v : List Row) : Except Err State :=
  if sel.any (fun i => !s.ids.contains i) then .error .keyError
  else if sel.length ≠ v.length then .error .valueError
  else
    let frame' := (sel.zip v).foldl (fun fr (i, r) => setRow s.ids fr i r) s.frame
    .ok { s with frame := frame', data := if cfg.syncParent then frame' else s.data }

/-- `FEMAttributes.overwrite(name, data)` without ids -/
def overwrite (cfg : Cfg) (s : State) (v : List Row) : Except Err State :=
  if cfg.overwriteSetter then setData s v else .ok { s with data := v }


/-- `a.iloc[pos].data = v` : the same write-through, rows selected by position -/
def ilocWrite (cfg : Cfg) (s : State) (pos : List Nat) (v : List Row) : Except Err State :=
  match pos.mapM (fun k => s.ids[k]?) with
  | none => .error .keyError
  | some sel => locWrite cfg s sel v

/-- `FEMAttributes.overwrite(name, data, ids=ids)`: the attribute is replaced by a fresh one -/
def overwriteIds (s : State) (ids : List Id) (v : List Row) : Except Err State :=
  mk ids v false

/-! read paths -/
/-- `a.data[k]` -/
def dataView (s : State) (k : Nat) : Option Row := s.data[k]?
/-- `a.loc[i].data`, `a[i]` -/
def locView (s : State) (i : Id) : Option Row := lookupRow s.ids s.frame i
/-- `a.iloc[k].data` -/
def ilocView (s : State) (k : Nat) : Option Row := s.frame[k]?
/-- `a.filter_with_ids(sel).data` (KeyError if an id is missing) -/
def filterWithIds (s : State) (sel : List Id) : Option (List Row) := sel.mapM (locView s)
def lookupIdx (i : Id) : List (Id × Nat) → Option Nat
  | [] => none
  | (j, k) :: t => if j = i then some k else lookupIdx i t
/-- `a.ids2indices([i])` for `generate_id2index=True` -/
def ids2indices (s : State) (i : Id) : Option Nat := s.id2index.bind (lookupIdx i)

inductive Op
  | setData (v : List Row)
  | update (ids : List Id) (rows : List Row) (allowOverwrite : Bool)
  | locWrite (sel : List Id) (v : List Row)
  | overwrite (v : List Row)
  | ilocWrite (pos : List Nat) (v : List Row)
  | overwriteIds (ids : List Id) (v : List Row)
deriving Repr, DecidableEq

/-- a failing operation leaves the object as it was (the real code raises before mutating) -/
def step (cfg : Cfg) (s : State) : Op → State
  | .setData v => match setData s v with | .ok t => t | .error _ => s
  | .update i r true => match updateOverwrite cfg s i r with | .ok t => t | .error _ => s
  | .update i r false => match updateAppend s i r with | .ok t => t | .error _ => s
  | .locWrite sel v => match locWrite cfg s sel v with | .ok t => t | .error _ => s
  | .overwrite v => match overwrite cfg s v with | .ok t => t | .error _ => s
  | .ilocWrite p v => match ilocWrite cfg s p v with | .ok t => t | .error _ => s
  | .overwriteIds i v => match overwriteIds s i v with | .ok t => t | .error _ => s

/-- the `Except` behind `step` (same functions; `step` maps an error to "state unchanged") -/
def stepE (cfg : Cfg) (s : State) : Op → Except Err State
  | .setData v => setData s v
  | .update i r true => updateOverwrite cfg s i r
  | .update i r false => updateAppend s i r
  | .locWrite sel v => locWrite cfg s sel v
  | .overwrite v => overwrite cfg s v
  | .ilocWrite p v => ilocWrite cfg s p v
  | .overwriteIds i v => overwriteIds s i v

/-! ### histories with references retained by the caller

A slice `c = a.loc[sel]` / `a.iloc[pos]` is itself an attribute (a copy of the selected rows, keyed by the selected
ids) that remembers its parent OBJECT.  The caller may keep it, update the parent in between, and write through
it later: `c.data = v` / `c.update(ids, rows, allow_overwrite=True)` change the slice and then `_update_parent`
writes the slice's frame into the parent's frame **by id, against the parent as it is at that moment**.
Read-only references the caller keeps (the array returned by `.data`, the `data_frame`, pieces of it) are counted
but have no effect. -/

/-- `a.loc[sel]` : the rows selected by id, as a new attribute (`generate_id2index` inherited) -/
def take (s : State) (sel : List Id) : Except Err State :=
  match sel.mapM (lookupRow s.ids s.frame) with
  | none => .error .keyError
  | some rows => .ok ⟨sel, rows, rows, s.id2index.map fun _ => enumIds sel⟩

/-- `a.iloc[pos]` -/
def takeI (s : State) (pos : List Nat) : Except Err State :=
  match pos.mapM (fun k => s.ids[k]?) with
  | none => .error .keyError
  | some sel => take s sel

/-- `_update_parent` of a slice `c` on the parent `p` as it is now: `p.frame.loc[c.ids] = c.frame` -/
def writeBack (cfg : Cfg) (p c : State) : Except Err State := locWrite cfg p c.ids c.frame

structure Hist where
  cur : State            -- the attribute
  held : List State      -- slices of it the caller still holds (oldest first)
  refs : Nat             -- read-only references the caller still holds (`.data`, `.data_frame`, pieces of it)
  /-- upstream only (`sliceOwnsData = false`), parallel to `held`: `some pos` when the slice's positional `_data` is a
  live view of rows `pos` of the parent's frame block (pandas served the key as a view).  Always `none` in the repaired code. -/
  vws : List (Option (List Nat)) := []
deriving Repr, DecidableEq

inductive HOp
  | pub (op : Op)                                        -- a public update of the attribute itself
  | keepRef                                              -- keep what `.data` / `.data_frame` returned
  | take (sel : List Id)                                 -- keep `a.loc[sel]`
  | takeI (pos : List Nat)                               -- keep `a.iloc[pos]` (a list: pandas copies the rows)
  | heldSet (k : Nat) (v : List Row)                     -- `held[k].data = v`
  | heldUpdate (k : Nat) (ids : List Id) (rows : List Row)   -- `held[k].update(ids, rows, allow_overwrite=True)`
  | drop (k : Nat)                                       -- forget a slice
  | takeI1 (k : Nat)                                     -- keep `a.iloc[k]`, ONE int
  | takeView (pos : List Nat)                            -- keep `a.iloc[i:j]` / a mask / an identity take: keys pandas serves as views
deriving Repr, DecidableEq

/-- `a.iloc[k]` with one int.  Upstream labelled the slice with the key (`ids = [key]`), i.e. with the POSITION. -/
def takeI1 (cfg : Cfg) (s : State) (k : Nat) : Except Err State :=
  if cfg.ilocLabel then takeI s [k]
  else match s.frame[k]? with
    | none => .error .keyError
    | some r => .ok ⟨[k], [r], [r], s.id2index.map fun _ => enumIds [k]⟩

def severAll (h : Hist) : Hist := { h with vws := h.vws.map fun _ => none }

/-- after an IN-PLACE write into the parent's frame (`_update_parent`).  Upstream: a slice whose `_data` is a view of the
parent's block shows the new rows positionally while its own frame (a copy) does not; when another pandas reference to the
block is alive copy-on-write copies the block first and the views stay behind (simplified: any retained reference counts). -/
def refreshAliases (cfg : Cfg) (h : Hist) : Hist :=
  if cfg.sliceOwnsData then h
  else if h.refs ≠ 0 then severAll h
  else { h with held := List.zipWith (fun c a => match a with
      | none => c
      | some pos => { c with data := pos.filterMap fun k => h.cur.frame[k]? }) h.held (h.vws ++ h.held.map fun _ => none) }

/-- the slice is changed first (its own setter), then written back; when the write-back fails (an id of the slice
is not an id of the parent) the slice stays changed and the parent is untouched — as in the code -/
def heldApply (cfg : Cfg) (h : Hist) (k : Nat) (f : State → Except Err State) : Option Err × Hist :=
  match h.held[k]? with
  | none => (some .keyError, h)
  | some c =>
    match f c with
    | .error e => (some e, h)
    | .ok c' =>
      let h' := { h with held := h.held.set k c', vws := h.vws.set k none }
      match writeBack cfg h.cur c' with
      | .error e => (some e, h')
      | .ok p' => (none, refreshAliases cfg { h' with cur := p' })

def hstepE (cfg : Cfg) (h : Hist) : HOp → Option Err × Hist
  | .pub op =>
    match stepE cfg h.cur op with
    | .error e => (some e, h)
    | .ok t =>
      match op with
      -- `overwrite(name, data, ids=…)` puts a NEW object into the collection: the slices held belong to the old one
      | .overwriteIds _ _ => (none, { h with cur := t, held := [], vws := [] })
      -- written in place into the frame
      | .locWrite _ _ => (none, refreshAliases cfg { h with cur := t })
      | .ilocWrite _ _ => (none, refreshAliases cfg { h with cur := t })
      -- the frame is replaced by a new one
      | _ => (none, severAll { h with cur := t })
  | .keepRef => (none, { h with refs := h.refs + 1 })
  | .take sel => match take h.cur sel with
    | .error e => (some e, h)
    | .ok c => (none, { h with held := h.held ++ [c], vws := h.vws ++ [none] })
  | .takeI pos => match takeI h.cur pos with
    | .error e => (some e, h)
    | .ok c => (none, { h with held := h.held ++ [c], vws := h.vws ++ [none] })
  | .takeI1 k => match takeI1 cfg h.cur k with
    | .error e => (some e, h)
    | .ok c => (none, { h with held := h.held ++ [c], vws := h.vws ++ [none] })
  | .takeView pos => match takeI h.cur pos with
    | .error e => (some e, h)
    | .ok c => (none, { h with held := h.held ++ [c], vws := h.vws ++ [if cfg.sliceOwnsData then none else some pos] })
  | .heldSet k v => heldApply cfg h k (fun c => setData c v)
  | .heldUpdate k i r => heldApply cfg h k (fun c => updateOverwrite cfg c i r)
  | .drop k => (none, { h with held := h.held.eraseIdx k, vws := h.vws.eraseIdx k })

def hstep (cfg : Cfg) (h : Hist) (op : HOp) : Hist := (hstepE cfg h op).2

/-! ### collections (`FEMAttributes`): every attribute has its own ids, in its own order -/

/-- position of an id in the attribute's own storage order -/
def posOf : List Id → Id → Option Nat
  | [], _ => none
  | a :: t, i => if a = i then some 0 else (posOf t i).map (· + 1)

/-- `FEMAttributes.filter_with_ids(sel)` / `extract_dict(sel)`: every attribute is filtered by id on its OWN index -/
def collFilter (c : List State) (sel : List Id) : Option (List (List Row)) := c.mapM fun s => filterWithIds s sel
/-- `get_data_length()`: the common length, `none` (ValueError) when the lengths differ -/
def collLength : List State → Option Nat
  | [] => none
  | s :: t => if t.all (fun u => u.ids.length == s.ids.length) then some s.ids.length else none
/-- `set_attribute_data(key, data)`: a new attribute over the ids of the FIRST attribute, in its order -/
def collSetAttr (c : List State) (v : List Row) : Except Err State :=
  match c with
  | [] => .error .other
  | s :: _ => if collLength c = none then .error .valueError else mk s.ids v false

/-- the two views describe the same table, and the id→position map is the enumeration of ids -/
def InvB (s : State) : Bool :=
  s.frame == s.data && s.ids.length == s.frame.length &&
  (match s.id2index with | none => true | some m => m == enumIds s.ids)

end Attr
