/-! Model of femio.FEMAttribute as two views of one table (C08). Core only.
    `Val = Option Rat` with `none` = NaN.  `frame` is `_data_frame` (index = ids), `data` is `_data`. -/
namespace Attr

abbrev Id := Nat
abbrev Val := Option Rat
abbrev Row := List Val

inductive Err | valueError | keyError | other
deriving Repr, DecidableEq

/-- which of the three repairs (F2, F3, F4 of DESIGN §5) are present in the code being modelled -/
structure Cfg where
  syncParent : Bool        -- `_update_parent` refreshes the parent's positional `_data`
  overwriteSetter : Bool   -- `FEMAttributes.overwrite` goes through the `data` setter
  rebuildIndex : Bool      -- `id2index` is rebuilt when the frame changes
deriving Repr, DecidableEq

def Cfg.current : Cfg := ⟨false, false, false⟩   -- the pinned upstream commit
def Cfg.fixed : Cfg := ⟨true, true, true⟩

structure State where
  ids : List Id
  frame : List Row                      -- rows of `_data_frame`, aligned with `ids`
  data : List Row                       -- rows of `_data`
  id2index : Option (List (Id × Nat))   -- only for `generate_id2index=True`
deriving Repr, DecidableEq

def enumIds (ids : List Id) : List (Id × Nat) := ids.zipIdx

def mk (ids : List Id) (rows : List Row) (withIndex : Bool) : Except Err State :=
  if ids.length ≠ rows.length then .error .valueError
  else .ok ⟨ids, rows, rows, if withIndex then some (enumIds ids) else none⟩

def lookupRow (ids : List Id) (rows : List Row) (i : Id) : Option Row :=
  match ids, rows with
  | a :: as, r :: rs => if a = i then some r else lookupRow as rs i
  | _, _ => none

/-- `.data = v` -/
def setData (s : State) (v : List Row) : Except Err State :=
  if s.ids.length ≠ v.length then .error .valueError
  else .ok { s with frame := v, data := v }

/-- insert into an ascending id list (pandas sorts the union index) -/
def insertSorted (i : Id) (r : Row) : List (Id × Row) → List (Id × Row)
  | [] => [(i, r)]
  | (j, q) :: t => if i < j then (i, r) :: (j, q) :: t else (j, q) :: insertSorted i r t

def sortById (l : List (Id × Row)) : List (Id × Row) := l.foldr (fun p acc => insertSorted p.1 p.2 acc) []

/-- cell-wise `new.combine_first(old)`: new unless NaN -/
def combineRow (new old : Row) : Row := List.zipWith (fun n o => match n with | some x => some x | none => o) new old

/-- `combine_first`, rows of ids that were present: new cells unless NaN -/
def mergeCell (ids' : List Id) (rows : List Row) (i : Id) (r : Row) : Row :=
  match lookupRow ids' rows i with
  | some n => combineRow n r
  | none => r
def mergedOld (ids' : List Id) (rows : List Row) (olds : List (Id × Row)) : List (Id × Row) :=
  olds.map fun p => (p.1, mergeCell ids' rows p.1 p.2)
/-- … and the rows of ids that were not present -/
def newOnly (ids : List Id) (news : List (Id × Row)) : List (Id × Row) := news.filter fun p => !ids.contains p.1

/-- `update(ids', rows, allow_overwrite=True)` -/
def updateOverwrite (cfg : Cfg) (s : State) (ids' : List Id) (rows : List Row) : Except Err State :=
  if ids'.length ≠ rows.length then .error .valueError
  else
    let merged : List (Id × Row) := mergedOld ids' rows (s.ids.zip s.frame) ++ newOnly s.ids (ids'.zip rows)
    -- pandas: the union of two *identical* indexes is returned as it is; any other union is sorted
    let sorted := if ids' = s.ids then merged else sortById merged
    let ids2 := sorted.map Prod.fst
    let rows2 := sorted.map Prod.snd
    .ok { ids := ids2, frame := rows2, data := rows2,
          id2index := if cfg.rebuildIndex then s.id2index.map (fun _ => enumIds ids2) else s.id2index }

/-- `update(..., allow_overwrite=False)`: `DataFrame.append` no longer exists in the installed pandas -/
def updateAppend (_s : State) (_ids' : List Id) (_rows : List Row) : Except Err State := .error .other

def setRow (ids : List Id) (rows : List Row) (i : Id) (r : Row) : List Row :=
  match ids, rows with
  | a :: as, q :: qs => (if a = i then r else q) :: setRow as qs i r
  | _, rs => rs

/-- `a.loc[sel].data = v` : child built by `_Indexer`, its data setter, then `_update_parent` -/
def locWrite (cfg : Cfg) (s : State) (sel : List Id) (v : List Row) : Except Err State :=
  if sel.any (fun i => !s.ids.contains i) then .error .keyError
  else if sel.length ≠ v.length then .error .valueError
  else
    let frame' := (sel.zip v).foldl (fun fr (i, r) => setRow s.ids fr i r) s.frame
    .ok { s with frame := frame', data := if cfg.syncParent then frame' else s.data }

/-- `FEMAttributes.overwrite(name, data)` without ids -/
def overwrite (cfg : Cfg) (s : State) (v : List Row) : Except Err State :=
  if cfg.overwriteSetter then setData s v else .ok { s with data := v }


/-- `a.iloc[pos].data = v` : the same write-through, rows selected by position -/
def ilocWrite (cfg : Cfg) (s : State) (pos : List Nat) (v : List Row) : Except Err State :=
  match pos.mapM (fun k => s.ids[k]?) with
  | none => .error .keyError
  | some sel => locWrite cfg s sel v

/-- `FEMAttributes.overwrite(name, data, ids=ids)`: the attribute is replaced by a fresh one -/
def overwriteIds (s : State) (ids : List Id) (v : List Row) : Except Err State :=
  mk ids v false

/-! read paths -/
/-- `a.data[k]` -/
def dataView (s : State) (k : Nat) : Option Row := s.data[k]?
/-- `a.loc[i].data`, `a[i]` -/
def locView (s : State) (i : Id) : Option Row := lookupRow s.ids s.frame i
/-- `a.iloc[k].data` -/
def ilocView (s : State) (k : Nat) : Option Row := s.frame[k]?
/-- `a.filter_with_ids(sel).data` (KeyError if an id is missing) -/
def filterWithIds (s : State) (sel : List Id) : Option (List Row) := sel.mapM (locView s)
def lookupIdx (i : Id) : List (Id × Nat) → Option Nat
  | [] => none
  | (j, k) :: t => if j = i then some k else lookupIdx i t
/-- `a.ids2indices([i])` for `generate_id2index=True` -/
def ids2indices (s : State) (i : Id) : Option Nat := s.id2index.bind (lookupIdx i)

inductive Op
  | setData (v : List Row)
  | update (ids : List Id) (rows : List Row) (allowOverwrite : Bool)
  | locWrite (sel : List Id) (v : List Row)
  | overwrite (v : List Row)
  | ilocWrite (pos : List Nat) (v : List Row)
  | overwriteIds (ids : List Id) (v : List Row)
deriving Repr, DecidableEq

/-- a failing operation leaves the object as it was (the real code raises before mutating) -/
def step (cfg : Cfg) (s : State) : Op → State
  | .setData v => match setData s v with | .ok t => t | .error _ => s
  | .update i r true => match updateOverwrite cfg s i r with | .ok t => t | .error _ => s
  | .update i r false => match updateAppend s i r with | .ok t => t | .error _ => s
  | .locWrite sel v => match locWrite cfg s sel v with | .ok t => t | .error _ => s
  | .overwrite v => match overwrite cfg s v with | .ok t => t | .error _ => s
  | .ilocWrite p v => match ilocWrite cfg s p v with | .ok t => t | .error _ => s
  | .overwriteIds i v => match overwriteIds s i v with | .ok t => t | .error _ => s

/-- the two views describe the same table, and the id→position map is the enumeration of ids -/
def InvB (s : State) : Bool :=
  s.frame == s.data && s.ids.length == s.frame.length &&
  (match s.id2index with | none => true | some m => m == enumIds s.ids)

end Attr
