import Femio.Model.GeomKernels
/-! # Call histories of `calculate_element_volumes / _areas / _metrics` on ONE object (C11, stream `sequence`)

The three queries store their result in `elemental_data['volume' | 'area' | 'metric']` and a later call made with
`elements=None` returns the STORED variable through `_validate_metric`, whatever `mode` / `return_abs_*` it asks for
(the open known finding `options-ignored:<query>` of C19; transcribed here as the code is).  What the property needs
from such a history is (i) every value that comes out is a value the same query returns on a fresh object for some
(mode, options) - in particular its sign is that of the element -, and (ii) a call answered from the stored variable
does not modify it (`metric = np.abs(metric)` builds a new array).  `HCfg.absInPlace` is the variant
`np.abs(metric, out=metric)` (seeded change C11-5), for which (ii) and with it "sign change exactly under a
reflection" fail on the history [signed, absolute, signed] (`Props/C11History.lean`).

Core Lean only.  Values are abstract (`V` = `Rat` for signed volumes, `AreaNF` for areas, which have no sign). -/
namespace Femio.C11

/-- what `_validate_metric` does with one value: `metric < 0.` and `np.abs` -/
structure Sgn (V : Type) where
  isNeg : V → Bool
  abs : V → V

/-- `raise_negative_*`, `return_abs_*` -/
structure Opts where
  raiseNeg : Bool
  retAbs : Bool
deriving DecidableEq, Repr

structure HCfg where
  /-- `np.abs(metric, out=metric)` instead of `metric = np.abs(metric)` -/
  absInPlace : Bool
deriving DecidableEq, Repr

/-- the tree: `_validate_metric` returns a new array -/
def HCfg.tree : HCfg := ⟨false⟩
/-- seeded change C11-5 -/
def HCfg.inPlace : HCfg := ⟨true⟩

/-- per-element values of one variable: (element id, value) -/
abbrev Vals (V : Type) := List (Nat × V)

inductive Out (V : Type)
  | vals (v : Vals V)
  | negative            -- `ValueError("Negative metric found")`
  | unsupported         -- `NotImplementedError` (`calculate_element_metrics` has no `pyr` branch)
  | updateError         -- `update_data` without `allow_overwrite` on a variable that exists (DESIGN §5 F5)

def absVals {V : Type} (S : Sgn V) (v : Vals V) : Vals V := v.map fun x => (x.1, S.abs x.2)
def anyNeg {V : Type} (S : Sgn V) (v : Vals V) : Bool := v.any fun x => S.isNeg x.2

/-- `_validate_metric`; `none` = raises -/
def validate {V : Type} (S : Sgn V) (o : Opts) (v : Vals V) : Option (Vals V) :=
  if o.raiseNeg && anyNeg S v then none else some (if o.retAbs then absVals S v else v)

/-- the stored derived variables: `base` = `'volume'` (solid mesh) / `'area'` (shell mesh), `metric` = `'metric'` -/
structure HState (V : Type) where
  base : Option (Vals V)
  metric : Option (Vals V)

def HState.empty {V : Type} : HState V := ⟨none, none⟩

inductive Api | base | metric
deriving DecidableEq, Repr

structure Call where
  api : Api
  mode : Mode
  opts : Opts
  /-- `elements=self.elements` passed explicitly: the stored variable is not consulted -/
  explicit : Bool
  update : Bool

/-- what the history needs to know about the mesh -/
structure MeshInfo (V : Type) where
  /-- signed per-element values the kernels + assembly give in each mode (what a fresh object computes) -/
  fresh : Mode → Vals V
  /-- `element_type == 'mix'`: `calculate_element_metrics` then stores `'metric'` only -/
  mixed : Bool
  /-- every block has a branch in `calculate_element_metrics` (false iff a block is `pyr`) -/
  metricSupported : Bool

/-- a call answered from the stored variable `w`: `_validate_metric(stored)`; `set r` = the state in which the variable
    holds `r` (only the in-place variant writes) -/
def readStored {V : Type} (cfg : HCfg) (S : Sgn V) (c : Call) (w : Vals V) (s : HState V) (set : Vals V → HState V) :
    Out V × HState V :=
  match validate S c.opts w with
  | none => (.negative, s)
  | some r => (.vals r, if cfg.absInPlace && c.opts.retAbs then set r else s)

/-- `calculate_element_volumes` / `_areas` computing from the mesh -/
def baseCompute {V : Type} (S : Sgn V) (mi : MeshInfo V) (c : Call) (s : HState V) : Out V × HState V :=
  match validate S c.opts (mi.fresh c.mode) with
  | none => (.negative, s)
  | some r => (.vals r, if c.update then { s with base := some r } else s)

/-- `calculate_element_metrics` computing from the mesh: delegates to the base query with `elements=…` and the DEFAULT mode -/
def metricCompute {V : Type} (S : Sgn V) (mi : MeshInfo V) (c : Call) (s : HState V) : Out V × HState V :=
  if !mi.metricSupported then (.unsupported, s) else
  match validate S c.opts (mi.fresh .centroid) with
  | none => (.negative, s)
  | some r =>
    if !c.update then (.vals r, s) else
    let s1 : HState V := if mi.mixed then s else { s with base := some r }
    if s.metric.isSome then (.updateError, s1) else (.vals r, { s1 with metric := some r })

/-- `calculate_element_volumes` / `calculate_element_areas` -/
def stepBase {V : Type} (cfg : HCfg) (S : Sgn V) (mi : MeshInfo V) (c : Call) (s : HState V) : Out V × HState V :=
  match (if c.explicit then none else s.base) with
  | some w => readStored cfg S c w s (fun r => { s with base := some r })
  | none => baseCompute S mi c s

/-- `calculate_element_metrics` -/
def stepMetric {V : Type} (cfg : HCfg) (S : Sgn V) (mi : MeshInfo V) (c : Call) (s : HState V) : Out V × HState V :=
  match (if c.explicit then none else s.metric) with
  | some w => readStored cfg S c w s (fun r => { s with metric := some r })
  | none => metricCompute S mi c s

def step {V : Type} (cfg : HCfg) (S : Sgn V) (mi : MeshInfo V) (c : Call) (s : HState V) : Out V × HState V :=
  match c.api with
  | .base => stepBase cfg S mi c s
  | .metric => stepMetric cfg S mi c s

/-- outputs of a call history -/
def runCalls {V : Type} (cfg : HCfg) (S : Sgn V) (mi : MeshInfo V) : List Call → HState V → List (Out V)
  | [], _ => []
  | c :: cs, s => (step cfg S mi c s).1 :: runCalls cfg S mi cs (step cfg S mi c s).2

/-- state after a call history -/
def runState {V : Type} (cfg : HCfg) (S : Sgn V) (mi : MeshInfo V) : List Call → HState V → HState V
  | [], s => s
  | c :: cs, s => runState cfg S mi cs (step cfg S mi c s).2

/-- signed volumes -/
def ratSgn : Sgn Rat := ⟨fun q => decide (q < 0), fun q => if q < 0 then -q else q⟩
/-- areas (radical normal form `Σ√q / den`) are never negative: `_validate_metric` is the identity on them -/
def areaSgn : Sgn AreaNF := ⟨fun _ => false, id⟩
/-- integers, for `decide`d examples -/
def intSgn : Sgn Int := ⟨fun q => decide (q < 0), fun q => if q < 0 then -q else q⟩

end Femio.C11
