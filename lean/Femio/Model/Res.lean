/-! Model of the FrontISTR result-file reader `_split_series` / `_parse_res` (C02), plus `render`, the
    specification of what the solver writes. Lines are untyped token lists. Core only. -/
namespace Res

inductive Tok (V : Type) | n (k : Nat) | v (x : V) | w (s : List Char)
deriving Repr, DecidableEq
abbrev Line (V : Type) := List (Tok V)

structure Var where
  name : List Char
  width : Nat
deriving Repr, DecidableEq

/-- one section (nodal or elemental): variables and, per entity, id and all component values -/
structure Sec (V : Type) where
  vars : List Var
  rows : List (Nat × List V)
deriving Repr, DecidableEq

variable {V : Type} {α : Type}

def sumW (vars : List Var) : Nat := (vars.map Var.width).sum

/-- wrap a list into lines of at most `k` items (`k ≥ 1`) -/
def chunksAux (k : Nat) : Nat → List α → List (List α)
  | 0, _ => []
  | _ + 1, [] => []
  | fuel + 1, a :: t => (a :: t).take k :: chunksAux k fuel ((a :: t).drop k)
def chunks (k : Nat) (l : List α) : List (List α) := chunksAux k l.length l

def entityLines (wrapV : Nat) (r : Nat × List V) : List (Line V) := [.n r.1] :: chunks wrapV (r.2.map .v)

def renderSec (wrapC wrapV : Nat) (s : Sec V) : List (Line V) :=
  chunks wrapC (s.vars.map fun x => .n x.width) ++ (s.vars.map fun x => [.w x.name]) ++ s.rows.flatMap (entityLines wrapV)

/-! reader -/
def isName (l : Line V) : Bool := match l with | .w _ :: _ => true | _ => false
/-- the regular expression `E\+?-?\d+` of `_split_series`, searched in one blank-free token -/
def digitC (c : Char) : Bool := 48 ≤ c.toNat && c.toNat ≤ 57
def matchEAt : List Char → Bool
  | 'E' :: '+' :: '-' :: d :: _ => digitC d
  | 'E' :: '+' :: d :: _ => digitC d
  | 'E' :: '-' :: d :: _ => digitC d
  | 'E' :: d :: _ => digitC d
  | _ => false
def matchE : List Char → Bool
  | [] => false
  | c :: s => matchEAt (c :: s) || matchE s
/-- does the token match the E-notation pattern? (`eNot` decides it for the abstract value tokens) -/
def isVal (eNot : V → Bool) : Tok V → Bool | .v x => eNot x | .w s => matchE s | .n _ => false
def hasVal (eNot : V → Bool) (l : Line V) : Bool := l.any (isVal eNot)
def asNat : Tok V → Option Nat | .n k => some k | _ => none
def asVal : Tok V → Option V | .v x => some x | _ => none
def firstWord (l : Line V) : Option (List Char) := match l with | .w s :: _ => some s | _ => none
def firstNat (l : Line V) : Option Nat := match l with | .n k :: _ => some k | _ => none

/-- `_parse_res` -/
def parseSec (ls : List (Line V)) (lenData : Nat) : Option (Sec V) := do
  let cne := (ls.takeWhile fun l => !isName l).length
  let nums ← (ls.take cne).flatten.mapM asNat
  let nvar := nums.length
  let names ← ((ls.drop cne).take nvar).mapM firstWord
  let raw := ls.drop (cne + nvar)
  if lenData = 0 then none else          -- `len(raw_data) / 0` raises
  let stride := raw.length / lenData
  if stride * lenData ≠ raw.length then none
  else
    let rows ← (List.range lenData).mapM fun k => do
      let i ← (raw[k * stride]?).bind firstNat
      let vals ← ((raw.drop (k * stride + 1)).take (stride - 1)).flatten.mapM asVal
      pure (i, vals)
    pure ⟨(names.zip nums).map fun (a, b) => ⟨a, b⟩, rows⟩

/-- index of the first line from position `from` on satisfying `p` -/
def findFrom (p : Line V → Bool) (ls : List (Line V)) (start : Nat) : Option Nat :=
  ((ls.drop start).findIdx? p).map (· + start)

/-- `_split_series` after the header has been removed: locate the second cluster of name lines and walk
    back to the last line matching the E-notation pattern. `none` = the real code raises (no name line at
    all: `indices_matches` raises; no matching line before the second cluster: the index runs off the front). -/
def splitSeries (eNot : V → Bool) (ls : List (Line V)) : Option (List (Line V) × Option (List (Line V))) :=
  match findFrom isName ls 0 with
  | none => none
  | some a =>
    let b := a + ((ls.drop a).takeWhile isName).length          -- end of the first cluster
    match findFrom isName ls b with
    | none => some (ls, none)
    | some c =>
      -- walk back from c-1 to the last line with an E-notation token
      let back := ((ls.take c).reverse.takeWhile fun l => !hasVal eNot l).length
      if c ≤ back then none else
      let start := c - back
      some (ls.take start, some (ls.drop start))

end Res
