import Femio.Model.FistrMsh
import Femio.Model.Geom
/-! FrontISTR / HEC-MW node-ordering convention for solid elements — a **hand-written specification**
(not femio code; trusted base of C01_orientation).  Local node numbers are 0-based positions in the
`!ELEMENT` row.  Source: HEC-MW mesh format, element library and surface numbering
(341: faces 1-2-3 / 1-2-4 / 2-3-4 / 3-1-4; 351: 1-2-3 / 4-5-6 / 1-2-5-4 / 2-3-6-5 / 3-1-4-6;
361: 1-2-3-4 / 5-6-7-8 / 1-2-6-5 / 2-3-7-6 / 3-4-8-7 / 4-1-5-8), each face written here as the cycle that
is counter-clockwise seen from outside for a positively oriented element (341: (2-1)x(3-1).(4-1) > 0;
351: (2-1)x(3-1) points from the 1-2-3 face to the 4-5-6 face; 361: 1-2-3-4 counter-clockwise seen from
5-6-7-8).  Core Lean only. -/
namespace Femio.Fistr
open Femio.Gen

/-- outward face cycles in FrontISTR's local numbering, by ELEMENT_TYPES index (tet 8, tet2 9, prism 12, hex 14, hex2 15) -/
def fistrOutFaces : Nat → List (List Nat)
  | 8 | 9 => [[0, 2, 1], [0, 1, 3], [1, 2, 3], [2, 0, 3]]
  | 12 => [[0, 2, 1], [3, 4, 5], [0, 1, 4, 3], [1, 2, 5, 4], [2, 0, 3, 5]]
  | 14 | 15 => [[0, 3, 2, 1], [4, 5, 6, 7], [0, 1, 5, 4], [1, 2, 6, 5], [2, 3, 7, 6], [3, 0, 4, 7]]
  | _ => []

/-- outward face cycles femio itself uses (generated from `_generate_all_faces`), same indexing -/
def femioOutFaces : Nat → List (List Nat)
  | 8 => faces_tet | 9 => faces_tet2 | 12 => faces_prism | 14 | 15 => faces_hex
  | _ => []

/-- position `j` of the written row holds femio's local node `writePerm ty j` -/
def writePerm (ty : Nat) (j : Nat) : Nat :=
  match lookupN ty fistrTypeToCode with
  | some 351 | some 352 => prismPermWrite.getD j j
  | _ => j

def rotations (f : List Nat) : List (List Nat) := (List.range f.length).map fun k => f.drop k ++ f.take k
def cycEq (f g : List Nat) : Bool := (rotations f).contains g
/-- the same set of cyclic sequences -/
def sameCycles (a b : List (List Nat)) : Bool :=
  a.length == b.length && a.all (fun f => b.any (cycEq f)) && b.all (fun g => a.any (cycEq g))

/-- FrontISTR's outward faces of the written row, expressed in femio's local node numbers -/
def writtenFaces (ty : Nat) : List (List Nat) := (fistrOutFaces ty).map (·.map (writePerm ty))

section vol
variable {R : Type} [Add R] [Sub R] [Mul R]
open Geom
/-- 6·V of a FrontISTR 351 wedge (q0 q1 q2 bottom, q3 q4 q5 top), independent three-tet decomposition -/
def fistrPrism6 (q0 q1 q2 q3 q4 q5 : V3 R) : R := tet6 q0 q1 q2 q3 + tet6 q1 q2 q3 q4 + tet6 q2 q3 q4 q5
/-- 6·V of a FrontISTR 341 tetrahedron -/
def fistrTet6 (q0 q1 q2 q3 : V3 R) : R := V3.det (V3.sub q1 q0) (V3.sub q2 q0) (V3.sub q3 q0)
end vol

end Femio.Fistr
