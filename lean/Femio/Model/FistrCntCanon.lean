import Femio.Model.FistrCnt
/-! Specification side of the C03 whole-file round trip, core Lean only (the driver evaluates it): the decidable
well-formedness predicate `Femio.C03.WFCnt` of `write_cnt` inputs and `Femio.C03.expectedCnt`, the value the reader
must return for the written control file (theorem `C03_file_roundtrip` in `Props/C03.lean`). -/
namespace Femio.C03
open Femio.Fistr Cnt Numeral

/-- what the written data lines denote (exact decimal values) -/
def decB (l : BLine Sci) : BLine Dec := ⟨l.id, l.first, l.last, l.val.toDec 5⟩
def decD (l : DLine Sci) : DLine Dec := ⟨l.id, l.dof, l.val.toDec 6⟩
def decS (r : Nat × Sci) : Nat × Dec := (r.1, r.2.toDec 12)

/-- inputs `write_cnt` accepts, apart from the `cflux` / `pure_cflux` exclusion: the solution type is a `\w+` token,
    the boundary / spring / cload tables are 3 wide, boundary and cload have at least one non-NaN entry
    (`np.concatenate` of nothing raises otherwise) -/
def WFCntBase (c : CntIn) : Prop :=
  (c.solution ≠ [] ∧ ∀ ch ∈ c.solution, isWord ch = true) ∧
  (∀ t, c.boundary = some t → (∀ r ∈ t, r.2.length = 3) ∧ boundaryRows t ≠ []) ∧
  (∀ t, c.spring = some t → ∀ r ∈ t, r.2.length = 3) ∧
  (∀ t, c.cload = some t → (∀ r ∈ t, r.2.length = 3) ∧ cloadRows t ≠ [])

/-- well-formed input of the round trip: `WFCntBase` and not both `cflux` and `pure_cflux` (the reader reads every
    `!CFLUX…` block into one table and cannot tell them apart, see `C03_cflux_both_merged`) -/
def WFCnt (c : CntIn) : Prop := WFCntBase c ∧ (c.cflux = none ∨ c.pureCflux = none)

instance optEqAllDec {α} (o : Option α) (P : α → Prop) [DecidablePred P] : Decidable (∀ a, o = some a → P a) :=
  match o with
  | none => isTrue (fun _ h => by cases h)
  | some a => if h : P a then isTrue (fun b hb => by cases hb; exact h) else isFalse (fun hall => h (hall a rfl))

instance (c : CntIn) : Decidable (WFCntBase c) := by unfold WFCntBase; infer_instance
instance (c : CntIn) : Decidable (WFCnt c) := by unfold WFCnt; infer_instance

/-- the exact reader output for the written file of `c`: a section that was not given, or whose table has no entry /
    no row (written as a header followed by an empty line, which the blank filter removes), is absent -/
def expectedCnt (c : CntIn) : CntRead where
  solution := c.solution
  boundary := c.boundary.map fun t => (boundaryRows t).map fun l => readBLine (decB l)
  spring := c.spring.bind fun t => nonemptyOr ((springRows t).map fun l => readDLine (decD l))
  cload := c.cload.map fun t => (cloadRows t).map fun l => readDLine (decD l)
  fixtemp := c.fixtemp.bind fun t => nonemptyOr (t.map decS)
  cflux := c.cflux.bind fun t => nonemptyOr (t.map decS)
  pureCflux := c.pureCflux.bind fun t => nonemptyOr (t.map decS)

end Femio.C03
