import Femio.Model.Res
import Femio.Model.Numeral
import Femio.Model.TextTok
/-! C02 — the FrontISTR result reader beyond one section (core Lean only).

* whole file: header layout detection (`TOTALTIME` marker, skip 3 or 11 lines), `_split_series`,
  `_parse_res` twice (`readRes`), and `renderFile`, the hand specification of what the solver writes;
* `to_dict_fem_attributes`: one id-keyed table per variable by cumulative column offsets (`attrsFrom`);
* `generate_elemental_attribute` + `FEMElementalAttribute._update_self` (`rebind`);
* `read_directory`'s step selection (`selectSteps`) and the time-series branch with
  `update_time_series` (`readDir`);
* the text level used by the driver: printing token lines and lexing text lines. -/
namespace Femio.C02
open Res

variable {V : Type} {α : Type}

/-! ### header layouts -/
inductive Layout | old | v2
deriving Repr, DecidableEq

def marker : List Char := ['T', 'O', 'T', 'A', 'L', 'T', 'I', 'M', 'E']
def skipOld : Nat := 3
def skipV2 : Nat := 11

def isPrefix : List Char → List Char → Bool
  | [], _ => true
  | _ :: _, [] => false
  | a :: p, b :: s => a == b && isPrefix p s

/-- `str.contains(pat)` for a literal pattern -/
def hasInfix (pat : List Char) : List Char → Bool
  | [] => isPrefix pat []
  | c :: s => isPrefix pat (c :: s) || hasInfix pat s

/-- only word tokens can carry the marker (it has no blank, numerals have no such letters; abstract value
    tokens are numerals) -/
def tokHasMarker : Tok V → Bool | .w s => hasInfix marker s | _ => false
def lineHasMarker (l : Line V) : Bool := l.any tokHasMarker

/-- `content_start` of `_split_series`: 11 when some line of the file contains `TOTALTIME`, else 3 -/
def contentStart (ls : List (Line V)) : Nat := if ls.any lineHasMarker then skipV2 else skipOld

def starWord (s : List Char) : Line V := [.w ('*' :: s)]

/-- old layout: `*fstrresult`, `n_node n_elem`, `n_nodal_vars n_elemental_vars` -/
def headerOld (nN nE nNv nEv : Nat) : List (Line V) :=
  [starWord ['f', 's', 't', 'r', 'r', 'e', 's', 'u', 'l', 't'], [.n nN, .n nE], [.n nNv, .n nEv]]

/-- 2.0 layout: nine lines of global data, then the same two count lines -/
def headerV2 (comment : List Char) (time : Line V) (nN nE nNv nEv : Nat) : List (Line V) :=
  [[.w ['*', 'f', 's', 't', 'r', 'r', 'e', 's', 'u', 'l', 't'], .w ['2', '.', '0']],
   starWord ['c', 'o', 'm', 'm', 'e', 'n', 't'], [.w comment], starWord ['g', 'l', 'o', 'b', 'a', 'l'],
   [.n 1], [.n 1], [.w marker], time, starWord ['d', 'a', 't', 'a'], [.n nN, .n nE], [.n nNv, .n nEv]]

/-- a result file: the nodal section and, when there are elemental variables, the elemental section -/
structure ResFile (V : Type) where
  nodal : Sec V
  elemental : Option (Sec V)
deriving Repr, DecidableEq

def renderBody (wcN wvN wcE wvE : Nat) (f : ResFile V) : List (Line V) :=
  renderSec wcN wvN f.nodal ++ (match f.elemental with | none => [] | some e => renderSec wcE wvE e)

def nVarsE (f : ResFile V) : Nat := match f.elemental with | none => 0 | some e => e.vars.length

def renderFile (L : Layout) (comment : List Char) (time : Line V) (nE : Nat) (wcN wvN wcE wvE : Nat)
    (f : ResFile V) : List (Line V) :=
  (match L with
    | .old => headerOld f.nodal.rows.length nE f.nodal.vars.length (nVarsE f)
    | .v2 => headerV2 comment time f.nodal.rows.length nE f.nodal.vars.length (nVarsE f))
  ++ renderBody wcN wvN wcE wvE f

/-- `_read_res`: drop the header, split, parse both sections (`_parse_res None = {}`) -/
def readRes (eNot : V → Bool) (ls : List (Line V)) (nNodes nElems : Nat) : Option (ResFile V) := do
  let body := ls.drop (contentStart ls)
  let (n, e) ← splitSeries eNot body
  let sn ← parseSec n nNodes
  match e with
  | none => pure ⟨sn, none⟩
  | some el => do
    let se ← parseSec el nElems
    pure ⟨sn, some se⟩

/-! ### `to_dict_fem_attributes`: one table per variable -/
structure Attr (V : Type) where
  name : List Char
  ids : List Nat
  data : List (List V)        -- one row per id: the components of this variable
deriving Repr, DecidableEq

/-- column ranges from the cumulative sum of the component counts -/
def attrsFrom (rows : List (Nat × List V)) : Nat → List Var → List (Attr V)
  | _, [] => []
  | off, x :: xs =>
    ⟨x.name, rows.map (·.1), rows.map fun r => (r.2.drop off).take x.width⟩ :: attrsFrom rows (off + x.width) xs

def secAttrs (s : Sec V) : List (Attr V) := attrsFrom s.rows 0 s.vars

/-! ### `generate_elemental_attribute` and `_update_self` -/
def insertId (i : Nat) : List Nat → List Nat
  | [] => [i]
  | a :: t => if i < a then i :: a :: t else if i = a then a :: t else a :: insertId i t

/-- ascending, without repetition (`np.intersect1d` returns sorted unique values) -/
def sortDedup (l : List Nat) : List Nat := l.foldr insertId []
def intersect1d (a b : List Nat) : List Nat := sortDedup (a.filter fun i => b.contains i)

/-- `DataFrame(data, index=ids).loc[i]` for an index without repetition -/
def lookupRow (ids : List Nat) (data : List α) (i : Nat) : Option α := (ids.zip data).lookup i

/-- per element type (in `ELEMENT_TYPES` order): the ids of that type that occur in `ids`, ascending, each
    with the row found under that id; types without any such id are skipped -/
def genElemAttr (typeIds : List (Nat × List Nat)) (ids : List Nat) (data : List α) : List (Nat × List (Nat × α)) :=
  typeIds.filterMap fun b =>
    let inter := intersect1d b.2 ids
    if inter.isEmpty then none
    else some (b.1, inter.filterMap fun i => (lookupRow ids data i).map fun d => (i, d))

/-- insertion sort ascending by key (`np.argsort`; the order of equal keys is not specified by the real code
    and irrelevant here: ids and step numbers are distinct) -/
def insertKey (x : Nat × α) : List (Nat × α) → List (Nat × α)
  | [] => [x]
  | a :: t => if x.1 < a.1 then x :: a :: t else a :: insertKey x t
def sortByKey (l : List (Nat × α)) : List (Nat × α) := l.foldr insertKey []
def sortRows (l : List (Nat × α)) : List (Nat × α) := sortByKey l

/-- `_update_self`: one block keeps its order, several blocks are merged ascending by id -/
def flattenBlocks (bs : List (Nat × List (Nat × α))) : List (Nat × α) :=
  match bs with
  | [b] => b.2
  | bs => sortRows (bs.flatMap (·.2))

def rebindRows (typeIds : List (Nat × List Nat)) (ids : List Nat) (data : List α) : List (Nat × α) :=
  flattenBlocks (genElemAttr typeIds ids data)

def rebind (typeIds : List (Nat × List Nat)) (a : Attr V) : Attr V :=
  let f := rebindRows typeIds a.ids a.data
  ⟨a.name, f.map (·.1), f.map (·.2)⟩

/-- what `nodal_data` / `elemental_data` hold after one result file has been read -/
structure Reading (V : Type) where
  nodal : List (Attr V)
  elemental : List (Attr V)
deriving Repr, DecidableEq

def reading (typeIds : List (Nat × List Nat)) (f : ResFile V) : Reading V :=
  ⟨secAttrs f.nodal, match f.elemental with | none => [] | some e => (secAttrs e).map (rebind typeIds)⟩

/-! ### `read_directory`: step selection -/
/-- `int(re.findall(r'\d+$', name)[-1])`; `none` when the name does not end in a digit (the real code raises) -/
def stepOf (name : List Char) : Option Nat :=
  Numeral.parseNat (name.reverse.takeWhile fun c => (Numeral.charDigit c).isSome).reverse

/-- `files[np.argsort(steps)]` -/
def sortSteps (l : List (Nat × α)) : List (Nat × α) := sortByKey l

/-- `find`: a single file is taken as it is; several are sorted by step; then all (time series) or the last -/
def selectSteps (timeSeries : Bool) (files : List (Nat × α)) : List (Nat × α) :=
  match files with
  | [] => []
  | [f] => [f]
  | fs =>
    let s := sortSteps fs
    if timeSeries then s else match s.getLast? with | none => [] | some l => [l]

/-! ### the time-series branch -/
/-- a variable read as a series: the ids of the first step, one table per step (`np.stack`) -/
structure SeriesAttr (V : Type) where
  name : List Char
  ids : List Nat
  steps : List (List (List V))
deriving Repr, DecidableEq

def findAttr (as : List (Attr V)) (name : List Char) : Option (Attr V) := as.find? fun a => a.name == name

/-- `update_time_series`: names and ids from the first step, data of every step stacked in list order;
    `none` when a later step lacks a variable of the first (the real code raises `KeyError`) -/
def stackAttrs (l : List (List (Attr V))) : Option (List (SeriesAttr V)) :=
  match l with
  | [] => none
  | first :: _ =>
    first.mapM fun a => do
      let per ← l.mapM fun as => (findAttr as a.name).map (·.data)
      pure ⟨a.name, a.ids, per⟩

structure DirReading (V : Type) where
  timeSteps : List Nat
  nodal : List (SeriesAttr V)
  elemental : List (SeriesAttr V)
deriving Repr, DecidableEq

structure Cfg where
  /-- repair of F7: a single result file read with `time_series=True` is a one-step series -/
  wrapSingleton : Bool
deriving Repr, DecidableEq
def Cfg.fixed : Cfg := ⟨true⟩
def Cfg.upstream : Cfg := ⟨false⟩

/-- `read_directory('fistr', …, time_series=True)`; `files` = the result files found, in glob order, each
    with its step number and token lines. `none` = the real code raises. -/
def readDirSeries (cfg : Cfg) (eNot : V → Bool) (typeIds : List (Nat × List Nat)) (nNodes nElems : Nat)
    (files : List (Nat × List (Line V))) : Option (DirReading V) :=
  let sel := selectSteps true files
  match sel with
  | [] => some ⟨[], [], []⟩           -- no result file: mesh only
  | _ =>
    if sel.length = 1 && !cfg.wrapSingleton then none     -- F7: the singleton is unwrapped and iterated line by line
    else do
      let rs ← sel.mapM fun f => (readRes eNot f.2 nNodes nElems).map (reading typeIds)
      let n ← stackAttrs (rs.map (·.nodal))
      let e ← stackAttrs (rs.map (·.elemental))
      pure ⟨sel.map (·.1), n, e⟩

/-- `read_directory('fistr', …)` without time series: the reading of the selected file -/
def readDirLatest (eNot : V → Bool) (typeIds : List (Nat × List Nat)) (nNodes nElems : Nat)
    (files : List (Nat × List (Line V))) : Option (Option (Nat × Reading V)) :=
  match selectSteps false files with
  | [] => some none
  | f :: _ => (readRes eNot f.2 nNodes nElems).map fun r => some (f.1, reading typeIds r)

/-! ### text level (driver): printing token lines, lexing text lines -/
open Femio.Text

def showTok : Tok Str → Str
  | .n k => Numeral.showNat k
  | .v x => x
  | .w s => s

def lineText (trail : Bool) (l : Line Str) : Str := joinBlank (l.map showTok) ++ (if trail then [' '] else [])

def isAlphaStar (c : Char) : Bool := c = '*' || (65 ≤ c.toNat && c.toNat ≤ 90) || (97 ≤ c.toNat && c.toNat ≤ 122)

/-- token classes of the reader: decimal integer, name (`^[\*a-zA-Z]`), anything else is a value numeral -/
def classify (t : Str) : Tok Str :=
  match Numeral.parseNat t with
  | some k => .n k
  | none => match t with
    | c :: _ => if isAlphaStar c then .w t else .v t
    | [] => .v t

def lexLine (s : Str) : Line Str := (splitBlank s).map classify

/-- E-notation test of the value numerals = the reader's regular expression on their text -/
def eNotStr : Str → Bool := matchE

/-- how the specification prints a token line: the solver ends numeric lines with a blank (`trail`), name lines
    have none -/
def printLine (trail : Bool) (l : Line Str) : Str := lineText (trail && !isName l) l

/-- the characters of a result file: every line terminated by a newline -/
def fileText (trail : Bool) (ls : List (Line Str)) : Str := unlines (ls.map (printLine trail))

/-- the characters of a file as the reader sees them: the lines `StringSeries.read_file` delivers, lexed at whitespace -/
def lexFile (s : Str) : List (Line Str) := (fileLines s).map lexLine

/-- `_read_res` on the characters of the file -/
def readResText (s : Str) (nNodes nElems : Nat) : Option (ResFile Str) :=
  readRes eNotStr (lexFile s) nNodes nElems

/-! ### hypotheses of the character-level theorems as Boolean functions (the driver evaluates them on every case) -/
/-- a name / keyword: non-empty, no whitespace, starts with a letter or `*` -/
def wordOKB (s : Str) : Bool := tokOKB s && (match s with | c :: _ => isAlphaStar c | [] => false)
/-- a value numeral: non-empty, no whitespace, not a decimal integer, does not start with a letter or `*` -/
def valOKB (x : Str) : Bool :=
  tokOKB x && (Numeral.parseNat x).isNone && (match x with | c :: _ => !isAlphaStar c | [] => false)
def resTokOKB : Tok Str → Bool
  | .n _ => true
  | .v x => valOKB x
  | .w s => wordOKB s
def secOKB (s : Sec Str) : Bool := s.vars.all (fun x => wordOKB x.name) && s.rows.all (fun r => r.2.all valOKB)
def fileOKB (f : ResFile Str) : Bool :=
  secOKB f.nodal && (match f.elemental with | none => true | some e => secOKB e)
/-- a line that prints to a non-empty text without newline: at least one token, every token non-empty and free of
    whitespace -/
def printableB (l : Line Str) : Bool := !l.isEmpty && l.all fun t => tokOKB (showTok t)
/-- the free header fields of the 2.0 layout (comment, time line) print to one line each -/
def hdrOKB (L : Layout) (comment : Str) (time : Line Str) : Bool :=
  match L with
  | .old => true
  | .v2 => tokOKB comment && printableB time

end Femio.C02
