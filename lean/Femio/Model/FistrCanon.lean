import Femio.Model.FistrMsh
/-! Specification side of the C01 whole-file round trip, core Lean only (the driver evaluates it): the well-formedness
predicate `Femio.C01.WF` of writer inputs (decidable) and `Femio.C01.canon`, the value the reader must return for the
file written for `m` (theorem `C01_roundtrip` in `Props/C01.lean`). -/

namespace Femio.Fistr.RU
/-- rows of `tbl` re-bound to the ids `used`, in that order -/
def pick {β} (used : List Nat) (tbl : List (Nat × β)) : List (Nat × β) :=
  used.filterMap fun i => (lookupN i tbl).map fun v => (i, v)
end Femio.Fistr.RU

namespace Femio.Fistr.RT
def secType (s : SecIn) : Name := if s.shell then c!"SHELL" else c!"SOLID"

def canonTemp (m : MshIn) : List (Name × List (Nat × List Dec)) :=
  m.temp.toList.map fun t => (c!"TEMPERATURE", t.map fun r => (r.1, [r.2.toDec 12]))
end Femio.Fistr.RT

namespace Femio.C01
open Femio.Fistr Femio.Fistr.RT

/-- ELEMENT_TYPES indices of the types the property names: line, tri, quad, tet, tet2, prism, hex, hex2
    (and line2, spring, which the two tables also share) -/
def writerTypes : List Nat := [0, 3, 5, 8, 9, 12, 14, 15, 1, 2]

/-- what the reader must return for the row lists of a written mesh -/
def canonNodes (m : MshIn) : List (Nat × List Dec) := m.nodes.map fun r => (r.1, r.2.map (Sci.toDec 12))

/-- referenced node ids of a mesh -/
def referenced (m : MshIn) : List Nat := m.blocks.flatMap fun b => b.2.flatMap (·.2)

/-- a `\w+` token -/
def IsToken (n : Name) : Prop := n ≠ [] ∧ ∀ c ∈ n, isWord c = true

instance (n : Name) : Decidable (IsToken n) := by unfold IsToken; infer_instance

/-- well-formed input of the writer (every conjunct is decidable): at least one node and one element block;
    distinct node ids, distinct element ids; blocks in ELEMENT_TYPES order, one per type, of supported types, non-empty;
    every referenced node exists; three coordinates per node; prism rows of length 6; non-empty groups with distinct
    `\w+` names other than `ALL`; section / material names are `\w+` tokens; the initial temperature is given for the
    nodes, in their order -/
structure WF (m : MshIn) : Prop where
  nodes_ne : m.nodes ≠ []
  blocks_ne : m.blocks ≠ []
  node_ids : (m.nodes.map (·.1)).Nodup
  elem_ids : (m.blocks.flatMap fun b => b.2.map (·.1)).Nodup
  types_asc : (m.blocks.map (·.1)).Pairwise (· < ·)
  refs : ∀ i ∈ referenced m, i ∈ m.nodes.map (·.1)
  blocks_ok : ∀ b ∈ m.blocks, b.1 ∈ writerTypes ∧ b.2 ≠ []
  coords : ∀ r ∈ m.nodes, r.2.length = 3
  prism : ∀ b ∈ m.blocks, b.1 = 12 → ∀ r ∈ b.2, r.2.length = 6
  groups_ok : ∀ g ∈ m.groups, g.2 ≠ [] ∧ g.1 ≠ c!"ALL" ∧ IsToken g.1
  group_names : (m.groups.map (·.1)).Nodup
  sec_ok : ∀ s ∈ m.sec, IsToken s.egrp ∧ IsToken s.mat
  temp_ok : ∀ t ∈ m.temp, t.map (·.1) = m.nodes.map (·.1)

instance optAllDec {α} (o : Option α) (P : α → Prop) [DecidablePred P] : Decidable (∀ a ∈ o, P a) :=
  match o with
  | none => isTrue (fun _ h => by cases h)
  | some a => if h : P a then isTrue (fun b hb => by cases hb; exact h) else isFalse (fun hall => h (hall a rfl))

instance (m : MshIn) : Decidable (WF m) :=
  decidable_of_iff
    (m.nodes ≠ [] ∧ m.blocks ≠ [] ∧ (m.nodes.map (·.1)).Nodup ∧ (m.blocks.flatMap fun b => b.2.map (·.1)).Nodup ∧
     (m.blocks.map (·.1)).Pairwise (· < ·) ∧ (∀ i ∈ referenced m, i ∈ m.nodes.map (·.1)) ∧
     (∀ b ∈ m.blocks, b.1 ∈ writerTypes ∧ b.2 ≠ []) ∧ (∀ r ∈ m.nodes, r.2.length = 3) ∧
     (∀ b ∈ m.blocks, b.1 = 12 → ∀ r ∈ b.2, r.2.length = 6) ∧
     (∀ g ∈ m.groups, g.2 ≠ [] ∧ g.1 ≠ c!"ALL" ∧ IsToken g.1) ∧ (m.groups.map (·.1)).Nodup ∧
     (∀ s ∈ m.sec, IsToken s.egrp ∧ IsToken s.mat) ∧ (∀ t ∈ m.temp, t.map (·.1) = m.nodes.map (·.1)))
    ⟨fun ⟨h1, h2, h3, h4, h5, h6, h7, h8, h9, h10, h11, h12, h13⟩ => ⟨h1, h2, h3, h4, h5, h6, h7, h8, h9, h10, h11, h12, h13⟩,
     fun h => ⟨h.1, h.2, h.3, h.4, h.5, h.6, h.7, h.8, h.9, h.10, h.11, h.12, h.13⟩⟩

/-- **what the reader returns for the file written for `m`**: the node table restricted to the referenced nodes
    (all nodes referenced: storage order kept; otherwise the referenced ids ascending, as `remove_useless_nodes`
    leaves them) with the exact decimal coordinates; the element blocks with the original connectivity; `ALL` + the
    element groups; section and material; the initial temperatures re-bound to the surviving nodes -/
def canon (m : MshIn) : MshRead :=
  { nodes := if m.nodes.length = (uniqueNat (referenced m)).length then canonNodes m
             else RU.pick (uniqueNat (referenced m)) (canonNodes m)
    elems := m.blocks
    ngroups := [(c!"ALL", m.nodes.map (·.1))]
    egroups := (c!"ALL", allElemIds m.blocks) :: m.groups
    sections := m.sec.toList.map fun s => (s.mat, secType s, s.egrp)
    materials := m.sec.toList.map fun s => (s.mat, [s.young.toDec 8, s.poisson.toDec 8])
    nodal := if m.nodes.length = (uniqueNat (referenced m)).length then canonTemp m
             else (canonTemp m).map fun p => (p.1, RU.pick (uniqueNat (referenced m)) p.2) }

end Femio.C01
