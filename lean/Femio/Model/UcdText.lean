import Femio.Model.Ucd
import Femio.Model.Numeral
import Femio.Model.TextTok
import Femio.Gen.Tables
/-! C04 — text level of the UCD model (core only): printing token lines as `UCDWriter.write` does and lexing
    text lines into the typed tokens the positional reader consumes.  Values are their printed numerals. -/
namespace Femio.C04
open Ucd Femio.Text

def typeName (k : Nat) : Str := (Femio.Gen.elementTypes[k]?).getD ['?']
def typeIndex (s : Str) : Option Nat := Femio.Gen.elementTypes.findIdx? (· == s)

def unitSuffix : Str := [',', ' ', 'u', 'n', 'i', 't', '_', 'u', 'n', 'k', 'n', 'o', 'w', 'n']

def showTok : Tok Str → Str
  | .n k => Numeral.showNat k
  | .v x => x
  | .w s => s ++ unitSuffix
  | .t k => typeName k

def lineText (l : Line Str) : Str := joinBlank (l.map showTok)

/-- decimal integer, element type name, anything else is a value numeral (`NaN`, `inf`, `-0.0`, `1e+300` …) -/
def classify (t : Str) : Tok Str :=
  match Numeral.parseNat t with
  | some k => .n k
  | none => match typeIndex t with
    | some k => .t k
    | none => .v t

/-- a line with a comma is a name line (`split_vertical(1)`: the name is the text before the first comma);
    every other line is split at blanks -/
def lexLine (s : Str) : Line Str :=
  if s.contains ',' then [.w (s.takeWhile (· ≠ ','))] else (splitBlank s).map classify

end Femio.C04
