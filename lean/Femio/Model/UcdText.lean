import Femio.Model.Ucd
import Femio.Model.Numeral
import Femio.Model.TextTok
import Femio.Gen.Tables
/-! C04 — text level of the UCD model (core only): printing token lines as `UCDWriter.write` does and lexing
    text lines into the typed tokens the positional reader consumes.  Values are their printed numerals. -/
namespace Femio.C04
open Ucd Femio.Text

def typeName (k : Nat) : Str := (Femio.Gen.elementTypes[k]?).getD ['?']
def typeIndex (s : Str) : Option Nat := Femio.Gen.elementTypes.findIdx? (· == s)

def unitSuffix : Str := [',', ' ', 'u', 'n', 'i', 't', '_', 'u', 'n', 'k', 'n', 'o', 'w', 'n']

def showTok : Tok Str → Str
  | .n k => Numeral.showNat k
  | .v x => x
  | .w s => s ++ unitSuffix
  | .t k => typeName k

def lineText (l : Line Str) : Str := joinBlank (l.map showTok)

/-- decimal integer, element type name, anything else is a value numeral (`NaN`, `inf`, `-0.0`, `1e+300` …) -/
def classify (t : Str) : Tok Str :=
  match Numeral.parseNat t with
  | some k => .n k
  | none => match typeIndex t with
    | some k => .t k
    | none => .v t

/-- a line with a comma is a name line (`split_vertical(1)`: the name is the text before the first comma);
    every other line is split at blanks -/
def lexLine (s : Str) : Line Str :=
  if s.contains ',' then [.w (s.takeWhile (· ≠ ','))] else (splitBlank s).map classify

/-! ### whole file as characters -/
/-- the file `UCDWriter.write` produces: every line terminated by a newline -/
def fileText (m : Mesh Str) : Str := unlines ((write m).map lineText)
/-- `UCDData.read_files` on the file's characters: the lines `StringSeries.read_file` delivers, lexed, read by position -/
def readText (s : Str) : Option (Read Str) := Ucd.read ((fileLines s).map lexLine)

/-! ### hypotheses of the character-level round trip as Boolean functions (the driver evaluates them on every case) -/
/-- a value numeral (`repr` of a float, `NaN`): a whitespace-free non-empty token without comma that is neither a
    decimal integer nor an element type name -/
def valOKB (x : Str) : Bool :=
  tokOKB x && !x.contains ',' && (Numeral.parseNat x).isNone && (typeIndex x).isNone
/-- a variable name: no whitespace, no comma -/
def nameOKB (s : Str) : Bool := noWsB s && !s.contains ','
def ucdTokOKB : Tok Str → Bool
  | .n _ => true
  | .v x => valOKB x
  | .t k => decide (k < Femio.Gen.elementTypes.length)
  | .w _ => false
/-- a line of value / count / type tokens, or a name line -/
def lineOKB (l : Line Str) : Bool := l.all ucdTokOKB || (match l with | [.w s] => nameOKB s | _ => false)
def meshOKB (m : Mesh Str) : Bool :=
  m.nodes.all (fun p => p.2.all valOKB) && m.blocks.all (fun b => decide (b.1 < Femio.Gen.elementTypes.length)) &&
  m.nodalVars.all (fun x => nameOKB x.name) && m.nodalRows.all (fun r => r.all valOKB) &&
  m.elemVars.all (fun x => nameOKB x.name) && m.elemRows.all (fun r => r.all valOKB)

end Femio.C04
