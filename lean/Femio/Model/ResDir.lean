import Femio.Model.ResFile
/-! C02 — which files of a directory `read_directory('fistr', dir)` takes for result files (core Lean only).

With the default `stem=None` the reader globs `dir/*.res.*` — independently of the names of the mesh (`*.msh`) and
control (`*.cnt`) files: FrontISTR's file names are free (`hecmw_ctrl.dat` binds `fstrMSH`, `fstrCNT`, `fstrRES`
to any names).  `fnmatch` translates `*.res.*` to `(?s:.*\.res\..*)\Z` and `glob` skips names that start with a dot
when the pattern does not. -/
namespace Femio.C02

def resInfix : List Char := ['.', 'r', 'e', 's', '.']

/-- `fnmatch(name, '*.res.*')` together with `glob`'s rule for hidden files -/
def resGlob (name : List Char) : Bool :=
  (match name with | '.' :: _ => false | _ => true) && hasInfix resInfix name

/-- the result files found in a directory listing (in listing order, as `glob` does) -/
def findRes (listing : List (List Char)) : List (List Char) := listing.filter resGlob

/-- the name the solver gives the result of `step` written by process `rank`: `<stem>.res.<rank>.<step>` -/
def resFileName (stem : List Char) (rank step : Nat) : List Char :=
  stem ++ resInfix ++ Numeral.showNat rank ++ '.' :: Numeral.showNat step

end Femio.C02
