/-! C19 — model of the `functools.lru_cache`d analysis queries of femio and of the derived variables they
store (core Lean only).

A value is represented by its *stamp*: the version of the mesh it was computed from (the mesh of a live
object gets a new version with every in-place modification).  Every cached method has its own LRU list
(most recently used first) of capacity `cap meth` (generated from the code: `lruSizes`), keyed by
`(object, argument tuple)` — `functools.lru_cache` keys on `self`, and it holds a strong reference, so an
object id is never reused while an entry exists.  On a miss a cached query calls other cached queries with
its own spelling of the arguments; that nested call graph, with the exact key and receiver (the object
itself or a temporary mesh built by the query) of every nested call, is traced from the real code by the
harness and passed in as `rules`. -/
namespace Femio.C19

structure Key where
  obj : Nat
  meth : Nat
  args : Nat
deriving Repr, DecidableEq

/-- one nested cached call made on a miss: method, argument tuple, receiver (`0` = self, `n+1` = the n-th
temporary mesh the calling query builds) -/
structure Call where
  meth : Nat
  args : Nat
  recv : Nat
deriving Repr, DecidableEq

/-- `(meth, args, version of the receiver's mesh) ↦ nested cached calls in call order` (first match; no match = no
nested calls).  The version is part of the rule key only — not of the cache key: after an in-place
modification a query may pass other argument objects (e.g. the new per-type element blocks) to its nested calls. -/
abbrev Rules := List ((Nat × Nat × Nat) × List Call)

def Rules.calls (r : Rules) (meth args ver : Nat) : List Call :=
  match r.find? (fun e => e.1 == (meth, args, ver)) with
  | some e => e.2
  | none => []

structure Cfg where
  invalidate : Bool      -- in-place modifiers clear the caches (a repair that is NOT in the tree: F11)
deriving Repr, DecidableEq

structure World where
  version : List (Nat × Nat)              -- current mesh version of each live object (absent = 0)
  lru : List (Nat × List (Key × Nat))     -- per method: MRU first, (key, stamp)
  cap : List (Nat × Nat)                  -- capacities (generated `lruSizes`)
  nextTmp : Nat                           -- next unused object id for temporary meshes
  hits : Nat
  misses : Nat
deriving Repr, DecidableEq

def assoc {β} (d : β) (k : Nat) : List (Nat × β) → β
  | [] => d
  | (a, b) :: t => if a = k then b else assoc d k t

def assocSet {β} (k : Nat) (v : β) : List (Nat × β) → List (Nat × β)
  | [] => [(k, v)]
  | (a, b) :: t => if a = k then (a, v) :: t else (a, b) :: assocSet k v t

def World.ver (w : World) (o : Nat) : Nat := assoc 0 o w.version
def World.lruOf (w : World) (m : Nat) : List (Key × Nat) := assoc [] m w.lru
def World.capOf (w : World) (m : Nat) : Nat := assoc 1 m w.cap

def lookup (k : Key) : List (Key × Nat) → Option Nat
  | [] => none
  | (k', s) :: t => if k' = k then some s else lookup k t

/-- one (possibly nested) access of a cached method.  Returns the stamp of the value the caller receives.
`fuel` bounds the nesting depth (the call graph is acyclic; the driver reports if it runs out). -/
def access (rules : Rules) : Nat → World → Key → World × Nat
  | 0, w, k => (w, w.ver k.obj)
  | fuel + 1, w, k =>
    match lookup k (w.lruOf k.meth) with
    | some s =>
      let l' := (k, s) :: (w.lruOf k.meth).filter (fun e => e.1 ≠ k)
      ({ w with lru := assocSet k.meth l' w.lru, hits := w.hits + 1 }, s)
    | none =>
      -- the body runs: nested cached calls in order, temporaries get fresh object ids
      let calls := rules.calls k.meth k.args (w.ver k.obj)
      let nTmp := calls.foldl (fun n c => max n c.recv) 0
      let base := w.nextTmp
      let w0 := { w with nextTmp := w.nextTmp + nTmp, misses := w.misses + 1 }
      let r := calls.foldl (fun (acc : World × Nat) c =>
        let key : Key := ⟨if c.recv = 0 then k.obj else base + c.recv - 1, c.meth, c.args⟩
        let (w', s) := access rules fuel acc.1 key
        -- a temporary mesh is built from the current mesh: only nested calls on self can be stale
        (w', if c.recv = 0 then min acc.2 s else acc.2)) (w0, w0.ver k.obj)
      let w1 := r.1
      let s := r.2
      -- lru_cache inserts after the body returned; the oldest entry is evicted
      let l' := ((k, s) :: w1.lruOf k.meth).take (w1.capOf k.meth)
      ({ w1 with lru := assocSet k.meth l' w1.lru }, s)

inductive Op
  | query (k : Key)
  | modify (obj : Nat)
deriving Repr, DecidableEq

inductive Obs | value (stamp : Nat) (hits misses : Nat) | modified
deriving Repr, DecidableEq

def depth : Nat := 8

def step (cfg : Cfg) (rules : Rules) (w : World) : Op → World × Obs
  | .query k =>
    let w0 := { w with hits := 0, misses := 0 }
    let (w', s) := access rules depth w0 k
    (w', .value s w'.hits w'.misses)
  | .modify o =>
    ({ w with version := assocSet o (w.ver o + 1) w.version,
              lru := if cfg.invalidate then [] else w.lru }, .modified)

def run (cfg : Cfg) (rules : Rules) (w : World) : List Op → World × List Obs
  | [] => (w, [])
  | op :: ops =>
    let r := step cfg rules w op
    let r' := run cfg rules r.1 ops
    (r'.1, r.2 :: r'.2)

def World.init (cap : List (Nat × Nat)) : World := ⟨[], [], cap, 1000, 0, 0⟩

end Femio.C19
