/-! Full model of femio's AVS-UCD writer and reader (C04). Core only.
    Lines are untyped token lists; the reader interprets them purely by position, with the line
    offsets computed from the header counts exactly as `UCDData.read_headers` does.
    `V` is the abstract value token (a float as printed by `repr`); the round trip is parametric in it. -/
namespace Ucd

inductive Tok (V : Type) | n (k : Nat) | v (x : V) | w (s : List Char) | t (ty : Nat)
deriving Repr, DecidableEq

abbrev Line (V : Type) := List (Tok V)

structure Elem where
  id : Nat
  conn : List Nat
deriving Repr, DecidableEq

structure Var where
  name : List Char
  width : Nat
deriving Repr, DecidableEq

/-- what `UCDWriter.write` looks at -/
structure Mesh (V : Type) where
  nodes : List (Nat × List V)              -- storage order: id, coordinates
  blocks : List (Nat × List Elem)          -- per-type blocks in ELEMENT_TYPES order: type tag, elements
  nodalVars : List Var
  nodalRows : List (List V)                -- one row per node (storage order), all variables concatenated
  elemVars : List Var
  elemRows : List (List V)                 -- one row per element, positionally in `elements.ids` order
deriving Repr, DecidableEq

variable {V : Type}

def tet : Nat := 8
def tet2 : Nat := 9

/-- `_extract_first_order_element`: tet2 is written as its corner tet; other types unchanged
    (other second-order types make the real writer raise; they are outside the property) -/
def firstOrder (ty : Nat) (e : Elem) : Nat × Elem := if ty = tet2 then (tet, ⟨e.id, e.conn.take 4⟩) else (ty, e)

def elemLine (ty : Nat) (e : Elem) : Line V :=
  let (ty', e') := firstOrder ty e
  .n e'.id :: .n 1 :: .t ty' :: e'.conn.map .n

def nodeLine (p : Nat × List V) : Line V := .n p.1 :: p.2.map .v
def dataLine (p : Nat × List V) : Line V := .n p.1 :: p.2.map .v
def nameLine (x : Var) : Line V := [.w x.name]
def blockHeader (vars : List Var) : Line V := .n vars.length :: vars.map (fun x => .n x.width)
def sumW (vars : List Var) : Nat := (vars.map Var.width).sum

def elemLines (m : Mesh V) : List (Line V) := m.blocks.flatMap fun (ty, es) => es.map (elemLine ty)
def nElem (m : Mesh V) : Nat := (m.blocks.map fun b => b.2.length).sum

def insertIdAsc (i : Nat) : List Nat → List Nat
  | [] => [i]
  | a :: t => if i ≤ a then i :: a :: t else a :: insertIdAsc i t
def sortIds (l : List Nat) : List Nat := l.foldr insertIdAsc []

/-- `fem_data.elements.ids` (`FEMElementalAttribute._update_self`): one type block keeps its storage order,
    several blocks are merged ascending by id -/
def elemIds (blocks : List (Nat × List Elem)) : List Nat :=
  match blocks with
  | [b] => b.2.map Elem.id
  | bs => sortIds (bs.flatMap fun b => b.2.map Elem.id)

def dataBlock (vars : List Var) (rows : List (Nat × List V)) : List (Line V) :=
  if sumW vars = 0 then [] else blockHeader vars :: (vars.map nameLine ++ rows.map dataLine)

def write (m : Mesh V) : List (Line V) :=
  [[.n m.nodes.length, .n (nElem m), .n (sumW m.nodalVars), .n (sumW m.elemVars), .n 0]]
  ++ m.nodes.map nodeLine
  ++ elemLines m
  ++ dataBlock m.nodalVars ((m.nodes.map Prod.fst).zip m.nodalRows)
  ++ dataBlock m.elemVars ((elemIds m.blocks).zip m.elemRows)

/-! ### reader -/
def asNat : Tok V → Option Nat | .n k => some k | _ => none
def asVal : Tok V → Option V | .v x => some x | _ => none
def asWord : Tok V → Option (List Char) | .w s => some s | _ => none
def asTy : Tok V → Option Nat | .t k => some k | _ => none

def readRow (l : Line V) : Option (Nat × List V) :=
  match l with
  | t :: ts => do let i ← asNat t; let xs ← ts.mapM asVal; pure (i, xs)
  | [] => none

def readElem (l : Line V) : Option (Nat × Elem) :=
  match l with
  | t :: _ :: ty :: ts => do let i ← asNat t; let k ← asTy ty; let c ← ts.mapM asNat; pure (k, ⟨i, c⟩)
  | _ => none

structure Header where
  nNode : Nat
  nElem : Nat
  dimN : Nat
  dimE : Nat
deriving Repr, DecidableEq

def readHeader (l : Line V) : Option Header := do
  let a ← (l[0]?).bind asNat; let b ← (l[1]?).bind asNat
  let c ← (l[2]?).bind asNat; let d ← (l[3]?).bind asNat
  pure ⟨a, b, c, d⟩

def readBlockHeader (l : Line V) : Option (Nat × List Nat) := do
  let k ← (l[0]?).bind asNat
  let dims ← (l.drop 1).mapM asNat
  pure (k, dims)

/-- `read_headers` + `read_nodal_data` / `read_elemental_data`: block header at line `hpos` (gives the
    number of variables `k` and their widths), `k` name lines from line `npos`, then `nRows` data rows.
    The two positions are computed by *different* formulas in the real code, so they are separate here. -/
def readDataBlock (ls : List (Line V)) (hpos npos nRows : Nat) : Option (List Var × List (Nat × List V) × Nat) := do
  let (k, dims) ← (ls[hpos]?).bind readBlockHeader
  let names ← ((ls.drop npos).take k).mapM fun l => (l[0]?).bind asWord
  let rows ← ((ls.drop (npos + k)).take nRows).mapM readRow
  pure ((names.zip dims).map (fun (a, b) => ⟨a, b⟩), rows, k)

/-- group consecutive… no: group by type as `read_elements` does: one block per type occurring,
    in ELEMENT_TYPES order, each in file order -/
def groupByType (es : List (Nat × Elem)) (types : List Nat) : List (Nat × List Elem) :=
  (types.map fun ty => (ty, (es.filter fun p => p.1 = ty).map Prod.snd)).filter fun b => !b.2.isEmpty

structure Read (V : Type) where
  nodes : List (Nat × List V)
  blocks : List (Nat × List Elem)
  nodalVars : List Var
  nodalRows : List (Nat × List V)
  elemVars : List Var
  elemRows : List (Nat × List V)
deriving Repr, DecidableEq

def allTypes : List Nat := List.range 19

def read (ls : List (Line V)) : Option (Read V) := do
  let h ← (ls[0]?).bind readHeader
  let nodes ← ((ls.drop 1).take h.nNode).mapM readRow
  let es ← ((ls.drop (1 + h.nNode)).take h.nElem).mapM readElem
  let blocks := groupByType es allTypes
  -- nodal block: header index from `read_headers`, names from `read_nodal_data`
  let (nv, nr, kN) ←
    if h.dimN = 0 then pure ([], [], 0)
    else readDataBlock ls (h.nNode + h.nElem + 1) (h.nNode + 1 + h.nElem + 1) h.nNode
  -- elemental block: header index from `read_headers` (uses kN), names from `read_elemental_data` (uses dimN)
  let hposE := h.nNode + h.nElem + 1 + kN + (min 1 kN) * (h.nNode + 1)
  let nposE := h.nNode + 1 + h.nElem + 1 + (min 1 h.dimN) * (kN + h.nNode + 1)
  let (ev, er, _) ←
    if h.dimE = 0 then pure ([], [], 0)
    else readDataBlock ls hposE nposE h.nElem
  pure ⟨nodes, blocks, nv, nr, ev, er⟩

end Ucd
