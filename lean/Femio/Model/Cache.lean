/-! Model of the `functools.lru_cache`d analysis queries (C19). Core only.
    A value is represented by its *stamp*: the version of the mesh it was computed from. -/
namespace Cache

structure Key where
  obj : Nat
  meth : Nat
  args : Nat
deriving Repr, DecidableEq

structure Cfg where
  invalidate : Bool      -- in-place modifiers clear the caches (repair under discussion, F11)
deriving Repr, DecidableEq

structure World where
  version : Nat → Nat                     -- current version of each live object
  lru : Nat → List (Key × Nat)            -- per method: MRU first, (key, stamp)
  cap : Nat → Nat                         -- generated `lruSizes`

inductive Op
  | query (k : Key)
  | modify (obj : Nat)
deriving Repr, DecidableEq

inductive Obs | hit (stamp : Nat) | miss (stamp : Nat) | modified
deriving Repr, DecidableEq

def lookup (k : Key) : List (Key × Nat) → Option Nat
  | [] => none
  | (k', s) :: t => if k' = k then some s else lookup k t

def step (cfg : Cfg) (w : World) : Op → World × Obs
  | .query k =>
    match lookup k (w.lru k.meth) with
    | some s =>
      let l' := (k, s) :: (w.lru k.meth).filter (fun e => e.1 ≠ k)
      ({ w with lru := fun m => if m = k.meth then l' else w.lru m }, .hit s)
    | none =>
      let s := w.version k.obj
      let l' := ((k, s) :: w.lru k.meth).take (w.cap k.meth)
      ({ w with lru := fun m => if m = k.meth then l' else w.lru m }, .miss s)
  | .modify o =>
    ({ w with version := fun x => if x = o then w.version x + 1 else w.version x,
              lru := if cfg.invalidate then fun _ => [] else w.lru }, .modified)

def run (cfg : Cfg) (w : World) : List Op → World × List Obs
  | [] => (w, [])
  | op :: ops => let (w', o) := step cfg w op
                 let (w'', os) := run cfg w' ops
                 (w'', o :: os)

end Cache
