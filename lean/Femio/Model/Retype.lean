import Femio.Model.Surface
import Femio.Model.Geom2
/-! C18 model (core Lean only): `to_polyhedron`, `resolve_degeneracy`, `make_elements_positive`.

    `Cfg.pyrArgsort` is the repair of DESIGN §5 F10: `pyr_to_polyhedron` forgets `argsort[...]` and emits the
    rank of a node id among the sorted ids instead of its storage position. -/
namespace Femio.C18
open Core Faces Femio.C10

structure Cfg where
  pyrArgsort : Bool
deriving Repr, DecidableEq

def Cfg.fixed : Cfg := ⟨true⟩
def Cfg.upstream : Cfg := ⟨false⟩

/-! ### id -> storage position as the njit kernels compute it -/

def insertPair (p : Nat × Nat) : List (Nat × Nat) → List (Nat × Nat)
  | [] => [p]
  | q :: t => if p.1 ≤ q.1 then p :: q :: t else q :: insertPair p t

/-- `(node_ids[argsort], argsort)`: (id, storage position) ascending by id -/
def sortedPairs (ids : List Nat) : List (Nat × Nat) := (ids.zip (List.range ids.length)).foldr insertPair []

/-- `np.searchsorted(sorted, x)` (side = left) -/
def searchsorted (sorted : List Nat) (x : Nat) : Nat := (sorted.filter (· < x)).length

def rankOf (ids : List Nat) (x : Nat) : Nat := searchsorted ((sortedPairs ids).map Prod.fst) x

/-- `argsort[np.searchsorted(node_ids_sorted, x)]` -/
def posOf (ids : List Nat) (x : Nat) : Option Nat := ((sortedPairs ids)[rankOf ids x]?).map Prod.snd

/-! ### to_polyhedron -/

/-- the face pattern of `pyr_to_polyhedron` in local vertex numbers -/
def pyrPolyFaces : List (List Nat) := [[3, 2, 1, 0], [0, 1, 4], [1, 2, 4], [2, 3, 4], [3, 0, 4]]

/-- face patterns of the four kernels (local vertex numbers); tet / hex / prism are the tables regenerated from
    the source under a non-identity `argsort`, the pyramid's is `pyrPolyFaces` (obligation `C18_pyr_table`:
    the regenerated table equals it, which fails while the kernel omits `argsort`) -/
def polyTable : Nat → Option (List (List Nat))
  | 8 => some Femio.Gen.polyFaces_tet
  | 10 => some pyrPolyFaces
  | 12 => some Femio.Gen.polyFaces_prism
  | 14 => some Femio.Gen.polyFaces_hex
  | _ => none

/-- faces of one element as lists of storage positions; `none` = NotImplementedError / broken reference -/
def polyFaces (cfg : Cfg) (nodeIds : List Nat) (e : Elem) : Option (List (List Nat)) := do
  let tab ← polyTable e.ty
  let loc : Nat → Option Nat := fun id =>
    if e.ty = 10 ∧ !cfg.pyrArgsort then some (rankOf nodeIds id) else posOf nodeIds id
  tab.mapM fun f => f.mapM fun k => do let id ← e.conn[k]?; loc id

/-- `[n_faces, k_1, v.., k_2, v.., …]` -/
def encodeFaces (fs : List (List Nat)) : List Nat := fs.length :: fs.flatMap fun f => f.length :: f

/-- `to_polyhedron()`: (element id, connectivity, face data) in the flattened element order -/
def toPolyhedron (cfg : Cfg) (nodeIds : List Nat) (blocks : List (List Elem)) : Option (List (Nat × List Nat × List Nat)) :=
  (flatten blocks).mapM fun e => do let fs ← polyFaces cfg nodeIds e; pure (e.id, e.conn, encodeFaces fs)

/-! ### resolve_degeneracy -/

def eqAt (c : List Nat) (i j : Nat) : Bool :=
  match c[i]?, c[j]? with
  | some a, some b => a == b
  | _, _ => false

def degenerate (c : List Nat) : Bool := eqAt c 0 1 || eqAt c 1 2 || eqAt c 2 3 || eqAt c 3 0

/-- the guard `raise ValueError("Unknown degeneracy pattern in hex")` -/
def patternOkB (hexes : List Elem) : Bool :=
  hexes.all fun e => (!eqAt e.conn 0 1 || eqAt e.conn 4 5) && (!eqAt e.conn 1 2 || eqAt e.conn 5 6)
    && (!eqAt e.conn 2 3 || eqAt e.conn 6 7) && (!eqAt e.conn 3 0 || eqAt e.conn 7 4)

def applyPattern (pat : List Nat) (e : Elem) : Option Elem := do
  let c ← pick e.conn pat
  pure ⟨e.id, 12, c⟩

/-- `(hex block, prism block)` after `resolve_degeneracy`; `none` = ValueError -/
def resolveDegeneracy (hexes prisms : List Elem) : Option (List Elem × List Elem) :=
  if !patternOkB hexes then none else do
    let d01 ← (hexes.filter fun e => eqAt e.conn 0 1).mapM (applyPattern Femio.Gen.degen_01)
    let d12 ← (hexes.filter fun e => eqAt e.conn 1 2).mapM (applyPattern Femio.Gen.degen_12)
    let d23 ← (hexes.filter fun e => eqAt e.conn 2 3).mapM (applyPattern Femio.Gen.degen_23)
    let d30 ← (hexes.filter fun e => eqAt e.conn 3 0).mapM (applyPattern Femio.Gen.degen_30)
    pure (hexes.filter fun e => !degenerate e.conn, sortElems (prisms ++ d01 ++ d12 ++ d23 ++ d30))

/-! ### make_elements_positive (tet meshes) -/

/-- `_permute` for `tet`: regenerated from the source (`Gen.tetPermute`, tabulated by running `_permute`) -/
def tetPermute : List Nat := Femio.Gen.tetPermute

section Kernels
open V3 Geom
variable {R : Type} [Add R] [Sub R] [Mul R]

def tetVol6 (zero : R) (pt : Nat → V3 R) (conn : List Nat) : R :=
  match conn with
  | [a, b, c, d] => tet6 (pt a) (pt b) (pt c) (pt d)
  | _ => zero

/-- one element of `make_elements_positive`: permuted iff its metric is negative -/
def makePositive [LT R] [DecidableLT R] (zero : R) (pt : Nat → V3 R) (e : Elem) : Elem :=
  if tetVol6 zero pt e.conn < zero then ⟨e.id, e.ty, ((pick e.conn tetPermute).getD e.conn)⟩ else e

/-- `_calculate_element_volumes_polyhedron_core` ("linear"): fan from the first vertex, 6 × flux of x/3 -/
def fanLin6 (zero : R) (pt : Nat → V3 R) : List Nat → R
  | a :: b :: c :: t => det (pt a) (pt b) (pt c) + fanLin6 zero pt (a :: c :: t)
  | _ => zero

/-- `_calculate_element_volumes_polyhedron_centroid_core`: `Σ_i det(ΣF, F[i-1], F[i])` = (#F) · 6 × flux -/
def fanCentroid (zero : R) (pt : Nat → V3 R) (f : List Nat) : R :=
  match f.getLast? with
  | none => zero
  | some l =>
    let s := f.foldr (fun i acc => V3.add (pt i) acc) ⟨zero, zero, zero⟩
    sumR zero (((l :: f).zip f).map fun (a, b) => det s (pt a) (pt b))

end Kernels
end Femio.C18
