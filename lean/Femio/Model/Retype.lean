import Femio.Model.Surface
import Femio.Model.Geom2
/-! C18 model (core Lean only): `to_polyhedron`, `resolve_degeneracy`, `make_elements_positive`.

    `Cfg.pyrArgsort` is the repair of DESIGN §5 F10: `pyr_to_polyhedron` forgets `argsort[...]` and emits the
    rank of a node id among the sorted ids instead of its storage position. -/
namespace Femio.C18
open Core Faces Femio.C10

structure Cfg where
  pyrArgsort : Bool
  /-- repair e608c63: `make_elements_positive` evaluates the signed metric of the current connectivity itself
      (`elements=self.elements, update=False`) and drops the stored `metric` / `volume` entries after a permutation,
      instead of deciding from whatever `elemental_data['metric']` an earlier call on the same object left behind -/
  freshMetric : Bool := true
deriving Repr, DecidableEq

def Cfg.fixed : Cfg := ⟨true, true⟩
def Cfg.upstream : Cfg := ⟨false, false⟩

/-! ### id -> storage position as the njit kernels compute it -/

def insertPair (p : Nat × Nat) : List (Nat × Nat) → List (Nat × Nat)
  | [] => [p]
  | q :: t => if p.1 ≤ q.1 then p :: q :: t else q :: insertPair p t

/-- `(node_ids[argsort], argsort)`: (id, storage position) ascending by id -/
def sortedPairs (ids : List Nat) : List (Nat × Nat) := (ids.zip (List.range ids.length)).foldr insertPair []

/-- `np.searchsorted(sorted, x)` (side = left) -/
def searchsorted (sorted : List Nat) (x : Nat) : Nat := (sorted.filter (· < x)).length

def rankOf (ids : List Nat) (x : Nat) : Nat := searchsorted ((sortedPairs ids).map Prod.fst) x

/-- `argsort[np.searchsorted(node_ids_sorted, x)]` -/
def posOf (ids : List Nat) (x : Nat) : Option Nat := ((sortedPairs ids)[rankOf ids x]?).map Prod.snd

/-! ### to_polyhedron -/

/-- the face pattern of `pyr_to_polyhedron` in local vertex numbers -/
def pyrPolyFaces : List (List Nat) := [[3, 2, 1, 0], [0, 1, 4], [1, 2, 4], [2, 3, 4], [3, 0, 4]]

/-- face patterns of the four kernels (local vertex numbers); tet / hex / prism are the tables regenerated from
    the source under a non-identity `argsort`, the pyramid's is `pyrPolyFaces` (obligation `C18_pyr_table`:
    the regenerated table equals it, which fails while the kernel omits `argsort`) -/
def polyTable : Nat → Option (List (List Nat))
  | 8 => some Femio.Gen.polyFaces_tet
  | 10 => some pyrPolyFaces
  | 12 => some Femio.Gen.polyFaces_prism
  | 14 => some Femio.Gen.polyFaces_hex
  | _ => none

/-- faces of one element as lists of storage positions; `none` = NotImplementedError / broken reference -/
def polyFaces (cfg : Cfg) (nodeIds : List Nat) (e : Elem) : Option (List (List Nat)) := do
  let tab ← polyTable e.ty
  let loc : Nat → Option Nat := fun id =>
    if e.ty = 10 ∧ !cfg.pyrArgsort then some (rankOf nodeIds id) else posOf nodeIds id
  tab.mapM fun f => f.mapM fun k => do let id ← e.conn[k]?; loc id

/-- `[n_faces, k_1, v.., k_2, v.., …]` -/
def encodeFaces (fs : List (List Nat)) : List Nat := fs.length :: fs.flatMap fun f => f.length :: f

/-- `to_polyhedron()`: (element id, connectivity, face data) in the flattened element order -/
def toPolyhedron (cfg : Cfg) (nodeIds : List Nat) (blocks : List (List Elem)) : Option (List (Nat × List Nat × List Nat)) :=
  (flatten blocks).mapM fun e => do let fs ← polyFaces cfg nodeIds e; pure (e.id, e.conn, encodeFaces fs)

/-! ### resolve_degeneracy -/

def eqAt (c : List Nat) (i j : Nat) : Bool :=
  match c[i]?, c[j]? with
  | some a, some b => a == b
  | _, _ => false

def degenerate (c : List Nat) : Bool := eqAt c 0 1 || eqAt c 1 2 || eqAt c 2 3 || eqAt c 3 0

/-- the guard `raise ValueError("Unknown degeneracy pattern in hex")` -/
def patternOkB (hexes : List Elem) : Bool :=
  hexes.all fun e => (!eqAt e.conn 0 1 || eqAt e.conn 4 5) && (!eqAt e.conn 1 2 || eqAt e.conn 5 6)
    && (!eqAt e.conn 2 3 || eqAt e.conn 6 7) && (!eqAt e.conn 3 0 || eqAt e.conn 7 4)

def applyPattern (pat : List Nat) (e : Elem) : Option Elem := do
  let c ← pick e.conn pat
  pure ⟨e.id, 12, c⟩

/-- `(hex block, prism block)` after `resolve_degeneracy`; `none` = ValueError -/
def resolveDegeneracy (hexes prisms : List Elem) : Option (List Elem × List Elem) :=
  if !patternOkB hexes then none else do
    let d01 ← (hexes.filter fun e => eqAt e.conn 0 1).mapM (applyPattern Femio.Gen.degen_01)
    let d12 ← (hexes.filter fun e => eqAt e.conn 1 2).mapM (applyPattern Femio.Gen.degen_12)
    let d23 ← (hexes.filter fun e => eqAt e.conn 2 3).mapM (applyPattern Femio.Gen.degen_23)
    let d30 ← (hexes.filter fun e => eqAt e.conn 3 0).mapM (applyPattern Femio.Gen.degen_30)
    pure (hexes.filter fun e => !degenerate e.conn, sortElems (prisms ++ d01 ++ d12 ++ d23 ++ d30))

/-! ### make_elements_positive (tet meshes) -/

/-- `_permute` for `tet`: regenerated from the source (`Gen.tetPermute`, tabulated by running `_permute`) -/
def tetPermute : List Nat := Femio.Gen.tetPermute

section Kernels
open V3 Geom
variable {R : Type} [Add R] [Sub R] [Mul R]

def tetVol6 (zero : R) (pt : Nat → V3 R) (conn : List Nat) : R :=
  match conn with
  | [a, b, c, d] => tet6 (pt a) (pt b) (pt c) (pt d)
  | _ => zero

/-- one element of `make_elements_positive`: permuted iff its metric is negative -/
def makePositive [LT R] [DecidableLT R] (zero : R) (pt : Nat → V3 R) (e : Elem) : Elem :=
  if tetVol6 zero pt e.conn < zero then ⟨e.id, e.ty, ((pick e.conn tetPermute).getD e.conn)⟩ else e

/-- `_calculate_element_volumes_polyhedron_core` ("linear"): fan from the first vertex, 6 × flux of x/3 -/
def fanLin6 (zero : R) (pt : Nat → V3 R) : List Nat → R
  | a :: b :: c :: t => det (pt a) (pt b) (pt c) + fanLin6 zero pt (a :: c :: t)
  | _ => zero

/-- `_calculate_element_volumes_polyhedron_centroid_core`: `Σ_i det(ΣF, F[i-1], F[i])` = (#F) · 6 × flux -/
def fanCentroid (zero : R) (pt : Nat → V3 R) (f : List Nat) : R :=
  match f.getLast? with
  | none => zero
  | some l =>
    let s := f.foldr (fun i acc => V3.add (pt i) acc) ⟨zero, zero, zero⟩
    sumR zero (((l :: f).zip f).map fun (a, b) => det s (pt a) (pt b))

end Kernels

/-! ### histories of public calls on ONE object (tet meshes)

    `calculate_element_volumes()` / `calculate_element_metrics()` answer from the stored `elemental_data['volume']` /
    `['metric']` entry when there is one (early return through `_validate_metric`, options applied to the STORED array,
    nothing written back) and store what they return otherwise; `make_elements_positive()` is the only call that
    changes the connectivity. Transcribed as the code is (including "the stored entry ignores the options of later
    calls", which is property C19's open finding, not C18's business). -/

inductive HOp where
  /-- `calculate_element_metrics(raise_negative_metric, return_abs_metric)` -/
  | metrics (raiseNeg abs : Bool)
  /-- `calculate_element_volumes(raise_negative_volume, return_abs_volume)` (mode is irrelevant for tetrahedra) -/
  | volumes (raiseNeg abs : Bool)
  /-- `make_elements_positive()` -/
  | positive
deriving Repr, DecidableEq

structure HState (R : Type) where
  elems : List Elem
  metric : Option (List R)
  volume : Option (List R)

section History
open V3 Geom
variable {R : Type} [Add R] [Sub R] [Mul R] [Neg R] [LT R] [DecidableLT R]

def absR (zero : R) (x : R) : R := if x < zero then -x else x

def anyNeg (zero : R) (xs : List R) : Bool := xs.any fun x => decide (x < zero)

/-- `_validate_metric`; `none` = `ValueError("Negative metric found")`. A new array is returned for
    `return_abs_metric=True` (`np.abs`), the argument is never written to. -/
def validate (zero : R) (raiseNeg abs : Bool) (xs : List R) : Option (List R) :=
  if raiseNeg && anyNeg zero xs then none else some (if abs then xs.map (absR zero) else xs)

def signedVols (zero : R) (pt : Nat → V3 R) (es : List Elem) : List R := es.map fun e => tetVol6 zero pt e.conn

/-- `calculate_element_volumes(elements=None, update=True)`: (new state, returned array) -/
def stepVolumes (zero : R) (pt : Nat → V3 R) (r a : Bool) (s : HState R) : HState R × Option (List R) :=
  match s.volume with
  | some v => (s, validate zero r a v)
  | none =>
    match validate zero r a (signedVols zero pt s.elems) with
    | none => (s, none)
    | some v => ({ s with volume := some v }, some v)

/-- `calculate_element_metrics(elements=None, update=True)`: without a stored `metric` it calls
    `calculate_element_volumes(elements=self.elements, update=True)` (which by-passes the stored `volume`, validates,
    and overwrites `volume`), validates once more (idempotent on a validated array) and stores `metric`. -/
def stepMetrics (zero : R) (pt : Nat → V3 R) (r a : Bool) (s : HState R) : HState R × Option (List R) :=
  match s.metric with
  | some v => (s, validate zero r a v)
  | none =>
    match validate zero r a (signedVols zero pt s.elems) with
    | none => (s, none)
    | some v => ({ s with volume := some v, metric := some v }, some v)

def permuted (e : Elem) : Elem := ⟨e.id, e.ty, (pick e.conn tetPermute).getD e.conn⟩

/-- `elements[cond] = _permute(elements[cond])` with `cond = metric < 0` (an element without a metric entry is kept) -/
def permuteNeg (zero : R) : List R → List Elem → List Elem
  | x :: xs, e :: es => (if x < zero then permuted e else e) :: permuteNeg zero xs es
  | _, es => es

def stepPositive (cfg : Cfg) (zero : R) (pt : Nat → V3 R) (s : HState R) : HState R :=
  if cfg.freshMetric then
    let m := signedVols zero pt s.elems
    if anyNeg zero m then { elems := permuteNeg zero m s.elems, metric := none, volume := none } else s
  else
    let q := stepMetrics zero pt false false s
    match q.2 with
    | none => q.1
    | some m => if anyNeg zero m then { q.1 with elems := permuteNeg zero m q.1.elems } else q.1

def stepH (cfg : Cfg) (zero : R) (pt : Nat → V3 R) (s : HState R) : HOp → HState R
  | .metrics r a => (stepMetrics zero pt r a s).1
  | .volumes r a => (stepVolumes zero pt r a s).1
  | .positive => stepPositive cfg zero pt s

def runH (cfg : Cfg) (zero : R) (pt : Nat → V3 R) (s : HState R) (h : List HOp) : HState R :=
  h.foldl (stepH cfg zero pt) s

/-- a freshly built object: nothing stored -/
def fresh0 (es : List Elem) : HState R := ⟨es, none, none⟩

end History
end Femio.C18
