import Femio.Lemmas.TensorLemmas
import Femio.Lemmas.AlignLemmas
import Femio.Lemmas.LinAlg
import Femio.Model.TensorRound
import Mathlib.Algebra.CharZero.Defs
import Mathlib.Logic.Equiv.Defs
import Mathlib.Algebra.Group.End
import Mathlib.Algebra.Order.Field.Basic
import Mathlib.Tactic.Linarith
import Mathlib.Tactic.Positivity
import Mathlib.Data.Finset.Prod
import Mathlib.Data.Finset.Card

/-! # C17 — tensor helpers are mutually inverse and reconstruct their input

Theorems about `Femio.Tensor` (`Model/Tensor.lean`).  The index tables and the engineering-shear factors are
the generated ones (`Femio/Gen/Tables.lean`), so every statement is re-checked against the working tree.
`np.linalg.eigh` is not modelled: its post-condition `IsEigh` (A V = V diag(w), Vᵀ V = 1; ascending `w`
where the order matters) is an explicit hypothesis, and the harness evaluates it exactly on every
eigen-system the real call returned.  "Does not modify the caller's array" is an aliasing fact of numpy
and is checked on the implementation only (harness snapshot). -/
namespace Femio.C17
open Femio.Tensor Femio.Gradient V3 Femio.Gen
variable {K : Type} [Field K]

def ordList (σ : Equiv.Perm (Fin 6)) : List Nat := List.ofFn fun k => ((σ k : Fin 6) : Nat)
theorem ordList_length (σ : Equiv.Perm (Fin 6)) : (ordList σ).length = 6 := List.length_ofFn
theorem ordList_getElem (σ : Equiv.Perm (Fin 6)) (k : Nat) (h : k < (ordList σ).length) :
    (ordList σ)[k] = ((σ ⟨k, by simpa [ordList_length] using h⟩ : Fin 6) : Nat) := by
  simp only [ordList, List.getElem_ofFn]

theorem gather_length (idx : List Nat) (a : List K) : (gather idx a).length = idx.length := by simp [gather]
theorem gather_getElem (idx : List Nat) (a : List K) (k : Nat) (h : k < (gather idx a).length) :
    (gather idx a)[k] = a.getD (idx[k]'(by simpa [gather] using h)) 0 := by
  simp only [gather, List.getElem_map]

theorem getD_getElem (l : List K) (n : Nat) (h : n < l.length) : l.getD n 0 = l[n] := by
  simp [List.getD_eq_getElem?_getD, h]

theorem gather_perm (σ : Equiv.Perm (Fin 6)) (a : List K) (ha : a.length = 6) :
    gather (ordList σ⁻¹) (gather (ordList σ) a) = a := by
  apply List.ext_getElem
  · rw [gather_length, ordList_length, ha]
  · intro k h1 h2
    have hk : k < 6 := by simpa [ha] using h2
    have h3 : ((σ⁻¹ ⟨k, hk⟩ : Fin 6) : Nat) < (gather (ordList σ) a).length := by
      rw [gather_length, ordList_length]; exact (σ⁻¹ ⟨k, hk⟩).isLt
    rw [gather_getElem, ordList_getElem, getD_getElem _ _ h3, gather_getElem, ordList_getElem]
    simp [h2]

theorem gather_tables (c : List K) (hc : c.length = 6) : gather mat2arrIdx (gather arr2matIdx c) = c := by
  match c, hc with
  | [c0, c1, c2, c3, c4, c5], _ => rfl

theorem scale_cancel [CharZero K] (b : List K) (hb : b.length = 6) : scaleBy mat2arrEng (scaleBy arr2matEng b) = b := by
  match b, hb with
  | [c0, c1, c2, c3, c4, c5], _ =>
    simp [scaleBy, mat2arrEng, arr2matEng]

theorem scaleBy_length (t : List (Nat × Nat)) (b : List K) (ht : t.length = 6) (hb : b.length = 6) : (scaleBy t b).length = 6 := by
  simp [scaleBy, ht, hb]

theorem C17_arr_mat_inverse [CharZero K] (σ : Equiv.Perm (Fin 6)) (eng : Bool) (a : List K) (ha : a.length = 6) :
    mat2arr (ordList σ⁻¹) eng (arr2mat (ordList σ) eng a) = a
    ∧ transpose (toM3 (arr2mat (ordList σ) eng a)) = toM3 (arr2mat (ordList σ) eng a) := by
  have hb : (gather (ordList σ) a).length = 6 := by rw [gather_length, ordList_length]
  constructor
  · unfold mat2arr arr2mat
    cases eng
    · simp only [Bool.false_eq_true, if_false]
      rw [gather_tables _ hb, gather_perm σ a ha]
    · simp only [if_true]
      rw [gather_tables _ (scaleBy_length _ _ rfl hb), scale_cancel _ hb, gather_perm σ a ha]
  · unfold arr2mat
    generalize (if eng = true then scaleBy arr2matEng (gather (ordList σ) a) else gather (ordList σ) a) = c
    rfl

/-! ### principal components -/

/-- the post-condition of `np.linalg.eigh(A) = (w, V)`: the columns of `V` are orthonormal eigenvectors -/
structure IsEigh (A : M3 K) (w : V3 K) (V : M3 K) : Prop where
  eig : mmul A V = mmul V (diag3 w)
  orth : mmul (transpose V) V = one3

theorem IsEigh.rebuild {A : M3 K} {w : V3 K} {V : M3 K} (h : IsEigh A w V) :
    mmul (mmul V (diag3 w)) (transpose V) = A := by
  rw [← h.eig, mmul_assoc, orth_comm h.orth, mmul_one]

theorem IsEigh.spectral_sum {A : M3 K} {w : V3 K} {V : M3 K} (h : IsEigh A w V) :
    A = madd (madd (msmul w.x (outer (col0 V) (col0 V))) (msmul w.y (outer (col1 V) (col1 V))))
          (msmul w.z (outer (col2 V) (col2 V))) := by
  have := Femio.Tensor.spectral (col0 V) (col1 V) (col2 V) w
  rw [ofCols_cols, h.rebuild] at this
  exact this

theorem outer_sum (V : M3 K) (h : mmul (transpose V) V = one3) :
    madd (madd (outer (col0 V) (col0 V)) (outer (col1 V) (col1 V))) (outer (col2 V) (col2 V)) = one3 := by
  have := Femio.Tensor.spectral (col0 V) (col1 V) (col2 V) ⟨1, 1, 1⟩
  rw [ofCols_cols] at this
  have h1 : mmul V (diag3 (⟨1, 1, 1⟩ : V3 K)) = V := mmul_one V
  rw [h1, orth_comm h] at this
  rw [this]
  apply m3_ext <;> apply v3_ext <;> simp [madd, msmul, V3.add, V3.smul]

theorem cols_orth (V : M3 K) (h : mmul (transpose V) V = one3) :
    dot (col0 V) (col0 V) = 1 ∧ dot (col1 V) (col1 V) = 1 ∧ dot (col2 V) (col2 V) = 1 ∧
    dot (col0 V) (col1 V) = 0 ∧ dot (col0 V) (col2 V) = 0 ∧ dot (col1 V) (col2 V) = 0 := by
  have e00 := congrArg (fun M : M3 K => M.r0.x) h
  have e11 := congrArg (fun M : M3 K => M.r1.y) h
  have e22 := congrArg (fun M : M3 K => M.r2.z) h
  have e01 := congrArg (fun M : M3 K => M.r0.y) h
  have e02 := congrArg (fun M : M3 K => M.r0.z) h
  have e12 := congrArg (fun M : M3 K => M.r1.z) h
  exact ⟨e00, e11, e22, e01, e02, e12⟩

theorem madd_perm (X Y Z : M3 K) : madd (madd X Y) Z = madd (madd Z Y) X := by
  apply m3_ext <;> apply v3_ext <;> simp [madd, V3.add] <;> ring
theorem madd_perm' (X Y Z : M3 K) : madd (madd X Y) Z = madd (madd Y X) Z := by
  apply m3_ext <;> apply v3_ext <;> simp [madd, V3.add] <;> ring

theorem diag_table (x y z : K) : toM3 (arr2mat defaultOrder false [x, y, z, 0, 0, 0]) = diag3 ⟨x, y, z⟩ := rfl

/-- `Σ_k value_k d_k d_kᵀ` with the third eigenvector overwritten by `d0 × d1` still rebuilds `A` (descending layout) -/
theorem fromEigens_principal {A : M3 K} {w : V3 K} {V : M3 K} (h : IsEigh A w V) (g : K → K) :
    fromEigens ⟨g w.z, g w.y, g w.x⟩ (col2 V) (col1 V) (cross (col2 V) (col1 V))
      = mmul (mmul V (diag3 ⟨g w.x, g w.y, g w.z⟩)) (transpose V) := by
  obtain ⟨h00, h11, h22, h01, h02, h12⟩ := cols_orth V h.orth
  have hI := outer_sum V h.orth
  rw [madd_perm] at hI
  have hc := cross_outer (col2 V) (col1 V) (col0 V) hI h22 h11 (by rw [dot_comm]; exact h12)
  have s2 := Femio.Tensor.spectral (col0 V) (col1 V) (col2 V) ⟨g w.x, g w.y, g w.z⟩
  rw [ofCols_cols] at s2
  unfold fromEigens
  rw [diag_table, Femio.Tensor.spectral, hc, s2, madd_perm]

/-- **C17, principal components.**  Let `(w, V)` satisfy the post-condition of `eigh` for `A` with `w`
    ascending.  Then the result of `calculate_principal_components` has (1) values sorted descending,
    (2) orthonormal directions, (3) right-handed (`det = +1`, by the Lagrange identity), (4) they rebuild
    the tensor: `calculate_symmetric_matrices_from_eigens(values, directions) = A` — also when eigenvalues
    repeat or vanish, whatever orthonormal basis `eigh` chose —, (5) vectors = value · direction. -/
theorem C17_principal [LE K] (A : M3 K) (w : V3 K) (V : M3 K) (h : IsEigh A w V)
    (hasc : w.x ≤ w.y ∧ w.y ≤ w.z) :
    let p := principalPost w V
    (p.vals.y ≤ p.vals.x ∧ p.vals.z ≤ p.vals.y)
    ∧ mmul (transpose (ofCols p.d0 p.d1 p.d2)) (ofCols p.d0 p.d1 p.d2) = one3
    ∧ det3 (ofCols p.d0 p.d1 p.d2) = 1
    ∧ fromEigens p.vals p.d0 p.d1 p.d2 = A
    ∧ (p.v0 = V3.smul p.vals.x p.d0 ∧ p.v1 = V3.smul p.vals.y p.d1 ∧ p.v2 = V3.smul p.vals.z p.d2) := by
  obtain ⟨h00, h11, h22, h01, h02, h12⟩ := cols_orth V h.orth
  have h21 : dot (col2 V) (col1 V) = 0 := by rw [dot_comm]; exact h12
  have hcc := cross_dot_self (col2 V) (col1 V)
  rw [h22, h11, h21] at hcc
  have hc0 := cross_dot_left (col2 V) (col1 V)
  have hc1 := cross_dot_right (col2 V) (col1 V)
  refine ⟨⟨hasc.2, hasc.1⟩, ?_, ?_, ?_, ⟨rfl, rfl, rfl⟩⟩
  · -- Gram matrix of (d0, d1, d0 × d1)
    show mmul (transpose (ofCols (col2 V) (col1 V) (cross (col2 V) (col1 V))))
      (ofCols (col2 V) (col1 V) (cross (col2 V) (col1 V))) = one3
    generalize hd0 : col2 V = d0 at *
    generalize hd1 : col1 V = d1 at *
    generalize hd2 : cross d0 d1 = d2 at *
    have e1 := dot_comm d2 d0
    have e2 := dot_comm d2 d1
    have e3 := dot_comm d1 d0
    obtain ⟨x0, x1, x2⟩ := d0; obtain ⟨y0, y1, y2⟩ := d1; obtain ⟨z0, z1, z2⟩ := d2
    simp only [dot] at *
    apply m3_ext <;> apply v3_ext <;> simp only [mmul, transpose, ofCols, one3, dot]
    · linear_combination h22
    · linear_combination h21
    · linear_combination hc0
    · linear_combination h12
    · linear_combination h11
    · linear_combination hc1
    · linear_combination hc0
    · linear_combination hc1
    · linear_combination hcc
  · show det3 (ofCols (col2 V) (col1 V) (cross (col2 V) (col1 V))) = 1
    have : det3 (ofCols (col2 V) (col1 V) (cross (col2 V) (col1 V)))
        = dot (cross (col2 V) (col1 V)) (cross (col2 V) (col1 V)) := by
      generalize col2 V = d0; generalize col1 V = d1
      obtain ⟨x0, x1, x2⟩ := d0; obtain ⟨y0, y1, y2⟩ := d1
      simp [det3, V3.det, ofCols, transpose, dot, cross]; ring
    rw [this, hcc]; ring
  · show fromEigens ⟨w.z, w.y, w.x⟩ (col2 V) (col1 V) (cross (col2 V) (col1 V)) = A
    rw [fromEigens_principal h (fun x => x)]
    exact h.rebuild

/-! ### array form of the rebuild clause, `invert_strain`, thermal-expansion tensors -/

theorem flat_toM3 (m : List K) (h : m.length = 9) : flat (toM3 m) = m := by
  match m, h with
  | [_, _, _, _, _, _, _, _, _], _ => rfl
theorem toM3_flat (A : M3 K) : toM3 (flat A) = A := rfl
theorem gather_default (b : List K) (h : b.length = 6) : gather defaultOrder b = b := by
  match b, h with
  | [_, _, _, _, _, _], _ => rfl
theorem ordList_one : ordList 1 = defaultOrder := by decide
theorem arr2mat_length (o : List Nat) (eng : Bool) (a : List K) : (arr2mat o eng a).length = 9 := by
  simp [arr2mat, gather, arr2matIdx]
theorem mat2arr_default_length (eng : Bool) (m : List K) : (mat2arr defaultOrder eng m).length = 6 := by
  simp [mat2arr, gather, defaultOrder]

/-- default order: `mat2arr (arr2mat a) = a` -/
theorem arr_mat_default [CharZero K] (eng : Bool) (a : List K) (ha : a.length = 6) :
    mat2arr defaultOrder eng (arr2mat defaultOrder eng a) = a := by
  have := (C17_arr_mat_inverse (K := K) 1 eng a ha).1
  rwa [inv_one, ordList_one] at this

/-- the other composition, on symmetric matrices: `arr2mat (mat2arr B) = B` -/
theorem mat_arr_default [CharZero K] (eng : Bool) (B : M3 K) (hB : transpose B = B) :
    toM3 (arr2mat defaultOrder eng (mat2arr defaultOrder eng (flat B))) = B := by
  obtain ⟨⟨b00, b01, b02⟩, ⟨b10, b11, b12⟩, ⟨b20, b21, b22⟩⟩ := B
  simp only [transpose, M3.mk.injEq, V3.mk.injEq] at hB
  obtain ⟨⟨-, h1, h2⟩, ⟨-, -, h3⟩, -⟩ := hB
  subst h1 h2 h3
  cases eng <;>
    simp [arr2mat, mat2arr, gather, scaleBy, flat, toM3, defaultOrder, arr2matIdx, mat2arrIdx, arr2matEng, mat2arrEng]

/-- **C17, rebuild clause on arrays.**  For every component order `σ` and both shear conventions:
    `calculate_array_from_eigens(values, directions, to_engineering)` of the principal components of `a`
    is `a[:, order]` (the function has no `order` option, so it answers in the default component order). -/
theorem C17_principal_array [CharZero K] (σ : Equiv.Perm (Fin 6)) (eng : Bool) (a : List K)
    (w : V3 K) (V : M3 K) (h : IsEigh (toM3 (arr2mat (ordList σ) eng a)) w V) :
    let p := principalPost w V
    arrayFromEigens p.vals p.d0 p.d1 p.d2 eng = gather (ordList σ) a := by
  intro p
  have hb : (gather (ordList σ) a).length = 6 := by rw [gather_length, ordList_length]
  have hre : fromEigens p.vals p.d0 p.d1 p.d2 = toM3 (arr2mat (ordList σ) eng a) := by
    show fromEigens ⟨w.z, w.y, w.x⟩ (col2 V) (col1 V) (cross (col2 V) (col1 V)) = _
    rw [fromEigens_principal h (fun x => x)]; exact h.rebuild
  unfold arrayFromEigens
  rw [hre, flat_toM3 _ (arr2mat_length _ _ _)]
  have : arr2mat (ordList σ) eng a = arr2mat defaultOrder eng (gather (ordList σ) a) := by
    unfold arr2mat; rw [gather_default _ hb]
  rw [this, arr_mat_default eng _ hb]

theorem sym_VDVt (V : M3 K) (d : V3 K) :
    transpose (mmul (mmul V (diag3 d)) (transpose V)) = mmul (mmul V (diag3 d)) (transpose V) := by
  obtain ⟨⟨v00, v01, v02⟩, ⟨v10, v11, v12⟩, ⟨v20, v21, v22⟩⟩ := V
  obtain ⟨d0, d1, d2⟩ := d
  apply m3_ext <;> apply v3_ext <;> simp [mmul, transpose, diag3, dot] <;> ring

theorem toMatrix_diag3 (d : V3 K) (f : K → K) :
    toMatrix (diag3 ⟨f d.x, f d.y, f d.z⟩) = Matrix.diagonal (fun i => f ((![d.x, d.y, d.z] : Fin 3 → K) i)) := by
  ext i j; fin_cases i <;> fin_cases j <;> simp [toMatrix, diag3]

/-- core of `invert_strain`: the answer is the array of a matrix `B` with `(1 + A)(1 + B) = 1` -/
theorem invert_core [CharZero K] (eng : Bool) (a : List K) (w : V3 K) (V : M3 K)
    (h : IsEigh (toM3 (arr2mat defaultOrder eng a)) w V) (hne : 1 + w.x ≠ 0 ∧ 1 + w.y ≠ 0 ∧ 1 + w.z ≠ 0) :
    (invertStrainPost w V eng).length = 6 ∧
    mmul (madd one3 (toM3 (arr2mat defaultOrder eng a)))
      (madd one3 (toM3 (arr2mat defaultOrder eng (invertStrainPost w V eng)))) = one3 := by
  set A := toM3 (arr2mat defaultOrder eng a) with hA
  let g : K → K := fun x => 1 / (1 + x) - 1
  have hr : invertStrainPost w V eng
      = mat2arr defaultOrder eng (flat (mmul (mmul V (diag3 ⟨g w.x, g w.y, g w.z⟩)) (transpose V))) := by
    show arrayFromEigens ⟨g w.z, g w.y, g w.x⟩ (col2 V) (col1 V) (cross (col2 V) (col1 V)) eng = _
    unfold arrayFromEigens
    rw [fromEigens_principal h g]
  refine ⟨by rw [hr]; exact mat2arr_default_length _ _, ?_⟩
  rw [hr, mat_arr_default eng _ (sym_VDVt V _)]
  apply toMatrix_inj
  have hev := congrArg toMatrix h.eig
  have horth' := congrArg toMatrix h.orth
  have horth := congrArg toMatrix (orth_comm h.orth)
  simp only [toMatrix_mmul, toMatrix_transpose, toMatrix_one] at hev horth horth'
  have hd := toMatrix_diag3 w (fun x => x)
  beta_reduce at hd
  have hw : (⟨w.x, w.y, w.z⟩ : V3 K) = w := by cases w; rfl
  rw [hw] at hd
  rw [hd] at hev
  have key := invert_strain_eq (toMatrix A) (toMatrix V) (![w.x, w.y, w.z]) hev horth horth'
    (by intro i; fin_cases i <;> simp [hne.1, hne.2.1, hne.2.2])
  simp only [toMatrix_mmul, toMatrix_madd, toMatrix_one, toMatrix_transpose, toMatrix_diag3 w g]
  rw [add_comm 1 (toMatrix V * _ * _)]
  exact key

theorem madd_left_cancel {X Y : M3 K} (h : madd one3 X = madd one3 Y) : X = Y := by
  apply toMatrix_inj
  have := congrArg toMatrix h
  simpa [toMatrix_madd] using this

/-- if `1 + B` has a left inverse, no eigenvalue `λ` of `B` (w.r.t. an orthonormal eigen-system) has `1 + λ = 0` -/
theorem eig_ne (X B : M3 K) (w : V3 K) (V : M3 K) (h : IsEigh B w V) (hX : mmul X (madd one3 B) = one3) :
    1 + w.x ≠ 0 ∧ 1 + w.y ≠ 0 ∧ 1 + w.z ≠ 0 := by
  have hev := congrArg toMatrix h.eig
  have horth' := congrArg toMatrix h.orth
  have hX' := congrArg toMatrix hX
  simp only [toMatrix_mmul, toMatrix_transpose, toMatrix_one, toMatrix_madd] at hev horth' hX'
  have hd := toMatrix_diag3 w (fun x => x)
  beta_reduce at hd
  have hw : (⟨w.x, w.y, w.z⟩ : V3 K) = w := by cases w; rfl
  rw [hw] at hd
  rw [hd] at hev
  set lam : Fin 3 → K := ![w.x, w.y, w.z] with hlam
  have hD : Matrix.diagonal (fun i => 1 + lam i) = (1 : Matrix (Fin 3) (Fin 3) K) + Matrix.diagonal lam := by
    ext i j; by_cases hij : i = j <;> simp [Matrix.diagonal, hij]
  have e1 : (1 + toMatrix B) * toMatrix V = toMatrix V * Matrix.diagonal (fun i => 1 + lam i) := by
    rw [hD, add_mul, one_mul, hev, mul_add, mul_one]
  have e2 : toMatrix V = toMatrix X * toMatrix V * Matrix.diagonal (fun i => 1 + lam i) := by
    calc toMatrix V = (toMatrix X * (1 + toMatrix B)) * toMatrix V := by rw [hX', one_mul]
      _ = toMatrix X * ((1 + toMatrix B) * toMatrix V) := by rw [Matrix.mul_assoc]
      _ = toMatrix X * toMatrix V * Matrix.diagonal (fun i => 1 + lam i) := by rw [e1, Matrix.mul_assoc]
  have e3 : (1 : Matrix (Fin 3) (Fin 3) K)
      = ((toMatrix V).transpose * (toMatrix X * toMatrix V)) * Matrix.diagonal (fun i => 1 + lam i) := by
    rw [Matrix.mul_assoc, ← e2, horth']
  have e4 := congrArg Matrix.det e3
  rw [Matrix.det_one, Matrix.det_mul, Matrix.det_diagonal, Fin.prod_univ_three] at e4
  have l0 : lam 0 = w.x := rfl
  have l1 : lam 1 = w.y := rfl
  have l2 : lam 2 = w.z := rfl
  rw [l0, l1, l2] at e4
  refine ⟨?_, ?_, ?_⟩ <;> intro hz <;> rw [hz] at e4 <;> simp at e4

/-- **C17, `invert_strain`.**  If `(w, V)` is what `eigh` returned for the matrix of the strain `a`
    (either shear convention) and no `1 + λ_k` vanishes, the answer `r` is the array of the matrix `B` with
    `(1 + A)(1 + B) = 1`, i.e. `B = (1 + A)⁻¹ − 1` — whatever orthonormal eigen-system `eigh` chose, also
    for repeated eigenvalues — and inverting `r` again, with any eigen-system `(w', V')` that `eigh` may return
    for `B`, gives back `a` itself (`1 + λ'_k ≠ 0` is then automatic: `1 + B` is invertible). -/
theorem C17_invert_strain [CharZero K] (eng : Bool) (a : List K) (ha : a.length = 6) (w : V3 K) (V : M3 K)
    (h : IsEigh (toM3 (arr2mat defaultOrder eng a)) w V) (hne : 1 + w.x ≠ 0 ∧ 1 + w.y ≠ 0 ∧ 1 + w.z ≠ 0) :
    let r := invertStrainPost w V eng
    mmul (madd one3 (toM3 (arr2mat defaultOrder eng a))) (madd one3 (toM3 (arr2mat defaultOrder eng r))) = one3
    ∧ ∀ (w' : V3 K) (V' : M3 K), IsEigh (toM3 (arr2mat defaultOrder eng r)) w' V' →
        invertStrainPost w' V' eng = a := by
  intro r
  obtain ⟨hlen, h1⟩ := invert_core eng a w V h hne
  refine ⟨h1, ?_⟩
  intro w' V' h'
  have hne' := eig_ne _ _ w' V' h' h1
  obtain ⟨hlen2, h2⟩ := invert_core eng r w' V' h' hne'
  set A := toM3 (arr2mat defaultOrder eng a)
  set B := toM3 (arr2mat defaultOrder eng r)
  set C := toM3 (arr2mat defaultOrder eng (invertStrainPost w' V' eng))
  -- 1 + C = (1 + A)(1 + B)(1 + C) = 1 + A
  have hCA : madd one3 C = madd one3 A := by
    calc madd one3 C = mmul one3 (madd one3 C) := (one_mmul _).symm
      _ = mmul (mmul (madd one3 A) (madd one3 B)) (madd one3 C) := by rw [h1]
      _ = mmul (madd one3 A) (mmul (madd one3 B) (madd one3 C)) := mmul_assoc _ _ _
      _ = madd one3 A := by rw [h2, mmul_one]
  have hC : C = A := madd_left_cancel hCA
  have hl : arr2mat defaultOrder eng (invertStrainPost w' V' eng) = arr2mat defaultOrder eng a := by
    rw [← flat_toM3 _ (arr2mat_length _ _ _), ← flat_toM3 (arr2mat defaultOrder eng a) (arr2mat_length _ _ _)]
    exact congrArg flat hC
  rw [← arr_mat_default eng _ hlen2, hl, arr_mat_default eng a ha]

/-- **C17, thermal-expansion tensors.**  `convert_lte_global2local` followed by `convert_lte_local2global`
    returns the original six values: the stored pair (ascending eigenvalues, first two eigenvectors) with the
    third axis re-created as `o0 × o1` rebuilds the tensor, and the factor-2 shear layout is undone. -/
theorem C17_lte_roundtrip [CharZero K] (f : List K) (hf : f.length = 6) (w : V3 K) (V : M3 K)
    (h : IsEigh (lteMatrix f) w V) :
    lteLocal2Global (lteGlobal2LocalPost w V).1 (lteGlobal2LocalPost w V).2 = f := by
  obtain ⟨h00, h11, h22, h01, h02, h12⟩ := cols_orth V h.orth
  have hc := cross_outer (col0 V) (col1 V) (col2 V) (outer_sum V h.orth) h00 h11 h01
  have hm : mmul (transpose ⟨col0 V, col1 V, cross (col0 V) (col1 V)⟩)
      (mmul (diag3 w) ⟨col0 V, col1 V, cross (col0 V) (col1 V)⟩) = lteMatrix f := by
    rw [spectral_rows, hc, ← h.spectral_sum]
  have ho : lteLocal2Global (lteGlobal2LocalPost w V).1 (lteGlobal2LocalPost w V).2
      = (let m := mmul (transpose ⟨col0 V, col1 V, cross (col0 V) (col1 V)⟩)
            (mmul (diag3 w) ⟨col0 V, col1 V, cross (col0 V) (col1 V)⟩)
         [m.r0.x, m.r1.y, m.r2.z, m.r0.y * ((2 : Nat) : K), m.r1.z * ((2 : Nat) : K), m.r0.z * ((2 : Nat) : K)]) := by
    unfold lteLocal2Global lteGlobal2LocalPost
    generalize col0 V = c0; generalize col1 V = c1
    obtain ⟨x0, x1, x2⟩ := c0; obtain ⟨y0, y1, y2⟩ := c1
    rfl
  rw [ho]
  simp only [hm]
  match f, hf with
  | [f0, f1, f2, f3, f4, f5], _ =>
    simp [lteMatrix]

/-! ### `align_nnz` -/

theorem dummyScale_spec [LinearOrder K] [IsStrictOrderedRing K] (cells : Nat) (ms : List (Sp K)) (s : Sp K)
    (hs : s ∈ ms) : ∃ m : K, dummyScale cells ms = absR m * 2 + 1 ∧ m ≤ spMin cells s := by
  match ms, hs with
  | s0 :: rest, hs =>
    refine ⟨minList (spMin cells s0) (rest.map (spMin cells)), ?_, ?_⟩
    · simp [dummyScale]
    · have h := minList_le (spMin cells s0) (rest.map (spMin cells))
      rcases List.mem_cons.mp hs with rfl | h'
      · exact h.1
      · exact h.2 _ (List.mem_map_of_mem h')

/-- a canonical sparse matrix (distinct cells, all inside the shape) that stores `rows · cols` entries stores every cell -/
theorem full_covers (rows cols : Nat) (s : Sp K) (hnd : (s.map (·.1)).Nodup)
    (hin : ∀ e ∈ s, e.1.1 < rows ∧ e.1.2 < cols) (hlen : rows * cols ≤ s.length)
    (k : Nat × Nat) (hk : k.1 < rows ∧ k.2 < cols) : s.any (·.1 == k) = true := by
  classical
  have hsub : (s.map (·.1)).toFinset ⊆ Finset.range rows ×ˢ Finset.range cols := by
    intro x hx
    rw [List.mem_toFinset, List.mem_map] at hx
    obtain ⟨e, he, rfl⟩ := hx
    simp [Finset.mem_product, hin e he]
  have hcard : (Finset.range rows ×ˢ Finset.range cols).card ≤ ((s.map (·.1)).toFinset).card := by
    rw [List.toFinset_card_of_nodup hnd, Finset.card_product, Finset.card_range, Finset.card_range, List.length_map]
    exact hlen
  have heq := Finset.eq_of_subset_of_card_le hsub hcard
  have : k ∈ (s.map (·.1)).toFinset := by
    rw [heq]; simp [Finset.mem_product, hk]
  rw [List.mem_toFinset, List.mem_map] at this
  obtain ⟨e, he, rfl⟩ := this
  exact List.any_eq_true.mpr ⟨e, he, by simp⟩


/-- `align_nnz` under the counting hypothesis `hfull` (a matrix that stores `cells` entries stores every cell) -/
theorem align_nnz_of_full [LinearOrder K] [IsStrictOrderedRing K] (cells : Nat) (ms : List (Sp K))
    (hfull : ∀ s ∈ ms, cells ≤ s.length → ∀ k ∈ unionKeys ms, s.any (·.1 == k) = true) :
    alignNnz cells ms = ms.map (fun s => (unionKeys ms).map fun k => (k, lookup s k)) := by
  unfold alignNnz
  apply List.map_congr_left
  intro s hs
  obtain ⟨m, hD, hm⟩ := dummyScale_spec cells ms s hs
  have hnz : ∀ k ∈ unionKeys ms, lookup s k + ((cnt ms k : Nat) : K) * dummyScale cells ms ≠ 0 := by
    intro k hk
    have h1 : spMin cells s ≤ lookup s k := spMin_le_lookup cells s k (fun hc => hfull s hs hc k hk)
    have h2 : (1 : K) ≤ ((cnt ms k : Nat) : K) := by exact_mod_cast cnt_pos ms k hk
    have h3 := absR_nonneg m
    have h4 := neg_le_absR m
    have hD1 : (1 : K) ≤ dummyScale cells ms := by rw [hD]; linarith
    have h5 : dummyScale cells ms ≤ ((cnt ms k : Nat) : K) * dummyScale cells ms :=
      le_mul_of_one_le_left (by linarith) h2
    have : 0 < lookup s k + ((cnt ms k : Nat) : K) * dummyScale cells ms := by
      rw [hD] at h5 hD1; rw [hD]; linarith
    exact ne_of_gt this
  exact align_row s (unionKeys ms) (fun k => ((cnt ms k : Nat) : K) * dummyScale cells ms) hnz

/-- **C17, `align_nnz`.**  For canonical sparse inputs of a common shape `rows × cols` (distinct cells, all
    inside the shape; explicit zeros, any signs, empty and full matrices allowed), over an ordered field:
    every output carries exactly the pattern `unionKeys ms` = the union of the input patterns in row-major
    order, and on every cell of it the value the input shows there (its stored value, or 0 where it stores
    nothing).  The dummy scale `D = 2|min| + 1` makes every `s_ij + c_ij·D` strictly positive, so scipy's
    dropping of exact zeros never shifts the positional subtraction `(s + dummy).data − dummy.data`. -/
theorem C17_align_nnz [LinearOrder K] [IsStrictOrderedRing K] (rows cols : Nat) (ms : List (Sp K))
    (hwf : ∀ s ∈ ms, (s.map (·.1)).Nodup ∧ ∀ e ∈ s, e.1.1 < rows ∧ e.1.2 < cols) :
    alignNnz (rows * cols) ms = ms.map (fun s => (unionKeys ms).map fun k => (k, lookup s k))
    ∧ ∀ k, k ∈ unionKeys ms ↔ ∃ s ∈ ms, k ∈ s.map (·.1) := by
  refine ⟨align_nnz_of_full _ ms ?_, mem_unionKeys ms⟩
  intro s hs hlen k hk
  obtain ⟨s', hs', hk'⟩ := (mem_unionKeys ms k).mp hk
  obtain ⟨e, he, rfl⟩ := List.mem_map.mp hk'
  exact full_covers rows cols s (hwf s hs).1 (hwf s hs).2 hlen e.1 ((hwf s' hs').2 e he)

/-! ### structured special values: shear-free tensors (round 4, class H) -/

/-- **C17, shear-free tensors without `eigh`.**  For `diag(a)` and ANY ordering `(i, j, k)` of the three axes (all six,
    including the two 3-cycles; no assumption on the values, so repeated and zero values are covered) the frame whose
    COLUMN `m` is the axis of the `m`-th value rebuilds `diag(a)`, is orthonormal and right-handed.  This is the statement a
    shortcut for already-diagonal tensors has to satisfy; the harness generates all six orders in every run. -/
theorem fromEigens_closed (vals d0 d1 d2 : V3 K) :
    fromEigens vals d0 d1 d2 = mmul (mmul (ofCols d0 d1 d2) (diag3 vals)) (transpose (ofCols d0 d1 d2)) := by
  obtain ⟨x, y, z⟩ := vals
  rfl

/-- the six orderings of the three axes -/
def orders3 : List (Nat × Nat × Nat) := [(0, 1, 2), (0, 2, 1), (1, 0, 2), (1, 2, 0), (2, 0, 1), (2, 1, 0)]

theorem C17_diag_shortcut (a : V3 K) (i j k : Nat) (h : (i, j, k) ∈ orders3) :
    let p := diagShortcut true a i j k
    fromEigens p.vals p.d0 p.d1 p.d2 = diag3 a
    ∧ mmul (transpose (ofCols p.d0 p.d1 p.d2)) (ofCols p.d0 p.d1 p.d2) = one3
    ∧ det3 (ofCols p.d0 p.d1 p.d2) = 1 := by
  obtain ⟨x, y, z⟩ := a
  simp only [orders3, List.mem_cons, Prod.mk.injEq, List.mem_nil_iff, or_false] at h
  rcases h with ⟨rfl, rfl, rfl⟩ | ⟨rfl, rfl, rfl⟩ | ⟨rfl, rfl, rfl⟩ | ⟨rfl, rfl, rfl⟩ | ⟨rfl, rfl, rfl⟩ | ⟨rfl, rfl, rfl⟩ <;>
    (intro p; refine ⟨?_, ?_, ?_⟩ <;> (try rw [fromEigens_closed]) <;> (try apply m3_ext) <;> (try apply v3_ext) <;>
      simp [p, diagShortcut, axis3, comp3, ofCols, col0, col1, transpose, mmul, dot, cross, diag3, one3, det3, V3.det])

/-- The frame `np.eye(3)[σ]` (axis of the `m`-th value in ROW `m`) encodes the inverse permutation: it is still right for the
    identity and the three swaps (self-inverse) … -/
theorem C17_diag_shortcut_rows_selfinverse (a : V3 K) (i j k : Nat)
    (h : (i, j, k) ∈ [(0, 1, 2), (0, 2, 1), (1, 0, 2), (2, 1, 0)]) :
    let p := diagShortcut false a i j k
    fromEigens p.vals p.d0 p.d1 p.d2 = diag3 a := by
  obtain ⟨x, y, z⟩ := a
  simp only [List.mem_cons, Prod.mk.injEq, List.mem_nil_iff, or_false] at h
  rcases h with ⟨rfl, rfl, rfl⟩ | ⟨rfl, rfl, rfl⟩ | ⟨rfl, rfl, rfl⟩ | ⟨rfl, rfl, rfl⟩ <;>
    (intro p; rw [fromEigens_closed]; apply m3_ext <;> apply v3_ext <;>
      simp [p, diagShortcut, axis3, comp3, ofCols, col0, col1, transpose, mmul, dot, cross, diag3])

/-- … and wrong for the 3-cycles, although the values are sorted and the frame is orthonormal and right-handed:
    `diag(2, 1, 3)` (descending order z, x, y) is rebuilt as `diag(1, 3, 2)` (seeded change C17-8).  Only the clause
    "rebuilds the original tensor" sees it. -/
theorem C17_diag_shortcut_rows_counterexample :
    let p := diagShortcut false (⟨2, 1, 3⟩ : V3 ℚ) 2 0 1
    (p.vals.y ≤ p.vals.x ∧ p.vals.z ≤ p.vals.y)
    ∧ mmul (transpose (ofCols p.d0 p.d1 p.d2)) (ofCols p.d0 p.d1 p.d2) = one3
    ∧ det3 (ofCols p.d0 p.d1 p.d2) = 1
    ∧ fromEigens p.vals p.d0 p.d1 p.d2 = diag3 ⟨1, 3, 2⟩
    ∧ fromEigens p.vals p.d0 p.d1 p.d2 ≠ diag3 ⟨2, 1, 3⟩ := by
  decide +kernel

/-! ### flattened keys of sparse cells (round 4, class G) -/

/-- **C17, aligning by flattened keys.**  In exact arithmetic the flattened position `row · n_col + col` orders the cells of an
    `n_row × n_col` matrix exactly as the row-major order of `unionKeys` does (and is injective), whatever the shape: an
    `align_nnz` that places entries by searching flattened keys agrees with the model as long as the keys are computed
    without wrap-around. -/
theorem C17_flat_key_order (cols : Nat) (a b : Nat × Nat) (ha : a.2 < cols) (hb : b.2 < cols) :
    (flatKey cols a < flatKey cols b ↔ keyLt a b) ∧ (flatKey cols a = flatKey cols b ↔ a = b) := by
  obtain ⟨i, j⟩ := a
  obtain ⟨i', j'⟩ := b
  simp only [flatKey, keyLt] at *
  have step : ∀ p q : Nat, p < q → p * cols + cols ≤ q * cols := by
    intro p q hpq
    have := Nat.mul_le_mul_right cols (Nat.succ_le_of_lt hpq)
    simpa [Nat.succ_mul] using this
  constructor
  · constructor
    · intro h
      rcases Nat.lt_trichotomy i i' with hlt | heq | hgt
      · exact Or.inl hlt
      · subst heq
        exact Or.inr ⟨rfl, by omega⟩
      · have := step i' i hgt
        omega
    · rintro (hlt | ⟨rfl, hlt⟩)
      · have := step i i' hlt
        omega
      · omega
  · constructor
    · intro h
      rcases Nat.lt_trichotomy i i' with hlt | heq | hgt
      · have := step i i' hlt
        omega
      · subst heq
        have : j = j' := by omega
        subst this
        rfl
      · have := step i' i hgt
        omega
    · intro h
      cases h
      rfl

/-- In the int32 index dtype scipy uses for a 70000 × 70000 matrix the keys wrap inside row 30678: the cell `(30678, 23648)`
    follows `(30678, 23647)` in row-major order but its key is the most negative int32, below the key of `(0, 0)`, so a binary
    search on the keys misplaces it (seeded change C17-7).  Below 2³¹ cells nothing wraps: the last cell of a 46340 × 46341
    matrix keeps its key, the last cell of 46341 × 46341 does not. -/
theorem C17_flat_key_wrap_counterexample :
    keyLt (30678, 23647) (30678, 23648)
    ∧ flatKeyWrap 32 70000 (30678, 23647) = 2147483647
    ∧ flatKeyWrap 32 70000 (30678, 23648) = -2147483648
    ∧ flatKeyWrap 32 70000 (30678, 23648) < flatKeyWrap 32 70000 (0, 0)
    ∧ flatKeyWrap 32 46341 (46340, 46340) < 0
    ∧ flatKeyWrap 32 46341 (46339, 46340) = 2147441939 := by
  decide +kernel

/-! ### non-vacuity -/

/-- a non-trivial permutation: the cycle (0 3 1)(2 5) -/
def σ0 : Equiv.Perm (Fin 6) := Equiv.swap 0 3 * Equiv.swap 3 1 * Equiv.swap 2 5
example : mat2arr (ordList σ0⁻¹) true (arr2mat (ordList σ0) true ([1, 2, 3, 4, 5, 6] : List ℚ)) = [1, 2, 3, 4, 5, 6] :=
  (C17_arr_mat_inverse σ0 true _ rfl).1
example : ordList σ0 ≠ defaultOrder := by decide
example : arr2mat (ordList σ0) true ([1, 2, 3, 4, 5, 6] : List ℚ) ≠ arr2mat defaultOrder false [1, 2, 3, 4, 5, 6] := by
  decide +kernel

/-- an eigen-system with a repeated eigenvalue and rational rotated axes:
    `A = V diag(1, 1, 4) Vᵀ`, `V` = rotation with columns (3/5, 4/5, 0), (−4/5, 3/5, 0), (0, 0, 1)… permuted so that
    the left-handed input is exercised: columns `(0,0,1), (3/5,4/5,0), (4/5,−3/5,0)` have determinant `−1`. -/
def V0 : M3 ℚ := ⟨⟨0, 3/5, 4/5⟩, ⟨0, 4/5, -3/5⟩, ⟨1, 0, 0⟩⟩
def w0 : V3 ℚ := ⟨1, 1, 4⟩
def A0 : M3 ℚ := mmul (mmul V0 (diag3 w0)) (transpose V0)
theorem eigh0 : IsEigh A0 w0 V0 := ⟨by decide +kernel, by decide +kernel⟩
example : det3 V0 = -1 := by decide +kernel
example : det3 (ofCols (principalPost w0 V0).d0 (principalPost w0 V0).d1 (principalPost w0 V0).d2) = 1 :=
  (C17_principal A0 w0 V0 eigh0 ⟨by decide, by decide⟩).2.2.1
example : fromEigens (principalPost w0 V0).vals (principalPost w0 V0).d0 (principalPost w0 V0).d1 (principalPost w0 V0).d2 = A0 :=
  (C17_principal A0 w0 V0 eigh0 ⟨by decide, by decide⟩).2.2.2.1

/-- strain with engineering shear whose matrix is `A0 − 1/2` scaled: use the diagonal strain (1/2, 1, −1/2) -/
example : IsEigh (toM3 (arr2mat defaultOrder true ([1, 1/2, -1/2, 0, 0, 0] : List ℚ))) ⟨-1/2, 1/2, 1⟩
    ⟨⟨0, 0, 1⟩, ⟨0, 1, 0⟩, ⟨1, 0, 0⟩⟩ := ⟨by decide +kernel, by decide +kernel⟩
example : invertStrainPost (⟨-1/2, 1/2, 1⟩ : V3 ℚ) ⟨⟨0, 0, 1⟩, ⟨0, 1, 0⟩, ⟨1, 0, 0⟩⟩ true = [-1/2, -1/3, 1, 0, 0, 0] := by
  decide +kernel

/-- thermal expansion with engineering shear: eigenvalues 1, 2, 4 on the axes (3/5, 4/5, 0), (−4/5, 3/5, 0), (0, 0, 1) -/
def f0 : List ℚ := [41/25, 34/25, 4, -24/25, 0, 0]
def Vl : M3 ℚ := ⟨⟨3/5, -4/5, 0⟩, ⟨4/5, 3/5, 0⟩, ⟨0, 0, 1⟩⟩
theorem eighl : IsEigh (lteMatrix f0) ⟨1, 2, 4⟩ Vl := ⟨by decide +kernel, by decide +kernel⟩
example : lteLocal2Global (lteGlobal2LocalPost (⟨1, 2, 4⟩ : V3 ℚ) Vl).1 (lteGlobal2LocalPost (⟨1, 2, 4⟩ : V3 ℚ) Vl).2 = f0 :=
  C17_lte_roundtrip f0 rfl _ _ eighl
example : (lteGlobal2LocalPost (⟨1, 2, 4⟩ : V3 ℚ) Vl).2 = [3/5, 4/5, 0, -4/5, 3/5, 0, 0, 0, 0] := by decide +kernel

/-- two 2×2 matrices, different patterns, a negative value and an explicit zero -/
def ms0 : List (Sp ℚ) := [[((0, 0), -3), ((1, 1), 0)], [((0, 1), 5)]]
example : ∀ s ∈ ms0, (s.map (·.1)).Nodup ∧ ∀ e ∈ s, e.1.1 < 2 ∧ e.1.2 < 2 := by decide
example : alignNnz 4 ms0 = [[((0, 0), -3), ((0, 1), 0), ((1, 1), 0)], [((0, 0), 0), ((0, 1), 5), ((1, 1), 0)]] := by
  decide +kernel

/-- the 3-cycle order of `diag(2, 1, 3)` (z, x, y): the column frame rebuilds it (the row frame does not, see above) -/
example : fromEigens (diagShortcut true (⟨2, 1, 3⟩ : V3 ℚ) 2 0 1).vals (diagShortcut true (⟨2, 1, 3⟩ : V3 ℚ) 2 0 1).d0
    (diagShortcut true (⟨2, 1, 3⟩ : V3 ℚ) 2 0 1).d1 (diagShortcut true (⟨2, 1, 3⟩ : V3 ℚ) 2 0 1).d2 = diag3 ⟨2, 1, 3⟩ :=
  (C17_diag_shortcut (⟨2, 1, 3⟩ : V3 ℚ) 2 0 1 (by decide)).1
example : (diagShortcut true (⟨2, 1, 3⟩ : V3 ℚ) 2 0 1).vals = ⟨3, 2, 1⟩ := by decide +kernel
example : fromEigens (diagShortcut false (⟨1, 3, 2⟩ : V3 ℚ) 1 0 2).vals (diagShortcut false (⟨1, 3, 2⟩ : V3 ℚ) 1 0 2).d0
    (diagShortcut false (⟨1, 3, 2⟩ : V3 ℚ) 1 0 2).d1 (diagShortcut false (⟨1, 3, 2⟩ : V3 ℚ) 1 0 2).d2 = diag3 ⟨1, 3, 2⟩ :=
  C17_diag_shortcut_rows_selfinverse (⟨1, 3, 2⟩ : V3 ℚ) 1 0 2 (by decide)

/-- the last cells of a 70000 × 70000 matrix: exact keys keep the row-major order although they exceed 2³² -/
example : flatKey 70000 (69998, 69999) < flatKey 70000 (69999, 0) :=
  (C17_flat_key_order 70000 (69998, 69999) (69999, 0) (by decide) (by decide)).1.mpr (Or.inl (by decide))
example : flatKey 70000 (69999, 0) > 2 ^ 32 := by decide

/-! ### `align_nnz`: a cast of the recovered values back to an integer dtype (seeded change C17-9, round 5) -/
section AlignCast
open Femio.TensorRound

/-- **C17, `align_nnz` with a cast back to the dtype of the input, exact arithmetic.**  Over the rationals the value recovered
    for an integer entry `v` is `v` itself whatever the dummy scale `D` and the number `c` of matrices that store the cell, so
    truncating it toward zero (`ndarray.astype(int)`) changes nothing: the exact model `alignNnz` (and `C17_align_nnz`) cannot
    see such a cast.  What makes it wrong is the round-off of the three binary64 operations — see the counterexample below. -/
theorem C17_align_cast_exact (v : Int) (c : Nat) (D : ℚ) : truncCast (((v : ℚ) + (c : ℚ) * D) - (c : ℚ) * D) = v := by
  have h : ((v : ℚ) + (c : ℚ) * D) - (c : ℚ) * D = (v : ℚ) := by ring
  rw [h]
  unfold truncCast
  split
  · exact Rat.floor_intCast v
  · exact Rat.ceil_intCast v

/-- **C17, `align_nnz` with a cast back to the dtype of the input, binary64: counterexample.**  A 0/1 integer adjacency matrix
    aligned together with float weights whose minimum is `fl(−1.3)`: `D = fl(2·1.3 + 1) = fl(3.6)` is not a dyadic number of few
    bits, `1 + D` lies in the binade above `D`, and the entry `1` comes back as `1 − 2⁻⁵¹ = 0.9999999999999996` — inside the
    tolerance of the property (`≤ 10⁻¹²·D`), but truncated to `0` by the cast: every edge of the graph is lost.  In the same way
    the count `14` next to a minimum of `fl(−0.7)` (`D = fl(2.4)`) comes back as `14 − 2⁻⁴⁹` and is truncated to `13`. -/
theorem C17_align_cast_roundoff_counterexample :
    (let D := dummyScaleFl (fl (-13 / 10))
     alignEntryFl D 1 1 = 1 - 1 / 2 ^ 51 ∧ 1 - alignEntryFl D 1 1 ≤ D / 10 ^ 12 ∧ truncCast (alignEntryFl D 1 1) = 0) ∧
    (let D := dummyScaleFl (fl (-7 / 10))
     alignEntryFl D 1 14 = 14 - 1 / 2 ^ 49 ∧ 14 - alignEntryFl D 1 14 ≤ D / 10 ^ 12 ∧ truncCast (alignEntryFl D 1 14) = 13) := by
  decide +kernel

/-- the same entries next to a dyadic minimum (`−1.5`, `D = 4`) are recovered exactly: the situation of femio's own test
    (integer matrices only, `D = 1`) and of every list whose minimum is an integer or a short dyadic fraction -/
example : alignEntryFl (dummyScaleFl (fl (-3 / 2))) 2 1 = 1 ∧ alignEntryFl (dummyScaleFl 0) 3 14 = 14 := by decide +kernel
example : truncCast (((1 : Int) : ℚ) + ((2 : Nat) : ℚ) * (18 / 5) - ((2 : Nat) : ℚ) * (18 / 5)) = 1 := C17_align_cast_exact 1 2 (18 / 5)

end AlignCast

end Femio.C17
