import Femio.Lemmas.C20Lemmas
import Femio.Lemmas.C20Canon

/-! C20 — mesh compressor: checker soundness, face cancellation, node renumbering, data transfer.
    Property theorems (model: `Femio/Model/Compress.lean`). -/
namespace Femio.C20
open Faces

/-! ### 1. the cell checker -/

/-- **C20_check_polyhedron_spec**: `check_polyhedron` as coded accepts a cell iff no face repeats a node and the
*set* of directed face edges is closed under reversal. -/
theorem C20_check_polyhedron_spec (c : Cell) :
    checkPolyhedron c = true ↔ (∀ f ∈ c, f.Nodup) ∧ ∀ e ∈ edgesOf c, (e.2, e.1) ∈ edgesOf c := by
  simp only [checkPolyhedron, Bool.and_eq_true, List.all_eq_true, nodupB_iff, List.contains_iff_mem]

example : checkPolyhedron [[0,2,1],[0,1,3],[1,2,3],[0,3,2]] = true := by decide

/-- **C20_checker_sound**: a cell accepted by the checker has every face edge matched by the reverse edge in the
same cell, and every face has at least three pairwise distinct nodes. -/
theorem C20_checker_sound (c : Cell) (h : checkCell c = true) :
    (∀ e ∈ edgesOf c, (e.2, e.1) ∈ edgesOf c) ∧ (∀ f ∈ c, 3 ≤ f.length ∧ f.Nodup) := by
  simp only [checkCell, Bool.and_eq_true, List.all_eq_true, decide_eq_true_eq] at h
  obtain ⟨hp, h3⟩ := h
  obtain ⟨hn, he⟩ := (C20_check_polyhedron_spec c).mp hp
  exact ⟨he, fun f hf => ⟨h3 f hf, hn f hf⟩⟩

example : checkCell [[0,2,1],[0,1,3],[1,2,3],[0,3,2]] = true := by decide

/-- **C20_checker_set_not_multiset**: the as-coded test is set based — a tetrahedron with one face listed twice is
accepted although the edge `(0,2)` occurs twice and its reverse once. -/
theorem C20_checker_set_not_multiset :
    checkCell [[0,2,1],[0,1,3],[1,2,3],[0,3,2],[0,2,1]] = true ∧
    balancedCell [[0,2,1],[0,1,3],[1,2,3],[0,3,2],[0,2,1]] = false := by decide

/-! ### 5. mean transfer preserves constants -/

/-- **C20_mean_constants**: `kind="mean"` maps a constant field to the same constant, for every 0/1 matrix all of
whose rows are non-empty. -/
theorem C20_mean_constants (m : Mat) (c : Rat) (h : ∀ r ∈ m.rows, r ≠ []) :
    transferMean m (fun _ => c) = m.rows.map (fun _ => c) := by
  unfold transferMean
  apply List.map_congr_left
  intro r hr
  have hl : (r.length : Rat) ≠ 0 := by
    have := List.length_pos_iff.mpr (h r hr)
    exact_mod_cast this.ne'
  rw [sumL_eq_sum, sum_map_const]
  field_simp

example : (∀ r ∈ (⟨3, [[0,1],[2],[0,1,2]]⟩ : Mat).rows, r ≠ []) := by simp

/-- **C20_mean_constants_back**: the same for the transposed matrix (transfer in the other direction), provided
every column index occurs in some row. -/
theorem C20_mean_constants_back (m : Mat) (c : Rat) (h : ∀ j < m.ncols, ∃ r ∈ m.rows, j ∈ r) :
    transferMean m.transpose (fun _ => c) = m.transpose.rows.map (fun _ => c) := by
  exact C20_mean_constants _ c (transpose_rows_ne_nil m h)

example : (∀ j < (⟨3, [[0,1],[2],[0,1,2]]⟩ : Mat).ncols, ∃ r ∈ (⟨3, [[0,1],[2],[0,1,2]]⟩ : Mat).rows, j ∈ r) := by
  decide

/-! ### 6. sum transfer preserves the total -/

/-- **C20_sum_total**: `kind="sum"` (as documented / repaired) preserves the grand total when every column is hit by
at least one row. -/
theorem C20_sum_total (m : Mat) (x : Nat → Rat)
    (hnd : ∀ r ∈ m.rows, r.Nodup) (hlt : ∀ r ∈ m.rows, ∀ j ∈ r, j < m.ncols)
    (hcol : ∀ j < m.ncols, 0 < colCount m j) :
    sumL (transferSum m x) = sumL ((List.range m.ncols).map x) := by
  rw [sumL_eq_sum, sumL_eq_sum]
  unfold transferSum
  have : (m.rows.map fun r => sumL (r.map fun j => x j / (colCount m j : Rat)))
       = m.rows.map fun r => (r.map fun j => x j / (colCount m j : Rat)).sum := by
    apply List.map_congr_left; intro r _; rw [sumL_eq_sum]
  rw [this, sum_rows_eq m.rows m.ncols _ hnd hlt]
  congr 1
  apply List.map_congr_left
  intro j hj
  have hc : ((colCount m j : Nat) : Rat) ≠ 0 := by
    have := hcol j (List.mem_range.mp hj)
    exact_mod_cast this.ne'
  change (colCount m j : Rat) * (x j / (colCount m j : Rat)) = x j
  field_simp

example : let m : Mat := ⟨3, [[0,1],[2],[0,1,2]]⟩
    (∀ r ∈ m.rows, r.Nodup) ∧ (∀ r ∈ m.rows, ∀ j ∈ r, j < m.ncols) ∧ (∀ j < m.ncols, 0 < colCount m j) := by
  decide

/-- **C20_sum_total_back**: the same for the transposed matrix, provided all column indices are in range and every
row is non-empty. -/
theorem C20_sum_total_back (m : Mat) (x : Nat → Rat)
    (hlt : ∀ r ∈ m.rows, ∀ j ∈ r, j < m.ncols) (hne : ∀ r ∈ m.rows, r ≠ []) :
    sumL (transferSum m.transpose x) = sumL ((List.range m.rows.length).map x) := by
  apply C20_sum_total m.transpose x (transpose_rows_nodup m) (transpose_rows_lt m)
  intro i hi
  have hi' : i < m.rows.length := hi
  obtain ⟨j, hj⟩ := List.exists_mem_of_ne_nil _ (hne _ (List.getElem_mem hi'))
  exact transpose_colCount_pos m i hi' j (hlt _ (List.getElem_mem hi') j hj) hj

example : let m : Mat := ⟨3, [[0,1],[2],[0,1,2]]⟩
    (∀ r ∈ m.rows, ∀ j ∈ r, j < m.ncols) ∧ (∀ r ∈ m.rows, r ≠ []) := by
  decide

/-- **C20_sum_broadcast_counterexample**: the as-coded `kind="sum"` on one-column data: for the 1×2 matrix `[[1,1]]`
and data `(1, 2)` the result has 2 columns instead of one and its grand total is 6 = 2 · 3, twice the input total. -/
theorem C20_sum_broadcast_counterexample :
    let m : Mat := ⟨2, [[0,1]]⟩
    let x : Nat → Rat := fun i => if i = 0 then 1 else 2
    transferSumBroadcast m x = [[3, 3]] ∧
    sumL ((transferSumBroadcast m x).map sumL) = 2 * sumL ((List.range m.ncols).map x) ∧
    sumL (transferSum m x) = sumL ((List.range m.ncols).map x) := by
  norm_num [transferSumBroadcast, transferSum, sumL, colCount, List.range, List.range.loop]

/-! ### 2. merge_polyhedrons: cancellation of opposite faces keeps every additive, orientation-odd quantity -/

/-- **C20_merge_closed_additive**: let `φ` be a face weight that is constant on `canon`-classes and odd under
reversal on the faces present.  If on the faces present the reversed class is well defined (`hc1`) and reversal is
an involution on classes (`hc2`) — expected for faces without repeated nodes, where `canon` is rotation invariant;
not proved here, discharged by `decide` on concrete data —
then the face cancellation of `merge_polyhedrons` preserves the total of `φ`. -/
theorem C20_merge_closed_additive (cells : List Cell) (φ : Face → ℤ)
    (hcls : ∀ f g, canon f = canon g → φ f = φ g)
    (hodd : ∀ f ∈ cells.flatten, φ f.reverse = - φ f)
    (hc1 : ∀ f ∈ cells.flatten, ∀ g ∈ cells.flatten, canon f = canon g → canon f.reverse = canon g.reverse)
    (hc2 : ∀ f ∈ cells.flatten, ∀ g ∈ cells.flatten, canon f.reverse = canon g → canon g.reverse = canon f) :
    ((mergeCells cells).map φ).sum = ((cells.flatten).map φ).sum := by
  apply mergeCells_sum
  refine ⟨fun f hf g hg e => ⟨hc1 f hf g hg e, hcls f g e⟩, fun f hf g hg e => ⟨hc2 f hf g hg e, ?_⟩⟩
  rw [← hcls _ _ e, hodd f hf]

/-- two tetrahedra (femio's `tet_to_polyhedron` face table for the node tuples (0,1,2,3) and (1,2,3,4)) glued along
the face {1,2,3}, which they traverse in opposite directions -/
def twoTetCells : List Cell :=
  [[[0,2,1],[3,0,1],[3,2,0],[3,1,2]], [[1,3,2],[4,1,2],[4,3,1],[4,2,3]]]

example : (∀ f ∈ twoTetCells.flatten, ∀ g ∈ twoTetCells.flatten, canon f = canon g → canon f.reverse = canon g.reverse) ∧
    (∀ f ∈ twoTetCells.flatten, ∀ g ∈ twoTetCells.flatten, canon f.reverse = canon g → canon g.reverse = canon f) ∧
    mergeCells twoTetCells = [[0,2,1],[3,0,1],[3,2,0],[4,1,2],[4,3,1],[4,2,3]] := by decide

/-- **C20_merge_closed**: if every input cell is closed (each directed edge as often as its reverse) the merged
cell is closed.  The weight `#e − #ē` satisfies the two weight hypotheses of `C20_merge_closed_additive` for every
face (`wt_canon_class`, `wt_reverse`); only the class-consistency of `canon` on the faces present remains. -/
theorem C20_merge_closed (cells : List Cell) (hbal : ∀ c ∈ cells, balancedCell c = true)
    (hc1 : ∀ f ∈ cells.flatten, ∀ g ∈ cells.flatten, canon f = canon g → canon f.reverse = canon g.reverse)
    (hc2 : ∀ f ∈ cells.flatten, ∀ g ∈ cells.flatten, canon f.reverse = canon g → canon g.reverse = canon f) :
    Bal (edgesOf (mergeCells cells)) := by
  intro e
  have h := C20_merge_closed_additive cells (wt e) (wt_canon_class e) (fun f _ => wt_reverse e f) hc1 hc2
  rw [sum_wt, sum_wt] at h
  have hb := bal_flatten cells (fun c hc => balB_sound _ (hbal c hc)) e
  omega

example : (∀ c ∈ twoTetCells, balancedCell c = true) ∧ balancedCell (mergeCells twoTetCells) = true := by decide

/-- **C20_merge_closed_additive_nodup**: `C20_merge_closed_additive` with the two class-consistency hypotheses
discharged: when no face present repeats a node (what `check_polyhedron` enforces), `canon` is a complete rotation
invariant, so the reversed class is well defined and reversal is an involution on classes
(`canon_reverse_congr`, `canon_reverse_symm`).  The face cancellation of `merge_polyhedrons` then preserves the total
of every face weight that is constant on `canon`-classes and odd under reversal. -/
theorem C20_merge_closed_additive_nodup (cells : List Cell) (φ : Face → ℤ)
    (hcls : ∀ f g, canon f = canon g → φ f = φ g)
    (hodd : ∀ f ∈ cells.flatten, φ f.reverse = - φ f)
    (hnd : ∀ f ∈ cells.flatten, f.Nodup) :
    ((mergeCells cells).map φ).sum = ((cells.flatten).map φ).sum :=
  C20_merge_closed_additive cells φ hcls hodd
    (fun f hf g hg e => canon_reverse_congr (hnd f hf) (hnd g hg) e)
    (fun f hf g hg e => canon_reverse_symm (hnd f hf) (hnd g hg) e)

/-- **C20_merge_closed_nodup**: if every input cell is closed (each directed edge as often as its reverse) and no
face repeats a node, the merged cell is closed — no further hypothesis on `canon`. -/
theorem C20_merge_closed_nodup (cells : List Cell) (hbal : ∀ c ∈ cells, balancedCell c = true)
    (hnd : ∀ f ∈ cells.flatten, f.Nodup) :
    Bal (edgesOf (mergeCells cells)) :=
  C20_merge_closed cells hbal
    (fun f hf g hg e => canon_reverse_congr (hnd f hf) (hnd g hg) e)
    (fun f hf g hg e => canon_reverse_symm (hnd f hf) (hnd g hg) e)

/-- non-vacuity: the two glued tetrahedra satisfy both hypotheses of `C20_merge_closed_nodup` -/
example : (∀ c ∈ twoTetCells, balancedCell c = true) ∧ (∀ f ∈ twoTetCells.flatten, nodupB f = true) ∧
    balancedCell (mergeCells twoTetCells) = true := by decide

example : Bal (edgesOf (mergeCells twoTetCells)) :=
  C20_merge_closed_nodup twoTetCells (by decide) (fun f hf => (nodupB_iff f).mp ((by decide :
    ∀ f ∈ twoTetCells.flatten, nodupB f = true) f hf))

/-! ### 3. remove_one_edge_from_polyhedron: merging two faces along a shared edge -/

/-- **C20_edge_merge**: for `f1 = A :: B :: p` and `f2 = B :: A :: q` the merged face has exactly the edges of
`f1` and `f2` except the pair `(A,B)`, `(B,A)`; hence replacing `f1, f2` by the merged face keeps a closed cell
closed. -/
theorem C20_edge_merge (A B : Nat) (p q : List Nat) :
    (dirEdges (mergeAlong A B p q) ++ [(A,B),(B,A)]).Perm (dirEdges (A :: B :: p) ++ dirEdges (B :: A :: q)) ∧
    ∀ rest : List Face, Bal (edgesOf (rest ++ [A :: B :: p, B :: A :: q])) →
      Bal (edgesOf (rest ++ [mergeAlong A B p q])) :=
  ⟨edge_merge_perm A B p q, fun rest h => edge_merge_bal A B p q rest h⟩

/-- non-vacuity: a tetrahedron whose faces `[0,1,2]`, `[1,0,3]` are merged along the edge 0–1 -/
example : balB (edgesOf ([[2,1,3],[0,2,3]] ++ [[0,1,2],[1,0,3]])) = true ∧
    mergeAlong 0 1 [2] [3] = [1,2,0,3] ∧ removeEdge 0 1 [[0,1,2],[1,0,3],[2,1,3],[0,2,3]] = some [[2,1,3],[0,2,3],[1,2,0,3]] := by
  decide

/-- **C20_edge_merge_flux**: the fan flux `Σ_{i≥2} det P₀ P_{i-1} P_i` (femio's per-face term of the polyhedron
volume) of the merged face is the sum of the fan fluxes of the two faces when the two faces are coplanar (all
vertex differences orthogonal to both area vectors).  (`fanFlux_merge_of_edge` in the lemma file needs only
`(A − B) ⟂ cycArea2 f1`.) -/
theorem C20_edge_merge_flux {R : Type} [CommRing R] (A B : V3 R) (p q : List (V3 R))
    (hcop : ∀ v ∈ A :: B :: p ++ q, ∀ w ∈ A :: B :: p ++ q,
      V3.dot (v - w) (cycArea2 (A :: B :: p)) = 0 ∧ V3.dot (v - w) (cycArea2 (B :: A :: q)) = 0) :
    fanFlux (B :: p ++ A :: q) = fanFlux (A :: B :: p) + fanFlux (B :: A :: q) :=
  fanFlux_merge A B p q hcop

/-- non-vacuity: the unit square in the plane `z = 1`, split along its diagonal (flux 2 = 1 + 1) -/
example : (∀ v ∈ ((⟨0,0,1⟩ : V3 Int) :: ⟨1,1,1⟩ :: [⟨0,1,1⟩] ++ [⟨1,0,1⟩]), ∀ w ∈ ((⟨0,0,1⟩ : V3 Int) :: ⟨1,1,1⟩ :: [⟨0,1,1⟩] ++ [⟨1,0,1⟩]),
      V3.dot (v - w) (cycArea2 [(⟨0,0,1⟩ : V3 Int), ⟨1,1,1⟩, ⟨0,1,1⟩]) = 0 ∧
      V3.dot (v - w) (cycArea2 [(⟨1,1,1⟩ : V3 Int), ⟨0,0,1⟩, ⟨1,0,1⟩]) = 0) ∧
    fanFlux ([⟨1,1,1⟩, ⟨0,1,1⟩, ⟨0,0,1⟩, ⟨1,0,1⟩] : List (V3 Int)) = 2 := by decide

/-! ### 4. reindex lists exactly the used nodes, contiguously -/

/-- **C20_nodes_exact**: for `r = reindex cells conv` (with `newId v` = position of `v` in `r.kept`):
(i) `r.kept` is strictly ascending and consists exactly of the nodes `< conv.length` used by some face;
(ii) if every used node is `< conv.length`, every node index of the output faces is `< r.kept.length`;
(iii) every `k < r.kept.length` occurs in some output face (numbering contiguous `0..K-1`, no unused node listed);
(iv) the output faces are the input faces with `v ↦ newId v`, `kept[newId v] = v`, and `newId` is injective on the
used nodes (so distinctness inside faces and edge matching are preserved). -/
theorem C20_nodes_exact (cells : List Cell) (conv : List Nat) :
    let r := reindex cells conv
    let used := cells.flatten.flatten
    let newId : Nat → Nat := fun v => (r.kept.idxOf? v).getD 0
    (r.kept.Pairwise (· < ·) ∧ ∀ v, v ∈ r.kept ↔ v < conv.length ∧ v ∈ used) ∧
    ((∀ v ∈ used, v < conv.length) → ∀ k ∈ r.cells.flatten.flatten, k < r.kept.length) ∧
    (∀ k < r.kept.length, k ∈ r.cells.flatten.flatten) ∧
    (r.cells = cells.map (fun c => c.map fun f => f.map newId) ∧
      (∀ v ∈ used, v < conv.length → ∃ h : newId v < r.kept.length, r.kept[newId v] = v) ∧
      ∀ v ∈ used, ∀ w ∈ used, v < conv.length → w < conv.length → newId v = newId w → v = w) := by
  intro r used newId
  have hmem : ∀ v, v ∈ r.kept ↔ v < conv.length ∧ v ∈ used := by
    intro v
    simp only [r, reindex_kept, List.mem_filter, List.mem_range, List.contains_iff_mem, used]
  have hpw : r.kept.Pairwise (· < ·) := by
    simp only [r, reindex_kept]
    exact List.Pairwise.filter _ List.pairwise_lt_range
  have hnd : r.kept.Nodup := hpw.imp (fun h => Nat.ne_of_lt h)
  have hcells : r.cells = cells.map (fun c => c.map fun f => f.map newId) := reindex_cells cells conv
  have hspec : ∀ v ∈ used, v < conv.length → ∃ h : newId v < r.kept.length, r.kept[newId v] = v :=
    fun v hv hlt => newId_spec r.kept v ((hmem v).mpr ⟨hlt, hv⟩)
  refine ⟨⟨hpw, hmem⟩, ?_, ?_, hcells, hspec, ?_⟩
  · intro hall k hk
    rw [hcells, mem_flat_map3] at hk
    obtain ⟨v, hv, rfl⟩ := hk
    exact (hspec v hv (hall v hv)).1
  · intro k hk
    rw [hcells, mem_flat_map3]
    exact ⟨r.kept[k], ((hmem _).mp (List.getElem_mem hk)).2, newId_getElem r.kept hnd k hk⟩
  · intro v hv w hw hvl hwl heq
    obtain ⟨h1, e1⟩ := hspec v hv hvl
    obtain ⟨h2, e2⟩ := hspec w hw hwl
    rw [← e1, ← e2]
    simp only [heq]

example : let cells : List Cell := [[[0,2,5],[5,2,7]]]
    let conv := [0,1,2,3,4,5,6,7]
    (reindex cells conv).kept = [0,2,5,7] ∧ (reindex cells conv).cells = [[[0,1,2],[2,1,3]]] ∧
    (∀ v ∈ cells.flatten.flatten, v < conv.length) := by decide

/-! ### 7. the nodal conversion matrix has no empty row or column -/

/-- **C20_rows_cols_nonempty**: for the matrix built from the neighbour lists `nbd` (`matOfNbd`): if every original
node has a non-empty list of compressed nodes `< M`, every column is non-empty; if every compressed node `i < M`
is assigned to some original node, every row is non-empty. -/
theorem C20_rows_cols_nonempty (M : Nat) (nbd : List (List Nat)) :
    ((∀ l ∈ nbd, l ≠ [] ∧ ∀ i ∈ l, i < M) → ∀ v < nbd.length, 0 < colCount (matOfNbd M nbd) v) ∧
    ((∀ i < M, ∃ l ∈ nbd, i ∈ l) → ∀ r ∈ (matOfNbd M nbd).rows, r ≠ []) := by
  rw [matOfNbd_eq_transpose]
  constructor
  · intro h v hv
    obtain ⟨i, hi⟩ := List.exists_mem_of_ne_nil _ (h _ (List.getElem_mem hv)).1
    exact transpose_colCount_pos ⟨M, nbd⟩ v hv i ((h _ (List.getElem_mem hv)).2 i hi) hi
  · intro h
    exact transpose_rows_ne_nil ⟨M, nbd⟩ h

example : let nbd := [[0],[0,1],[1],[2,1]]
    (∀ l ∈ nbd, l ≠ [] ∧ ∀ i ∈ l, i < 3) ∧ (∀ i < 3, ∃ l ∈ nbd, i ∈ l) ∧
    (matOfNbd 3 nbd).rows = [[0,1],[1,2,3],[3]] := by decide

end Femio.C20
