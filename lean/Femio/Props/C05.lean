import Femio.Model.NpyDir
import Mathlib.Tactic.Linarith

/-! C05 — native npy cache: exact, transparent, crash-safe.  Property theorems over the directory machine
`Femio.C05` (`Model/NpyDir.lean`).  `Cfg.fixed` is the configuration the working tree must implement. -/
namespace Femio.C05

/-- all cache files stem from one finished `save` of one object into a clean directory -/
def Coherent (d : Dir) : Prop := ∃ (x : Obj) (mo : Bool), d = expected x mo

/-- the sentinel promises a complete, coherent cache -/
def DInv (d : Dir) : Prop := (d .sentinel).isSome → Coherent d

theorem apply_sentinel (s : Step) (d : Dir) (h : touchesSentinel s = false) : (s.apply d) .sentinel = d .sentinel := by
  cases s with
  | write f t => cases f <;> simp_all [Step.apply, touchesSentinel]
  | remove f => cases f <;> simp_all [Step.apply, touchesSentinel]

theorem foldl_sentinel (l : List Step) (d : Dir) (h : ∀ s ∈ l, touchesSentinel s = false) :
    (l.foldl Step.apply d) .sentinel = d .sentinel := by
  induction l generalizing d with
  | nil => rfl
  | cons s t ih =>
    simp only [List.foldl_cons]
    rw [ih _ (fun s' hs' => h s' (List.mem_cons_of_mem _ hs')), apply_sentinel s d (h s (by simp))]

theorem tear_sentinel (s : Step) (d : Dir) : (s.tear d) .sentinel = d .sentinel := by
  cases s with
  | write f t => cases f <;> simp [Step.tear]
  | remove f => rfl

/-- the effects of the repaired `save` between the first (remove sentinel) and the last (touch sentinel) -/
def mid (x : Obj) (meshOnly : Bool) : List Step :=
  [.remove .nodal, .remove .elemental, .remove .constraints, .remove .settings,
   .write .nodes x.tag, .write .elements x.tag] ++
  (if meshOnly then [] else
    optWrite x.hasNodal .nodal x.tag ++ optWrite x.hasElemental .elemental x.tag ++
    optWrite x.hasConstraints .constraints x.tag ++ [.write .settings x.tag])

theorem saveSteps_fixed (x : Obj) (mo : Bool) :
    saveSteps Cfg.fixed x mo = .remove .sentinel :: (mid x mo ++ [.write .sentinel x.tag]) := by
  simp [saveSteps, Cfg.fixed, mid]

theorem mid_no_sentinel (x : Obj) (mo : Bool) : ∀ s ∈ mid x mo, touchesSentinel s = false := by
  obtain ⟨t, a, b, c⟩ := x
  cases mo <;> cases a <;> cases b <;> cases c <;> simp [mid, optWrite, touchesSentinel]

/-- **C05_full_save**: a completed `save` leaves exactly the files of that object, whatever was there before
(no stale optional file survives). -/
theorem C05_full_save (d : Dir) (x : Obj) (mo : Bool) : fullSave Cfg.fixed d x mo = expected x mo := by
  funext f
  obtain ⟨t, a, b, c⟩ := x
  cases mo <;> cases a <;> cases b <;> cases c <;> cases f <;>
    simp [fullSave, saveSteps, optWrite, Cfg.fixed, Step.apply, expected]

/-! ### any plan of effects (`GoodMid`) -/

def targets (f : File) : Step → Bool
  | .write g _ => decide (g = f)
  | .remove g => decide (g = f)

theorem apply_other (s : Step) (d : Dir) (f : File) (h : targets f s = false) : (s.apply d) f = d f := by
  cases s <;> simp_all [Step.apply, targets, eq_comm]

theorem apply_same (s : Step) (d d' : Dir) (f : File) (h : targets f s = true) : (s.apply d) f = (s.apply d') f := by
  cases s <;> simp_all [Step.apply, targets]

/-- a step list either leaves a file alone or determines it whatever was there before -/
theorem foldl_touched (l : List Step) (f : File) :
    (∀ d, (l.foldl Step.apply d) f = d f) ∨ (∀ d d', (l.foldl Step.apply d) f = (l.foldl Step.apply d') f) := by
  induction l with
  | nil => left; intro d; rfl
  | cons s t ih =>
    rcases ih with h | h
    · by_cases hs : targets f s = true
      · right; intro d d'; simp only [List.foldl_cons]; rw [h, h]; exact apply_same s d d' f hs
      · left; intro d; simp only [List.foldl_cons]; rw [h]; exact apply_other s d f (by simpa using hs)
    · right; intro d d'; simp only [List.foldl_cons]; exact h _ _

theorem good_no_sentinel (m : List Step) (x : Obj) (mo : Bool) (hg : GoodMid m x mo = true) :
    ∀ s ∈ m, touchesSentinel s = false := by
  simp only [GoodMid, Bool.and_eq_true, List.all_eq_true] at hg
  intro s hs
  simpa using hg.1 s hs

theorem good_data (m : List Step) (x : Obj) (mo : Bool) (hg : GoodMid m x mo = true) (f : File) (hf : f ≠ .sentinel)
    (d : Dir) : (m.foldl Step.apply d) f = expected x mo f := by
  have hall : (m.foldl Step.apply allTorn) f = expected x mo f := by
    simp only [GoodMid, Bool.and_eq_true, List.all_eq_true, decide_eq_true_eq] at hg
    exact hg.2 f (by cases f <;> simp_all [dataFiles])
  rcases foldl_touched m f with h | h
  · exfalso
    have := h allTorn
    rw [hall] at this
    obtain ⟨t, a, b, c⟩ := x
    cases f <;> cases mo <;> cases a <;> cases b <;> cases c <;> simp [expected, allTorn] at this
  · rw [h d allTorn, hall]

/-- **C05_full_save_plan**: a completed save by any good plan leaves exactly the files of that object, whatever
was there before. -/
theorem C05_full_save_plan (m : List Step) (x : Obj) (mo : Bool) (hg : GoodMid m x mo = true) (d : Dir) :
    (wrap m x.tag).foldl Step.apply d = expected x mo := by
  funext f
  simp only [wrap, List.foldl_cons, List.foldl_append, List.foldl_nil]
  by_cases hf : f = .sentinel
  · subst hf; simp [Step.apply, expected]
  · have : (Step.apply (List.foldl Step.apply (Step.apply d (Step.remove File.sentinel)) m)
        (Step.write File.sentinel x.tag)) f = (List.foldl Step.apply (Step.apply d (Step.remove File.sentinel)) m) f := by
      simp [Step.apply, hf]
    rw [this]
    exact good_data m x mo hg f hf _

/-- **C05_crash_inv_plan**: whatever the directory held and in whatever order a good plan rewrites the data
files, a `save` that dies after any number of effects — optionally inside the next file write — leaves either no
sentinel or a complete, coherent cache. -/
theorem C05_crash_inv_plan (d : Dir) (x : Obj) (mo : Bool) (m : List Step) (hg : GoodMid m x mo = true)
    (k : Nat) (torn : Bool) (h : DInv d) : DInv (crashSteps (wrap m x.tag) d k torn) := by
  unfold crashSteps wrap
  simp only
  rcases Nat.eq_zero_or_pos k with hk | hk
  · subst hk
    cases torn <;> simpa [Step.tear] using h
  · by_cases hfull : k ≥ m.length + 2
    · -- all effects done
      have htake : ((Step.remove File.sentinel :: (m ++ [Step.write File.sentinel x.tag])).take k)
          = Step.remove File.sentinel :: (m ++ [Step.write File.sentinel x.tag]) :=
        List.take_of_length_le (by simp; omega)
      have hnone : (Step.remove File.sentinel :: (m ++ [Step.write File.sentinel x.tag]))[k]? = none := by
        apply List.getElem?_eq_none; simp; omega
      have hfs : (Step.remove File.sentinel :: (m ++ [Step.write File.sentinel x.tag])).foldl Step.apply d
          = expected x mo := C05_full_save_plan m x mo hg d
      rw [htake, hnone, hfs]
      cases torn <;> exact fun _ => ⟨x, mo, rfl⟩
    · -- strictly inside: the sentinel has been removed and not yet re-created
      have hk2 : k - 1 ≤ m.length := by omega
      have htake : ((Step.remove File.sentinel :: (m ++ [Step.write File.sentinel x.tag])).take k)
          = Step.remove File.sentinel :: m.take (k - 1) := by
        obtain ⟨j, rfl⟩ : ∃ j, k = j + 1 := ⟨k - 1, by omega⟩
        simp only [List.take_succ_cons, Nat.add_sub_cancel]
        rw [List.take_append_of_le_length (by omega)]
      have hsent : ((Step.remove File.sentinel :: m.take (k - 1)).foldl Step.apply d) .sentinel = none := by
        simp only [List.foldl_cons]
        rw [foldl_sentinel _ _ (fun s hs => good_no_sentinel m x mo hg s (List.mem_of_mem_take hs))]
        simp [Step.apply]
      rw [htake]
      intro hs
      exfalso
      revert hs
      cases torn
      · simp [hsent]
      · simp only [if_true]
        cases (Step.remove File.sentinel :: (m ++ [Step.write File.sentinel x.tag]))[k]? with
        | some s => simp only; rw [tear_sentinel, hsent]; simp
        | none => simp [hsent]

/-- the order of the current code is one good plan -/
theorem mid_good (x : Obj) (mo : Bool) : GoodMid (mid x mo) x mo = true := by
  obtain ⟨t, a, b, c⟩ := x
  cases mo <;> cases a <;> cases b <;> cases c <;>
    simp [GoodMid, mid, optWrite, touchesSentinel, dataFiles, Step.apply, allTorn, expected]

/-- **C05_crash_safe (one save)**, for the order of effects of the current code -/
theorem C05_crash_inv (d : Dir) (x : Obj) (mo : Bool) (k : Nat) (torn : Bool) (h : DInv d) :
    DInv (crashSave Cfg.fixed d x mo k torn) := by
  have := C05_crash_inv_plan d x mo (mid x mo) (mid_good x mo) k torn h
  unfold crashSave
  rw [saveSteps_fixed]
  exact this

/-- a completed save is a special case -/
theorem C05_save_inv (d : Dir) (x : Obj) (mo : Bool) : DInv (fullSave Cfg.fixed d x mo) := by
  rw [C05_full_save]; exact fun _ => ⟨x, mo, rfl⟩

theorem C05_read_inv (d : Dir) (src : Obj) (h : DInv d) : DInv (readDir Cfg.fixed d src).2 := by
  unfold readDir
  split
  · exact h
  · simp only; exact C05_save_inv d src false

/-- **C05_crash_safe**: for every history of reads, saves and interrupted saves (any crash point, torn or
not) starting from a directory without cache, the invariant holds … -/
theorem C05_history_inv (ops : List DOp) (d0 : Dir) (h0 : d0 .sentinel = none) :
    DInv (ops.foldl (dstep Cfg.fixed) d0) := by
  suffices ∀ d, DInv d → DInv (ops.foldl (dstep Cfg.fixed) d) from this _ (by intro h; simp [h0] at h)
  induction ops with
  | nil => intro d h; exact h
  | cons op ops ih =>
    intro d h
    apply ih
    cases op with
    | read src => exact C05_read_inv d src h
    | save x mo => exact C05_save_inv d x mo
    | crash x mo k torn => exact C05_crash_inv d x mo k torn h

/-- … hence a read after any such history returns the parse of the source or one complete saved object —
never a mixture, never a torn file. -/
theorem C05_crash_safe (ops : List DOp) (d0 : Dir) (h0 : d0 .sentinel = none) (src : Obj) :
    Coherent (readDir Cfg.fixed (ops.foldl (dstep Cfg.fixed) d0) src).1 := by
  have h := C05_history_inv ops d0 h0
  unfold readDir
  split
  · rename_i hs; exact h hs
  · exact ⟨src, false, rfl⟩

/-- **C05_cache_transparent**: the second read of a source directory is served from the cache written by
the first read and returns the same data as parsing the source. -/
theorem C05_cache_transparent (d0 : Dir) (h0 : d0 .sentinel = none) (src : Obj) :
    (readDir Cfg.fixed d0 src).1 = expected src false ∧
    (readDir Cfg.fixed (readDir Cfg.fixed d0 src).2 src).1 = expected src false := by
  constructor
  · simp [readDir, h0]
  · simp [readDir, h0, C05_full_save, expected]

/-- **C05_load_complete_save**: reading after a completed save loads exactly that object's files. -/
theorem C05_load_complete_save (d : Dir) (x : Obj) (mo : Bool) (src : Obj) :
    (readDir Cfg.fixed (fullSave Cfg.fixed d x mo) src).1 = expected x mo := by
  simp [readDir, C05_full_save, expected]

/-! ### histories in which every save uses its own (good) plan -/

theorem C05_read_inv_plan (d : Dir) (src : Obj) (m : List Step) (hg : GoodMid m src false = true) (h : DInv d) :
    DInv (readDirG d src m).2 := by
  unfold readDirG
  split
  · exact h
  · simp only; rw [C05_full_save_plan m src false hg]; exact fun _ => ⟨src, false, rfl⟩

/-- **C05_history_inv_plan**: for every history of reads, saves and interrupted saves, each with any good plan of
effects, starting from a directory without cache, the sentinel promises a complete coherent cache … -/
theorem C05_history_inv_plan (ops : List GOp) (hg : ∀ op ∈ ops, op.good = true) (d0 : Dir) (h0 : d0 .sentinel = none) :
    DInv (ops.foldl gstep d0) := by
  suffices ∀ d, DInv d → DInv (ops.foldl gstep d) from this _ (by intro h; simp [h0] at h)
  induction ops with
  | nil => intro d h; exact h
  | cons op ops ih =>
    intro d h
    apply ih (fun o ho => hg o (List.mem_cons_of_mem _ ho))
    have hop := hg op (by simp)
    cases op with
    | read src m => exact C05_read_inv_plan d src m hop h
    | save x mo m =>
      simp only [gstep]; rw [C05_full_save_plan m x mo hop]; exact fun _ => ⟨x, mo, rfl⟩
    | crash x mo m k torn => exact C05_crash_inv_plan d x mo m hop k torn h

/-- **C05_crash_safe_plan**: … hence a read after any such history returns the parse of the source or one complete
saved object. -/
theorem C05_crash_safe_plan (ops : List GOp) (hg : ∀ op ∈ ops, op.good = true) (d0 : Dir) (h0 : d0 .sentinel = none)
    (src : Obj) (m : List Step) : Coherent (readDirG (ops.foldl gstep d0) src m).1 := by
  have h := C05_history_inv_plan ops hg d0 h0
  unfold readDirG
  split
  · rename_i hs; exact h hs
  · exact ⟨src, false, rfl⟩

/-- a plan that re-creates the sentinel before the last data file is rejected by `GoodMid`, and for a reason: -/
example : GoodMid [.write .nodes 2, .write .sentinel 2, .write .elements 2, .write .settings 2] ⟨2, false, false, false⟩ false
    = false := by decide
/-- a plan in another order than the current code's is accepted -/
example : GoodMid [.write .settings 2, .remove .constraints, .write .elements 2, .remove .elemental, .write .nodal 2,
    .write .nodes 2] ⟨2, true, false, false⟩ false = true := by decide

/-! non-vacuity and the defects of the pinned upstream commit -/
def A : Obj := ⟨1, true, false, true⟩
def B : Obj := ⟨2, true, false, false⟩
def empty : Dir := fun _ => none

example : (crashSave Cfg.fixed (fullSave Cfg.fixed empty A false) B false 7 true) .sentinel = none ∧
    (crashSave Cfg.fixed (fullSave Cfg.fixed empty A false) B false 7 true) .nodal = some .torn := by decide

/-- F6b: upstream, a second save that dies after rewriting the nodes leaves sentinel + new nodes + old elements -/
theorem C05_crash_counterexample_upstream :
    let d := crashSave Cfg.upstream (fullSave Cfg.upstream empty A false) B false 1 false
    (d .sentinel).isSome = true ∧ d .nodes = some (.ok 2) ∧ d .elements = some (.ok 1) := by decide

/-- F6c: upstream, the constraints file of an earlier save survives a complete later save without constraints -/
theorem C05_stale_counterexample_upstream :
    (fullSave Cfg.upstream (fullSave Cfg.upstream empty A false) B false) .constraints = some (.ok 1) := by decide

/-! ### interruption by an exception: clean-up effects while the stack unwinds (`interruptSteps`, `GoodUnwind`) -/

theorem safeUnwind_mono (unw : List Step) (h : safeUnwind true unw = true) : safeUnwind false unw = true := by
  cases unw with
  | nil => rfl
  | cons s r => cases s with
    | write f t => cases f <;> simp_all [safeUnwind]
    | remove f => cases f <;> simp_all [safeUnwind]

/-- clean-up effects that never create the sentinel leave it absent -/
theorem unwind_no_sentinel (unw : List Step) (d : Dir) (hd : d .sentinel = none) (h : safeUnwind false unw = true) :
    (unw.foldl Step.apply d) .sentinel = none := by
  induction unw generalizing d with
  | nil => exact hd
  | cons s r ih =>
    simp only [List.foldl_cons]
    cases s with
    | write f t =>
      cases f <;> first
        | (simp [safeUnwind] at h; done)
        | (apply ih _ _ (by simpa [safeUnwind] using h); simpa [Step.apply] using hd)
    | remove f =>
      cases f <;> apply ih _ _ (by simpa [safeUnwind] using h) <;> simp [Step.apply, hd]

/-- clean-up effects that leave the data files alone while the sentinel may exist preserve the invariant -/
theorem unwind_inv (unw : List Step) (d : Dir) (h : DInv d) (hs : safeUnwind true unw = true) :
    DInv (unw.foldl Step.apply d) := by
  cases unw with
  | nil => exact h
  | cons s r =>
    have hnone : ∀ d' : Dir, d' .sentinel = none → safeUnwind false r = true →
        DInv (r.foldl Step.apply d') := by
      intro d' hd' hr hsome
      rw [unwind_no_sentinel r d' hd' hr] at hsome
      simp at hsome
    cases s with
    | write f t => cases f <;> simp [safeUnwind] at hs
    | remove f =>
      cases f <;> first
        | (simp [safeUnwind] at hs; done)
        | (simp only [List.foldl_cons]
           exact hnone _ (by simp [Step.apply]) (by simpa [safeUnwind] using hs))

/-- strictly inside a save (after its first, before its last effect) the sentinel is absent, whatever was there -/
theorem crash_inside_no_sentinel (d : Dir) (x : Obj) (mo : Bool) (m : List Step) (hg : GoodMid m x mo = true)
    (k : Nat) (torn : Bool) (hk : 0 < k) (hk' : k < m.length + 2) :
    (crashSteps (wrap m x.tag) d k torn) .sentinel = none := by
  unfold crashSteps wrap
  have htake : ((Step.remove File.sentinel :: (m ++ [Step.write File.sentinel x.tag])).take k)
      = Step.remove File.sentinel :: m.take (k - 1) := by
    obtain ⟨j, rfl⟩ : ∃ j, k = j + 1 := ⟨k - 1, by omega⟩
    simp only [List.take_succ_cons, Nat.add_sub_cancel]
    rw [List.take_append_of_le_length (by omega)]
  have hsent : ((Step.remove File.sentinel :: m.take (k - 1)).foldl Step.apply d) .sentinel = none := by
    simp only [List.foldl_cons]
    rw [foldl_sentinel _ _ (fun s hs => good_no_sentinel m x mo hg s (List.mem_of_mem_take hs))]
    simp [Step.apply]
  rw [htake]
  cases torn
  · simpa using hsent
  · simp only [if_true]
    cases (Step.remove File.sentinel :: (m ++ [Step.write File.sentinel x.tag]))[k]? with
    | some s => simp only; rw [tear_sentinel, hsent]
    | none => simpa using hsent

/-- **C05_crash_inv_unwind**: whatever the directory held, in whatever order a good plan rewrites the data files, a
`save` that is interrupted after any number of effects — optionally inside the next file write — and then performs ANY
clean-up effects accepted by `GoodUnwind` while the exception unwinds the stack (`finally`, `except`, context-manager
exits; none for a process death) leaves either no sentinel or a complete, coherent cache. -/
theorem C05_crash_inv_unwind (d : Dir) (x : Obj) (mo : Bool) (m : List Step) (hg : GoodMid m x mo = true)
    (k : Nat) (torn : Bool) (unw : List Step) (hu : GoodUnwind (m.length + 2) k unw = true) (h : DInv d) :
    DInv (interruptSteps (wrap m x.tag) d k torn unw) := by
  unfold interruptSteps
  have hc := C05_crash_inv_plan d x mo m hg k torn h
  unfold GoodUnwind at hu
  by_cases hb : k = 0 ∨ m.length + 2 ≤ k
  · rw [decide_eq_true hb] at hu
    exact unwind_inv unw _ hc hu
  · rw [decide_eq_false hb] at hu
    intro hsome
    rw [unwind_no_sentinel unw _ (crash_inside_no_sentinel d x mo m hg k torn (by omega) (by omega)) hu] at hsome
    simp at hsome

/-- an interrupted automatic save of `read_directory` (nothing happens when the read is served from the cache) -/
theorem C05_read_interrupt_inv (d : Dir) (src : Obj) (m : List Step) (hg : GoodMid m src false = true)
    (k : Nat) (torn : Bool) (unw : List Step) (hu : GoodUnwind (m.length + 2) k unw = true) (h : DInv d) :
    DInv (ustep d (.readInterrupt src m k torn unw)) := by
  simp only [ustep]
  split
  · exact h
  · exact C05_crash_inv_unwind d src false m hg k torn unw hu h

/-- **C05_history_inv_unwind**: for every history of reads, saves, interrupted saves and reads whose automatic save is
interrupted — each with any good plan, any interruption point, torn or not, and any good clean-up effects — starting
from a directory without cache, the sentinel promises a complete coherent cache … -/
theorem C05_history_inv_unwind (ops : List UOp) (hg : ∀ op ∈ ops, op.good = true) (d0 : Dir) (h0 : d0 .sentinel = none) :
    DInv (ops.foldl ustep d0) := by
  suffices ∀ d, DInv d → DInv (ops.foldl ustep d) from this _ (by intro h; simp [h0] at h)
  induction ops with
  | nil => intro d h; exact h
  | cons op ops ih =>
    intro d h
    apply ih (fun o ho => hg o (List.mem_cons_of_mem _ ho))
    have hop := hg op (by simp)
    cases op with
    | read src m => exact C05_read_inv_plan d src m hop h
    | save x mo m =>
      simp only [ustep]; rw [C05_full_save_plan m x mo hop]; exact fun _ => ⟨x, mo, rfl⟩
    | interrupt x mo m k torn unw =>
      simp only [UOp.good, Bool.and_eq_true] at hop
      exact C05_crash_inv_unwind d x mo m hop.1 k torn unw hop.2 h
    | readInterrupt src m k torn unw =>
      simp only [UOp.good, Bool.and_eq_true] at hop
      exact C05_read_interrupt_inv d src m hop.1 k torn unw hop.2 h

/-- **C05_crash_safe_unwind**: … hence a read after any such history returns the parse of the source or one complete
saved object. -/
theorem C05_crash_safe_unwind (ops : List UOp) (hg : ∀ op ∈ ops, op.good = true) (d0 : Dir) (h0 : d0 .sentinel = none)
    (src : Obj) (m : List Step) : Coherent (readDirG (ops.foldl ustep d0) src m).1 := by
  have h := C05_history_inv_unwind ops hg d0 h0
  unfold readDirG
  split
  · rename_i hs; exact h hs
  · exact ⟨src, false, rfl⟩

/-- the machine of the `*_plan` theorems is the special case "no clean-up effect" (`unw = []`, always good) -/
theorem C05_unwind_extends_plan (d : Dir) (op : GOp) : ustep d op.toU = gstep d op ∧ op.toU.good = op.good := by
  cases op <;> simp [GOp.toU, ustep, gstep, UOp.good, GOp.good, interruptSteps, GoodUnwind, safeUnwind]

/-- **C05_interrupted_read_transparent**: a first read whose automatic save is interrupted strictly inside (any point,
torn or not, any good clean-up) is not trusted: the next read parses the source again, and the read after that is served
from the cache the second one wrote and still returns the parse of the source. -/
theorem C05_interrupted_read_transparent (d0 : Dir) (h0 : d0 .sentinel = none) (src : Obj) (m m' m'' : List Step)
    (hg : GoodMid m src false = true) (hg' : GoodMid m' src false = true)
    (k : Nat) (torn : Bool) (unw : List Step) (hk : 0 < k) (hk' : k < m.length + 2)
    (hu : GoodUnwind (m.length + 2) k unw = true) :
    let d1 := ustep d0 (.readInterrupt src m k torn unw)
    d1 .sentinel = none ∧ (readDirG d1 src m').1 = expected src false ∧
      (readDirG (readDirG d1 src m').2 src m'').1 = expected src false := by
  have hb : ¬ (k = 0 ∨ m.length + 2 ≤ k) := by omega
  have h1 : (ustep d0 (.readInterrupt src m k torn unw)) .sentinel = none := by
    simp only [ustep, h0, Option.isSome_none, Bool.false_eq_true, if_false, interruptSteps]
    unfold GoodUnwind at hu
    rw [decide_eq_false hb] at hu
    exact unwind_no_sentinel unw _ (crash_inside_no_sentinel d0 src false m hg k torn hk hk') hu
  refine ⟨h1, ?_, ?_⟩
  · simp [readDirG, h1]
  · simp [readDirG, h1, C05_full_save_plan m' src false hg', expected]

/-- the seeded shape "one `try … finally: touch(sentinel)` around the writes": rejected by `GoodUnwind` … -/
example : GoodUnwind 9 6 [.write .sentinel 2] = false := by decide
/-- … a clean-up that removes the files written so far is accepted strictly inside the save … -/
example : GoodUnwind 9 6 [.remove .nodes, .remove .elements] = true := by decide
/-- … but not before the sentinel was removed (interruption before the first effect), unless it removes the sentinel first -/
example : GoodUnwind 9 0 [.remove .nodes, .remove .elements] = false ∧
    GoodUnwind 9 0 [.remove .sentinel, .remove .nodes, .remove .elements] = true := by decide
/-- non-vacuity of `C05_crash_inv_unwind`: second save of `B` over the complete cache of `A`, interrupted inside the
write of the nodal file, clean-up removes what was written: no sentinel, the half-written nodal file stays -/
example : GoodMid (mid B false) B false = true ∧ GoodUnwind ((mid B false).length + 2) 7 [.remove .nodes, .remove .elements] = true ∧
    (interruptSteps (wrap (mid B false) B.tag) (fullSave Cfg.fixed empty A false) 7 true [.remove .nodes, .remove .elements]) .sentinel = none ∧
    (interruptSteps (wrap (mid B false) B.tag) (fullSave Cfg.fixed empty A false) 7 true [.remove .nodes, .remove .elements]) .nodal = some .torn := by
  decide

/-- the sentinel created while unwinding (`finally: touch`): a second save interrupted by an exception after rewriting the
nodes leaves sentinel + new nodes + old elements — the reason for the hypothesis `GoodUnwind` -/
theorem C05_unwind_counterexample_marker_in_finally :
    let d := interruptSteps (wrap (mid B false) B.tag) (fullSave Cfg.fixed empty A false) 6 false [.write .sentinel B.tag]
    (d .sentinel).isSome = true ∧ d .nodes = some (.ok 2) ∧ d .elements = some (.ok 1) := by decide

/-! ### a save through a staging directory

Seen from the cache directory such a save is: remove the sentinel and the stale files, then one atomic write of a COMPLETE
file per rename into place, in the order of the renames (this is the plan the harness traces for it: a rename into the
directory is a write of its target; what happens inside the staging directory changes no cache file). -/

def stagedPlan (x : Obj) (order : List File) : List Step :=
  [.remove .sentinel, .remove .nodal, .remove .elemental, .remove .constraints, .remove .settings] ++
  order.map (fun f => .write f x.tag)

/-- renamed in alphabetical order of the file NAMES (`femio_npy_saved.npy` sorts before `femio_settings.npz`) the sentinel is
in place before the settings: the plan does not end with the sentinel, and a death between these two renames (after 9 of
the 10 effects) leaves the sentinel and every data file of the new object but NOT its settings — a partial cache that
every later read trusts -/
theorem C05_staged_sorted_counterexample :
    let plan := stagedPlan B [.elements, .nodal, .nodes, .sentinel, .settings]
    let d := crashSteps plan (fullSave Cfg.fixed empty A false) 9 false
    plan.getLast? ≠ some (.write .sentinel B.tag) ∧
    (d .sentinel).isSome = true ∧ d .nodes = some (.ok 2) ∧ d .settings = none ∧
    expected B false .settings = some (.ok 2) := by decide

/-- with the sentinel renamed LAST the same staged save is a plan `wrap mid` accepted by `GoodMid`: every `*_plan` /
`*_unwind` theorem applies to it -/
theorem C05_staged_marker_last_good :
    stagedPlan B [.elements, .nodal, .nodes, .settings, .sentinel] =
      wrap [.remove .nodal, .remove .elemental, .remove .constraints, .remove .settings,
            .write .elements 2, .write .nodal 2, .write .nodes 2, .write .settings 2] B.tag ∧
    GoodMid [.remove .nodal, .remove .elemental, .remove .constraints, .remove .settings,
             .write .elements 2, .write .nodal 2, .write .nodes 2, .write .settings 2] B false = true := by decide

/-! ### reads with options (`read_mesh_only`, `read_npy`, `save`) -/

/-- the node and the element table come from ONE object -/
def MeshCoherent (r : Dir) : Prop := ∃ t : Nat, r .nodes = some (.ok t) ∧ r .elements = some (.ok t)

theorem coherent_mesh (d : Dir) (h : Coherent d) : MeshCoherent (meshPart d) := by
  obtain ⟨x, mo, rfl⟩ := h
  exact ⟨x.tag, rfl, rfl⟩

/-- with the default options `readOpt` is the read of the older machines -/
theorem C05_read_opt_default (d : Dir) (src : Obj) (m : List Step) : readOpt false ROpt.default d src m = readDirG d src m := by
  unfold readOpt readDirG cacheTrusted ROpt.default
  cases h : (d .sentinel).isSome <;> simp
  simp at h
  simp [h]

/-- a read with any options preserves the invariant (it writes nothing, or it performs a complete save of the parse) -/
theorem C05_read_opt_inv (o : ROpt) (d : Dir) (src : Obj) (m : List Step) (hg : GoodMid m src false = true) (h : DInv d) :
    DInv (readOpt false o d src m).2 := by
  unfold readOpt
  simp only
  split
  · rw [C05_full_save_plan m src false hg]; exact fun _ => ⟨src, false, rfl⟩
  · exact h

/-- **C05_read_opt_safe**: on a directory satisfying the invariant a read with ANY options returns the parse of the source
or the files of one complete save - for `read_mesh_only=True` the node and element tables of ONE object. -/
theorem C05_read_opt_safe (o : ROpt) (d : Dir) (src : Obj) (m : List Step) (h : DInv d) :
    if o.meshOnly then MeshCoherent (readOpt false o d src m).1 else Coherent (readOpt false o d src m).1 := by
  have hc : Coherent (if cacheTrusted false o d then d else expected src false) := by
    unfold cacheTrusted
    split
    · rename_i hs
      simp only [Bool.false_and, Bool.or_false, Bool.and_eq_true] at hs
      exact h hs.2
    · exact ⟨src, false, rfl⟩
  unfold readOpt
  cases hm : o.meshOnly
  · simpa [hm] using hc
  · simpa [hm] using coherent_mesh _ hc

/-- **C05_history_inv_opt**: the invariant holds after every history of saves, interrupted saves, (interrupted) default
reads AND reads with any combination of `read_mesh_only` / `read_npy` / `save`, each with any good plan. -/
theorem C05_history_inv_opt (ops : List XOp) (hg : ∀ op ∈ ops, op.good = true) (d0 : Dir) (h0 : d0 .sentinel = none) :
    DInv (ops.foldl xstep d0) := by
  suffices ∀ d, DInv d → DInv (ops.foldl xstep d) from this _ (by intro h; simp [h0] at h)
  induction ops with
  | nil => intro d h; exact h
  | cons op ops ih =>
    intro d h
    apply ih (fun o ho => hg o (List.mem_cons_of_mem _ ho))
    have hop := hg op (by simp)
    cases op with
    | u op =>
      -- one step of the older machine from a directory satisfying the invariant
      cases op with
      | read src m => exact C05_read_inv_plan d src m hop h
      | save x mo m =>
        simp only [xstep, ustep]; rw [C05_full_save_plan m x mo hop]; exact fun _ => ⟨x, mo, rfl⟩
      | interrupt x mo m k torn unw =>
        simp only [XOp.good, UOp.good, Bool.and_eq_true] at hop
        exact C05_crash_inv_unwind d x mo m hop.1 k torn unw hop.2 h
      | readInterrupt src m k torn unw =>
        simp only [XOp.good, UOp.good, Bool.and_eq_true] at hop
        exact C05_read_interrupt_inv d src m hop.1 k torn unw hop.2 h
    | readOpt o src m => exact C05_read_opt_inv o d src m hop h

/-- **C05_crash_safe_opt**: … hence a read with any options after any such history returns the parse of the source or one
complete saved object (mesh-only: the node and element tables of one object). -/
theorem C05_crash_safe_opt (ops : List XOp) (hg : ∀ op ∈ ops, op.good = true) (d0 : Dir) (h0 : d0 .sentinel = none)
    (o : ROpt) (src : Obj) (m : List Step) :
    if o.meshOnly then MeshCoherent (readOpt false o (ops.foldl xstep d0) src m).1
    else Coherent (readOpt false o (ops.foldl xstep d0) src m).1 :=
  C05_read_opt_safe o _ src m (C05_history_inv_opt ops hg d0 h0)

/-- non-vacuity: a mesh-only read after a second save of `B` that died after rewriting the nodes (no sentinel: the parse),
and after the completed save (the cache of `B`) -/
example : (readOpt false ⟨true, true, true⟩ (crashSteps (wrap (mid B false) B.tag) (fullSave Cfg.fixed empty A false) 6 false)
      ⟨3, true, false, false⟩ []).1 .nodes = some (.ok 3) ∧
    (readOpt false ⟨true, true, true⟩ (fullSave Cfg.fixed empty B false) ⟨3, true, false, false⟩ []).1 .elements = some (.ok 2) := by
  decide

/-- the slip "a mesh-only read is served from femio_nodes + femio_elements whenever both exist": after a second save of `B`
over the complete cache of `A` that dies after rewriting the nodes (6 effects) there is no sentinel, and the mesh-only read
returns the nodes of `B` with the elements of `A` - neither the parse of the source (tag 3) nor one saved object -/
theorem C05_mesh_only_by_existence_counterexample :
    let d := crashSteps (wrap (mid B false) B.tag) (fullSave Cfg.fixed empty A false) 6 false
    let r := (readOpt true ⟨true, true, true⟩ d ⟨3, true, false, false⟩ []).1
    d .sentinel = none ∧ r .nodes = some (.ok 2) ∧ r .elements = some (.ok 1) := by decide

end Femio.C05
