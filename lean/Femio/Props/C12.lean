import Femio.Model.Incidence
import Femio.Lemmas.GeomProps
import Femio.Lemmas.IncidenceStruct
import Femio.Lemmas.FluxD
import Mathlib.Tactic.Ring
import Mathlib.Tactic.Linarith
import Mathlib.Tactic.LinearCombination
import Mathlib.Algebra.Order.Field.Basic

/-! # C12 — signed cell–facet incidence obeys the discrete divergence theorem

Property theorems only. Model: `Femio/Model/Incidence.lean` (facets = first occurrence per sorted node tuple,
incidence = "cell contains every facet node", sign = sign of (facet centre − cell centre)·normal with vertex-mean
centres). Hypotheses `…B = true` are Boolean functions evaluated by the driver on every generated mesh
(`c12.incidence` reply). Area vectors are doubled (`areaVec2`), centres are vertex sums (`vsum`), so no division
occurs; the statements say which multiple of the volume appears. -/
namespace Femio.C12
open Core Faces V3 Geom Femio.Gen Femio.C10

/-! ## incidence structure -/

/-- **C12_structure.** If a facet whose nodes all lie in a cell is one of that cell's faces (`faceDeterminedB`) and
    faces only use their cell's nodes (`ownNodesB`), then the code's incidence test holds for cell `c` and facet
    `f` **iff** `f` is, as a node set, one of `c`'s own faces: every cell is incident to exactly its own faces. -/
theorem C12_structure (cells : List Elem) (facets : List Face)
    (hfd : faceDeterminedB cells facets = true) (hown : ownNodesB cells = true)
    (c : Elem) (hc : c ∈ cells) (f : Face) (hf : f ∈ facets) :
    incident c.conn f = true ↔ ∃ g ∈ elemFaces c, key g = key f := by
  constructor
  · intro hinc
    simp only [faceDeterminedB, List.all_eq_true, Bool.or_eq_true, Bool.not_eq_true', List.any_eq_true,
      beq_iff_eq] at hfd
    rcases hfd c hc f hf with h | h
    · rw [hinc] at h; cases h
    · exact h
  · rintro ⟨g, hg, hk⟩
    simp only [ownNodesB, List.all_eq_true] at hown
    have hgc : _root_.incident ⟨c.conn, elemFaces c⟩ g = true := by
      simp only [_root_.incident, List.all_eq_true]; exact hown c hc g hg
    exact incident_of_key_eq ⟨c.conn, elemFaces c⟩ f g hk hgc

theorem count_le_one_of_distinct (ks : List (List Nat)) (h : ks.all (fun k => ks.count k == 1) = true) (k : List Nat) :
    ks.count k = if k ∈ ks then 1 else 0 := by
  by_cases hk : k ∈ ks
  · simp only [List.all_eq_true, beq_iff_eq] at h
    simp [hk, h k hk]
  · simp [hk, List.count_eq_zero.mpr hk]

/-- **C12_structure (counting).** If moreover the faces of one cell have pairwise different node sets
    (`distinctKeysB`), the number of cells a facet is incident to equals the number of element faces carrying its
    node set: a boundary facet (node set used once) is incident to exactly one cell, an interior facet (used
    twice) to exactly two. -/
theorem C12_structure_count (cells : List Elem) (facets : List Face)
    (hfd : faceDeterminedB cells facets = true) (hown : ownNodesB cells = true) (hdk : distinctKeysB cells = true)
    (f : Face) (hf : f ∈ facets) :
    (cells.filter fun c => incident c.conn f).length = (fiberB (allFaces [cells]) (key f)).length := by
  rw [fiber_length_eq_count']
  have hall : ∀ c ∈ cells, (incident c.conn f = true ↔ ∃ g ∈ elemFaces c, key g = key f) :=
    fun c hc => C12_structure cells facets hfd hown c hc f hf
  have hd : ∀ c ∈ cells, ((elemFaces c).map key).all (fun k => ((elemFaces c).map key).count k == 1) = true := by
    simp only [distinctKeysB, List.all_eq_true] at hdk
    intro c hc; simpa [List.all_eq_true] using hdk c hc
  clear hfd hown hdk hf
  simp only [allFaces, List.flatMap_cons, List.flatMap_nil, List.append_nil]
  induction cells with
  | nil => simp
  | cons c t ih =>
    have ih' := ih (fun x hx => hall x (by simp [hx])) (fun x hx => hd x (by simp [hx]))
    have hc := hall c (by simp)
    have hcount := count_le_one_of_distinct _ (hd c (by simp)) (key f)
    simp only [List.flatMap_cons, List.map_append, List.count_append, hcount]
    by_cases hi : incident c.conn f = true
    · have : key f ∈ (elemFaces c).map key := by
        obtain ⟨g, hg, hk⟩ := hc.mp hi
        exact List.mem_map.mpr ⟨g, hg, hk⟩
      simp [List.filter_cons, hi, this, ih']; omega
    · have : key f ∉ (elemFaces c).map key := by
        intro hm
        obtain ⟨g, hg, hk⟩ := List.mem_map.mp hm
        exact hi (hc.mpr ⟨g, hg, hk⟩)
      simp [List.filter_cons, hi, this, ih']
where
  fiber_length_eq_count' : ∀ {fs : List Face} {k : List Nat}, (fiberB fs k).length = (fs.map key).count k := by
    intro fs k
    unfold fiberB
    induction fs with
    | nil => rfl
    | cons g t ih =>
      by_cases h : key g = k
      · simp [List.filter_cons, h, ih]
      · have h' : ¬ (key g == k) = true := by simpa using h
        simp [List.filter_cons, h, ih, List.count_cons]

/-- non-vacuity: two glued tets; facet {11,12,13} is interior (two cells), facet {10,11,12} boundary (one cell) -/
def twoCells : List Elem := [⟨7, 8, [10, 11, 12, 13]⟩, ⟨3, 8, [11, 12, 13, 14]⟩]
example : faceDeterminedB twoCells (toFacets [twoCells]) = true ∧ ownNodesB twoCells = true ∧
    distinctKeysB twoCells = true ∧ (toFacets [twoCells]).length = 7 ∧
    (twoCells.filter fun c => incident c.conn [11, 13, 12]).length = 2 ∧
    (twoCells.filter fun c => incident c.conn [10, 12, 11]).length = 1 := by decide

/-! ## signs -/
section Signs
variable {R : Type} [Field R] [LinearOrder R] [IsStrictOrderedRing R]

/-- coordinates of the vertices of a face given by local vertex numbers -/
def ptsOf (pts : List (V3 R)) (f : List Nat) : List (V3 R) := f.filterMap fun i => pts[i]?

macro "c12_unfold" : tactic =>
  `(tactic| simp only [signDot, normalDir, areaVec2, vsum, ptsOf, faces_tet, faces_hex, List.filterMap_cons,
      List.filterMap_nil, List.getElem?_cons_zero, List.getElem?_cons_succ, List.foldr_cons, List.foldr_nil,
      List.length_cons, List.length_nil, triCross, quadCrossC, tet6, hexC24, quadC4, V3.cross, V3.sub, V3.add,
      V3.smul, V3.dot, V3.det, Nat.cast_ofNat, Nat.cast_zero, Nat.cast_add, Nat.cast_one, zero_add])

/-- the quantity whose sign the code takes, for the four table faces of a tet and for their mirror images:
    `12·(facet centre − cell centre)·(doubled area vector) = ±3·(6V)` -/
theorem tet_signDot (p0 p1 p2 p3 : V3 R) :
    ∀ g ∈ faces_tet,
      signDot [p0, p1, p2, p3] (ptsOf [p0, p1, p2, p3] g) (normalDir (ptsOf [p0, p1, p2, p3] g)) = 3 * tet6 p0 p1 p2 p3 ∧
      ∀ f, mirrorB g f = true →
        signDot [p0, p1, p2, p3] (ptsOf [p0, p1, p2, p3] f) (normalDir (ptsOf [p0, p1, p2, p3] f)) = -(3 * tet6 p0 p1 p2 p3) := by
  intro g hg
  simp only [faces_tet, List.mem_cons, List.mem_nil_iff, or_false] at hg
  rcases hg with rfl | rfl | rfl | rfl
  all_goals
    refine ⟨by c12_unfold; ring, ?_⟩
    intro f hf
    simp only [mirrorB, Bool.or_eq_true, beq_iff_eq] at hf
    rcases hf with (rfl | rfl) | rfl <;> (c12_unfold; ring)

/-- **C12_tet_sign.** For a tetrahedron of positive volume the computed sign is `+1` on each of its own table
    faces (which are outward by `C10_element_outward`) and `−1` on every mirror image of one of them (the
    orientation in which a facet stored by the neighbouring cell appears). Hence an interior facet gets opposite
    signs from its two cells. -/
theorem C12_tet_sign (p0 p1 p2 p3 : V3 R) (hpos : 0 < tet6 p0 p1 p2 p3) :
    ∀ g ∈ faces_tet,
      signOf [p0, p1, p2, p3] (ptsOf [p0, p1, p2, p3] g) = 1 ∧
      ∀ f, mirrorB g f = true → signOf [p0, p1, p2, p3] (ptsOf [p0, p1, p2, p3] f) = -1 := by
  intro g hg
  obtain ⟨h1, h2⟩ := tet_signDot p0 p1 p2 p3 g hg
  constructor
  · unfold signOf
    rw [h1, if_neg]
    simp only [Nat.cast_zero, not_lt]; linarith
  · intro f hf
    unfold signOf
    rw [h2 f hf, if_pos]
    simp only [Nat.cast_zero]; linarith

/-- non-vacuity: the unit tet -/
example : (0 : Rat) < tet6 (⟨0, 0, 0⟩ : V3 Rat) ⟨1, 0, 0⟩ ⟨0, 1, 0⟩ ⟨0, 0, 1⟩ := by
  norm_num [tet6, V3.det, V3.sub]

theorem dot_vsum (l : List (V3 R)) (n : V3 R) : dot (vsum l) n = (l.map fun q => dot q n).sum := by
  induction l with
  | nil => simp [vsum, V3.dot]
  | cons a t ih =>
    have : vsum (a :: t) = V3.add a (vsum t) := rfl
    rw [this, List.map_cons, List.sum_cons, ← ih]
    simp only [V3.dot, V3.add]; ring

theorem signDot_eq (cellPts facetPts : List (V3 R)) (n : V3 R) :
    signDot cellPts facetPts n =
      (cellPts.length : R) * (facetPts.map fun q => dot q n).sum - (facetPts.length : R) * (cellPts.map fun p => dot p n).sum := by
  unfold signDot
  rw [← dot_vsum, ← dot_vsum]
  simp only [V3.dot, V3.sub, V3.smul]; ring

theorem len_mul_le_sum (A : List R) (y : R) (h : ∀ x ∈ A, y ≤ x) : (A.length : R) * y ≤ A.sum := by
  induction A with
  | nil => simp
  | cons a t ih =>
    have := ih (fun x hx => h x (by simp [hx]))
    have ha := h a (by simp)
    simp only [List.length_cons, Nat.cast_add, Nat.cast_one, List.sum_cons]; linarith

theorem len_mul_lt_sum (A : List R) (y : R) (h : ∀ x ∈ A, y ≤ x) (hs : ∃ x ∈ A, y < x) : (A.length : R) * y < A.sum := by
  induction A with
  | nil => obtain ⟨x, hx, _⟩ := hs; simp at hx
  | cons a t ih =>
    have hle := len_mul_le_sum t y (fun x hx => h x (by simp [hx]))
    have ha := h a (by simp)
    simp only [List.length_cons, Nat.cast_add, Nat.cast_one, List.sum_cons]
    obtain ⟨x, hx, hlt⟩ := hs
    rcases List.mem_cons.mp hx with rfl | hxt
    · linarith
    · have := ih (fun x hx => h x (by simp [hx])) ⟨x, hxt, hlt⟩
      linarith

theorem cross_sum_pos (A B : List R) (h : ∀ y ∈ B, ∀ x ∈ A, y ≤ x) (hs : ∃ y ∈ B, ∃ x ∈ A, y < x) :
    (A.length : R) * B.sum < (B.length : R) * A.sum := by
  induction B with
  | nil => obtain ⟨y, hy, _⟩ := hs; simp at hy
  | cons b t ih =>
    simp only [List.length_cons, Nat.cast_add, Nat.cast_one, List.sum_cons]
    have hb := len_mul_le_sum A b (h b (by simp))
    obtain ⟨y, hy, x, hx, hlt⟩ := hs
    rcases List.mem_cons.mp hy with rfl | hyt
    · have hb' := len_mul_lt_sum A y (h y (by simp)) ⟨x, hx, hlt⟩
      have hrest : (A.length : R) * t.sum ≤ (t.length : R) * A.sum := by
        clear ih hb hb' hy hlt
        induction t with
        | nil => simp
        | cons c u ihu =>
          simp only [List.length_cons, Nat.cast_add, Nat.cast_one, List.sum_cons]
          have := len_mul_le_sum A c (h c (by simp))
          have := ihu (fun y hy x hx => h y (by
            rcases List.mem_cons.mp hy with rfl | hy'
            · simp
            · simp [hy']) x hx)
          linarith
      linarith
    · have := ih (fun y hy x hx => h y (by simp [hy]) x hx) ⟨y, hyt, x, hx, hlt⟩
      linarith

/-- **C12_hex_sign_convex.** For any cell and facet (hexahedron, or any other convex cell) and any facet normal
    `n`: if every cell vertex lies on the inner side of every facet vertex with respect to `n`
    (`(q − p)·n ≥ 0`, strictly for at least one pair — convexity with `n` pointing outwards), then the quantity
    whose sign the code takes, `(#cell·#facet)·(facet centre − cell centre)·n`, is positive: the sign is `+1`. -/
theorem C12_hex_sign_convex (cellPts facetPts : List (V3 R)) (n : V3 R)
    (hin : ∀ p ∈ cellPts, ∀ q ∈ facetPts, 0 ≤ dot (sub q p) n)
    (hstrict : ∃ p ∈ cellPts, ∃ q ∈ facetPts, 0 < dot (sub q p) n) :
    0 < signDot cellPts facetPts n := by
  rw [signDot_eq]
  have hsub : ∀ q p : V3 R, dot (sub q p) n = dot q n - dot p n := by
    intro q p; simp only [V3.dot, V3.sub]; ring
  have := cross_sum_pos (facetPts.map fun q => dot q n) (cellPts.map fun p => dot p n)
    (by
      intro y hy x hx
      obtain ⟨p, hp, rfl⟩ := List.mem_map.mp hy
      obtain ⟨q, hq, rfl⟩ := List.mem_map.mp hx
      have := hin p hp q hq; rw [hsub] at this; linarith)
    (by
      obtain ⟨p, hp, q, hq, h⟩ := hstrict
      refine ⟨_, List.mem_map.mpr ⟨p, hp, rfl⟩, _, List.mem_map.mpr ⟨q, hq, rfl⟩, ?_⟩
      rw [hsub] at h; linarith)
  simp only [List.length_map] at this
  linarith

/-- non-vacuity: unit cube, top face with normal (0,0,1) -/
example : let cell : List (V3 Rat) := [⟨0,0,0⟩, ⟨1,0,0⟩, ⟨1,1,0⟩, ⟨0,1,0⟩, ⟨0,0,1⟩, ⟨1,0,1⟩, ⟨1,1,1⟩, ⟨0,1,1⟩]
    let facet : List (V3 Rat) := [⟨0,0,1⟩, ⟨1,0,1⟩, ⟨1,1,1⟩, ⟨0,1,1⟩]
    (∀ p ∈ cell, ∀ q ∈ facet, 0 ≤ dot (sub q p) (⟨0,0,1⟩ : V3 Rat)) ∧
    (∃ p ∈ cell, ∃ q ∈ facet, 0 < dot (sub q p) (⟨0,0,1⟩ : V3 Rat)) ∧ signDot cell facet ⟨0,0,1⟩ = 16 := by
  intro cell facet
  refine ⟨?_, ⟨⟨0,0,0⟩, by simp [cell], ⟨0,0,1⟩, by simp [facet], by norm_num [V3.dot, V3.sub]⟩, ?_⟩
  · simp only [cell, facet, List.forall_mem_cons]
    norm_num [V3.dot, V3.sub]
  · norm_num [cell, facet, signDot, vsum, V3.dot, V3.sub, V3.add, V3.smul]

theorem inner_side (f : List (V3 R)) (p n : V3 R) :
    (f.map fun q => dot (sub q p) n).sum = (f.map fun q => dot q n).sum - (f.length : R) * dot p n := by
  induction f with
  | nil => simp
  | cons a t ih =>
    simp only [List.map_cons, List.sum_cons, List.length_cons, Nat.cast_add, Nat.cast_one, ih]
    simp only [V3.dot, V3.sub]; ring

theorem outer_side (f rest : List (V3 R)) (n : V3 R) :
    (rest.map fun p => (f.map fun q => dot (sub q p) n).sum).sum =
      (rest.length : R) * (f.map fun q => dot q n).sum - (f.length : R) * (rest.map fun p => dot p n).sum := by
  induction rest with
  | nil => simp
  | cons a t ih =>
    simp only [List.map_cons, List.sum_cons, List.length_cons, Nat.cast_add, Nat.cast_one]
    rw [ih, inner_side]
    ring

theorem sum_pos_of_nonneg (A : List R) (h : ∀ x ∈ A, 0 ≤ x) (hs : ∃ x ∈ A, 0 < x) : 0 < A.sum := by
  have := len_mul_lt_sum A 0 h hs
  simpa using this

/-- **C12_hex_sign_meanplane.** Convexity hypothesis that also covers hexahedra with SKEW (non-planar) faces, where
    `C12_hex_sign_convex` is vacuous (two of the four vertices of a skew face lie strictly outside the plane through
    the face centre, and they are cell vertices). Split the cell vertices into the vertices of the facet and the
    rest (`cellPts` is a permutation of `facetPts ++ restPts`). If every REMAINING cell vertex `p` lies on the inner
    side of the MEAN PLANE of the facet - the plane through the facet centre (vertex mean) perpendicular to `n`:
    `Σ_{q ∈ facet} (q − p)·n = #facet·(facet centre − p)·n ≥ 0`, strictly for one `p` - then the quantity whose sign
    the code takes, `(#cell·#facet)·(facet centre − cell centre)·n`, is positive. The facet's own vertices need no
    hypothesis: their deviations from the mean plane cancel. This is exactly why the facet CENTRE is the right
    reference point: see `C12_first_node_reference_counterexample`. -/
theorem C12_hex_sign_meanplane (cellPts facetPts restPts : List (V3 R)) (n : V3 R)
    (hperm : cellPts.Perm (facetPts ++ restPts))
    (hin : ∀ p ∈ restPts, 0 ≤ (facetPts.map fun q => dot (sub q p) n).sum)
    (hstrict : ∃ p ∈ restPts, 0 < (facetPts.map fun q => dot (sub q p) n).sum) :
    0 < signDot cellPts facetPts n := by
  rw [signDot_eq]
  have hlen : cellPts.length = facetPts.length + restPts.length := by rw [hperm.length_eq, List.length_append]
  have hsum : (cellPts.map fun p => dot p n).sum =
      (facetPts.map fun q => dot q n).sum + (restPts.map fun p => dot p n).sum := by
    rw [(hperm.map _).sum_eq, List.map_append, List.sum_append]
  have hpos := sum_pos_of_nonneg (restPts.map fun p => (facetPts.map fun q => dot (sub q p) n).sum)
    (by intro x hx; obtain ⟨p, hp, rfl⟩ := List.mem_map.mp hx; exact hin p hp)
    (by obtain ⟨p, hp, h⟩ := hstrict; exact ⟨_, List.mem_map.mpr ⟨p, hp, rfl⟩, h⟩)
  rw [outer_side] at hpos
  rw [hlen, hsum, Nat.cast_add]
  have e : ∀ a b F Rs : R, (a + b) * F - a * (F + Rs) = b * F - a * Rs := by intros; ring
  rw [e]; exact hpos

/-- the lower cell of a thin two-layer plate (lateral size 100, layer thickness 10) whose middle node layer is displaced
    alternately by ±7 (more than half the layer thickness), and the upper cell; they share the skew face `wFace` -/
def wLower : List (V3 Rat) := [⟨0,0,0⟩, ⟨100,0,0⟩, ⟨100,100,0⟩, ⟨0,100,0⟩, ⟨0,0,17⟩, ⟨100,0,3⟩, ⟨100,100,17⟩, ⟨0,100,3⟩]
def wUpper : List (V3 Rat) := [⟨0,0,17⟩, ⟨100,0,3⟩, ⟨100,100,17⟩, ⟨0,100,3⟩, ⟨0,0,20⟩, ⟨100,0,20⟩, ⟨100,100,20⟩, ⟨0,100,20⟩]
def wFace : List (V3 Rat) := [⟨0,0,17⟩, ⟨100,0,3⟩, ⟨100,100,17⟩, ⟨0,100,3⟩]

/-- non-vacuity of `C12_hex_sign_meanplane` on a cell with a skew face (where the hypothesis of `C12_hex_sign_convex`
    is false: the facet vertex (100,0,3) is below the cell = facet vertex (0,0,17) with respect to the normal) -/
example : let rest : List (V3 Rat) := [⟨0,0,0⟩, ⟨100,0,0⟩, ⟨100,100,0⟩, ⟨0,100,0⟩]
    wLower.Perm (wFace ++ rest) ∧
    (∀ p ∈ rest, 0 ≤ (wFace.map fun q => dot (sub q p) (normalDir wFace)).sum) ∧
    (∃ p ∈ rest, 0 < (wFace.map fun q => dot (sub q p) (normalDir wFace)).sum) ∧
    ¬ (∀ p ∈ wLower, ∀ q ∈ wFace, 0 ≤ dot (sub q p) (normalDir wFace)) := by
  intro rest
  refine ⟨?_, ?_, ⟨⟨0,0,0⟩, by simp [rest], ?_⟩, ?_⟩
  · exact (List.perm_append_comm : (rest ++ wFace).Perm (wFace ++ rest))
  · simp only [rest, wFace, List.forall_mem_cons]
    norm_num [normalDir, quadCrossC, V3.cross, V3.dot, V3.sub, V3.add, V3.smul]
  · norm_num [wFace, normalDir, quadCrossC, V3.cross, V3.dot, V3.sub, V3.add, V3.smul]
  · intro h
    have := h ⟨0,0,17⟩ (by simp [wLower]) ⟨100,0,3⟩ (by simp [wFace])
    norm_num [wFace, normalDir, quadCrossC, V3.cross, V3.dot, V3.sub, V3.add, V3.smul] at this

/-- **C12_first_node_reference_counterexample.** `signDot cell [q] n = #cell·(q − cell centre)·n` is the quantity whose
    sign is taken when ONE NODE `q` of the facet replaces the facet centre as the reference point ("any point of the
    facet lies on its plane" - true for planar facets only, `C12_planar_reference_point`). On the skew face shared by the
    two cells above, the real rule gives opposite signs to the two cells, the first-node rule gives both cells the SAME
    sign: the interior facet is no longer incident to its two cells with opposite signs. (Seeded change C12-10.) -/
theorem C12_first_node_reference_counterexample :
    (0 < signDot wLower wFace (normalDir wFace) ∧ signDot wUpper wFace (normalDir wFace) < 0) ∧
    (0 < signDot wLower (wFace.take 1) (normalDir wFace) ∧ 0 < signDot wUpper (wFace.take 1) (normalDir wFace)) := by
  norm_num [wLower, wUpper, wFace, signDot, vsum, normalDir, quadCrossC, V3.cross, V3.dot, V3.sub, V3.add, V3.smul]

/-- **C12_mirror_sign.** Seen from the same cell, a facet and its mirror image (same nodes, traversed backwards —
    how the facet stored by one cell relates to the neighbour's own face) have opposite normals, hence opposite
    sign quantities, and opposite area vectors; triangles and quadrilaterals, any coordinates. -/
theorem C12_mirror_sign (pt : Nat → V3 R) (cellPts : List (V3 R)) (g f : Face) (h : mirrorB g f = true) :
    signDot cellPts (f.map pt) (normalDir (f.map pt)) = - signDot cellPts (g.map pt) (normalDir (g.map pt)) ∧
    areaVec2 (f.map pt) = smul (-1) (areaVec2 (g.map pt)) := by
  have hneg : ∀ (fp : List (V3 R)) (n : V3 R), signDot cellPts fp (smul (-1) n) = - signDot cellPts fp n := by
    intro fp n; simp only [signDot, V3.dot, V3.smul]; ring
  have hcongr : ∀ (fp gp : List (V3 R)) (n : V3 R), vsum fp = vsum gp → fp.length = gp.length →
      signDot cellPts fp n = signDot cellPts gp n := by
    intro fp gp n h1 h2; simp only [signDot, h1, h2]
  suffices hs : vsum (f.map pt) = vsum (g.map pt) ∧ (f.map pt).length = (g.map pt).length ∧
      normalDir (f.map pt) = smul (-1) (normalDir (g.map pt)) ∧ areaVec2 (f.map pt) = smul (-1) (areaVec2 (g.map pt)) by
    obtain ⟨h1, h2, h3, h4⟩ := hs
    exact ⟨by rw [h3, hneg, hcongr _ _ _ h1 h2], h4⟩
  unfold mirrorB at h
  split at h
  · simp only [Bool.or_eq_true, beq_iff_eq] at h
    rcases h with (rfl | rfl) | rfl <;>
      refine ⟨?_, rfl, ?_, ?_⟩ <;>
      simp only [List.map, vsum, List.foldr, normalDir, areaVec2, triCross, V3.cross, V3.sub, V3.add, V3.smul,
        Nat.cast_zero] <;> congr 1 <;> ring
  · simp only [Bool.or_eq_true, beq_iff_eq] at h
    rcases h with ((rfl | rfl) | rfl) | rfl <;>
      refine ⟨?_, rfl, ?_, ?_⟩ <;>
      simp only [List.map, vsum, List.foldr, normalDir, areaVec2, quadCrossC, V3.cross, V3.sub, V3.add, V3.smul,
        Nat.cast_zero, Nat.cast_ofNat] <;> congr 1 <;> ring
  · cases h

/-! ## similarity: the model is blind to absolute scale and position

The clauses of the property are invariant under `x ↦ s·x + t` (`s > 0`) in exact arithmetic: area vectors are multiplied by
`s²`, the quantity whose sign the code takes by `s³`, so the signed incidence matrix is unchanged. Hence an exact-rational model
cannot distinguish a mesh with millimetre cells, or one located 10⁷ cell sizes from the origin, from its unit-size image at the
origin: whatever the real code does differently there is a floating-point effect (a clamp such as `config.EPSILON`, cancellation),
which is why the harness streams `absolute-scale` and `far-offset` are oracle + metamorphic streams and why the relation they assert
("same facets, incidence, signs, normals and areas × `s²`") is the right one. -/

/-- the similarity `x ↦ s·x + t` -/
def simil (s : R) (t p : V3 R) : V3 R := V3.add (V3.smul s p) t

omit [LinearOrder R] [IsStrictOrderedRing R] in
/-- **C12_similarity_area.** Under `x ↦ s·x + t` the un-normalised normal the code computes and the doubled area vector of a
    triangular / quadrilateral facet are multiplied by `s²` (a translation leaves them unchanged). -/
theorem C12_similarity_area (s : R) (t a b c d : V3 R) :
    normalDir ([a, b, c].map (simil s t)) = smul (s * s) (normalDir [a, b, c]) ∧
    normalDir ([a, b, c, d].map (simil s t)) = smul (s * s) (normalDir [a, b, c, d]) ∧
    areaVec2 ([a, b, c].map (simil s t)) = smul (s * s) (areaVec2 [a, b, c]) ∧
    areaVec2 ([a, b, c, d].map (simil s t)) = smul (s * s) (areaVec2 [a, b, c, d]) := by
  refine ⟨?_, ?_, ?_, ?_⟩ <;>
    simp only [List.map, simil, normalDir, areaVec2, triCross, quadCrossC, V3.cross, V3.sub, V3.add, V3.smul,
      Nat.cast_ofNat] <;> congr 1 <;> ring

omit [LinearOrder R] [IsStrictOrderedRing R] in
theorem sum_dot_simil (l : List (V3 R)) (s : R) (t n : V3 R) :
    ((l.map (simil s t)).map fun q => dot q n).sum = s * (l.map fun q => dot q n).sum + (l.length : R) * dot t n := by
  induction l with
  | nil => simp
  | cons a l ih =>
    simp only [List.map_cons, List.sum_cons, List.length_cons, ih, Nat.cast_succ]
    simp only [simil, V3.dot, V3.add, V3.smul]; ring

/-- the sign quantity `(#cell·#facet)·(facet centre − cell centre)·n` is multiplied by `s` when cell and facet are mapped by
    `x ↦ s·x + t` (any cell, any facet, any `n`), and is linear in `n` -/
theorem signDot_simil (cellPts facetPts : List (V3 R)) (s k : R) (t n : V3 R) :
    signDot (cellPts.map (simil s t)) (facetPts.map (simil s t)) (smul k n) = k * s * signDot cellPts facetPts n := by
  have hk : ∀ (cp fp : List (V3 R)), signDot cp fp (smul k n) = k * signDot cp fp n := by
    intro cp fp; simp only [signDot, V3.dot, V3.smul]; ring
  rw [hk, signDot_eq, signDot_eq, sum_dot_simil, sum_dot_simil, List.length_map, List.length_map]
  ring

/-- **C12_similarity_sign.** For `s > 0` the sign the code computes for a (cell, triangular or quadrilateral facet) pair is
    unchanged by `x ↦ s·x + t`: the signed incidence matrix of a uniformly scaled and translated mesh is that of the original
    mesh (any cell type, any coordinates). -/
theorem C12_similarity_sign (cellPts : List (V3 R)) (s : R) (hs : 0 < s) (t a b c d : V3 R) :
    signOf (cellPts.map (simil s t)) ([a, b, c].map (simil s t)) = signOf cellPts [a, b, c] ∧
    signOf (cellPts.map (simil s t)) ([a, b, c, d].map (simil s t)) = signOf cellPts [a, b, c, d] := by
  obtain ⟨h3, h4, -, -⟩ := C12_similarity_area s t a b c d
  have hpos : 0 < s * s * s := by positivity
  have key : ∀ x : R, (s * s * s * x < ((0 : Nat) : R)) ↔ (x < ((0 : Nat) : R)) := by
    intro x
    simp only [Nat.cast_zero]
    constructor
    · intro h
      by_contra hx
      have : 0 ≤ s * s * s * x := mul_nonneg hpos.le (not_lt.mp hx)
      linarith
    · intro h; exact mul_neg_of_pos_of_neg hpos h
  constructor
  · unfold signOf
    rw [h3, signDot_simil]
    simp only [key]
  · unfold signOf
    rw [h4, signDot_simil]
    simp only [key]

/-- non-vacuity: millimetre cells in metres (`s = 2⁻¹³`), UTM-like offset; the top face of the unit cube keeps its `+1` -/
example : (0 : Rat) < 1 / 8192 ∧
    signOf ([⟨0,0,0⟩, ⟨1,0,0⟩, ⟨1,1,0⟩, ⟨0,1,0⟩, ⟨0,0,1⟩, ⟨1,0,1⟩, ⟨1,1,1⟩, ⟨0,1,1⟩].map
        (simil (1 / 8192 : Rat) ⟨523456, 4123456, 123⟩))
      ([⟨0,0,1⟩, ⟨1,0,1⟩, ⟨1,1,1⟩, ⟨0,1,1⟩].map (simil (1 / 8192 : Rat) ⟨523456, 4123456, 123⟩)) = 1 := by
  refine ⟨by norm_num, ?_⟩
  rw [(C12_similarity_sign _ (1 / 8192 : Rat) (by norm_num) ⟨523456, 4123456, 123⟩ ⟨0,0,1⟩ ⟨1,0,1⟩ ⟨1,1,1⟩ ⟨0,1,1⟩).2]
  norm_num [signOf, signDot, normalDir, quadCrossC, vsum, V3.dot, V3.sub, V3.add, V3.smul, V3.cross]

/-! ## affine maps: the model is blind to aspect ratio and grading

A thin layer is the image of an ordinary layer under the stretch `diag(1, 1, τ)`, every cell of a graded tensor grid is an affine
image of the unit cube. Under an affine map `x ↦ A·x + t` the un-normalised normal transforms with the cofactor matrix and the
quantity whose sign the code takes is multiplied by `det A`: for `det A > 0` the computed sign is unchanged, for EVERY `τ > 0` and
every size ratio. So in exact arithmetic a cell of thickness `10⁻⁹` of the model extent, or a cell `10⁶` times smaller than its
neighbour, gets the signs of the unit cell; whatever the real code does differently there (positions stored in single precision, a
clamp relative to the largest facet of the batch) is a floating-point effect that the exact model cannot see - which is why the
harness stream `extreme-geometry` judges the real code by an exact integer reference and ties only facets / incidence / signs to
the model. -/

/-- the affine map `x ↦ A·x + t`, `A` given by its rows `r1 r2 r3` -/
def affMap (r1 r2 r3 t p : V3 R) : V3 R := V3.add ⟨dot r1 p, dot r2 p, dot r3 p⟩ t

/-- the cofactor matrix of `A` applied to `n` (`cof(A)·(u × v) = (A·u) × (A·v)`) -/
def cofMap (r1 r2 r3 n : V3 R) : V3 R := ⟨dot (cross r2 r3) n, dot (cross r3 r1) n, dot (cross r1 r2) n⟩

omit [LinearOrder R] [IsStrictOrderedRing R] in
/-- under `x ↦ A·x + t` the un-normalised normal the code computes is mapped by the cofactor matrix (triangles and quadrilaterals) -/
theorem normalDir_affMap (r1 r2 r3 t a b c d : V3 R) :
    normalDir ([a, b, c].map (affMap r1 r2 r3 t)) = cofMap r1 r2 r3 (normalDir [a, b, c]) ∧
    normalDir ([a, b, c, d].map (affMap r1 r2 r3 t)) = cofMap r1 r2 r3 (normalDir [a, b, c, d]) := by
  constructor <;>
    simp only [List.map, affMap, cofMap, normalDir, triCross, quadCrossC, V3.cross, V3.sub, V3.add, V3.smul, V3.dot,
      Nat.cast_ofNat] <;> congr 1 <;> ring

omit [LinearOrder R] [IsStrictOrderedRing R] in
theorem sum_dot_affMap (l : List (V3 R)) (r1 r2 r3 t n : V3 R) :
    ((l.map (affMap r1 r2 r3 t)).map fun q => dot q (cofMap r1 r2 r3 n)).sum
      = det r1 r2 r3 * (l.map fun q => dot q n).sum + (l.length : R) * dot t (cofMap r1 r2 r3 n) := by
  induction l with
  | nil => simp
  | cons a l ih =>
    simp only [List.map_cons, List.sum_cons, List.length_cons, ih, Nat.cast_succ]
    simp only [affMap, cofMap, V3.dot, V3.add, V3.smul, V3.cross, V3.det]; ring

/-- the sign quantity of a (cell, facet) pair is multiplied by `det A` when cell, facet and normal are mapped by `x ↦ A·x + t` -/
theorem signDot_affMap (cellPts facetPts : List (V3 R)) (r1 r2 r3 t n : V3 R) :
    signDot (cellPts.map (affMap r1 r2 r3 t)) (facetPts.map (affMap r1 r2 r3 t)) (cofMap r1 r2 r3 n)
      = det r1 r2 r3 * signDot cellPts facetPts n := by
  rw [signDot_eq, signDot_eq, sum_dot_affMap, sum_dot_affMap, List.length_map, List.length_map]
  ring

/-- **C12_affine_sign.** For `det A > 0` the sign the code computes for a (cell, triangular or quadrilateral facet) pair is unchanged
    by `x ↦ A·x + t` (any cell type, any coordinates): in particular by the stretch `diag(1, 1, τ)` for every `τ > 0` (thin layers)
    and by the map that takes the unit cube to any cell of a graded tensor grid. -/
theorem C12_affine_sign (cellPts : List (V3 R)) (r1 r2 r3 : V3 R) (hdet : 0 < det r1 r2 r3) (t a b c d : V3 R) :
    signOf (cellPts.map (affMap r1 r2 r3 t)) ([a, b, c].map (affMap r1 r2 r3 t)) = signOf cellPts [a, b, c] ∧
    signOf (cellPts.map (affMap r1 r2 r3 t)) ([a, b, c, d].map (affMap r1 r2 r3 t)) = signOf cellPts [a, b, c, d] := by
  obtain ⟨h3, h4⟩ := normalDir_affMap r1 r2 r3 t a b c d
  have key : ∀ x : R, (det r1 r2 r3 * x < ((0 : Nat) : R)) ↔ (x < ((0 : Nat) : R)) := by
    intro x
    simp only [Nat.cast_zero]
    constructor
    · intro h
      by_contra hx
      have : 0 ≤ det r1 r2 r3 * x := mul_nonneg hdet.le (not_lt.mp hx)
      linarith
    · intro h; exact mul_neg_of_pos_of_neg hdet h
  constructor
  · unfold signOf
    rw [h3, signDot_affMap]
    simp only [key]
  · unfold signOf
    rw [h4, signDot_affMap]
    simp only [key]

/-- non-vacuity: a coating of thickness `10⁻⁹` (stretch `diag(1, 1, 10⁻⁹)`, offset) - the top face of the thin cell keeps its `+1` -/
example : (0 : Rat) < det (⟨1, 0, 0⟩ : V3 Rat) ⟨0, 1, 0⟩ ⟨0, 0, 1 / 1000000000⟩ ∧
    signOf ([⟨0,0,0⟩, ⟨1,0,0⟩, ⟨1,1,0⟩, ⟨0,1,0⟩, ⟨0,0,1⟩, ⟨1,0,1⟩, ⟨1,1,1⟩, ⟨0,1,1⟩].map
        (affMap (⟨1, 0, 0⟩ : V3 Rat) ⟨0, 1, 0⟩ ⟨0, 0, 1 / 1000000000⟩ ⟨3, -2, 1⟩))
      ([⟨0,0,1⟩, ⟨1,0,1⟩, ⟨1,1,1⟩, ⟨0,1,1⟩].map (affMap (⟨1, 0, 0⟩ : V3 Rat) ⟨0, 1, 0⟩ ⟨0, 0, 1 / 1000000000⟩ ⟨3, -2, 1⟩)) = 1 := by
  refine ⟨by norm_num [V3.det], ?_⟩
  rw [(C12_affine_sign _ (⟨1, 0, 0⟩ : V3 Rat) ⟨0, 1, 0⟩ ⟨0, 0, 1 / 1000000000⟩ (by norm_num [V3.det]) ⟨3, -2, 1⟩
    ⟨0,0,1⟩ ⟨1,0,1⟩ ⟨1,1,1⟩ ⟨0,1,1⟩).2]
  norm_num [signOf, signDot, normalDir, quadCrossC, vsum, V3.dot, V3.sub, V3.add, V3.smul, V3.cross]

end Signs

/-! ## metric identities -/
section Metric
variable {R : Type} [Field R]

/-- the un-normalised quad normal of `_calculate_quad_normals_centroid` is 16 × the doubled vector area -/
theorem C12_normal_is_area_vector (a b c d : V3 R) :
    normalDir [a, b, c, d] = smul 16 (areaVec2 [a, b, c, d]) ∧ ∀ a b c : V3 R, normalDir [a, b, c] = areaVec2 [a, b, c] := by
  constructor
  · simp only [normalDir, areaVec2, quadCrossC, V3.cross, V3.sub, V3.add, V3.smul, Nat.cast_ofNat]
    congr 1 <;> ring
  · intro a b c; rfl

def vzero : V3 R := ⟨0, 0, 0⟩
def vsumL (l : List (V3 R)) : V3 R := l.foldr V3.add vzero

/-- **C12_area_sum_zero.** For a tetrahedron and for a hexahedron (any coordinates, warped faces included) the
    outward (own-orientation) doubled area vectors of the table faces sum to zero. With `C12_tet_sign` /
    `C12_hex_sign_convex` (sign `+1` on own orientation) and `C12_mirror_sign` (a mirrored stored facet has sign
    `−1` and the negated area vector) this is `Σ_f sign(c,f)·S_f = 0` for every cell. -/
theorem C12_area_sum_zero (p0 p1 p2 p3 p4 p5 p6 p7 : V3 R) :
    vsumL (faces_tet.map fun g => areaVec2 (g.filterMap fun i => [p0, p1, p2, p3][i]?)) = vzero ∧
    vsumL (faces_hex.map fun g => areaVec2 (g.filterMap fun i => [p0, p1, p2, p3, p4, p5, p6, p7][i]?)) = vzero := by
  constructor
  · simp only [faces_tet, faces_hex, List.map, vsumL, vzero, List.foldr, areaVec2, List.filterMap_cons, List.filterMap_nil,
      List.getElem?_cons_zero, List.getElem?_cons_succ, triCross, V3.cross, V3.sub, V3.add]
    congr 1 <;> ring
  · simp only [faces_tet, faces_hex, List.map, vsumL, vzero, List.foldr, areaVec2, List.filterMap_cons, List.filterMap_nil,
      List.getElem?_cons_zero, List.getElem?_cons_succ, triCross, V3.cross, V3.sub, V3.add]
    congr 1 <;> ring

/-- **C12_divergence.** `Σ_f S2_f · Σ(vertices of f)` over the table faces equals `3·(6V)` for a tetrahedron and
    `24V` (centroid kernel) for a hexahedron, i.e. with `S_f = S2_f/2` and `c_f` the vertex mean:
    `⅓ Σ_f S_f · c_f = V`. For the hexahedron this holds for the vector areas without any planarity assumption;
    planarity is what makes femio's scalar area × unit normal equal to the vector area. -/
theorem C12_divergence (p0 p1 p2 p3 p4 p5 p6 p7 : V3 R) :
    ((faces_tet.map fun g =>
        let ps := g.filterMap fun i => [p0, p1, p2, p3][i]?
        dot (areaVec2 ps) (vsumL ps)).sum = 3 * tet6 p0 p1 p2 p3) ∧
    ((faces_hex.map fun g =>
        let ps := g.filterMap fun i => [p0, p1, p2, p3, p4, p5, p6, p7][i]?
        dot (areaVec2 ps) (vsumL ps)).sum = hexC24 p0 p1 p2 p3 p4 p5 p6 p7) := by
  constructor
  · simp only [faces_tet, List.map, vsumL, vzero, List.foldr, areaVec2, List.filterMap_cons, List.filterMap_nil,
      List.getElem?_cons_zero, List.getElem?_cons_succ, List.sum_cons, List.sum_nil, triCross, tet6, V3.cross,
      V3.sub, V3.add, V3.dot, V3.det]
    ring
  · simp only [faces_hex, List.map, vsumL, vzero, List.foldr, areaVec2, List.filterMap_cons, List.filterMap_nil,
      List.getElem?_cons_zero, List.getElem?_cons_succ, List.sum_cons, List.sum_nil, hexC24, quadC4, V3.cross,
      V3.sub, V3.add, V3.dot, V3.det]
    ring

/-- planar quadrilateral: the vector area is orthogonal to the facet, so `S·c` may be evaluated at any vertex -/
theorem planar_quad (a b c d : V3 R) (hpl : det (sub b a) (sub c a) (sub d a) = 0) :
    dot (areaVec2 [a, b, c, d]) (sub (add (add a b) (add c d)) (smul 4 a)) = 0 := by
  simp only [areaVec2, V3.cross, V3.sub, V3.add, V3.smul, V3.dot, V3.det] at hpl ⊢
  linear_combination (2 : R) * hpl

/-- **C12_planar_reference_point.** On a PLANAR quadrilateral every vertex lies on the mean plane: `(4v − Σ vertices)·S = 0`
    for each of the four vertices `v`, so `(v − cell centre)·S = (facet centre − cell centre)·S` - on planar-faced cells the
    sign does not depend on which point of the facet is the reference (and a change of the reference point is invisible
    there). For skew faces this fails: `C12_first_node_reference_counterexample`. -/
theorem C12_planar_reference_point (a b c d : V3 R) (hpl : det (sub b a) (sub c a) (sub d a) = 0) :
    let s := add (add a b) (add c d)
    dot (areaVec2 [a, b, c, d]) (sub s (smul 4 a)) = 0 ∧ dot (areaVec2 [a, b, c, d]) (sub s (smul 4 b)) = 0 ∧
    dot (areaVec2 [a, b, c, d]) (sub s (smul 4 c)) = 0 ∧ dot (areaVec2 [a, b, c, d]) (sub s (smul 4 d)) = 0 := by
  simp only [areaVec2, V3.cross, V3.sub, V3.add, V3.smul, V3.dot, V3.det] at hpl ⊢
  refine ⟨?_, ?_, ?_, ?_⟩
  · linear_combination (2 : R) * hpl
  · linear_combination (-2 : R) * hpl
  · linear_combination (2 : R) * hpl
  · linear_combination (-2 : R) * hpl

/-- non-vacuity: unit cube, 24V = 24 -/
example : hexC24 (⟨0,0,0⟩ : V3 Rat) ⟨1,0,0⟩ ⟨1,1,0⟩ ⟨0,1,0⟩ ⟨0,0,1⟩ ⟨1,0,1⟩ ⟨1,1,1⟩ ⟨0,1,1⟩ = 24 := by
  norm_num [hexC24, quadC4, V3.det, V3.add]

end Metric
end Femio.C12
