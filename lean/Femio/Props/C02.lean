import Femio.Lemmas.ResFileProps
import Femio.Lemmas.ResTextProps
import Femio.Gen.Tables
import Femio.Lemmas.ResDirProps

/-! C02 — FrontISTR result files: every value lands on its id, variable, component and step.

Property theorems only (lemmas: `Lemmas/ResProps`, `Lemmas/ResSplit`, `Lemmas/ResFileProps`, `Lemmas/ResDirProps`).
Model: `Model/Res.lean` (one section: `renderSec` = hand specification of the solver's layout, `parseSec` =
`_parse_res`, `splitSeries` = `_split_series`) and `Model/ResFile.lean` (whole file, both header layouts,
`to_dict_fem_attributes`, `generate_elemental_attribute`, step selection, time-series branch).
Lines are lists of typed tokens; `V` is the abstract value numeral, `eNot` says whether a value numeral matches
the reader's E-notation pattern. -/
namespace Femio.C02
open Res

variable {V : Type} {α : Type}

/-- tie T: the header constants of `_split_series` in the working tree (regenerated into `Gen/Tables.lean` on
    every run) are the model's -/
theorem C02_header_constants :
    Femio.Gen.resSkipOld = skipOld ∧ Femio.Gen.resSkipV2 = skipV2 ∧ Femio.Gen.resMarker = marker := by decide

/-! ### every number → its id, variable, component; both layouts; any variable list; any wrap -/

/-- result data the solver can write: ≥ 1 nodal variable, ≥ 1 entity per section, every row as wide as the
    component counts say and not empty, wrap widths ≥ 1, nodal values in E-notation; for the old layout no
    variable name contains `TOTALTIME` (such a name would switch the reader to the 2.0 layout) -/
structure WFFile (wcN wvN wcE wvE : Nat) (eNot : V → Bool) (L : Layout) (f : ResFile V) : Prop where
  nodal : WFSec' wcN wvN f.nodal
  enot : ∀ r ∈ f.nodal.rows, ∀ x ∈ r.2, eNot x = true
  elemental : ∀ e, f.elemental = some e → WFSec' wcE wvE e
  names : L = .old → (∀ x ∈ f.nodal.vars, hasInfix marker x.name = false) ∧
    ∀ e, f.elemental = some e → ∀ x ∈ e.vars, hasInfix marker x.name = false

theorem headerOld_ok (a b c d : Nat) : HeaderOK .old (headerOld a b c d : List (Line V)) := by
  refine ⟨rfl, ?_⟩
  rw [List.any_eq_false]
  intro l hl
  simp only [headerOld, List.mem_cons, List.not_mem_nil, or_false] at hl
  rcases hl with rfl | rfl | rfl
  · have : hasInfix marker ['*', 'f', 's', 't', 'r', 'r', 'e', 's', 'u', 'l', 't'] = false := by decide
    simp [lineHasMarker, tokHasMarker, starWord, this]
  · simp [lineHasMarker, tokHasMarker]
  · simp [lineHasMarker, tokHasMarker]

theorem headerV2_ok (comment : List Char) (time : Line V) (a b c d : Nat) :
    HeaderOK .v2 (headerV2 comment time a b c d) := by
  refine ⟨rfl, ?_⟩
  rw [List.any_eq_true]
  have h : hasInfix marker marker = true := by decide
  exact ⟨[.w marker], by simp [headerV2], by simp [lineHasMarker, tokHasMarker, h]⟩

/-- **C02_parse_render** — for every result data `f` (any number of entities with arbitrary ids in any order,
    any non-empty nodal variable list, an elemental section or none, any component counts), both header
    layouts and all wrap widths ≥ 1 of the count and value lines: reading the rendered file gives back exactly
    `f` — every id, every variable with its component count, every value at its position in its entity's row. -/
theorem C02_parse_render (L : Layout) (comment : List Char) (time : Line V) (nEhdr : Nat)
    (wcN wvN wcE wvE : Nat) (eNot : V → Bool) (f : ResFile V) (hf : WFFile wcN wvN wcE wvE eNot L f)
    (nElems : Nat) (hnE : ∀ e, f.elemental = some e → nElems = e.rows.length) :
    readRes eNot (renderFile L comment time nEhdr wcN wvN wcE wvE f) f.nodal.rows.length nElems = some f := by
  unfold renderFile
  cases L with
  | old => exact parse_render_file .old _ (headerOld_ok _ _ _ _) eNot _ _ _ _ f hf.nodal hf.enot hf.elemental hf.names _ hnE
  | v2 => exact parse_render_file .v2 _ (headerV2_ok _ _ _ _ _ _) eNot _ _ _ _ f hf.nodal hf.enot hf.elemental hf.names _ hnE

/-- a small result file: 2 nodes (ids 10, 4), variables of 3 + 1 components wrapped at 2 values per line,
    one element with a 2-component variable -/
def exFile : ResFile Nat :=
  ⟨⟨[⟨['U'], 3⟩, ⟨['T'], 1⟩], [(10, [1, 2, 3, 4]), (4, [5, 6, 7, 8])]⟩, some ⟨[⟨['S'], 2⟩], [(7, [9, 10])]⟩⟩

example : WFFile 1 2 3 5 (fun _ => true) .old exFile :=
  ⟨⟨⟨by decide, by decide, by decide, by decide, by decide⟩, by decide⟩, by decide,
   fun e he => by cases he; exact ⟨⟨by decide, by decide, by decide, by decide, by decide⟩, by decide⟩,
   fun _ => ⟨by decide, fun e he => by cases he; decide⟩⟩

example : readRes (fun _ => true) (renderFile .v2 ['c'] [.v 0] 1 1 2 3 5 exFile) 2 1 = some exFile := by decide
example : (renderFile .old ['c'] [.v 0] 1 1 2 3 5 exFile).length = 3 + (2 + 2 + 2 * 3) + (1 + 1 + 2) := by decide

/-! ### character level: printed lines, whitespace lexer, whole-file text -/
open Femio.Text in
/-- **C02_lex_print_line** — for every token line whose tokens are counts / ids, names (non-empty, no whitespace,
    first character a letter or `*`) and value numerals (non-empty, no whitespace, not a decimal integer, first
    character not a letter or `*` — e.g. `-1.2500000000000000E+03`): splitting the printed line
    (`' '.join(tokens)`, with or without the trailing blank the solver puts after numeric lines) at Python whitespace
    and classifying the pieces as the reader does (`\d+` → integer, `^[\*a-zA-Z]` → name, else value) gives the token
    line back. -/
theorem C02_lex_print_line (trail : Bool) (l : Line Str) (h : l.all resTokOKB = true) :
    lexLine (printLine trail l) = l :=
  lexLine_printLine trail l h

example : lexLine (printLine true [.n 12, .v "-1.2500000000000000E+03".toList, .v "0.0000000000000000E+00".toList])
    = [.n 12, .v "-1.2500000000000000E+03".toList, .v "0.0000000000000000E+00".toList] := by decide
example : printLine true [.n 12, .v "-1.25E+03".toList] = "12 -1.25E+03 ".toList ∧ printLine true [.w "NodalSTRESS".toList] = "NodalSTRESS".toList := by
  decide
example : lexLine " 3\t 1  6 \r".toList = [.n 3, .n 1, .n 6] := by decide

open Femio.Text in
theorem header_lexed_ok (L : Layout) (comment : List Char) (time : Line Str) (a b c d : Nat) (trail : Bool) :
    HeaderOK L (((match L with
      | .old => headerOld a b c d
      | .v2 => headerV2 comment time a b c d).map (printLine trail)).map lexLine) := by
  cases L with
  | old =>
    have : ((headerOld a b c d : List (Line Str)).map (printLine trail)).map lexLine = headerOld a b c d := by
      apply map_lex_print_id
      intro l hl
      simp only [headerOld, List.mem_cons, List.not_mem_nil, or_false] at hl
      rcases hl with rfl | rfl | rfl
      · decide
      · rfl
      · rfl
    simp only [this]
    exact headerOld_ok a b c d
  | v2 =>
    refine ⟨by simp [headerV2, skipV2], ?_⟩
    rw [List.any_eq_true]
    have hm : lexLine (printLine trail [.w marker]) = [.w marker] := lexLine_printLine trail _ (by decide)
    refine ⟨[.w marker], ?_, by decide⟩
    exact List.mem_map.mpr ⟨printLine trail [.w marker], List.mem_map.mpr ⟨[.w marker], by simp [headerV2], rfl⟩, hm⟩

open Femio.Text in
/-- **C02_parse_render_lines** — `C02_parse_render` on lines of characters: every token line of the rendered file
    printed as text (trailing blank after numeric lines or not) and lexed again at whitespace, then read by
    `_read_res`, gives back exactly `f` — for both layouts, any header comment / time line, all wraps ≥ 1, with the
    E-notation test being the reader's regular expression on the numerals' text. -/
theorem C02_parse_render_lines (L : Layout) (comment : List Char) (time : Line Str) (nEhdr : Nat)
    (wcN wvN wcE wvE : Nat) (f : ResFile Str) (hf : WFFile wcN wvN wcE wvE eNotStr L f) (hok : fileOKB f = true)
    (trail : Bool) (nElems : Nat) (hnE : ∀ e, f.elemental = some e → nElems = e.rows.length) :
    readRes eNotStr (((renderFile L comment time nEhdr wcN wvN wcE wvE f).map (printLine trail)).map lexLine)
      f.nodal.rows.length nElems = some f := by
  have hbody := map_lex_print_id trail (renderBody wcN wvN wcE wvE f) (fun l hl =>
    (renderBody_ok wcN wvN wcE wvE f ⟨hf.nodal.wc, hf.nodal.wv⟩ (by
      intro hne
      cases he : f.elemental with
      | none => exact absurd he hne
      | some e => exact ⟨(hf.elemental e he).wc, (hf.elemental e he).wv⟩) hok l hl).1)
  unfold renderFile
  rw [List.map_append, List.map_append, hbody]
  exact parse_render_file L _ (header_lexed_ok L comment time _ _ _ _ trail) eNotStr _ _ _ _ f hf.nodal hf.enot
    hf.elemental hf.names _ hnE

open Femio.Text in
/-- **C02_parse_render_chars** — the whole result file as one string of characters (every line terminated by
    `'\n'`): `_read_res` run on the lines between the newlines (`StringSeries.read_file`), each lexed at whitespace,
    recovers exactly `f` from the text `fileText trail (renderFile …)`. `hdrOKB`: in the 2.0 layout the comment is
    one whitespace-free word and the time line is not empty. -/
theorem C02_parse_render_chars (L : Layout) (comment : List Char) (time : Line Str) (nEhdr : Nat)
    (wcN wvN wcE wvE : Nat) (f : ResFile Str) (hf : WFFile wcN wvN wcE wvE eNotStr L f) (hok : fileOKB f = true)
    (hhdr : hdrOKB L comment time = true)
    (trail : Bool) (nElems : Nat) (hnE : ∀ e, f.elemental = some e → nElems = e.rows.length) :
    readResText (fileText trail (renderFile L comment time nEhdr wcN wvN wcE wvE f)) f.nodal.rows.length nElems
      = some f := by
  have hall : ∀ l ∈ renderFile L comment time nEhdr wcN wvN wcE wvE f, printableB l = true := by
    intro l hl
    unfold renderFile at hl
    rcases List.mem_append.mp hl with hl | hl
    · cases L with
      | old =>
        simp only [headerOld, List.mem_cons, List.not_mem_nil, or_false] at hl
        rcases hl with rfl | rfl | rfl
        · decide
        · exact printable_of_ok _ rfl (by simp)
        · exact printable_of_ok _ rfl (by simp)
      | v2 =>
        simp only [hdrOKB, Bool.and_eq_true] at hhdr
        simp only [headerV2, List.mem_cons, List.not_mem_nil, or_false] at hl
        rcases hl with rfl | rfl | rfl | rfl | rfl | rfl | rfl | rfl | rfl | rfl | rfl
        · decide
        · decide
        · simp [printableB, showTok, hhdr.1]
        · decide
        · decide
        · decide
        · decide
        · exact hhdr.2
        · decide
        · exact printable_of_ok _ rfl (by simp)
        · exact printable_of_ok _ rfl (by simp)
    · have := renderBody_ok wcN wvN wcE wvE f ⟨hf.nodal.wc, hf.nodal.wv⟩ (by
        intro hne
        cases he : f.elemental with
        | none => exact absurd he hne
        | some e => exact ⟨(hf.elemental e he).wc, (hf.elemental e he).wv⟩) hok l hl
      exact printable_of_ok l this.1 this.2
  unfold readResText lexFile fileText
  rw [fileLines_unlines_nonempty]
  · exact C02_parse_render_lines L comment time nEhdr wcN wvN wcE wvE f hf hok trail nElems hnE
  · intro s hs
    obtain ⟨l, hl, rfl⟩ := List.mem_map.mp hs
    exact (printLine_props trail l (hall l hl)).1
  · intro s hs
    obtain ⟨l, hl, rfl⟩ := List.mem_map.mp hs
    exact (printLine_props trail l (hall l hl)).2

open Femio.Text in
/-- a small printed result file (old layout): 2 nodes, `U` (3) + `T` (1) wrapped at 2 values per line, one element -/
def exFileText : ResFile Str :=
  ⟨⟨[⟨['U'], 3⟩, ⟨['T'], 1⟩], [(10, ["1.5E+00".toList, "-2.0E-03".toList, "0.0E+00".toList, "4.0E+00".toList]),
      (4, ["5.0E+00".toList, "6.0E+00".toList, "7.0E+00".toList, "8.0E+300".toList])]⟩,
   some ⟨[⟨['S'], 2⟩], [(7, ["9.0E+00".toList, "1.0E+01".toList])]⟩⟩

example : fileOKB exFileText = true := by decide +kernel
example : WFFile 1 2 3 5 eNotStr .old exFileText :=
  ⟨⟨⟨by decide, by decide, by decide, by decide, by decide⟩, by decide⟩, by decide +kernel,
   fun e he => by cases he; exact ⟨⟨by decide, by decide, by decide, by decide, by decide⟩, by decide⟩,
   fun _ => ⟨by decide, fun e he => by cases he; decide⟩⟩
example : fileText true (renderFile .old [] [] 1 1 2 3 5 exFileText) =
    ("*fstrresult\n2 1 \n2 1 \n3 \n1 \nU\nT\n10 \n1.5E+00 -2.0E-03 \n0.0E+00 4.0E+00 \n4 \n5.0E+00 6.0E+00 \n7.0E+00 8.0E+300 \n"
      ++ "2 \nS\n7 \n9.0E+00 1.0E+01 \n").toList := by decide +kernel
example : readResText (fileText true (renderFile .old [] [] 1 1 2 3 5 exFileText)) 2 1 = some exFileText := by
  decide +kernel

/-- **C02_split_point** — the nodal / elemental boundary found by walking back from the second cluster of name
    lines is exactly the end of the nodal section, whenever the nodal values are in E-notation (`he`: an
    explicit predicate on the text, which `renderSec` of solver data satisfies). -/
theorem C02_split_point (eNot : V → Bool) (wc wv wc' wv' : Nat) (sN sE : Sec V)
    (hN : WFSec' wc wv sN) (hE : WFSec' wc' wv' sE) (he : ∀ r ∈ sN.rows, ∀ x ∈ r.2, eNot x = true) :
    splitSeries eNot (renderSec wc wv sN ++ renderSec wc' wv' sE)
      = some (renderSec wc wv sN, some (renderSec wc' wv' sE)) :=
  split_two eNot wc wv wc' wv' sN sE hN hE he

/-- with no elemental variables (a single cluster of name lines) everything is nodal -/
theorem C02_split_point_nodal_only (eNot : V → Bool) (wc wv : Nat) (sN : Sec V) (hN : WFSec wc wv sN) :
    splitSeries eNot (renderSec wc wv sN) = some (renderSec wc wv sN, none) :=
  split_one eNot wc wv sN hN

example : splitSeries (fun _ => true) (renderSec 1 2 exFile.nodal) = some (renderSec 1 2 exFile.nodal, none) := by decide

/-- the generating data of one section: per entity its id and, per variable, that variable's components -/
def mkSec (vars : List Var) (rows : List (Nat × List (List V))) : Sec V :=
  ⟨vars, rows.map fun r => (r.1, r.2.flatten)⟩

/-- **C02_columns** — `to_dict_fem_attributes`: the table of the `j`-th variable consists, for every entity, of
    exactly the components written for that variable (column ranges from the cumulative component counts),
    under the entity's id — for any number of variables and any component counts. -/
theorem C02_columns (vars : List Var) (rows : List (Nat × List (List V)))
    (hw : ∀ r ∈ rows, r.2.map List.length = vars.map Var.width) (j : Nat) (x : Var) (hx : vars[j]? = some x) :
    (secAttrs (mkSec vars rows))[j]? = some ⟨x.name, rows.map (·.1), rows.map fun r => (r.2[j]?).getD []⟩ := by
  have := attrsFrom_get rows vars 0 j x hx (by simpa using hw) 0 (by simp)
  simpa [secAttrs, mkSec] using this

example : (secAttrs (mkSec [⟨['U'], 3⟩, ⟨['T'], 1⟩] [(10, [[1, 2, 3], [4]]), (4, [[5, 6, 7], [8]])]))[1]?
    = some (⟨['T'], [10, 4], [[4], [8]]⟩ : Attr Nat) := by decide

/-! ### elemental results are re-bound by id (uniform and mixed meshes) -/

/-- **C02_rebinding** — `generate_elemental_attribute` followed by `_update_self`: for every element id of the
    result file that belongs to some type block of the mesh, the row found under that id afterwards is the row
    the file gave for it — whatever the order of the ids in the file, for one type block or several. -/
theorem C02_rebinding (typeIds : List (Nat × List Nat)) (ids : List Nat) (data : List α)
    (hlen : ids.length ≤ data.length) (i : Nat) (hi : i ∈ ids) (hty : ∃ b ∈ typeIds, i ∈ b.2) :
    (rebindRows typeIds ids data).lookup i = lookupRow ids data i := by
  obtain ⟨d, hd⟩ := lookupRow_isSome hi hlen
  have hmem : (i, d) ∈ rebindRows typeIds ids data := mem_rebindRows.mpr ⟨hty, hi, hd⟩
  obtain ⟨d', hd'⟩ := lookup_isSome_of_mem hmem
  have := (mem_rebindRows.mp (lookup_mem hd')).2.2
  rw [hd', ← this]

/-- **C02_rebinding_ids** — the ids of the re-bound attribute are ascending and are exactly the file's ids
    that belong to the mesh: nothing is invented, nothing of the mesh is dropped. -/
theorem C02_rebinding_ids (typeIds : List (Nat × List Nat)) (ids : List Nat) (data : List α)
    (hlen : ids.length ≤ data.length) :
    ((rebindRows typeIds ids data).map Prod.fst).Pairwise (· ≤ ·) ∧
    ∀ j, j ∈ (rebindRows typeIds ids data).map Prod.fst ↔ (j ∈ ids ∧ ∃ b ∈ typeIds, j ∈ b.2) := by
  refine ⟨rebindRows_sorted typeIds ids data, fun j => ?_⟩
  constructor
  · intro hj
    obtain ⟨p, hp, rfl⟩ := List.mem_map.mp hj
    have := mem_rebindRows.mp (show (p.1, p.2) ∈ _ from hp)
    exact ⟨this.2.1, this.1⟩
  · rintro ⟨hj, hty⟩
    obtain ⟨d, hd⟩ := lookupRow_isSome hj hlen
    exact List.mem_map.mpr ⟨(j, d), mem_rebindRows.mpr ⟨hty, hj, hd⟩, rfl⟩

-- mixed mesh (tet block stored as [70, 118], prism block [35]), file order 118, 35, 70
example : rebindRows [(8, [70, 118]), (12, [35])] [118, 35, 70] ['a', 'b', 'c'] = [(35, 'b'), (70, 'c'), (118, 'a')] := by
  decide
-- uniform mesh stored in descending order
example : rebindRows [(8, [7, 3])] [7, 3] ['a', 'b'] = [(3, 'b'), (7, 'a')] := by decide

/-! ### steps -/

/-- **C02_steps** — the files read as a time series are all the files found, in ascending step order
    (numeric, not lexicographic). -/
theorem C02_steps (files : List (Nat × α)) :
    (selectSteps true files).Perm files ∧ (selectSteps true files).Pairwise (fun a b => a.1 ≤ b.1) := by
  unfold selectSteps
  split
  · exact ⟨List.Perm.refl _, List.Pairwise.nil⟩
  · exact ⟨List.Perm.refl _, List.pairwise_singleton _ _⟩
  · exact ⟨sortByKey_perm _, sortByKey_sorted _⟩

/-- **C02_steps_latest** — without time series exactly one file is read and its step number is the largest
    (for distinct step numbers: *the* file with the largest step). -/
theorem C02_steps_latest (files : List (Nat × α)) (hne : files ≠ []) :
    ∃ l, selectSteps false files = [l] ∧ l ∈ files ∧ ∀ f ∈ files, f.1 ≤ l.1 := by
  cases files with
  | nil => exact absurd rfl hne
  | cons f t =>
    cases t with
    | nil => exact ⟨f, rfl, by simp, by simp⟩
    | cons g t =>
      have hperm := sortByKey_perm (f :: g :: t)
      cases hl : (sortByKey (f :: g :: t)).getLast? with
      | none =>
        have h0 := List.getLast?_eq_none_iff.mp hl
        have := hperm.length_eq
        rw [h0] at this
        simp at this
      | some l =>
        refine ⟨l, ?_, hperm.mem_iff.mp (List.mem_of_getLast? hl),
          fun x hx => le_getLast_of_sorted (sortByKey_sorted _) hl x (hperm.mem_iff.mpr hx)⟩
        simp [selectSteps, sortSteps, hl]

example : (selectSteps true [(10, 'a'), (2, 'b'), (9, 'c')]).map (·.1) = [2, 9, 10] := by decide
example : selectSteps false [(10, 'a'), (2, 'b'), (9, 'c')] = [(10, 'a')] := by decide

/-- **C02_step_of_name** — the step number taken from a file name `<stem>.<k>` is `k` -/
theorem C02_step_of_name (stem : List Char) (k : Nat) : stepOf (stem ++ '.' :: Numeral.showNat k) = some k := by
  unfold stepOf
  have hdig : ∀ c ∈ Numeral.showNat k, (Numeral.charDigit c).isSome = true := by
    intro c hc
    simp only [Numeral.showNat, List.mem_map] at hc
    obtain ⟨d, hd, rfl⟩ := hc
    have hlt : d < 10 := aux_lt (k + 1) k [] (by simp) d hd
    rw [charDigit_digitChar d hlt]; rfl
  have hrev : (stem ++ '.' :: Numeral.showNat k).reverse = (Numeral.showNat k).reverse ++ ('.' :: stem.reverse) := by simp
  rw [hrev, takeWhile_append_stop _ _ _ (fun c hc => hdig c (List.mem_reverse.mp hc))
    (fun b hb => by simp at hb; subst hb; decide)]
  rw [List.reverse_reverse]
  exact parseNat_showNat k

example : stepOf ['m', '.', 'r', 'e', 's', '.', '0', '.', '1', '2'] = some 12 := by decide

/-! ### time series = stack of the single-step readings; no series ⇒ the largest step -/

/-- the single-step reading of one result file (`read_files('fistr', [msh, res])`) -/
def readSingle (eNot : V → Bool) (typeIds : List (Nat × List Nat)) (nNodes nElems : Nat) (ls : List (Line V)) :
    Option (Reading V) :=
  (readRes eNot ls nNodes nElems).map (reading typeIds)

/-- **C02_timeseries_is_stack** — with the repair of F7 (`Cfg.fixed`), reading `k ≥ 1` result files as a time
    series is: read every file on its own, in ascending step order (`C02_steps`), and stack (`stackAttrs`) —
    `time_steps` are the ascending step numbers; for `k = 1` this is a one-step stack. -/
theorem C02_timeseries_is_stack (eNot : V → Bool) (typeIds : List (Nat × List Nat)) (nNodes nElems : Nat)
    (files : List (Nat × List (Line V))) (hne : files ≠ []) :
    readDirSeries Cfg.fixed eNot typeIds nNodes nElems files =
      (do let rs ← (selectSteps true files).mapM fun f => readSingle eNot typeIds nNodes nElems f.2
          let n ← stackAttrs (rs.map (·.nodal))
          let e ← stackAttrs (rs.map (·.elemental))
          pure ⟨(selectSteps true files).map (·.1), n, e⟩) := by
  have hsel : selectSteps true files ≠ [] := by
    intro h
    have := (C02_steps files).1.length_eq
    rw [h] at this
    exact hne (List.length_eq_zero_iff.mp this.symm)
  unfold readDirSeries
  cases hs : selectSteps true files with
  | nil => exact absurd hs hsel
  | cons a t => simp [Cfg.fixed, readSingle]

open Femio.Text in
/-- **C02_single_chars** — the single-step reading (`readSingle`, the unit of `C02_timeseries_is_stack` and
    `C02_latest_is_single`, which hold for arbitrary lexed files) of the characters of a rendered result file is the
    reading of its data: every step of a directory of text files contributes exactly `reading typeIds f`. -/
theorem C02_single_chars (L : Layout) (comment : List Char) (time : Line Str) (nEhdr : Nat)
    (wcN wvN wcE wvE : Nat) (f : ResFile Str) (hf : WFFile wcN wvN wcE wvE eNotStr L f) (hok : fileOKB f = true)
    (hhdr : hdrOKB L comment time = true) (trail : Bool) (nElems : Nat)
    (hnE : ∀ e, f.elemental = some e → nElems = e.rows.length) (typeIds : List (Nat × List Nat)) :
    readSingle eNotStr typeIds f.nodal.rows.length nElems
        (lexFile (fileText trail (renderFile L comment time nEhdr wcN wvN wcE wvE f)))
      = some (reading typeIds f) := by
  have := C02_parse_render_chars L comment time nEhdr wcN wvN wcE wvE f hf hok hhdr trail nElems hnE
  unfold readResText at this
  simp [readSingle, this]

/-- what `stackAttrs` (= `update_time_series`) returns: the variables and ids of the first step, and for every
    variable one slice per step, slice `k` being that variable's table in the `k`-th reading — positionally. -/
theorem C02_stack_spec (l : List (List (Attr V))) (out : List (SeriesAttr V)) (h : stackAttrs l = some out) :
    ∃ first rest, l = first :: rest ∧
      List.Forall₂ (fun (a0 : Attr V) (a : SeriesAttr V) => a.name = a0.name ∧ a.ids = a0.ids ∧
        List.Forall₂ (fun as step => ∃ b, findAttr as a0.name = some b ∧ step = b.data) l a.steps) first out := by
  cases l with
  | nil => simp [stackAttrs] at h
  | cons first rest =>
    refine ⟨first, rest, rfl, ?_⟩
    simp only [stackAttrs] at h
    have := mapM_some_forall₂ _ _ _ h
    refine this.imp ?_
    intro a0 a ha
    simp only [Option.bind_eq_bind] at ha
    cases hm : (first :: rest).mapM (fun as => (findAttr as a0.name).map (·.data)) with
    | none => simp [hm] at ha
    | some per =>
      simp only [hm, Option.bind_some, Option.pure_def, Option.some.injEq] at ha
      subst ha
      refine ⟨rfl, rfl, ?_⟩
      refine (mapM_some_forall₂ _ _ _ hm).imp ?_
      intro as step hstep
      cases hf : findAttr as a0.name with
      | none => simp [hf] at hstep
      | some b => simp [hf] at hstep; exact ⟨b, rfl, hstep.symm⟩

/-- **C02_timeseries_by_id** — id-keyed form: if a step lists the entities of a variable in the same order as
    the first step (as a solver does; elemental variables always do after re-binding), the value found under
    an id in that slice of the stack is the value of the single-step reading. -/
theorem C02_timeseries_by_id (a : SeriesAttr V) (b : Attr V) (step : List (List V)) (hstep : step = b.data)
    (hids : b.ids = a.ids) (i : Nat) : (a.ids.zip step).lookup i = (b.ids.zip b.data).lookup i := by
  rw [hstep, hids]

/-- **C02_latest_is_single** — reading a directory without time series is the single-step reading of one
    file, and that file has the largest step number. -/
theorem C02_latest_is_single (eNot : V → Bool) (typeIds : List (Nat × List Nat)) (nNodes nElems : Nat)
    (files : List (Nat × List (Line V))) (hne : files ≠ []) :
    ∃ l ∈ files, (∀ f ∈ files, f.1 ≤ l.1) ∧
      readDirLatest eNot typeIds nNodes nElems files =
        (readSingle eNot typeIds nNodes nElems l.2).map fun r => some (l.1, r) := by
  obtain ⟨l, hsel, hl, hmax⟩ := C02_steps_latest files hne
  refine ⟨l, hl, hmax, ?_⟩
  unfold readDirLatest
  rw [hsel]
  simp [readSingle, Option.map_map, Function.comp_def]

/-- two steps of a one-node, one-variable result, found in the order 10, 2 -/
def exStep (x : Nat) : List (Line Nat) := renderFile .old [] [] 1 1 1 1 1 ⟨⟨[⟨['T'], 1⟩], [(5, [x])]⟩, none⟩

example : readDirSeries Cfg.fixed (fun _ => true) [] 1 1 [(10, exStep 100), (2, exStep 20)]
    = some ⟨[2, 10], [⟨['T'], [5], [[[20]], [[100]]]⟩], []⟩ := by decide
example : readDirLatest (fun _ => true) [] 1 1 [(10, exStep 100), (2, exStep 20)]
    = some (some (10, ⟨[⟨['T'], [5], [[100]]⟩], []⟩)) := by decide

/-! ### which files are the result files of a directory (round 5) -/
/-- **C02_res_glob_any_stem** — a file named `<stem>.res.<anything>` is taken for a result file by
    `read_directory('fistr', dir)` whatever its stem is (non-empty and not starting with a dot, as `glob` demands): in particular
    whatever the mesh file of the directory is called.  With `C02_res_glob_listing` (the selection is a filter of the
    listing by a predicate on the single name) the result files found do not depend on the other files of the
    directory, and with `C02_step_of_name` the step number of `<stem>.res.<rank>.<step>` is `step`. -/
theorem C02_res_glob_any_stem (stem tail : List Char) (hne : stem ≠ []) (h : stem.head? ≠ some '.') :
    resGlob (stem ++ resInfix ++ tail) = true := by
  unfold resGlob
  rw [hasInfix_append]
  cases stem with
  | nil => exact absurd rfl hne
  | cons c s =>
    have hc : c ≠ '.' := by simpa using h
    simp only [List.cons_append, Bool.and_true]
    split
    · rename_i heq; simp at heq; exact absurd heq.1 hc
    · rfl

/-- **C02_res_glob_listing** — the result files of a directory are exactly the names of the listing that match,
    in listing order; adding or renaming other files (mesh, control file, logs) does not change them. -/
theorem C02_res_glob_listing (l₁ l₂ : List (List Char)) (name : List Char) :
    findRes (l₁ ++ l₂) = findRes l₁ ++ findRes l₂ ∧
    (name ∈ findRes l₁ ↔ name ∈ l₁ ∧ resGlob name = true) ∧
    (resGlob name = false → findRes (l₁ ++ name :: l₂) = findRes (l₁ ++ l₂)) := by
  refine ⟨by simp [findRes], by simp [findRes], fun h => ?_⟩
  simp [findRes, h]

/-- **C02_res_file_name** — the solver's name `<stem>.res.<rank>.<step>` is found and carries step `step`. -/
theorem C02_res_file_name (stem : List Char) (rank step : Nat) (hne : stem ≠ []) (h : stem.head? ≠ some '.') :
    resGlob (resFileName stem rank step) = true ∧ stepOf (resFileName stem rank step) = some step := by
  constructor
  · unfold resFileName
    rw [List.append_assoc (stem ++ resInfix)]
    exact C02_res_glob_any_stem stem _ hne h
  · unfold resFileName
    exact C02_step_of_name _ step

/-- a directory as a solver run leaves it: mesh `model.msh`, control file `model.cnt`, results `job.res.0.<step>`, logs -/
example : findRes ["model.msh".toList, "job.res.0.12".toList, "hecmw_ctrl.dat".toList, "job.res.0.4".toList,
    "model.cnt".toList, "FSTR.restart_0.res".toList, ".job.res.0.1".toList, "res.0.1".toList, "0.log".toList]
    = ["job.res.0.12".toList, "job.res.0.4".toList] := by decide
example : resFileName "job".toList 0 12 = "job.res.0.12".toList := by decide
/-- variable names are data: a blank-free token that starts with a letter is a name whatever else it contains
    (FrontISTR's shell results `NodalSTRESS+`, `ElementalSTRAIN-`) -/
example : lexLine "NodalSTRESS+".toList = [.w "NodalSTRESS+".toList] ∧ wordOKB "ElementalSTRAIN-".toList = true ∧
    wordOKB "E+01".toList = true ∧ lexLine "1.5E+01 ".toList = [.v "1.5E+01".toList] := by decide

/-- **F7** — the unrepaired code (`Cfg.upstream`) raises on a singleton step set read as a time series, the
    repaired one returns the one-step stack. -/
theorem C02_singleton_series_counterexample_upstream :
    readDirSeries Cfg.upstream (fun _ => true) [] 1 1 [(3, exStep 30)] = none ∧
    readDirSeries Cfg.fixed (fun _ => true) [] 1 1 [(3, exStep 30)] = some ⟨[3], [⟨['T'], [5], [[[30]]]⟩], []⟩ := by
  decide

end Femio.C02
