import Femio.Model.Meshio
import Femio.Model.MeshioHist
import Femio.Model.SubMeshTables
import Femio.Lemmas.SubMeshProps
/-! # C06 — legacy VTK export describes the same mesh

Model: `Femio/Model/Meshio.lean` (`FEMData.to_meshio`, the object handed to `meshio.write(..., 'vtk')`).
The file encoding itself is meshio's (the independent reader the property names) and is covered by the
correspondence run (real `write('vtk')` + `meshio.read` against `toMeshio`).
Tables (`elementTypes`, `femioToMeshio`, `meshioToFemio`, `tet2ToMeshio`, `tet2FromMeshio`) are regenerated from the
working tree; the theorems over them are re-checked by the kernel on every run. -/
namespace Femio.C06
open Core Femio.SubMesh Femio.Meshio Femio.Gen

variable {α : Type}

/-! ## cells: one per element, ids translated to zero-based storage positions -/

theorem cellBlocks_ok {typeName : Nat → Option (List Char)} {perm : List Nat} {ids : List Id}
    {bs : EBlocks (List Id)} {cs : List CellBlock} (h : cellBlocks typeName perm ids bs = .ok cs) :
    cs.length = bs.length ∧ ∀ j (hj : j < bs.length) (hj' : j < cs.length), cellBlock typeName perm ids bs[j] = .ok cs[j] := by
  induction bs generalizing cs with
  | nil => simp [cellBlocks] at h; subst h; simp
  | cons b t ih =>
    simp only [cellBlocks] at h
    split at h
    · rename_i c cs' hc hcs
      cases h
      obtain ⟨hl, hall⟩ := ih hcs
      refine ⟨by simp [hl], fun j hj hj' => ?_⟩
      cases j with
      | zero => simpa using hc
      | succ k => simpa using hall k (by simpa using hj) (by simpa using hj')
    · cases h
    · cases h

/-- what one exported block is: the block's type and meshio name, one row per element in block order, and every row
    entry is a storage position holding the node id that VTK order asks for -/
def BlockTranslated (typeName : Nat → Option (List Char)) (perm : List Nat) (ids : List Id)
    (b : List (Ent (List Id))) (c : CellBlock) : Prop :=
  (∃ e0, b.head? = some e0 ∧ c.ty = e0.ty ∧ typeName e0.ty = some c.name) ∧
  c.rows.length = b.length ∧
  ∀ j (hj : j < b.length), ∃ v row, vtkOrder perm c.ty b[j].val = some v ∧ c.rows[j]? = some row ∧
    row.length = v.length ∧ ∀ l (hl : l < v.length), ∃ k, row[l]? = some k ∧ ids[k]? = some v[l]

theorem cellBlock_ok {typeName : Nat → Option (List Char)} {perm : List Nat} {ids : List Id}
    {b : List (Ent (List Id))} {c : CellBlock} (h : cellBlock typeName perm ids b = .ok c) :
    BlockTranslated typeName perm ids b c := by
  unfold cellBlock at h
  cases b with
  | nil => simp at h
  | cons e0 t =>
    simp only at h
    split at h
    · cases h
    · rename_i rows hrows
      split at h
      · cases h
      · rename_i idx hidx
        split at h
        · cases h
        · rename_i nm hnm
          cases h
          refine ⟨⟨e0, rfl, rfl, hnm⟩, ?_, fun j hj => ?_⟩
          · rw [gather_length hidx, gather_length hrows]
          · have hjr : j < rows.length := by rw [gather_length hrows]; exact hj
            have hji : j < idx.length := by rw [gather_length hidx]; exact hjr
            have e1 := gather_getElem hrows j hj
            have e2 := gather_getElem hidx j hjr
            refine ⟨rows[j], idx[j], e1, List.getElem?_eq_getElem hji, gather_length e2, fun l hl => ?_⟩
            have e3 := gather_getElem e2 l hl
            obtain ⟨hkl, hki⟩ := idPos_some e3
            exact ⟨_, List.getElem?_eq_getElem _, by rw [List.getElem?_eq_getElem hkl, hki]⟩

/-- **C06_index_translation**: whenever the export succeeds, the points are the node coordinates in storage order,
    there is one cell block per element-type block (same order) carrying that type's meshio name, one cell row per
    element (same order), and entry `l` of a row is a zero-based position `k` with `nodes.ids[k] = (VTK order of the
    element's connectivity)[l]` — so `points[row[l]]` is the coordinate row stored for that node id. -/
theorem C06_index_translation {typeName : Nat → Option (List Char)} {perm : List Nat} {m : VtkIn α} {o : Out α}
    (h : toMeshio typeName perm m = .ok o) :
    o.points = m.nodes.data ∧ o.cells.length = m.elems.length ∧
    ∀ j (hj : j < m.elems.length) (hj' : j < o.cells.length),
      BlockTranslated typeName perm m.nodes.ids m.elems[j] o.cells[j] := by
  unfold toMeshio at h
  split at h
  · cases h
  · rename_i cs hcs
    cases h
    obtain ⟨hl, hall⟩ := cellBlocks_ok hcs
    exact ⟨rfl, hl, fun j hj hj' => cellBlock_ok (hall j hj hj')⟩

/-- the position is the only one: with pairwise distinct node ids a zero-based position determines the node id and
    vice versa, so the translation of `C06_index_translation` is the storage position of the id (`idPos`). -/
theorem position_unique {ids : List Id} (hn : ids.Nodup) {k k' : Nat} {n : Id} (h : ids[k]? = some n) (h' : ids[k']? = some n) :
    k = k' := by
  obtain ⟨hk, e⟩ := List.getElem?_eq_some_iff.mp h
  obtain ⟨hk', e'⟩ := List.getElem?_eq_some_iff.mp h'
  exact (List.Nodup.getElem_inj_iff hn).mp (e.trans e'.symm)

/-- well-formed input of the export: every block is non-empty and has a meshio name, every referenced node exists,
    `tet2` rows are long enough for the permutation -/
structure Exportable (typeName : Nat → Option (List Char)) (perm : List Nat) (m : VtkIn α) : Prop where
  nonempty : ∀ b ∈ m.elems, b ≠ []
  named : ∀ b ∈ m.elems, ∀ e0, b.head? = some e0 → (typeName e0.ty).isSome
  refs : ∀ e ∈ m.elems.flatten, ∀ n ∈ e.val, n ∈ m.nodes.ids
  arity : ∀ b ∈ m.elems, ∀ e0, b.head? = some e0 → e0.ty = 9 → ∀ e ∈ b, ∀ p ∈ perm, p < e.val.length

theorem vtkOrder_mem {perm : List Nat} {ty : Nat} {conn v : List Id} (h : vtkOrder perm ty conn = some v) :
    ∀ n ∈ v, n ∈ conn := by
  unfold vtkOrder at h
  split at h
  · intro n hn
    obtain ⟨p, _, hp⟩ := gather_mem h hn
    exact List.mem_of_getElem? hp
  · cases h; exact fun _ h => h

/-- **the export does not fail** on a well-formed mesh of exportable types (error branches of the model: empty block,
    unknown type -> `KeyError`, dangling node id -> `KeyError`, short `tet2` row -> `IndexError`) -/
theorem C06_export_succeeds {typeName : Nat → Option (List Char)} {perm : List Nat} {m : VtkIn α}
    (hx : Exportable typeName perm m) : ∃ o, toMeshio typeName perm m = .ok o := by
  have hb : ∀ b ∈ m.elems, ∃ c, cellBlock typeName perm m.nodes.ids b = .ok c := by
    intro b hbm
    cases b with
    | nil => exact absurd rfl (hx.nonempty [] hbm)
    | cons e0 t =>
      have hrows : ∃ rows, gather (fun (e : Ent (List Id)) => vtkOrder perm e0.ty e.val) (e0 :: t) = some rows := by
        apply gather_isSome
        intro e he
        unfold vtkOrder
        split
        · rename_i h9
          apply Option.isSome_iff_exists.mpr
          apply gather_isSome
          intro p hp
          have := hx.arity _ hbm e0 rfl h9 e he p hp
          simp [List.getElem?_eq_getElem this]
        · rfl
      obtain ⟨rows, hrows⟩ := hrows
      have hidx : ∃ idx, gather (gather (idPos m.nodes.ids)) rows = some idx := by
        apply gather_isSome
        intro v hv
        apply Option.isSome_iff_exists.mpr
        apply gather_isSome
        intro n hn
        obtain ⟨e, he, hev⟩ := gather_mem hrows hv
        have hne := vtkOrder_mem hev n hn
        obtain ⟨k, hk⟩ := idPos_of_mem (hx.refs e (List.mem_flatten.mpr ⟨_, hbm, he⟩) n hne)
        simp [hk]
      obtain ⟨idx, hidx⟩ := hidx
      obtain ⟨nm, hnm⟩ := Option.isSome_iff_exists.mp (hx.named _ hbm e0 rfl)
      exact ⟨⟨e0.ty, nm, idx⟩, by simp only [cellBlock, hrows, hidx, hnm]⟩
  have hbs : ∀ bs : EBlocks (List Id), (∀ b ∈ bs, ∃ c, cellBlock typeName perm m.nodes.ids b = .ok c) →
      ∃ cs, cellBlocks typeName perm m.nodes.ids bs = .ok cs := by
    intro bs
    induction bs with
    | nil => intro _; exact ⟨[], rfl⟩
    | cons b t ih =>
      intro hall
      obtain ⟨c, hc⟩ := hall b (by simp)
      obtain ⟨cs, hcs⟩ := ih (fun b' hb' => hall b' (List.mem_cons_of_mem _ hb'))
      exact ⟨c :: cs, by simp only [cellBlocks, hc, hcs]⟩
  obtain ⟨cs, hcs⟩ := hbs m.elems hb
  refine ⟨⟨m.nodes.data, cs, (m.nodal.filter (·.rank < 3)).map fun v => (v.name, v.attr.data)⟩, ?_⟩
  simp only [toMeshio, hcs]

/-! ## point data -/

/-- **C06_point_data**: every nodal variable of rank ≤ 2 is exported under its name, and when the variable is stored in
    the mesh's node order (distinct node ids) row `k` of the exported array is the variable's value at the node
    stored at position `k`. -/
theorem C06_point_data {typeName : Nat → Option (List Char)} {perm : List Nat} {m : VtkIn α} {o : Out α}
    (h : toMeshio typeName perm m = .ok o) (hn : m.nodes.ids.Nodup) :
    ∀ v ∈ m.nodal, v.rank < 3 → ∃ rows, (v.name, rows) ∈ o.pointData ∧
      (v.attr.ids = m.nodes.ids → ∀ k (hk : k < m.nodes.ids.length), rows[k]? = v.attr.lookup m.nodes.ids[k]) := by
  unfold toMeshio at h
  split at h
  · cases h
  · cases h
    intro v hv hr
    refine ⟨v.attr.data, List.mem_map.mpr ⟨v, List.mem_filter.mpr ⟨hv, by simpa using hr⟩, rfl⟩, fun hal k hk => ?_⟩
    simp [Attr.lookup, hal, idPos_get hn k hk]

/-! ## tables -/

/-- hand specification (`vtkCellType.h`, via meshio's `meshio_to_vtk_type`): VTK cell-type number of a meshio cell name -/
def vtkCellType (name : List Char) : Option Nat :=
  if name = "line".toList then some 3 else if name = "triangle".toList then some 5
  else if name = "quad".toList then some 9 else if name = "tetra".toList then some 10
  else if name = "tetra10".toList then some 24 else if name = "pyramid".toList then some 14
  else if name = "wedge".toList then some 13 else if name = "hexahedron".toList then some 12 else none

/-- the eight element types of the property as indices into `ELEMENT_TYPES`, with the VTK cell type of that shape
    (hand specification): line, tri, quad, tet, tet2 (quadratic tetra), pyr, prism (wedge), hex -/
def namedTypes : List (Nat × Nat) := [(0, 3), (3, 5), (5, 9), (8, 10), (9, 24), (10, 14), (12, 13), (14, 12)]

/-- **C06_type_table**: on the eight named types `DICT_FEMIO_ELEMENT_TO_MESHIO_ELEMENT` yields a meshio cell whose VTK
    cell-type number is that of the element's shape, the eight meshio names are pairwise distinct (injectivity), and
    `DICT_MESHIO_ELEMENT_TO_FEMIO_ELEMENT` maps each back to the femio type name. -/
theorem C06_type_table :
    (namedTypes.all fun (t, vtk) => (meshioName t).bind vtkCellType == some vtk) = true ∧
    (namedTypes.map fun (t, _) => meshioName t).Nodup ∧
    (namedTypes.all fun (t, _) => (meshioName t).bind (lookupName · meshioToFemio) == elementTypes[t]?) = true := by
  refine ⟨by decide, by decide, by decide⟩

/-- the ten positions of a list of length ten -/
theorem list_ten {β : Type} (l : List β) (hl : l.length = 10) :
    ∃ a0 a1 a2 a3 a4 a5 a6 a7 a8 a9, l = [a0, a1, a2, a3, a4, a5, a6, a7, a8, a9] := by
  match l, hl with
  | [a0, a1, a2, a3, a4, a5, a6, a7, a8, a9], _ => exact ⟨a0, a1, a2, a3, a4, a5, a6, a7, a8, a9, rfl⟩
  | [], h | [_], h | [_, _], h | [_, _, _], h | [_, _, _, _], h | [_, _, _, _, _], h | [_, _, _, _, _, _], h
  | [_, _, _, _, _, _, _], h | [_, _, _, _, _, _, _, _], h | [_, _, _, _, _, _, _, _, _], h => simp at h
  | _ :: _ :: _ :: _ :: _ :: _ :: _ :: _ :: _ :: _ :: _ :: _, h => simp at h

/-- **C06_tet2_perms_inverse**: on every row of ten entries (any entry type) the reordering applied on export
    (`_to_meshio_tet2`) followed by the one applied on import (`_from_meshio_tet2`) is the identity, and the other way
    round. -/
theorem C06_tet2_perms_inverse {β : Type} (l : List β) (hl : l.length = 10) :
    (permute tet2ToMeshio l).bind (permute tet2FromMeshio) = some l ∧
    (permute tet2FromMeshio l).bind (permute tet2ToMeshio) = some l := by
  obtain ⟨a0, a1, a2, a3, a4, a5, a6, a7, a8, a9, rfl⟩ := list_ten l hl
  exact ⟨rfl, rfl⟩

/-- hand specification: FrontISTR element 342 / femio `tet2` — position `4 + j` holds the mid node of edge `j` -/
def fistrTet2Edges : List (Nat × Nat) := [(1, 2), (0, 2), (0, 1), (0, 3), (1, 3), (2, 3)]
/-- hand specification: `vtkQuadraticTetra` — position `4 + k` holds the mid node of edge `k` (ends ascending) -/
def vtkTet2Edges : List (Nat × Nat) := [(0, 1), (1, 2), (0, 2), (0, 3), (1, 3), (2, 3)]

/-- **C06_tet2_edges**: the export permutation keeps the four corners in place and puts at VTK position `4 + k` the femio
    mid-edge node of the same edge (FrontISTR's mid-edge table is carried to VTK's). -/
theorem C06_tet2_edges :
    tet2ToMeshio.take 4 = [0, 1, 2, 3] ∧ tet2ToMeshio.length = 10 ∧
    ((List.range 6).all fun k =>
      match tet2ToMeshio[4 + k]? with
      | some p => decide (4 ≤ p) && (fistrTet2Edges[p - 4]? == vtkTet2Edges[k]?)
      | none => false) = true := by
  refine ⟨by decide, by decide, by decide⟩

/-! ## non-vacuity: a mixed mesh (one triangle, one `tet2`) with unsorted sparse node ids -/

def exVtk : VtkIn Nat :=
  { nodes := ⟨[40, 10, 30, 20, 34, 12, 23, 13, 14, 24, 77], [4, 1, 3, 2, 34, 12, 23, 13, 14, 24, 77]⟩
    elems := [[⟨5, 3, [30, 10, 20]⟩], [⟨9, 9, [10, 20, 30, 40, 23, 13, 12, 14, 24, 34]⟩]]
    nodal := [⟨0, 1, ⟨[40, 10, 30, 20, 34, 12, 23, 13, 14, 24, 77], [400, 100, 300, 200, 340, 120, 230, 130, 140, 240, 770]⟩⟩,
              ⟨1, 3, ⟨[40, 10, 30, 20, 34, 12, 23, 13, 14, 24, 77], [0, 0, 0, 0, 0, 0, 0, 0, 0, 0, 0]⟩⟩] }

example : Exportable meshioName tet2ToMeshio exVtk := ⟨by decide, by decide, by decide, by decide⟩
example : exVtk.nodes.ids.Nodup := by decide
-- the triangle addresses positions 2, 1, 3; the tet2 row is permuted (mid nodes 12, 23, 13 = edges 01, 12, 02) and translated;
-- the rank-3 variable is not exported
example : (toMeshio meshioName tet2ToMeshio exVtk).toOption.map (fun o => o.cells.map (fun c => (c.name, c.rows))) =
    some [("triangle".toList, [[2, 1, 3]]), ("tetra10".toList, [[1, 3, 2, 0, 5, 6, 7, 8, 9, 4]])] := by decide
example : (toMeshio meshioName tet2ToMeshio exVtk).toOption.map (fun o => (o.points, o.pointData)) =
    some ([4, 1, 3, 2, 34, 12, 23, 13, 14, 24, 77], [(0, [400, 100, 300, 200, 340, 120, 230, 130, 140, 240, 770])]) := by decide
-- error branch: a dangling node id is a `KeyError`, never a silently wrong position
example : toMeshio meshioName tet2ToMeshio ({ exVtk with elems := [[⟨5, 3, [30, 10, 21]⟩]] } : VtkIn Nat) = .error .key := by decide
example : (permute tet2ToMeshio [10, 20, 30, 40, 23, 13, 12, 14, 24, 34]) = some [10, 20, 30, 40, 12, 23, 13, 14, 24, 34] := by decide

/-! ## histories on one live object (`Model/MeshioHist.lean`): the export is a function of the CURRENT public state

The real export translates node ids with the cached table `nodes.id2index`, not with `nodes.ids`.  `Coherent` (the table is
`enumerate(nodes.ids)`) is evaluated by the harness on the live object before every export of the `history` stream; the
theorems say that every public modifier keeps it, that under it the export of the live object is `toMeshio` of its public
state (so `C06_index_translation`, `C06_point_data`, `C06_export_succeeds` apply to it), hence equals the export of a freshly
constructed object with the same content, and that exports in the middle of a history are invisible. -/

open Femio.MeshioHist

theorem tableLookup_mkTableFrom (n : Nat) (ids : List Id) (i : Id) :
    tableLookup (mkTableFrom n ids) i = (idPos ids i).map (· + n) := by
  induction ids generalizing n with
  | nil => simp [mkTableFrom, tableLookup, idPos]
  | cons a t ih =>
    simp only [mkTableFrom, tableLookup, idPos]
    split
    · simp
    · rw [ih]
      cases idPos t i with
      | none => rfl
      | some k => simp only [Option.map_some]; congr 1; omega

theorem tableLookup_mkTable (ids : List Id) : tableLookup (mkTable ids) = idPos ids := by
  funext i
  rw [mkTable, tableLookup_mkTableFrom]
  cases idPos ids i <;> simp

theorem cellBlocksWith_idPos (typeName : Nat → Option (List Char)) (perm : List Nat) (ids : List Id)
    (bs : EBlocks (List Id)) : cellBlocksWith typeName perm (idPos ids) bs = cellBlocks typeName perm ids bs := by
  induction bs with
  | nil => rfl
  | cons b t ih =>
    have hb : cellBlockWith typeName perm (idPos ids) b = cellBlock typeName perm ids b := rfl
    simp only [cellBlocksWith, cellBlocks, ih, hb]
    rfl

/-- the lookup table of the nodes is `enumerate(nodes.ids)` -/
def Coherent (o : Obj α) : Prop := o.id2index = mkTable o.pub.nodes.ids

/-- **C06_history_export**: when the table is coherent the export of the live object is `toMeshio` of its current public
    state — whatever history produced that state. -/
theorem C06_history_export {typeName : Nat → Option (List Char)} {perm : List Nat} {o : Obj α} (h : Coherent o) :
    exportObj typeName perm o = toMeshio typeName perm o.pub := by
  unfold exportObj toMeshio
  rw [h, tableLookup_mkTable, cellBlocksWith_idPos]
  rfl

theorem step_coherent {cfg : Cfg} {o : Obj α} (op : Op α) (hc : cfg.idsSetterRefreshes = true ∨ op.isSetNodeIds = false)
    (h : Coherent o) : Coherent (step cfg o op) := by
  unfold Coherent at *
  cases op with
  | editNodeData f => exact h
  | setNodeFrame ids d => rfl
  | setNodeIds ids =>
    rcases hc with hc | hc
    · simp [step, hc]
    · simp [Op.isSetNodeIds] at hc
  | editElems f => exact h
  | editNodal f => exact h
  | doExport => exact h

/-- **C06_history_coherent**: every public modifier re-establishes / keeps the table — for the repaired `ids` setter all
    histories, for the upstream one the histories that do not use it. -/
theorem C06_history_coherent {cfg : Cfg} (ops : List (Op α)) {o : Obj α}
    (hc : cfg.idsSetterRefreshes = true ∨ ∀ op ∈ ops, op.isSetNodeIds = false) (h : Coherent o) :
    Coherent (run cfg o ops) := by
  induction ops generalizing o with
  | nil => exact h
  | cons op t ih =>
    have h1 : Coherent (step cfg o op) :=
      step_coherent op (hc.imp id fun hall => hall op (by simp)) h
    exact ih (hc.imp id fun hall op' hop' => hall op' (List.mem_cons_of_mem _ hop')) h1

/-- **C06_export_after_history**: after ANY history of public modifications (and exports) on a freshly constructed object the
    export is `toMeshio` of the object's current public state, which is also what an independently constructed fresh object
    with the same content exports. -/
theorem C06_export_after_history {typeName : Nat → Option (List Char)} {perm : List Nat} {cfg : Cfg} (m : VtkIn α)
    (ops : List (Op α)) (hc : cfg.idsSetterRefreshes = true ∨ ∀ op ∈ ops, op.isSetNodeIds = false) :
    exportObj typeName perm (run cfg (fresh m) ops) = toMeshio typeName perm (run cfg (fresh m) ops).pub ∧
    exportObj typeName perm (run cfg (fresh m) ops) = exportObj typeName perm (fresh (run cfg (fresh m) ops).pub) := by
  have h1 := C06_history_export (typeName := typeName) (perm := perm) (C06_history_coherent ops hc (o := fresh m) rfl)
  have h2 := C06_history_export (typeName := typeName) (perm := perm) (o := fresh (run cfg (fresh m) ops).pub) rfl
  exact ⟨h1, h1.trans h2.symm⟩

/-- **C06_exports_invisible**: exports in the middle of a history do not change the object — removing them from the history
    gives the same final object (so the second of two exports writes what the first wrote, and an export after
    `[export, modification]` writes what it writes after `[modification]`). -/
theorem C06_exports_invisible {cfg : Cfg} (ops : List (Op α)) (o : Obj α) :
    run cfg o (ops.filter fun op => !op.isExport) = run cfg o ops := by
  induction ops generalizing o with
  | nil => rfl
  | cons op t ih =>
    cases op with
    | doExport => simpa [run, step, Op.isExport] using ih o
    | editNodeData f => simpa [run, Op.isExport] using ih (step cfg o (.editNodeData f))
    | setNodeFrame ids d => simpa [run, Op.isExport] using ih (step cfg o (.setNodeFrame ids d))
    | setNodeIds ids => simpa [run, Op.isExport] using ih (step cfg o (.setNodeIds ids))
    | editElems f => simpa [run, Op.isExport] using ih (step cfg o (.editElems f))
    | editNodal f => simpa [run, Op.isExport] using ih (step cfg o (.editNodal f))

/-- a four-node mesh with one triangle (ids 1..4 stored ascending) -/
def exHist : VtkIn Nat := { nodes := ⟨[1, 2, 3, 4], [10, 20, 30, 40]⟩, elems := [[⟨1, 3, [1, 2, 3]⟩]], nodal := [] }

/-- the history of finding `C06-ids-setter-stale-id2index`: the nodes are renumbered 4, 3, 2, 1 through the `ids` setter and
    the triangle is rewritten accordingly (the same three nodes) -/
def exRenumber : List (Op Nat) := [.setNodeIds [4, 3, 2, 1], .editElems fun _ => [[⟨1, 3, [4, 3, 2]⟩]]]

/-- **C06_ids_setter_counterexample**: with the upstream `ids` setter the export after that history addresses the positions
    of the OLD ids (`[3, 2, 1]`), whereas the mesh the object describes (and the repaired configuration) has the triangle on
    positions `[0, 1, 2]`. -/
theorem C06_ids_setter_counterexample :
    (exportObj meshioName tet2ToMeshio (run Cfg.upstream (fresh exHist) exRenumber)).toOption.map (fun o => o.cells.map (·.rows))
      = some [[[3, 2, 1]]] ∧
    (toMeshio meshioName tet2ToMeshio (run Cfg.upstream (fresh exHist) exRenumber).pub).toOption.map (fun o => o.cells.map (·.rows))
      = some [[[0, 1, 2]]] ∧
    (exportObj meshioName tet2ToMeshio (run Cfg.fixed (fresh exHist) exRenumber)).toOption.map (fun o => o.cells.map (·.rows))
      = some [[[0, 1, 2]]] := by
  refine ⟨by decide, by decide, by decide⟩

-- non-vacuity: a history with every kind of step on the mixed example mesh; the hypothesis of `C06_export_after_history`
-- holds for it under both configurations when the `ids` setter is not used, and the export is the one of the final state
def exOps : List (Op Nat) :=
  [.doExport, .editNodeData (fun d => d.map (· + 1)), .doExport, .doExport,
   .setNodeFrame [10, 12, 13, 14, 20, 23, 24, 30, 34, 40, 77] [1, 12, 13, 14, 2, 23, 24, 3, 34, 4, 77],
   .editElems (fun bs => bs.reverse), .editNodal (fun vs => vs.take 1), .doExport]
example : ∀ op ∈ exOps, op.isSetNodeIds = false := by decide
example : (exportObj meshioName tet2ToMeshio (run Cfg.upstream (fresh exVtk) exOps)).toOption.map
      (fun o => (o.points, o.cells.map (fun c => (c.name, c.rows)))) =
    some ([1, 12, 13, 14, 2, 23, 24, 3, 34, 4, 77],
          [("tetra10".toList, [[0, 4, 7, 9, 1, 5, 2, 3, 6, 8]]), ("triangle".toList, [[7, 0, 4]])]) := by decide
example : Coherent (run Cfg.upstream (fresh exVtk) exOps) := by unfold Coherent; decide

end Femio.C06
