import Femio.Model.NpyKeys

/-! C05 — the npz key scheme round-trips (`from_dict ∘ to_dict = id`), for every attribute collection whose
names and element types contain no `'/'`.  Property theorems for `Cfg.fixed`; `decide`d counterexamples
for the pinned upstream commit (F6a, F6e). -/
namespace Femio.C05K

theorem splitOn_noSep (sep : Char) (f : Str) (h : sep ∉ f) : splitOn sep f = [f] := by
  induction f with
  | nil => rfl
  | cons c t ih =>
    have hc : c ≠ sep := fun e => h (e ▸ List.mem_cons_self)
    have ht : sep ∉ t := fun m => h (List.mem_cons_of_mem _ m)
    simp [splitOn, hc, ih ht]

theorem splitOn_append (sep : Char) (f rest : Str) (h : sep ∉ f) :
    splitOn sep (f ++ sep :: rest) = f :: splitOn sep rest := by
  induction f with
  | nil => simp [splitOn]
  | cons c t ih =>
    have hc : c ≠ sep := fun e => h (e ▸ List.mem_cons_self)
    have ht : sep ∉ t := fun m => h (List.mem_cons_of_mem _ m)
    simp [splitOn, hc, ih ht]

/-- `sep.join(fields).split(sep) = fields` for fields that do not contain the separator -/
theorem split_join (sep : Char) (fs : List Str) (hne : fs ≠ []) (h : ∀ f ∈ fs, sep ∉ f) :
    splitOn sep (joinSep sep fs) = fs := by
  induction fs with
  | nil => exact absurd rfl hne
  | cons f t ih =>
    cases t with
    | nil => simpa [joinSep] using splitOn_noSep sep f (h f (by simp))
    | cons g t =>
      have := ih (by simp) (fun x hx => h x (List.mem_cons_of_mem _ hx))
      simp only [joinSep]
      rw [splitOn_append sep f _ (h f (by simp)), this]

theorem joinSep_snoc (pre : List Str) (x : Str) : ∃ p, joinSep '/' (pre ++ [x]) = p ++ x := by
  induction pre with
  | nil => exact ⟨[], rfl⟩
  | cons f t ih =>
    obtain ⟨p, hp⟩ := ih
    cases t with
    | nil => exact ⟨f ++ ['/'], by simp [joinSep]⟩
    | cons g t => exact ⟨f ++ '/' :: p, by simp only [List.cons_append, joinSep] at hp ⊢; rw [hp]; simp⟩

theorem ids_suffix (pre : List Str) : sIds.isSuffixOf (joinSep '/' (pre ++ [sIds])) = true := by
  obtain ⟨p, hp⟩ := joinSep_snoc pre sIds
  rw [hp, List.isSuffixOf_iff_suffix]; exact List.suffix_append _ _

theorem data_suffix (pre : List Str) : sData.isSuffixOf (joinSep '/' (pre ++ [sData])) = true := by
  obtain ⟨p, hp⟩ := joinSep_snoc pre sData
  rw [hp, List.isSuffixOf_iff_suffix]; exact List.suffix_append _ _

theorem ids_not_suffix_of_data (pre : List Str) : sIds.isSuffixOf (joinSep '/' (pre ++ [sData])) = false := by
  obtain ⟨p, hp⟩ := joinSep_snoc pre sData
  rw [hp]
  apply Bool.eq_false_iff.mpr
  rw [ne_eq, List.isSuffixOf_iff_suffix]
  rintro ⟨q, hq⟩
  have := congrArg List.reverse hq
  simp [sIds, sData] at this

/-- **C05_keys_attr_roundtrip**: `FEMAttribute.from_dict(to_dict(prefix))` returns the saved arrays, for every prefix. -/
theorem C05_keys_attr_roundtrip (pre : List Str) (a : Attr) : attrFromDict Cfg.fixed (attrToDict pre a) = some a := by
  have h1 : sIds <:+ joinSep '/' (pre ++ [sIds]) := List.isSuffixOf_iff_suffix.mp (ids_suffix pre)
  have h2 : sData <:+ joinSep '/' (pre ++ [sData]) := List.isSuffixOf_iff_suffix.mp (data_suffix pre)
  have h3 : ¬ sIds <:+ joinSep '/' (pre ++ [sData]) := fun h => by
    have := ids_not_suffix_of_data pre
    rw [List.isSuffixOf_iff_suffix.mpr h] at this; cases this
  simp [attrFromDict, attrToDict, isIdsKey, isDataKey, Cfg.fixed, h1, h2, h3]

theorem not_slash_ids : '/' ∉ sIds := by decide
theorem not_slash_data : '/' ∉ sData := by decide

theorem firstComp_key (n : Str) (rest : List Str) (hn : '/' ∉ n) (hr : ∀ f ∈ rest, '/' ∉ f) :
    firstComp (joinSep '/' (n :: rest)) = n := by
  unfold firstComp
  rw [split_join '/' (n :: rest) (by simp) (by
    intro f hf; rcases List.mem_cons.mp hf with h | h
    · rw [h]; exact hn
    · exact hr f h)]
  rfl

theorem entriesOfName_attr (n name : Str) (pre : List Str) (a : Attr) (hn : '/' ∉ n) (hp : ∀ f ∈ pre, '/' ∉ f) :
    entriesOfName (attrToDict (n :: pre) a) name = if n = name then attrToDict (n :: pre) a else [] := by
  have h1 : firstComp (joinSep '/' (n :: (pre ++ [sIds]))) = n :=
    firstComp_key n (pre ++ [sIds]) hn (by
      intro f hf; rcases List.mem_append.mp hf with h | h
      · exact hp f h
      · rw [List.mem_singleton.mp h]; exact not_slash_ids)
  have h2 : firstComp (joinSep '/' (n :: (pre ++ [sData]))) = n :=
    firstComp_key n (pre ++ [sData]) hn (by
      intro f hf; rcases List.mem_append.mp hf with h | h
      · exact hp f h
      · rw [List.mem_singleton.mp h]; exact not_slash_data)
  by_cases hnn : n = name
  · subst hnn; simp [entriesOfName, attrToDict, h1, h2]
  · simp [entriesOfName, attrToDict, h1, h2, hnn]

theorem entriesOfName_append (d1 d2 : Dict) (name : Str) :
    entriesOfName (d1 ++ d2) name = entriesOfName d1 name ++ entriesOfName d2 name := by
  simp [entriesOfName]

/-- **C05_keys_roundtrip** (a collection of nodal attributes / constraints): for pairwise distinct names
without `'/'`, loading the saved dict gives, under every name, exactly the arrays saved for it. -/
theorem C05_keys_roundtrip (c : List (Str × Attr)) (hnd : (c.map Prod.fst).Nodup) (hs : ∀ na ∈ c, '/' ∉ na.1)
    (name : Str) (a : Attr) (hmem : (name, a) ∈ c) : collLookup Cfg.fixed (collToDict c) name = some a := by
  have key : entriesOfName (collToDict c) name = attrToDict [name] a := by
    induction c with
    | nil => simp at hmem
    | cons na t ih =>
      obtain ⟨n', a'⟩ := na
      simp only [List.map_cons, List.nodup_cons] at hnd
      simp only [collToDict, List.flatMap_cons] at ih ⊢
      rw [entriesOfName_append, entriesOfName_attr n' name [] a' (hs (n', a') (by simp)) (by simp)]
      rcases List.mem_cons.mp hmem with h | h
      · cases h
        simp only [if_true]
        have : entriesOfName (t.flatMap fun na => attrToDict [na.1] na.2) name = [] := by
          have hnot : name ∉ t.map Prod.fst := hnd.1
          clear ih hmem
          induction t with
          | nil => rfl
          | cons nb t2 ih2 =>
            simp only [List.flatMap_cons]
            rw [entriesOfName_append, entriesOfName_attr nb.1 name [] nb.2 (hs nb (by simp)) (by simp)]
            have hne : nb.1 ≠ name := fun e => hnot (by simp [e.symm])
            simp only [hne, if_false, List.nil_append]
            exact ih2 (by
              simp only [List.map_cons, List.nodup_cons] at hnd
              exact ⟨fun h => hnd.1 (List.mem_cons_of_mem _ h), hnd.2.2⟩) (fun x hx => hs x (by
                rcases List.mem_cons.mp hx with h | h
                · rw [h]; simp
                · simp [h])) (fun h => hnot (List.mem_cons_of_mem _ h))
        rw [this]; simp
      · have hne : n' ≠ name := fun e => hnd.1 (by rw [e]; exact List.mem_map_of_mem (f := Prod.fst) h)
        simp only [hne, if_false, List.nil_append]
        exact ih hnd.2 (fun x hx => hs x (List.mem_cons_of_mem _ hx)) h
  unfold collLookup
  rw [key]
  exact C05_keys_attr_roundtrip [name] a

def sTet : Str := ['t', 'e', 't']
def sTet2 : Str := ['t', 'e', 't', '2']
def sSolids : Str := ['s', 'o', 'l', 'i', 'd', 's']


/-! ### element-type level -/

theorem filter_flatMap_label {α : Type} (c : List (Str × α)) (f : Str × α → Dict) (p : (Str × Nat) → Bool)
    (lab : (Str × Nat) → Option Str) (name : Str)
    (hp : ∀ e, p e = (lab e == some name))
    (hlab : ∀ x ∈ c, ∀ e ∈ f x, lab e = some x.1)
    (hnd : (c.map Prod.fst).Nodup) (a : α) (hmem : (name, a) ∈ c) :
    (c.flatMap f).filter p = f (name, a) := by
  have hall : ∀ x ∈ c, (f x).filter p = if x.1 = name then f x else [] := by
    intro x hx
    by_cases hxn : x.1 = name
    · simp only [hxn, if_true]
      apply List.filter_eq_self.mpr
      intro e he; rw [hp, hlab x hx e he, hxn]; simp
    · simp only [hxn, if_false]
      apply List.filter_eq_nil_iff.mpr
      intro e he; rw [hp, hlab x hx e he]; simp [hxn]
  induction c with
  | nil => simp at hmem
  | cons x t ih =>
    simp only [List.map_cons, List.nodup_cons] at hnd
    simp only [List.flatMap_cons, List.filter_append]
    rw [hall x (by simp)]
    rcases List.mem_cons.mp hmem with h | h
    · subst h
      simp only [if_true]
      have : (t.flatMap f).filter p = [] := by
        apply List.filter_eq_nil_iff.mpr
        intro e he
        obtain ⟨y, hy, hey⟩ := List.mem_flatMap.mp he
        rw [hp, hlab y (List.mem_cons_of_mem _ hy) e hey]
        have : y.1 ≠ name := fun e' => hnd.1 (by rw [← e']; exact List.mem_map.mpr ⟨y, hy, rfl⟩)
        simp [this]
      rw [this]; simp
    · have hne : x.1 ≠ name := fun e => hnd.1 (by rw [e]; exact List.mem_map.mpr ⟨(name, a), h, rfl⟩)
      simp only [hne, if_false, List.nil_append]
      exact ih (fun y hy => hlab y (List.mem_cons_of_mem _ hy)) hnd.2 h (fun y hy => hall y (List.mem_cons_of_mem _ hy))

theorem extractType_key (pre : List Str) (t x : Str) (hpre : pre.length ≤ 1) (hp : ∀ f ∈ pre, '/' ∉ f) (ht : '/' ∉ t)
    (hx : '/' ∉ x) : extractType (joinSep '/' (pre ++ [t, x])) = some t := by
  unfold extractType
  rw [split_join '/' (pre ++ [t, x]) (by simp) (by
    intro f hf
    rcases List.mem_append.mp hf with h | h
    · exact hp f h
    · simp only [List.mem_cons, List.mem_nil_iff, or_false] at h
      rcases h with h | h <;> rw [h] <;> assumption)]
  match pre, hpre with
  | [], _ => rfl
  | [_], _ => rfl

/-- **C05_keys_elements_roundtrip**: the element file (`prefix=None`) and every elemental variable
(`prefix=<name>`): for pairwise distinct element types without `'/'` — `tet` next to `tet2`, a variable whose
name contains a type name, … — the attribute loaded for type `t` is exactly the one saved for it. -/
theorem C05_keys_elements_roundtrip (pre : List Str) (e : EAttr) (hpre : pre.length ≤ 1) (hp : ∀ f ∈ pre, '/' ∉ f)
    (hnd : (e.map Prod.fst).Nodup) (hs : ∀ ta ∈ e, '/' ∉ ta.1) (t : Str) (a : Attr) (hmem : (t, a) ∈ e) :
    eattrLookup Cfg.fixed (eattrToDict pre e) t = some a := by
  unfold eattrLookup entriesOfType eattrToDict
  have := filter_flatMap_label e (fun ta => attrToDict (pre ++ [ta.1]) ta.2)
    (fun en => if Cfg.fixed.typeByComponent then extractType en.1 == some t else isInfix t en.1)
    (fun en => extractType en.1) t (by intro en; simp [Cfg.fixed]) (by
      intro x hx en hen
      simp only [attrToDict, List.mem_cons, List.mem_nil_iff, or_false] at hen
      rcases hen with h | h <;> rw [h] <;> simp only [List.append_assoc, List.cons_append, List.nil_append]
      · exact extractType_key pre x.1 sIds hpre hp (hs x hx) not_slash_ids
      · exact extractType_key pre x.1 sData hpre hp (hs x hx) not_slash_data) hnd a hmem
  rw [this]
  exact C05_keys_attr_roundtrip (pre ++ [t]) a

/-- **C05_keys_elemental_collection_roundtrip**: a collection of elemental variables — first split by name,
then by element type. -/
theorem C05_keys_elemental_collection_roundtrip (c : List (Str × EAttr)) (hnd : (c.map Prod.fst).Nodup)
    (hs : ∀ ne ∈ c, '/' ∉ ne.1 ∧ (ne.2.map Prod.fst).Nodup ∧ ∀ ta ∈ ne.2, '/' ∉ ta.1)
    (name : Str) (e : EAttr) (hmem : (name, e) ∈ c) (t : Str) (a : Attr) (hta : (t, a) ∈ e) :
    ecollLookup Cfg.fixed (ecollToDict c) name t = some a := by
  unfold ecollLookup entriesOfName ecollToDict
  have := filter_flatMap_label c (fun ne => eattrToDict [ne.1] ne.2) (fun en => firstComp en.1 == name)
    (fun en => some (firstComp en.1)) name (by intro en; simp) (by
      intro x hx en hen
      simp only [eattrToDict, List.mem_flatMap] at hen
      obtain ⟨ta, hta', hen⟩ := hen
      simp only [attrToDict, List.mem_cons, List.mem_nil_iff, or_false] at hen
      have hx' := hs x hx
      rcases hen with h | h <;> rw [h] <;> simp only [List.cons_append, List.nil_append] <;> congr 1
      · exact firstComp_key x.1 [ta.1, sIds] hx'.1 (by
          intro f hf; simp only [List.mem_cons, List.mem_nil_iff, or_false] at hf
          rcases hf with h | h <;> rw [h]
          · exact hx'.2.2 ta hta'
          · exact not_slash_ids)
      · exact firstComp_key x.1 [ta.1, sData] hx'.1 (by
          intro f hf; simp only [List.mem_cons, List.mem_nil_iff, or_false] at hf
          rcases hf with h | h <;> rw [h]
          · exact hx'.2.2 ta hta'
          · exact not_slash_data)) hnd e hmem
  rw [this]
  have hx' := hs (name, e) hmem
  exact C05_keys_elements_roundtrip [name] e (by simp) (by simpa using hx'.1) hx'.2.1 hx'.2.2 t a hta

/-- non-vacuity: an elemental variable called `hexa` on a mesh with `tet`, `tet2` and `hex` blocks -/
example : ecollLookup Cfg.fixed (ecollToDict [(['h', 'e', 'x', 'a'], [(sTet, ⟨1, 2⟩), (sTet2, ⟨3, 4⟩), (['h', 'e', 'x'], ⟨5, 6⟩)])])
    ['h', 'e', 'x', 'a'] sTet2 = some ⟨3, 4⟩ := by decide

/-! ### the pinned upstream commit -/
/-- F6a: a mesh with `tet` and `tet2` blocks saves, but `tet` collects the four keys of both types and cannot be loaded -/
theorem C05_keys_counterexample_substring_type :
    eattrLookup Cfg.upstream (eattrToDict [] [(sTet, ⟨1, 2⟩), (sTet2, ⟨3, 4⟩)]) sTet = none ∧
    eattrLookup Cfg.fixed (eattrToDict [] [(sTet, ⟨1, 2⟩), (sTet2, ⟨3, 4⟩)]) sTet = some ⟨1, 2⟩ := by decide

/-- F6e: a variable called `solids` — both of its keys contain `ids` -/
theorem C05_keys_counterexample_ids_in_name :
    collLookup Cfg.upstream (collToDict [(sSolids, ⟨1, 2⟩)]) sSolids = none ∧
    collLookup Cfg.fixed (collToDict [(sSolids, ⟨1, 2⟩)]) sSolids = some ⟨1, 2⟩ := by decide

end Femio.C05K
