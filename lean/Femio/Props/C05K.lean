import Femio.Model.NpyKeys

/-! C05 — the npz key scheme round-trips (`from_dict ∘ to_dict = id`), for every attribute collection whose
names and element types contain no `'/'`.  Property theorems for `Cfg.fixed`; `decide`d counterexamples
for the pinned upstream commit (F6a, F6e) and for the two-key scheme without a `time_series` key (F6d). -/
namespace Femio.C05K

theorem splitOn_noSep (sep : Char) (f : Str) (h : sep ∉ f) : splitOn sep f = [f] := by
  induction f with
  | nil => rfl
  | cons c t ih =>
    have hc : c ≠ sep := fun e => h (e ▸ List.mem_cons_self)
    have ht : sep ∉ t := fun m => h (List.mem_cons_of_mem _ m)
    simp [splitOn, hc, ih ht]

theorem splitOn_append (sep : Char) (f rest : Str) (h : sep ∉ f) :
    splitOn sep (f ++ sep :: rest) = f :: splitOn sep rest := by
  induction f with
  | nil => simp [splitOn]
  | cons c t ih =>
    have hc : c ≠ sep := fun e => h (e ▸ List.mem_cons_self)
    have ht : sep ∉ t := fun m => h (List.mem_cons_of_mem _ m)
    simp [splitOn, hc, ih ht]

/-- `sep.join(fields).split(sep) = fields` for fields that do not contain the separator -/
theorem split_join (sep : Char) (fs : List Str) (hne : fs ≠ []) (h : ∀ f ∈ fs, sep ∉ f) :
    splitOn sep (joinSep sep fs) = fs := by
  induction fs with
  | nil => exact absurd rfl hne
  | cons f t ih =>
    cases t with
    | nil => simpa [joinSep] using splitOn_noSep sep f (h f (by simp))
    | cons g t =>
      have := ih (by simp) (fun x hx => h x (List.mem_cons_of_mem _ hx))
      simp only [joinSep]
      rw [splitOn_append sep f _ (h f (by simp)), this]

theorem joinSep_snoc (pre : List Str) (x : Str) : ∃ p, joinSep '/' (pre ++ [x]) = p ++ x := by
  induction pre with
  | nil => exact ⟨[], rfl⟩
  | cons f t ih =>
    obtain ⟨p, hp⟩ := ih
    cases t with
    | nil => exact ⟨f ++ ['/'], by simp [joinSep]⟩
    | cons g t => exact ⟨f ++ '/' :: p, by simp only [List.cons_append, joinSep] at hp ⊢; rw [hp]; simp⟩

theorem key_suffix (pre : List Str) (x : Str) : x.isSuffixOf (joinSep '/' (pre ++ [x])) = true := by
  obtain ⟨p, hp⟩ := joinSep_snoc pre x
  rw [hp, List.isSuffixOf_iff_suffix]; exact List.suffix_append _ _

theorem key_not_suffix (pre : List Str) (x y : Str) (h : ∀ p q : Str, q ++ x ≠ p ++ y) :
    x.isSuffixOf (joinSep '/' (pre ++ [y])) = false := by
  obtain ⟨p, hp⟩ := joinSep_snoc pre y
  rw [hp]
  apply Bool.eq_false_iff.mpr
  rw [ne_eq, List.isSuffixOf_iff_suffix]
  rintro ⟨q, hq⟩
  exact h p q hq

theorem ids_ne_data (p q : Str) : q ++ sIds ≠ p ++ sData := by
  intro hq
  have := congrArg List.reverse hq
  simp [sIds, sData] at this

theorem ts_ne_ids (p q : Str) : q ++ sTs ≠ p ++ sIds := by
  intro hq
  have := congrArg List.reverse hq
  simp [sIds, sTs] at this

theorem ts_ne_data (p q : Str) : q ++ sTs ≠ p ++ sData := by
  intro hq
  have := congrArg List.reverse hq
  simp [sData, sTs] at this

set_option linter.unusedSimpArgs false in
/-- **C05_keys_attr_roundtrip**: `FEMAttribute.from_dict(to_dict(prefix))` returns the saved arrays and the
`time_series` flag, for every prefix — for a time series (three keys) and for every other attribute (two keys). -/
theorem C05_keys_attr_roundtrip (pre : List Str) (a : Attr) : attrFromDict Cfg.fixed (attrToDict pre a) = some a := by
  have h1 := List.isSuffixOf_iff_suffix.mp (key_suffix pre sIds)
  have h2 := List.isSuffixOf_iff_suffix.mp (key_suffix pre sData)
  have h3 := List.isSuffixOf_iff_suffix.mp (key_suffix pre sTs)
  have nsuf : ∀ x y : Str, x.isSuffixOf (joinSep '/' (pre ++ [y])) = false → ¬ x <:+ joinSep '/' (pre ++ [y]) := by
    intro x y h hs
    rw [List.isSuffixOf_iff_suffix.mpr hs] at h; cases h
  have h4 := nsuf _ _ (key_not_suffix pre sIds sData ids_ne_data)
  have h5 := nsuf _ _ (key_not_suffix pre sTs sIds ts_ne_ids)
  have h6 := nsuf _ _ (key_not_suffix pre sTs sData ts_ne_data)
  obtain ⟨i, d, ts⟩ := a
  cases ts <;>
    simp [attrFromDict, attrToDict, isIdsKey, isDataKey, isTsKey, Cfg.fixed, h1, h2, h3, h4, h5, h6]

/-- **C05_keys_time_series_flag_roundtrip**: an attribute saved with the flag comes back with the flag (three keys), one
saved without comes back without (the two keys of the old scheme, nothing else: files of other attributes do not
change), for every prefix — hence for nodal variables (`[name]`) and per element type (`[name, type]`). -/
theorem C05_keys_time_series_flag_roundtrip (pre : List Str) (i d : Nat) :
    attrFromDict Cfg.fixed (attrToDict pre ⟨i, d, true⟩) = some ⟨i, d, true⟩ ∧
    attrFromDict Cfg.fixed (attrToDict pre ⟨i, d, false⟩) = some ⟨i, d, false⟩ ∧
    (attrToDict pre ⟨i, d, true⟩).map Prod.fst =
      [joinSep '/' (pre ++ [sIds]), joinSep '/' (pre ++ [sData]), joinSep '/' (pre ++ [sTs])] ∧
    (attrToDict pre ⟨i, d, false⟩).map Prod.fst = [joinSep '/' (pre ++ [sIds]), joinSep '/' (pre ++ [sData])] :=
  ⟨C05_keys_attr_roundtrip pre _, C05_keys_attr_roundtrip pre _, by simp [attrToDict], by simp [attrToDict]⟩

example : attrFromDict Cfg.fixed (attrToDict [['t', 's'], ['t', 'e', 't']] ⟨4, 5, true⟩) = some ⟨4, 5, true⟩ := by decide

theorem not_slash_ids : '/' ∉ sIds := by decide
theorem not_slash_data : '/' ∉ sData := by decide
theorem not_slash_ts : '/' ∉ sTs := by decide

/-- the last component of every key `to_dict` writes -/
def kinds : List Str := [sIds, sData, sTs]

theorem kinds_no_slash (x : Str) (hx : x ∈ kinds) : '/' ∉ x := by
  simp only [kinds, List.mem_cons, List.mem_nil_iff, or_false] at hx
  rcases hx with h | h | h <;> rw [h] <;> decide

theorem attrToDict_key (pre : List Str) (a : Attr) (e : Str × Nat) (he : e ∈ attrToDict pre a) :
    ∃ x, x ∈ kinds ∧ e.1 = joinSep '/' (pre ++ [x]) := by
  obtain ⟨i, d, ts⟩ := a
  cases ts <;> simp only [attrToDict, if_true, if_false, List.append_nil, List.cons_append, List.nil_append,
    List.mem_cons, List.mem_nil_iff, or_false, Bool.false_eq_true] at he
  · rcases he with h | h <;> rw [h]
    · exact ⟨sIds, by simp [kinds], rfl⟩
    · exact ⟨sData, by simp [kinds], rfl⟩
  · rcases he with h | h | h <;> rw [h]
    · exact ⟨sIds, by simp [kinds], rfl⟩
    · exact ⟨sData, by simp [kinds], rfl⟩
    · exact ⟨sTs, by simp [kinds], rfl⟩

theorem firstComp_key (n : Str) (rest : List Str) (hn : '/' ∉ n) (hr : ∀ f ∈ rest, '/' ∉ f) :
    firstComp (joinSep '/' (n :: rest)) = n := by
  unfold firstComp
  rw [split_join '/' (n :: rest) (by simp) (by
    intro f hf; rcases List.mem_cons.mp hf with h | h
    · rw [h]; exact hn
    · exact hr f h)]
  rfl

theorem entriesOfName_attr (n name : Str) (pre : List Str) (a : Attr) (hn : '/' ∉ n) (hp : ∀ f ∈ pre, '/' ∉ f) :
    entriesOfName (attrToDict (n :: pre) a) name = if n = name then attrToDict (n :: pre) a else [] := by
  have hfc : ∀ e ∈ attrToDict (n :: pre) a, firstComp e.1 = n := by
    intro e he
    obtain ⟨x, hx, hk⟩ := attrToDict_key (n :: pre) a e he
    rw [hk]
    exact firstComp_key n (pre ++ [x]) hn (by
      intro f hf; rcases List.mem_append.mp hf with h | h
      · exact hp f h
      · rw [List.mem_singleton.mp h]; exact kinds_no_slash x hx)
  unfold entriesOfName
  by_cases hnn : n = name
  · subst hnn
    simp only [if_true]
    apply List.filter_eq_self.mpr
    intro e he; rw [hfc e he]; simp
  · simp only [hnn, if_false]
    apply List.filter_eq_nil_iff.mpr
    intro e he; rw [hfc e he]; simp [hnn]

theorem entriesOfName_append (d1 d2 : Dict) (name : Str) :
    entriesOfName (d1 ++ d2) name = entriesOfName d1 name ++ entriesOfName d2 name := by
  simp [entriesOfName]

/-- **C05_keys_roundtrip** (a collection of nodal attributes / constraints): for pairwise distinct names
without `'/'`, loading the saved dict gives, under every name, exactly the arrays saved for it. -/
theorem C05_keys_roundtrip (c : List (Str × Attr)) (hnd : (c.map Prod.fst).Nodup) (hs : ∀ na ∈ c, '/' ∉ na.1)
    (name : Str) (a : Attr) (hmem : (name, a) ∈ c) : collLookup Cfg.fixed (collToDict c) name = some a := by
  have key : entriesOfName (collToDict c) name = attrToDict [name] a := by
    induction c with
    | nil => simp at hmem
    | cons na t ih =>
      obtain ⟨n', a'⟩ := na
      simp only [List.map_cons, List.nodup_cons] at hnd
      simp only [collToDict, List.flatMap_cons] at ih ⊢
      rw [entriesOfName_append, entriesOfName_attr n' name [] a' (hs (n', a') (by simp)) (by simp)]
      rcases List.mem_cons.mp hmem with h | h
      · cases h
        simp only [if_true]
        have : entriesOfName (t.flatMap fun na => attrToDict [na.1] na.2) name = [] := by
          have hnot : name ∉ t.map Prod.fst := hnd.1
          clear ih hmem
          induction t with
          | nil => rfl
          | cons nb t2 ih2 =>
            simp only [List.flatMap_cons]
            rw [entriesOfName_append, entriesOfName_attr nb.1 name [] nb.2 (hs nb (by simp)) (by simp)]
            have hne : nb.1 ≠ name := fun e => hnot (by simp [e.symm])
            simp only [hne, if_false, List.nil_append]
            exact ih2 (by
              simp only [List.map_cons, List.nodup_cons] at hnd
              exact ⟨fun h => hnd.1 (List.mem_cons_of_mem _ h), hnd.2.2⟩) (fun x hx => hs x (by
                rcases List.mem_cons.mp hx with h | h
                · rw [h]; simp
                · simp [h])) (fun h => hnot (List.mem_cons_of_mem _ h))
        rw [this]; simp
      · have hne : n' ≠ name := fun e => hnd.1 (by rw [e]; exact List.mem_map_of_mem (f := Prod.fst) h)
        simp only [hne, if_false, List.nil_append]
        exact ih hnd.2 (fun x hx => hs x (List.mem_cons_of_mem _ hx)) h
  unfold collLookup
  rw [key]
  exact C05_keys_attr_roundtrip [name] a

def sTet : Str := ['t', 'e', 't']
def sTet2 : Str := ['t', 'e', 't', '2']
def sSolids : Str := ['s', 'o', 'l', 'i', 'd', 's']


/-! ### element-type level -/

theorem filter_flatMap_label {α : Type} (c : List (Str × α)) (f : Str × α → Dict) (p : (Str × Nat) → Bool)
    (lab : (Str × Nat) → Option Str) (name : Str)
    (hp : ∀ e, p e = (lab e == some name))
    (hlab : ∀ x ∈ c, ∀ e ∈ f x, lab e = some x.1)
    (hnd : (c.map Prod.fst).Nodup) (a : α) (hmem : (name, a) ∈ c) :
    (c.flatMap f).filter p = f (name, a) := by
  have hall : ∀ x ∈ c, (f x).filter p = if x.1 = name then f x else [] := by
    intro x hx
    by_cases hxn : x.1 = name
    · simp only [hxn, if_true]
      apply List.filter_eq_self.mpr
      intro e he; rw [hp, hlab x hx e he, hxn]; simp
    · simp only [hxn, if_false]
      apply List.filter_eq_nil_iff.mpr
      intro e he; rw [hp, hlab x hx e he]; simp [hxn]
  induction c with
  | nil => simp at hmem
  | cons x t ih =>
    simp only [List.map_cons, List.nodup_cons] at hnd
    simp only [List.flatMap_cons, List.filter_append]
    rw [hall x (by simp)]
    rcases List.mem_cons.mp hmem with h | h
    · subst h
      simp only [if_true]
      have : (t.flatMap f).filter p = [] := by
        apply List.filter_eq_nil_iff.mpr
        intro e he
        obtain ⟨y, hy, hey⟩ := List.mem_flatMap.mp he
        rw [hp, hlab y (List.mem_cons_of_mem _ hy) e hey]
        have : y.1 ≠ name := fun e' => hnd.1 (by rw [← e']; exact List.mem_map.mpr ⟨y, hy, rfl⟩)
        simp [this]
      rw [this]; simp
    · have hne : x.1 ≠ name := fun e => hnd.1 (by rw [e]; exact List.mem_map.mpr ⟨(name, a), h, rfl⟩)
      simp only [hne, if_false, List.nil_append]
      exact ih (fun y hy => hlab y (List.mem_cons_of_mem _ hy)) hnd.2 h (fun y hy => hall y (List.mem_cons_of_mem _ hy))

theorem extractType_key (pre : List Str) (t x : Str) (hpre : pre.length ≤ 1) (hp : ∀ f ∈ pre, '/' ∉ f) (ht : '/' ∉ t)
    (hx : '/' ∉ x) : extractType (joinSep '/' (pre ++ [t, x])) = some t := by
  unfold extractType
  rw [split_join '/' (pre ++ [t, x]) (by simp) (by
    intro f hf
    rcases List.mem_append.mp hf with h | h
    · exact hp f h
    · simp only [List.mem_cons, List.mem_nil_iff, or_false] at h
      rcases h with h | h <;> rw [h] <;> assumption)]
  match pre, hpre with
  | [], _ => rfl
  | [_], _ => rfl

/-- **C05_keys_elements_roundtrip**: the element file (`prefix=None`) and every elemental variable
(`prefix=<name>`): for pairwise distinct element types without `'/'` — `tet` next to `tet2`, a variable whose
name contains a type name, … — the attribute loaded for type `t` is exactly the one saved for it. -/
theorem C05_keys_elements_roundtrip (pre : List Str) (e : EAttr) (hpre : pre.length ≤ 1) (hp : ∀ f ∈ pre, '/' ∉ f)
    (hnd : (e.map Prod.fst).Nodup) (hs : ∀ ta ∈ e, '/' ∉ ta.1) (t : Str) (a : Attr) (hmem : (t, a) ∈ e) :
    eattrLookup Cfg.fixed (eattrToDict pre e) t = some a := by
  unfold eattrLookup entriesOfType eattrToDict
  have := filter_flatMap_label e (fun ta => attrToDict (pre ++ [ta.1]) ta.2)
    (fun en => if Cfg.fixed.typeByComponent then extractType en.1 == some t else isInfix t en.1)
    (fun en => extractType en.1) t (by intro en; simp [Cfg.fixed]) (by
      intro x hx en hen
      obtain ⟨k, hk, hkey⟩ := attrToDict_key (pre ++ [x.1]) x.2 en hen
      rw [hkey]
      simp only [List.append_assoc, List.cons_append, List.nil_append]
      exact extractType_key pre x.1 k hpre hp (hs x hx) (kinds_no_slash k hk)) hnd a hmem
  rw [this]
  exact C05_keys_attr_roundtrip (pre ++ [t]) a

/-- **C05_keys_elemental_collection_roundtrip**: a collection of elemental variables — first split by name,
then by element type. -/
theorem C05_keys_elemental_collection_roundtrip (c : List (Str × EAttr)) (hnd : (c.map Prod.fst).Nodup)
    (hs : ∀ ne ∈ c, '/' ∉ ne.1 ∧ (ne.2.map Prod.fst).Nodup ∧ ∀ ta ∈ ne.2, '/' ∉ ta.1)
    (name : Str) (e : EAttr) (hmem : (name, e) ∈ c) (t : Str) (a : Attr) (hta : (t, a) ∈ e) :
    ecollLookup Cfg.fixed (ecollToDict c) name t = some a := by
  unfold ecollLookup entriesOfName ecollToDict
  have := filter_flatMap_label c (fun ne => eattrToDict [ne.1] ne.2) (fun en => firstComp en.1 == name)
    (fun en => some (firstComp en.1)) name (by intro en; simp) (by
      intro x hx en hen
      simp only [eattrToDict, List.mem_flatMap] at hen
      obtain ⟨ta, hta', hen⟩ := hen
      obtain ⟨k, hk, hkey⟩ := attrToDict_key ([x.1] ++ [ta.1]) ta.2 en hen
      have hx' := hs x hx
      rw [hkey]
      simp only [List.cons_append, List.nil_append]
      congr 1
      exact firstComp_key x.1 [ta.1, k] hx'.1 (by
        intro f hf; simp only [List.mem_cons, List.mem_nil_iff, or_false] at hf
        rcases hf with h | h <;> rw [h]
        · exact hx'.2.2 ta hta'
        · exact kinds_no_slash k hk)) hnd e hmem
  rw [this]
  have hx' := hs (name, e) hmem
  exact C05_keys_elements_roundtrip [name] e (by simp) (by simpa using hx'.1) hx'.2.1 hx'.2.2 t a hta

/-- non-vacuity: an elemental variable called `hexa` on a mesh with `tet`, `tet2` and `hex` blocks -/
example : ecollLookup Cfg.fixed (ecollToDict [(['h', 'e', 'x', 'a'], [(sTet, ⟨1, 2, false⟩), (sTet2, ⟨3, 4, true⟩), (['h', 'e', 'x'], ⟨5, 6, false⟩)])])
    ['h', 'e', 'x', 'a'] sTet2 = some ⟨3, 4, true⟩ := by decide
/-- … and a nodal time series called `time_series` next to an ordinary variable called `series` -/
example : collLookup Cfg.fixed (collToDict [(sTs, ⟨1, 2, true⟩), (['s', 'e', 'r', 'i', 'e', 's'], ⟨3, 4, false⟩)]) sTs = some ⟨1, 2, true⟩ ∧
    collLookup Cfg.fixed (collToDict [(sTs, ⟨1, 2, true⟩), (['s', 'e', 'r', 'i', 'e', 's'], ⟨3, 4, false⟩)]) ['s', 'e', 'r', 'i', 'e', 's'] = some ⟨3, 4, false⟩ := by decide

/-! ### the pinned upstream commit -/
/-- F6a: a mesh with `tet` and `tet2` blocks saves, but `tet` collects the four keys of both types and cannot be loaded -/
theorem C05_keys_counterexample_substring_type :
    eattrLookup Cfg.upstream (eattrToDict [] [(sTet, ⟨1, 2, false⟩), (sTet2, ⟨3, 4, false⟩)]) sTet = none ∧
    eattrLookup Cfg.fixed (eattrToDict [] [(sTet, ⟨1, 2, false⟩), (sTet2, ⟨3, 4, false⟩)]) sTet = some ⟨1, 2, false⟩ := by decide

/-- F6e: a variable called `solids` — both of its keys contain `ids` -/
theorem C05_keys_counterexample_ids_in_name :
    collLookup Cfg.upstream (collToDict [(sSolids, ⟨1, 2, false⟩)]) sSolids = none ∧
    collLookup Cfg.fixed (collToDict [(sSolids, ⟨1, 2, false⟩)]) sSolids = some ⟨1, 2, false⟩ := by decide

/-- F6d: the two-key scheme cannot tell a `(T, n, w)` time series from ordinary data.  A series and an ordinary attribute
with the same arrays are saved as the same two entries (so NO loader can tell them apart); dropping the `time_series`
entry from the three-key dict still loads — as `some` attribute whose flag is lost; and the three-key dict is what
carries it.  (A tree without the repair, `Cfg.twoKey`, writes `attrToDict pre a.twoKey`; its loader rejects three entries.) -/
theorem C05_keys_counterexample_no_flag :
    attrToDict [sTs] (Attr.twoKey ⟨1, 2, true⟩) = attrToDict [sTs] (Attr.twoKey ⟨1, 2, false⟩) ∧
    dropTs (attrToDict [sTet] ⟨1, 2, true⟩) = attrToDict [sTet] (Attr.twoKey ⟨1, 2, true⟩) ∧
    attrFromDict Cfg.fixed (dropTs (attrToDict [sTet] ⟨1, 2, true⟩)) = some ⟨1, 2, false⟩ ∧
    attrFromDict Cfg.twoKey (attrToDict [sTet] (Attr.twoKey ⟨1, 2, true⟩)) = some ⟨1, 2, false⟩ ∧
    attrFromDict Cfg.fixed (attrToDict [sTet] ⟨1, 2, true⟩) = some ⟨1, 2, true⟩ ∧
    attrFromDict Cfg.twoKey (attrToDict [sTet] ⟨1, 2, true⟩) = none := by decide

end Femio.C05K
