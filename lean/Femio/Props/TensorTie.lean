import Femio.Model.Tensor
import Femio.Gen.TensorKernels
import Mathlib.Tactic.Ring
/-! # Tie S of C17: the tensor helpers as traced from the working tree = the hand-written model

`Femio/Gen/TensorKernels.lean` is regenerated on every run by `harness/gen_tensor_kernels.py`: the real
`convert_array2symmetric_matrix`, `convert_symmetric_matrix2array`, `calculate_symmetric_matrices_from_eigens`,
`calculate_array_from_eigens`, `calculate_principal_components`, `convert_lte_global2local` and
`convert_lte_local2global` are EXECUTED on one tensor with symbolic components and the polynomial maps that come out
are emitted as `Gen.t…`.  The theorems below state, over every field, that the model functions of
`Model/Tensor.lean` - the functions the C17 property theorems are about, instantiated with the index tables of
`Gen/Tables.lean` - return exactly those lists.  A change of the code that changes what a helper computes changes
the generated right-hand side and breaks exactly the theorems of that helper (a broken proof obligation; ties P / D
and the oracle of `harness/c17.py` then search for the concrete failing input).  This module is NOT imported by
`Femio.lean`: it is built and audited separately so that its failure cannot take the library down.

`np.linalg.eigh` is a stub while tracing (fresh symbols `w`, `V`): `TT_tPrincipalEighArg_*` / `TT_tLteMatrix` pin
the matrix handed to it, `TT_tPrincipalPost` / `TT_tLteGlobal2LocalPost` what is done with its result. -/
namespace Femio.TensorTie
open Femio Femio.Tensor Femio.Gen V3

/-- closes `model list = traced list`: unfold, split the list equation, `ring` on every component -/
macro "tt" "[" ds:Lean.Parser.Tactic.simpLemma,* "]" : tactic =>
  `(tactic| (simp only [$ds,*, arr2mat, mat2arr, gather, scaleBy, arr2matIdx, arr2matEng, mat2arrIdx, mat2arrEng, defaultOrder,
      List.map, List.zip, List.zipWith, List.getD_cons_zero, List.getD_cons_succ, List.getD_eq_getElem?_getD,
      List.getElem?_cons_zero, List.getElem?_cons_succ, Option.getD_some, if_true, if_false, Bool.false_eq_true,
      List.cons.injEq, and_true, Nat.cast_ofNat, Nat.cast_one]
    <;> (try (refine ⟨?_, ?_⟩)) <;> (repeat' constructor) <;> ring))

variable {K : Type} [Field K]

theorem TT_tArr2Mat_e0_o0 (v0 v1 v2 v3 v4 v5 : K) :
    arr2mat [0, 1, 2, 3, 4, 5] false [v0, v1, v2, v3, v4, v5] = tArr2Mat_e0_o0 v0 v1 v2 v3 v4 v5 := by
  tt [tArr2Mat_e0_o0]

theorem TT_tMat2Arr_e0_o0 (v0 v1 v2 v3 v4 v5 v6 v7 v8 : K) :
    mat2arr [0, 1, 2, 3, 4, 5] false [v0, v1, v2, v3, v4, v5, v6, v7, v8] = tMat2Arr_e0_o0 v0 v1 v2 v3 v4 v5 v6 v7 v8 := by
  tt [tMat2Arr_e0_o0]

theorem TT_tArr2Mat_e0_o1 (v0 v1 v2 v3 v4 v5 : K) :
    arr2mat [5, 4, 3, 2, 1, 0] false [v0, v1, v2, v3, v4, v5] = tArr2Mat_e0_o1 v0 v1 v2 v3 v4 v5 := by
  tt [tArr2Mat_e0_o1]

theorem TT_tMat2Arr_e0_o1 (v0 v1 v2 v3 v4 v5 v6 v7 v8 : K) :
    mat2arr [5, 4, 3, 2, 1, 0] false [v0, v1, v2, v3, v4, v5, v6, v7, v8] = tMat2Arr_e0_o1 v0 v1 v2 v3 v4 v5 v6 v7 v8 := by
  tt [tMat2Arr_e0_o1]

theorem TT_tArr2Mat_e0_o2 (v0 v1 v2 v3 v4 v5 : K) :
    arr2mat [1, 2, 0, 4, 5, 3] false [v0, v1, v2, v3, v4, v5] = tArr2Mat_e0_o2 v0 v1 v2 v3 v4 v5 := by
  tt [tArr2Mat_e0_o2]

theorem TT_tMat2Arr_e0_o2 (v0 v1 v2 v3 v4 v5 v6 v7 v8 : K) :
    mat2arr [1, 2, 0, 4, 5, 3] false [v0, v1, v2, v3, v4, v5, v6, v7, v8] = tMat2Arr_e0_o2 v0 v1 v2 v3 v4 v5 v6 v7 v8 := by
  tt [tMat2Arr_e0_o2]

theorem TT_tArr2Mat_e0_o3 (v0 v1 v2 v3 v4 v5 : K) :
    arr2mat [3, 5, 1, 0, 2, 4] false [v0, v1, v2, v3, v4, v5] = tArr2Mat_e0_o3 v0 v1 v2 v3 v4 v5 := by
  tt [tArr2Mat_e0_o3]

theorem TT_tMat2Arr_e0_o3 (v0 v1 v2 v3 v4 v5 v6 v7 v8 : K) :
    mat2arr [3, 5, 1, 0, 2, 4] false [v0, v1, v2, v3, v4, v5, v6, v7, v8] = tMat2Arr_e0_o3 v0 v1 v2 v3 v4 v5 v6 v7 v8 := by
  tt [tMat2Arr_e0_o3]

theorem TT_tArr2Mat_e1_o0 (v0 v1 v2 v3 v4 v5 : K) :
    arr2mat [0, 1, 2, 3, 4, 5] true [v0, v1, v2, v3, v4, v5] = tArr2Mat_e1_o0 v0 v1 v2 v3 v4 v5 := by
  tt [tArr2Mat_e1_o0]

theorem TT_tMat2Arr_e1_o0 (v0 v1 v2 v3 v4 v5 v6 v7 v8 : K) :
    mat2arr [0, 1, 2, 3, 4, 5] true [v0, v1, v2, v3, v4, v5, v6, v7, v8] = tMat2Arr_e1_o0 v0 v1 v2 v3 v4 v5 v6 v7 v8 := by
  tt [tMat2Arr_e1_o0]

theorem TT_tArr2Mat_e1_o1 (v0 v1 v2 v3 v4 v5 : K) :
    arr2mat [5, 4, 3, 2, 1, 0] true [v0, v1, v2, v3, v4, v5] = tArr2Mat_e1_o1 v0 v1 v2 v3 v4 v5 := by
  tt [tArr2Mat_e1_o1]

theorem TT_tMat2Arr_e1_o1 (v0 v1 v2 v3 v4 v5 v6 v7 v8 : K) :
    mat2arr [5, 4, 3, 2, 1, 0] true [v0, v1, v2, v3, v4, v5, v6, v7, v8] = tMat2Arr_e1_o1 v0 v1 v2 v3 v4 v5 v6 v7 v8 := by
  tt [tMat2Arr_e1_o1]

theorem TT_tArr2Mat_e1_o2 (v0 v1 v2 v3 v4 v5 : K) :
    arr2mat [1, 2, 0, 4, 5, 3] true [v0, v1, v2, v3, v4, v5] = tArr2Mat_e1_o2 v0 v1 v2 v3 v4 v5 := by
  tt [tArr2Mat_e1_o2]

theorem TT_tMat2Arr_e1_o2 (v0 v1 v2 v3 v4 v5 v6 v7 v8 : K) :
    mat2arr [1, 2, 0, 4, 5, 3] true [v0, v1, v2, v3, v4, v5, v6, v7, v8] = tMat2Arr_e1_o2 v0 v1 v2 v3 v4 v5 v6 v7 v8 := by
  tt [tMat2Arr_e1_o2]

theorem TT_tArr2Mat_e1_o3 (v0 v1 v2 v3 v4 v5 : K) :
    arr2mat [3, 5, 1, 0, 2, 4] true [v0, v1, v2, v3, v4, v5] = tArr2Mat_e1_o3 v0 v1 v2 v3 v4 v5 := by
  tt [tArr2Mat_e1_o3]

theorem TT_tMat2Arr_e1_o3 (v0 v1 v2 v3 v4 v5 v6 v7 v8 : K) :
    mat2arr [3, 5, 1, 0, 2, 4] true [v0, v1, v2, v3, v4, v5, v6, v7, v8] = tMat2Arr_e1_o3 v0 v1 v2 v3 v4 v5 v6 v7 v8 := by
  tt [tMat2Arr_e1_o3]

theorem TT_tFromEigens (v0 v1 v2 v3 v4 v5 v6 v7 v8 v9 v10 v11 : K) :
    flat (fromEigens ⟨v0, v1, v2⟩ ⟨v3, v4, v5⟩ ⟨v6, v7, v8⟩ ⟨v9, v10, v11⟩)
      = tFromEigens v0 v1 v2 v3 v4 v5 v6 v7 v8 v9 v10 v11 := by
  tt [tFromEigens, flat, fromEigens, toM3, ofCols, transpose, mmul, dot]

theorem TT_tArrayFromEigens_e0 (v0 v1 v2 v3 v4 v5 v6 v7 v8 v9 v10 v11 : K) :
    arrayFromEigens ⟨v0, v1, v2⟩ ⟨v3, v4, v5⟩ ⟨v6, v7, v8⟩ ⟨v9, v10, v11⟩ false
      = tArrayFromEigens_e0 v0 v1 v2 v3 v4 v5 v6 v7 v8 v9 v10 v11 := by
  tt [tArrayFromEigens_e0, arrayFromEigens, flat, fromEigens, toM3, ofCols, transpose, mmul, dot]

theorem TT_tArrayFromEigens_e1 (v0 v1 v2 v3 v4 v5 v6 v7 v8 v9 v10 v11 : K) :
    arrayFromEigens ⟨v0, v1, v2⟩ ⟨v3, v4, v5⟩ ⟨v6, v7, v8⟩ ⟨v9, v10, v11⟩ true
      = tArrayFromEigens_e1 v0 v1 v2 v3 v4 v5 v6 v7 v8 v9 v10 v11 := by
  tt [tArrayFromEigens_e1, arrayFromEigens, flat, fromEigens, toM3, ofCols, transpose, mmul, dot]

/-- the record `principalPost` returns, in the order of the tuple of `calculate_principal_components`:
    values, directions (three axes), vectors (three axes) -/
def principalList (p : Principal K) : List K :=
  v3list p.vals ++ v3list p.d0 ++ v3list p.d1 ++ v3list p.d2 ++ v3list p.v0 ++ v3list p.v1 ++ v3list p.v2

theorem TT_tPrincipalPost (v0 v1 v2 v3 v4 v5 v6 v7 v8 v9 v10 v11 : K) :
    principalList (principalPost ⟨v0, v1, v2⟩ ⟨⟨v3, v4, v5⟩, ⟨v6, v7, v8⟩, ⟨v9, v10, v11⟩⟩)
      = tPrincipalPost v0 v1 v2 v3 v4 v5 v6 v7 v8 v9 v10 v11 := by
  tt [tPrincipalPost, principalList, principalPost, v3list, col0, col1, col2, transpose, cross, smul, List.cons_append,
      List.nil_append]

/-- the matrix `calculate_principal_components(a, from_engineering=false, order=[3, 5, 1, 0, 2, 4])` hands to `eigh` -/
theorem TT_tPrincipalEighArg_e0 (v0 v1 v2 v3 v4 v5 : K) :
    arr2mat [3, 5, 1, 0, 2, 4] false [v0, v1, v2, v3, v4, v5] = tPrincipalEighArg_e0 v0 v1 v2 v3 v4 v5 := by
  tt [tPrincipalEighArg_e0]

/-- the matrix `calculate_principal_components(a, from_engineering=true, order=[3, 5, 1, 0, 2, 4])` hands to `eigh` -/
theorem TT_tPrincipalEighArg_e1 (v0 v1 v2 v3 v4 v5 : K) :
    arr2mat [3, 5, 1, 0, 2, 4] true [v0, v1, v2, v3, v4, v5] = tPrincipalEighArg_e1 v0 v1 v2 v3 v4 v5 := by
  tt [tPrincipalEighArg_e1]

theorem TT_tLteMatrix (v0 v1 v2 v3 v4 v5 : K) :
    flat (lteMatrix [v0, v1, v2, v3, v4, v5]) = tLteMatrix v0 v1 v2 v3 v4 v5 := by
  tt [tLteMatrix, flat, lteMatrix]

theorem TT_tLteGlobal2LocalPost (v0 v1 v2 v3 v4 v5 v6 v7 v8 v9 v10 v11 : K) :
    (let r := lteGlobal2LocalPost ⟨v0, v1, v2⟩ ⟨⟨v3, v4, v5⟩, ⟨v6, v7, v8⟩, ⟨v9, v10, v11⟩⟩
     v3list r.1 ++ r.2) = tLteGlobal2LocalPost v0 v1 v2 v3 v4 v5 v6 v7 v8 v9 v10 v11 := by
  tt [tLteGlobal2LocalPost, lteGlobal2LocalPost, v3list, col0, col1, transpose, List.cons_append, List.nil_append]

theorem TT_tLteLocal2Global (v0 v1 v2 v3 v4 v5 v6 v7 v8 v9 v10 v11 : K) :
    lteLocal2Global ⟨v0, v1, v2⟩ [v3, v4, v5, v6, v7, v8, v9, v10, v11]
      = tLteLocal2Global v0 v1 v2 v3 v4 v5 v6 v7 v8 v9 v10 v11 := by
  tt [tLteLocal2Global, lteLocal2Global, mmul, transpose, diag3, cross, dot]

/-- non-vacuity: the traced maps are not constant - engineering shear really halves / doubles, a non-identity order really
    permutes (evaluated on concrete rationals) -/
example : tArr2Mat_e1_o3 (1 : ℚ) 2 3 4 5 6 = [4, 1/2, 5/2, 1/2, 6, 3/2, 5/2, 3/2, 2] := by norm_num [tArr2Mat_e1_o3]
example : tMat2Arr_e1_o3 (1 : ℚ) 2 3 4 5 6 7 8 9 = [4, 6, 5, 1, 9, 12] := by norm_num [tMat2Arr_e1_o3]

end Femio.TensorTie
