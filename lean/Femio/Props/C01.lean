import Femio.Model.FistrMsh
import Femio.Model.FistrOrient
import Femio.Model.FistrHist
import Femio.Model.FistrSections
import Femio.Lemmas.FistrMshProps
import Femio.Lemmas.FistrRoundtrip
import Femio.Lemmas.FistrG4
import Femio.Lemmas.FistrG3
import Mathlib.Tactic.Ring

/-! # C01 — FrontISTR `.msh` write → read is the identity; FrontISTR node order; format insensitivity

Model: `Femio/Model/FistrText.lean`, `FistrMsh.lean` (writer `writeMsh`, reader `readMsh`),
`FistrOrient.lean` (hand-written FrontISTR convention), tables in `Femio/Gen/Tables.lean` (regenerated from
the working tree on every run).

**The round trip is a theorem for the whole file**: `C01_roundtrip : WF m → (writeMsh m).bind readMsh = some (canon m)`
(`canon` = id ↦ coordinates restricted to the referenced nodes, id ↦ (type, ordered nodes), groups, section / material,
temperatures), for every well-formed input `WF m` (explicit decidable conditions) — symbolic group / material names,
any number of nodes / blocks / groups; `C01_roundtrip_statement` is the same fact in the id-keyed form
`RoundtripStatement`.  Proof (`Lemmas/FistrHdr.lean`, `FistrRoundtrip.lean`, `FistrRU.lean`): the writer's text is the
rendering of an explicit block list; the header scan returns these blocks; every section key (`str.contains`) selects
exactly its blocks; every `_read_*` function returns the written data (both `!ELEMENT` branches, prism permutation);
`remove_useless_nodes`.  Also proved: the code tables (T), orientation, every data row at string level incl.
`%.12E` ↔ `float()`, and format insensitivity G1–G4 at whole-file level.
Trusted / not a theorem: decimal ↔ binary rounding of `%.12E` / `float()`; the tie of `writeMsh` / `readMsh` to the
Python code (differential run). -/
namespace Femio.C01
open Femio.Fistr Femio.Fistr.RT Femio.Gen Numeral

/-! ### code tables (tie T) -/
/- `writerTypes` (ELEMENT_TYPES indices of the types the property names: line, tri, quad, tet, tet2, prism, hex, hex2,
   and line2, spring), `canonNodes`, `referenced`, `WF`, `canon` are defined in `Lemmas/FistrRoundtrip.lean`
   (namespace `Femio.C01`). -/

/-- **C01_codes_inverse**: for every supported element type the code the writer emits
    (`detect_fistr_element_type`) is mapped back to that type by the reader's table (`DICT_FISTR_ELEMENTS`). -/
theorem C01_codes_inverse :
    ∀ t ∈ writerTypes, (lookupN t fistrTypeToCode).bind (fun c => codeToType (showNat c)) = some t := by decide

example : (lookupN 12 fistrTypeToCode).bind (fun c => codeToType (showNat c)) = some 12 := C01_codes_inverse 12 (by decide)
/-- recorded: `prism2` is written as 352, which the reader does not know (outside the property's type list) -/
example : (lookupN 13 fistrTypeToCode).bind (fun c => codeToType (showNat c)) = none := by decide

/-- **C01_prism_perm_involutive**: on any 6-node row the writer's prism permutation followed by the reader's is
    the identity (tables generated from `_reorder_prism_data` / `_reorder_prism`). -/
theorem C01_prism_perm_involutive {α : Type} (l : List α) (h : l.length = 6) :
    (permute prismPermWrite l).bind (permute prismPermRead) = some l := permute_prism l h

example : (permute prismPermWrite [2, 6, 11, 40, 12, 5]).bind (permute prismPermRead) = some [2, 6, 11, 40, 12, 5] :=
  C01_prism_perm_involutive _ rfl
example : permute prismPermWrite [2, 6, 11, 40, 12, 5] = some [2, 11, 6, 40, 5, 12] := by decide

/-! ### orientation -/
/-- **C01_orientation**: for every solid type the writer supports, FrontISTR's outward face cycles of the *written*
    row (hand spec `fistrOutFaces`, read through the writer's node permutation) are exactly the outward face
    cycles femio uses for the element (`_generate_all_faces` tables) — as sets of cyclic sequences, so
    independent of geometry: a positively oriented femio element is positively oriented for FrontISTR. -/
theorem C01_orientation :
    ∀ t ∈ [8, 9, 12, 14, 15], sameCycles (writtenFaces t) (femioOutFaces t) = true := by decide

example : writtenFaces 12 = [[0, 1, 2], [3, 5, 4], [0, 2, 5, 3], [2, 1, 4, 5], [1, 0, 3, 4]] := by decide

/-- the prism permutation is what makes this true: written unpermuted, a femio prism has FrontISTR's faces
    inside out (the symmetric error "drop the permutation in writer *and* reader" that no read-after-write test sees) -/
theorem C01_prism_unpermuted_inverted :
    sameCycles (fistrOutFaces 12) (femioOutFaces 12) = false ∧
    sameCycles ((fistrOutFaces 12).map List.reverse) (femioOutFaces 12) = true := by decide

section vol
variable {R : Type} [CommRing R]
open Geom
/-- **C01_orientation_volume_affine**: on every affine prism (origin `o`, edge vectors `u v w`) FrontISTR's signed
    volume of the written (permuted) row equals femio's signed volume of the element. -/
theorem C01_orientation_volume_affine (o u v w : V3 R) :
    fistrPrism6 o (V3.add o v) (V3.add o u) (V3.add o w) (V3.add (V3.add o v) w) (V3.add (V3.add o u) w)
      = prismLin6 o (V3.add o u) (V3.add o v) (V3.add o w) (V3.add (V3.add o u) w) (V3.add (V3.add o v) w) := by
  simp only [fistrPrism6, prismLin6, tet6, V3.det, V3.sub, V3.add]; ring

/-- … and of the unpermuted row it is the opposite. -/
theorem C01_prism_unpermuted_flips (o u v w : V3 R) :
    fistrPrism6 o (V3.add o u) (V3.add o v) (V3.add o w) (V3.add (V3.add o u) w) (V3.add (V3.add o v) w)
      = - prismLin6 o (V3.add o u) (V3.add o v) (V3.add o w) (V3.add (V3.add o u) w) (V3.add (V3.add o v) w) := by
  simp only [fistrPrism6, prismLin6, tet6, V3.det, V3.sub, V3.add]; ring

/-- tetrahedra: the two conventions are the same formula -/
theorem C01_orientation_tet (p0 p1 p2 p3 : V3 R) : fistrTet6 p0 p1 p2 p3 = tet6 p0 p1 p2 p3 := rfl
end vol

example : Geom.prismLin6 (⟨0,0,0⟩ : V3 Int) ⟨1,0,0⟩ ⟨0,1,0⟩ ⟨0,0,-1⟩ ⟨1,0,-1⟩ ⟨0,1,-1⟩ = 3 := by decide

/-! ### string level -/
/-- **C01_float_roundtrip**: what `%.pE` prints for a decimal datum, `float()` reads back as exactly that decimal
    (every precision, mantissa, exponent, sign, signed zero; blanks around the field are ignored). -/
theorem C01_float_roundtrip (p : Nat) (s : Sci) (a b : List Char) (ha : ∀ c ∈ a, isWs c = true) (hb : ∀ c ∈ b, isWs c = true) :
    parseDec (a ++ renderSci p s ++ b) = some (s.toDec p) := by
  rw [parseDec_pad a b p s ha hb, parseDec_renderSci]

example : renderSci 12 ⟨true, 1250000000000, 100⟩ = c!"-1.250000000000E+100" := by decide
example : parseDec c!" -1.250000000000E+100 " = some ⟨true, 1250000000000, 88⟩ :=
  C01_float_roundtrip 12 ⟨true, 1250000000000, 100⟩ [' '] [' '] (by decide) (by decide)

/-- **C01_row_roundtrip**: every data row the writer prints is lexed back to what was printed:
    `!NODE` rows (id through float, three `%.12E` coordinates), `!ELEMENT` rows on both reader branches,
    `!EGROUP` rows, `!INITIAL CONDITION` rows. -/
theorem C01_row_roundtrip :
    (∀ r : Nat × List Sci, parseRowF parseDec (nodeLine r) = some (r.1, r.2.map (Sci.toDec 12))) ∧
    (∀ r : Nat × List Nat, parseRowF parseNatTok (elemLine r) = some r) ∧
    (∀ r : Nat × List Nat, (parseRowI (elemLine r)).bind headTail = some r) ∧
    (∀ e : Nat, parseRowI (showNat e) = some [e]) ∧
    (∀ r : Nat × Sci, parseRowF parseDec (tempLine r) = some (r.1, [r.2.toDec 12])) := by
  refine ⟨parseRowF_nodeLine, parseRowF_elemLine, fun r => ?_, fun e => ?_, parseRowF_tempLine⟩
  · unfold elemLine; rw [parseRowI_natRow _ (by simp)]; rfl
  · exact parseRowI_natRow [e] (by simp)

example : nodeLine (99, [⟨false, 9000000000000, 0⟩, ⟨false, 0, 0⟩, ⟨true, 1250000000000, -7⟩]) =
    c!"99,9.000000000000E+00,0.000000000000E+00,-1.250000000000E-07" := by decide

/-- **C01_blocks_roundtrip**: the header scan (`to_header_data('!')` after the comment filter) of any sequence of
    blocks `header :: data lines` returns exactly those blocks — any number of blocks, any block sizes. -/
theorem C01_blocks_roundtrip (bs : List (Line × List Line)) (hwf : WFBlocks bs)
    (hclean : ∀ l ∈ renderBlocks bs, ignoreLine l = false) : toBlocks (renderBlocks bs) = bs := by
  rw [toBlocks_of_clean _ hclean, toBlocksAux_render bs hwf]

example : toBlocks [c!"!NODE", c!"1,0.0", c!"!ELEMENT,TYPE=341", c!"!END"] =
    [(c!"!NODE", [c!"1,0.0"]), (c!"!ELEMENT,TYPE=341", []), (c!"!END", [])] := by decide

/-- **C01_roundtrip_partial** (row lists of the sections; see the module doc for what is missing from
    `RoundtripStatement`): for every mesh — any ids, any storage order, any number of rows —
    the written `!NODE` rows are read back as the same id ↦ coordinates list (exact decimal values),
    the written `!ELEMENT` rows as the same id ↦ connectivity list on both reader branches, prism rows
    (length 6) through write-permutation, text and read-permutation unchanged, and the written
    temperature rows as the same id ↦ value list. -/
theorem C01_roundtrip_partial (m : MshIn) :
    (m.nodes.map nodeLine).mapM (fun l => (parseRowF parseDec l).map fun r => (r.1, r.2.take 3)) =
        some ((canonNodes m).map fun r => (r.1, r.2.take 3)) ∧
    (∀ rows : List (Nat × List Nat), (rows.map elemLine).mapM (parseRowF parseNatTok) = some rows) ∧
    (∀ rows : List (Nat × List Nat), (rows.map elemLine).mapM (fun l => (parseRowI l).bind headTail) = some rows) ∧
    (∀ r : Nat × List Nat, r.2.length = 6 →
        ((permute prismPermWrite r.2).bind fun w => ((parseRowF parseNatTok (elemLine (r.1, w))).bind fun q =>
          (permute prismPermRead q.2).map fun c => (q.1, c))) = some r) ∧
    (∀ t : List (Nat × Sci), (t.map tempLine).mapM (parseRowF parseDec) = some (t.map fun r => (r.1, [r.2.toDec 12]))) := by
  refine ⟨?_, fun rows => ?_, fun rows => ?_, fun r h6 => ?_, fun t => ?_⟩
  · unfold canonNodes
    rw [List.map_map]
    exact mapM_map_of_forall nodeLine _ _ (fun r => by simp [parseRowF_nodeLine]) m.nodes
  · simpa using mapM_map_of_forall elemLine (parseRowF parseNatTok) id parseRowF_elemLine rows
  · simpa using mapM_map_of_forall elemLine (fun l => (parseRowI l).bind headTail) id C01_row_roundtrip.2.2.1 rows
  · have := C01_prism_perm_involutive r.2 h6
    cases hw : permute prismPermWrite r.2 with
    | none => rw [hw] at this; cases this
    | some w =>
      rw [hw] at this
      simp only [Option.bind_some] at this ⊢
      rw [parseRowF_elemLine]
      simp [this]
  · exact mapM_map_of_forall tempLine (parseRowF parseDec) _ parseRowF_tempLine t

/-- the mesh of `C01_roundtrip_example`: tet + prism + hex over shuffled sparse ids, node 99 unreferenced -/
def exMesh : MshIn where
  nodes := [(10, [⟨false, 0, 0⟩, ⟨false, 0, 0⟩, ⟨false, 0, 0⟩]), (4, [⟨false, 1000000000000, 0⟩, ⟨false, 0, 0⟩, ⟨false, 0, 0⟩]),
            (7, [⟨false, 1000000000000, 0⟩, ⟨false, 1000000000000, 0⟩, ⟨true, 0, 0⟩]),
            (99, [⟨false, 9000000000000, 0⟩, ⟨false, 9000000000000, 0⟩, ⟨true, 1250000000000, 100⟩]),
            (22, [⟨false, 0, 0⟩, ⟨false, 1000000000000, 0⟩, ⟨false, 0, 0⟩]), (3, [⟨false, 0, 0⟩, ⟨false, 0, 0⟩, ⟨false, 1000000000000, 0⟩]),
            (15, [⟨false, 1000000000000, 0⟩, ⟨false, 0, 0⟩, ⟨false, 1000000000000, 0⟩]),
            (8, [⟨false, 1000000000000, 0⟩, ⟨false, 1000000000000, 0⟩, ⟨false, 1500000000000, -7⟩]),
            (30, [⟨false, 0, 0⟩, ⟨false, 1000000000000, 0⟩, ⟨false, 1000000000000, 0⟩])]
  blocks := [(8, [(100, [10, 4, 7, 3])]), (12, [(5, [10, 4, 7, 3, 15, 8])]), (14, [(7, [10, 4, 7, 22, 3, 15, 8, 30])])]
  hasAll := true
  groups := [(c!"GA", [7, 5]), (c!"G_2", [100, 7])]
  sec := some ⟨false, c!"G_2", c!"M1", ⟨false, 210000500, 5⟩, ⟨false, 300000000, -1⟩⟩
  temp := some [(10, ⟨false, 0, 0⟩), (4, ⟨false, 1500000000000, 0⟩), (7, ⟨false, 3000000000000, 0⟩), (99, ⟨true, 1, 0⟩),
                (22, ⟨false, 4500000000000, 0⟩), (3, ⟨false, 6000000000000, 0⟩), (15, ⟨false, 7500000000000, 0⟩),
                (8, ⟨false, 9000000000000, 0⟩), (30, ⟨false, 1050000000000, 1⟩)]

/-- **C01_roundtrip_example** (non-vacuity of the whole pipeline, kernel-evaluated): the complete text `writeMsh`
    produces for `exMesh` is read by `readMsh` to: the referenced nodes (ascending, 99 dropped) with their exact
    coordinates, the three blocks with the original connectivity (prism un-permuted), `ALL` + both groups, the
    section, the material values, and the temperatures re-bound to the surviving nodes. -/
theorem C01_roundtrip_example :
    (writeMsh exMesh).bind readMsh = some
      { nodes := [(3, [⟨false, 0, -12⟩, ⟨false, 0, -12⟩, ⟨false, 1000000000000, -12⟩]),
                  (4, [⟨false, 1000000000000, -12⟩, ⟨false, 0, -12⟩, ⟨false, 0, -12⟩]),
                  (7, [⟨false, 1000000000000, -12⟩, ⟨false, 1000000000000, -12⟩, ⟨true, 0, -12⟩]),
                  (8, [⟨false, 1000000000000, -12⟩, ⟨false, 1000000000000, -12⟩, ⟨false, 1500000000000, -19⟩]),
                  (10, [⟨false, 0, -12⟩, ⟨false, 0, -12⟩, ⟨false, 0, -12⟩]),
                  (15, [⟨false, 1000000000000, -12⟩, ⟨false, 0, -12⟩, ⟨false, 1000000000000, -12⟩]),
                  (22, [⟨false, 0, -12⟩, ⟨false, 1000000000000, -12⟩, ⟨false, 0, -12⟩]),
                  (30, [⟨false, 0, -12⟩, ⟨false, 1000000000000, -12⟩, ⟨false, 1000000000000, -12⟩])]
        elems := exMesh.blocks
        ngroups := [(c!"ALL", [10, 4, 7, 99, 22, 3, 15, 8, 30])]
        egroups := [(c!"ALL", [5, 7, 100]), (c!"GA", [7, 5]), (c!"G_2", [100, 7])]
        sections := [(c!"M1", c!"SOLID", c!"G_2")]
        materials := [(c!"M1", [⟨false, 210000500, -3⟩, ⟨false, 300000000, -9⟩])]
        nodal := [(c!"TEMPERATURE", [(3, [⟨false, 6000000000000, -12⟩]), (4, [⟨false, 1500000000000, -12⟩]),
                   (7, [⟨false, 3000000000000, -12⟩]), (8, [⟨false, 9000000000000, -12⟩]), (10, [⟨false, 0, -12⟩]),
                   (15, [⟨false, 7500000000000, -12⟩]), (22, [⟨false, 4500000000000, -12⟩]),
                   (30, [⟨false, 1050000000000, -11⟩])])] } := by decide

/-- **Full statement of the round trip** (proved: `C01_roundtrip_statement`): for every well-formed mesh the written
    file is read back to the id-keyed maps of the input restricted to the referenced nodes. -/
def RoundtripStatement : Prop :=
  ∀ m : MshIn, WF m → ∃ r : MshRead, (writeMsh m).bind readMsh = some r ∧
    (∀ i c, (i, c) ∈ r.nodes ↔ (i ∈ referenced m ∧ (i, c) ∈ canonNodes m)) ∧
    r.elems = m.blocks ∧
    (∀ g, g ∈ r.egroups ↔ (g ∈ m.groups ∨ g = (c!"ALL", allElemIds m.blocks))) ∧
    (∀ s ∈ m.sec, r.sections = [(s.mat, if s.shell then c!"SHELL" else c!"SOLID", s.egrp)] ∧
      r.materials = [(s.mat, [s.young.toDec 8, s.poisson.toDec 8])]) ∧
    (∀ t ∈ m.temp, ∀ i v, (∃ rows, (c!"TEMPERATURE", rows) ∈ r.nodal ∧ (i, [v]) ∈ rows) ↔
      (i ∈ referenced m ∧ ∃ s, (i, s) ∈ t ∧ v = s.toDec 12))


/-- **C01_roundtrip** (whole file): for every well-formed writer input `m` — any number of nodes, element blocks and
    groups, arbitrary (distinct) ids in any storage order, symbolic `\w+` group / section / material names, optional
    section + material, optional initial temperature — the text `writeMsh m` produces is read by `readMsh`
    (comment filter, header scan, `extract_data` by `str.contains`, every `_read_*` function, `remove_useless_nodes`)
    to exactly `canon m`. -/
theorem C01_roundtrip (m : MshIn) (hwf : WF m) : (writeMsh m).bind readMsh = some (canon m) :=
  readMsh_writeMsh m hwf

/-- the example mesh (tet + prism + hex over shuffled sparse ids, one unreferenced node, two groups, section,
    material, temperatures) is well-formed -/
theorem C01_exMesh_wf : WF exMesh where
  nodes_ne := by decide
  blocks_ne := by decide
  node_ids := by decide
  elem_ids := by decide
  types_asc := by decide
  refs := by decide
  blocks_ok := by decide
  coords := by decide
  prism := by decide
  groups_ok := by decide
  group_names := by decide
  sec_ok := by decide
  temp_ok := by decide

example : (writeMsh exMesh).bind readMsh = some (canon exMesh) := C01_roundtrip exMesh C01_exMesh_wf
/-- `canon exMesh` is the value `C01_roundtrip_example` computes: node 99 dropped, survivors ascending, temperatures re-bound -/
example : (canon exMesh).nodes.map (·.1) = [3, 4, 7, 8, 10, 15, 22, 30] ∧ (canon exMesh).elems = exMesh.blocks ∧
    (canon exMesh).egroups = [(c!"ALL", [5, 7, 100]), (c!"GA", [7, 5]), (c!"G_2", [100, 7])] ∧
    (canon exMesh).nodal.map (fun p => p.2.map (·.1)) = [[3, 4, 7, 8, 10, 15, 22, 30]] := by decide
/-- a mesh in which every node is referenced keeps its storage order -/
example : (canon { exMesh with nodes := exMesh.nodes.filter (·.1 ≠ 99), temp := none }).nodes.map (·.1) =
    [10, 4, 7, 22, 3, 15, 8, 30] := by decide

/-- **C01_roundtrip_statement**: `RoundtripStatement` holds — the id-keyed reading of `C01_roundtrip`: a node is read
    back iff it is referenced, with its exact decimal coordinates; the element blocks are identical; the element
    groups are the given ones plus `ALL`; section and material as given; a node has the temperature it was given
    iff it is referenced. -/
theorem C01_roundtrip_statement : RoundtripStatement := by
  intro m hwf
  have hnd : ((canonNodes m).map (·.1)).Nodup := by rw [canonNodes_ids]; exact hwf.node_ids
  have href : ∀ i ∈ RU.refs m.blocks, i ∈ (canonNodes m).map (·.1) := by rw [canonNodes_ids]; exact hwf.refs
  have hrefs : RU.refs m.blocks = referenced m := rfl
  have hlenN : (canonNodes m).length = m.nodes.length := by simp [canonNodes]
  refine ⟨canon m, C01_roundtrip m hwf, ?_, rfl, ?_, ?_, ?_⟩
  · intro i c
    unfold canon
    by_cases hlen : m.nodes.length = (uniqueNat (referenced m)).length
    · simp only [hlen, if_true]
      refine ⟨fun h => ⟨?_, h⟩, fun h => h.2⟩
      exact RU.all_used_of_length_eq (canonNodes m) m.blocks hnd href (by rw [hlenN, hrefs]; exact hlen) i
        (List.mem_map.mpr ⟨(i, c), h, rfl⟩)
    · simp only [hlen, if_false]
      rw [RU.mem_pick _ _ hnd, RU.mem_uniqueNat]
  · intro g
    simp only [canon, List.mem_cons]
    exact or_comm
  · intro s hs
    have hs' : m.sec = some s := hs
    simp [canon, hs', secType]
  · intro t ht i v
    have ht' : m.temp = some t := ht
    have hids := hwf.temp_ok t ht
    have hT : canonTemp m = [(c!"TEMPERATURE", t.map fun r => (r.1, [r.2.toDec 12]))] := by simp [canonTemp, ht']
    have hkeys : ((t.map fun r : Nat × Sci => (r.1, [r.2.toDec 12])).map (·.1)) = m.nodes.map (·.1) := by
      rw [← hids]; simp [List.map_map, Function.comp_def]
    unfold canon
    by_cases hlen : m.nodes.length = (uniqueNat (referenced m)).length
    · simp only [hlen, if_true, hT, List.mem_singleton, Prod.mk.injEq, true_and, exists_eq_left, mem_tempRows]
      refine ⟨fun h => ⟨?_, h⟩, fun h => h.2⟩
      obtain ⟨s, hs, -⟩ := h
      refine RU.all_used_of_length_eq (canonNodes m) m.blocks hnd href (by rw [hlenN, hrefs]; exact hlen) i ?_
      rw [canonNodes_ids, ← hids]
      exact List.mem_map.mpr ⟨(i, s), hs, rfl⟩
    · simp only [hlen, if_false, hT, List.map_cons, List.map_nil, List.mem_singleton, Prod.mk.injEq, true_and,
        exists_eq_left]
      rw [RU.mem_pick _ _ (by rw [hkeys]; exact hwf.node_ids), RU.mem_uniqueNat, mem_tempRows]

example : ∃ r, (writeMsh exMesh).bind readMsh = some r ∧ ((99, [⟨false, 9000000000000, -12⟩, ⟨false, 9000000000000, -12⟩,
    ⟨true, 1250000000000, 88⟩]) ∈ canonNodes exMesh ∧ ∀ c, (99, c) ∉ r.nodes) := by
  obtain ⟨r, hr, hn, -⟩ := C01_roundtrip_statement exMesh C01_exMesh_wf
  exact ⟨r, hr, by decide, fun c hc => absurd ((hn 99 c).mp hc).1 (by decide)⟩

/-! ### format insensitivity -/
/-- **C01_format_insensitive (G1 blank lines, G2 `#` comment lines)**: the reader's result depends on the text only
    through the lines that survive the comment/blank filter; in particular inserting any line that contains `#` or
    consists of blanks, anywhere, changes nothing. -/
theorem C01_format_insensitive_blank_comment :
    (∀ t t' : List Line, (t.filter fun l => !ignoreLine l) = (t'.filter fun l => !ignoreLine l) → readMsh t = readMsh t') ∧
    (∀ (a b : List Line) (l : Line), ignoreLine l = true → readMsh (a ++ l :: b) = readMsh (a ++ b)) := by
  have h1 : ∀ t t' : List Line, (t.filter fun l => !ignoreLine l) = (t'.filter fun l => !ignoreLine l) →
      readMsh t = readMsh t' := by
    intro t t' h; unfold readMsh toBlocks; rw [h]
  refine ⟨h1, fun a b l hl => h1 _ _ ?_⟩
  simp [List.filter_append, List.filter_cons, hl]

example : ignoreLine c!"  # a comment, with 1,2,3" = true ∧ ignoreLine c!" \t " = true ∧ ignoreLine c!"!! x" = false := by decide

/-- **C01_format_insensitive (G4 split block)**: repeating a block's header between two of its data rows — the text
    `… h :: d1 ++ h :: d2 …` instead of `… h :: d1 ++ d2 …` — leaves `extract_data(key)` unchanged for every key;
    hence the `!NODE` section, the `!ELEMENT` section of a uniform mesh, and every other concatenating section
    (`concatenate=True`) read the same. (Sections read block by block — the mixed-element branch, `!EGROUP` —
    are covered by the correspondence run; for `!EGROUP` the statement is false of the code, see finding G6.) -/
theorem C01_format_insensitive_split (h : Line) (d1 d2 : List Line) (pre post : List (Line × List Line))
    (hwf : WFBlocks (pre ++ (h, d1 ++ d2) :: post))
    (hclean : ∀ l ∈ renderBlocks (pre ++ (h, d1) :: (h, d2) :: post), ignoreLine l = false) (key : List Char) :
    renderBlocks (pre ++ (h, d1) :: (h, d2) :: post) = renderBlocks pre ++ (h :: d1 ++ h :: d2 ++ renderBlocks post) ∧
    extractData key (toBlocks (renderBlocks (pre ++ (h, d1) :: (h, d2) :: post))) =
      extractData key (pre ++ (h, d1 ++ d2) :: post) ∧
    readNodes (toBlocks (renderBlocks (pre ++ (h, d1) :: (h, d2) :: post))) = readNodes (pre ++ (h, d1 ++ d2) :: post) := by
  have hb := C01_blocks_roundtrip _ (wf_split h d1 d2 pre post hwf) hclean
  refine ⟨renderBlocks_split h d1 d2 pre post, ?_, ?_⟩
  · rw [hb, extractData_split]
  · unfold readNodes; rw [hb, extractData_split]

example : extractData c!"!NODE" (toBlocks [c!"!NODE", c!"1,0", c!"!NODE", c!"2,0", c!"!END"]) = [c!"1,0", c!"2,0"] := by decide

/-- **C01_format_insensitive (G3 whitespace), partial**: proved per field — integers and floats ignore surrounding
    blanks, header captures ignore blanks after the comma; not lifted to whole files. -/
theorem C01_format_insensitive_whitespace_partial (a b : List Char) (ha : ∀ c ∈ a, isWs c = true) (hb : ∀ c ∈ b, isWs c = true) :
    (∀ n : Nat, parseNatTok (a ++ showNat n ++ b) = parseNatTok (showNat n)) ∧
    (∀ (p : Nat) (s : Sci), parseDec (a ++ renderSci p s ++ b) = parseDec (renderSci p s)) ∧
    capture c!"TYPE=" c!"!ELEMENT,  TYPE=351" = capture c!"TYPE=" c!"!ELEMENT,TYPE=351" := by
  refine ⟨fun n => ?_, fun p s => parseDec_pad a b p s ha hb, by decide⟩
  rw [parseNatTok_pad a b n ha hb, parseNatTok_showNat]

/-- **C01_format_insensitive (G3 whitespace), whole file**: for ARBITRARY texts `t`, `t'` related line by line by
    `G3.LineRel` — a data line (not starting with `!`) is replaced by a line with the same comma-separated fields up to
    surrounding blanks; a header line keeps its first field and its other fields up to blanks after the comma — the
    reader returns the same result (also under both repair flags).  `G3.PadLine` is literally the mutation the harness
    applies (`ws + field + ws'` in data rows, `ws + field.lstrip()` after header commas). -/
theorem C01_format_insensitive_whitespace :
    (∀ t t' : List Line, G3.G3 t t' → readMsh t = readMsh t') ∧
    (∀ (cfg : ReadCfg) (t t' : List Line), G3.G3 t t' → readMshCfg cfg t = readMshCfg cfg t') ∧
    (∀ t t' : List Line, List.Forall₂ G3.PadLine t t' → readMsh t = readMsh t') :=
  ⟨G3.readMsh_g3, G3.readMshCfg_g3, G3.readMsh_padded⟩

example : G3.G3 G3.g3Text G3.g3TextPadded ∧ readMsh G3.g3TextPadded = readMsh G3.g3Text ∧
    (readMsh G3.g3Text).isSome = true :=
  ⟨G3.g3Text_rel, (C01_format_insensitive_whitespace.1 _ _ G3.g3Text_rel).symm, by decide⟩

/-- **C01_format_insensitive (G4 split block), whole file**: in ARBITRARY text, repeating the header `h` of a `!NODE`
    or `!ELEMENT` block (`G4.SplitHeader h`: `h` belongs to exactly one of the two sections and to no other) between
    two of its data rows does not change what the reader returns — uniform and mixed-element branch; for `!ELEMENT`
    both parts must keep a data row (otherwise the real reader raises on the empty block: see the `decide`d example in
    `Lemmas/FistrG4.lean`).  Iterated (`ReflTransGen`): a block split into several blocks; all repair flags. -/
theorem C01_format_insensitive_split_whole :
    (∀ (pre d1 d2 post : List Line) (h : Line), G4.SplitHeader h → (∀ l ∈ d1, isHeader l = false) →
      (∀ l ∈ d2, isHeader l = false) →
      (hasSub c!"!ELEMENT" h = true → (∃ l ∈ d1, ignoreLine l = false) ∧ (∃ l ∈ d2, ignoreLine l = false)) →
      readMsh (pre ++ h :: d1 ++ h :: d2 ++ post) = readMsh (pre ++ h :: d1 ++ d2 ++ post)) ∧
    (∀ t t' : List Line, Relation.ReflTransGen G4.Split1 t t' → readMsh t' = readMsh t) ∧
    (∀ (cfg : ReadCfg) (t t' : List Line), Relation.ReflTransGen G4.Split1 t t' → readMshCfg cfg t' = readMshCfg cfg t) :=
  ⟨fun pre d1 d2 post h hh h1 h2 hne => G4.readMsh_split pre d1 d2 post h hh h1 h2 hne,
   fun _ _ hs => G4.readMsh_splits hs, fun cfg _ _ hs => G4.readMshCfg_splits cfg hs⟩

/-- a mixed-type file (tet + two triangles) whose triangle block is cut in two: different blocks, same result -/
example : G4.Split1 G4.g4Text G4.g4TextSplit ∧ readMsh G4.g4TextSplit = readMsh G4.g4Text ∧
    (readMsh G4.g4Text).isSome = true ∧ toBlocks G4.g4TextSplit ≠ toBlocks G4.g4Text :=
  ⟨G4.g4_split1, C01_format_insensitive_split_whole.2.1 _ _ (Relation.ReflTransGen.single G4.g4_split1), by decide,
   by decide⟩

/-- one formatting step: G1 / G2 (the two texts have the same lines after the comment / blank filter), G3, G4 -/
inductive FmtStep : List Line → List Line → Prop
  | blankComment (t t' : List Line) :
      (t.filter fun l => !ignoreLine l) = (t'.filter fun l => !ignoreLine l) → FmtStep t t'
  | whitespace (t t' : List Line) : G3.G3 t t' → FmtStep t t'
  | split (t t' : List Line) : G4.Split1 t t' → FmtStep t t'

/-- **C01_format_insensitive**: `t ~fmt t' → readMsh t = readMsh t'` for the relation generated by G1 blank lines,
    G2 `#` comment lines, G3 whitespace around commas, G4 block splitting — any number of steps, in any order, on
    arbitrary text. -/
theorem C01_format_insensitive {t t' : List Line} (h : Relation.ReflTransGen FmtStep t t') : readMsh t = readMsh t' := by
  induction h with
  | refl => rfl
  | tail _ hstep ih =>
    rw [ih]
    cases hstep with
    | blankComment hf => exact C01_format_insensitive_blank_comment.1 _ _ hf
    | whitespace hg => exact G3.readMsh_g3 _ _ hg
    | split hs => exact (G4.readMsh_splits (Relation.ReflTransGen.single hs)).symm

/-- **C01_roundtrip_any_format**: the file written for a well-formed mesh, re-formatted by any sequence of G1–G4
    steps, is read back to `canon m`. -/
theorem C01_roundtrip_any_format (m : MshIn) (hwf : WF m) (t t' : List Line) (hw : writeMsh m = some t)
    (h : Relation.ReflTransGen FmtStep t t') : readMsh t' = some (canon m) := by
  have := C01_roundtrip m hwf
  rw [hw] at this
  rw [← C01_format_insensitive h]
  exact this

example : Relation.ReflTransGen FmtStep G4.g4Text (c!"# c" :: G4.g4TextSplit) :=
  (Relation.ReflTransGen.single (FmtStep.split _ _ G4.g4_split1)).tail
    (FmtStep.blankComment _ _ (by decide))

/-! ### findings G5 / G6: `Cfg` pattern (upstream = `⟨false, false⟩`) -/
/-- **G5, repaired configuration**: with `bang = true` a line starting with `!!` inserted anywhere changes nothing. -/
theorem C01_format_insensitive_bang_fixed (merge : Bool) (a b : List Line) (l : Line) (hl : isPrefix c!"!!" l = true) :
    readMshCfg ⟨true, merge⟩ (a ++ l :: b) = readMshCfg ⟨true, merge⟩ (a ++ b) := by
  simp [readMshCfg, List.filter_append, List.filter_cons, hl]

def g5Text : List Line := [c!"!NODE", c!"1,0,0,0", c!"!! comment", c!"2,1,0,0", c!"!ELEMENT,TYPE=301", c!"5,1,2", c!"!END"]
/-- **G5, upstream counterexample**: a `!!` comment line inside the `!NODE` block cuts the block — upstream the file
    is unreadable (node 2 is lost, `remove_useless_nodes` raises), repaired it reads as without the comment. -/
theorem C01_bang_counterexample_upstream :
    readMshCfg ⟨false, false⟩ g5Text = none ∧
    (readMshCfg ⟨true, false⟩ g5Text).map (·.nodes.map (·.1)) = some [1, 2] ∧
    readMshCfg ⟨true, false⟩ g5Text = readMshCfg ⟨false, false⟩ (g5Text.filter (· ≠ c!"!! comment")) := by decide

def g6Text (split : Bool) : List Line :=
  [c!"!NODE", c!"1,0,0,0", c!"2,1,0,0", c!"!ELEMENT,TYPE=301", c!"5,1,2", c!"6,2,1", c!"!EGROUP, EGRP=A", c!"5"]
  ++ (if split then [c!"!EGROUP, EGRP=A"] else []) ++ [c!"6", c!"!END"]
/-- **G6, upstream counterexample and repaired behaviour**: `!EGROUP, EGRP=A` given in two blocks — upstream keeps
    the last block only, repaired the group is the same as from the unsplit block. -/
theorem C01_split_egroup_counterexample_upstream :
    (readMshCfg ⟨false, false⟩ (g6Text true)).map (·.egroups) = some [(c!"ALL", [5, 6]), (c!"A", [6])] ∧
    (readMshCfg ⟨false, false⟩ (g6Text false)).map (·.egroups) = some [(c!"ALL", [5, 6]), (c!"A", [5, 6])] ∧
    readMshCfg ⟨false, true⟩ (g6Text true) = readMshCfg ⟨false, true⟩ (g6Text false) ∧
    readMshCfg ⟨false, true⟩ (g6Text false) = readMshCfg ⟨false, false⟩ (g6Text false) := by decide

end Femio.C01

/-! ### histories on one object (`Model/FistrHist.lean`): the writer is a function of the object's current public state,
does not modify the object, and replaces what the output name held -/
namespace Femio.C01
open Femio.Fistr Femio.Fistr.Hist

/-- **C01_write_keeps_object**: whatever the history (public modifications, files left under the output name, earlier
    writes with or without `overwrite=True`), the object's state is the one its last public modification left: no
    write changes the object it is called on. -/
theorem C01_write_keeps_object (cfg : Hist.Cfg) (s : St) (ops : List Op) : (run cfg s ops).obj = lastObj s.obj ops := by
  induction ops generalizing s with
  | nil => rfl
  | cons op ops ih =>
    have hrun : run cfg s (op :: ops) = run cfg (step cfg s op) ops := rfl
    rw [hrun, ih]
    cases op with
    | modify m' => rfl
    | place t => rfl
    | remove => rfl
    | write ow =>
      have h : (step cfg s (.write ow)).obj = s.obj := by
        simp only [step]
        split <;> rfl
      rw [h]
      rfl

/-- **C01_history_roundtrip**: after ANY history `ops` on one object (started in any state `s`, the output name
    holding anything or nothing), a write that is allowed to proceed (`overwrite=True`, or no file under the name)
    leaves a file that `readMsh` reads to `canon` of the object's CURRENT state — the state its last public modification
    left, `lastObj` — provided that state is well-formed; and the object still is in that state afterwards.  Nothing of
    the earlier states of the object or of the earlier content of the file survives. -/
theorem C01_history_roundtrip (s : St) (ops : List Op) (ow : Bool)
    (hwf : WF (lastObj s.obj ops)) (hallowed : ow = true ∨ (run Cfg.fixed s ops).file = none) :
    ((run Cfg.fixed s (ops ++ [.write ow])).file.bind readMsh = some (canon (lastObj s.obj ops))) ∧
    (run Cfg.fixed s (ops ++ [.write ow])).obj = lastObj s.obj ops := by
  have hobj := C01_write_keeps_object Cfg.fixed s ops
  have hrun : run Cfg.fixed s (ops ++ [.write ow]) = step Cfg.fixed (run Cfg.fixed s ops) (.write ow) := by
    simp [run, List.foldl_append]
  have hrt := C01_roundtrip _ hwf
  rw [← hobj] at hrt
  have hguard : (!ow && (run Cfg.fixed s ops).file.isSome) = false := by
    rcases hallowed with h | h
    · simp [h]
    · simp [h]
  rw [hrun]
  cases hw : writeMsh (run Cfg.fixed s ops).obj with
  | none => rw [hw] at hrt; simp at hrt
  | some t =>
    rw [hw] at hrt
    have hwr : written Cfg.fixed (run Cfg.fixed s ops) ow = some t := by
      unfold written
      rw [hguard, hw]
      rfl
    constructor
    · simp only [step, hwr]
      rw [← hobj]
      simpa using hrt
    · simp only [step, hwr]
      exact hobj

/-- an earlier export of another (two-node, one-line-element) mesh under the output name -/
def staleText : List Line :=
  [c!"!HEADER", c!"Data written by femio", c!"!NODE", c!"77,0.000000000000E+00,0.000000000000E+00,0.000000000000E+00",
   c!"78,1.000000000000E+00,0.000000000000E+00,0.000000000000E+00", c!"!ELEMENT,TYPE=301", c!"900,77,78", c!"!END"]

/-- non-vacuity of `C01_history_roundtrip`: object built as another mesh, written, modified to `exMesh`, a stale export
    placed under the name, written again with `overwrite=True` -/
example : (run Cfg.fixed ⟨{ exMesh with temp := none, sec := none }, none⟩
      [.write false, .modify exMesh, .place staleText, .write false, .write true]).file.bind readMsh = some (canon exMesh) :=
  (C01_history_roundtrip ⟨{ exMesh with temp := none, sec := none }, none⟩
    [.write false, .modify exMesh, .place staleText, .write false] true C01_exMesh_wf (Or.inl rfl)).1

/-- **C01_append_counterexample** (the seeded change C01-6, kernel-evaluated): a writer that opens the `.msh` without
    truncating it appends the new mesh behind the `!END` of the stale export; the reader does not stop at `!END`, so the
    file no longer reads back to the mesh that was written (the stale line element 900 and its nodes come back). -/
theorem C01_append_counterexample :
    (run ⟨false⟩ ⟨exMesh, none⟩ [.place staleText, .write true]).file.bind readMsh ≠ some (canon exMesh) ∧
    (run Cfg.fixed ⟨exMesh, none⟩ [.place staleText, .write true]).file.bind readMsh = some (canon exMesh) := by
  refine ⟨by decide, ?_⟩
  exact (C01_history_roundtrip ⟨exMesh, none⟩ [.place staleText] true C01_exMesh_wf (Or.inl rfl)).1

end Femio.C01

/-! ### several sections, many-to-one materials; a split `!INITIAL CONDITION` block (round 5) -/
namespace Femio.C01
open Femio.Fistr

/-- **C01_assign_complete**: the reader's resolution of materials onto elements (`_resolve_assignments_materials`, model
    `assignRows`) gives EVERY member of the group of EVERY row `(material, group)` of the section table the value of that
    row's material — whatever the order of the two tables and however many rows name the same material. -/
theorem C01_assign_complete {β} (groups : List (Name × List Nat)) (mats : List (Name × β)) :
    ∀ (secs : List (Name × Name)) (out : List (Nat × β)), assignRows groups mats secs = some out →
    ∀ (m g : Name) (ids : List Nat) (v : β) (e : Nat), (m, g) ∈ secs → lookupS g groups = some ids →
      lookupS m mats = some v → e ∈ ids → (e, v) ∈ out := by
  intro secs
  induction secs with
  | nil => intro out _ m g ids v e hs; cases hs
  | cons s t ih =>
    intro out h m g ids v e hs hg hm he
    unfold assignRows at h
    split at h
    · rename_i ids' v' r hg' hm' hr
      cases h
      rcases List.mem_cons.mp hs with rfl | hs
      · simp only at hg' hm'
        rw [hg] at hg'; rw [hm] at hm'
        cases hg'; cases hm'
        exact List.mem_append_left _ (List.mem_map.mpr ⟨e, he, rfl⟩)
      · exact List.mem_append_right _ (ih r hr m g ids v e hs hg hm he)
    · cases h

/-- **C01_assign_sound**: and nothing else — every `(element, value)` of the result comes from a row of the section
    table: the element is a member of the row's group, the value is the row's material. -/
theorem C01_assign_sound {β} (groups : List (Name × List Nat)) (mats : List (Name × β)) :
    ∀ (secs : List (Name × Name)) (out : List (Nat × β)), assignRows groups mats secs = some out →
    ∀ (e : Nat) (v : β), (e, v) ∈ out → ∃ m g ids, (m, g) ∈ secs ∧ lookupS g groups = some ids ∧
      lookupS m mats = some v ∧ e ∈ ids := by
  intro secs
  induction secs with
  | nil => intro out h e v hev; cases h; cases hev
  | cons s t ih =>
    intro out h e v hev
    unfold assignRows at h
    split at h
    · rename_i ids' v' r hg' hm' hr
      cases h
      rcases List.mem_append.mp hev with hl | hr'
      · obtain ⟨i, hi, hiv⟩ := List.mem_map.mp hl
        cases hiv
        exact ⟨s.1, s.2, ids', List.mem_cons_self, hg', hm', hi⟩
      · obtain ⟨m, g, ids, hs, hg, hm, he⟩ := ih r hr e v hr'
        exact ⟨m, g, ids, List.mem_cons_of_mem _ hs, hg, hm, he⟩
    · cases h

/-- two parts made of the same material: `GA → STEEL, GB → ALUMINIUM, GC → STEEL` -/
def sharedSecs : List (Name × Name) := [(c!"STEEL", c!"GA"), (c!"ALUMINIUM", c!"GB"), (c!"STEEL", c!"GC")]
def sharedGroups : List (Name × List Nat) := [(c!"GA", [12, 7]), (c!"GB", [3]), (c!"GC", [5, 100])]
def sharedMats : List (Name × Nat) := [(c!"ALUMINIUM", 70), (c!"STEEL", 205)]

/-- **C01_assign_dict_counterexample**: walking the sections through a dictionary keyed by the material name (instead of
    the list of rows) silently drops the elements of the earlier section that shares a material: elements 12 and 7 of
    `GA` get no material at all, although nothing raises and both walks agree with each other. -/
theorem C01_assign_dict_counterexample :
    assignRows sharedGroups sharedMats sharedSecs = some [(12, 205), (7, 205), (3, 70), (5, 205), (100, 205)] ∧
    assignRowsDict sharedGroups sharedMats sharedSecs = some [(5, 205), (100, 205), (3, 70)] := by decide

def g7Text (split : Bool) : List Line :=
  [c!"!NODE", c!"5,0,0,0", c!"2,1,0,0", c!"9,0,1,0", c!"!ELEMENT,TYPE=731", c!"1,5,2,9",
   c!"!INITIAL CONDITION, TYPE=TEMPERATURE", c!"5,10", c!"2,20"]
  ++ (if split then [c!"!INITIAL CONDITION, TYPE=TEMPERATURE"] else []) ++ [c!"9,30", c!"!END"]

/-- **G7, counterexample on the current tree**: the `!INITIAL CONDITION, TYPE=TEMPERATURE` block given in two blocks —
    the reader keeps the LAST block only (`nodal_data.update` overwrites), pads it with zeros to the number of nodes and
    binds the rows to the nodes by position: node 5 reads 30 (the value of node 9), nodes 2 and 9 read 0. -/
theorem C01_split_initial_counterexample :
    (readMsh (g7Text false)).map (fun r => r.nodal.map fun p => p.2.map fun row => (row.1, row.2.map (·.m)))
      = some [[(5, [10]), (2, [20]), (9, [30])]] ∧
    (readMsh (g7Text true)).map (fun r => r.nodal.map fun p => p.2.map fun row => (row.1, row.2.map (·.m)))
      = some [[(5, [30]), (2, [0]), (9, [0])]] := by
  decide

end Femio.C01
