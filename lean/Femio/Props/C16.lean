import Femio.Lemmas.C16Knn
import Femio.Lemmas.C16Term
import Femio.Lemmas.C16Hop
import Femio.Lemmas.C16Haus
import Mathlib.Logic.Relation
/-! # C16 — spatial searches return exactly what brute force returns

Property theorems about the model `Femio/Model/Search.lean` (transcription of `build_octree_node`,
`_nns_from_nodes_to_nodes`, `_calc_directed_hausdorff_nodes`, the BFS kernels of
`calculate_euclidean_hop_graph`).  All distances are squared; `Key` order = heap order of the code
(`(d², −idx)`: nearer first, larger index first on ties). -/
namespace Femio.C16

/-! ## bounds -/

/-- **C16_lb_sound**: the box lower bound `possible_dist_min` never exceeds the distance to a point of the box. -/
theorem C16_lb_sound (b : Box) (q p : P3) (h : inBox b p = true) : lb2 b q ≤ dist2 q p := lb2_le b q p h

example : inBox ⟨⟨0, 0, 0⟩, 1⟩ ⟨1, -1, 1/2⟩ = true ∧ lb2 ⟨⟨0, 0, 0⟩, 1⟩ ⟨3, 0, 0⟩ = 4 ∧ dist2 ⟨3, 0, 0⟩ ⟨1, -1, 1/2⟩ = 21/4 := by
  decide +kernel

/-- **C16_ub_sound**: the two upper bounds of the Hausdorff kernel dominate every pair distance:
    `possible_dist_range(...)[1]` for (point, box) and `possible_dist_max_node` for (box, box). -/
theorem C16_ub_sound :
    (∀ (b : Box) (q p : P3), inBox b p = true → dist2 q p ≤ hi2 b q) ∧
    (∀ (a b : Box) (pa pb : P3), 0 ≤ a.w → 0 ≤ b.w → inBox a pa = true → inBox b pb = true → dist2 pa pb ≤ ubNode2 a b) :=
  ⟨fun b q p h => hi2_ge b q p h, fun a b pa pb ha hb hpa hpb => ubNode2_ge a b pa pb hpa hpb ha hb⟩

example : hi2 ⟨⟨0, 0, 0⟩, 1⟩ ⟨3, 0, 0⟩ = 18 ∧ ubNode2 ⟨⟨0, 0, 0⟩, 1⟩ ⟨⟨4, 0, 0⟩, 1/2⟩ = 139/4 := by
  decide +kernel

/-! ## the octree -/

/-- the root box of the wrappers (centre = midpoint of the bounding box, half width `w ≥` half the largest extent,
    which `0.51 * extent` is) contains every point of the bounding box -/
theorem C16_root_contains (lo hi p : P3) (w : Rat)
    (hx : lo.x ≤ p.x ∧ p.x ≤ hi.x) (hy : lo.y ≤ p.y ∧ p.y ≤ hi.y) (hz : lo.z ≤ p.z ∧ p.z ≤ hi.z)
    (hwx : (hi.x - lo.x) / 2 ≤ w) (hwy : (hi.y - lo.y) / 2 ≤ w) (hwz : (hi.z - lo.z) / 2 ≤ w) :
    inBox ⟨⟨(lo.x + hi.x) / 2, (lo.y + hi.y) / 2, (lo.z + hi.z) / 2⟩, w⟩ p = true := by
  rw [inBox_iff]
  refine ⟨⟨?_, ?_⟩, ⟨?_, ?_⟩, ⟨?_, ?_⟩⟩ <;> simp only [] <;> linarith [hx.1, hx.2, hy.1, hy.2, hz.1, hz.2]

/-- **C16_leaf_contains**: for targets inside the root box (exact arithmetic) the tree built by recursive descent
    stores every target exactly once, every index stored under a box lies in that box (`WB`), and a point lies in
    every box along the path it is assigned to — in particular in its leaf. -/
theorem C16_leaf_contains (pt : Nat → P3) (n depth : Nat) (root : Box) (hw : 0 ≤ root.w)
    (hall : ∀ i, i < n → inBox root (pt i) = true) :
    WB pt root (build pt depth root (List.range n)) ∧
    (build pt depth root (List.range n)).idxs.Perm (List.range n) ∧
    ∀ i, i < n → ∀ pre, pre <+: assign root (pt i) depth → inBox (boxOf root pre) (pt i) = true :=
  ⟨WB_build pt depth root _ hw (fun i hi => hall i (List.mem_range.mp hi)),
   build_idxs_perm pt depth root _,
   fun i hi pre hpre => in_prefix_box root (pt i) hw (hall i hi) depth pre hpre⟩

/-- points on the border between two children (here the centre plane x = 0) go to the first child that contains
    them, exactly one leaf each -/
example : assign ⟨⟨0, 0, 0⟩, 4⟩ ⟨0, 1, -1⟩ 2 = [1, 6] ∧
    (build (fun i => [⟨0, 1, -1⟩, ⟨-3, 2, 2⟩, (⟨0, 1, -1⟩ : P3)].getD i ⟨0, 0, 0⟩) 2 ⟨⟨0, 0, 0⟩, 4⟩ [0, 1, 2]).idxs = [0, 2, 1] := by
  decide +kernel

/-! ## branch and bound -/

/-- **C16_branch_and_bound**: abstract, order-independent correctness. From the initial state (the root queued,
    empty result) take *any* sequence of steps — skip a subtree none of whose points beats the full result heap, drop a
    subtree without admissible points, expand an inner node, scan a leaf (`heappushpop`), reorder the queue
    arbitrarily —; whenever the queue is empty the bounded result list holds the `k` smallest keys of all points,
    ascending. -/
theorem C16_branch_and_bound {T α : Type} [LinearOrder α] (tr : SearchTree T α) (k : ℕ) (root : T) (s : St T α)
    (hreach : Relation.ReflTransGen (Step tr k) ⟨[root], [], [], []⟩ s) (hq : s.queue = []) :
    IsBest k (tr.pts root) s.res := by
  have hinv : SInv tr k (tr.pts root) s := by
    clear hq
    induction hreach with
    | refl => exact ⟨by simp, isBest_nil k, by simp⟩
    | tail _ hstep ih => exact step_inv ih hstep
  exact final_best hinv hq

/-- non-vacuity: a two-leaf tree over `ℕ`, scan one leaf, skip the other (its points cannot beat the full heap) -/
example :
    let tr : SearchTree ℕ ℕ := ⟨fun t => if t = 0 then [1, 9, 5, 7] else if t = 1 then [1, 5] else [9, 7],
      fun t => if t = 0 then some [1, 2] else none,
      by
        intro t cs h
        by_cases h0 : t = 0
        · subst h0; simp at h; subst h; decide
        · simp [h0] at h⟩
    IsBest 2 (tr.pts 0) [1, 5] := by
  intro tr
  have h1 : Step tr 2 ⟨[0], [], [], []⟩ ⟨[1, 2] ++ [], [], [], []⟩ := Step.expand 0 [1, 2] [] [] [] [] (by simp [tr])
  have h2 : Step tr 2 ⟨[1, 2], [], [], []⟩ ⟨[2], (tr.pts 1).foldl (fun r x => ins 2 x r) [], (tr.pts 1).reverse ++ [], []⟩ :=
    Step.scan 1 [2] [] [] [] (by simp [tr])
  have hres : (tr.pts 1).foldl (fun r x => ins 2 x r) [] = [1, 5] := by simp [tr, ins]
  rw [hres] at h2
  have h3 : Step tr 2 ⟨[2], [1, 5], (tr.pts 1).reverse ++ [], []⟩ ⟨[], [1, 5], (tr.pts 1).reverse ++ [], tr.pts 2 ++ []⟩ :=
    Step.skip 2 [] [1, 5] _ [] rfl (by simp [tr])
  exact C16_branch_and_bound tr 2 0 _
    (Relation.ReflTransGen.tail (Relation.ReflTransGen.tail (Relation.ReflTransGen.single h1) h2) h3) rfl

/-! ## the concrete k-nearest search -/

/-- **C16_knn_terminates**: `Oct.size` iterations always empty the queue (the driver uses exactly this fuel). -/
theorem C16_knn_terminates (pt : Nat → P3) (k : Nat) (bound : Option Rat) (root : Box) (t : Oct) (q : P3) :
    (knnRun pt k bound root t q t.size).queue = [] := knnRun_queue_empty pt k bound root t q

/-- **C16_knn_refines**: the concrete best-first loop (queue ordered by the box lower bound, strict pruning against the
    k-th best, `distance_upper_bound` on boxes and on points) over the octree of the targets `0..n-1` returns the `k` best
    keys `(d², idx)` among the targets within the bound — ascending distance, larger index first on exact ties —
    for every point set inside the root box, every depth, every `k`, every bound, every query point. -/
theorem C16_knn_refines (pt : Nat → P3) (q : P3) (bound : Option Rat) (n depth k : Nat) (root : Box) (hw : 0 ≤ root.w)
    (hall : ∀ i, i < n → inBox root (pt i) = true) :
    let t := build pt depth root (List.range n)
    IsBest k (admKeys pt q bound (List.range n)) (knnRun pt k bound root t q t.size).res := by
  intro t
  exact knn_correct pt q bound n depth k root hw hall t.size (knnRun_queue_empty pt k bound root t q)

/-- **C16_knn_output**: what the caller sees. The row for one query has exactly `k` entries; with
    `c = min k #{targets within the bound}`, the first `c` entries are targets within the bound listed by ascending
    squared distance, each with the offset vector `target − query` and its squared length, no other target within the
    bound is strictly nearer than a listed one, and the remaining `k − c` entries are the padding (`-1`, `inf`). -/
theorem C16_knn_output (pt : Nat → P3) (q : P3) (bound : Option Rat) (n depth k : Nat) (root : Box) (hw : 0 ≤ root.w)
    (hall : ∀ i, i < n → inBox root (pt i) = true) :
    let out := knn pt k bound root (build pt depth root (List.range n)) q
    let adm := (List.range n).filter fun i => !exceeds bound (dist2 q (pt i))
    let c := min k adm.length
    out.length = k ∧
    (∀ j, c ≤ j → j < k → out[j]? = some none) ∧
    (∃ hits : List Hit, hits.length = c ∧ out = hits.map some ++ List.replicate (k - c) none ∧
      hits.Pairwise (fun a b => a.d2 ≤ b.d2) ∧ (hits.map (·.idx)).Nodup ∧
      (∀ h ∈ hits, h.idx ∈ adm ∧ h.d2 = dist2 q (pt h.idx) ∧
        h.vec = ⟨(pt h.idx).x - q.x, (pt h.idx).y - q.y, (pt h.idx).z - q.z⟩) ∧
      (∀ i ∈ adm, i ∉ hits.map (·.idx) → ∀ h ∈ hits, h.d2 ≤ dist2 q (pt i))) := by
  intro out adm c
  have hbest := C16_knn_refines pt q bound n depth k root hw hall
  simp only at hbest
  set t := build pt depth root (List.range n) with ht
  set res := (knnRun pt k bound root t q t.size).res with hres
  obtain ⟨hsorted, hlen, rest, hperm, hrest⟩ := hbest
  -- admissible keys = keys of the admissible indices
  have hkeys : admKeys pt q bound (List.range n) = keysOf pt q adm := by
    simp only [admKeys, keysOf, adm, List.filter_map]
    rfl
  have hlen' : res.length = c := by
    rw [hlen, hkeys]; simp [keysOf, c]
  have hck : c ≤ k := Nat.min_le_left _ _
  have hout : out = (res.map fun x => some (⟨x.idx, ⟨(pt x.idx).x - q.x, (pt x.idx).y - q.y, (pt x.idx).z - q.z⟩, x.d⟩ : Hit))
      ++ List.replicate (k - c) none := by
    simp only [out, knn, knnOut, ← hres, ← ht, hlen']
  -- membership facts for result keys
  have hmem : ∀ x ∈ res, x.idx ∈ adm ∧ x.d = dist2 q (pt x.idx) := by
    intro x hx
    have : x ∈ keysOf pt q adm := by
      rw [← hkeys]; exact hperm.symm.subset (List.mem_append_left _ hx)
    simp only [keysOf, List.mem_map] at this
    obtain ⟨i, hi, rfl⟩ := this
    exact ⟨hi, rfl⟩
  have hnodup_keys : (keysOf pt q adm).Nodup := by
    have hadm : adm.Nodup := (List.nodup_range).filter _
    exact hadm.map (fun a b hab => by simpa [Key.mk.injEq] using (congrArg Key.idx hab))
  have hnodup_res : (res.map (·.idx)).Nodup := by
    have h1 : (res ++ rest).Nodup := (hperm.nodup_iff).mp (hkeys ▸ hnodup_keys)
    have h2 : res.Nodup := (List.nodup_append.mp h1).1
    refine (List.nodup_map_iff_inj_on h2).mpr ?_
    intro x hx y hy hxy
    have hx' := (hmem x hx).2
    have hy' := (hmem y hy).2
    cases x; cases y; simp_all
  refine ⟨?_, ?_, ?_⟩
  · rw [hout]; simp [hlen']; omega
  · intro j hj hjk
    rw [hout, List.getElem?_append_right (by simp [hlen']; exact hj)]
    simp only [List.length_map, hlen']
    rw [List.getElem?_replicate]
    simp; omega
  · refine ⟨res.map fun x => (⟨x.idx, ⟨(pt x.idx).x - q.x, (pt x.idx).y - q.y, (pt x.idx).z - q.z⟩, x.d⟩ : Hit), ?_, ?_, ?_, ?_, ?_, ?_⟩
    · simp [hlen']
    · rw [hout]; simp [List.map_map, Function.comp_def]
    · rw [List.pairwise_map]
      refine hsorted.imp ?_
      intro a b hab
      rw [key_le_iff] at hab
      rcases hab with h | h
      · exact le_of_lt h
      · exact le_of_eq h.1
    · simpa [List.map_map, Function.comp_def] using hnodup_res
    · intro h hh
      simp only [List.mem_map] at hh
      obtain ⟨x, hx, rfl⟩ := hh
      exact ⟨(hmem x hx).1, (hmem x hx).2, rfl⟩
    · intro i hi hnot h hh
      simp only [List.mem_map] at hh
      obtain ⟨x, hx, rfl⟩ := hh
      simp only
      -- the key of i is in `rest`
      have hki : (⟨dist2 q (pt i), i⟩ : Key) ∈ res ++ rest := by
        apply hperm.subset
        rw [hkeys]; exact List.mem_map.mpr ⟨i, hi, rfl⟩
      rcases List.mem_append.mp hki with hin | hin
      · exact absurd (List.mem_map.mpr ⟨_, List.mem_map.mpr ⟨_, hin, rfl⟩, rfl⟩) (by simpa [List.map_map] using hnot)
      · have := hrest _ hin x hx
        rw [key_le_iff] at this
        rcases this with h | h
        · exact le_of_lt h
        · exact le_of_eq h.1

/-- non-vacuity: five targets with an exact tie (indices 1 and 3 at distance² 1 from the query), k = 3 with bound² = 4,
    then k = 6 (> number of targets) unbounded: ties come larger index first, the tail is padding -/
example :
    let P : List P3 := [⟨0, 0, 0⟩, ⟨1, 0, 0⟩, ⟨3, 3, 3⟩, ⟨-1, 0, 0⟩, ⟨0, 2, 0⟩]
    let pt : Nat → P3 := fun i => P.getD i ⟨0, 0, 0⟩
    let root : Box := ⟨⟨1, 3/2, 3/2⟩, 51/25⟩
    (knn pt 3 (some 4) root (build pt 3 root (List.range 5)) ⟨0, 0, 0⟩).map (fun o => o.map (·.idx)) = [some 0, some 3, some 1] ∧
    (knn pt 6 none root (build pt 3 root (List.range 5)) ⟨0, 0, 0⟩).map (fun o => o.map (·.idx))
      = [some 0, some 3, some 1, some 4, some 2, none] ∧
    (∀ i, i < 5 → inBox root (pt i) = true) := by
  decide +kernel

/-! ## Hausdorff distance -/

/-- **C16_hausdorff**: the pruned max–min (leaf upper bounds, descending order with `break`, early exit of the inner
    search) equals `max_a min_b |a − b|²`: it is the minimal squared distance of some point of A to B, and every point
    of A has a point of B at most that far.  The symmetric value is the larger of the two directed ones. -/
theorem C16_hausdorff (ptA ptB : Nat → P3) (nA nB depth : Nat) (root : Box) (hw : 0 ≤ root.w)
    (hA : ∀ i, i < nA → inBox root (ptA i) = true) (hB : ∀ j, j < nB → inBox root (ptB j) = true)
    (hnA : 0 < nA) (hnB : 0 < nB) :
    IsHausdorff2 ptA ptB nA nB (hausDirected ptA ptB nA nB depth root) ∧
    hausSymmetric ptA ptB nA nB depth root
      = maxR (hausDirected ptA ptB nA nB depth root) (hausDirected ptB ptA nB nA depth root) :=
  ⟨hausDirected_correct ptA ptB nA nB depth root hw hA hB hnA hnB, rfl⟩

example :
    let A : List P3 := [⟨0, 0, 0⟩, ⟨4, 0, 0⟩, ⟨0, 0, 0⟩]
    let B : List P3 := [⟨1, 0, 0⟩, ⟨0, 2, 0⟩]
    let pa : Nat → P3 := fun i => A.getD i ⟨0, 0, 0⟩
    let pb : Nat → P3 := fun i => B.getD i ⟨0, 0, 0⟩
    hausDirected pa pb 3 2 2 ⟨⟨2, 1, 0⟩, 51/25⟩ = 9 ∧ hausDirected pb pa 2 3 2 ⟨⟨2, 1, 0⟩, 51/25⟩ = 4 := by
  decide +kernel

/-- `possible_dist_max_node` with the `abs` of the centre differences dropped ("it is squared anyway"): the variant is NOT an
    upper bound when box `b` lies on the + side of box `a` -/
def ubNode2Signed (a b : Box) : Rat :=
  let dw := a.w + b.w
  sq (a.c.x - b.c.x + dw) + sq (a.c.y - b.c.y + dw) + sq (a.c.z - b.c.z + dw)

/-- **C16_ub_needs_abs_counterexample**: the `abs` in the box-to-box upper bound is needed for the sense of the direction
    from the source box to the target box: for a target box on the + side the signed variant is below an actual pair distance
    (so `C16_ub_sound` fails for it), while for the point-reflected configuration it coincides with `ubNode2`. -/
theorem C16_ub_needs_abs_counterexample :
    let a : Box := ⟨⟨0, 0, 0⟩, 1⟩
    let b : Box := ⟨⟨10, 0, 0⟩, 1⟩
    inBox a ⟨-1, 0, 0⟩ = true ∧ inBox b ⟨11, 0, 0⟩ = true ∧
    ubNode2Signed a b < dist2 ⟨-1, 0, 0⟩ ⟨11, 0, 0⟩ ∧ dist2 ⟨-1, 0, 0⟩ ⟨11, 0, 0⟩ ≤ ubNode2 a b ∧
    ubNode2Signed b a = ubNode2 b a := by
  decide +kernel

theorem dist2_pos_of_ne (p q : P3) (h : p ≠ q) : 0 < dist2 p q := by
  rcases p with ⟨px, py, pz⟩
  rcases q with ⟨qx, qy, qz⟩
  simp only [dist2, sq]
  by_contra hc
  have h0 : (px - qx) * (px - qx) + (py - qy) * (py - qy) + (pz - qz) * (pz - qz) ≤ 0 := not_lt.mp hc
  have hx : px - qx = 0 := mul_self_eq_zero.mp (le_antisymm
    (by nlinarith [mul_self_nonneg (py - qy), mul_self_nonneg (pz - qz)]) (mul_self_nonneg _))
  have hy : py - qy = 0 := mul_self_eq_zero.mp (le_antisymm
    (by nlinarith [mul_self_nonneg (px - qx), mul_self_nonneg (pz - qz)]) (mul_self_nonneg _))
  have hz : pz - qz = 0 := mul_self_eq_zero.mp (le_antisymm
    (by nlinarith [mul_self_nonneg (px - qx), mul_self_nonneg (py - qy)]) (mul_self_nonneg _))
  apply h
  have e1 : px = qx := by linarith
  have e2 : py = qy := by linarith
  have e3 : pz = qz := by linarith
  subst e1; subst e2; subst e3; rfl

/-- **C16_hausdorff_positive**: the directed Hausdorff distance is zero only if every source point IS a target point -- there
    is no tolerance in the definition: one source point that differs from every target point (by however little, relative to
    the size of the coordinates) makes the value positive.  (A "same cloud" shortcut may test exact equality only.) -/
theorem C16_hausdorff_positive (ptA ptB : Nat → P3) (nA nB : Nat) (h : Rat) (H : IsHausdorff2 ptA ptB nA nB h)
    (i : Nat) (hi : i < nA) (hne : ∀ j, j < nB → ptA i ≠ ptB j) : 0 < h := by
  obtain ⟨m, ⟨⟨j, hj, hjm⟩, _⟩, hmh⟩ := H.2 i hi
  have := dist2_pos_of_ne (ptA i) (ptB j) (hne j hj)
  rw [hjm] at this
  exact lt_of_lt_of_le this hmh

/-- non-vacuity: two clouds of equal size and order at coordinates ~10^7 that differ by one unit in one coordinate of one point
    (relative 10^-7): the directed values are 1 both ways, not 0 -/
example :
    let A : List P3 := [⟨10000000, -30000000, 20000000⟩, ⟨10000040, -30000000, 20000007⟩, ⟨10000013, -29999990, 20000000⟩]
    let B : List P3 := [⟨10000000, -30000000, 20000000⟩, ⟨10000040, -30000001, 20000007⟩, ⟨10000013, -29999990, 20000000⟩]
    let pa : Nat → P3 := fun i => A.getD i ⟨0, 0, 0⟩
    let pb : Nat → P3 := fun i => B.getD i ⟨0, 0, 0⟩
    let root : Box := ⟨⟨10000020, -29999995, 20000007/2⟩, 51/100 * 40⟩
    hausDirected pa pb 3 3 2 root = 1 ∧ hausDirected pb pa 3 3 2 root = 1 ∧ pa 1 ≠ pb 0 ∧ pa 1 ≠ pb 1 ∧ pa 1 ≠ pb 2 := by
  decide +kernel

/-- **C16_hausdorff_directed_not_symmetric**: the two directed values differ in general (here 9 from the larger set to the
    smaller one, 4 the other way): `directed=True` must answer for (self -> target) whichever cloud is larger. -/
theorem C16_hausdorff_directed_not_symmetric :
    let A : List P3 := [⟨0, 0, 0⟩, ⟨4, 0, 0⟩, ⟨0, 0, 0⟩]
    let B : List P3 := [⟨1, 0, 0⟩, ⟨0, 2, 0⟩]
    let pa : Nat → P3 := fun i => A.getD i ⟨0, 0, 0⟩
    let pb : Nat → P3 := fun i => B.getD i ⟨0, 0, 0⟩
    hausDirected pa pb 3 2 2 ⟨⟨2, 1, 0⟩, 51/25⟩ ≠ hausDirected pb pa 2 3 2 ⟨⟨2, 1, 0⟩, 51/25⟩ := by
  decide +kernel

/-! ## hop graph -/

/-- **C16_hop_graph**: the BFS kernels return exactly the vertices reachable in the node–element graph through
    elements (always) and through nodes inside the ball (`nbd`): `w` is listed for the source node `v` iff `w ≠ v` is a
    node reachable from `v`; `f` is listed for the source element `e` iff `f ≠ e` is an element reachable from `e`.
    `n` bounds all vertex numbers (`V + E`). -/
theorem C16_hop_graph (h : Hop) (nbd : Nat → Bool) (n : Nat) (hsucc : ∀ x y, y ∈ hopSucc h x → y < n) :
    (∀ v w, v < n → (w ∈ hopNodal h nbd n v ↔ w < h.V ∧ w ≠ v ∧
      Relation.ReflTransGen (fun x y => y ∈ hopSucc h x ∧ hopAllowed h nbd y = true) v w)) ∧
    (∀ e f, h.V + e < n → (f ∈ hopElemental h nbd n e ↔ f ≠ e ∧
      Relation.ReflTransGen (fun x y => y ∈ hopSucc h x ∧ hopAllowed h nbd y = true) (h.V + e) (h.V + f))) :=
  ⟨fun v w hv => hopNodal_correct h nbd n v hv hsucc w, fun e f he => hopElemental_correct h nbd n e he hsucc f⟩

/-- a path of three segments 0–1–2–3 (elements 4, 5, 6): from node 0 with nodes 1, 2 inside the ball, node 3 outside -/
example :
    let h : Hop := ⟨4, fun v => [[0], [0, 1], [1, 2], [2]].getD v [], fun e => [[0, 1], [1, 2], [2, 3]].getD e []⟩
    hopNodal h (fun w => decide (w ≤ 2)) 7 0 = [1, 2] ∧ hopElemental h (fun w => decide (w ≤ 2)) 7 0 = [1, 2] := by
  decide

/-- **C16_hop_nodal_chain**: the docstring's definition of the nodal graph. `w` is listed for the source node `v` iff
    `w ≠ v` and there is a chain of nodes `v = v_0, v_1, …, v_n = w` in which consecutive nodes share an element and every
    `v_i` (i ≥ 1) lies inside the ball of `v` (`nbd`). Hypothesis: `nodesOf` returns node numbers (`< V`). -/
theorem C16_hop_nodal_chain (h : Hop) (nbd : Nat → Bool) (n v : Nat) (hv : v < h.V) (hVn : h.V ≤ n)
    (hsucc : ∀ x y, y ∈ hopSucc h x → y < n) (hN : ∀ e w, w ∈ h.nodesOf e → w < h.V) (w : Nat) :
    w ∈ hopNodal h nbd n v ↔ w ≠ v ∧ Relation.ReflTransGen
      (fun a b => (∃ e, e ∈ h.elemsOf a ∧ b ∈ h.nodesOf e) ∧ nbd b = true) v w :=
  hopNodal_chain h nbd n v hv hVn hsucc hN w

/-- the elemental kernel is *not* the docstring's chain of elements "each within r of e, consecutive ones sharing a
    node": it additionally needs the shared node itself inside the ball.  Three elements e0 = {0,1}, e1 = {1,2},
    e2 = {2,3}; from e0 the nodes 0, 1, 3 are near (node 3 belongs to e2, so dist(e0, e2) < r) but the node 2 shared by e1
    and e2 is not: e2 is not reached from e0, although e0 is reached from e2 when node 2 is near e2 (it is its own
    vertex) and node 1 is near e2 -/
example :
    let h : Hop := ⟨4, fun v => [[0], [0, 1], [1, 2], [2]].getD v [], fun e => [[0, 1], [1, 2], [2, 3]].getD e []⟩
    hopElemental h (fun w => decide (w ≠ 2)) 7 0 = [1] ∧ hopElemental h (fun w => decide (w ≠ 0)) 7 2 = [1, 0] := by
  decide

end Femio.C16
