import Femio.Model.GeomHistory
import Mathlib.Tactic.Linarith
/-! # C11 — call histories on one object (`Model/GeomHistory.lean`)

The kernel theorems of `Props/C11.lean` are about the value a query computes; these are about what a query RETURNS when
other queries were made on the same object before (stream `sequence` of `harness/c11.py`, driver command `c11.seq`).

* `C11_hist_read_only` — a call answered from the stored variable leaves the stored variables as they are (the clause the
  seeded change C11-5, `np.abs(metric, out=metric)`, breaks: `C11_hist_inplace_counterexample`);
* `C11_hist_signed_stable` — after a variable is stored, every later call of that query returns `_validate_metric` of
  exactly that variable: intervening absolute-value queries never disturb a later signed query;
* `C11_hist_values_are_query_values` — every value returned anywhere in any history is the value the query returns on a
  FRESH object for some (mode, options): reuse of the stored variable (the open known finding `options-ignored`) is the
  only departure, in particular no value has a sign the element does not have;
* `C11_hist_positive_invisible` — on a mesh without negative elements on which the modes agree, every call of every history
  returns the fresh value (histories are invisible);
* `C11_hist_reflect_signed` — a history of signed queries commutes with any map of the values; with `f = (-·)` and the kernel
  theorems `…_linear` at `det = -1`: the signed values returned by a history on the mirrored mesh are exactly the negatives
  of those returned by the same history on the mesh ("change sign exactly under a reflection", for histories). -/
namespace Femio.C11
variable {V : Type}

/-- what `metric < 0.` and `np.abs` satisfy -/
structure Sgn.Lawful (S : Sgn V) : Prop where
  abs_nonneg : ∀ v, S.isNeg (S.abs v) = false
  abs_of_nonneg : ∀ v, S.isNeg v = false → S.abs v = v

theorem C11_hist_ratSgn_lawful : ratSgn.Lawful := by
  constructor
  · intro v
    simp only [ratSgn, decide_eq_false_iff_not, not_lt]
    split <;> linarith
  · intro v h
    simp only [ratSgn, decide_eq_false_iff_not] at h
    simp [ratSgn, h]

theorem C11_hist_areaSgn_lawful : areaSgn.Lawful := ⟨fun _ => rfl, fun _ _ => rfl⟩

section lemmas
variable {S : Sgn V}

theorem anyNeg_absVals (hS : S.Lawful) (v : Vals V) : anyNeg S (absVals S v) = false := by
  induction v with
  | nil => rfl
  | cons x t ih =>
    simp only [anyNeg, absVals, List.map_cons, List.any_cons, Bool.or_eq_false_iff] at ih ⊢
    exact ⟨hS.abs_nonneg _, ih⟩

theorem absVals_of_noNeg (hS : S.Lawful) (v : Vals V) (h : anyNeg S v = false) : absVals S v = v := by
  induction v with
  | nil => rfl
  | cons x t ih =>
    simp only [anyNeg, List.any_cons, Bool.or_eq_false_iff] at h
    simp only [absVals, List.map_cons, List.cons.injEq]
    exact ⟨by rw [hS.abs_of_nonneg _ h.1], ih h.2⟩

theorem validate_noNeg (hS : S.Lawful) (o : Opts) (v : Vals V) (h : anyNeg S v = false) : validate S o v = some v := by
  simp only [validate, h, Bool.and_false, Bool.false_eq_true, ↓reduceIte, Option.some.injEq]
  split
  · exact absVals_of_noNeg hS v h
  · rfl

theorem validate_signed (v : Vals V) : validate S ⟨false, false⟩ v = some v := by
  simp [validate]

end lemmas

/-! ### how a step decomposes -/

theorem stepBase_read {cfg : HCfg} {S : Sgn V} {mi : MeshInfo V} {c : Call} {s : HState V} {w : Vals V}
    (he : c.explicit = false) (hb : s.base = some w) :
    stepBase cfg S mi c s = readStored cfg S c w s (fun r => { s with base := some r }) := by
  simp only [stepBase, he, hb, Bool.false_eq_true, ↓reduceIte]

theorem stepBase_compute {cfg : HCfg} {S : Sgn V} {mi : MeshInfo V} {c : Call} {s : HState V}
    (h : c.explicit = true ∨ s.base = none) : stepBase cfg S mi c s = baseCompute S mi c s := by
  rcases h with h | h
  · simp only [stepBase, h, ↓reduceIte]
  · by_cases he : c.explicit = true
    · simp only [stepBase, he, ↓reduceIte]
    · simp only [stepBase, he, h, Bool.false_eq_true, ↓reduceIte]

theorem stepMetric_read {cfg : HCfg} {S : Sgn V} {mi : MeshInfo V} {c : Call} {s : HState V} {w : Vals V}
    (he : c.explicit = false) (hb : s.metric = some w) :
    stepMetric cfg S mi c s = readStored cfg S c w s (fun r => { s with metric := some r }) := by
  simp only [stepMetric, he, hb, Bool.false_eq_true, ↓reduceIte]

theorem stepMetric_compute {cfg : HCfg} {S : Sgn V} {mi : MeshInfo V} {c : Call} {s : HState V}
    (h : c.explicit = true ∨ s.metric = none) : stepMetric cfg S mi c s = metricCompute S mi c s := by
  rcases h with h | h
  · simp only [stepMetric, h, ↓reduceIte]
  · by_cases he : c.explicit = true
    · simp only [stepMetric, he, ↓reduceIte]
    · simp only [stepMetric, he, h, Bool.false_eq_true, ↓reduceIte]

/-- what a call answered from the stored variable `w` returns -/
def fromStored (S : Sgn V) (w : Vals V) (c : Call) : Out V :=
  match validate S c.opts w with
  | none => .negative
  | some r => .vals r

theorem readStored_tree (S : Sgn V) (c : Call) (w : Vals V) (s : HState V) (set : Vals V → HState V) :
    readStored HCfg.tree S c w s set = (fromStored S w c, s) := by
  simp only [readStored, fromStored, HCfg.tree, Bool.false_and, Bool.false_eq_true, ↓reduceIte]
  cases validate S c.opts w <;> rfl

/-! ### a call answered from the stored variable does not write -/

/-- **stored variables are read-only for the calls they answer** (the tree: `metric = np.abs(metric)`) -/
theorem C11_hist_read_only (S : Sgn V) (mi : MeshInfo V) (c : Call) (s : HState V) (hc : c.explicit = false) :
    (∀ w, s.base = some w → (stepBase HCfg.tree S mi c s).2 = s) ∧
    (∀ w, s.metric = some w → (stepMetric HCfg.tree S mi c s).2 = s) :=
  ⟨fun w hw => by rw [stepBase_read hc hw, readStored_tree], fun w hw => by rw [stepMetric_read hc hw, readStored_tree]⟩

/-- **a stored variable is stable**: once `'volume'` / `'area'` holds `w`, every later call of that query with
    `elements=None` - whatever its mode and options, however many - returns `_validate_metric(w)`; in particular a signed
    query (`⟨false, false⟩`) returns exactly `w` again after any number of absolute-value queries -/
theorem C11_hist_signed_stable (S : Sgn V) (mi : MeshInfo V) (w : Vals V) :
    ∀ (cs : List Call) (s : HState V), s.base = some w → (∀ c ∈ cs, c.api = .base ∧ c.explicit = false) →
      runCalls HCfg.tree S mi cs s = cs.map (fromStored S w) := by
  intro cs
  induction cs with
  | nil => intros; rfl
  | cons c cs ih =>
    intro s hs hc
    have h1 := hc c (List.mem_cons_self ..)
    have hstep : step HCfg.tree S mi c s = (fromStored S w c, s) := by
      simp only [step, h1.1]
      rw [stepBase_read h1.2 hs, readStored_tree]
    simp only [runCalls, List.map_cons, hstep]
    rw [ih s hs (fun c' hc' => hc c' (List.mem_cons_of_mem _ hc'))]

/-- the history of seeded change C11-5 on the tree: [absolute, signed] after the variable is stored returns `|w|`, then `w` -/
theorem C11_hist_signed_after_abs (S : Sgn V) (mi : MeshInfo V) (w : Vals V) (s : HState V) (hs : s.base = some w)
    (m1 m2 : Mode) (u1 u2 : Bool) :
    runCalls HCfg.tree S mi [⟨.base, m1, ⟨false, true⟩, false, u1⟩, ⟨.base, m2, ⟨false, false⟩, false, u2⟩] s
      = [.vals (absVals S w), .vals w] := by
  rw [C11_hist_signed_stable S mi w _ s hs (by simp)]
  simp [fromStored, validate]

/-! ### every returned value is a fresh-object value of some (mode, options) -/

/-- `r` is what the query returns on a fresh object for some mode and options -/
def IsQueryValue (S : Sgn V) (mi : MeshInfo V) (r : Vals V) : Prop := ∃ m o, validate S o (mi.fresh m) = some r

theorem isQueryValue_validate {S : Sgn V} (hS : S.Lawful) {mi : MeshInfo V} {w r : Vals V} (o : Opts)
    (hw : IsQueryValue S mi w) (hr : validate S o w = some r) : IsQueryValue S mi r := by
  obtain ⟨m, o', h'⟩ := hw
  by_cases ha : o'.retAbs = true
  · -- w = |fresh m|: validating it again changes nothing
    have hw' : w = absVals S (mi.fresh m) := by
      simp only [validate, ha, ↓reduceIte] at h'
      split at h'
      · exact absurd h' (by simp)
      · exact (Option.some.inj h').symm
    have hn : anyNeg S w = false := hw' ▸ anyNeg_absVals hS _
    have : r = w := by
      have := validate_noNeg hS o w hn
      rw [this] at hr
      exact (Option.some.inj hr).symm
    exact ⟨m, o', this ▸ h'⟩
  · have hw' : w = mi.fresh m := by
      simp only [validate, ha, Bool.false_eq_true, ↓reduceIte] at h'
      split at h'
      · exact absurd h' (by simp)
      · exact (Option.some.inj h').symm
    exact ⟨m, o, hw' ▸ hr⟩

/-- the invariant: both stored variables hold fresh-object values -/
def StoredOk (S : Sgn V) (mi : MeshInfo V) (s : HState V) : Prop :=
  (∀ w, s.base = some w → IsQueryValue S mi w) ∧ (∀ w, s.metric = some w → IsQueryValue S mi w)

/-- what one step has to establish -/
def StepOk (S : Sgn V) (mi : MeshInfo V) (x : Out V × HState V) : Prop :=
  StoredOk S mi x.2 ∧ ∀ r, x.1 = .vals r → IsQueryValue S mi r

theorem storedOk_setBase {S : Sgn V} {mi : MeshInfo V} {s : HState V} {r : Vals V} (hs : StoredOk S mi s)
    (hr : IsQueryValue S mi r) : StoredOk S mi { s with base := some r } :=
  ⟨fun w hw => by simp only [Option.some.injEq] at hw; exact hw ▸ hr, hs.2⟩

theorem storedOk_setMetric {S : Sgn V} {mi : MeshInfo V} {s : HState V} {r : Vals V} (hs : StoredOk S mi s)
    (hr : IsQueryValue S mi r) : StoredOk S mi { s with metric := some r } :=
  ⟨hs.1, fun w hw => by simp only [Option.some.injEq] at hw; exact hw ▸ hr⟩

theorem readStored_ok {S : Sgn V} (hS : S.Lawful) {mi : MeshInfo V} (c : Call) {w : Vals V} {s : HState V}
    (set : Vals V → HState V) (hs : StoredOk S mi s) (hw : IsQueryValue S mi w) :
    StepOk S mi (readStored HCfg.tree S c w s set) := by
  rw [readStored_tree]
  refine ⟨hs, fun r h => ?_⟩
  simp only [fromStored] at h
  cases hv : validate S c.opts w with
  | none => simp [hv] at h
  | some r0 =>
    simp only [hv, Out.vals.injEq] at h
    exact h ▸ isQueryValue_validate hS c.opts hw hv

theorem baseCompute_ok {S : Sgn V} {mi : MeshInfo V} (c : Call) {s : HState V} (hs : StoredOk S mi s) :
    StepOk S mi (baseCompute S mi c s) := by
  unfold baseCompute
  cases hv : validate S c.opts (mi.fresh c.mode) with
  | none => exact ⟨hs, fun r h => by simp at h⟩
  | some r0 =>
    have hr : IsQueryValue S mi r0 := ⟨c.mode, c.opts, hv⟩
    refine ⟨?_, fun r h => ?_⟩
    · by_cases hu : c.update = true
      · simp only [hu, ↓reduceIte]; exact storedOk_setBase hs hr
      · simp only [hu, Bool.false_eq_true, ↓reduceIte]; exact hs
    · simp only [Out.vals.injEq] at h; exact h ▸ hr

theorem metricCompute_ok {S : Sgn V} {mi : MeshInfo V} (c : Call) {s : HState V} (hs : StoredOk S mi s) :
    StepOk S mi (metricCompute S mi c s) := by
  unfold metricCompute
  by_cases hsup : mi.metricSupported = true
  · simp only [hsup, Bool.not_true, Bool.false_eq_true, ↓reduceIte]
    cases hv : validate S c.opts (mi.fresh .centroid) with
    | none => exact ⟨hs, fun r h => by simp at h⟩
    | some r0 =>
      have hr : IsQueryValue S mi r0 := ⟨.centroid, c.opts, hv⟩
      have hs1 : StoredOk S mi (if mi.mixed = true then s else { s with base := some r0 }) := by
        by_cases hm : mi.mixed = true
        · simp only [hm, ↓reduceIte]; exact hs
        · simp only [hm, Bool.false_eq_true, ↓reduceIte]; exact storedOk_setBase hs hr
      by_cases hu : c.update = true
      · simp only [hu, Bool.not_true, Bool.false_eq_true, ↓reduceIte]
        by_cases hsome : s.metric.isSome = true
        · simp only [hsome, ↓reduceIte]
          exact ⟨hs1, fun r h => by simp at h⟩
        · simp only [hsome, Bool.false_eq_true, ↓reduceIte]
          exact ⟨storedOk_setMetric hs1 hr, fun r h => by simp only [Out.vals.injEq] at h; exact h ▸ hr⟩
      · simp only [hu, Bool.not_false, ↓reduceIte]
        exact ⟨hs, fun r h => by simp only [Out.vals.injEq] at h; exact h ▸ hr⟩
  · simp only [hsup, Bool.not_false, ↓reduceIte]
    exact ⟨hs, fun r h => by simp at h⟩

theorem step_storedOk {S : Sgn V} (hS : S.Lawful) (mi : MeshInfo V) (c : Call) (s : HState V) (hs : StoredOk S mi s) :
    StepOk S mi (step HCfg.tree S mi c s) := by
  unfold step
  cases c.api
  · by_cases he : c.explicit = true
    · simp only [stepBase_compute (Or.inl he)]; exact baseCompute_ok c hs
    · cases hb : s.base with
      | none => simp only [stepBase_compute (Or.inr hb)]; exact baseCompute_ok c hs
      | some w =>
        simp only [stepBase_read (Bool.eq_false_iff.mpr he) hb]
        exact readStored_ok hS c _ hs (hs.1 w hb)
  · by_cases he : c.explicit = true
    · simp only [stepMetric_compute (Or.inl he)]; exact metricCompute_ok c hs
    · cases hb : s.metric with
      | none => simp only [stepMetric_compute (Or.inr hb)]; exact metricCompute_ok c hs
      | some w =>
        simp only [stepMetric_read (Bool.eq_false_iff.mpr he) hb]
        exact readStored_ok hS c _ hs (hs.2 w hb)

/-- **no foreign values**: every value returned by any call of any history (started on an object whose stored variables,
    if any, came from queries) is the value the same query returns on a fresh object for some mode and options -/
theorem C11_hist_values_are_query_values {S : Sgn V} (hS : S.Lawful) (mi : MeshInfo V) :
    ∀ (cs : List Call) (s : HState V), StoredOk S mi s →
      ∀ o ∈ runCalls HCfg.tree S mi cs s, ∀ r, o = .vals r → IsQueryValue S mi r := by
  intro cs
  induction cs with
  | nil => intro s _ o ho; simp [runCalls] at ho
  | cons c cs ih =>
    intro s hs o ho r hr
    have h := step_storedOk hS mi c s hs
    simp only [runCalls, List.mem_cons] at ho
    rcases ho with ho | ho
    · exact h.2 r (ho ▸ hr)
    · exact ih _ h.1 o ho r hr

theorem storedOk_empty (S : Sgn V) (mi : MeshInfo V) : StoredOk S mi HState.empty :=
  ⟨fun _ h => by simp [HState.empty] at h, fun _ h => by simp [HState.empty] at h⟩

/-! ### meshes without negative elements on which the modes agree: histories are invisible -/

/-- no call is `calculate_element_metrics(elements=…, update=True)` (which raises once `'metric'` exists, DESIGN §5 F5) -/
def NoExplicitMetricUpdate (cs : List Call) : Prop := ∀ c ∈ cs, ¬ (c.api = .metric ∧ c.explicit = true ∧ c.update = true)

/-- stored variables are empty or hold `v` -/
def HoldsOnly (v : Vals V) (s : HState V) : Prop := (s.base = none ∨ s.base = some v) ∧ (s.metric = none ∨ s.metric = some v)

theorem C11_hist_positive_invisible {S : Sgn V} (hS : S.Lawful) (mi : MeshInfo V) (v : Vals V)
    (hmodes : ∀ m, mi.fresh m = v) (hpos : anyNeg S v = false) (hsup : mi.metricSupported = true) :
    ∀ (cs : List Call) (s : HState V), NoExplicitMetricUpdate cs → HoldsOnly v s →
      runCalls HCfg.tree S mi cs s = cs.map fun _ => .vals v := by
  intro cs
  induction cs with
  | nil => intros; rfl
  | cons c cs ih =>
    intro s hno hh
    have hval : ∀ o, validate S o v = some v := fun o => validate_noNeg hS o v hpos
    have hno' : NoExplicitMetricUpdate cs := fun c' hc' => hno c' (List.mem_cons_of_mem _ hc')
    have hc := hno c (List.mem_cons_self ..)
    have hread : ∀ set, readStored HCfg.tree S c v s set = (.vals v, s) := fun set => by
      rw [readStored_tree]; simp only [fromStored, hval]
    have hbase : baseCompute S mi c s = (.vals v, if c.update = true then { s with base := some v } else s) := by
      simp only [baseCompute, hmodes, hval]
    have hbaseOk : HoldsOnly v (if c.update = true then { s with base := some v } else s) := by
      split
      · exact ⟨Or.inr rfl, hh.2⟩
      · exact hh
    have hmetric : s.metric.isSome = false ∨ c.update = false →
        ∃ s', metricCompute S mi c s = (.vals v, s') ∧ HoldsOnly v s' := by
      intro h
      by_cases hu : c.update = true
      · have hn : s.metric.isSome = false := by rcases h with h | h <;> simp_all
        refine ⟨{ (if mi.mixed = true then s else { s with base := some v }) with metric := some v }, ?_, ?_, Or.inr rfl⟩
        · simp only [metricCompute, hsup, hmodes, hval, hu, hn, Bool.not_true, Bool.false_eq_true, ↓reduceIte]
        · show (if mi.mixed = true then s else { s with base := some v }).base = none ∨ _
          split
          · exact hh.1
          · exact Or.inr rfl
      · refine ⟨s, ?_, hh⟩
        simp only [metricCompute, hsup, hmodes, hval, hu, Bool.not_true, Bool.not_false, Bool.false_eq_true, ↓reduceIte]
    have key : (step HCfg.tree S mi c s).1 = .vals v ∧ HoldsOnly v (step HCfg.tree S mi c s).2 := by
      unfold step
      cases hapi : c.api
      · by_cases he : c.explicit = true
        · rw [stepBase_compute (Or.inl he), hbase]; exact ⟨rfl, hbaseOk⟩
        · cases hb : s.base with
          | none => rw [stepBase_compute (Or.inr hb), hbase]; exact ⟨rfl, hbaseOk⟩
          | some w =>
            have hw : w = v := by rcases hh.1 with h | h <;> simp_all
            subst hw
            rw [stepBase_read (Bool.eq_false_iff.mpr he) hb, hread]
            exact ⟨rfl, hh⟩
      · by_cases he : c.explicit = true
        · have hu : c.update = false := by
            by_cases hu : c.update = true
            · exact absurd ⟨hapi, he, hu⟩ hc
            · exact Bool.eq_false_iff.mpr hu
          obtain ⟨s', h1, h2⟩ := hmetric (Or.inr hu)
          rw [stepMetric_compute (Or.inl he), h1]; exact ⟨rfl, h2⟩
        · cases hb : s.metric with
          | none =>
            obtain ⟨s', h1, h2⟩ := hmetric (Or.inl (by simp [hb]))
            rw [stepMetric_compute (Or.inr hb), h1]; exact ⟨rfl, h2⟩
          | some w =>
            have hw : w = v := by rcases hh.2 with h | h <;> simp_all
            subst hw
            rw [stepMetric_read (Bool.eq_false_iff.mpr he) hb, hread]
            exact ⟨rfl, hh⟩
    simp only [runCalls, List.map_cons, key.1]
    rw [ih _ hno' key.2]

/-! ### signed histories commute with any map of the values (reflection: `f = (-·)`) -/

def mapVals (f : V → V) (v : Vals V) : Vals V := v.map fun x => (x.1, f x.2)
def mapState (f : V → V) (s : HState V) : HState V := ⟨s.base.map (mapVals f), s.metric.map (mapVals f)⟩
def mapOut (f : V → V) : Out V → Out V
  | .vals v => .vals (mapVals f v)
  | .negative => .negative
  | .unsupported => .unsupported
  | .updateError => .updateError
def mapStep (f : V → V) (x : Out V × HState V) : Out V × HState V := (mapOut f x.1, mapState f x.2)
/-- the mesh whose fresh values are the `f`-images (the mirrored mesh: `f = (-·)`, by the kernel theorems at `det = -1`) -/
def mapMesh (f : V → V) (mi : MeshInfo V) : MeshInfo V := { mi with fresh := fun m => mapVals f (mi.fresh m) }

theorem step_signed_map (S : Sgn V) (f : V → V) (mi : MeshInfo V) (c : Call) (s : HState V) (hc : c.opts = ⟨false, false⟩) :
    step HCfg.tree S (mapMesh f mi) c (mapState f s) = mapStep f (step HCfg.tree S mi c s) := by
  have hread : ∀ (w : Vals V) (s' : HState V) set, readStored HCfg.tree S c w s' set = (.vals w, s') := fun w s' set => by
    rw [readStored_tree]; simp only [fromStored, hc, validate_signed]
  have hbase : baseCompute S (mapMesh f mi) c (mapState f s) = mapStep f (baseCompute S mi c s) := by
    simp only [baseCompute, hc, validate_signed, mapMesh, mapStep]
    by_cases hu : c.update = true <;> simp [hu, mapOut, mapState]
  have hmetric : metricCompute S (mapMesh f mi) c (mapState f s) = mapStep f (metricCompute S mi c s) := by
    simp only [metricCompute, hc, validate_signed, mapMesh, mapStep]
    by_cases hsup : mi.metricSupported = true
    · by_cases hu : c.update = true
      · by_cases hmx : mi.mixed = true <;> cases hm : s.metric <;> simp [hsup, hu, hmx, hm, mapOut, mapState]
      · simp [hsup, hu, mapOut, mapState]
    · simp [hsup, mapOut, mapState]
  unfold step
  cases c.api
  · by_cases he : c.explicit = true
    · simp only [stepBase_compute (Or.inl he), hbase]
    · cases hb : s.base with
      | none =>
        have hb' : (mapState f s).base = none := by simp [mapState, hb]
        simp only [stepBase_compute (Or.inr hb), stepBase_compute (Or.inr hb'), hbase]
      | some w =>
        have hb' : (mapState f s).base = some (mapVals f w) := by simp [mapState, hb]
        simp only [stepBase_read (Bool.eq_false_iff.mpr he) hb, stepBase_read (Bool.eq_false_iff.mpr he) hb', hread, mapStep, mapOut]
  · by_cases he : c.explicit = true
    · simp only [stepMetric_compute (Or.inl he), hmetric]
    · cases hb : s.metric with
      | none =>
        have hb' : (mapState f s).metric = none := by simp [mapState, hb]
        simp only [stepMetric_compute (Or.inr hb), stepMetric_compute (Or.inr hb'), hmetric]
      | some w =>
        have hb' : (mapState f s).metric = some (mapVals f w) := by simp [mapState, hb]
        simp only [stepMetric_read (Bool.eq_false_iff.mpr he) hb, stepMetric_read (Bool.eq_false_iff.mpr he) hb', hread, mapStep, mapOut]

/-- **reflection sign in histories**: the outputs of a history of SIGNED queries (`raise_negative_* = False`,
    `return_abs_* = False`; any modes, `elements`, `update`) on the mesh whose fresh values are the `f`-images are the
    `f`-images of the outputs of the same history on the mesh.  With `f = (-·)`: −V, exactly, at every step. -/
theorem C11_hist_reflect_signed (S : Sgn V) (f : V → V) (mi : MeshInfo V) :
    ∀ (cs : List Call) (s : HState V), (∀ c ∈ cs, c.opts = ⟨false, false⟩) →
      runCalls HCfg.tree S (mapMesh f mi) cs (mapState f s) = (runCalls HCfg.tree S mi cs s).map (mapOut f) := by
  intro cs
  induction cs with
  | nil => intros; rfl
  | cons c cs ih =>
    intro s hc
    have h := step_signed_map S f mi c s (hc c (List.mem_cons_self ..))
    simp only [runCalls, List.map_cons, h, mapStep]
    rw [ih _ (fun c' hc' => hc c' (List.mem_cons_of_mem _ hc'))]

/-! ### the in-place variant (seeded change C11-5) -/

def outVals : Out V → Option (Vals V)
  | .vals v => some v
  | _ => none

/-- one mirrored element of volume −3: [signed, absolute, signed] -/
def c115Calls : List Call :=
  [⟨.base, .centroid, ⟨false, false⟩, false, true⟩, ⟨.base, .centroid, ⟨false, true⟩, false, true⟩,
   ⟨.base, .centroid, ⟨false, false⟩, false, true⟩]
def c115Mesh : MeshInfo Int := ⟨fun _ => [(1, -3)], false, true⟩

/-- the tree returns −3, 3, −3 … -/
theorem C11_hist_tree_example :
    (runCalls HCfg.tree intSgn c115Mesh c115Calls HState.empty).map outVals
      = [some [(1, -3)], some [(1, 3)], some [(1, -3)]] := by decide

/-- … `np.abs(metric, out=metric)` returns −3, 3, **+3**: the stored signed volume of the mirrored element is overwritten
    by the absolute-value query, so `C11_hist_read_only` / `C11_hist_signed_stable` fail for `HCfg.inPlace` -/
theorem C11_hist_inplace_counterexample :
    (runCalls HCfg.inPlace intSgn c115Mesh c115Calls HState.empty).map outVals
      = [some [(1, -3)], some [(1, 3)], some [(1, 3)]] := by decide

/-- non-vacuity of `C11_hist_reflect_signed` / `C11_hist_signed_stable` on a concrete history -/
example : (runCalls HCfg.tree intSgn (mapMesh (fun x => -x) c115Mesh)
      [⟨.base, .linear, ⟨false, false⟩, false, true⟩, ⟨.metric, .centroid, ⟨false, false⟩, false, true⟩] HState.empty).map outVals
    = [some [(1, 3)], some [(1, 3)]] := by decide

/-- non-vacuity of `C11_hist_positive_invisible` / `C11_hist_values_are_query_values`: lawful sign structures exist and the
    hypotheses hold for a two-element positive mesh -/
example : (runCalls HCfg.tree intSgn ⟨fun _ => [(4, 2), (7, 5)], false, true⟩
      [⟨.metric, .linear, ⟨true, false⟩, false, true⟩, ⟨.base, .gaussian, ⟨false, true⟩, false, true⟩,
       ⟨.metric, .centroid, ⟨true, true⟩, true, false⟩] HState.empty).map outVals
    = [some [(4, 2), (7, 5)], some [(4, 2), (7, 5)], some [(4, 2), (7, 5)]] := by decide

end Femio.C11
