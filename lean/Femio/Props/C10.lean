import Femio.Model.Surface
import Femio.Model.Obj
import Femio.Lemmas.ObjTextProps
import Femio.Lemmas.VolumeD
import Femio.Lemmas.SurfaceSimilarity
import Femio.Lemmas.SurfaceProps
import Femio.Lemmas.NumeralProps
import Femio.Lemmas.CoreProps
import Femio.Lemmas.FistrScan
import Mathlib.Data.List.Perm.Basic
import Mathlib.Tactic.Ring

/-! # C10 — the extracted / exported surface is the outward-oriented closed boundary

Property theorems only.  Model: `Femio/Model/Surface.lean`, `Femio/Model/Obj.lean`; the face tables are
regenerated from /repo on every run (`Femio/Gen/Tables.lean`), so the `decide` / `ring` statements over them are
re-checked against the current source.  Hypotheses `…B = true` are Boolean functions which the driver evaluates
on every generated mesh (`c10.surface` reply), so each theorem applies verbatim to each tested mesh. -/
namespace Femio.C10
open Core Faces V3 Geom Femio.Gen

/-! ## every element is closed -/

/-- each directed edge of the face table occurs once and its reverse once -/
def closedTable (fs : List (List Nat)) : Bool :=
  let es := edgesOf fs
  es.all fun e => es.count e == 1 && es.count (e.2, e.1) == 1

/-- **C10_element_closed.** For every solid element type the regenerated face table is a closed oriented surface:
    every directed edge is used exactly once and its reverse exactly once; and the table only uses local node
    numbers below the arity. -/
theorem C10_element_closed :
    ∀ ty ∈ [8, 9, 10, 12, 14, 16],
      closedTable (faceTable ty) = true ∧ (faceTable ty).all (fun f => f.all (· < arity ty)) = true ∧
      (faceTable ty ≠ []) := by decide

/-- non-vacuity: the hex table has 6 faces and 24 directed edges -/
example : (faceTable 14).length = 6 ∧ (edgesOf (faceTable 14)).length = 24 := by decide

/-! ## faces of a positive element point outwards -/

/-- **C10_element_outward.** For an element of type tet / tet2 / pyr / prism / hex with the right number of nodes
    and *any* node coordinates in any commutative ring, the fluxes of `x/3` through the faces of the regenerated
    table (triangle: `det`, quadrilateral: centroid fan) add up to femio's signed "centroid" volume kernel
    (both ×24). Hence the table is oriented outwards exactly when the signed volume is positive. -/
theorem C10_element_outward {R : Type} [CommRing R] (pt : Nat → V3 R) (e : Elem) (h : solidB e = true) :
    sumR 0 ((elemFaces e).map (faceFlux24 4 0 pt)) = elemVol24 4 0 pt e :=
  elem_flux pt e h

/-- non-vacuity: the unit cube with femio's hex numbering has flux 24 = 24 · volume 1 -/
def cubePt : Nat → V3 Int
  | 0 => ⟨0, 0, 0⟩ | 1 => ⟨1, 0, 0⟩ | 2 => ⟨1, 1, 0⟩ | 3 => ⟨0, 1, 0⟩
  | 4 => ⟨0, 0, 1⟩ | 5 => ⟨1, 0, 1⟩ | 6 => ⟨1, 1, 1⟩ | _ => ⟨0, 1, 1⟩
example : solidB ⟨1, 14, [0, 1, 2, 3, 4, 5, 6, 7]⟩ = true ∧
    elemVol24 4 0 cubePt ⟨1, 14, [0, 1, 2, 3, 4, 5, 6, 7]⟩ = 24 ∧
    sumR 0 ((elemFaces ⟨1, 14, [0, 1, 2, 3, 4, 5, 6, 7]⟩).map (faceFlux24 4 0 cubePt)) = 24 := by decide

/-! ## the surface is exactly the set of faces used once -/

theorem fiber_length_eq_count (fs : List Face) (k : List Nat) : (fiberB fs k).length = (fs.map key).count k := by
  unfold fiberB
  induction fs with
  | nil => rfl
  | cons f t ih =>
    by_cases h : key f = k
    · simp [List.filter_cons, h, ih]
    · have h' : ¬ (key f == k) = true := by simpa using h
      simp [List.filter_cons, h, ih, List.count_cons]

/-- **C10_boundary_spec (np.unique branch).** `_extract_surface` returns exactly the faces whose sorted node tuple
    occurs once among all faces — each once (it is a permutation of that sub-list), in the lexicographic order of
    the sorted tuples. -/
theorem C10_boundary_spec (fs : List Face) :
    (boundaryUnique fs).Perm (fs.filter fun f => decide ((fs.map key).count (key f) = 1)) ∧
    (boundaryUnique fs).Pairwise (fun f g => keyLe f g = true) ∧
    ∀ f, f ∈ boundaryUnique fs ↔ f ∈ fs ∧ (fs.map key).count (key f) = 1 := by
  have hB : boundaryB fs = fs.filter fun f => decide ((fs.map key).count (key f) = 1) := by
    unfold boundaryB
    apply List.filter_congr
    intro f _
    rw [fiber_length_eq_count]
    by_cases h : (fs.map key).count (key f) = 1 <;> simp [h]
  refine ⟨?_, ?_, ?_⟩
  · rw [← hB]; exact sortBy_perm _ _
  · exact sortBy_keyLe_pairwise _
  · intro f
    show f ∈ sortBy keyLe (boundaryB fs) ↔ _
    rw [(sortBy_perm keyLe (boundaryB fs)).mem_iff, hB]
    simp

/-- **C10_boundary_spec (lexsort branch)**, `extract_surface_fistr`: after the lexsort, "differs from the previous
    and from the next row" keeps exactly the rows whose 3-node key occurs once. -/
theorem C10_fistr_scan_spec (es : List Elem) :
    boundaryLexScan es =
      let s := sortBy lexLe (fistrRows es)
      (s.filter fun r => decide ((s.map (·.take 3)).count (r.take 3) = 1)).map (·.drop 3) :=
  boundaryLexScan_spec es

/-- non-vacuity for both: two tets glued along a face (ids 10..14): 6 boundary faces, 6 (element, face) rows -/
def twoTetElems : List Elem := [⟨7, 8, [10, 11, 12, 13]⟩, ⟨3, 8, [11, 12, 13, 14]⟩]
example : (boundaryUnique (allFaces [twoTetElems])).length = 6 ∧
    boundaryLexScan twoTetElems = [[7, 1], [7, 2], [7, 4], [3, 2], [3, 4], [3, 3]] := by decide

/-! ## the surface is closed -/

/-- **C10_closed.** If every element is closed (`balB` on all directed edges — implied by `C10_element_closed`
    for well-formed elements and evaluated by the driver) and the mesh is conforming (`conformingB`: every face key
    is used once, or the faces sharing it have balanced directed edges), then in the extracted surface every
    directed edge occurs exactly as often as its reverse. -/
theorem C10_closed (fs : List Face) (hall : balB (edgesOf fs) = true) (hconf : conformingB fs = true) :
    ∀ e : Nat × Nat, (edgesOf (boundaryUnique fs)).count e = (edgesOf (boundaryUnique fs)).count (e.2, e.1) := by
  intro e
  have hp : (edgesOf (boundaryUnique fs)).Perm (edgesOf (boundaryB fs)) := by
    unfold edgesOf
    exact (sortBy_perm keyLe (boundaryB fs)).flatMap_right _
  rw [hp.count_eq, hp.count_eq]
  exact surface_closed fs hall hconf e

/-- **C10_closed (manifold edges).** If moreover an undirected edge lies on exactly two surface faces, these
    traverse it in opposite directions (once each way). -/
theorem C10_closed_manifold (fs : List Face) (hall : balB (edgesOf fs) = true) (hconf : conformingB fs = true)
    (e : Nat × Nat)
    (h2 : (edgesOf (boundaryUnique fs)).count e + (edgesOf (boundaryUnique fs)).count (e.2, e.1) = 2) :
    (edgesOf (boundaryUnique fs)).count e = 1 ∧ (edgesOf (boundaryUnique fs)).count (e.2, e.1) = 1 := by
  have := C10_closed fs hall hconf e
  omega

/-- non-vacuity: the two glued tets satisfy both hypotheses, and edge (10, 11) is used once each way -/
example : balB (edgesOf (allFaces [twoTetElems])) = true ∧ conformingB (allFaces [twoTetElems]) = true ∧
    (edgesOf (boundaryUnique (allFaces [twoTetElems]))).count (10, 11) = 1 ∧
    (edgesOf (boundaryUnique (allFaces [twoTetElems]))).count (11, 10) = 1 := by decide

/-! ## enclosed volume -/

/-- **C10_volume.** For a mesh of tet / tet2 / pyr / prism / hex elements (`solidMeshB`) that is conforming in the
    strict sense (`mirrorConformingB`: a face key is used once, or by exactly two faces which are mirror images),
    the flux of `x/3` through the extracted surface equals the sum of the signed element volumes (centroid
    kernels), for any coordinates in any commutative ring. -/
theorem C10_volume {R : Type} [CommRing R] (pt : Nat → V3 R) (blocks : List (List Elem))
    (hsolid : solidMeshB blocks = true) (hconf : mirrorConformingB (allFaces blocks) = true) :
    sumR 0 ((boundaryUnique (allFaces blocks)).map (faceFlux24 4 0 pt)) = totalVol24 4 0 pt blocks := by
  rw [← volume_of_conforming pt blocks hsolid hconf]
  unfold surfaceFlux24
  rw [sumR_eq_sum, sumR_eq_sum]
  exact ((sortBy_perm keyLe (boundaryB (allFaces blocks))).map _).sum_eq

/-- non-vacuity: two positive tets glued along a face, volumes 1/6 + 1/6 (×24 = 8) -/
def twoTetPt : Nat → V3 Int
  | 10 => ⟨0, 0, 0⟩ | 11 => ⟨1, 0, 0⟩ | 12 => ⟨0, 1, 0⟩ | 13 => ⟨0, 0, 1⟩ | _ => ⟨1, 1, 1⟩
example : solidMeshB [twoTetElems] = true ∧ mirrorConformingB (allFaces [twoTetElems]) = true ∧
    totalVol24 4 0 twoTetPt [twoTetElems] = 12 ∧
    sumR 0 ((boundaryUnique (allFaces [twoTetElems])).map (faceFlux24 4 0 twoTetPt)) = 12 := by decide

/-! ## absolute scale and far offset (the surface itself is a function of ids and connectivity only) -/

/-- **C10_flux_similarity.** ABSOLUTE SCALE: if every node is scaled by `s` (micrometre- or kilometre-sized copies of a
    mesh), the flux of `x/3` through ANY list of triangles / quadrilaterals - in particular the volume enclosed by the
    extracted surface, whose faces do not depend on the coordinates at all (`boundaryUnique (allFaces blocks)` has no
    coordinate argument) - is multiplied by exactly `s³`; no hypothesis on the mesh, any commutative ring. -/
theorem C10_flux_similarity {R : Type} [CommRing R] (s : R) (pt : Nat → V3 R) (fs : List Face) :
    sumR 0 (fs.map (faceFlux24 4 0 (fun i => V3.smul s (pt i)))) = s ^ 3 * sumR 0 (fs.map (faceFlux24 4 0 pt)) := by
  rw [sumR_eq_sum, sumR_eq_sum]
  exact sum_faceFlux24_smul s pt fs

/-- **C10_volume_similarity.** On a conforming solid mesh the sum of the element volumes ("centroid" kernels) scales
    with `s³` as well, so "enclosed volume = sum of the element volumes" (`C10_volume`) holds at every absolute scale
    with both sides transformed in the same way. -/
theorem C10_volume_similarity {R : Type} [CommRing R] (s : R) (pt : Nat → V3 R) (blocks : List (List Elem))
    (hsolid : solidMeshB blocks = true) (hconf : mirrorConformingB (allFaces blocks) = true) :
    totalVol24 4 0 (fun i => V3.smul s (pt i)) blocks = s ^ 3 * totalVol24 4 0 pt blocks := by
  rw [← C10_volume _ blocks hsolid hconf, ← C10_volume pt blocks hsolid hconf]
  exact C10_flux_similarity s pt _

/-- **C10_enclosed_volume_translate.** FAR OFFSET: on a conforming solid mesh the volume enclosed by the extracted
    surface does not change when all nodes are translated by `t` (UTM-like coordinates), although the flux through a
    single face does: the surface is closed.  (Exact arithmetic; the float kernels of femio that work in absolute
    coordinates lose this far from the origin, which is what the oracle's conditioning-aware tolerance is about.) -/
theorem C10_enclosed_volume_translate {R : Type} [CommRing R] (t : V3 R) (pt : Nat → V3 R) (blocks : List (List Elem))
    (hsolid : solidMeshB blocks = true) (hconf : mirrorConformingB (allFaces blocks) = true) :
    sumR 0 ((boundaryUnique (allFaces blocks)).map (faceFlux24 4 0 (fun i => V3.add (pt i) t)))
      = sumR 0 ((boundaryUnique (allFaces blocks)).map (faceFlux24 4 0 pt)) := by
  rw [C10_volume _ blocks hsolid hconf, C10_volume pt blocks hsolid hconf]
  exact totalVol24_translate pt t blocks hsolid

/-- non-vacuity: the two glued tets scaled by 3 enclose 27 times the volume (12 · 27 = 324), and moved by
    (1000, -2000, 500) the same volume, while the flux through their first surface face alone changes -/
example : sumR 0 ((boundaryUnique (allFaces [twoTetElems])).map
      (faceFlux24 4 0 (fun i => V3.smul 3 (twoTetPt i)))) = 324 ∧
    sumR 0 ((boundaryUnique (allFaces [twoTetElems])).map
      (faceFlux24 4 0 (fun i => V3.add (twoTetPt i) ⟨1000, -2000, 500⟩))) = 12 ∧
    ((boundaryUnique (allFaces [twoTetElems])).head?.map
      (faceFlux24 4 0 (fun i => V3.add (twoTetPt i) ⟨1000, -2000, 500⟩)))
      ≠ ((boundaryUnique (allFaces [twoTetElems])).head?.map (faceFlux24 4 0 twoTetPt)) := by decide

/-! ## surface object, (element, face number) list and OBJ export describe the same faces -/

theorem number_snd (s : Nat) (fs : List Face) : (number s fs).map Prod.snd = fs := by
  unfold number
  rw [List.map_map]
  have : (Prod.snd ∘ fun (x : Nat × Face) => (s + x.1 + 1, x.2)) = Prod.snd := by funext x; rfl
  rw [this, List.map_snd_zip]
  simp

theorem toPositions_decode (nodeIds : List Nat) (fs : List Face) (ps : List (List Nat))
    (h : toPositions nodeIds fs = some ps) : ps.map (fun p => p.map fun k => nodeIds[k]?) = fs.map (·.map some) := by
  unfold toPositions at h
  induction fs generalizing ps with
  | nil => simp at h; subst h; rfl
  | cons f t ih =>
    simp only [List.mapM_cons, Option.bind_eq_bind, Option.bind_eq_some_iff, Option.pure_def,
      Option.some.injEq] at h
    obtain ⟨p, hp, ps', hps', rfl⟩ := h
    simp only [List.map_cons, ih ps' hps', List.cons.injEq, and_true]
    clear ih hps'
    induction f generalizing p with
    | nil => simp at hp; subst hp; rfl
    | cons a u ihu =>
      simp only [List.mapM_cons, Option.bind_eq_bind, Option.bind_eq_some_iff, Option.pure_def,
        Option.some.injEq] at hp
      obtain ⟨k, hk, p', hp', rfl⟩ := hp
      simp only [List.map_cons, ihu p' hp', List.cons.injEq, and_true]
      obtain ⟨hk', hv⟩ := idPos_some hk
      rw [List.getElem?_eq_getElem hk', hv]

/-- **C10_same_face_set.** (i) the elements of `to_surface()` are the faces of `extract_surface()` in the same
    order (triangles numbered 1.., quadrilaterals continuing), (ii) the storage positions returned by
    `extract_surface()` — which are what the OBJ writer prints, plus one — point back at exactly the node ids of
    those faces. -/
theorem C10_same_face_set (nodeIds : List Nat) (blocks : List (List Elem)) :
    (toSurface nodeIds blocks).tris.map Prod.snd = (surfaceIds blocks).1 ∧
    (toSurface nodeIds blocks).quads.map Prod.snd = (surfaceIds blocks).2 ∧
    (toSurface nodeIds blocks).tris.map Prod.fst = (List.range (surfaceIds blocks).1.length).map (· + 1) ∧
    ∀ t q, extractSurface nodeIds blocks = some (t, q) →
      t.map (fun p => p.map fun k => nodeIds[k]?) = (surfaceIds blocks).1.map (·.map some) ∧
      q.map (fun p => p.map fun k => nodeIds[k]?) = (surfaceIds blocks).2.map (·.map some) := by
  refine ⟨?_, ?_, ?_, ?_⟩
  · simp only [toSurface]; exact number_snd _ _
  · simp only [toSurface]; exact number_snd _ _
  · simp only [toSurface, number, List.map_map]
    apply List.ext_getElem <;> simp
  · intro t q h
    unfold extractSurface at h
    simp only [Option.bind_eq_bind, Option.bind_eq_some_iff, Option.pure_def, Option.some.injEq,
      Prod.mk.injEq] at h
    obtain ⟨ti, hti, qi, hqi, rfl, rfl⟩ := h
    exact ⟨toPositions_decode _ _ _ hti, toPositions_decode _ _ _ hqi⟩

theorem key3_swap12 (a b c : Nat) : key [a, c, b] = key [a, b, c] := by
  simp only [key, List.foldr_cons, List.foldr_nil, insertNat]
  by_cases h1 : c ≤ b <;> by_cases h2 : b ≤ c <;> by_cases h3 : a ≤ b <;> by_cases h4 : a ≤ c <;>
    simp [insertNat, *] <;> omega

theorem key3_rot (a b c : Nat) : key [c, a, b] = key [a, b, c] := by
  simp only [key, List.foldr_cons, List.foldr_nil, insertNat]
  by_cases h1 : a ≤ b <;> by_cases h2 : b ≤ c <;> by_cases h3 : a ≤ c <;> by_cases h4 : c ≤ a <;> by_cases h5 : c ≤ b <;>
    simp [insertNat, *] <;> omega

theorem key3_length (a b c : Nat) : (key [a, b, c]).length = 3 := by
  simp only [key, List.foldr_cons, List.foldr_nil, insertNat]
  by_cases h1 : b ≤ c <;> by_cases h3 : a ≤ b <;> by_cases h4 : a ≤ c <;> simp [insertNat, *]

theorem fistrRows_cons_tet (id a b c d : Nat) (t : List Elem) :
    fistrRows (⟨id, 8, [a, b, c, d]⟩ :: t) =
      [key [a, b, c] ++ [id, 1], key [a, b, d] ++ [id, 2], key [b, c, d] ++ [id, 3], key [c, a, d] ++ [id, 4]]
        ++ fistrRows t := by
  simp [fistrRows, fistrFaceNodes, pick]
  rfl

theorem elemFaces_tet (id a b c d : Nat) :
    elemFaces ⟨id, 8, [a, b, c, d]⟩ = [[a, c, b], [a, b, d], [b, c, d], [a, d, c]] := by
  simp [elemFaces, faceTable, faces_tet, pick]

/-- **C10_same_face_set (FrontISTR list).** For a block of tetrahedra the 3-node keys carried by the rows of
    `extract_surface_fistr` are, row by row, the sorted node tuples of the faces of the generic face table:
    FrontISTR face number k of an element is the (k−1)-th face of `_generate_all_faces` as a node set. Together
    with the two `C10_boundary_spec` statements both algorithms therefore select the faces whose node set
    occurs once in the same list of keys. -/
theorem C10_fistr_same_keys (es : List Elem) (h : es.all (fun e => e.ty == 8 && e.conn.length == 4) = true) :
    (fistrRows es).map (·.take 3) = (allFaces [es]).map key ∧
    (fistrRows es).map (·.drop 3) = es.flatMap fun e => [[e.id, 1], [e.id, 2], [e.id, 3], [e.id, 4]] := by
  induction es with
  | nil => exact ⟨rfl, rfl⟩
  | cons e t ih =>
    simp only [List.all_cons, Bool.and_eq_true, beq_iff_eq] at h
    obtain ⟨⟨hty, hlen⟩, ht⟩ := h
    obtain ⟨id, ty, conn⟩ := e
    simp only at hty hlen
    subst hty
    obtain ⟨a, b, c, d, rfl⟩ := len4 conn hlen
    have ih' := ih ht
    have hk : ∀ x y z (r : List Nat), (key [x, y, z] ++ r).take 3 = key [x, y, z] := by
      intro x y z r
      rw [List.take_append_of_le_length (by rw [key3_length])]
      exact List.take_of_length_le (by rw [key3_length])
    have hd : ∀ x y z (r : List Nat), (key [x, y, z] ++ r).drop 3 = r := by
      intro x y z r
      rw [← key3_length x y z]; exact List.drop_left
    have e1 : allFaces [(⟨id, 8, [a, b, c, d]⟩ : Elem) :: t] = elemFaces ⟨id, 8, [a, b, c, d]⟩ ++ allFaces [t] := by
      simp [allFaces]
    rw [fistrRows_cons_tet, e1, elemFaces_tet]
    constructor
    · rw [List.map_append, List.map_append, ih'.1]
      simp only [List.map_cons, List.map_nil, hk, key3_swap12 a b c, key3_rot a d c]
    · rw [List.map_append, ih'.2]
      simp only [List.map_cons, List.map_nil, hd, List.flatMap_cons]

/-- the FrontISTR (element, face number) table regenerated from the source for one tet with ids 1..4 numbers
    its four rows 1, 2, 4, 3 in key order — what `C10_fistr_same_keys` and the lexsort predict -/
theorem C10_fistr_numbers : boundaryLexScan [⟨7, 8, [1, 2, 3, 4]⟩] = fistrTetFaceRows := by decide

/-! ## OBJ round trip -/
namespace Obj
open Numeral

theorem filterMap_isF_v (verts : List (List Token)) : (verts.map vLine).filterMap isF = [] := by
  induction verts with
  | nil => rfl
  | cons c t ih => simp [vLine, isF, ih]

theorem filterMap_isV_v (verts : List (List Token)) : (verts.map vLine).filterMap isV = verts := by
  induction verts with
  | nil => rfl
  | cons c t ih => simp [vLine, isV, ih]

theorem filterMap_fBlock (fs : List (List Nat)) :
    (fBlock fs).filterMap isV = [] ∧
    (fBlock fs).filterMap isF = fs.map fun f => f.map fun i => showNat (i + 1) := by
  unfold fBlock
  cases fs with
  | nil => simp [isV, isF]
  | cons f t =>
    simp only [List.isEmpty_cons, Bool.false_eq_true, if_false]
    generalize f :: t = l
    induction l with
    | nil => exact ⟨rfl, rfl⟩
    | cons g u ih => simp [fLine, isV, isF, ih.1, ih.2]

theorem filterMap_blocks (blocks : List (List (List Nat))) :
    (blocks.flatMap fBlock).filterMap isV = [] ∧
    (blocks.flatMap fBlock).filterMap isF = blocks.flatten.map fun f => f.map fun i => showNat (i + 1) := by
  induction blocks with
  | nil => exact ⟨rfl, rfl⟩
  | cons b t ih =>
    simp [List.flatMap_cons, List.filterMap_append, (filterMap_fBlock b).1, (filterMap_fBlock b).2, ih.1, ih.2]

theorem mapM_parse_show (f : List Nat) : (f.map fun i => showNat (i + 1)).mapM parseNat = some (f.map (· + 1)) := by
  induction f with
  | nil => rfl
  | cons a t ih =>
    rw [List.map_cons, List.mapM_cons, parseNat_showNat, ih]; rfl

theorem mapM_faces (l : List (List Nat)) :
    (l.map fun f => f.map fun i => showNat (i + 1)).mapM (fun c => c.mapM parseNat) = some (l.map (·.map (· + 1))) := by
  induction l with
  | nil => rfl
  | cons f t ih =>
    rw [List.map_cons, List.mapM_cons, mapM_parse_show, ih]; rfl

end Obj

/-- **C10_obj_roundtrip.** Reading back what the OBJ writer wrote gives the same vertex tokens in the same
    (storage) order and the same faces in the same order (as 1-based positions, which are the node ids the reader
    assigns) — for any vertex tokens and any face blocks, including the empty line an empty block produces. -/
theorem C10_obj_roundtrip (verts : List (List Obj.Token)) (blocks : List (List (List Nat))) :
    Obj.readObj (Obj.writeObj verts blocks) = some (verts, blocks.flatten.map (·.map (· + 1))) := by
  unfold Obj.readObj Obj.writeObj
  simp only [List.filterMap_append, Obj.filterMap_isF_v, Obj.filterMap_isV_v, (Obj.filterMap_blocks blocks).1,
    (Obj.filterMap_blocks blocks).2, List.nil_append, List.append_nil]
  rw [Obj.mapM_faces]
  rfl

/-- non-vacuity: a file with two vertices, an empty triangle block and one quadrilateral -/
example : Obj.readObj (Obj.writeObj [[['0'], ['1'], ['2']], [['3'], ['4'], ['5']]] [[], [[3, 0, 1, 2]]])
    = some ([[['0'], ['1'], ['2']], [['3'], ['4'], ['5']]], [[4, 1, 2, 3]]) := by decide

/-- **C10_obj_lex_print.** Character level: the text of any token lines (tokens non-empty and free of whitespace;
    a line = its tokens joined by single blanks, terminated by a newline) is lexed back — lines between newlines,
    each split at Python whitespace — to the same lines in the same order, minus the empty ones (which
    `StringSeries.read_file` skips and which are neither `v` nor `f` lines). -/
theorem C10_obj_lex_print (ls : List Obj.Line) (h : Obj.LinesOK ls) :
    Obj.tokenize (Obj.render ls) = ls.filter fun l => !l.isEmpty :=
  Obj.tokenize_render ls h

/-- **C10_obj_roundtrip_chars.** `C10_obj_roundtrip` through the characters of the file: for any vertices whose
    coordinate numerals are non-empty whitespace-free tokens (`vertsOKB`, evaluated by the driver on every case) and
    any face blocks — including an empty block, which writes one empty line —, reading the characters the OBJ writer
    produced (`v x y z` / `f i j k [l]` lines, newline-terminated) gives the same vertex tokens in storage order
    and the same faces in the same order as 1-based positions. -/
theorem C10_obj_roundtrip_chars (verts : List (List Obj.Token)) (blocks : List (List (List Nat)))
    (h : Obj.vertsOKB verts = true) :
    Obj.readObj (Obj.tokenize (Obj.render (Obj.writeObj verts blocks)))
      = some (verts, blocks.flatten.map (·.map (· + 1))) := by
  rw [Obj.tokenize_render _ (Obj.writeObj_linesOK verts blocks h), Obj.readObj_filter]
  exact C10_obj_roundtrip verts blocks

/-- non-vacuity: two vertices, an empty triangle block (one empty line in the file) and one quadrilateral -/
example : Obj.render (Obj.writeObj [["0.5".toList, "-1e-05".toList, "2.0".toList], ["3.0".toList, "NaN".toList, "inf".toList]] [[], [[3, 0, 1, 10]]])
    = "v 0.5 -1e-05 2.0\nv 3.0 NaN inf\n\nf 4 1 2 11\n".toList := by decide
example : Obj.vertsOKB [["0.5".toList, "-1e-05".toList, "2.0".toList], ["3.0".toList, "NaN".toList, "inf".toList]] = true := by decide
example : Obj.readObj (Obj.tokenize "v 0.5 -1e-05 2.0\nv 3.0 NaN inf\n\nf 4 1 2 11\n".toList)
    = some ([["0.5".toList, "-1e-05".toList, "2.0".toList], ["3.0".toList, "NaN".toList, "inf".toList]], [[4, 1, 2, 11]]) := by
  decide

/-- **C10_obj_blockwise.** Size independence of the text: a writer that emits the lines of the file chunk by chunk
    (ANY cut `cs` of the lines into consecutive blocks – 65536 rows per block, one block per facet shape, …), every
    row terminated by its newline, produces exactly the text of the lines written at once. -/
theorem C10_obj_blockwise (cs : List (List Obj.Line)) : Obj.renderChunks cs = Obj.render cs.flatten := by
  induction cs with
  | nil => rfl
  | cons c t ih =>
    have ih' : List.flatMap Obj.render t = Obj.render t.flatten := ih
    simp only [Obj.renderChunks, List.flatMap_cons, List.flatten_cons, ih']
    simp only [Obj.render, Femio.Text.unlines, List.map_append, List.flatMap_append]

/-- **C10_obj_roundtrip_blockwise.** Hence the character-level round trip holds for every block-wise writer of that
    kind, whatever the number of faces and the block size. -/
theorem C10_obj_roundtrip_blockwise (verts : List (List Obj.Token)) (blocks : List (List (List Nat)))
    (cs : List (List Obj.Line)) (hcs : cs.flatten = Obj.writeObj verts blocks) (h : Obj.vertsOKB verts = true) :
    Obj.readObj (Obj.tokenize (Obj.renderChunks cs)) = some (verts, blocks.flatten.map (·.map (· + 1))) := by
  rw [C10_obj_blockwise, hcs]
  exact C10_obj_roundtrip_chars verts blocks h

/-- non-vacuity: three faces written in chunks of two rows -/
example : Obj.renderChunks [[Obj.fLine [0, 1, 2], Obj.fLine [0, 2, 3]], [Obj.fLine [0, 3, 1]]]
    = "f 1 2 3\nf 1 3 4\nf 1 4 2\n".toList := by decide

/-- **C10_obj_blockwise_joined_counterexample.** The block-wise writer that joins the rows of a chunk by newlines and
    writes one newline at the very end (seeded change C10-8) is NOT size independent: with one chunk it writes the
    correct text, with two chunks the rows at the chunk boundary share a line (`f 1 2 3f 1 3 4`) and the file cannot be
    read back. -/
theorem C10_obj_blockwise_joined_counterexample :
    Obj.renderChunksJoined [[Obj.fLine [0, 1, 2], Obj.fLine [0, 2, 3]]] = Obj.render [Obj.fLine [0, 1, 2], Obj.fLine [0, 2, 3]]
    ∧ Obj.renderChunksJoined [[Obj.fLine [0, 1, 2]], [Obj.fLine [0, 2, 3]]] = "f 1 2 3f 1 3 4\n".toList
    ∧ Obj.readObj (Obj.tokenize (Obj.renderChunksJoined [[Obj.fLine [0, 1, 2]], [Obj.fLine [0, 2, 3]]])) = none := by
  decide

end Femio.C10
