import Femio.Model.WritePaths

/-! C07 — `write()` never changes an existing file unless `overwrite=True`.

Property theorems only.  `Cfg.fixed` is the configuration the working tree must implement (the
correspondence run determines which `Cfg` the tree implements); the `…_counterexample`s show that
the property is false of the other configurations. -/
namespace Femio.C07

/-- every `create p` / `remove p` in the list is preceded by a `checkAbsent p` -/
def Guarded : List Action → List Path → Prop
  | [], _ => True
  | .checkAbsent p :: t, checked => Guarded t (p :: checked)
  | .create p _ :: t, checked => p ∈ checked ∧ Guarded t checked
  | .remove p :: t, checked => p ∈ checked ∧ Guarded t checked

/-- generic lemma: a guarded plan never changes a file that existed -/
theorem exec_preserves (acts : List Action) (checked : List Path) (fs0 fs : FS)
    (hg : Guarded acts checked)
    (hpres : ∀ p c, fs0 p = some c → fs p = some c)
    (hchk : ∀ p ∈ checked, fs0 p = none) :
    ∀ p c, fs0 p = some c → (exec fs acts).2 p = some c := by
  induction acts generalizing checked fs with
  | nil => exact hpres
  | cons a t ih =>
    cases a with
    | checkAbsent q =>
      simp only [exec]
      split
      · exact hpres
      · rename_i hq
        apply ih (q :: checked) fs hg hpres
        intro p hp
        rcases List.mem_cons.mp hp with h | h
        · subst h
          cases h0 : fs0 p with
          | none => rfl
          | some c => rw [hpres p c h0] at hq; simp at hq
        · exact hchk p h
    | create q c0 =>
      simp only [exec]
      obtain ⟨hq, hg'⟩ := hg
      apply ih checked _ hg'
      · intro p c hp
        by_cases hpq : p = q
        · subst hpq; rw [hchk p hq] at hp; cases hp
        · simp [hpq, hpres p c hp]
      · exact hchk
    | remove q =>
      simp only [exec]
      obtain ⟨hq, hg'⟩ := hg
      apply ih checked _ hg'
      · intro p c hp
        by_cases hpq : p = q
        · subst hpq; rw [hchk p hq] at hp; cases hp
        · simp [hpq, hpres p c hp]
      · exact hchk

theorem plan_guarded (ctrl : Path) (f : Fmt) (name : Path) (mshOnly : Bool) (content : Path → Nat) :
    Guarded (plan Cfg.fixed ctrl f name false mshOnly content) [] := by
  cases f <;> cases mshOnly <;> simp [plan, Guarded, Cfg.fixed]

/-- **C07_no_clobber.**  For every format, every spelling of the name, every file system and whether or
not the call raises: whatever existed before a `write(..., overwrite=False)` is unchanged after it. -/
theorem C07_no_clobber (ctrl : Path) (f : Fmt) (name : Path) (mshOnly : Bool) (content : Path → Nat) (fs : FS) :
    ∀ p c, fs p = some c → (exec fs (plan Cfg.fixed ctrl f name false mshOnly content)).2 p = some c :=
  exec_preserves _ [] fs fs (plan_guarded ctrl f name mshOnly content) (fun _ _ h => h) (by simp)

/-- **C07_only_new_files.**  Hence every path whose content differs after the call was absent before. -/
theorem C07_only_new_files (ctrl : Path) (f : Fmt) (name : Path) (mshOnly : Bool) (content : Path → Nat) (fs : FS)
    (p : Path) (h : (exec fs (plan Cfg.fixed ctrl f name false mshOnly content)).2 p ≠ fs p) : fs p = none := by
  cases hp : fs p with
  | none => rfl
  | some c => exact absurd (by rw [C07_no_clobber ctrl f name mshOnly content fs p c hp, hp]) h

/-- **C07_spelling_independent.**  The file finally opened is the same for `stem` and `stem.ext`
(for a stem not itself ending in the extension letters the first spelling gets the extension appended). -/
theorem C07_spelling_independent (f : Fmt) (e : List Char) (stem : Path) (he : ext f = some e)
    (hs : ¬ e.isSuffixOf stem) :
    finalName f stem = finalName f (stem ++ '.' :: e) := by
  have h2 : e.isSuffixOf (stem ++ '.' :: e) = true := by
    rw [List.isSuffixOf_iff_suffix]
    exact ⟨stem ++ ['.'], by simp⟩
  simp [finalName, he, addExt, hs, h2]

/-- the final name is what the pre-check looks at, in every configuration of formats -/
theorem C07_final_name_checked (ctrl : Path) (f : Fmt) (name : Path) (content : Path → Nat) (hf : f ≠ .fistr) :
    plan Cfg.fixed ctrl f name false false content =
      [.checkAbsent (finalName f name), .create (finalName f name) (content (finalName f name))] := by
  cases f <;> simp_all [plan, Cfg.fixed]

/-- non-vacuity: a file system with an existing file, a call that raises, a call that succeeds -/
example :
    let fs : FS := fun p => if p = ['m','.','i','n','p'] then some 1 else none
    (exec fs (plan Cfg.fixed ['c'] .ucd ['m'] false false (fun _ => 2))).1 = true ∧
    (exec fs (plan Cfg.fixed ['c'] .obj ['m'] false false (fun _ => 2))).1 = false ∧
    (exec fs (plan Cfg.fixed ['c'] .obj ['m'] false false (fun _ => 2))).2 ['m','.','o','b','j'] = some 2 := by
  decide

/-- F1: with the pre-check on the name as typed (the pinned upstream commit), a bare stem clobbers
`mesh.inp`. -/
theorem C07_counterexample_upstream :
    let fs : FS := fun p => if p = ['m','e','s','h','.','i','n','p'] then some 1 else none
    (exec fs (plan ⟨false, false⟩ ['c'] .ucd ['m','e','s','h'] false false (fun _ => 2))).2
      ['m','e','s','h','.','i','n','p'] = some 2 := by
  decide

/-- F15: the in-place rewrite of the VTP writer destroys an existing `<target>.bak`. -/
theorem C07_counterexample_vtp_backup :
    let fs : FS := fun p => if p = ['m','.','v','t','p','.','b','a','k'] then some 1 else none
    (exec fs (plan ⟨true, true⟩ ['c'] .vtp ['m'] false false (fun _ => 2))).2
      ['m','.','v','t','p','.','b','a','k'] = none := by
  decide

end Femio.C07
