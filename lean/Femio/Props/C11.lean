import Femio.Model.GeomKernels
import Femio.Model.Brick
import Femio.Lemmas.KernelProps
import Femio.Lemmas.LookupProps
import Femio.Lemmas.BrickProps
import Femio.Props.C11History
import Mathlib.Tactic.NormNum
/-! # C11 — element areas / volumes / normals are geometric invariants and add up

Property theorems only (lemmas: `Lemmas/KernelProps`, `LookupProps`, `BrickProps`, `GeomProps*`).
Kernels are the transcriptions in `Model/Geom*.lean`, `Model/GeomKernels.lean`; each returns a fixed integer
multiple of the metric, so a statement `K (A·p) = det A · K p` is a statement about the volume itself.

* rigid motion / scaling / reflection: `…_translate` + `…_linear` with `det A = 1`, `s³` (`C11_det_scale`), `−1`;
  area vectors: `…_cof` (transform with the cofactor matrix), `C11_radicand_orthogonal` (radicands invariant),
  `C11_radicand_scale` (`s⁴`), `C11_normal_rotates` (`cof A = det A · A`);
* `C11_*_modes_agree_affine`: all modes agree on affine cells and equal the closed form;
* `C11_relabel`, `C11_storage_perm`, `C11_storage_perm_mixed` (+ `C11_mixed_counterexample_upstream`);
* `C11_brick_count`, `C11_brick_positive`, `C11_brick_sum`;
* call histories on one object: `Props/C11History.lean` (`C11_hist_*`, imported here). -/
open V3 Geom
namespace Femio.C11

section Ring
variable {R : Type} [CommRing R]

/-! ## volumes -/

/-- `_calculate_element_volumes_tet_like_core (tet, tet2)` (6·V) is translation invariant -/
theorem C11_tet_translate (t p0 p1 p2 p3 : V3 R) :
    tet6 (V3.add p0 t) (V3.add p1 t) (V3.add p2 t) (V3.add p3 t) = tet6 p0 p1 p2 p3 :=
  tet6_add t p0 p1 p2 p3

/-- … and a linear map `A` multiplies it by `det A` (rotation: 1, reflection: −1, scaling `s`: s³) -/
theorem C11_tet_linear (m : M3 R) (p0 p1 p2 p3 : V3 R) :
    tet6 (m.app p0) (m.app p1) (m.app p2) (m.app p3) = m.det * tet6 p0 p1 p2 p3 :=
  tet6_app m p0 p1 p2 p3

/-- `_calculate_element_volumes_hex_with_nodes (hex, mode="linear")` (6·V) is translation invariant -/
theorem C11_hexLin_translate (t p0 p1 p2 p3 p4 p5 p6 p7 : V3 R) :
    hexLin6 (V3.add p0 t) (V3.add p1 t) (V3.add p2 t) (V3.add p3 t) (V3.add p4 t) (V3.add p5 t) (V3.add p6 t) (V3.add p7 t) = hexLin6 p0 p1 p2 p3 p4 p5 p6 p7 :=
  hexLin6_add t p0 p1 p2 p3 p4 p5 p6 p7

/-- … and a linear map `A` multiplies it by `det A` (rotation: 1, reflection: −1, scaling `s`: s³) -/
theorem C11_hexLin_linear (m : M3 R) (p0 p1 p2 p3 p4 p5 p6 p7 : V3 R) :
    hexLin6 (m.app p0) (m.app p1) (m.app p2) (m.app p3) (m.app p4) (m.app p5) (m.app p6) (m.app p7) = m.det * hexLin6 p0 p1 p2 p3 p4 p5 p6 p7 :=
  hexLin6_app m p0 p1 p2 p3 p4 p5 p6 p7

/-- `_calculate_element_volumes_hex_centroid (hex, mode="centroid")` (24·V) is translation invariant -/
theorem C11_hexC_translate (t p0 p1 p2 p3 p4 p5 p6 p7 : V3 R) :
    hexC24 (V3.add p0 t) (V3.add p1 t) (V3.add p2 t) (V3.add p3 t) (V3.add p4 t) (V3.add p5 t) (V3.add p6 t) (V3.add p7 t) = hexC24 p0 p1 p2 p3 p4 p5 p6 p7 :=
  hexC24_translate t p0 p1 p2 p3 p4 p5 p6 p7

/-- … and a linear map `A` multiplies it by `det A` (rotation: 1, reflection: −1, scaling `s`: s³) -/
theorem C11_hexC_linear (m : M3 R) (p0 p1 p2 p3 p4 p5 p6 p7 : V3 R) :
    hexC24 (m.app p0) (m.app p1) (m.app p2) (m.app p3) (m.app p4) (m.app p5) (m.app p6) (m.app p7) = m.det * hexC24 p0 p1 p2 p3 p4 p5 p6 p7 :=
  hexC24_app m p0 p1 p2 p3 p4 p5 p6 p7

/-- `_calculate_element_volumes_hex_gaussian (any abscissa g; the code uses 0.5773502692)` (512·V) is translation invariant -/
theorem C11_hexGauss_translate (g : R) (t p0 p1 p2 p3 p4 p5 p6 p7 : V3 R) :
    hexGauss512 1 g (V3.add p0 t) (V3.add p1 t) (V3.add p2 t) (V3.add p3 t) (V3.add p4 t) (V3.add p5 t) (V3.add p6 t) (V3.add p7 t) = hexGauss512 1 g p0 p1 p2 p3 p4 p5 p6 p7 :=
  hexGauss_translate g t p0 p1 p2 p3 p4 p5 p6 p7

/-- … and a linear map `A` multiplies it by `det A` (rotation: 1, reflection: −1, scaling `s`: s³) -/
theorem C11_hexGauss_linear (m : M3 R) (g : R) (p0 p1 p2 p3 p4 p5 p6 p7 : V3 R) :
    hexGauss512 1 g (m.app p0) (m.app p1) (m.app p2) (m.app p3) (m.app p4) (m.app p5) (m.app p6) (m.app p7) = m.det * hexGauss512 1 g p0 p1 p2 p3 p4 p5 p6 p7 :=
  hexGauss512_app m g p0 p1 p2 p3 p4 p5 p6 p7

/-- `_calculate_element_volumes_pyr` (6·V) is translation invariant -/
theorem C11_pyrLin_translate (t p0 p1 p2 p3 p4 : V3 R) :
    pyrLin6 (V3.add p0 t) (V3.add p1 t) (V3.add p2 t) (V3.add p3 t) (V3.add p4 t) = pyrLin6 p0 p1 p2 p3 p4 :=
  pyrLin6_add t p0 p1 p2 p3 p4

/-- … and a linear map `A` multiplies it by `det A` (rotation: 1, reflection: −1, scaling `s`: s³) -/
theorem C11_pyrLin_linear (m : M3 R) (p0 p1 p2 p3 p4 : V3 R) :
    pyrLin6 (m.app p0) (m.app p1) (m.app p2) (m.app p3) (m.app p4) = m.det * pyrLin6 p0 p1 p2 p3 p4 :=
  pyrLin6_app m p0 p1 p2 p3 p4

/-- `_calculate_element_volumes_pyr_centroid` (24·V) is translation invariant -/
theorem C11_pyrC_translate (t p0 p1 p2 p3 p4 : V3 R) :
    pyrC24 4 (V3.add p0 t) (V3.add p1 t) (V3.add p2 t) (V3.add p3 t) (V3.add p4 t) = pyrC24 4 p0 p1 p2 p3 p4 :=
  pyrC24_add t p0 p1 p2 p3 p4

/-- … and a linear map `A` multiplies it by `det A` (rotation: 1, reflection: −1, scaling `s`: s³) -/
theorem C11_pyrC_linear (m : M3 R) (p0 p1 p2 p3 p4 : V3 R) :
    pyrC24 4 (m.app p0) (m.app p1) (m.app p2) (m.app p3) (m.app p4) = m.det * pyrC24 4 p0 p1 p2 p3 p4 :=
  pyrC24_app m p0 p1 p2 p3 p4

/-- `_calculate_element_volumes_prism` (6·V) is translation invariant -/
theorem C11_prismLin_translate (t p0 p1 p2 p3 p4 p5 : V3 R) :
    prismLin6 (V3.add p0 t) (V3.add p1 t) (V3.add p2 t) (V3.add p3 t) (V3.add p4 t) (V3.add p5 t) = prismLin6 p0 p1 p2 p3 p4 p5 :=
  prismLin6_add t p0 p1 p2 p3 p4 p5

/-- … and a linear map `A` multiplies it by `det A` (rotation: 1, reflection: −1, scaling `s`: s³) -/
theorem C11_prismLin_linear (m : M3 R) (p0 p1 p2 p3 p4 p5 : V3 R) :
    prismLin6 (m.app p0) (m.app p1) (m.app p2) (m.app p3) (m.app p4) (m.app p5) = m.det * prismLin6 p0 p1 p2 p3 p4 p5 :=
  prismLin6_app m p0 p1 p2 p3 p4 p5

/-- `_calculate_element_volumes_prism_centroid` (24·V) is translation invariant -/
theorem C11_prismC_translate (t p0 p1 p2 p3 p4 p5 : V3 R) :
    prismC24 4 (V3.add p0 t) (V3.add p1 t) (V3.add p2 t) (V3.add p3 t) (V3.add p4 t) (V3.add p5 t) = prismC24 4 p0 p1 p2 p3 p4 p5 :=
  prismC24_add t p0 p1 p2 p3 p4 p5

/-- … and a linear map `A` multiplies it by `det A` (rotation: 1, reflection: −1, scaling `s`: s³) -/
theorem C11_prismC_linear (m : M3 R) (p0 p1 p2 p3 p4 p5 : V3 R) :
    prismC24 4 (m.app p0) (m.app p1) (m.app p2) (m.app p3) (m.app p4) (m.app p5) = m.det * prismC24 4 p0 p1 p2 p3 p4 p5 :=
  prismC24_app m p0 p1 p2 p3 p4 p5

/-- `_calculate_element_volumes_hexprism` (6·V; both modes call it) is translation invariant -/
theorem C11_hexprism_translate (t : V3 R) (p : Fin 12 → V3 R) :
    hexprism6 (fun k => V3.add (p k) t) = hexprism6 p := by
  simp only [hexprism6, hexLin6_add]

/-- … and a linear map multiplies it by `det A` -/
theorem C11_hexprism_linear (m : M3 R) (p : Fin 12 → V3 R) :
    hexprism6 (fun k => m.app (p k)) = m.det * hexprism6 p := by
  simp only [hexprism6, hexLin6_app]; ring

/-- `_calculate_element_volumes_polyhedron_core` (6·V, any face list): a linear map multiplies it by `det A` -/
theorem C11_polyFan_linear (m : M3 R) (faces : List (List (V3 R))) :
    polyFan6 (faces.map (·.map m.app)) = m.det * polyFan6 faces :=
  polyFan6_app m faces

/-- … under a translation `t` every face contributes `t · (its doubled area vector)`; hence the volume of a closed
    polyhedron (area vectors sum to zero) is translation invariant -/
theorem C11_polyFan_translate (t : V3 R) (faces : List (List (V3 R)))
    (hclosed : vsum (faces.map polyFanCross) = vzero) :
    polyFan6 (faces.map (·.map (V3.add · t))) = polyFan6 faces := by
  rw [polyFan6_add, hclosed, dot_vzero, add_zero]

/-- `_calculate_element_volumes_polyhedron_centroid_core` (6·V, `kinv k` = 1/k): linear maps multiply it by `det A` -/
theorem C11_polyC_linear (m : M3 R) (kinv : Nat → R) (faces : List (List (V3 R))) :
    polyC6 kinv (faces.map (·.map m.app)) = m.det * polyC6 kinv faces :=
  polyC6_app m kinv faces

/-- uniform scaling by `s` has determinant `s³` and acts on area vectors by `s²` -/
theorem C11_det_scale (s : R) (v : V3 R) :
    (scaleM s).det = s * s * s ∧ (scaleM s).app v = smul s v ∧ (cof (scaleM s)).app v = smul (s * s) v :=
  ⟨scaleM_det s, scaleM_app s v, scaleM_cof_app s v⟩

/-- an orthogonal matrix has `det² = 1`; in a domain `det = 1` (rotation) or `det = −1` (reflection) -/
theorem C11_det_orthogonal [IsDomain R] (m : M3 R) (h : Orthogonal m) : m.det = 1 ∨ m.det = -1 := by
  have h2 := det_sq_of_orthogonal m h
  have : (m.det - 1) * (m.det + 1) = 0 := by ring_nf; rw [show m.det ^ 2 = m.det * m.det by ring, h2]; ring
  rcases mul_eq_zero.mp this with h' | h'
  · left; exact sub_eq_zero.mp h'
  · right; exact eq_neg_of_add_eq_zero_left h'

/-! ## area vectors, radicands, normals -/

/-- tri: the doubled area vector `_calculate_tri_crosses` is translation invariant and transforms with `cof A` -/
theorem C11_tri_cof (m : M3 R) (t p0 p1 p2 : V3 R) :
    triCross (V3.add p0 t) (V3.add p1 t) (V3.add p2 t) = triCross p0 p1 p2 ∧
    triCross (m.app p0) (m.app p1) (m.app p2) = (cof m).app (triCross p0 p1 p2) :=
  ⟨triCross_add t p0 p1 p2, triCross_app m p0 p1 p2⟩

/-- quad "linear": both cross products (areas) and their sum (normal) -/
theorem C11_quadLin_cof (m : M3 R) (t p0 p1 p2 p3 : V3 R) :
    (quadLinCross1 (V3.add p0 t) (V3.add p1 t) (V3.add p2 t) (V3.add p3 t) = quadLinCross1 p0 p1 p2 p3 ∧
     quadLinCross2 (V3.add p0 t) (V3.add p1 t) (V3.add p2 t) (V3.add p3 t) = quadLinCross2 p0 p1 p2 p3 ∧
     quadLinNormal (V3.add p0 t) (V3.add p1 t) (V3.add p2 t) (V3.add p3 t) = quadLinNormal p0 p1 p2 p3) ∧
    (quadLinCross1 (m.app p0) (m.app p1) (m.app p2) (m.app p3) = (cof m).app (quadLinCross1 p0 p1 p2 p3) ∧
     quadLinCross2 (m.app p0) (m.app p1) (m.app p2) (m.app p3) = (cof m).app (quadLinCross2 p0 p1 p2 p3) ∧
     quadLinNormal (m.app p0) (m.app p1) (m.app p2) (m.app p3) = (cof m).app (quadLinNormal p0 p1 p2 p3)) :=
  ⟨⟨quadLinCross1_add t p0 p1 p2 p3, quadLinCross2_add t p0 p1 p2 p3, quadLinNormal_add t p0 p1 p2 p3⟩,
   ⟨quadLinCross1_app m p0 p1 p2 p3, quadLinCross2_app m p0 p1 p2 p3, quadLinNormal_app m p0 p1 p2 p3⟩⟩

/-- quad "gaussian": the integrand at every Gauss point -/
theorem C11_quadGauss_cof (m : M3 R) (t : V3 R) (xi eta : R) (p0 p1 p2 p3 : V3 R) :
    quadGaussCross 1 xi eta (V3.add p0 t) (V3.add p1 t) (V3.add p2 t) (V3.add p3 t)
      = quadGaussCross 1 xi eta p0 p1 p2 p3 ∧
    quadGaussCross 1 xi eta (m.app p0) (m.app p1) (m.app p2) (m.app p3)
      = (cof m).app (quadGaussCross 1 xi eta p0 p1 p2 p3) :=
  ⟨quadGaussCross_add t xi eta p0 p1 p2 p3, quadGaussCross_app m xi eta p0 p1 p2 p3⟩

/-- quad "centroid" (area and normal) -/
theorem C11_quadC_cof (m : M3 R) (t p0 p1 p2 p3 : V3 R) :
    quadCrossC (V3.add p0 t) (V3.add p1 t) (V3.add p2 t) (V3.add p3 t) 4 = quadCrossC p0 p1 p2 p3 4 ∧
    quadCrossC (m.app p0) (m.app p1) (m.app p2) (m.app p3) 4 = (cof m).app (quadCrossC p0 p1 p2 p3 4) :=
  ⟨quadCrossC_add t p0 p1 p2 p3, quadCrossC_app m p0 p1 p2 p3⟩

/-- polygon, fan triangulation (`_calculate_element_area_polygon`, `_calculate_polygon_cross`), any number of nodes -/
theorem C11_polygonFan_cof (m : M3 R) (t : V3 R) (l : List (V3 R)) :
    polyFanCross (l.map (V3.add · t)) = polyFanCross l ∧
    polyFanCross (l.map m.app) = (cof m).app (polyFanCross l) :=
  ⟨polyFanCross_add t l, polyFanCross_app m l⟩

/-- polygon, centroid kernel (`_calculate_polygon_cross_centroid`, times n², `n` = number of nodes): translation
    invariant and transformed by `cof A` -/
theorem C11_polygonC_cof (m : M3 R) (t : V3 R) (l : List (V3 R)) :
    polyCentroidCross (l.length : R) (l.map (V3.add · t)) = polyCentroidCross (l.length : R) l ∧
    polyCentroidCross (l.length : R) (l.map m.app) = (cof m).app (polyCentroidCross (l.length : R) l) :=
  ⟨polyCentroidCross_add t l, polyCentroidCross_app m _ l⟩

/-- rigid motions leave the radicand `|c|²` of every area unchanged -/
theorem C11_radicand_orthogonal (m : M3 R) (h : Orthogonal m) (c : V3 R) :
    normSq ((cof m).app c) = normSq c :=
  normSq_cof_of_orthogonal m h c

/-- uniform scaling multiplies every radicand by `s⁴` (areas by `s²`) -/
theorem C11_radicand_scale (s : R) (c : V3 R) :
    normSq ((cof (scaleM s)).app c) = (s * s) * (s * s) * normSq c := by
  rw [scaleM_cof_app, normSq_smul]

/-- normals rotate with the body: for orthogonal `Q`, `c(Q p) = det Q · Q c(p)` (a reflection flips the sign) -/
theorem C11_normal_rotates (m : M3 R) (h : Orthogonal m) (c : V3 R) :
    (cof m).app c = smul m.det (m.app c) :=
  cof_app_of_orthogonal m h c

/-- the radicands returned by the model for tri / quad (all modes) are invariant under rigid motions `p ↦ Q p + t` -/
theorem C11_shell_rads_rigid (m : M3 R) (h : Orthogonal m) (t : V3 R) (g : R) (p0 p1 p2 p3 : V3 R) :
    triRad (V3.add (m.app p0) t) (V3.add (m.app p1) t) (V3.add (m.app p2) t) = triRad p0 p1 p2 ∧
    quadLinRads (V3.add (m.app p0) t) (V3.add (m.app p1) t) (V3.add (m.app p2) t) (V3.add (m.app p3) t)
      = quadLinRads p0 p1 p2 p3 ∧
    quadGaussRads 1 g (V3.add (m.app p0) t) (V3.add (m.app p1) t) (V3.add (m.app p2) t) (V3.add (m.app p3) t)
      = quadGaussRads 1 g p0 p1 p2 p3 ∧
    quadCRad 4 (V3.add (m.app p0) t) (V3.add (m.app p1) t) (V3.add (m.app p2) t) (V3.add (m.app p3) t)
      = quadCRad 4 p0 p1 p2 p3 := by
  refine ⟨?_, ?_, ?_, ?_⟩
  · simp only [triRad, triCross_add, triCross_app, normSq_cof_of_orthogonal m h]
  · simp only [quadLinRads, quadLinCross1_add, quadLinCross2_add, quadLinCross1_app, quadLinCross2_app,
      normSq_cof_of_orthogonal m h]
  · simp only [quadGaussRads, quadGaussCross_add, quadGaussCross_app, normSq_cof_of_orthogonal m h]
  · simp only [quadCRad, quadCrossC_add, quadCrossC_app, normSq_cof_of_orthogonal m h]

/-! ## all modes agree on affine cells and equal the closed form -/

/-- hex = parallelepiped: linear, centroid and Gaussian (any abscissa) all give `det(e1,e2,e3)` -/
theorem C11_hex_modes_agree_affine (g : R) (o e1 e2 e3 : V3 R) :
    hexLin6 o (V3.add o e1) (V3.add (V3.add o e1) e2) (V3.add o e2) (V3.add o e3) (V3.add (V3.add o e1) e3)
      (V3.add (V3.add (V3.add o e1) e2) e3) (V3.add (V3.add o e2) e3) = 6 * V3.det e1 e2 e3 ∧
    hexC24 o (V3.add o e1) (V3.add (V3.add o e1) e2) (V3.add o e2) (V3.add o e3) (V3.add (V3.add o e1) e3)
      (V3.add (V3.add (V3.add o e1) e2) e3) (V3.add (V3.add o e2) e3) = 24 * V3.det e1 e2 e3 ∧
    hexGauss512 1 g o (V3.add o e1) (V3.add (V3.add o e1) e2) (V3.add o e2) (V3.add o e3) (V3.add (V3.add o e1) e3)
      (V3.add (V3.add (V3.add o e1) e2) e3) (V3.add (V3.add o e2) e3) = 512 * V3.det e1 e2 e3 :=
  hex_modes_affine g o e1 e2 e3

/-- prism over a triangle: both modes give `det(e2,e1,e3) / 2` -/
theorem C11_prism_modes_agree_affine (o e1 e2 e3 : V3 R) :
    prismLin6 o (V3.add o e1) (V3.add o e2) (V3.add o e3) (V3.add (V3.add o e1) e3) (V3.add (V3.add o e2) e3)
      = 3 * V3.det e2 e1 e3 ∧
    prismC24 4 o (V3.add o e1) (V3.add o e2) (V3.add o e3) (V3.add (V3.add o e1) e3) (V3.add (V3.add o e2) e3)
      = 12 * V3.det e2 e1 e3 :=
  prism_modes_affine' o e1 e2 e3

/-- pyramid over a parallelogram with any apex: both modes give `det(e1,e2,a) / 3` -/
theorem C11_pyr_modes_agree_affine (o e1 e2 a : V3 R) :
    pyrLin6 o (V3.add o e1) (V3.add (V3.add o e1) e2) (V3.add o e2) (V3.add o a) = 2 * V3.det e1 e2 a ∧
    pyrC24 4 o (V3.add o e1) (V3.add (V3.add o e1) e2) (V3.add o e2) (V3.add o a) = 8 * V3.det e1 e2 a :=
  pyr_modes_affine o e1 e2 a

/-- hexprism = two extruded quads: for planar bases (twist 0) the value is `½ (Σ diagonals' cross products) · e` -/
theorem C11_hexprism_extruded (b : Fin 6 → V3 R) (e : V3 R)
    (h1 : V3.det (V3.sub (b 1) (b 0)) (V3.sub (b 2) (b 0)) (V3.sub (b 3) (b 0)) = 0)
    (h2 : V3.det (V3.sub (b 3) (b 0)) (V3.sub (b 4) (b 0)) (V3.sub (b 5) (b 0)) = 0) :
    hexLin6 (b 0) (b 1) (b 2) (b 3) (V3.add (b 0) e) (V3.add (b 1) e) (V3.add (b 2) e) (V3.add (b 3) e)
      + hexLin6 (b 0) (b 3) (b 4) (b 5) (V3.add (b 0) e) (V3.add (b 3) e) (V3.add (b 4) e) (V3.add (b 5) e)
    = 3 * dot (cross (V3.sub (b 2) (b 0)) (V3.sub (b 3) (b 1))) e
      + 3 * dot (cross (V3.sub (b 4) (b 0)) (V3.sub (b 5) (b 3))) e := by
  rw [hexLin6_extruded, hexLin6_extruded, h1, h2]; ring

/-- tri and quad on a parallelogram: every kernel is a fixed multiple of `e1 × e2`
    (areas: `|e1×e2|/2` for the triangle, `|e1×e2|` for the quad in all three modes) -/
theorem C11_shell_modes_agree_affine (xi eta : R) (o e1 e2 : V3 R) :
    triCross o (V3.add o e1) (V3.add o e2) = cross e1 e2 ∧
    quadLinCross1 o (V3.add o e1) (V3.add (V3.add o e1) e2) (V3.add o e2) = cross e1 e2 ∧
    quadLinCross2 o (V3.add o e1) (V3.add (V3.add o e1) e2) (V3.add o e2) = cross e1 e2 ∧
    quadGaussCross 1 xi eta o (V3.add o e1) (V3.add (V3.add o e1) e2) (V3.add o e2) = smul 4 (cross e1 e2) ∧
    quadCrossC o (V3.add o e1) (V3.add (V3.add o e1) e2) (V3.add o e2) 4 = smul 32 (cross e1 e2) :=
  shell_modes_affine xi eta o e1 e2

end Ring

/-! ## renumbering and storage order -/

section Lookup
variable {α β : Type}

/-- node ids relabelled by an injective `σ`, element ids by any `τ`: every element keeps its value -/
theorem C11_relabel (K : List α → Option β) (σ τ : Nat → Nat) (hσ : Function.Injective σ)
    (nodes : List (Nat × α)) (elems : List (Nat × List Nat)) :
    elemMetrics K (nodes.map fun p => (σ p.1, p.2)) (elems.map fun e => (τ e.1, e.2.map σ))
      = (elemMetrics K nodes elems).map fun r => (τ r.1, r.2) := by
  simp only [elemMetrics, List.map_map]
  apply List.map_congr_left
  intro e _
  simp only [Function.comp, gather_relabel σ hσ]

/-- storage order: permuting the node table (distinct ids) changes nothing; permuting the element rows permutes the
    (element id, value) pairs accordingly -/
theorem C11_storage_perm (K : List α → Option β) {nodes nodes' : List (Nat × α)}
    {elems elems' : List (Nat × List Nat)} (hp : nodes.Perm nodes') (hn : (nodes.map (·.1)).Nodup)
    (he : elems.Perm elems') :
    (elemMetrics K nodes' elems').Perm (elemMetrics K nodes elems) := by
  have h1 : elemMetrics K nodes' elems' = elemMetrics K nodes elems' := by
    simp only [elemMetrics]
    apply List.map_congr_left
    intro e _
    rw [gather_perm hp hn]
  rw [h1]
  exact (he.map _).symm

/-- mixed meshes, repaired assembly (`Cfg.fixed`): the result is a permutation of the blocks' own (id, value) pairs,
    so reordering rows inside the type blocks cannot move a value to another element -/
theorem C11_storage_perm_mixed {blocks blocks' : List (List (Nat × β))}
    (h : blocks.flatten.Perm blocks'.flatten) :
    (assemble Cfg.fixed blocks').Perm (assemble Cfg.fixed blocks) :=
  ((assemble_fixed_perm blocks').trans h.symm).trans (assemble_fixed_perm blocks).symm

/-- the assembly as coded (`out[types == k] = partial_k`) binds values to the wrong elements when a block is not
    stored in ascending id order: elements 1 and 2 swap their values (finding C11-mixed-binding) -/
theorem C11_mixed_counterexample_upstream :
    assemble Cfg.upstream [[(2, 10), (1, 20)], [(3, 30)]] = [(1, 10), (2, 20), (3, 30)] ∧
    assemble Cfg.fixed [[(2, 10), (1, 20)], [(3, 30)]] = [(1, 20), (2, 10), (3, 30)] ∧
    assemble Cfg.upstream [[(1, 20), (2, 10)], [(3, 30)]] = [(1, 20), (2, 10), (3, 30)] := by
  decide

end Lookup

/-! ## the brick generator -/

/-- `generate_brick` yields exactly the requested numbers of elements (for all `nx ny nz`, zero included) -/
theorem C11_brick_count (nx ny nz : Nat) :
    (∀ rows, brickRows "hex" nx ny nz = some rows → rows.length = nx * ny * nz) ∧
    (∀ rows, brickRows "tet" nx ny nz = some rows → rows.length = 6 * nx * ny * nz) ∧
    (∀ rows, brickRows "quad" nx ny nz = some rows → rows.length = nx * ny) ∧
    (∀ rows, brickRows "tri" nx ny nz = some rows → rows.length = 2 * nx * ny) :=
  ⟨fun r h => brick_count_hex nx ny nz r h, fun r h => brick_count_tet nx ny nz r h,
   fun r h => brick_count_quad nx ny nz r h, fun r h => brick_count_tri nx ny nz r h⟩

section Ordered
variable {K : Type} [Field K] [LinearOrder K] [IsStrictOrderedRing K]

/-- every generated element is positively oriented (spacings `hx hy hz > 0`): hex in the linear and centroid modes,
    all six tets of every cell; in 2-D both triangles and both halves of every quad have area vector `(0,0,hx·hy)` -/
theorem C11_brick_positive (nx ny nz : Nat) (hx hy hz zero : K) (p1 : 0 < hx) (p2 : 0 < hy) (p3 : 0 < hz) :
    (∀ i ∈ brickIdx3 nx ny nz,
      0 < on8 hexLin6 (gridNode3 nx ny hx hy hz) (hexRow (nx + 1) ((nx + 1) * (ny + 1)) i) ∧
      0 < on8 hexC24 (gridNode3 nx ny hx hy hz) (hexRow (nx + 1) ((nx + 1) * (ny + 1)) i)) ∧
    (∀ i ∈ brickIdx3 nx ny nz, ∀ r ∈ tetRows (nx + 1) ((nx + 1) * (ny + 1)) i, ∀ a b c d, r = [a, b, c, d] →
      0 < tet6 (gridNode3 nx ny hx hy hz a) (gridNode3 nx ny hx hy hz b) (gridNode3 nx ny hx hy hz c)
        (gridNode3 nx ny hx hy hz d)) ∧
    (∀ i ∈ brickIdx2 nx ny,
      quadLinCross1 (gridNode2 nx hx hy zero i) (gridNode2 nx hx hy zero (i + 1))
        (gridNode2 nx hx hy zero (i + 1 + (nx + 1))) (gridNode2 nx hx hy zero (i + (nx + 1))) = ⟨0, 0, hx * hy⟩ ∧
      triCross (gridNode2 nx hx hy zero i) (gridNode2 nx hx hy zero (i + 1))
        (gridNode2 nx hx hy zero (i + 1 + (nx + 1))) = ⟨0, 0, hx * hy⟩ ∧
      triCross (gridNode2 nx hx hy zero i) (gridNode2 nx hx hy zero (i + 1 + (nx + 1)))
        (gridNode2 nx hx hy zero (i + (nx + 1))) = ⟨0, 0, hx * hy⟩ ∧ 0 < hx * hy) := by
  refine ⟨fun i hi => brick_hex_pos nx ny nz hx hy hz p1 p2 p3 i hi,
    fun i hi r hr a b c d hrow => brick_tet_pos nx ny nz hx hy hz p1 p2 p3 i hi r hr a b c d hrow,
    fun i hi => ⟨(brick_quad_value nx ny hx hy zero i hi).1, (brick_tri_value nx ny hx hy zero i hi).1,
      (brick_tri_value nx ny hx hy zero i hi).2, mul_pos p1 p2⟩⟩

/-- the metrics of a generated brick sum to the box: `lx·ly·lz` (hex in all three modes, tet), `lx·ly` (quad, tri) -/
theorem C11_brick_sum (nx ny nz : Nat) (h1 : 0 < nx) (h2 : 0 < ny) (h3 : 0 < nz) (lx ly lz g zero : K) :
    (∀ rows, brickRows "hex" nx ny nz = some rows →
      (rows.map fun r => on8 hexLin6 (gridNode3 nx ny (lx / nx) (ly / ny) (lz / nz)) r / 6).sum = lx * ly * lz ∧
      (rows.map fun r => on8 hexC24 (gridNode3 nx ny (lx / nx) (ly / ny) (lz / nz)) r / 24).sum = lx * ly * lz ∧
      (rows.map fun r => on8 (hexGauss512 1 g) (gridNode3 nx ny (lx / nx) (ly / ny) (lz / nz)) r / 512).sum
        = lx * ly * lz) ∧
    (∀ rows, brickRows "tet" nx ny nz = some rows →
      (rows.map fun r => on4 tet6 (gridNode3 nx ny (lx / nx) (ly / ny) (lz / nz)) r / 6).sum = lx * ly * lz) ∧
    (∀ rows, brickRows "quad" nx ny nz = some rows →
      (rows.map fun r => on4 quadAreaZ (gridNode2 nx (lx / nx) (ly / ny) zero) r).sum = lx * ly) ∧
    (∀ rows, brickRows "tri" nx ny nz = some rows →
      (rows.map fun r => on3 triAreaZ (gridNode2 nx (lx / nx) (ly / ny) zero) r).sum = lx * ly) :=
  ⟨fun rows h => brick_hex_sum nx ny nz h1 h2 h3 lx ly lz g rows h,
   fun rows h => brick_tet_sum nx ny nz h1 h2 h3 lx ly lz rows h,
   fun rows h => brick_quad_sum nx ny nz h1 h2 lx ly zero rows h,
   fun rows h => brick_tri_sum nx ny nz h1 h2 lx ly zero rows h⟩

end Ordered

/-! ## non-vacuity: the kernels are not trivially zero, and every hypothesis above is satisfiable

(`ℤ` examples are closed by kernel `decide`; the orthogonal matrix is the exact rational rotation of the
Pythagorean quadruple 1²+2²+2² = 3².) -/
section Examples

/-- unit cells: tet 1/6, hex 1 (all modes), pyramid 1/3, prism 1/2 -/
example : tet6 (R := Int) ⟨0,0,0⟩ ⟨1,0,0⟩ ⟨0,1,0⟩ ⟨0,0,1⟩ = 1 ∧
    hexLin6 (R := Int) ⟨0,0,0⟩ ⟨1,0,0⟩ ⟨1,1,0⟩ ⟨0,1,0⟩ ⟨0,0,1⟩ ⟨1,0,1⟩ ⟨1,1,1⟩ ⟨0,1,1⟩ = 6 ∧
    hexC24 (R := Int) ⟨0,0,0⟩ ⟨1,0,0⟩ ⟨1,1,0⟩ ⟨0,1,0⟩ ⟨0,0,1⟩ ⟨1,0,1⟩ ⟨1,1,1⟩ ⟨0,1,1⟩ = 24 ∧
    pyrLin6 (R := Int) ⟨0,0,0⟩ ⟨1,0,0⟩ ⟨1,1,0⟩ ⟨0,1,0⟩ ⟨0,0,1⟩ = 2 ∧
    pyrC24 (R := Int) 4 ⟨0,0,0⟩ ⟨1,0,0⟩ ⟨1,1,0⟩ ⟨0,1,0⟩ ⟨0,0,1⟩ = 8 ∧
    prismLin6 (R := Int) ⟨0,0,0⟩ ⟨0,1,0⟩ ⟨1,0,0⟩ ⟨0,0,1⟩ ⟨0,1,1⟩ ⟨1,0,1⟩ = 3 ∧
    prismC24 (R := Int) 4 ⟨0,0,0⟩ ⟨0,1,0⟩ ⟨1,0,0⟩ ⟨0,0,1⟩ ⟨0,1,1⟩ ⟨1,0,1⟩ = 12 := by decide

/-- `C11_tet_linear` / `C11_tet_translate` on a shear-and-stretch of determinant 6 followed by a shift -/
example : tet6 (R := Int) (V3.add ((⟨2,1,0, 0,3,0, 0,0,1⟩ : M3 Int).app ⟨0,0,0⟩) ⟨5,-7,9⟩)
      (V3.add ((⟨2,1,0, 0,3,0, 0,0,1⟩ : M3 Int).app ⟨1,0,0⟩) ⟨5,-7,9⟩)
      (V3.add ((⟨2,1,0, 0,3,0, 0,0,1⟩ : M3 Int).app ⟨0,1,0⟩) ⟨5,-7,9⟩)
      (V3.add ((⟨2,1,0, 0,3,0, 0,0,1⟩ : M3 Int).app ⟨0,0,1⟩) ⟨5,-7,9⟩) = 6 := by
  rw [C11_tet_translate, C11_tet_linear]; decide

/-- a polyhedron given by faces (the unit tet with outward faces): fan volume 1/6, closed (area vectors sum to 0) -/
example : polyFan6 (R := Int) [[⟨0,0,0⟩, ⟨0,1,0⟩, ⟨1,0,0⟩], [⟨0,0,0⟩, ⟨1,0,0⟩, ⟨0,0,1⟩], [⟨1,0,0⟩, ⟨0,1,0⟩, ⟨0,0,1⟩],
      [⟨0,0,0⟩, ⟨0,0,1⟩, ⟨0,1,0⟩]] = 1 ∧
    vsum ([[⟨0,0,0⟩, ⟨0,1,0⟩, ⟨1,0,0⟩], [⟨0,0,0⟩, ⟨1,0,0⟩, ⟨0,0,1⟩], [⟨1,0,0⟩, ⟨0,1,0⟩, ⟨0,0,1⟩],
      [⟨0,0,0⟩, ⟨0,0,1⟩, ⟨0,1,0⟩]].map (polyFanCross (R := Int))) = vzero := by decide

/-- an exact rational rotation (quaternion (1,1,1,0)) and a reflection: both satisfy `Orthogonal` -/
def rotQ : M3 Rat := ⟨1/3, 2/3, 2/3, 2/3, 1/3, -2/3, -2/3, 2/3, -1/3⟩
theorem rotQ_orthogonal : Orthogonal rotQ := by
  constructor <;> norm_num [rotQ]
example : rotQ.det = 1 := by norm_num [rotQ, M3.det]
example : Orthogonal (⟨-1,0,0, 0,1,0, 0,0,1⟩ : M3 Rat) ∧ (⟨-1,0,0, 0,1,0, 0,0,1⟩ : M3 Rat).det = -1 := by
  refine ⟨by constructor <;> norm_num, by norm_num [M3.det]⟩

/-- `C11_radicand_orthogonal`, `C11_normal_rotates`, `C11_det_orthogonal` instantiated on the rotation -/
example : normSq ((cof rotQ).app ⟨1, 2, 3⟩) = 14 := by
  rw [C11_radicand_orthogonal rotQ rotQ_orthogonal]; norm_num [V3.normSq, V3.dot]
example : (cof rotQ).app ⟨0, 0, 1⟩ = smul rotQ.det (rotQ.app ⟨0, 0, 1⟩) := C11_normal_rotates rotQ rotQ_orthogonal _
example : rotQ.det = 1 ∨ rotQ.det = -1 := C11_det_orthogonal rotQ rotQ_orthogonal

/-- polygon kernels on the unit square given as a 4-gon: fan = 2·(0,0,1), centroid kernel = n²·2·(0,0,1) -/
example : polyFanCross (R := Int) [⟨0,0,0⟩, ⟨1,0,0⟩, ⟨1,1,0⟩, ⟨0,1,0⟩] = ⟨0, 0, 2⟩ ∧
    polyCentroidCross (R := Int) 4 [⟨0,0,0⟩, ⟨1,0,0⟩, ⟨1,1,0⟩, ⟨0,1,0⟩] = ⟨0, 0, 32⟩ := by decide

/-- a non-planar quad: the three area modes have different radicands (so agreement is a fact about affine cells only) -/
example : quadLinRads (R := Int) ⟨0,0,0⟩ ⟨1,0,0⟩ ⟨1,1,1⟩ ⟨0,1,0⟩ = [2, 2] ∧
    quadCRad (R := Int) 4 ⟨0,0,0⟩ ⟨1,0,0⟩ ⟨1,1,1⟩ ⟨0,1,0⟩ = 1536 := by decide

/-- `C11_relabel`: ids 5, 9, 7 relabelled by `· + 100` (injective), element ids by `· * 2` -/
example : elemMetrics (fun l : List Nat => some l.sum) ([(5, 10), (9, 20), (7, 30)].map fun p => (p.1 + 100, p.2))
      ([(1, [5, 7]), (2, [9, 9, 5])].map fun e => (e.1 * 2, e.2.map (· + 100)))
    = [(2, some 40), (4, some 50)] := by
  rw [C11_relabel (fun l : List Nat => some l.sum) (· + 100) (· * 2) (fun a b h => Nat.add_right_cancel h)]; decide

/-- `C11_storage_perm`: the node table stored in another order, the element rows swapped -/
example : (elemMetrics (fun l : List Nat => some l.sum) [(9, 20), (5, 10), (7, 30)] [(2, [9, 9, 5]), (1, [5, 7])]).Perm
    (elemMetrics (fun l : List Nat => some l.sum) [(5, 10), (9, 20), (7, 30)] [(1, [5, 7]), (2, [9, 9, 5])]) :=
  C11_storage_perm _ (List.Perm.swap _ _ _) (by decide) (List.Perm.swap _ _ _)

/-- `C11_storage_perm_mixed`: rows of the first block swapped -/
example : (assemble Cfg.fixed [[(1, 20), (2, 10)], [(3, 30)]]).Perm (assemble Cfg.fixed [[(2, 10), (1, 20)], [(3, 30)]]) :=
  C11_storage_perm_mixed (by decide)

/-- the generator's start indices for a 2×1×1 brick (3×2×2 nodes), its first hex and the six tets of cell 0 -/
example : brickIdx3 2 1 1 = [0, 1] ∧ hexRow 3 6 0 = [0, 1, 4, 3, 6, 7, 10, 9] ∧ brickIdx2 2 2 = [0, 1, 3, 4] ∧
    tetRows 3 6 0 = [[0, 1, 4, 6], [1, 10, 6, 7], [1, 4, 6, 10], [0, 4, 3, 9], [0, 4, 9, 6], [4, 9, 6, 10]] := by decide

/-- `C11_brick_positive` / `C11_brick_sum` with spacings 1/2, 3, 5/4 over ℚ (2 × 1 × 4 cells, box 1 × 3 × 5) -/
example := C11_brick_positive (K := Rat) 2 1 4 (1/2) 3 (5/4) 0 (by norm_num) (by norm_num) (by norm_num)
example := C11_brick_sum (K := Rat) 2 1 4 (by decide) (by decide) (by decide) 1 3 5 (5773502692 / 10000000000) 0

end Examples

end Femio.C11
