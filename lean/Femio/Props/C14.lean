import Femio.Lemmas.ConvertProps
import Mathlib.Tactic.NormNum
import Mathlib.Data.Rat.Defs

/-! C14 — `convert_nodal2elemental(calc_average=True)` and `convert_elemental2nodal` (modes 'mean' and
'effective') of femio/signal_processor.py, for one column of a field over an arbitrary (ordered) field `K`.

Property theorems only (helper lemmas: `Femio/Lemmas/ConvertProps.lean`).  Each theorem is followed by a
non-vacuity `example` over `ℚ` on the 2-node × 2-element incidence `inc i j = (i ≤ j)`
(node 0 touches elements 0 and 1, node 1 touches element 1 only). -/
namespace Femio.C14
open BigOperators

/-- incidence of the examples: node 0 touches elements 0 and 1, node 1 touches element 1 -/
local notation "inc₀" => (fun i j : Nat => decide (i ≤ j))
/-- element sizes of the examples: 1 and 2 -/
local notation "m₀" => (fun j : Nat => ((j : ℚ) + 1))

/-! ### nodal → elemental -/

/-- **C14_mean_of_nodes.**  If the nodal column is a function `g` of the node id (stored in the order of
`nodeIds`) and every id of the element occurs in `nodeIds`, the element value is the mean of `g` over the
element's own nodes — whatever the ids and the storage order are.  (`nodeIds.Nodup` is not needed: `idPos`
returns the first occurrence, whose value is `g id` anyway.) -/
theorem C14_mean_of_nodes {K : Type} [Field K]
    (nodeIds : List Nat) (vals : List K) (conn : List Nat) (g : Nat → K)
    (hlen : vals.length = nodeIds.length)
    (hg : ∀ k (h : k < nodeIds.length), vals[k]'(hlen ▸ h) = g nodeIds[k])
    (hconn : ∀ i ∈ conn, i ∈ nodeIds) :
    nodal2elemental nodeIds vals conn = some ((conn.map g).sum / (conn.length : K)) := by
  unfold nodal2elemental
  rw [gatherVals_of_fun nodeIds vals conn g hlen hg hconn]
  simp [meanL]

/-- non-vacuity: ids 7, 3, 5 stored in that order, `g id = id²`, element (5, 7): (25 + 49) / 2 -/
example : nodal2elemental [7, 3, 5] [(49 : ℚ), 9, 25] [5, 7] = some 37 := by
  rw [C14_mean_of_nodes [7, 3, 5] [(49 : ℚ), 9, 25] [5, 7] (fun i => (i : ℚ) ^ 2) rfl
    (by intro k h
        have : k = 0 ∨ k = 1 ∨ k = 2 := by simp at h; omega
        rcases this with rfl | rfl | rfl <;> norm_num)
    (by decide)]
  norm_num

/-- the hypothesis on the ids cannot be dropped: an unknown id gives no value at all -/
theorem C14_mean_of_nodes_unknown_id {K : Type} [Field K]
    (nodeIds : List Nat) (vals : List K) (conn : List Nat) (h : ∃ i ∈ conn, i ∉ nodeIds) :
    nodal2elemental nodeIds vals conn = none := by
  unfold nodal2elemental
  rw [gatherVals_none nodeIds vals conn h]; rfl

example : nodal2elemental [7, 3, 5] [(49 : ℚ), 9, 25] [5, 4] = none :=
  C14_mean_of_nodes_unknown_id _ _ _ ⟨4, by decide, by decide⟩

/-- **C14_affine_at_centroid.**  For an affine nodal field `g id = a·x(id) + b·y(id) + c·z(id) + d` the
element value is `g` evaluated at the vertex centroid of the element (characteristic 0, non-empty element). -/
theorem C14_affine_at_centroid {K : Type} [Field K] [CharZero K]
    (nodeIds : List Nat) (vals : List K) (conn : List Nat) (px py pz : Nat → K) (a b c d : K)
    (hlen : vals.length = nodeIds.length)
    (hg : ∀ k (h : k < nodeIds.length),
      vals[k]'(hlen ▸ h) = a * px nodeIds[k] + b * py nodeIds[k] + c * pz nodeIds[k] + d)
    (hconn : ∀ i ∈ conn, i ∈ nodeIds) (hne : conn ≠ []) :
    nodal2elemental nodeIds vals conn
      = some (a * meanL (conn.map px) + b * meanL (conn.map py) + c * meanL (conn.map pz) + d) := by
  rw [C14_mean_of_nodes nodeIds vals conn (fun i => a * px i + b * py i + c * pz i + d) hlen hg hconn,
    sum_map_affine]
  have hL : (conn.length : K) ≠ 0 := by
    have : conn.length ≠ 0 := fun h => hne (List.length_eq_zero_iff.mp h)
    exact_mod_cast this
  simp only [meanL, List.length_map]
  congr 1
  field_simp

/-- non-vacuity: nodes 7, 3, 5 at x = 0, 1, 4 (y = z = id), field 2x + y − z + 10, element (5, 7):
centroid x = 2, so the value is 14 -/
example :
    nodal2elemental [7, 3, 5] [(10 : ℚ), 12, 18] [5, 7] = some 14 := by
  rw [C14_affine_at_centroid [7, 3, 5] [(10 : ℚ), 12, 18] [5, 7]
    (fun i => if i = 7 then 0 else if i = 3 then 1 else 4) (fun i => i) (fun i => i) 2 1 (-1) 10 rfl
    (by intro k h
        have : k = 0 ∨ k = 1 ∨ k = 2 := by simp at h; omega
        rcases this with rfl | rfl | rfl <;> norm_num)
    (by decide) (by simp)]
  norm_num [meanL]

/-! ### elemental → nodal, mode 'mean' -/

section Mean
variable {K : Type} [Field K] [LinearOrder K] [IsStrictOrderedRing K]

/-- **C14_mean_row_stochastic.**  If the elements touching node `i` have positive size and there is at least
one of them, row `i` of the 'mean' matrix is a probability vector supported on the touching elements. -/
theorem C14_mean_row_stochastic (e : Nat) (inc : Nat → Nat → Bool) (m : Nat → K) (i : Nat)
    (hm : ∀ j < e, inc i j = true → 0 < m j) (ht : ∃ j < e, inc i j = true) :
    (∀ j < e, 0 ≤ meanWeight e inc m i j) ∧
    (∀ j, inc i j = false → meanWeight e inc m i j = 0) ∧
    sumTo e (meanWeight e inc m i) = 1 := by
  refine ⟨meanWeight_nonneg e inc m i hm ht, ?_, ?_⟩
  · intro j hj; simp [meanWeight, metricInc, hj]
  · exact sumTo_meanWeight e inc m i (sumTo_metricInc_pos e inc m i hm ht).ne'

/-- non-vacuity: node 0 touches both elements, sizes 1 and 2: weights 1/3 and 2/3 -/
example :
    (∀ j < 2, inc₀ 0 j = true → 0 < m₀ j) ∧ (∃ j < 2, inc₀ 0 j = true) ∧
    meanWeight 2 inc₀ m₀ 0 0 = 1 / 3 ∧ meanWeight 2 inc₀ m₀ 0 1 = 2 / 3 ∧
    meanWeight 2 inc₀ m₀ 1 0 = 0 ∧ meanWeight 2 inc₀ m₀ 1 1 = 1 := by
  refine ⟨by intro j hj _; positivity, ⟨0, by norm_num⟩, ?_, ?_, ?_, ?_⟩ <;>
    norm_num [meanWeight, metricInc, sumTo, List.range_succ]

/-- **C14_constants.**  Same hypotheses: a constant elemental field is converted to the same constant. -/
theorem C14_constants (e : Nat) (inc : Nat → Nat → Bool) (m : Nat → K) (i : Nat) (c : K)
    (hm : ∀ j < e, inc i j = true → 0 < m j) (ht : ∃ j < e, inc i j = true) :
    e2nMean e inc m (fun _ => c) i = c := by
  unfold e2nMean
  rw [sumTo_eq_sum, ← Finset.sum_mul, ← sumTo_eq_sum, (C14_mean_row_stochastic e inc m i hm ht).2.2, one_mul]

/-- non-vacuity: the constant 7 at node 0 (two touching elements of different size) -/
example : e2nMean 2 inc₀ m₀ (fun _ => 7) 0 = 7 :=
  C14_constants 2 inc₀ m₀ 0 7 (by intro j hj _; positivity) ⟨0, by norm_num⟩

/-- the touching hypothesis cannot be dropped: an isolated node gets 0 (`c · (1/0)` in a field; NaN in numpy) -/
example : e2nMean 2 (fun _ _ => false) m₀ (fun _ => 7) 0 = 0 := by
  norm_num [e2nMean, meanWeight, metricInc, sumTo, List.range_succ]

/-- **C14_bounds.**  Same hypotheses: the nodal value lies between any bounds of the values of the touching
elements (the values of the other elements are irrelevant). -/
theorem C14_bounds (e : Nat) (inc : Nat → Nat → Bool) (m x : Nat → K) (i : Nat) (lo hi : K)
    (hm : ∀ j < e, inc i j = true → 0 < m j) (ht : ∃ j < e, inc i j = true)
    (hx : ∀ j < e, inc i j = true → lo ≤ x j ∧ x j ≤ hi) :
    lo ≤ e2nMean e inc m x i ∧ e2nMean e inc m x i ≤ hi := by
  obtain ⟨h0, hz, h1⟩ := C14_mean_row_stochastic e inc m i hm ht
  have htouch : ∀ j, meanWeight e inc m i j ≠ 0 → inc i j = true := by
    intro j hne
    cases hb : inc i j with
    | true => rfl
    | false => exact absurd (hz j hb) hne
  unfold e2nMean
  rw [sumTo_eq_sum]
  rw [sumTo_eq_sum] at h1
  exact convex_bounds (Finset.range e) (meanWeight e inc m i) x lo hi
    (fun j hj => h0 j (Finset.mem_range.mp hj)) h1
    (fun j hj hne => (hx j (Finset.mem_range.mp hj) (htouch j hne)).1)
    (fun j hj hne => (hx j (Finset.mem_range.mp hj) (htouch j hne)).2)

/-- non-vacuity: x = (3, 9) at node 0 gives (1·3 + 2·9)/3 = 7 ∈ [3, 9]; at node 1 the value 100 of the
non-touching element 0 does not matter -/
example :
    e2nMean 2 inc₀ m₀ (fun j => if j = 0 then 3 else 9) 0 = 7 ∧
    ((9 : ℚ) ≤ e2nMean 2 inc₀ m₀ (fun j => if j = 0 then 100 else 9) 1 ∧
      e2nMean 2 inc₀ m₀ (fun j => if j = 0 then 100 else 9) 1 ≤ 9) := by
  refine ⟨by norm_num [e2nMean, meanWeight, metricInc, sumTo, List.range_succ], ?_⟩
  apply C14_bounds 2 inc₀ m₀ _ 1 9 9 (by intro j hj _; positivity) ⟨1, by norm_num⟩
  intro j hj h
  have : j = 1 := by simp at h; omega
  subst this; norm_num

/-- **C14_weights_prop_size.**  Same hypotheses: the total size `D` of the touching elements is positive,
the weight of a touching element `j` is `m j / D`, and hence the weights of two touching elements are
proportional to their sizes.  `D` is the `Finset` sum of `m` over `{j < e | inc i j}`. -/
theorem C14_weights_prop_size (e : Nat) (inc : Nat → Nat → Bool) (m : Nat → K) (i : Nat)
    (hm : ∀ j < e, inc i j = true → 0 < m j) (ht : ∃ j < e, inc i j = true) :
    0 < ∑ j' ∈ (Finset.range e).filter (fun j' => inc i j' = true), m j' ∧
    (∀ j, inc i j = true →
      meanWeight e inc m i j = m j / ∑ j' ∈ (Finset.range e).filter (fun j' => inc i j' = true), m j') ∧
    (∀ j k, inc i j = true → inc i k = true →
      meanWeight e inc m i j * m k = meanWeight e inc m i k * m j) := by
  refine ⟨?_, ?_, ?_⟩
  · rw [← sumTo_metricInc]; exact sumTo_metricInc_pos e inc m i hm ht
  · intro j hj
    rw [meanWeight_eq_div, sumTo_metricInc, metricInc_eq, if_pos hj]
  · intro j k hj hk
    rw [meanWeight_eq_div, meanWeight_eq_div, metricInc_eq, metricInc_eq, if_pos hj, if_pos hk]
    ring

/-- non-vacuity: at node 0, D = 1 + 2 and the weights 1/3, 2/3 are in the ratio of the sizes 1 : 2 -/
example :
    ∑ j' ∈ (Finset.range 2).filter (fun j' => inc₀ 0 j' = true), m₀ j' = 3 ∧
    meanWeight 2 inc₀ m₀ 0 0 * m₀ 1 = meanWeight 2 inc₀ m₀ 0 1 * m₀ 0 ∧
    meanWeight 2 inc₀ m₀ 0 1 = 2 / 3 := by
  have h := C14_weights_prop_size 2 inc₀ m₀ 0 (by intro j hj _; positivity) ⟨0, by norm_num⟩
  have hD : ∑ j' ∈ (Finset.range 2).filter (fun j' => inc₀ 0 j' = true), m₀ j' = 3 := by
    norm_num [Finset.sum_filter, Finset.sum_range_succ]
  refine ⟨hD, h.2.2 0 1 (by decide) (by decide), ?_⟩
  rw [h.2.1 1 (by decide), hD]; norm_num

end Mean

/-! ### elemental → nodal, mode 'effective' -/

section Effective
variable {K : Type} [Field K] [CharZero K]

/-- **C14_effective_colsum.**  If element `j` has at least one node among the `n` nodes, column `j` of the
'effective' matrix sums to one, every node of the element gets the same share `1 / #{i' < n | inc i' j}`
(the count is the `Finset.card` of the filtered range, cast to `K`; it equals
`sumTo n fun k => ind (inc k j)`), and the other nodes get nothing. -/
theorem C14_effective_colsum (n : Nat) (inc : Nat → Nat → Bool) (j : Nat)
    (hj : ∃ i < n, inc i j = true) :
    sumTo n (fun i => (effWeight n inc i j : K)) = 1 ∧
    (∀ i, inc i j = true →
      (effWeight n inc i j : K) = 1 / (((Finset.range n).filter (fun k => inc k j = true)).card : K)) ∧
    (∀ i, inc i j = false → (effWeight n inc i j : K) = 0) ∧
    sumTo n (fun k => (ind (inc k j) : K)) = (((Finset.range n).filter (fun k => inc k j = true)).card : K) := by
  refine ⟨sumTo_effWeight n inc j (sumTo_ind_ne_zero n inc j hj), ?_, ?_, sumTo_ind n inc j⟩
  · intro i hi
    rw [effWeight_eq_div, sumTo_ind, hi]; rfl
  · intro i hi
    simp [effWeight, ind, hi]

/-- non-vacuity: element 1 has the two nodes 0 and 1, each gets 1/2; element 0 has node 0 only -/
example :
    (∃ i < 2, inc₀ i 1 = true) ∧
    (effWeight 2 inc₀ 0 1 : ℚ) = 1 / 2 ∧ (effWeight 2 inc₀ 1 1 : ℚ) = 1 / 2 ∧
    (effWeight 2 inc₀ 0 0 : ℚ) = 1 ∧ (effWeight 2 inc₀ 1 0 : ℚ) = 0 ∧
    ((Finset.range 2).filter (fun k => inc₀ k 1 = true)).card = 2 := by
  refine ⟨⟨0, by norm_num⟩, ?_, ?_, ?_, ?_, by decide⟩ <;>
    norm_num [effWeight, ind, sumTo, List.range_succ]

/-- **C14_effective_total.**  If every element has at least one node, the 'effective' conversion conserves
the grand total: Σ_nodes result = Σ_elements x. -/
theorem C14_effective_total (n e : Nat) (inc : Nat → Nat → Bool) (x : Nat → K)
    (h : ∀ j < e, ∃ i < n, inc i j = true) :
    sumTo n (fun i => e2nEffective n e inc x i) = sumTo e x :=
  sumTo_e2nEffective n e inc x (fun j hj => sumTo_ind_ne_zero n inc j (h j hj))

/-- non-vacuity: x = (3, 9): node 0 gets 3 + 9/2, node 1 gets 9/2, total 12 -/
example :
    (∀ j < 2, ∃ i < 2, inc₀ i j = true) ∧
    e2nEffective 2 2 inc₀ (fun j => if j = 0 then (3 : ℚ) else 9) 0 = 15 / 2 ∧
    e2nEffective 2 2 inc₀ (fun j => if j = 0 then (3 : ℚ) else 9) 1 = 9 / 2 ∧
    sumTo 2 (fun i => e2nEffective 2 2 inc₀ (fun j => if j = 0 then (3 : ℚ) else 9) i) = 12 := by
  refine ⟨by decide, ?_, ?_, ?_⟩ <;>
    norm_num [e2nEffective, effWeight, ind, sumTo, List.range_succ]

/-- the hypothesis cannot be dropped: the value of an element without nodes is lost -/
example :
    sumTo 1 (fun i => e2nEffective 1 2 inc₀ (fun j => if j = 0 then (3 : ℚ) else 9) i) = 12 ∧
    sumTo 1 (fun i => e2nEffective 1 2 (fun i j => decide (i = j)) (fun j => if j = 0 then (3 : ℚ) else 9) i) = 3 := by
  constructor <;> norm_num [e2nEffective, effWeight, ind, sumTo, List.range_succ]

end Effective

/-! ### histories: the conversion is a function of its arguments -/

section History
variable {I K : Type} [Field K]

/-- **C14_call_returns_arguments.**  A call returns its argument objects (incidence, weights, data) unchanged, and the value
it returns for node `i` is `e2nMean` / `e2nEffective` of exactly these arguments — the subject of the law theorems above.
(The first part holds by definition of the model; it is the statement the harness ties to the code by comparing a bit-exact
snapshot of every argument object taken before a call with the object after the call.) -/
theorem C14_call_returns_arguments (rel : I → Nat → Nat → Bool) (n e : Nat) (mode : ConvMode) (a : ConvArgs I K) :
    (e2nCall rel n e mode a).2 = a ∧
    (e2nCall rel n e mode a).1.length = n ∧
    ∀ i, i < n → (e2nCall rel n e mode a).1[i]? = some (match mode with
      | .mean => e2nMean e (rel a.inc) (fun j => a.weights.getD j 0) (fun j => a.data.getD j 0) i
      | .effective => e2nEffective n e (rel a.inc) (fun j => a.data.getD j 0) i) := by
  refine ⟨rfl, by simp [e2nCall], ?_⟩
  intro i h
  cases mode <;> simp [e2nCall, e2nValue, h]

/-- **C14_history_fresh.**  In a history of conversions that all receive the same incidence object, every call returns what
the same call returns on the ORIGINAL incidence object (i.e. what a call with freshly built, equal arguments returns), and the
incidence object is unchanged at the end — whatever the modes, weights and data of the earlier calls were. -/
theorem C14_history_fresh (rel : I → Nat → Nat → Bool) (n e : Nat) (cs : List (ConvCall K)) (inc : I) :
    (e2nHistory rel n e cs inc).1 = cs.map (fun c => e2nCall rel n e c.mode ⟨inc, c.weights, c.data⟩) ∧
    (e2nHistory rel n e cs inc).2 = inc := by
  induction cs with
  | nil => exact ⟨rfl, rfl⟩
  | cons c cs ih =>
    have h1 : (e2nCall rel n e c.mode (⟨inc, c.weights, c.data⟩ : ConvArgs I K)).2.inc = inc := rfl
    simp only [e2nHistory, h1, ih.1, ih.2, List.map_cons, and_self]

/-- **C14_history_value.**  Consequently the value at node `i` returned by the `k`-th call of any history is `e2nMean` (mode
'mean') resp. `e2nEffective` (mode 'effective') of the original incidence relation and that call's own weights and data: the
law theorems (`C14_constants`, `C14_bounds`, `C14_weights_prop_size`, `C14_effective_colsum`, `C14_effective_total`) apply to
every call of a history, not only to the first. -/
theorem C14_history_value (rel : I → Nat → Nat → Bool) (n e : Nat) (cs : List (ConvCall K)) (inc : I)
    (k : Nat) (c : ConvCall K) (hk : cs[k]? = some c) (i : Nat) (hi : i < n) :
    ((e2nHistory rel n e cs inc).1[k]?.map fun out => out.1[i]?) = some (some (match c.mode with
      | .mean => e2nMean e (rel inc) (fun j => c.weights.getD j 0) (fun j => c.data.getD j 0) i
      | .effective => e2nEffective n e (rel inc) (fun j => c.data.getD j 0) i)) := by
  rw [(C14_history_fresh rel n e cs inc).1, List.getElem?_map, hk]
  simp only [Option.map_some]
  exact congrArg some ((C14_call_returns_arguments rel n e c.mode ⟨inc, c.weights, c.data⟩).2.2 i hi)

/-- non-vacuity: 'mean' with sizes (1, 2), then 'effective', then 'mean' again on the same incidence object (pairs of `inc₀`):
the third call returns what the first returned (7 at node 0: weights 1/3, 2/3), the 'effective' call in between 3 + 9/2 -/
example :
    let cs : List (ConvCall ℚ) := [⟨.mean, [1, 2], [3, 9]⟩, ⟨.effective, [], [3, 9]⟩, ⟨.mean, [1, 2], [3, 9]⟩]
    let h := e2nHistory incOfPairs 2 2 cs [(0, 0), (0, 1), (1, 1)]
    h.1.map (·.1) = [[7, 9], [15 / 2, 9 / 2], [7, 9]] ∧ h.2 = [(0, 0), (0, 1), (1, 1)] := by
  intro cs h
  refine ⟨?_, (C14_history_fresh incOfPairs 2 2 cs _).2⟩
  simp only [h, (C14_history_fresh incOfPairs 2 2 cs _).1, cs]
  norm_num [e2nCall, e2nValue, e2nMean, e2nEffective, meanWeight, effWeight, metricInc, ind, sumTo, incOfPairs,
    List.range_succ]

end History

/-- **C14_inplace_counterexample.**  "Returns its arguments unchanged" is not a formality: for the variant that applies the
weights by scaling the caller's incidence matrix in place (`e2nMeanInPlace`; not femio — seeded change C14-6) the first call is
right (7 at node 0 for sizes 1, 2 and values 3, 9: weights 1/3, 2/3) but a second identical call on the matrix left behind
uses the weights 1/5, 4/5 — proportional to size² — and returns 39/5.  Constants are still preserved by that second call, so
only a check of the weights themselves can see it. -/
theorem C14_inplace_counterexample :
    let A₀ : Nat → Nat → ℚ := fun i j => ind (decide (i ≤ j))
    let m : Nat → ℚ := fun j => (j : ℚ) + 1
    let x : Nat → ℚ := fun j => if j = 0 then 3 else 9
    let first := e2nMeanInPlace 2 A₀ m x
    let second := e2nMeanInPlace 2 first.2 m x
    first.1 0 = 7 ∧ first.1 0 = e2nMean 2 (fun i j => decide (i ≤ j)) m x 0 ∧
    second.1 0 = 39 / 5 ∧ meanWeightV 2 first.2 m 0 0 = 1 / 5 ∧ meanWeightV 2 first.2 m 0 1 = 4 / 5 ∧
    (e2nMeanInPlace 2 first.2 m (fun _ => 7)).1 0 = 7 := by
  intro A₀ m x first second
  simp only [first, second, A₀, m, x]
  refine ⟨?_, ?_, ?_, ?_, ?_, ?_⟩ <;>
    norm_num [e2nMeanInPlace, meanWeightV, e2nMean, meanWeight, metricInc, ind, sumTo, List.range_succ]

/-! ### the incidence relation of a mesh -/

/-- **C14_incidence_of_mesh.**  For a mesh with distinct node ids and distinct element ids the Boolean matrix used by the
conversions (`incOfPairs` of `Core.incidence` = `calculate_incidence_matrix`) relates node position `i` and element
position `j` (flattened order) exactly when the node is one of the element's own nodes. -/
theorem C14_incidence_of_mesh (nodeIds : List Nat) (blocks : List (List Core.Elem))
    (hn : nodeIds.Nodup) (he : (blocks.flatten.map Core.Elem.id).Nodup) (i j : Nat) :
    incOfPairs (Core.incidence nodeIds blocks) i j = true ↔
      ∃ (hi : i < nodeIds.length) (hj : j < (Core.flatten blocks).length),
        nodeIds[i] ∈ ((Core.flatten blocks)[j]).conn := by
  rw [← incidence_spec nodeIds blocks hn he i j]
  simp [incOfPairs]

/-- non-vacuity: nodes 7, 3, 5; a triangle (id 2) stored before a line (id 1): flattened order is by id -/
example : incOfPairs (Core.incidence [7, 3, 5] [[⟨1, 0, [5, 7]⟩], [⟨2, 3, [3, 5, 7]⟩]]) 1 1 = true ∧
    incOfPairs (Core.incidence [7, 3, 5] [[⟨1, 0, [5, 7]⟩], [⟨2, 3, [3, 5, 7]⟩]]) 1 0 = false := by decide

end Femio.C14
