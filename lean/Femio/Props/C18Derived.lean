import Femio.Model.Retype
import Mathlib.Data.List.Nodup

/-!
# C18 on DERIVED objects: the id → row table (`FEMData.dict_element_id2index`)

Round 5 (class S, seeded change C18-10, finding `C18-resolve-degeneracy-stale-id2index`).  femio binds per-block results
(`calculate_element_volumes` on mixed meshes; `to_polyhedron` in the seeded variant) to the rows of the merged element
list through a table `id ↦ row` that `FEMData.__init__` builds from `elements.ids`.  `resolve_degeneracy` constructs its
result FIRST and replaces the hex / prism blocks AFTERWARDS (the merged list is then re-sorted by id), so the result carries
the table of the SOURCE's storage order.

Model: `rowOf ids` is the table built for the id list `ids`; `reported tbl blockIds val p` is the value that ends up in
row `p` when the per-block values `val x` (x ∈ blockIds) are stored at `tbl x`.
-/

namespace Femio.C18
open Core

/-- `{id: i for i, id in enumerate(ids)}` (duplicate-free ids) -/
def rowOf (ids : List Nat) (x : Nat) : Option Nat :=
  if x ∈ ids then some (ids.idxOf x) else none

/-- the value stored in row `p` by `out[tbl[blockIds]] = val(blockIds)` -/
def reported {α : Type} (tbl : Nat → Option Nat) (blockIds : List Nat) (val : Nat → α) (p : Nat) : Option α :=
  (blockIds.find? fun x => tbl x == some p).map val

theorem rowOf_getElem (ids : List Nat) (hn : ids.Nodup) (k : Nat) (hk : k < ids.length) :
    rowOf ids ids[k] = some k := by
  simp [rowOf, hn.idxOf_getElem k hk]

theorem rowOf_some (ids : List Nat) (x p : Nat) (h : rowOf ids x = some p) : ids[p]? = some x := by
  unfold rowOf at h
  split at h
  · rename_i hx
    cases h
    simp [List.getElem?_eq_getElem (List.idxOf_lt_length_of_mem hx)]
  · cases h

/-- **C18_table_current.** With the table built for the CURRENT merged id list `cur` (duplicate-free), the row of every
    element `x` of a block receives `x`'s own value - whatever the storage order of `cur` and of the block is.  (This is
    the hypothesis `tbl = rowOf cur` that `resolve_degeneracy`'s result violates.) -/
theorem C18_table_current {α : Type} (cur : List Nat) (hn : cur.Nodup) (blockIds : List Nat) (val : Nat → α)
    (x : Nat) (hx : x ∈ blockIds) (p : Nat) (hp : cur[p]? = some x) :
    reported (rowOf cur) blockIds val p = some (val x) := by
  have hlt : p < cur.length := by
    rcases Nat.lt_or_ge p cur.length with h | h
    · exact h
    · simp [List.getElem?_eq_none h] at hp
  have hxe : cur[p] = x := by simpa [List.getElem?_eq_getElem hlt] using hp
  have hrow : rowOf cur x = some p := by rw [← hxe]; exact rowOf_getElem cur hn p hlt
  unfold reported
  cases hf : blockIds.find? (fun y => rowOf cur y == some p) with
  | none =>
    have := List.find?_eq_none.mp hf x hx
    simp [hrow] at this
  | some y =>
    have hy := List.find?_some hf
    have hy' : rowOf cur y = some p := by simpa using hy
    have := rowOf_some cur y p hy'
    rw [hp] at this
    cases this
    rfl

/-- non-vacuity: merged list stored out of ascending order, two blocks -/
example : [30, 10, 20].Nodup ∧ reported (rowOf [30, 10, 20]) [20, 30] id 2 = some 20
    ∧ reported (rowOf [30, 10, 20]) [10] id 1 = some 10 := by decide

/-- **C18_stale_table_counterexample.** Hexahedra stored with ids `[30, 10, 20]`, element 10 collapsed (pattern 23):
    `resolve_degeneracy` gives the hex block `[30, 20]` and the prism block `[10]`; the merged list of the result is
    sorted by id, `[10, 20, 30]`.  Through the table of the SOURCE (`rowOf [30, 10, 20]`) the row of element 10 receives
    the value of element 30 and the row of element 20 the value of element 10's prism; through the rebuilt table every
    row receives its own element's value. -/
theorem C18_stale_table_counterexample :
    (resolveDegeneracy [⟨30, 14, [1, 2, 3, 4, 5, 6, 7, 8]⟩, ⟨10, 14, [5, 6, 7, 7, 9, 10, 11, 11]⟩,
        ⟨20, 14, [9, 10, 11, 12, 13, 14, 15, 16]⟩] []).map (fun r => (r.1.map (·.id), r.2.map (·.id)))
      = some ([30, 20], [10]) ∧
    [10, 20, 30][0]? = some 10 ∧ reported (rowOf [30, 10, 20]) [30, 20] id 0 = some 30 ∧
    [10, 20, 30][1]? = some 20 ∧ reported (rowOf [30, 10, 20]) [10] id 1 = some 10 ∧
    reported (rowOf [10, 20, 30]) [30, 20] id 0 = none ∧ reported (rowOf [10, 20, 30]) [10] id 0 = some 10 ∧
    reported (rowOf [10, 20, 30]) [30, 20] id 1 = some 20 ∧ reported (rowOf [10, 20, 30]) [30, 20] id 2 = some 30 := by
  decide

end Femio.C18
