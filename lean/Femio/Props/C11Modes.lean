import Femio.Model.GeomKernels
import Femio.Lemmas.KernelProps
import Femio.Lemmas.C11ModesLemmas
import Mathlib.Tactic.NormNum
import Mathlib.Data.Rat.Defs
/-!
# C11, second part — the polyhedron centroid kernel under translations; all modes agree on planar-faced cells

(continues `Props/C11.lean`; same conventions: volume kernels return a fixed integer multiple of the signed volume,
`hexLin6 = 6V`, `hexC24 = 24V`, `hexGauss512 = 512V`, `prismLin6 / pyrLin6 = 6V`, `prismC24 / pyrC24 = 24V`,
`polyFan6 / polyC6 = 6V`; every identity holds over any commutative ring.)

* `C11_polyC_shift / C11_polyC_translate(_rat)`: `_calculate_element_volumes_polyhedron_centroid_core` changes under a
  translation `t` by `t · Σ_f (doubled fan area vector of f)` — exactly like the fan kernel — hence is translation
  invariant on closed polyhedra.
* *defect identities* (unconditional): the decompositions used by the modes of one cell type differ, per quad face, by
  the tetrahedron on the four corners of that face. With `twist a b c d = det(b−a, c−a, d−a)` (the planarity
  determinant of the face `a b c d`, faces in the order and orientation of femio's face table)
  `4·linear − centroid` and `linear − (face fan volume)` are fixed integer combinations of the face twists; and the
  2×2×2 Gauss rule with abscissa `g` is `centroid` plus `(3g² − 1)·(…)`.
* corollaries for *planar-faced straight (not necessarily affine) cells*, planarity being one hypothesis
  `det(b−a, c−a, d−a) = 0` per quad face: all modes agree and equal the face-fan (divergence theorem) volume of the
  solid, which is what the `modes-planar` oracle of `harness/c11.py` computes as `exact`.
* refutations where agreement is false: a twisted face (`…_disagree_nonplanar`), the truncated literal
  `0.5773502692` on a non-affine planar-faced hex (`C11_hexGauss_literal_inexact`).
-/
open V3 Geom
namespace Femio.C11

section Ring
variable {R : Type} [CommRing R]

/-! ## GAP 1: the polyhedron centroid kernel under translations -/

/-- `_calculate_element_volumes_polyhedron_centroid_core` (6·V; `kinv k` = `1/k` for every face size `k` present):
    under a translation `t` the value changes by `t · Σ_f (doubled fan area vector of f)`, for ANY face list -/
theorem C11_polyC_shift (t : V3 R) (kinv : Nat → R) (faces : List (List (V3 R)))
    (hk : ∀ f ∈ faces, kinv f.length * (f.length : R) = 1) :
    polyC6 kinv (faces.map (·.map (V3.add · t)))
      = polyC6 kinv faces + dot t (vsum (faces.map polyFanCross)) :=
  polyC6_add t kinv faces hk

/-- … hence the centroid volume of a closed polyhedron (fan area vectors sum to zero: the same hypothesis as
    `C11_polyFan_translate`) is translation invariant -/
theorem C11_polyC_translate (t : V3 R) (kinv : Nat → R) (faces : List (List (V3 R)))
    (hk : ∀ f ∈ faces, kinv f.length * (f.length : R) = 1)
    (hclosed : vsum (faces.map polyFanCross) = vzero) :
    polyC6 kinv (faces.map (·.map (V3.add · t))) = polyC6 kinv faces := by
  rw [polyC6_add t kinv faces hk, hclosed, dot_vzero, add_zero]

/-- the instance `volumePoly .centroid` evaluates: `kinv k = 1/k` over `Rat`, faces non-empty -/
theorem C11_polyC_translate_rat (t : V3 Rat) (faces : List (List (V3 Rat)))
    (hne : ∀ f ∈ faces, f ≠ [])
    (hclosed : vsum (faces.map polyFanCross) = vzero) :
    polyC6 (fun k => 1 / (k : Rat)) (faces.map (·.map (V3.add · t))) = polyC6 (fun k => 1 / (k : Rat)) faces ∧
    (volumePoly .centroid (faces.map (·.map (V3.add · t)))).val = (volumePoly .centroid faces).val := by
  have h : polyC6 (fun k => 1 / (k : Rat)) (faces.map (·.map (V3.add · t))) = polyC6 (fun k => 1 / (k : Rat)) faces := by
    apply C11_polyC_translate t _ faces _ hclosed
    intro f hf
    have h0 : (f.length : Rat) ≠ 0 := by
      have : f.length ≠ 0 := fun h => hne f hf (List.length_eq_zero_iff.mp h)
      exact_mod_cast this
    exact one_div_mul_cancel h0
  exact ⟨h, by simp only [volumePoly, VolNF.val, h]⟩

/-- the closedness hypothesis holds identically (for arbitrary node positions, planar faces or not) for the face tables
    of the solid cell types, i.e. for every polyhedron the harness derives from a tet / hex / prism / pyr cell -/
theorem C11_face_tables_closed :
    (∀ p0 p1 p2 p3 : V3 R, vsum ([[p0, p2, p1], [p0, p1, p3], [p1, p2, p3], [p0, p3, p2]].map polyFanCross) = vzero) ∧
    (∀ p0 p1 p2 p3 p4 p5 p6 p7 : V3 R,
      vsum ([[p0, p1, p5, p4], [p0, p3, p2, p1], [p1, p2, p6, p5], [p2, p3, p7, p6], [p3, p0, p4, p7],
        [p4, p5, p6, p7]].map polyFanCross) = vzero) ∧
    (∀ p0 p1 p2 p3 p4 p5 : V3 R,
      vsum ([[p0, p1, p2], [p3, p5, p4], [p0, p3, p4, p1], [p1, p4, p5, p2], [p0, p2, p5, p3]].map polyFanCross) = vzero) ∧
    (∀ p0 p1 p2 p3 p4 : V3 R,
      vsum ([[p0, p1, p4], [p1, p2, p4], [p2, p3, p4], [p3, p0, p4], [p0, p3, p2, p1]].map polyFanCross) = vzero) := by
  refine ⟨?_, ?_, ?_, ?_⟩ <;> intros <;>
    (simp only [polyFanCross, consecPairs, vsum, vzero, triCross, V3.add, V3.sub, V3.cross, List.map_cons, List.map_nil,
      List.tail_cons, List.zip_cons_cons, List.zip_nil_right, List.foldr_cons, List.foldr_nil]
     congr 1 <;> ring)

/-- a closed solid with triangular AND quadrilateral faces (femio's prism face table on a wedge cut at three different
    heights): `kinv` is used at `k = 3` and `k = 4` -/
def wedgeFaces : List (List (V3 Rat)) :=
  [[⟨0,0,0⟩, ⟨0,1,0⟩, ⟨1,0,0⟩], [⟨0,0,1⟩, ⟨1,0,3⟩, ⟨0,1,2⟩], [⟨0,0,0⟩, ⟨0,0,1⟩, ⟨0,1,2⟩, ⟨0,1,0⟩],
   [⟨0,1,0⟩, ⟨0,1,2⟩, ⟨1,0,3⟩, ⟨1,0,0⟩], [⟨0,0,0⟩, ⟨1,0,0⟩, ⟨1,0,3⟩, ⟨0,0,1⟩]]

theorem wedgeFaces_closed : vsum (wedgeFaces.map polyFanCross) = vzero := by
  simp only [wedgeFaces, polyFanCross, consecPairs, vsum, vzero, triCross, V3.add, V3.sub, V3.cross, List.map_cons,
    List.map_nil, List.tail_cons, List.zip_cons_cons, List.zip_nil_right, List.foldr_cons, List.foldr_nil]
  norm_num

example : polyC6 (fun k => 1 / (k : Rat)) (wedgeFaces.map (·.map (V3.add · ⟨5, -7, 9⟩)))
    = polyC6 (fun k => 1 / (k : Rat)) wedgeFaces :=
  C11_polyC_translate ⟨5, -7, 9⟩ _ wedgeFaces
    (by intro f hf; simp only [wedgeFaces, List.mem_cons, List.not_mem_nil, or_false] at hf
        rcases hf with rfl | rfl | rfl | rfl | rfl <;> norm_num)
    wedgeFaces_closed

example := C11_polyC_translate_rat ⟨5, -7, 9⟩ wedgeFaces
  (by intro f hf; simp only [wedgeFaces, List.mem_cons, List.not_mem_nil, or_false] at hf
      rcases hf with rfl | rfl | rfl | rfl | rfl <;> simp)
  wedgeFaces_closed

/-- a TWISTED hex as a polyhedron (face table of the hex): closed by `C11_face_tables_closed`, so its centroid volume is
    translation invariant for every `t` -/
example (t : V3 Rat) :
    polyC6 (fun k => 1 / (k : Rat))
      (([[⟨0,0,0⟩, ⟨1,0,0⟩, ⟨1,0,1⟩, ⟨0,0,1⟩], [⟨0,0,0⟩, ⟨0,1,0⟩, ⟨1,1,0⟩, ⟨1,0,0⟩], [⟨1,0,0⟩, ⟨1,1,0⟩, ⟨1,1,2⟩, ⟨1,0,1⟩],
         [⟨1,1,0⟩, ⟨0,1,0⟩, ⟨0,1,1⟩, ⟨1,1,2⟩], [⟨0,1,0⟩, ⟨0,0,0⟩, ⟨0,0,1⟩, ⟨0,1,1⟩],
         [⟨0,0,1⟩, ⟨1,0,1⟩, ⟨1,1,2⟩, ⟨0,1,1⟩]] : List (List (V3 Rat))).map (·.map (V3.add · t)))
    = polyC6 (fun k => 1 / (k : Rat))
      [[⟨0,0,0⟩, ⟨1,0,0⟩, ⟨1,0,1⟩, ⟨0,0,1⟩], [⟨0,0,0⟩, ⟨0,1,0⟩, ⟨1,1,0⟩, ⟨1,0,0⟩], [⟨1,0,0⟩, ⟨1,1,0⟩, ⟨1,1,2⟩, ⟨1,0,1⟩],
       [⟨1,1,0⟩, ⟨0,1,0⟩, ⟨0,1,1⟩, ⟨1,1,2⟩], [⟨0,1,0⟩, ⟨0,0,0⟩, ⟨0,0,1⟩, ⟨0,1,1⟩], [⟨0,0,1⟩, ⟨1,0,1⟩, ⟨1,1,2⟩, ⟨0,1,1⟩]] :=
  (C11_polyC_translate_rat t _ (by simp) (C11_face_tables_closed.2.1 _ _ _ _ _ _ _ _)).1

/-- the hypothesis `hclosed` cannot be dropped: a single triangle is shifted by `t · (its area vector)` -/
example : polyC6 (fun k => 1 / (k : Rat)) ([[⟨0,0,0⟩, ⟨1,0,0⟩, ⟨0,1,0⟩]].map (·.map (V3.add · ⟨0, 0, 1⟩)))
    ≠ polyC6 (fun k => 1 / (k : Rat)) [[⟨0,0,0⟩, ⟨1,0,0⟩, ⟨0,1,0⟩]] := by
  simp only [polyC6, faceCentroidK, cycPairs, vsum, vzero, V3.add, V3.det, List.map_cons, List.map_nil,
    List.getLast?_cons_cons, List.getLast?_singleton, List.dropLast_cons_cons, List.dropLast_singleton,
    List.zip_cons_cons, List.zip_nil_right, List.foldr_cons, List.foldr_nil, List.sum_cons,
    List.sum_nil, List.length_cons, List.length_nil]
  norm_num

/-! ## GAP 2: defect identities between the modes (unconditional) -/

/-- hex: `4·linear − centroid = 2·(±twist of each of the six faces)`; faces in the order of femio's face table
    `[0,1,5,4] [0,3,2,1] [1,2,6,5] [2,3,7,6] [3,0,4,7] [4,5,6,7]`. Every face occurs with a non-zero coefficient: the
    5-tet decomposition fixes one diagonal on each of the six faces, the centroid kernel uses the mean of the two. -/
theorem C11_hex_lin_centroid_defect (p0 p1 p2 p3 p4 p5 p6 p7 : V3 R) :
    4 * hexLin6 p0 p1 p2 p3 p4 p5 p6 p7 = hexC24 p0 p1 p2 p3 p4 p5 p6 p7
      + 2 * (twist p0 p1 p5 p4 + twist p0 p3 p2 p1 - twist p1 p2 p6 p5 + twist p2 p3 p7 p6
             - twist p3 p0 p4 p7 - twist p4 p5 p6 p7) :=
  hex_lin_centroid_defect p0 p1 p2 p3 p4 p5 p6 p7

/-- hex: `linear − (fan volume of the six faces of the face table) = ` the twists of the three faces on which the 5-tet
    decomposition uses the other diagonal than the fan from the first listed node -/
theorem C11_hex_lin_fan_defect (p0 p1 p2 p3 p4 p5 p6 p7 : V3 R) :
    hexLin6 p0 p1 p2 p3 p4 p5 p6 p7
      = polyFan6 [[p0, p1, p5, p4], [p0, p3, p2, p1], [p1, p2, p6, p5], [p2, p3, p7, p6], [p3, p0, p4, p7], [p4, p5, p6, p7]]
        + (twist p0 p1 p5 p4 + twist p0 p3 p2 p1 + twist p2 p3 p7 p6) :=
  hex_lin_fan_defect p0 p1 p2 p3 p4 p5 p6 p7

/-- hex, 2×2×2 Gauss rule with abscissa `g`: the rule is affine in `g²`, and
    `3·gaussian − 64·centroid = (3g² − 1)·(64·centroid − 3·(one-point rule ×8))` for EVERY hex (no planarity) -/
theorem C11_hexGauss_centroid_defect (g : R) (p0 p1 p2 p3 p4 p5 p6 p7 : V3 R) :
    3 * hexGauss512 1 g p0 p1 p2 p3 p4 p5 p6 p7 - 64 * hexC24 p0 p1 p2 p3 p4 p5 p6 p7
      = (3 * g * g - 1) * (64 * hexC24 p0 p1 p2 p3 p4 p5 p6 p7 - 3 * hexGauss512 1 0 p0 p1 p2 p3 p4 p5 p6 p7) :=
  hexGauss_centroid_defect g p0 p1 p2 p3 p4 p5 p6 p7

/-- prism: the three quad faces `[0,3,4,1] [1,4,5,2] [0,2,5,3]` -/
theorem C11_prism_lin_centroid_defect (p0 p1 p2 p3 p4 p5 : V3 R) :
    4 * prismLin6 p0 p1 p2 p3 p4 p5 = prismC24 4 p0 p1 p2 p3 p4 p5
      + 2 * (twist p0 p3 p4 p1 + twist p1 p4 p5 p2 + twist p0 p2 p5 p3) :=
  prism_lin_centroid_defect p0 p1 p2 p3 p4 p5

theorem C11_prism_lin_fan_defect (p0 p1 p2 p3 p4 p5 : V3 R) :
    prismLin6 p0 p1 p2 p3 p4 p5
      = polyFan6 [[p0, p1, p2], [p3, p5, p4], [p0, p3, p4, p1], [p1, p4, p5, p2], [p0, p2, p5, p3]]
        + (twist p0 p3 p4 p1 + twist p1 p4 p5 p2 + twist p0 p2 p5 p3) :=
  prism_lin_fan_defect p0 p1 p2 p3 p4 p5

/-- pyramid: the base `[0,3,2,1]`; the linear kernel IS the fan volume of the face table (same diagonal) -/
theorem C11_pyr_lin_centroid_defect (p0 p1 p2 p3 p4 : V3 R) :
    4 * pyrLin6 p0 p1 p2 p3 p4 = pyrC24 4 p0 p1 p2 p3 p4 - 2 * twist p0 p3 p2 p1 ∧
    pyrLin6 p0 p1 p2 p3 p4 = polyFan6 [[p0, p1, p4], [p1, p2, p4], [p2, p3, p4], [p3, p0, p4], [p0, p3, p2, p1]] :=
  ⟨pyr_lin_centroid_defect p0 p1 p2 p3 p4, pyr_lin_fan p0 p1 p2 p3 p4⟩

example : twist (R := Int) ⟨0,0,1⟩ ⟨1,0,1⟩ ⟨1,1,2⟩ ⟨0,1,1⟩ = -1 ∧ twist (R := Int) ⟨0,0,1⟩ ⟨1,0,1⟩ ⟨1,1,1⟩ ⟨0,1,1⟩ = 0 := by
  decide

/-! ## planar-faced cells: all modes agree and equal the face-fan volume -/

/-- hex with six planar faces (one polynomial hypothesis per face of the face table; the cell need NOT be affine):
    linear (5 tets) and centroid agree. The exact condition is that the signed twist sum of
    `C11_hex_lin_centroid_defect` vanishes; twisting a single face breaks it (`C11_hex_modes_disagree_nonplanar`). -/
theorem C11_hex_modes_agree_planar (p0 p1 p2 p3 p4 p5 p6 p7 : V3 R)
    (h0 : V3.det (V3.sub p1 p0) (V3.sub p5 p0) (V3.sub p4 p0) = 0)
    (h1 : V3.det (V3.sub p3 p0) (V3.sub p2 p0) (V3.sub p1 p0) = 0)
    (h2 : V3.det (V3.sub p2 p1) (V3.sub p6 p1) (V3.sub p5 p1) = 0)
    (h3 : V3.det (V3.sub p3 p2) (V3.sub p7 p2) (V3.sub p6 p2) = 0)
    (h4 : V3.det (V3.sub p0 p3) (V3.sub p4 p3) (V3.sub p7 p3) = 0)
    (h5 : V3.det (V3.sub p5 p4) (V3.sub p6 p4) (V3.sub p7 p4) = 0) :
    4 * hexLin6 p0 p1 p2 p3 p4 p5 p6 p7 = hexC24 p0 p1 p2 p3 p4 p5 p6 p7 := by
  have e := hex_lin_centroid_defect p0 p1 p2 p3 p4 p5 p6 p7
  simp only [twist] at e
  rw [e, h0, h1, h2, h3, h4, h5]; ring

/-- hex, Gaussian mode with the exact abscissa (`3g² = 1`): equals the centroid mode on EVERY hex, planar-faced or not
    (both are the volume of the trilinear map: the 2-point rule integrates its Jacobian exactly) -/
theorem C11_hexGauss_eq_centroid (g : R) (hg : 3 * g * g = 1) (p0 p1 p2 p3 p4 p5 p6 p7 : V3 R) :
    3 * hexGauss512 1 g p0 p1 p2 p3 p4 p5 p6 p7 = 64 * hexC24 p0 p1 p2 p3 p4 p5 p6 p7 := by
  have e := hexGauss_centroid_defect g p0 p1 p2 p3 p4 p5 p6 p7
  rw [hg, sub_self, zero_mul] at e
  exact sub_eq_zero.mp e

/-- hex with six planar faces, exact abscissa: all three modes agree (`6V·256 = 24V·64 = 512V·3`) -/
theorem C11_hexGauss_modes_agree_planar (g : R) (hg : 3 * g * g = 1) (p0 p1 p2 p3 p4 p5 p6 p7 : V3 R)
    (h0 : V3.det (V3.sub p1 p0) (V3.sub p5 p0) (V3.sub p4 p0) = 0)
    (h1 : V3.det (V3.sub p3 p0) (V3.sub p2 p0) (V3.sub p1 p0) = 0)
    (h2 : V3.det (V3.sub p2 p1) (V3.sub p6 p1) (V3.sub p5 p1) = 0)
    (h3 : V3.det (V3.sub p3 p2) (V3.sub p7 p2) (V3.sub p6 p2) = 0)
    (h4 : V3.det (V3.sub p0 p3) (V3.sub p4 p3) (V3.sub p7 p3) = 0)
    (h5 : V3.det (V3.sub p5 p4) (V3.sub p6 p4) (V3.sub p7 p4) = 0) :
    256 * hexLin6 p0 p1 p2 p3 p4 p5 p6 p7 = 3 * hexGauss512 1 g p0 p1 p2 p3 p4 p5 p6 p7 := by
  have a := C11_hex_modes_agree_planar p0 p1 p2 p3 p4 p5 p6 p7 h0 h1 h2 h3 h4 h5
  have b := C11_hexGauss_eq_centroid g hg p0 p1 p2 p3 p4 p5 p6 p7
  linear_combination 64 * a - b

/-- hex with planar faces: every mode equals the fan (divergence-theorem) volume of the six faces of femio's face table,
    i.e. the exact volume of the solid bounded by those planar faces.  The linear mode needs only the three faces
    `[0,1,5,4] [0,3,2,1] [2,3,7,6]` (on the others its diagonal is the fan's). -/
theorem C11_hex_planar_exact (p0 p1 p2 p3 p4 p5 p6 p7 : V3 R)
    (h0 : V3.det (V3.sub p1 p0) (V3.sub p5 p0) (V3.sub p4 p0) = 0)
    (h1 : V3.det (V3.sub p3 p0) (V3.sub p2 p0) (V3.sub p1 p0) = 0)
    (h3 : V3.det (V3.sub p3 p2) (V3.sub p7 p2) (V3.sub p6 p2) = 0) :
    hexLin6 p0 p1 p2 p3 p4 p5 p6 p7
      = polyFan6 [[p0, p1, p5, p4], [p0, p3, p2, p1], [p1, p2, p6, p5], [p2, p3, p7, p6], [p3, p0, p4, p7], [p4, p5, p6, p7]] ∧
    (V3.det (V3.sub p2 p1) (V3.sub p6 p1) (V3.sub p5 p1) = 0 →
     V3.det (V3.sub p0 p3) (V3.sub p4 p3) (V3.sub p7 p3) = 0 →
     V3.det (V3.sub p5 p4) (V3.sub p6 p4) (V3.sub p7 p4) = 0 →
      hexC24 p0 p1 p2 p3 p4 p5 p6 p7
        = 4 * polyFan6 [[p0, p1, p5, p4], [p0, p3, p2, p1], [p1, p2, p6, p5], [p2, p3, p7, p6], [p3, p0, p4, p7], [p4, p5, p6, p7]] ∧
      ∀ g : R, 3 * g * g = 1 → 3 * hexGauss512 1 g p0 p1 p2 p3 p4 p5 p6 p7
        = 256 * polyFan6 [[p0, p1, p5, p4], [p0, p3, p2, p1], [p1, p2, p6, p5], [p2, p3, p7, p6], [p3, p0, p4, p7], [p4, p5, p6, p7]]) := by
  have e := hex_lin_fan_defect p0 p1 p2 p3 p4 p5 p6 p7
  simp only [twist] at e
  rw [h0, h1, h3] at e
  have hl : hexLin6 p0 p1 p2 p3 p4 p5 p6 p7
      = polyFan6 [[p0, p1, p5, p4], [p0, p3, p2, p1], [p1, p2, p6, p5], [p2, p3, p7, p6], [p3, p0, p4, p7], [p4, p5, p6, p7]] := by
    rw [e]; ring
  refine ⟨hl, fun h2 h4 h5 => ?_⟩
  have a := C11_hex_modes_agree_planar p0 p1 p2 p3 p4 p5 p6 p7 h0 h1 h2 h3 h4 h5
  refine ⟨by rw [← a, hl], fun g hg => ?_⟩
  have b := C11_hexGauss_eq_centroid g hg p0 p1 p2 p3 p4 p5 p6 p7
  rw [b, ← a, hl]; ring

/-- prism with three planar quad faces `[0,3,4,1] [1,4,5,2] [0,2,5,3]` (ends need not be parallel or congruent):
    linear (3 tets) = centroid = fan volume of the five faces (the `gaussian` mode of a prism is the linear kernel) -/
theorem C11_prism_modes_agree_planar (p0 p1 p2 p3 p4 p5 : V3 R)
    (h0 : V3.det (V3.sub p3 p0) (V3.sub p4 p0) (V3.sub p1 p0) = 0)
    (h1 : V3.det (V3.sub p4 p1) (V3.sub p5 p1) (V3.sub p2 p1) = 0)
    (h2 : V3.det (V3.sub p2 p0) (V3.sub p5 p0) (V3.sub p3 p0) = 0) :
    4 * prismLin6 p0 p1 p2 p3 p4 p5 = prismC24 4 p0 p1 p2 p3 p4 p5 ∧
    prismLin6 p0 p1 p2 p3 p4 p5
      = polyFan6 [[p0, p1, p2], [p3, p5, p4], [p0, p3, p4, p1], [p1, p4, p5, p2], [p0, p2, p5, p3]] := by
  have e := prism_lin_centroid_defect p0 p1 p2 p3 p4 p5
  have e' := prism_lin_fan_defect p0 p1 p2 p3 p4 p5
  simp only [twist] at e e'
  rw [h0, h1, h2] at e e'
  exact ⟨by rw [e]; ring, by rw [e']; ring⟩

/-- pyramid with a planar base `[0,3,2,1]` (any quadrilateral, any apex): linear (2 tets) = centroid = fan volume of the
    five faces (the `gaussian` mode of a pyramid is the linear kernel) -/
theorem C11_pyr_modes_agree_planar (p0 p1 p2 p3 p4 : V3 R)
    (h0 : V3.det (V3.sub p3 p0) (V3.sub p2 p0) (V3.sub p1 p0) = 0) :
    4 * pyrLin6 p0 p1 p2 p3 p4 = pyrC24 4 p0 p1 p2 p3 p4 ∧
    pyrLin6 p0 p1 p2 p3 p4 = polyFan6 [[p0, p1, p4], [p1, p2, p4], [p2, p3, p4], [p3, p0, p4], [p0, p3, p2, p1]] := by
  have e := pyr_lin_centroid_defect p0 p1 p2 p3 p4
  simp only [twist] at e
  rw [h0] at e
  exact ⟨by rw [e]; ring, pyr_lin_fan p0 p1 p2 p3 p4⟩

end Ring

/-! ## the dispatch `volume ty mode` on planar-faced cells (over `Rat`, as evaluated by the driver) -/

/-- `calculate_element_volumes` on a planar-faced hex: `linear` and `centroid` return the same number, the fan volume
    of its faces / 6 -/
theorem C11_volume_hex_planar (p0 p1 p2 p3 p4 p5 p6 p7 : V3 Rat)
    (h0 : V3.det (V3.sub p1 p0) (V3.sub p5 p0) (V3.sub p4 p0) = 0)
    (h1 : V3.det (V3.sub p3 p0) (V3.sub p2 p0) (V3.sub p1 p0) = 0)
    (h2 : V3.det (V3.sub p2 p1) (V3.sub p6 p1) (V3.sub p5 p1) = 0)
    (h3 : V3.det (V3.sub p3 p2) (V3.sub p7 p2) (V3.sub p6 p2) = 0)
    (h4 : V3.det (V3.sub p0 p3) (V3.sub p4 p3) (V3.sub p7 p3) = 0)
    (h5 : V3.det (V3.sub p5 p4) (V3.sub p6 p4) (V3.sub p7 p4) = 0) :
    ∀ mode, mode ≠ Mode.gaussian →
      (volume "hex" mode [p0, p1, p2, p3, p4, p5, p6, p7]).map VolNF.val
        = some (polyFan6 [[p0, p1, p5, p4], [p0, p3, p2, p1], [p1, p2, p6, p5], [p2, p3, p7, p6], [p3, p0, p4, p7],
            [p4, p5, p6, p7]] / 6) := by
  obtain ⟨hl, hc⟩ := C11_hex_planar_exact p0 p1 p2 p3 p4 p5 p6 p7 h0 h1 h3
  obtain ⟨hc, -⟩ := hc h2 h4 h5
  intro mode hm
  cases mode with
  | linear => simp only [volume, Option.map_some, VolNF.val, hl]
  | gaussian => exact absurd rfl hm
  | centroid => simp only [volume, Option.map_some, VolNF.val, hc]; congr 1; ring

/-- … on a prism with planar quad faces and a pyramid with a planar base: every mode returns the fan volume / 6 -/
theorem C11_volume_prism_pyr_planar (mode : Mode) :
    (∀ p0 p1 p2 p3 p4 p5 : V3 Rat,
      V3.det (V3.sub p3 p0) (V3.sub p4 p0) (V3.sub p1 p0) = 0 →
      V3.det (V3.sub p4 p1) (V3.sub p5 p1) (V3.sub p2 p1) = 0 →
      V3.det (V3.sub p2 p0) (V3.sub p5 p0) (V3.sub p3 p0) = 0 →
      (volume "prism" mode [p0, p1, p2, p3, p4, p5]).map VolNF.val
        = some (polyFan6 [[p0, p1, p2], [p3, p5, p4], [p0, p3, p4, p1], [p1, p4, p5, p2], [p0, p2, p5, p3]] / 6)) ∧
    (∀ p0 p1 p2 p3 p4 : V3 Rat,
      V3.det (V3.sub p3 p0) (V3.sub p2 p0) (V3.sub p1 p0) = 0 →
      (volume "pyr" mode [p0, p1, p2, p3, p4]).map VolNF.val
        = some (polyFan6 [[p0, p1, p4], [p1, p2, p4], [p2, p3, p4], [p3, p0, p4], [p0, p3, p2, p1]] / 6)) := by
  constructor
  · intro p0 p1 p2 p3 p4 p5 h0 h1 h2
    obtain ⟨a, b⟩ := C11_prism_modes_agree_planar p0 p1 p2 p3 p4 p5 h0 h1 h2
    cases mode with
    | linear => simp only [volume, Option.map_some, VolNF.val, b]
    | gaussian => simp only [volume, Option.map_some, VolNF.val, b]
    | centroid => simp only [volume, Option.map_some, VolNF.val, ← a, b]; congr 1; ring
  · intro p0 p1 p2 p3 p4 h0
    obtain ⟨a, b⟩ := C11_pyr_modes_agree_planar p0 p1 p2 p3 p4 h0
    cases mode with
    | linear => simp only [volume, Option.map_some, VolNF.val, b]
    | gaussian => simp only [volume, Option.map_some, VolNF.val, b]
    | centroid => simp only [volume, Option.map_some, VolNF.val, ← a, b]; congr 1; ring

/-! ## refutations: where the modes do NOT agree -/

/-- one twisted face: the unit cube with node 6 lifted along its vertical edge keeps five faces planar and twists the
    top `[4,5,6,7]`; linear and centroid then differ (by 2·twist / 24 = 1/12 of a unit volume) -/
theorem C11_hex_modes_disagree_nonplanar :
    let p0 : V3 Int := ⟨0,0,0⟩; let p1 : V3 Int := ⟨1,0,0⟩; let p2 : V3 Int := ⟨1,1,0⟩; let p3 : V3 Int := ⟨0,1,0⟩
    let p4 : V3 Int := ⟨0,0,1⟩; let p5 : V3 Int := ⟨1,0,1⟩; let p6 : V3 Int := ⟨1,1,2⟩; let p7 : V3 Int := ⟨0,1,1⟩
    4 * hexLin6 p0 p1 p2 p3 p4 p5 p6 p7 ≠ hexC24 p0 p1 p2 p3 p4 p5 p6 p7 ∧
    V3.det (V3.sub p1 p0) (V3.sub p5 p0) (V3.sub p4 p0) = 0 ∧ V3.det (V3.sub p3 p0) (V3.sub p2 p0) (V3.sub p1 p0) = 0 ∧
    V3.det (V3.sub p2 p1) (V3.sub p6 p1) (V3.sub p5 p1) = 0 ∧ V3.det (V3.sub p3 p2) (V3.sub p7 p2) (V3.sub p6 p2) = 0 ∧
    V3.det (V3.sub p0 p3) (V3.sub p4 p3) (V3.sub p7 p3) = 0 ∧ V3.det (V3.sub p5 p4) (V3.sub p6 p4) (V3.sub p7 p4) ≠ 0 := by
  decide

/-- prism (node 5 moved inside the plane of `[0,2,5,3]`, so only `[1,4,5,2]` is twisted) / pyramid with a twisted base:
    linear and centroid differ -/
theorem C11_prism_pyr_modes_disagree_nonplanar :
    4 * prismLin6 (R := Int) ⟨0,0,0⟩ ⟨0,1,0⟩ ⟨1,0,0⟩ ⟨0,0,1⟩ ⟨0,1,1⟩ ⟨2,0,1⟩
      ≠ prismC24 4 ⟨0,0,0⟩ ⟨0,1,0⟩ ⟨1,0,0⟩ ⟨0,0,1⟩ ⟨0,1,1⟩ ⟨2,0,1⟩ ∧
    4 * pyrLin6 (R := Int) ⟨0,0,0⟩ ⟨1,0,0⟩ ⟨1,1,1⟩ ⟨0,1,0⟩ ⟨0,0,2⟩ ≠ pyrC24 4 ⟨0,0,0⟩ ⟨1,0,0⟩ ⟨1,1,1⟩ ⟨0,1,0⟩ ⟨0,0,2⟩ := by
  decide

/-- the truncated literal `0.5773502692` of the code is not the Gauss abscissa: `3·gaussP² − 1 ≠ 0` (it is ≈ +3.6e-11),
    so by `C11_hexGauss_centroid_defect` the Gaussian mode is off by that factor times `64·centroid − 3·(one-point rule)` -/
theorem C11_gaussP_inexact :
    gaussP = 5773502692 / 10000000000 ∧ 3 * gaussP * gaussP - 1 = (224608787 : Rat) / 6250000000000000000 := by
  have h : gaussP = 5773502692 / 10000000000 := by unfold gaussP; rw [Rat.mkRat_eq_div]; norm_num
  exact ⟨h, by rw [h]; norm_num⟩

/-- with the code's literal the Gaussian mode is NOT exact on a planar-faced non-affine hex: the square frustum
    `4×4 → 2×2`, height 3, has volume 28 (`linear`: 168/6, `centroid`: 672/24), but `gaussian` returns
    `(512·28 + 224608787/12207031250000000) / 512` ≠ 28. (On affine cells every abscissa is exact: `C11_hex_modes_agree_affine`.) -/
theorem C11_hexGauss_literal_inexact :
    let p0 : V3 Rat := ⟨0,0,0⟩; let p1 : V3 Rat := ⟨4,0,0⟩; let p2 : V3 Rat := ⟨4,4,0⟩; let p3 : V3 Rat := ⟨0,4,0⟩
    let p4 : V3 Rat := ⟨1,1,3⟩; let p5 : V3 Rat := ⟨3,1,3⟩; let p6 : V3 Rat := ⟨3,3,3⟩; let p7 : V3 Rat := ⟨1,3,3⟩
    (volume "hex" .linear [p0, p1, p2, p3, p4, p5, p6, p7]).map VolNF.val = some 28 ∧
    (volume "hex" .centroid [p0, p1, p2, p3, p4, p5, p6, p7]).map VolNF.val = some 28 ∧
    (volume "hex" .gaussian [p0, p1, p2, p3, p4, p5, p6, p7]).map VolNF.val ≠ some 28 ∧
    V3.det (V3.sub p1 p0) (V3.sub p5 p0) (V3.sub p4 p0) = 0 ∧ V3.det (V3.sub p3 p0) (V3.sub p2 p0) (V3.sub p1 p0) = 0 ∧
    V3.det (V3.sub p2 p1) (V3.sub p6 p1) (V3.sub p5 p1) = 0 ∧ V3.det (V3.sub p3 p2) (V3.sub p7 p2) (V3.sub p6 p2) = 0 ∧
    V3.det (V3.sub p0 p3) (V3.sub p4 p3) (V3.sub p7 p3) = 0 ∧ V3.det (V3.sub p5 p4) (V3.sub p6 p4) (V3.sub p7 p4) = 0 := by
  intro p0 p1 p2 p3 p4 p5 p6 p7
  have hd := hexGauss_centroid_defect gaussP p0 p1 p2 p3 p4 p5 p6 p7
  rw [C11_gaussP_inexact.2] at hd
  have hc : hexC24 p0 p1 p2 p3 p4 p5 p6 p7 = 672 := by
    simp only [p0, p1, p2, p3, p4, p5, p6, p7]; geom_unfold; norm_num
  have hl : hexLin6 p0 p1 p2 p3 p4 p5 p6 p7 = 168 := by
    simp only [p0, p1, p2, p3, p4, p5, p6, p7]; geom_unfold; norm_num
  have hg0 : hexGauss512 1 0 p0 p1 p2 p3 p4 p5 p6 p7 = 13824 := by
    simp only [p0, p1, p2, p3, p4, p5, p6, p7, hexGauss512, V3.add, V3.sub, V3.smul]; norm_num
  rw [hc, hg0] at hd
  refine ⟨?_, ?_, ?_, ?_⟩
  · simp only [volume, Option.map_some, VolNF.val, hl]; norm_num
  · simp only [volume, Option.map_some, VolNF.val, hc]; norm_num
  · simp only [volume, Option.map_some, VolNF.val, ne_eq, Option.some.injEq]
    intro h
    have : hexGauss512 1 gaussP p0 p1 p2 p3 p4 p5 p6 p7 = 28 * 512 := by
      rw [div_eq_iff (by norm_num)] at h; exact h
    rw [this] at hd
    norm_num at hd
  · simp only [p0, p1, p2, p3, p4, p5, p6, p7, V3.det, V3.sub]; norm_num

/-! ## non-vacuity: concrete planar-faced NON-affine cells -/

section Examples

/-- a hex cut by an oblique plane (`z = 1 + x + 2y` over the unit square): end faces not parallel; volume 5/2 -/
example : 4 * hexLin6 (R := Int) ⟨0,0,0⟩ ⟨1,0,0⟩ ⟨1,1,0⟩ ⟨0,1,0⟩ ⟨0,0,1⟩ ⟨1,0,2⟩ ⟨1,1,4⟩ ⟨0,1,3⟩
    = hexC24 ⟨0,0,0⟩ ⟨1,0,0⟩ ⟨1,1,0⟩ ⟨0,1,0⟩ ⟨0,0,1⟩ ⟨1,0,2⟩ ⟨1,1,4⟩ ⟨0,1,3⟩ :=
  C11_hex_modes_agree_planar _ _ _ _ _ _ _ _ (by decide) (by decide) (by decide) (by decide) (by decide) (by decide)
example : hexLin6 (R := Int) ⟨0,0,0⟩ ⟨1,0,0⟩ ⟨1,1,0⟩ ⟨0,1,0⟩ ⟨0,0,1⟩ ⟨1,0,2⟩ ⟨1,1,4⟩ ⟨0,1,3⟩ = 15 := by decide

/-- the exact abscissa exists: `g = √3/3` in the commutative ring `ℚ(√3)` (`QS3`, `Lemmas/C11ModesLemmas.lean`).
    The square frustum `4×4 → 2×2`, height 3, there: all three modes agree -/
example : 256 * hexLin6 (R := QS3) ⟨0,0,0⟩ ⟨4,0,0⟩ ⟨4,4,0⟩ ⟨0,4,0⟩ ⟨1,1,3⟩ ⟨3,1,3⟩ ⟨3,3,3⟩ ⟨1,3,3⟩
    = 3 * hexGauss512 1 QS3.gauss ⟨0,0,0⟩ ⟨4,0,0⟩ ⟨4,4,0⟩ ⟨0,4,0⟩ ⟨1,1,3⟩ ⟨3,1,3⟩ ⟨3,3,3⟩ ⟨1,3,3⟩ := by
  apply C11_hexGauss_modes_agree_planar _ QS3.three_gauss_sq <;> (simp only [V3.det, V3.sub]; norm_num)

/-- … and `C11_hexGauss_eq_centroid` holds for a TWISTED hex too -/
example : 3 * hexGauss512 (R := QS3) 1 QS3.gauss ⟨0,0,0⟩ ⟨1,0,0⟩ ⟨1,1,0⟩ ⟨0,1,0⟩ ⟨0,0,1⟩ ⟨1,0,1⟩ ⟨1,1,2⟩ ⟨0,1,1⟩
    = 64 * hexC24 ⟨0,0,0⟩ ⟨1,0,0⟩ ⟨1,1,0⟩ ⟨0,1,0⟩ ⟨0,0,1⟩ ⟨1,0,1⟩ ⟨1,1,2⟩ ⟨0,1,1⟩ :=
  C11_hexGauss_eq_centroid _ QS3.three_gauss_sq _ _ _ _ _ _ _ _

/-- hex: the fan volume of the face table is the volume (frustum: 6·28) -/
example : polyFan6 (R := Int) [[⟨0,0,0⟩, ⟨4,0,0⟩, ⟨3,1,3⟩, ⟨1,1,3⟩], [⟨0,0,0⟩, ⟨0,4,0⟩, ⟨4,4,0⟩, ⟨4,0,0⟩],
    [⟨4,0,0⟩, ⟨4,4,0⟩, ⟨3,3,3⟩, ⟨3,1,3⟩], [⟨4,4,0⟩, ⟨0,4,0⟩, ⟨1,3,3⟩, ⟨3,3,3⟩], [⟨0,4,0⟩, ⟨0,0,0⟩, ⟨1,1,3⟩, ⟨1,3,3⟩],
    [⟨1,1,3⟩, ⟨3,1,3⟩, ⟨3,3,3⟩, ⟨1,3,3⟩]] = 168 := by decide
example := C11_hex_planar_exact (R := Int) ⟨0,0,0⟩ ⟨4,0,0⟩ ⟨4,4,0⟩ ⟨0,4,0⟩ ⟨1,1,3⟩ ⟨3,1,3⟩ ⟨3,3,3⟩ ⟨1,3,3⟩
  (by decide) (by decide) (by decide)

/-- a triangle extruded to three different heights 1, 2, 3 (femio's prism orientation): volume 1 -/
example : 4 * prismLin6 (R := Int) ⟨0,0,0⟩ ⟨0,1,0⟩ ⟨1,0,0⟩ ⟨0,0,1⟩ ⟨0,1,2⟩ ⟨1,0,3⟩
      = prismC24 4 ⟨0,0,0⟩ ⟨0,1,0⟩ ⟨1,0,0⟩ ⟨0,0,1⟩ ⟨0,1,2⟩ ⟨1,0,3⟩ :=
  (C11_prism_modes_agree_planar _ _ _ _ _ _ (by decide) (by decide) (by decide)).1
example : prismLin6 (R := Int) ⟨0,0,0⟩ ⟨0,1,0⟩ ⟨1,0,0⟩ ⟨0,0,1⟩ ⟨0,1,2⟩ ⟨1,0,3⟩ = 6 := by decide

/-- a pyramid over a planar trapezoid-like base that is not a parallelogram -/
example : 4 * pyrLin6 (R := Int) ⟨0,0,0⟩ ⟨2,0,0⟩ ⟨3,3,0⟩ ⟨0,1,0⟩ ⟨1,1,2⟩ = pyrC24 4 ⟨0,0,0⟩ ⟨2,0,0⟩ ⟨3,3,0⟩ ⟨0,1,0⟩ ⟨1,1,2⟩ :=
  (C11_pyr_modes_agree_planar _ _ _ _ _ (by decide)).1
example : pyrLin6 (R := Int) ⟨0,0,0⟩ ⟨2,0,0⟩ ⟨3,3,0⟩ ⟨0,1,0⟩ ⟨1,1,2⟩ = 18 := by decide

example := C11_volume_hex_planar ⟨0,0,0⟩ ⟨4,0,0⟩ ⟨4,4,0⟩ ⟨0,4,0⟩ ⟨1,1,3⟩ ⟨3,1,3⟩ ⟨3,3,3⟩ ⟨1,3,3⟩
  (by simp only [V3.det, V3.sub]; norm_num) (by simp only [V3.det, V3.sub]; norm_num)
  (by simp only [V3.det, V3.sub]; norm_num) (by simp only [V3.det, V3.sub]; norm_num)
  (by simp only [V3.det, V3.sub]; norm_num) (by simp only [V3.det, V3.sub]; norm_num)
example := (C11_volume_prism_pyr_planar .centroid).1 ⟨0,0,0⟩ ⟨0,1,0⟩ ⟨1,0,0⟩ ⟨0,0,1⟩ ⟨0,1,2⟩ ⟨1,0,3⟩
  (by simp only [V3.det, V3.sub]; norm_num) (by simp only [V3.det, V3.sub]; norm_num)
  (by simp only [V3.det, V3.sub]; norm_num)
example := (C11_volume_prism_pyr_planar .centroid).2 ⟨0,0,0⟩ ⟨2,0,0⟩ ⟨3,3,0⟩ ⟨0,1,0⟩ ⟨1,1,2⟩
  (by simp only [V3.det, V3.sub]; norm_num)

end Examples

end Femio.C11
