import Femio.Model.CompressAdmit
import Mathlib.Data.Real.Basic
import Mathlib.Tactic.Ring
import Mathlib.Tactic.Linarith
import Mathlib.Tactic.NormNum
import Mathlib.Tactic.Positivity

/-! C20 — the admission test of `remove_edges` (`Model/CompressAdmit.lean`):
the exact sqrt-free comparison is the documented `cos >= cos_thresh` including the SIGN of the cosine
(`C20_admit_iff_cos`), the sign-free squared test of seeded change C20-5 is not (`C20_unsigned_test_counterexample`);
the repaired face normal is a function of the cyclic face (`C20_fan_normal_rotate`), the upstream formula is not and
gets the sign wrong on a non-convex planar face (`C20_upstream_normal_counterexample`). -/
namespace Femio.C20
open V3

/-! ### 1. the comparison -/

section
variable {K : Type} [Field K] [LinearOrder K] [IsStrictOrderedRing K]

/-- the Prop the Boolean `cosGe` decides, over any ordered field -/
def CosGe (d q T : K) : Prop :=
  q ≠ 0 ∧ ((T ≤ 0 ∧ (0 ≤ d ∨ d * d ≤ T * T * q)) ∨ (0 < T ∧ 0 ≤ d ∧ T * T * q ≤ d * d))

theorem cosGe_field_iff (d q T s : K) (hs : 0 < s) (hq : s * s = q) : CosGe d q T ↔ T * s ≤ d := by
  have hq0 : q ≠ 0 := by rw [← hq]; exact (mul_pos hs hs).ne'
  subst hq
  unfold CosGe
  constructor
  · rintro ⟨_, h | h⟩
    · obtain ⟨hT, h | h⟩ := h
      · have : T * s ≤ 0 := mul_nonpos_of_nonpos_of_nonneg hT hs.le
        linarith
      · by_contra hc
        rw [not_le] at hc
        have h1 : T * s ≤ 0 := mul_nonpos_of_nonpos_of_nonneg hT hs.le
        have h2 : 0 < T * s - d := by linarith
        have h3 : T * s + d < 0 := by linarith
        have h4 : (T * s - d) * (T * s + d) < 0 := mul_neg_of_pos_of_neg h2 h3
        nlinarith
    · obtain ⟨hT, hd, h⟩ := h
      by_contra hc
      rw [not_le] at hc
      have h1 : 0 < T * s := mul_pos hT hs
      have h2 : 0 < T * s - d := by linarith
      have h3 : 0 < T * s + d := by linarith
      have h4 : 0 < (T * s - d) * (T * s + d) := mul_pos h2 h3
      nlinarith
  · intro h
    refine ⟨hq0, ?_⟩
    rcases le_or_gt T 0 with hT | hT
    · left
      refine ⟨hT, ?_⟩
      rcases le_or_gt 0 d with hd | hd
      · exact Or.inl hd
      · right
        have h1 : T * s ≤ 0 := mul_nonpos_of_nonpos_of_nonneg hT hs.le
        have h2 : 0 ≤ d - T * s := by linarith
        have h3 : d + T * s ≤ 0 := by linarith
        have h4 : (d - T * s) * (d + T * s) ≤ 0 := mul_nonpos_of_nonneg_of_nonpos h2 h3
        nlinarith
    · right
      have h1 : 0 < T * s := mul_pos hT hs
      refine ⟨hT, by linarith, ?_⟩
      have h2 : 0 ≤ d - T * s := by linarith
      have h3 : 0 ≤ d + T * s := by linarith
      have h4 : 0 ≤ (d - T * s) * (d + T * s) := mul_nonneg h2 h3
      nlinarith
end

theorem cosGe_eq_true_iff (d q T : Rat) : cosGe d q T = true ↔ CosGe d q T := by
  unfold cosGe CosGe
  by_cases hq : q = 0
  · simp [hq]
  · by_cases hT : T ≤ 0
    · simp [hq, hT, not_lt.mpr hT]
    · have hT' : 0 < T := not_le.mp hT
      simp [hq, hT, hT']

theorem CosGe_cast (d q T : Rat) : CosGe (d : ℝ) (q : ℝ) (T : ℝ) ↔ CosGe d q T := by
  unfold CosGe
  have e1 : ((q : ℝ) ≠ 0) ↔ q ≠ 0 := by exact_mod_cast Iff.rfl
  have e2 : ((T : ℝ) ≤ 0) ↔ T ≤ 0 := by exact_mod_cast Iff.rfl
  have e3 : ((0 : ℝ) ≤ d) ↔ 0 ≤ d := by exact_mod_cast Iff.rfl
  have e4 : ((d : ℝ) * d ≤ T * T * q) ↔ d * d ≤ T * T * q := by exact_mod_cast Iff.rfl
  have e5 : ((0 : ℝ) < T) ↔ 0 < T := by exact_mod_cast Iff.rfl
  have e6 : ((T : ℝ) * T * q ≤ d * d) ↔ T * T * q ≤ d * d := by exact_mod_cast Iff.rfl
  rw [e1, e2, e3, e4, e5, e6]

/-- **C20_admit_iff_cos**: for rational dot product `d = x·y`, `q = |x|²|y|²` and threshold `T`, and `s = |x||y|` (any
positive real with `s² = q`): the sqrt-free exact test accepts iff `T·|x||y| ≤ x·y`, i.e. iff `cos(x, y) ≥ T` — for
thresholds and cosines of either sign. -/
theorem C20_admit_iff_cos (d q T : Rat) (s : ℝ) (hs : 0 < s) (hq : s * s = (q : ℝ)) :
    cosGe d q T = true ↔ (T : ℝ) * s ≤ (d : ℝ) := by
  rw [cosGe_eq_true_iff, ← CosGe_cast]
  exact cosGe_field_iff (d : ℝ) (q : ℝ) (T : ℝ) s hs hq

/-- non-vacuity: a knife edge (cos = -0.97) is not admitted by 0.9 but is admitted by -0.98; a blunt edge (0.97) is -/
example : cosGe (-97) (100 * 100) (9 / 10) = false ∧ cosGe (-97) (100 * 100) (-98 / 100) = true ∧
    cosGe 97 (100 * 100) (9 / 10) = true := by
  unfold cosGe; norm_num

/-- **C20_unsigned_test_counterexample**: the sign-free squared test (seeded C20-5) accepts the knife edge
`cos = -0.97` at `cos_thresh = 0.9`, the documented comparison does not; for a non-negative cosine the two agree. -/
theorem C20_unsigned_test_counterexample :
    cosGeUnsigned (-97) (100 * 100) (9 / 10) = true ∧ cosGe (-97) (100 * 100) (9 / 10) = false ∧
    ∀ d q T : Rat, 0 ≤ d → 0 < T → 0 < q → cosGeUnsigned d q T = cosGe d q T := by
  refine ⟨by unfold cosGeUnsigned; norm_num, by unfold cosGe; norm_num, ?_⟩
  intro d q T hd hT hq
  unfold cosGeUnsigned cosGe
  simp [hq.ne', not_le.mpr hT, hd, hq]

/-! ### 2. the face normal -/

theorem V3.ext3 {R : Type} {u v : V3 R} (hx : u.x = v.x) (hy : u.y = v.y) (hz : u.z = v.z) : u = v := by
  cases u; cases v; simp_all

section
variable {R : Type} [CommRing R]

/-- shoelace sum along a path starting at `prev` -/
def pathFrom : V3 R → List (V3 R) → V3 R
  | _, [] => zero3
  | prev, b :: rest => V3.add (cross prev b) (pathFrom b rest)

def pathLast : V3 R → List (V3 R) → V3 R
  | prev, [] => prev
  | _, b :: rest => pathLast b rest

omit [CommRing R] in
theorem pathLast_append (a : V3 R) (ps : List (V3 R)) (x : V3 R) : pathLast a (ps ++ [x]) = x := by
  induction ps generalizing a with
  | nil => rfl
  | cons b rest ih => simpa [pathLast] using ih b

theorem pathFrom_append (a : V3 R) (ps : List (V3 R)) (x : V3 R) :
    pathFrom a (ps ++ [x]) = V3.add (pathFrom a ps) (cross (pathLast a ps) x) := by
  induction ps generalizing a with
  | nil => apply V3.ext3 <;> simp [pathFrom, pathLast, V3.add, zero3]
  | cons b rest ih =>
    simp only [List.cons_append, pathFrom, pathLast, ih b]
    apply V3.ext3 <;> simp only [V3.add] <;> ring

/-- the fan from `p0` telescopes into the shoelace sum of the path plus the two terms closing it through `p0` -/
theorem fanFrom_eq (p0 a : V3 R) (ps : List (V3 R)) :
    fanFrom p0 a ps = V3.sub (V3.add (pathFrom a ps) (cross p0 a)) (cross p0 (pathLast a ps)) := by
  induction ps generalizing a with
  | nil => apply V3.ext3 <;> simp [fanFrom, pathFrom, pathLast, V3.add, V3.sub, zero3]
  | cons b rest ih =>
    simp only [fanFrom, pathFrom, pathLast, ih b]
    apply V3.ext3 <;> simp only [V3.add, V3.sub, cross] <;> ring

/-- **C20_fan_normal_rotate** (repaired `calc_normal`): the fan area vector does not depend on the node the face's
list starts with — `F[1:] + F[:1]` has the same normal as `F`; hence neither does the decision `can_rm`. -/
theorem C20_fan_normal_rotate (p : V3 R) (ps : List (V3 R)) : fanNormal (ps ++ [p]) = fanNormal (p :: ps) := by
  match ps with
  | [] => rfl
  | [a] => apply V3.ext3 <;> simp [fanNormal, fanFrom, zero3]
  | a :: b :: rest =>
    show fanFrom a b (rest ++ [p]) = fanFrom p a (b :: rest)
    rw [fanFrom_eq, fanFrom_eq, pathFrom_append, pathLast_append]
    simp only [pathFrom, pathLast]
    apply V3.ext3 <;> simp only [V3.add, V3.sub, cross] <;> ring

/-- … and under any rotation `List.rotate k` -/
theorem C20_fan_normal_rotate_k (k : Nat) (f : List (V3 R)) : fanNormal (f.rotate k) = fanNormal f := by
  induction k generalizing f with
  | zero => simp
  | succ n ih =>
    match f with
    | [] => simp
    | p :: ps => rw [List.rotate_cons_succ, ih, C20_fan_normal_rotate]
end

/-- a thin-armed L hexagon in the plane z = 0 (counter-clockwise, area 7), listed from the node (4,1) -/
def thinL : List (V3 Int) := [⟨4, 1, 0⟩, ⟨1, 1, 0⟩, ⟨1, 4, 0⟩, ⟨0, 4, 0⟩, ⟨0, 0, 0⟩, ⟨4, 0, 0⟩]

/-- non-vacuity of the rotation theorem: every rotation of the L gives twice its area, pointing up -/
example : (List.range 6).map (fun k => fanNormal (thinL.rotate k)) = List.replicate 6 ⟨0, 0, 14⟩ := by decide

/-- **C20_upstream_normal_counterexample**: the upstream formula `Σ cross(F[1]-F[0], F[i]-F[0])` points DOWN on this
counter-clockwise planar face (wrong sign), depends on the starting node, and vanishes for another start; with a
neighbour whose true cosine is -2/√5 ≈ -0.894 the upstream decision at `cos_thresh = 1/2` is "merge", the repaired one
is "keep". -/
theorem C20_upstream_normal_counterexample :
    upstreamNormal thinL = ⟨0, 0, -12⟩ ∧ fanNormal thinL = ⟨0, 0, 14⟩ ∧
    upstreamNormal (thinL.rotate 4) = ⟨0, 0, 40⟩ ∧
    upstreamNormal ([⟨2, 1, 0⟩, ⟨1, 1, 0⟩, ⟨1, 2, 0⟩, ⟨0, 2, 0⟩, ⟨0, 0, 0⟩, ⟨2, 0, 0⟩] : List (V3 Int)) = ⟨0, 0, 0⟩ := by
  decide

def thinLQ : List (V3 Rat) := [⟨4, 1, 0⟩, ⟨1, 1, 0⟩, ⟨1, 4, 0⟩, ⟨0, 4, 0⟩, ⟨0, 0, 0⟩, ⟨4, 0, 0⟩]
/-- the face under the L through its edge (0,0,0)–(4,0,0), in the plane y = -2z, outward normal (0,-8,-16): a knife edge -/
def knifeQ : List (V3 Rat) := [⟨4, 0, 0⟩, ⟨0, 0, 0⟩, ⟨0, 2, -1⟩, ⟨4, 2, -1⟩]

theorem C20_upstream_admits_knife_edge :
    admits NormalCfg.upstream (1 / 2) thinLQ knifeQ = true ∧ admits NormalCfg.fixed (1 / 2) thinLQ knifeQ = false := by
  constructor <;>
    simp [admits, calcNormal, NormalCfg.upstream, NormalCfg.fixed, thinLQ, knifeQ, upstreamNormal, fanNormal, fanFrom, zero3,
      V3.add, V3.sub, cross, dot, normSq, cosGe] <;> norm_num

end Femio.C20
