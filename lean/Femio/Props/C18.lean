import Femio.Model.Retype
import Femio.Lemmas.FluxD
import Femio.Lemmas.GeomProps2
import Femio.Lemmas.PosCorrect
import Femio.Lemmas.CoreProps
import Mathlib.Tactic.Ring
import Mathlib.Tactic.Linarith
import Mathlib.Algebra.Order.Field.Basic

/-! # C18 — re-typing elements (polyhedron, prism, reorientation) keeps shape

Property theorems only. Model: `Femio/Model/Retype.lean`. The polyhedron face patterns and the four degeneracy
patterns are regenerated from /repo on every run (`Femio/Gen/Tables.lean`; the polyhedron kernels are tabulated under
a **non-identity** `argsort`, so a kernel that forgets `argsort[...]` shows up in its table). The theorems are about
`Cfg.fixed` (DESIGN §5 F10 repaired); `C18_pyr_counterexample` is the `decide`d failure of `Cfg.upstream`. -/
namespace Femio.C18
open Core Faces V3 Geom Femio.Gen Femio.C10

/-! ## id → storage position -/

/-- **C18_pos_correct.** `argsort[searchsorted(sort ids, id)]` is the storage position of `id`: for duplicate-free
    node ids, the position computed for the id stored at position `k` is `k`; and whatever position is returned for
    an existing id holds that id. -/
theorem C18_pos_correct (ids : List Nat) (hn : ids.Nodup) :
    (∀ k (hk : k < ids.length), posOf ids ids[k] = some k) ∧
    (∀ x p, x ∈ ids → posOf ids x = some p → ids[p]? = some x) :=
  ⟨fun k hk => posOf_correct ids hn k hk, fun x p hx h => posOf_none_or_own ids hn x p h hx⟩

/-- non-vacuity (storage order ≠ ascending ids) -/
example : [30, 10, 20].Nodup ∧ posOf [30, 10, 20] 20 = some 2 ∧ rankOf [30, 10, 20] 20 = 1 := by decide

/-! The table obligation for DESIGN §5 F10 (`C18_pyr_table : polyFaces_pyr = pyrPolyFaces`) lives in its own module
    `Femio/Props/C18Pyr.lean`, so that the rest of the library keeps building while `pyr_to_polyhedron` omits
    `argsort[...]` (the C18 check builds and audits both modules). -/

/-! ## polyhedron face lists -/

def polyClosedTable (fs : List (List Nat)) : Bool :=
  let es := edgesOf fs
  es.all fun e => es.count e == 1 && es.count (e.2, e.1) == 1

/-- **C18_poly_closed.** Each of the four face patterns is a closed oriented surface: every directed edge once,
    its reverse once. -/
theorem C18_poly_closed :
    ∀ ty ∈ [8, 10, 12, 14], ∃ tab, polyTable ty = some tab ∧ polyClosedTable tab = true ∧ tab ≠ [] := by decide

theorem mem_of_mapM {α β : Type} (f : α → Option β) (l : List α) (r : List β) (h : l.mapM f = some r) :
    ∀ y ∈ r, ∃ x ∈ l, f x = some y := by
  induction l generalizing r with
  | nil => simp at h; subst h; simp
  | cons a t ih =>
    simp only [List.mapM_cons, Option.bind_eq_bind, Option.bind_eq_some_iff, Option.pure_def,
      Option.some.injEq] at h
    obtain ⟨b, hb, r', hr', rfl⟩ := h
    intro y hy
    rcases List.mem_cons.mp hy with rfl | hy'
    · exact ⟨a, by simp, hb⟩
    · obtain ⟨x, hx, hfx⟩ := ih r' hr' y hy'
      exact ⟨x, by simp [hx], hfx⟩

/-- **C18_poly_own_nodes.** (i) every pattern uses exactly the local vertex numbers `0 … arity−1`; (ii) for
    duplicate-free node ids and an element whose nodes exist, every storage position that `to_polyhedron`
    (repaired configuration) writes into the face data holds one of the element's own nodes. -/
theorem C18_poly_own_nodes :
    (∀ ty ∈ [8, 10, 12, 14], ∃ tab, polyTable ty = some tab ∧
      (List.range (arity ty)).all (fun k => tab.flatten.contains k) = true ∧ tab.flatten.all (· < arity ty) = true) ∧
    ∀ (nodeIds : List Nat) (e : Elem) (fs : List (List Nat)), nodeIds.Nodup → (∀ id ∈ e.conn, id ∈ nodeIds) →
      polyFaces Cfg.fixed nodeIds e = some fs → ∀ f ∈ fs, ∀ p ∈ f, ∃ id ∈ e.conn, nodeIds[p]? = some id := by
  refine ⟨by decide, ?_⟩
  intro nodeIds e fs hn hsub h f hf p hp
  unfold polyFaces at h
  simp only [Option.bind_eq_bind, Option.bind_eq_some_iff] at h
  obtain ⟨tab, _, hm⟩ := h
  obtain ⟨g, _, hg⟩ := mem_of_mapM _ _ _ hm f hf
  obtain ⟨k, _, hk⟩ := mem_of_mapM _ _ _ hg p hp
  simp only [Cfg.fixed, Bool.not_true, Bool.false_eq_true, and_false, if_false, Option.bind_eq_bind,
    Option.bind_eq_some_iff] at hk
  obtain ⟨id, hid, hpos⟩ := hk
  have hmem : id ∈ e.conn := List.mem_of_getElem? hid
  exact ⟨id, hmem, posOf_none_or_own nodeIds hn id p hpos (hsub id hmem)⟩

/-- non-vacuity: one prism stored in shuffled order -/
example : polyFaces Cfg.fixed [30, 10, 60, 20, 50, 40] ⟨1, 12, [10, 20, 30, 40, 50, 60]⟩
    = some [[1, 3, 0], [2, 4, 5], [3, 1, 5, 4], [0, 3, 4, 2], [1, 0, 2, 5]] := by decide

/-- **C18_poly_outward_volume.** For every tet / pyr / prism / hex with any coordinates in any commutative ring the
    fluxes of `x/3` through the faces of the polyhedron pattern add up to the signed "centroid" volume kernel of the
    original element (×24): the face list is outward for a positive element and encloses the element's volume. -/
theorem C18_poly_outward_volume {R : Type} [CommRing R] (pt : Nat → V3 R) (e : Elem)
    (h : ((e.ty == 8 || e.ty == 10 || e.ty == 12 || e.ty == 14) && e.conn.length == arity e.ty) = true) :
    ∃ tab, polyTable e.ty = some tab ∧
      sumR 0 ((tab.filterMap (pick e.conn)).map (faceFlux24 4 0 pt)) = elemVol24 4 0 pt e := by
  obtain ⟨id, ty, conn⟩ := e
  simp only [Bool.and_eq_true, Bool.or_eq_true, beq_iff_eq] at h
  obtain ⟨hty, hlen⟩ := h
  rcases hty with ((h8 | h10) | h12) | h14
  · subst h8
    obtain ⟨a, b, c, d, rfl⟩ := len4 conn (by simpa [arity] using hlen)
    refine ⟨_, rfl, ?_⟩
    simp [polyFaces_tet, pick, faceFlux24, elemVol24, sumR]
    geom_unfold; ring
  · subst h10
    obtain ⟨a, b, c, d, e, rfl⟩ := len5 conn (by simpa [arity] using hlen)
    refine ⟨_, rfl, ?_⟩
    simp [pyrPolyFaces, pick, faceFlux24, elemVol24, sumR]
    geom_unfold; ring
  · subst h12
    obtain ⟨a, b, c, d, e, f, rfl⟩ := len6 conn (by simpa [arity] using hlen)
    refine ⟨_, rfl, ?_⟩
    simp [polyFaces_prism, pick, faceFlux24, elemVol24, sumR]
    geom_unfold; ring
  · subst h14
    obtain ⟨a, b, c, d, e, f, g, i, rfl⟩ := len8 conn (by simpa [arity] using hlen)
    refine ⟨_, rfl, ?_⟩
    simp [polyFaces_hex, pick, faceFlux24, elemVol24, sumR]
    geom_unfold; ring

/-- **C18_poly_kernels.** What femio's two polyhedron volume kernels compute per face, in terms of the flux used
    above: "centroid" (`Σ_i det(ΣF, F[i−1], F[i])`, to be divided by `#F`) is `3·det` for a triangle and the centroid
    fan `quadC4` for a quadrilateral; "linear" (fan from the first vertex) is `det` for a triangle. -/
theorem C18_poly_kernels {R : Type} [CommRing R] (pt : Nat → V3 R) (a b c d : Nat) :
    4 * fanCentroid 0 pt [a, b, c] = 3 * faceFlux24 4 0 pt [a, b, c] ∧
    fanCentroid 0 pt [a, b, c, d] = faceFlux24 4 0 pt [a, b, c, d] ∧
    4 * fanLin6 0 pt [a, b, c] = faceFlux24 4 0 pt [a, b, c] := by
  refine ⟨?_, ?_, ?_⟩
  · simp [fanCentroid, faceFlux24, sumR, List.getLast?]
    geom_unfold; ring
  · simp [fanCentroid, faceFlux24, sumR, List.getLast?]
    geom_unfold; ring
  · simp [fanLin6, faceFlux24]

/-! ## degenerate hexahedra -/

/-- **C18_degeneracy.** For each of the four edge-collapse patterns (the regenerated node orders `degen_ab`): the
    prism that replaces the degenerate hexahedron has the same id, exactly the same nodes, and the same signed
    volume (centroid kernels), for any coordinates in any commutative ring. -/
theorem C18_degeneracy {R : Type} [CommRing R] (pt : Nat → V3 R) (id c0 c1 c2 c3 c4 c5 c6 c7 : Nat) :
    -- 0 = 1, 4 = 5
    (∃ p, applyPattern degen_01 ⟨id, 14, [c0, c0, c2, c3, c4, c4, c6, c7]⟩ = some p ∧ p.id = id ∧ p.ty = 12 ∧
      (∀ x, x ∈ p.conn ↔ x ∈ [c0, c0, c2, c3, c4, c4, c6, c7]) ∧ p.conn.length = 6 ∧
      elemVol24 4 0 pt p = elemVol24 4 0 pt ⟨id, 14, [c0, c0, c2, c3, c4, c4, c6, c7]⟩) ∧
    -- 1 = 2, 5 = 6
    (∃ p, applyPattern degen_12 ⟨id, 14, [c0, c1, c1, c3, c4, c5, c5, c7]⟩ = some p ∧ p.id = id ∧ p.ty = 12 ∧
      (∀ x, x ∈ p.conn ↔ x ∈ [c0, c1, c1, c3, c4, c5, c5, c7]) ∧ p.conn.length = 6 ∧
      elemVol24 4 0 pt p = elemVol24 4 0 pt ⟨id, 14, [c0, c1, c1, c3, c4, c5, c5, c7]⟩) ∧
    -- 2 = 3, 6 = 7
    (∃ p, applyPattern degen_23 ⟨id, 14, [c0, c1, c2, c2, c4, c5, c6, c6]⟩ = some p ∧ p.id = id ∧ p.ty = 12 ∧
      (∀ x, x ∈ p.conn ↔ x ∈ [c0, c1, c2, c2, c4, c5, c6, c6]) ∧ p.conn.length = 6 ∧
      elemVol24 4 0 pt p = elemVol24 4 0 pt ⟨id, 14, [c0, c1, c2, c2, c4, c5, c6, c6]⟩) ∧
    -- 3 = 0, 7 = 4
    (∃ p, applyPattern degen_30 ⟨id, 14, [c0, c1, c2, c0, c4, c5, c6, c4]⟩ = some p ∧ p.id = id ∧ p.ty = 12 ∧
      (∀ x, x ∈ p.conn ↔ x ∈ [c0, c1, c2, c0, c4, c5, c6, c4]) ∧ p.conn.length = 6 ∧
      elemVol24 4 0 pt p = elemVol24 4 0 pt ⟨id, 14, [c0, c1, c2, c0, c4, c5, c6, c4]⟩) := by
  refine ⟨?_, ?_, ?_, ?_⟩
  all_goals
    refine ⟨_, by simp [applyPattern, pick, degen_01, degen_12, degen_23, degen_30]; rfl, rfl, rfl, ?_, rfl, ?_⟩
  all_goals first
    | (intro x; simp only [List.mem_cons, List.mem_nil_iff, or_false]; tauto)
    | (simp only [elemVol24]; geom_unfold; ring)

/-- **C18_degeneracy (other elements untouched).** `resolve_degeneracy` keeps every non-degenerate hexahedron
    unchanged in the hex block, keeps every existing prism, and the new prism block is a permutation of the old
    prisms plus one prism per degenerate hexahedron and pattern (other blocks are not looked at). -/
theorem C18_degeneracy_untouched (hexes prisms h' p' : List Elem) (h : resolveDegeneracy hexes prisms = some (h', p')) :
    h' = hexes.filter (fun e => !degenerate e.conn) ∧ (∀ e ∈ prisms, e ∈ p') ∧
    ∃ d01 d12 d23 d30,
      (hexes.filter fun e => eqAt e.conn 0 1).mapM (applyPattern degen_01) = some d01 ∧
      (hexes.filter fun e => eqAt e.conn 1 2).mapM (applyPattern degen_12) = some d12 ∧
      (hexes.filter fun e => eqAt e.conn 2 3).mapM (applyPattern degen_23) = some d23 ∧
      (hexes.filter fun e => eqAt e.conn 3 0).mapM (applyPattern degen_30) = some d30 ∧
      p'.Perm (prisms ++ d01 ++ d12 ++ d23 ++ d30) := by
  unfold resolveDegeneracy at h
  split at h
  · cases h
  · simp only [Option.bind_eq_bind, Option.bind_eq_some_iff, Option.pure_def, Option.some.injEq, Prod.mk.injEq] at h
    obtain ⟨d01, h01, d12, h12, d23, h23, d30, h30, rfl, rfl⟩ := h
    refine ⟨rfl, ?_, d01, d12, d23, d30, h01, h12, h23, h30, sortElems_perm _⟩
    intro e he
    exact (sortElems_perm _).mem_iff.mpr (by simp [he])

/-- non-vacuity: a mesh with one degenerate hex (pattern 12), one regular hex and one existing prism -/
example : resolveDegeneracy [⟨5, 14, [1, 2, 2, 4, 5, 6, 6, 8]⟩, ⟨2, 14, [11, 12, 13, 14, 15, 16, 17, 18]⟩]
      [⟨9, 12, [21, 22, 23, 24, 25, 26]⟩]
    = some ([⟨2, 14, [11, 12, 13, 14, 15, 16, 17, 18]⟩], [⟨5, 12, [1, 4, 2, 5, 8, 6]⟩, ⟨9, 12, [21, 22, 23, 24, 25, 26]⟩]) := by
  decide

/-! ## make_elements_positive -/

/-- **C18_positive.** For a tetrahedron with any coordinates in an ordered field: after `make_elements_positive`
    the element has the same id and type, the same nodes (a permutation), the same absolute volume, and a freshly
    evaluated volume that is non-negative; an element that was not negative is untouched. -/
theorem C18_positive {R : Type} [Field R] [LinearOrder R] [IsStrictOrderedRing R]
    (pt : Nat → V3 R) (id ty a b c d : Nat) :
    let e : Elem := ⟨id, ty, [a, b, c, d]⟩
    let e' := makePositive 0 pt e
    e'.id = id ∧ e'.ty = ty ∧ e'.conn.Perm e.conn ∧ tetVol6 0 pt e'.conn = |tetVol6 0 pt e.conn| ∧
      0 ≤ tetVol6 0 pt e'.conn ∧ (0 ≤ tetVol6 0 pt e.conn → e' = e) := by
  intro e e'
  by_cases hneg : tetVol6 0 pt e.conn < 0
  · have he' : e' = ⟨id, ty, [a, c, b, d]⟩ := by
      simp only [e', makePositive, if_pos hneg]
      simp [e, pick, tetPermute, Femio.Gen.tetPermute]
    have hv : tetVol6 0 pt [a, c, b, d] = - tetVol6 0 pt [a, b, c, d] := by
      simp only [tetVol6]
      have := tet_permute_neg (pt a) (pt b) (pt c) (pt d)
      simpa [tetPermuted6] using this
    rw [he']
    refine ⟨rfl, rfl, ?_, ?_, ?_, ?_⟩
    · exact List.Perm.cons a (List.Perm.swap b c [d])
    · simp only [e] at hneg ⊢; rw [hv, abs_of_neg hneg]
    · simp only [e] at hneg ⊢; rw [hv]; linarith
    · intro h; exact absurd hneg (not_lt.mpr h)
  · have he' : e' = e := by simp only [e', makePositive, if_neg hneg]
    rw [he']
    have h0 : 0 ≤ tetVol6 0 pt e.conn := not_lt.mp hneg
    exact ⟨rfl, rfl, List.Perm.refl _, (abs_of_nonneg h0).symm, h0, fun _ => rfl⟩

/-- the permutation `_permute` applies is the transposition (1 2) and it negates the signed volume -/
theorem C18_permute_table : tetPermute = [0, 2, 1, 3] := by decide

/-- non-vacuity: an inverted unit tet is re-oriented -/
def unitTetPt : Nat → V3 Rat
  | 0 => ⟨0, 0, 0⟩ | 1 => ⟨1, 0, 0⟩ | 2 => ⟨0, 1, 0⟩ | _ => ⟨0, 0, 1⟩
example : tetVol6 (0 : Rat) unitTetPt [0, 2, 1, 3] = -1 ∧
    (makePositive (0 : Rat) unitTetPt ⟨1, 8, [0, 2, 1, 3]⟩).conn = [0, 1, 2, 3] := by
  constructor
  · norm_num [tetVol6, unitTetPt, tet6, V3.det, V3.sub]
  · have : tetVol6 (0 : Rat) unitTetPt [0, 2, 1, 3] < 0 := by norm_num [tetVol6, unitTetPt, tet6, V3.det, V3.sub]
    simp [makePositive, this, pick, tetPermute, Femio.Gen.tetPermute]

/-! ## make_elements_positive after a history of public calls on the same object

    Model: `HOp`, `HState`, `runH` in `Model/Retype.lean` (volume / metric queries answer from and fill the stored
    `elemental_data` entries exactly as the code does). `Cfg.freshMetric` is the repair e608c63: before it
    `make_elements_positive()` decided from the stored `metric` entry, which an earlier absolute-value query had filled
    with `|metric|` or an earlier `make_elements_positive()` had left stale. -/

section Hist
set_option linter.unusedSectionVars false
variable {R : Type} [Field R] [LinearOrder R] [IsStrictOrderedRing R]

/-- `C18_positive` for an element with any connectivity list (a list that is not four nodes long has metric 0 in the
    model and is left alone) -/
theorem makePositive_spec (pt : Nat → V3 R) (e : Elem) :
    (makePositive 0 pt e).id = e.id ∧ (makePositive 0 pt e).ty = e.ty ∧ (makePositive 0 pt e).conn.Perm e.conn ∧
    tetVol6 0 pt (makePositive 0 pt e).conn = |tetVol6 0 pt e.conn| ∧ 0 ≤ tetVol6 0 pt (makePositive 0 pt e).conn := by
  obtain ⟨id, ty, conn⟩ := e
  by_cases hneg : tetVol6 0 pt conn < 0
  · rcases conn with _ | ⟨a, _ | ⟨b, _ | ⟨c, _ | ⟨d, _ | ⟨x, t⟩⟩⟩⟩⟩
    all_goals try (simp [tetVol6] at hneg)
    have h := C18_positive pt id ty a b c d
    exact ⟨h.1, h.2.1, h.2.2.1, h.2.2.2.1, h.2.2.2.2.1⟩
  · have h0 : 0 ≤ tetVol6 0 pt conn := not_lt.mp hneg
    have he : makePositive 0 pt ⟨id, ty, conn⟩ = ⟨id, ty, conn⟩ := by simp only [makePositive, if_neg hneg]
    rw [he]
    exact ⟨rfl, rfl, List.Perm.refl _, (abs_of_nonneg h0).symm, h0⟩

theorem makePositive_idem (pt : Nat → V3 R) (e : Elem) :
    makePositive 0 pt (makePositive 0 pt e) = makePositive 0 pt e := by
  have h : ¬ tetVol6 0 pt (makePositive 0 pt e).conn < 0 := not_lt.mpr (makePositive_spec pt e).2.2.2.2
  generalize makePositive 0 pt e = q at h
  simp only [makePositive, if_neg h]

theorem map_makePositive_idem (pt : Nat → V3 R) (es : List Elem) :
    (es.map (makePositive 0 pt)).map (makePositive 0 pt) = es.map (makePositive 0 pt) := by
  rw [List.map_map]
  exact List.map_congr_left fun e _ => makePositive_idem pt e

theorem permuteNeg_signed (pt : Nat → V3 R) (es : List Elem) :
    permuteNeg 0 (signedVols 0 pt es) es = es.map (makePositive 0 pt) := by
  induction es with
  | nil => rfl
  | cons e t ih =>
    have ih' : permuteNeg 0 (t.map fun e => tetVol6 0 pt e.conn) t = t.map (makePositive 0 pt) := ih
    simp only [signedVols, List.map_cons, permuteNeg, ih']
    rfl

theorem map_makePositive_of_noNeg (pt : Nat → V3 R) (es : List Elem) (h : anyNeg 0 (signedVols 0 pt es) = false) :
    es.map (makePositive 0 pt) = es := by
  induction es with
  | nil => rfl
  | cons e t ih =>
    simp only [anyNeg, signedVols, List.map_cons, List.any_cons, Bool.or_eq_false_iff,
      decide_eq_false_iff_not] at h
    simp only [List.map_cons, makePositive, if_neg h.1]
    congr 1
    exact ih (by simpa [anyNeg, signedVols] using h.2)

theorem validate_signed (r : Bool) (xs v : List R) (h : validate 0 r false xs = some v) : v = xs := by
  unfold validate at h
  split at h
  · cases h
  · simpa using h.symm

theorem stepPositive_fixed_elems (pt : Nat → V3 R) (s : HState R) :
    (stepPositive Cfg.fixed 0 pt s).elems = s.elems.map (makePositive 0 pt) := by
  simp only [stepPositive, Cfg.fixed, if_true]
  split
  · exact permuteNeg_signed pt s.elems
  · rename_i h
    exact (map_makePositive_of_noNeg pt _ (by simpa using h)).symm

theorem stepMetrics_elems (pt : Nat → V3 R) (r a : Bool) (s : HState R) :
    (stepMetrics 0 pt r a s).1.elems = s.elems := by
  unfold stepMetrics
  split
  · rfl
  · split <;> rfl

theorem stepVolumes_elems (pt : Nat → V3 R) (r a : Bool) (s : HState R) :
    (stepVolumes 0 pt r a s).1.elems = s.elems ∧ (stepVolumes 0 pt r a s).1.metric = s.metric := by
  unfold stepVolumes
  split
  · exact ⟨rfl, rfl⟩
  · split <;> exact ⟨rfl, rfl⟩

theorem runH_fixed_elems (pt : Nat → V3 R) (h : List HOp) (s : HState R) :
    (runH Cfg.fixed 0 pt s h).elems = s.elems ∨
    (runH Cfg.fixed 0 pt s h).elems = s.elems.map (makePositive 0 pt) := by
  induction h generalizing s with
  | nil => exact Or.inl rfl
  | cons op t ih =>
    have hstep : (stepH Cfg.fixed 0 pt s op).elems = s.elems ∨
        (stepH Cfg.fixed 0 pt s op).elems = s.elems.map (makePositive 0 pt) := by
      cases op with
      | metrics r a => exact Or.inl (stepMetrics_elems pt r a s)
      | volumes r a => exact Or.inl (stepVolumes_elems pt r a s).1
      | positive => exact Or.inr (stepPositive_fixed_elems pt s)
    have hrun : runH Cfg.fixed 0 pt s (op :: t) = runH Cfg.fixed 0 pt (stepH Cfg.fixed 0 pt s op) t := rfl
    rw [hrun]
    rcases ih (stepH Cfg.fixed 0 pt s op) with h1 | h1 <;> rcases hstep with h2 | h2
    · exact Or.inl (h1.trans h2)
    · exact Or.inr (h1.trans h2)
    · exact Or.inr (by rw [h1, h2])
    · exact Or.inr (by rw [h1, h2, map_makePositive_idem])

theorem runH_append (cfg : Cfg) (pt : Nat → V3 R) (s : HState R) (h : List HOp) (op : HOp) :
    runH cfg 0 pt s (h ++ [op]) = stepH cfg 0 pt (runH cfg 0 pt s h) op := by
  simp [runH, List.foldl_append]

/-- **C18_positive_any_history.** (repaired configuration) Whatever public volume / metric queries — signed or
    absolute, raising or not, in any order and number — and whatever earlier `make_elements_positive()` calls were made
    on the same object, `make_elements_positive()` leaves exactly the connectivity it produces on a freshly built
    object: every element keeps its id and type, its nodes (a permutation) and its absolute volume, and its freshly
    evaluated volume is non-negative (`C18_positive` element by element). -/
theorem C18_positive_any_history (pt : Nat → V3 R) (es : List Elem) (h : List HOp) :
    (runH Cfg.fixed 0 pt (fresh0 es) (h ++ [HOp.positive])).elems = es.map (makePositive 0 pt) ∧
    ∀ e ∈ es, (makePositive 0 pt e).id = e.id ∧ (makePositive 0 pt e).ty = e.ty ∧
      (makePositive 0 pt e).conn.Perm e.conn ∧ tetVol6 0 pt (makePositive 0 pt e).conn = |tetVol6 0 pt e.conn| ∧
      0 ≤ tetVol6 0 pt (makePositive 0 pt e).conn := by
  refine ⟨?_, fun e _ => makePositive_spec pt e⟩
  rw [runH_append]
  show (stepPositive Cfg.fixed 0 pt _).elems = _
  rw [stepPositive_fixed_elems]
  rcases runH_fixed_elems pt h (fresh0 es) with h1 | h1
  · rw [h1]; rfl
  · rw [h1]; exact map_makePositive_idem pt es

/-- the histories after which the unrepaired `make_elements_positive()` still sees the signed metric of the current
    connectivity: no earlier `make_elements_positive()`, no metric query asking for absolute values -/
def signedQuery : HOp → Bool
  | .metrics _ a => !a
  | .volumes _ _ => true
  | .positive => false

theorem runH_upstream_inv (pt : Nat → V3 R) (es : List Elem) (h : List HOp) (hq : h.all signedQuery = true)
    (s : HState R) (he : s.elems = es) (hm : s.metric = none ∨ s.metric = some (signedVols 0 pt es)) :
    (runH Cfg.upstream 0 pt s h).elems = es ∧
    ((runH Cfg.upstream 0 pt s h).metric = none ∨ (runH Cfg.upstream 0 pt s h).metric = some (signedVols 0 pt es)) := by
  induction h generalizing s with
  | nil => exact ⟨he, hm⟩
  | cons op t ih =>
    simp only [List.all_cons, Bool.and_eq_true] at hq
    have hrun : runH Cfg.upstream 0 pt s (op :: t) = runH Cfg.upstream 0 pt (stepH Cfg.upstream 0 pt s op) t := rfl
    rw [hrun]
    cases op with
    | positive => simp [signedQuery] at hq
    | volumes r a =>
      have hv := stepVolumes_elems pt r a s
      exact ih hq.2 _ (hv.1.trans he) (by rw [show (stepH Cfg.upstream 0 pt s (HOp.volumes r a)).metric = s.metric from hv.2]; exact hm)
    | metrics r a =>
      have ha : a = false := by simpa [signedQuery] using hq.1
      subst ha
      refine ih hq.2 _ ((stepMetrics_elems pt r false s).trans he) ?_
      show (stepMetrics 0 pt r false s).1.metric = none ∨ (stepMetrics 0 pt r false s).1.metric = some _
      unfold stepMetrics
      split
      · exact hm
      · split
        · exact hm
        · rename_i v hv
          right
          have := validate_signed r _ v hv
          simp [this, he]

/-- **C18_positive_history_partial.** (unrepaired configuration `Cfg.upstream`, pinned for reference) The same
    conclusion holds only for histories without an earlier `make_elements_positive()` and without a metric query with
    `return_abs_metric=True`; `C18_stored_metric_counterexample` shows that both restrictions are needed. -/
theorem C18_positive_history_partial (pt : Nat → V3 R) (es : List Elem) (h : List HOp)
    (hq : h.all signedQuery = true) :
    (runH Cfg.upstream 0 pt (fresh0 es) (h ++ [HOp.positive])).elems = es.map (makePositive 0 pt) := by
  rw [runH_append]
  obtain ⟨he, hm⟩ := runH_upstream_inv pt es h hq (fresh0 es) rfl (Or.inl rfl)
  generalize runH Cfg.upstream 0 pt (fresh0 es) h = s at he hm
  show (stepPositive Cfg.upstream 0 pt s).elems = _
  have key : ∀ (A B : HState R), A.elems = permuteNeg 0 (signedVols 0 pt es) es → B.elems = es →
      (if anyNeg 0 (signedVols 0 pt es) = true then A else B).elems = es.map (makePositive 0 pt) := by
    intro A B hA hB
    split
    · rw [hA]; exact permuteNeg_signed pt es
    · rename_i hn
      rw [hB]; exact (map_makePositive_of_noNeg pt es (by simpa using hn)).symm
  simp only [stepPositive, Cfg.upstream, Bool.false_eq_true, if_false]
  rcases hm with hm | hm
  · simp only [stepMetrics, hm, validate, Bool.false_and, Bool.false_eq_true, if_false, he]
    exact key _ _ rfl rfl
  · simp only [stepMetrics, hm, validate, Bool.false_and, Bool.false_eq_true, if_false]
    exact key _ _ (by show permuteNeg 0 _ s.elems = _; rw [he]) he

end Hist

/-- integer coordinates of the unit tetrahedron (for `decide`) -/
def unitTetPtI : Nat → V3 Int
  | 0 => ⟨0, 0, 0⟩ | 1 => ⟨1, 0, 0⟩ | 2 => ⟨0, 1, 0⟩ | _ => ⟨0, 0, 1⟩

/-- **C18_stored_metric_counterexample.** Two tetrahedra, the first inverted (signed metric −1). Unrepaired
    configuration: (A) after `calculate_element_metrics(raise_negative_metric=False, return_abs_metric=True)`,
    `make_elements_positive()` leaves the inverted element as it is; (B) a second `make_elements_positive()` undoes the
    first. The repaired configuration re-orients the element in both histories. -/
theorem C18_stored_metric_counterexample :
    let es : List Elem := [⟨7, 8, [0, 2, 1, 3]⟩, ⟨9, 8, [0, 1, 2, 3]⟩]
    tetVol6 (0 : Int) unitTetPtI [0, 2, 1, 3] = -1 ∧
    (runH Cfg.upstream (0 : Int) unitTetPtI (fresh0 es) [.metrics false true, .positive]).elems.map (·.conn)
      = [[0, 2, 1, 3], [0, 1, 2, 3]] ∧
    (runH Cfg.upstream (0 : Int) unitTetPtI (fresh0 es) [.positive, .positive]).elems.map (·.conn)
      = [[0, 2, 1, 3], [0, 1, 2, 3]] ∧
    (runH Cfg.fixed (0 : Int) unitTetPtI (fresh0 es) [.metrics false true, .positive]).elems.map (·.conn)
      = [[0, 1, 2, 3], [0, 1, 2, 3]] ∧
    (runH Cfg.fixed (0 : Int) unitTetPtI (fresh0 es) [.positive, .positive]).elems.map (·.conn)
      = [[0, 1, 2, 3], [0, 1, 2, 3]] := by decide

/-- non-vacuity of `C18_positive_any_history` / `C18_positive_history_partial`: the seeded-change history "signed
    metric query, absolute metric query, make positive" on the same two tetrahedra -/
example : (runH Cfg.fixed (0 : Int) unitTetPtI (fresh0 [⟨7, 8, [0, 2, 1, 3]⟩, ⟨9, 8, [0, 1, 2, 3]⟩])
      [.metrics false false, .metrics false true, .positive]).elems.map (·.conn) = [[0, 1, 2, 3], [0, 1, 2, 3]] ∧
    (runH Cfg.upstream (0 : Int) unitTetPtI (fresh0 [⟨7, 8, [0, 2, 1, 3]⟩, ⟨9, 8, [0, 1, 2, 3]⟩])
      [.metrics false false, .metrics false true, .positive]).elems.map (·.conn) = [[0, 1, 2, 3], [0, 1, 2, 3]] := by
  decide

/-! ## the unrepaired configuration -/

/-- **C18_pyr_counterexample (F10).** With `argsort` omitted for pyramids (`Cfg.upstream`) and node ids stored in
    descending order, the face data of a pyramid refers to storage position 0, which holds node 60 — not a node of
    the element; the repaired configuration does not. -/
theorem C18_pyr_counterexample :
    let ids := [60, 50, 40, 30, 20, 10]
    let e : Elem := ⟨1, 10, [10, 20, 30, 40, 50]⟩
    (∃ fs, polyFaces Cfg.upstream ids e = some fs ∧ 0 ∈ fs.flatten) ∧ ids[0]? = some 60 ∧ 60 ∉ e.conn ∧
    (∃ fs, polyFaces Cfg.fixed ids e = some fs ∧ 0 ∉ fs.flatten) := by decide

end Femio.C18
