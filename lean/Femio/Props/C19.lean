import Femio.Model.QueryCache
import Femio.Model.StoredMetric
import Femio.Gen.Tables
import Mathlib.Tactic.Linarith

/-! C19 — analysis queries are pure and independent of call history.  Property theorems over the cache
model `Femio.C19` (`Model/QueryCache.lean`).

The working tree does NOT invalidate its caches on in-place modification (`Cfg.invalidate = false`, DESIGN §5
F11, recorded as an open known finding).  Hence: the full statement `C19_history_independent` is proved
for the repaired configuration, `C19_history_independent_partial` (histories without in-place modifiers)
for the tree as it is, and the `…_counterexample`s show that the restriction is necessary. -/
namespace Femio.C19

/-- every cached value was computed from the current version of its object -/
def Fresh (w : World) : Prop := ∀ m k s, (k, s) ∈ w.lruOf m → s = w.ver k.obj

theorem assoc_assocSet_same {β} (d : β) (k : Nat) (v : β) (l : List (Nat × β)) : assoc d k (assocSet k v l) = v := by
  induction l with
  | nil => simp [assocSet, assoc]
  | cons e t ih =>
    obtain ⟨a, b⟩ := e
    by_cases h : a = k
    · simp [assocSet, assoc, h]
    · simp [assocSet, assoc, h, ih]

theorem assoc_assocSet_ne {β} (d : β) (k k' : Nat) (v : β) (l : List (Nat × β)) (h : k' ≠ k) :
    assoc d k' (assocSet k v l) = assoc d k' l := by
  induction l with
  | nil => simp [assocSet, assoc, h.symm]
  | cons e t ih =>
    obtain ⟨a, b⟩ := e
    by_cases h1 : a = k
    · subst h1; simp [assocSet, assoc, h.symm]
    · by_cases h2 : a = k'
      · subst h2; simp [assocSet, assoc, h1]
      · simp [assocSet, assoc, h1, h2, ih]

theorem lookup_mem {k : Key} {l : List (Key × Nat)} {s : Nat} (h : lookup k l = some s) : (k, s) ∈ l := by
  induction l with
  | nil => simp [lookup] at h
  | cons e t ih =>
    obtain ⟨k', s'⟩ := e
    simp only [lookup] at h
    split at h
    · rename_i hk; cases h; subst hk; simp
    · exact List.mem_cons_of_mem _ (ih h)

/-- what one access guarantees, relative to the world `w` it started from -/
structure Good (w : World) (k : Key) (r : World × Nat) : Prop where
  version : r.1.version = w.version
  cap : r.1.cap = w.cap
  fresh : Fresh r.1
  stamp : r.2 = w.ver k.obj

theorem fresh_insert (w : World) (k : Key) (l' : List (Key × Nat)) (hf : Fresh w)
    (hl : ∀ e ∈ l', e = (k, w.ver k.obj) ∨ e ∈ w.lruOf k.meth) (w' : World)
    (hv : w'.version = w.version) (hlru : w'.lru = assocSet k.meth l' w.lru) : Fresh w' := by
  intro m k' s' hmem
  have hver : ∀ o, w'.ver o = w.ver o := fun o => by simp [World.ver, hv]
  rw [hver]
  unfold World.lruOf at hmem
  rw [hlru] at hmem
  by_cases hm : m = k.meth
  · subst hm
    rw [assoc_assocSet_same] at hmem
    rcases hl _ hmem with he | he
    · cases he; rfl
    · exact hf _ k' s' he
  · rw [assoc_assocSet_ne _ _ _ _ _ hm] at hmem
    exact hf m k' s' hmem

theorem access_good (rules : Rules) : ∀ (fuel : Nat) (w : World) (k : Key), Fresh w → Good w k (access rules fuel w k) := by
  intro fuel
  induction fuel with
  | zero => intro w k hf; exact ⟨rfl, rfl, hf, rfl⟩
  | succ fuel ih =>
    intro w k hf
    unfold access
    cases hlk : lookup k (w.lruOf k.meth) with
    | some s =>
      simp only
      have hs : s = w.ver k.obj := hf _ k s (lookup_mem hlk)
      refine ⟨rfl, rfl, ?_, hs⟩
      refine fresh_insert w k ((k, s) :: (w.lruOf k.meth).filter (fun e => e.1 ≠ k)) hf ?_ _ rfl rfl
      intro e he
      rcases List.mem_cons.mp he with h | h
      · left; rw [h, hs]
      · right; exact (List.mem_filter.mp h).1
    | none =>
      simp only
      -- invariant of the fold over the nested calls
      set w0 : World := { w with nextTmp := w.nextTmp + (rules.calls k.meth k.args (w.ver k.obj)).foldl (fun n c => max n c.recv) 0,
                                  misses := w.misses + 1 } with hw0
      have hf0 : Fresh w0 := hf
      have key : ∀ (calls : List Call) (acc : World × Nat),
          (acc.1.version = w.version ∧ acc.1.cap = w.cap ∧ Fresh acc.1 ∧ acc.2 = w.ver k.obj) →
          let r := calls.foldl (fun (acc : World × Nat) c =>
            let key : Key := ⟨if c.recv = 0 then k.obj else w.nextTmp + c.recv - 1, c.meth, c.args⟩
            let (w', s) := access rules fuel acc.1 key
            (w', if c.recv = 0 then min acc.2 s else acc.2)) acc
          (r.1.version = w.version ∧ r.1.cap = w.cap ∧ Fresh r.1 ∧ r.2 = w.ver k.obj) := by
        intro calls
        induction calls with
        | nil => intro acc h; exact h
        | cons c cs ihc =>
          intro acc h
          simp only [List.foldl_cons]
          apply ihc
          obtain ⟨hv, hc, hfr, hst⟩ := h
          have g := ih acc.1 ⟨if c.recv = 0 then k.obj else w.nextTmp + c.recv - 1, c.meth, c.args⟩ hfr
          refine ⟨g.version.trans hv, g.cap.trans hc, g.fresh, ?_⟩
          by_cases hr : c.recv = 0
          · have : (access rules fuel acc.1 ⟨if c.recv = 0 then k.obj else w.nextTmp + c.recv - 1, c.meth, c.args⟩).2
                = w.ver k.obj := by
              rw [g.stamp]; simp [hr, World.ver, hv]
            simp only [hr, if_true] at this ⊢
            rw [this, hst]; exact Nat.min_self _
          · simp only [hr, if_false]; exact hst
      have hres := key (rules.calls k.meth k.args (w.ver k.obj)) (w0, w0.ver k.obj) ⟨rfl, rfl, hf0, rfl⟩
      simp only at hres
      obtain ⟨hv, hc, hfr, hst⟩ := hres
      refine ⟨hv, hc, ?_, hst⟩
      set r := (rules.calls k.meth k.args (w.ver k.obj)).foldl (fun (acc : World × Nat) c =>
            let key : Key := ⟨if c.recv = 0 then k.obj else w.nextTmp + c.recv - 1, c.meth, c.args⟩
            let (w', s) := access rules fuel acc.1 key
            (w', if c.recv = 0 then min acc.2 s else acc.2)) (w0, w0.ver k.obj) with hr
      refine fresh_insert r.1 k (((k, r.2) :: r.1.lruOf k.meth).take (r.1.capOf k.meth)) hfr ?_ _ rfl rfl
      intro e he
      rcases List.mem_cons.mp (List.mem_of_mem_take he) with h | h
      · left; rw [h, hst]; simp [World.ver, hv]
      · right; exact h

/-- **C19_objects_dont_share**: a hit returns the stamp stored under exactly the requested key
`(object, method, argument tuple)` — an entry is never returned to another object or argument tuple. -/
theorem C19_objects_dont_share (k : Key) (l : List (Key × Nat)) (s : Nat) (h : lookup k l = some s) : (k, s) ∈ l :=
  lookup_mem h

/-- **C19_user_data_untouched** (model level): no query changes the mesh version of any object; the real
code is checked against this by before/after snapshots of ids, coordinates, connectivity and user variables. -/
theorem C19_user_data_untouched (cfg : Cfg) (rules : Rules) (w : World) (k : Key) (hf : Fresh w) :
    (step cfg rules w (.query k)).1.version = w.version := by
  simp only [step]
  exact (access_good rules depth { w with hits := 0, misses := 0 } k hf).version

theorem query_fresh (cfg : Cfg) (rules : Rules) (w : World) (k : Key) (hf : Fresh w) :
    Fresh (step cfg rules w (.query k)).1 ∧ ∃ h m, (step cfg rules w (.query k)).2 = .value (w.ver k.obj) h m := by
  simp only [step]
  have g := access_good rules depth { w with hits := 0, misses := 0 } k hf
  exact ⟨g.fresh, _, _, by rw [g.stamp]; rfl⟩

def isModify : Op → Bool | .modify _ => true | .query _ => false

/-- **C19_history_independent_partial** (the tree as it is): in every history WITHOUT in-place modifiers,
over any number of live objects and with any interleaving, every query returns the value for the current
mesh (its stamp is the object's current version), whatever was queried before. -/
theorem C19_history_independent_partial (rules : Rules) (w : World) (ops : List Op) (hf : Fresh w)
    (hno : ∀ op ∈ ops, isModify op = false) :
    Fresh (run ⟨false⟩ rules w ops).1 ∧
    ∀ o ∈ (run ⟨false⟩ rules w ops).2, ∃ k hh mm, o = Obs.value (w.ver k) hh mm := by
  induction ops generalizing w with
  | nil => exact ⟨hf, by simp [run]⟩
  | cons op ops ih =>
    cases op with
    | modify o => exact absurd (hno (.modify o) (by simp)) (by simp [isModify])
    | query k =>
      simp only [run]
      obtain ⟨hf', h, m, hobs⟩ := query_fresh ⟨false⟩ rules w k hf
      have hv := C19_user_data_untouched ⟨false⟩ rules w k hf
      obtain ⟨hfin, hall⟩ := ih (step ⟨false⟩ rules w (.query k)).1 hf' (fun op hop => hno op (List.mem_cons_of_mem _ hop))
      refine ⟨hfin, ?_⟩
      intro o ho
      rcases List.mem_cons.mp ho with h1 | h1
      · exact ⟨k.obj, h, m, by rw [h1, hobs]⟩
      · obtain ⟨k', hh, mm, hk'⟩ := hall o h1
        exact ⟨k', hh, mm, by rw [hk']; simp [World.ver, hv]⟩

/-- **C19_history_independent** (repaired configuration: modifiers clear the caches): after ANY history —
queries, in-place modifications, several objects — the caches hold only values of the current meshes, so
the next query returns the value for the current mesh. -/
theorem C19_history_independent (rules : Rules) (w : World) (ops : List Op) (hf : Fresh w) (k : Key) :
    Fresh (run ⟨true⟩ rules w ops).1 ∧
    ∃ h m, (step ⟨true⟩ rules (run ⟨true⟩ rules w ops).1 (.query k)).2 = .value ((run ⟨true⟩ rules w ops).1.ver k.obj) h m := by
  have hfin : Fresh (run ⟨true⟩ rules w ops).1 := by
    induction ops generalizing w with
    | nil => exact hf
    | cons op ops ih =>
      simp only [run]
      apply ih
      cases op with
      | query k' => exact (query_fresh ⟨true⟩ rules w k' hf).1
      | modify o => intro m k' s hm; simp [step, World.lruOf, assoc] at hm
  exact ⟨hfin, (query_fresh ⟨true⟩ rules _ k hfin).2⟩

/-! ### what holds for the tree as it is, in EVERY history (modifiers included) -/

/-- every cached value was computed from the current or an EARLIER version of its object (never invented) -/
def NoFuture (w : World) : Prop := ∀ m k s, (k, s) ∈ w.lruOf m → s ≤ w.ver k.obj

theorem nofuture_insert (w : World) (k : Key) (l' : List (Key × Nat)) (s : Nat) (hs : s ≤ w.ver k.obj) (hf : NoFuture w)
    (hl : ∀ e ∈ l', e = (k, s) ∨ e ∈ w.lruOf k.meth) (w' : World)
    (hv : w'.version = w.version) (hlru : w'.lru = assocSet k.meth l' w.lru) : NoFuture w' := by
  intro m k' s' hmem
  have hver : ∀ o, w'.ver o = w.ver o := fun o => by simp [World.ver, hv]
  rw [hver]
  unfold World.lruOf at hmem
  rw [hlru] at hmem
  by_cases hm : m = k.meth
  · subst hm
    rw [assoc_assocSet_same] at hmem
    rcases hl _ hmem with he | he
    · cases he; exact hs
    · exact hf _ k' s' he
  · rw [assoc_assocSet_ne _ _ _ _ _ hm] at hmem
    exact hf m k' s' hmem

theorem access_nofuture (rules : Rules) : ∀ (fuel : Nat) (w : World) (k : Key), NoFuture w →
    (access rules fuel w k).1.version = w.version ∧ NoFuture (access rules fuel w k).1 ∧ (access rules fuel w k).2 ≤ w.ver k.obj := by
  intro fuel
  induction fuel with
  | zero => intro w k hf; exact ⟨rfl, hf, Nat.le_refl _⟩
  | succ fuel ih =>
    intro w k hf
    unfold access
    cases hlk : lookup k (w.lruOf k.meth) with
    | some s =>
      simp only
      have hs : s ≤ w.ver k.obj := hf _ k s (lookup_mem hlk)
      refine ⟨by first | rfl | trivial, ?_, hs⟩
      refine nofuture_insert w k ((k, s) :: (w.lruOf k.meth).filter (fun e => e.1 ≠ k)) s hs hf ?_ _ rfl rfl
      intro e he
      rcases List.mem_cons.mp he with h | h
      · left; exact h
      · right; exact (List.mem_filter.mp h).1
    | none =>
      simp only
      have key : ∀ (calls : List Call) (acc : World × Nat),
          (acc.1.version = w.version ∧ NoFuture acc.1 ∧ acc.2 ≤ w.ver k.obj) →
          let r := calls.foldl (fun (acc : World × Nat) c =>
            let key : Key := ⟨if c.recv = 0 then k.obj else w.nextTmp + c.recv - 1, c.meth, c.args⟩
            let (w', s) := access rules fuel acc.1 key
            (w', if c.recv = 0 then min acc.2 s else acc.2)) acc
          (r.1.version = w.version ∧ NoFuture r.1 ∧ r.2 ≤ w.ver k.obj) := by
        intro calls
        induction calls with
        | nil => intro acc h; exact h
        | cons c cs ihc =>
          intro acc h
          simp only [List.foldl_cons]
          apply ihc
          obtain ⟨hv, hfr, hst⟩ := h
          have g := ih acc.1 ⟨if c.recv = 0 then k.obj else w.nextTmp + c.recv - 1, c.meth, c.args⟩ hfr
          refine ⟨g.1.trans hv, g.2.1, ?_⟩
          by_cases hr : c.recv = 0
          · simp only [hr, if_true]; exact Nat.le_trans (Nat.min_le_left _ _) hst
          · simp only [hr, if_false]; exact hst
      set w0 : World := { w with nextTmp := w.nextTmp + (rules.calls k.meth k.args (w.ver k.obj)).foldl (fun n c => max n c.recv) 0,
                                  misses := w.misses + 1 } with hw0
      have hres := key (rules.calls k.meth k.args (w.ver k.obj)) (w0, w0.ver k.obj) ⟨rfl, hf, Nat.le_refl _⟩
      simp only at hres
      set r := (rules.calls k.meth k.args (w.ver k.obj)).foldl (fun (acc : World × Nat) c =>
            let key : Key := ⟨if c.recv = 0 then k.obj else w.nextTmp + c.recv - 1, c.meth, c.args⟩
            let (w', s) := access rules fuel acc.1 key
            (w', if c.recv = 0 then min acc.2 s else acc.2)) (w0, w0.ver k.obj) with hr
      obtain ⟨hv, hfr, hst⟩ := hres
      have hst' : r.2 ≤ r.1.ver k.obj := by simpa [World.ver, hv] using hst
      refine ⟨hv, ?_, hst⟩
      refine nofuture_insert r.1 k (((k, r.2) :: r.1.lruOf k.meth).take (r.1.capOf k.meth)) r.2 hst' hfr ?_ _ rfl rfl
      intro e he
      rcases List.mem_cons.mp (List.mem_of_mem_take he) with h | h
      · left; exact h
      · right; exact h

/-- **C19_no_future_values** (the tree as it is, ANY history incl. in-place modifiers): a query never returns a
value newer than the current mesh, and whatever stale value it returns was computed by an earlier query from an
earlier version of the SAME object — staleness is the only way the working tree departs from history
independence (there is no cross-object or cross-argument leakage in the model; the tie checks that on the code). -/
theorem C19_no_future_values (cfg : Cfg) (rules : Rules) (w : World) (ops : List Op) (hf : NoFuture w) :
    NoFuture (run cfg rules w ops).1 := by
  induction ops generalizing w with
  | nil => exact hf
  | cons op ops ih =>
    simp only [run]
    apply ih
    cases op with
    | query k =>
      simp only [step]
      exact (access_nofuture rules depth { w with hits := 0, misses := 0 } k hf).2.1
    | modify o =>
      intro m k s hm
      simp only [step] at hm ⊢
      by_cases hc : cfg.invalidate = true
      · simp [World.lruOf, hc, assoc] at hm
      · have hm' : (k, s) ∈ w.lruOf m := by simpa [World.lruOf, hc] using hm
        have := hf m k s hm'
        by_cases hko : k.obj = o
        · subst hko; simp only [World.ver, assoc_assocSet_same]; exact Nat.le_succ_of_le this
        · simp only [World.ver]; rw [assoc_assocSet_ne _ _ _ _ _ hko]; exact this

/-! ### a stale answer needs a stale entry of the SAME object (soundness of the oracle's attribution)

The harness attributes a value that differs from the fresh one to the open finding F11 only when the traced provenance of
the value contains an older version of the mesh; a query that reads nothing older must be fresh.  For the lru caches that
rule is this theorem: whatever the state of the caches (stale entries of OTHER objects included), a query on object `o`
whose answer is older than `o`'s current mesh found, before it started, an entry of `o` itself that was already older. -/

/-- every cached value OF OBJECT `o` was computed from the current version of `o` (entries of other objects may be stale) -/
def FreshObj (w : World) (o : Nat) : Prop := ∀ m k s, (k, s) ∈ w.lruOf m → k.obj = o → s = w.ver o

/-- what one access guarantees about object `o`, relative to the world `w` it started from -/
structure GoodObj (w : World) (k : Key) (o : Nat) (r : World × Nat) : Prop where
  version : r.1.version = w.version
  fresh : FreshObj r.1 o
  stamp : k.obj = o → r.2 = w.ver o

theorem freshObj_insert (w : World) (o : Nat) (k : Key) (s : Nat) (l' : List (Key × Nat)) (hf : FreshObj w o)
    (hs : k.obj = o → s = w.ver o)
    (hl : ∀ e ∈ l', e = (k, s) ∨ e ∈ w.lruOf k.meth) (w' : World)
    (hv : w'.version = w.version) (hlru : w'.lru = assocSet k.meth l' w.lru) : FreshObj w' o := by
  intro m k' s' hmem hk'
  have hver : ∀ o, w'.ver o = w.ver o := fun o => by simp [World.ver, hv]
  rw [hver]
  unfold World.lruOf at hmem
  rw [hlru] at hmem
  by_cases hm : m = k.meth
  · subst hm
    rw [assoc_assocSet_same] at hmem
    rcases hl _ hmem with he | he
    · cases he; exact hs hk'
    · exact hf _ k' s' he hk'
  · rw [assoc_assocSet_ne _ _ _ _ _ hm] at hmem
    exact hf m k' s' hmem hk'

theorem access_goodObj (rules : Rules) (o : Nat) :
    ∀ (fuel : Nat) (w : World) (k : Key), FreshObj w o → GoodObj w k o (access rules fuel w k) := by
  intro fuel
  induction fuel with
  | zero => intro w k hf; exact ⟨rfl, hf, fun h => by simp [access, h]⟩
  | succ fuel ih =>
    intro w k hf
    unfold access
    cases hlk : lookup k (w.lruOf k.meth) with
    | some s =>
      simp only
      have hs : k.obj = o → s = w.ver o := fun h => hf _ k s (lookup_mem hlk) h
      refine ⟨rfl, ?_, hs⟩
      refine freshObj_insert w o k s ((k, s) :: (w.lruOf k.meth).filter (fun e => e.1 ≠ k)) hf hs ?_ _ rfl rfl
      intro e he
      rcases List.mem_cons.mp he with h | h
      · left; exact h
      · right; exact (List.mem_filter.mp h).1
    | none =>
      simp only
      set w0 : World := { w with nextTmp := w.nextTmp + (rules.calls k.meth k.args (w.ver k.obj)).foldl (fun n c => max n c.recv) 0,
                                  misses := w.misses + 1 } with hw0
      have hf0 : FreshObj w0 o := hf
      have key : ∀ (calls : List Call) (acc : World × Nat),
          (acc.1.version = w.version ∧ FreshObj acc.1 o ∧ (k.obj = o → acc.2 = w.ver o)) →
          let r := calls.foldl (fun (acc : World × Nat) c =>
            let key : Key := ⟨if c.recv = 0 then k.obj else w.nextTmp + c.recv - 1, c.meth, c.args⟩
            let (w', s) := access rules fuel acc.1 key
            (w', if c.recv = 0 then min acc.2 s else acc.2)) acc
          (r.1.version = w.version ∧ FreshObj r.1 o ∧ (k.obj = o → r.2 = w.ver o)) := by
        intro calls
        induction calls with
        | nil => intro acc h; exact h
        | cons c cs ihc =>
          intro acc h
          simp only [List.foldl_cons]
          apply ihc
          obtain ⟨hv, hfr, hst⟩ := h
          have g := ih acc.1 ⟨if c.recv = 0 then k.obj else w.nextTmp + c.recv - 1, c.meth, c.args⟩ hfr
          refine ⟨g.version.trans hv, g.fresh, ?_⟩
          intro hko
          by_cases hr : c.recv = 0
          · have : (access rules fuel acc.1 ⟨if c.recv = 0 then k.obj else w.nextTmp + c.recv - 1, c.meth, c.args⟩).2
                = w.ver o := by
              rw [g.stamp (by simp [hr, hko])]; simp [World.ver, hv]
            simp only [hr, if_true] at this ⊢
            rw [this, hst hko]; exact Nat.min_self _
          · simp only [hr, if_false]; exact hst hko
      have hres := key (rules.calls k.meth k.args (w.ver k.obj)) (w0, w0.ver k.obj) ⟨rfl, hf0, fun h => by simp [hw0, World.ver, h]⟩
      simp only at hres
      obtain ⟨hv, hfr, hst⟩ := hres
      refine ⟨hv, ?_, hst⟩
      set r := (rules.calls k.meth k.args (w.ver k.obj)).foldl (fun (acc : World × Nat) c =>
            let key : Key := ⟨if c.recv = 0 then k.obj else w.nextTmp + c.recv - 1, c.meth, c.args⟩
            let (w', s) := access rules fuel acc.1 key
            (w', if c.recv = 0 then min acc.2 s else acc.2)) (w0, w0.ver k.obj) with hr
      refine freshObj_insert r.1 o k r.2 (((k, r.2) :: r.1.lruOf k.meth).take (r.1.capOf k.meth)) hfr ?_ ?_ _ rfl rfl
      · intro hko; rw [hst hko]; simp [World.ver, hv]
      · intro e he
        rcases List.mem_cons.mp (List.mem_of_mem_take he) with h | h
        · left; exact h
        · right; exact h

/-- **C19_stale_needs_stale_entry** (the tree as it is, ANY state of the caches, any nested-call graph): if a query on an
object returns a value that was not computed from the object's current mesh, then the caches held — before the query — an
entry of THAT object which was already out of date.  Stale entries of other objects, evictions and temporaries cannot make a
query stale.  (Contrapositive: a query that meets no out-of-date entry of its own object returns the value of the current
mesh — the rule by which the oracle refuses to attribute an unexplained deviation to F11.) -/
theorem C19_stale_needs_stale_entry (rules : Rules) (fuel : Nat) (w : World) (k : Key)
    (h : (access rules fuel w k).2 ≠ w.ver k.obj) :
    ∃ m k' s, (k', s) ∈ w.lruOf m ∧ k'.obj = k.obj ∧ s ≠ w.ver k.obj := by
  by_contra hne
  apply h
  refine (access_goodObj rules k.obj fuel w k ?_).stamp rfl
  intro m k' s hm hk
  by_contra hs
  exact hne ⟨m, k', s, hm, hk, hs⟩

/-- … and the query leaves no out-of-date entry of that object behind (so the next query on it is fresh as well) -/
theorem C19_fresh_object_stays_fresh (rules : Rules) (fuel : Nat) (w : World) (k : Key) (o : Nat) (hf : FreshObj w o) :
    FreshObj (access rules fuel w k).1 o :=
  (access_goodObj rules o fuel w k hf).fresh

/-! ### the tree as it is: counterexamples (each replayed on the implementation by the harness) -/

def w0 : World := World.init [(0, 1), (1, 1)]
/-- adjacency (method 1) calls incidence (method 0) on self -/
def r0 : Rules := [((1, 0, 0), [⟨0, 0, 0⟩]), ((1, 0, 1), [⟨0, 0, 0⟩]), ((1, 1, 0), [⟨0, 0, 0⟩]), ((1, 1, 1), [⟨0, 0, 0⟩])]

/-- F11: query, modify in place, same query → the stale value (stamp 0 although the mesh has version 1) -/
theorem C19_stale_lru_counterexample :
    (run ⟨false⟩ r0 w0 [.query ⟨1, 0, 0⟩, .modify 1, .query ⟨1, 0, 0⟩]).2
      = [.value 0 0 1, .modified, .value 0 1 0] := by decide

/-- staleness propagates through nested cached calls: a *different* query that was never made before is
computed from the stale nested entry -/
theorem C19_stale_nested_counterexample :
    (run ⟨false⟩ r0 w0 [.query ⟨1, 0, 0⟩, .modify 1, .query ⟨1, 1, 0⟩]).2
      = [.value 0 0 1, .modified, .value 0 1 1] := by decide

/-- … and a query of another object on the 1-slot cache evicts the stale entry: the answer is fresh again
(the history-dependence the tie has to predict exactly) -/
theorem C19_eviction_refreshes :
    (run ⟨false⟩ r0 w0 [.query ⟨1, 0, 0⟩, .modify 1, .query ⟨2, 0, 0⟩, .query ⟨1, 0, 0⟩]).2
      = [.value 0 0 1, .modified, .value 0 0 1, .value 1 0 1] := by decide

/-- non-vacuity of the partial theorem: two objects, interleaved, nested calls, evictions -/
example : (run ⟨false⟩ r0 w0 [.query ⟨1, 1, 0⟩, .query ⟨2, 1, 0⟩, .query ⟨1, 0, 0⟩, .query ⟨1, 1, 0⟩]).2
    = [.value 0 0 2, .value 0 0 2, .value 0 0 1, .value 0 1 1] := by decide

/-- non-vacuity of `C19_stale_needs_stale_entry`: after [adjacency on object 1, modify object 1] the caches hold stale entries
of object 1 only; object 2 is `FreshObj` (hypothesis holds non-trivially: the lists are not empty) and its query is fresh,
while the query on object 1 is stale and the witness entry exists -/
example : let w1 := (run ⟨false⟩ r0 w0 [.query ⟨1, 1, 0⟩, .modify 1]).1
    (w1.lruOf 0 ≠ [] ∧ (access r0 depth w1 ⟨2, 1, 0⟩).2 = w1.ver 2 ∧ (access r0 depth w1 ⟨1, 1, 1⟩).2 ≠ w1.ver 1) := by decide

/-- the generated capacity table names every cached method once -/
theorem C19_lru_sizes_positive : Femio.Gen.lruSizes.all (fun e => decide (0 < e.2)) = true := by decide

/-! ### The derived variable stored in the mesh's own variable table (`Model/StoredMetric.lean`) -/
namespace Stored

/-- A volume query that RAISES leaves no table behind (tree configuration: blocks are evaluated with `update=False`, only the
assembled and validated result is stored), so every later query — whatever its options — is evaluated from the mesh exactly as
on a freshly built equal mesh. -/
theorem C19_failed_query_invisible (cfg : Cfg) (h : cfg.storePerBlock = false) (o o' : Opts) (blocks : List (List Int))
    (hfail : (query cfg o blocks none).1 = none) :
    (query cfg o blocks none).2 = none ∧ query cfg o' blocks (query cfg o blocks none).2 = query cfg o' blocks none := by
  have h2 : (query cfg o blocks none).2 = none := by
    unfold query at hfail ⊢
    cases he : evalBlocks o blocks with
    | mk r p =>
      cases r with
      | some r => simp [he] at hfail
      | none => simp [h]
  exact ⟨h2, by rw [h2]⟩

/-- non-vacuity: a tet (6V = 1) and an inverted hex (6V = -6); the default query raises -/
example : (query tree ⟨true, false⟩ [[1], [-6]] none).1 = none := by decide

/-- Writing every block to the table as soon as it is evaluated (seeded change C19-9) makes a failed query visible: after the
default query has raised on the inverted hex, the tolerant query returns the table of the tet block only. -/
theorem C19_partial_table_counterexample :
    let cfg : Cfg := ⟨true, .drop⟩
    let t := (query cfg ⟨true, false⟩ [[1], [-6]] none).2
    (query cfg ⟨false, false⟩ [[1], [-6]] t).1 = some [1] ∧ (query cfg ⟨false, false⟩ [[1], [-6]] none).1 = some [1, -6] := by decide

/-- `make_elements_positive` drops the stored table (tree configuration): the next query is evaluated from the modified mesh, as
on a freshly built equal mesh, whatever was stored before. -/
theorem C19_make_positive_drops_table (cfg : Cfg) (h : cfg.onPositive = .drop) (o : Opts) (block : List Int) (table : Table) :
    query cfg o [(makePositive cfg block table).1] (makePositive cfg block table).2 = query cfg o [block.map iabs] none := by
  simp [makePositive, h]

example : (query tree ⟨true, false⟩ [(makePositive tree [1, -1, 1] (some [1, 1, 1])).1] (makePositive tree [1, -1, 1] (some [1, 1, 1])).2).1
    = some [1, 1, 1] := by decide

/-- Negating the rows of the permuted elements instead (seeded change C19-8) is wrong whenever the table holds ABSOLUTE values:
[absolute query, make_elements_positive, default query] raises although every element of the modified mesh is positive. -/
theorem C19_make_positive_flip_counterexample :
    let cfg : Cfg := ⟨false, .flip⟩
    let t := (query cfg ⟨false, true⟩ [[1, -1, 1]] none).2
    let mt := makePositive cfg [1, -1, 1] t
    mt.1 = [1, 1, 1] ∧ (query cfg ⟨true, false⟩ [mt.1] mt.2).1 = none ∧ (query cfg ⟨true, false⟩ [mt.1] none).1 = some [1, 1, 1] := by
  decide

/-- The open finding `options-ignored` in the model: the table stored by an absolute query is returned to a signed query. -/
theorem C19_stored_options_ignored_counterexample :
    let t := (query tree ⟨false, true⟩ [[1, -1, 1]] none).2
    (query tree ⟨false, false⟩ [[1, -1, 1]] t).1 = some [1, 1, 1] ∧ (query tree ⟨false, false⟩ [[1, -1, 1]] none).1 = some [1, -1, 1] := by
  decide

end Stored

end Femio.C19
