import Femio.Lemmas.UcdProps
import Femio.Lemmas.UcdAlign
import Femio.Lemmas.UcdTextProps
import Femio.Model.UcdHist
import Femio.Model.UcdAlignInt
import Femio.Gen.Tables

/-! C04 — AVS UCD write → read is exact for mesh, nodal and elemental data.

Property theorems only (lemmas: `Femio/Lemmas/UcdProps.lean`).  The model (`Femio/Model/Ucd.lean`) works on
untyped-by-position token lines; `V` is the abstract value token (a float as printed).  `Mesh V` is
"what `UCDWriter.write` looks at": nodes in storage order, per-type element blocks in `ELEMENT_TYPES` order,
the 2-D nodal / elemental variables and their rows *positionally* (row `k` of every nodal variable is paired
with `nodes.ids[k]`, row `k` of every elemental variable with `elements.ids[k]` — as the real writer does). -/
namespace Femio.C04
open Ucd

variable {V : Type}

/-- lengths the real writer relies on (pandas raises otherwise): one data row per node / element -/
structure WF (m : Mesh V) : Prop where
  nodalRows : m.nodalRows.length = m.nodes.length
  elemRows : m.elemRows.length = nElem m

/-- number of nodal variables as `read_headers` knows it (0 when the header says "no nodal data") -/
def kNodal (m : Mesh V) : Nat := if sumW m.nodalVars = 0 then 0 else m.nodalVars.length

/-- line index of the nodal block header computed by `read_headers` -/
def hposN (m : Mesh V) : Nat := m.nodes.length + nElem m + 1
/-- line index of the elemental block header computed by `read_headers` -/
def hposE (m : Mesh V) : Nat := m.nodes.length + nElem m + 1 + kNodal m + (min 1 (kNodal m)) * (m.nodes.length + 1)
/-- first elemental name line computed (by a different formula) in `read_elemental_data` -/
def nposE (m : Mesh V) : Nat :=
  m.nodes.length + 1 + nElem m + 1 + (min 1 (sumW m.nodalVars)) * (kNodal m + m.nodes.length + 1)

/-- **C04_offsets** — for all counts (nodal block absent / present × elemental block absent / present) the
    line indices `read_headers` / `read_elemental_data` compute from the header counts are exactly the
    positions at which the writer put the block headers, and the two independent formulas for the elemental
    block agree. -/
theorem C04_offsets (m : Mesh V) (h : WF m) :
    (sumW m.nodalVars ≠ 0 → (write m)[hposN m]? = some (blockHeader m.nodalVars)) ∧
    (sumW m.elemVars ≠ 0 → (write m)[hposE m]? = some (blockHeader m.elemVars) ∧ nposE m = hposE m + 1) := by
  have hNl : (m.nodes.map (nodeLine (V := V))).length = m.nodes.length := by simp
  have hEl : (elemLines m).length = nElem m := length_elemLines m
  have hpairs : (nodalPairs m).length = m.nodes.length := by simp [nodalPairs, h.nodalRows]
  have hw : write m = [[.n m.nodes.length, .n (nElem m), .n (sumW m.nodalVars), .n (sumW m.elemVars), .n 0]]
      ++ (m.nodes.map nodeLine ++ (elemLines m ++ (dataBlock m.nodalVars (nodalPairs m)
      ++ dataBlock m.elemVars (elemPairs m)))) := by
    simp [write, nodalPairs, elemPairs]
  constructor
  · intro h0
    rw [hw]
    have hdb : dataBlock m.nodalVars (nodalPairs m) = blockHeader m.nodalVars ::
        (m.nodalVars.map nameLine ++ (nodalPairs m).map dataLine) := by simp [dataBlock, h0]
    rw [hdb]
    have := seg_get ([[Tok.n m.nodes.length, .n (nElem m), .n (sumW m.nodalVars), .n (sumW m.elemVars), .n 0]]
      ++ m.nodes.map nodeLine ++ elemLines m) (blockHeader m.nodalVars)
      ((m.nodalVars.map nameLine ++ (nodalPairs m).map dataLine) ++ dataBlock m.elemVars (elemPairs m)) (hposN m)
      (by simp [hposN, hEl]; try omega)
    simpa [List.append_assoc] using this
  · intro h0
    have hdb : dataBlock m.elemVars (elemPairs m) = blockHeader m.elemVars ::
        (m.elemVars.map nameLine ++ (elemPairs m).map dataLine) := by simp [dataBlock, h0]
    by_cases hz : sumW m.nodalVars = 0
    · have hDN : dataBlock m.nodalVars (nodalPairs m) = ([] : List (Line V)) := by simp [dataBlock, hz]
      refine ⟨?_, by simp [nposE, hposE, kNodal, hz]; try omega⟩
      rw [hw, hDN, hdb]
      have := seg_get ([[Tok.n m.nodes.length, .n (nElem m), .n (sumW m.nodalVars), .n (sumW m.elemVars), .n 0]]
        ++ m.nodes.map nodeLine ++ elemLines m) (blockHeader m.elemVars)
        (m.elemVars.map nameLine ++ (elemPairs m).map dataLine) (hposE m)
        (by simp [hposE, kNodal, hz, hEl]; try omega)
      simpa [List.append_assoc] using this
    · have hk1 := vars_ne_nil_of_sumW hz
      have hlen := length_dataBlock m.nodalVars (nodalPairs m) hz
      rw [hpairs] at hlen
      have hmin1 : min 1 m.nodalVars.length = 1 := by omega
      have hmin2 : min 1 (sumW m.nodalVars) = 1 := by omega
      refine ⟨?_, by simp [nposE, hposE, kNodal, hz, hmin1, hmin2]; try omega⟩
      rw [hw, hdb]
      have := seg_get ([[Tok.n m.nodes.length, .n (nElem m), .n (sumW m.nodalVars), .n (sumW m.elemVars), .n 0]]
        ++ m.nodes.map nodeLine ++ elemLines m ++ dataBlock m.nodalVars (nodalPairs m)) (blockHeader m.elemVars)
        (m.elemVars.map nameLine ++ (elemPairs m).map dataLine) (hposE m)
        (by simp [hposE, kNodal, hz, hEl, hlen, hmin1]; try omega)
      simpa [List.append_assoc] using this

/-- what the reader must return: the nodes as stored, the elements grouped by (first-order) type, every nodal
    row under the id of the node at its position, every elemental row under `elements.ids` at its position -/
abbrev expectedRead (m : Mesh V) : Read V := expected m

/-- **C04_roundtrip** — for every mesh (any number of nodes, type blocks, variables of any widths, any value
    tokens) reading the written lines purely by position recovers exactly `expectedRead m`: same nodes in the
    same order with the same coordinate tokens, the (first-order) elements grouped by type, all variables with
    their names and widths, every data row bound to the id it was written under. -/
theorem C04_roundtrip (m : Mesh V) (h : WF m) : Ucd.read (write m) = some (expectedRead m) :=
  read_write m h.nodalRows h.elemRows

example : Ucd.read (write (⟨[(7, [1, 2, 3]), (3, [4, 5, 6])], [(8, [⟨5, [7, 3, 7, 3]⟩]), (9, [⟨2, [3, 7, 3, 7, 1, 1, 1, 1, 1, 1]⟩])],
      [⟨['T'], 2⟩], [[10, 11], [12, 13]], [⟨['E'], 1⟩, ⟨['F'], 1⟩], [[20, 21], [22, 23]]⟩ : Mesh Nat))
    = some ⟨[(7, [1, 2, 3]), (3, [4, 5, 6])], [(8, [⟨5, [7, 3, 7, 3]⟩, ⟨2, [3, 7, 3, 7]⟩])],
      [⟨['T'], 2⟩], [(7, [10, 11]), (3, [12, 13])], [⟨['E'], 1⟩, ⟨['F'], 1⟩], [(2, [20, 21]), (5, [22, 23])]⟩ := by
  decide

/-! ### values as printed numerals -/
def mapMesh {S : Type} (f : V → S) (m : Mesh V) : Mesh S :=
  ⟨m.nodes.map fun p => (p.1, p.2.map f), m.blocks, m.nodalVars, m.nodalRows.map (·.map f), m.elemVars,
   m.elemRows.map (·.map f)⟩

def mapRead {S : Type} (g : S → V) (r : Read S) : Read V :=
  ⟨r.nodes.map fun p => (p.1, p.2.map g), r.blocks, r.nodalVars, r.nodalRows.map fun p => (p.1, p.2.map g),
   r.elemVars, r.elemRows.map fun p => (p.1, p.2.map g)⟩

theorem zip_map_right' {α β γ : Type} (f : β → γ) (a : List α) (b : List β) :
    a.zip (b.map f) = (a.zip b).map fun p => (p.1, f p.2) := by
  induction a generalizing b with
  | nil => simp
  | cons x t ih => cases b with
    | nil => simp
    | cons y u => simp [ih]

/-- **C04_roundtrip_printed** — parametric in the float printer / parser: if parsing a printed value gives the
    value back (Python's shortest-repr guarantee, trusted), then writing the printed mesh and parsing what the
    reader returns is the identity on values — bit-exact whatever the values are (NaN, −0.0, denormals, 1e±300). -/
theorem C04_roundtrip_printed {S : Type} (print : V → S) (parse : S → V) (hpp : ∀ v, parse (print v) = v)
    (m : Mesh V) (h : WF m) :
    (Ucd.read (write (mapMesh print m))).map (mapRead parse) = some (expectedRead m) := by
  have hWF : WF (mapMesh print m) := ⟨by simp [mapMesh, h.nodalRows], by simpa [mapMesh, nElem] using h.elemRows⟩
  rw [C04_roundtrip _ hWF]
  have hcomp : (fun v => parse (print v)) = id := funext hpp
  have hl : ∀ l : List V, (l.map print).map parse = l := by intro l; simp [hcomp, Function.comp_def]
  simp only [Option.map_some, Option.some.injEq, expectedRead, expected, mapRead, mapMesh, expData, nodalPairs, elemPairs]
  have h1 : (m.nodes.map fun p => (p.1, p.2.map print)).map (fun p => (p.1, p.2.map parse)) = m.nodes := by
    rw [List.map_map]
    have : ((fun p : Nat × List S => (p.1, p.2.map parse)) ∘ fun p : Nat × List V => (p.1, p.2.map print)) = id := by
      funext p; simp [hl]
    rw [this, List.map_id]
  have h2 : ∀ (ids : List Nat) (rows : List (List V)),
      (ids.zip (rows.map (·.map print))).map (fun p => (p.1, p.2.map parse)) = ids.zip rows := by
    intro ids rows
    rw [zip_map_right', List.map_map]
    have : ((fun p : Nat × List S => (p.1, p.2.map parse)) ∘ fun p : Nat × List V => (p.1, p.2.map print)) = id := by
      funext p; simp [hl]
    rw [this, List.map_id]
  by_cases hn : sumW m.nodalVars = 0 <;> by_cases he : sumW m.elemVars = 0 <;>
    simp [hn, he, h1, h2, List.map_map, Function.comp_def]

/-! ### tet2 → corner tets; nothing else altered or dropped -/
theorem mem_groupByType {es : List (Nat × Elem)} {types : List Nat} {ty : Nat} {e : Elem} :
    (∃ blk ∈ groupByType es types, blk.1 = ty ∧ e ∈ blk.2) ↔ ty ∈ types ∧ (ty, e) ∈ es := by
  unfold groupByType
  constructor
  · rintro ⟨blk, hblk, rfl, he⟩
    simp only [List.mem_filter, List.mem_map] at hblk
    obtain ⟨⟨t, ht, rfl⟩, _⟩ := hblk
    simp only [List.mem_map, List.mem_filter] at he
    obtain ⟨p, ⟨hp, hpt⟩, rfl⟩ := he
    have : p.1 = t := by simpa using hpt
    refine ⟨ht, ?_⟩
    rw [← this]; exact hp
  · rintro ⟨ht, he⟩
    refine ⟨(ty, (es.filter fun p => p.1 = ty).map Prod.snd), ?_, rfl, ?_⟩
    · simp only [List.mem_filter, List.mem_map]
      refine ⟨⟨ty, ht, rfl⟩, ?_⟩
      have : e ∈ (es.filter fun p => p.1 = ty).map Prod.snd :=
        List.mem_map.mpr ⟨(ty, e), List.mem_filter.mpr ⟨he, by simp⟩, rfl⟩
      cases hl : (es.filter fun p => p.1 = ty).map Prod.snd with
      | nil => rw [hl] at this; simp at this
      | cons a t => simp
    · exact List.mem_map.mpr ⟨(ty, e), List.mem_filter.mpr ⟨he, by simp⟩, rfl⟩

theorem mem_written {blocks : List (Nat × List Elem)} {p : Nat × Elem} :
    p ∈ written blocks ↔ ∃ b ∈ blocks, ∃ e ∈ b.2, p = firstOrder b.1 e := by
  simp only [written, List.mem_flatMap, List.mem_map]
  constructor
  · rintro ⟨b, hb, e, he, rfl⟩; exact ⟨b, hb, e, he, rfl⟩
  · rintro ⟨b, hb, e, he, rfl⟩; exact ⟨b, hb, e, he, rfl⟩

/-- **C04_tet2_first_order** — every second-order tetrahedron is read back as a first-order `tet` with the
    same id and its first four (corner) nodes, and no `tet2` block comes back. -/
theorem C04_tet2_first_order (m : Mesh V) :
    (∀ b ∈ m.blocks, b.1 = tet2 → ∀ e ∈ b.2,
        ∃ blk ∈ (expectedRead m).blocks, blk.1 = tet ∧ (⟨e.id, e.conn.take 4⟩ : Elem) ∈ blk.2) ∧
    (∀ blk ∈ (expectedRead m).blocks, blk.1 ≠ tet2) := by
  constructor
  · intro b hb hty e he
    apply mem_groupByType.mpr
    refine ⟨by decide, mem_written.mpr ⟨b, hb, e, he, ?_⟩⟩
    simp [firstOrder, hty]
  · intro blk hblk hty
    simp only [expectedRead, expected, groupByType, List.mem_filter, List.mem_map] at hblk
    obtain ⟨⟨t, _, rfl⟩, hne⟩ := hblk
    simp only at hty
    subst hty
    -- a non-empty tet2 block would need a written element of type tet2
    cases hl : ((written m.blocks).filter fun p => p.1 = tet2) with
    | nil => simp [hl] at hne
    | cons p t =>
      have hp : p ∈ (written m.blocks).filter fun p => p.1 = tet2 := by rw [hl]; simp
      obtain ⟨hpw, hpt⟩ := List.mem_filter.mp hp
      obtain ⟨b, _, e, _, rfl⟩ := mem_written.mp hpw
      simp only [firstOrder] at hpt
      split at hpt <;> simp_all [tet, tet2]

/-- **C04_nothing_else_changes** — the nodes come back as stored (ids, order, coordinate tokens); every element
    of a type other than `tet2` comes back under the same type with the same id and connectivity; every element
    read was written (nothing invented); the variables keep their names and widths, and row `k` of the nodal
    (elemental) data is bound to `nodes.ids[k]` (`elements.ids[k]`). -/
theorem C04_nothing_else_changes (m : Mesh V) :
    (expectedRead m).nodes = m.nodes ∧
    (∀ b ∈ m.blocks, b.1 ≠ tet2 → b.1 ∈ allTypes → ∀ e ∈ b.2, ∃ blk ∈ (expectedRead m).blocks, blk.1 = b.1 ∧ e ∈ blk.2) ∧
    (∀ blk ∈ (expectedRead m).blocks, ∀ e ∈ blk.2, ∃ b ∈ m.blocks, ∃ e0 ∈ b.2, (blk.1, e) = firstOrder b.1 e0) ∧
    (sumW m.nodalVars ≠ 0 → (expectedRead m).nodalVars = m.nodalVars ∧
        (expectedRead m).nodalRows = (m.nodes.map Prod.fst).zip m.nodalRows) ∧
    (sumW m.elemVars ≠ 0 → (expectedRead m).elemVars = m.elemVars ∧
        (expectedRead m).elemRows = (elemIds m.blocks).zip m.elemRows) := by
  refine ⟨rfl, ?_, ?_, ?_, ?_⟩
  · intro b hb hty hin e he
    apply mem_groupByType.mpr
    refine ⟨hin, mem_written.mpr ⟨b, hb, e, he, ?_⟩⟩
    simp [firstOrder, hty]
  · intro blk hblk e he
    have := (mem_groupByType (es := written m.blocks) (types := allTypes) (ty := blk.1) (e := e)).mp ⟨blk, hblk, rfl, he⟩
    exact mem_written.mp this.2
  · intro h; simp [expectedRead, expected, expData, h, nodalPairs]
  · intro h; simp [expectedRead, expected, expData, h, elemPairs]

/-- **C04_bound_to_same_ids** — a nodal variable given as an id-keyed table whose own id order is the mesh's
    (`aligned`) is read back as the same id-keyed table; likewise for elemental variables with `elements.ids`. -/
theorem C04_bound_to_same_ids (m : Mesh V) (h : WF m) (varIds : List Nat) (hn : sumW m.nodalVars ≠ 0)
    (aligned : varIds = m.nodes.map Prod.fst) :
    ∃ r, Ucd.read (write m) = some r ∧ r.nodalRows = varIds.zip m.nodalRows := by
  refine ⟨expectedRead m, C04_roundtrip m h, ?_⟩
  rw [aligned]; exact ((C04_nothing_else_changes m).2.2.2.1 hn).2

/-- the writer pairs rows with `elements.ids` positionally: an elemental variable with its *own* id order
    `[3, 7]` (values `[30]` for element 3, `[70]` for element 7 — e.g. produced by
    `generate_elemental_attribute`, which sorts ids) on a uniform mesh stored in the order `[7, 3]` is read back
    with the values exchanged (DESIGN §5, F9; findings/C04-elemental-written-positionally.md). -/
theorem C04_misaligned_counterexample :
    let m : Mesh Nat := ⟨[(1, [0, 0, 0]), (2, [1, 0, 0])], [(0, [⟨7, [1, 2]⟩, ⟨3, [2, 1]⟩])], [], [[], []],
      [⟨['E'], 1⟩], [[30], [70]]⟩       -- rows in the variable's own order [3, 7]
    (Ucd.read (write m)).map (·.elemRows) = some [(7, [30]), (3, [70])] := by
  decide

/-! ### variables with their own id order (DESIGN §5 F9, repaired: `FEMWriter._align_data`) -/

/-- a FEMData the writer accepts: node ids and `elements.ids` without repetition; every nodal (elemental) variable
    is an id-keyed table whose own ids are a permutation of the node (element) ids **in any order**, one row per
    id, every row as wide as the variable, at least one column -/
structure FemOK (f : Fem V) : Prop where
  nodeIds : (f.nodes.map Prod.fst).Nodup
  elemIds : (elemIds f.blocks).Nodup
  nodal : ∀ v ∈ f.nodalVars, VarOK (f.nodes.map Prod.fst) v
  elemental : ∀ v ∈ f.elemVars, VarOK (Ucd.elemIds f.blocks) v

theorem femOKB_sound (f : Fem V) (h : femOKB f = true) : FemOK f := by
  simp only [femOKB, Bool.and_eq_true, nodupB_iff, List.all_eq_true, varOKB_iff] at h
  exact ⟨h.1.1.1, h.1.1.2, h.1.2, h.2⟩

/-- `tabs` (the tables read back) are the variables `vs` bound to the same ids: as many tables, and the `j`-th has
    the name and width of the `j`-th variable, lists the ids in the order `ids`, consists of exactly the
    (id, row) pairs of the variable's own table, and holds under every id `v.ids[k]` the row `v.rows[k]` -/
def BoundToSameIds (ids : List Nat) (vs tabs : List (VarTab V)) : Prop :=
  tabs.length = vs.length ∧
  ∀ (j : Nat) (v : VarTab V), vs[j]? = some v → ∃ tab, tabs[j]? = some tab ∧
    tab.name = v.name ∧ tab.width = v.width ∧ tab.ids = ids ∧ tab.rows.length = ids.length ∧
    (tab.ids.zip tab.rows).Perm (v.ids.zip v.rows) ∧
    ∀ (k : Nat) (hk : k < v.ids.length) (hk' : k < v.rows.length), (tab.ids.zip tab.rows).lookup v.ids[k] = some v.rows[k]

theorem boundToSameIds_aligned (ids : List Nat) (hnd : ids.Nodup) (vs : List (VarTab V)) (hv : ∀ v ∈ vs, VarOK ids v) :
    BoundToSameIds ids vs (vs.map (alignedTab ids)) := by
  refine ⟨by simp, ?_⟩
  intro j v hj
  have hmem : v ∈ vs := List.mem_of_getElem? hj
  obtain ⟨h1, h2, h3, h4⟩ := alignedTab_spec ids v hnd (hv v hmem)
  refine ⟨alignedTab ids v, by simp [hj], rfl, rfl, h1, h2, h3, ?_⟩
  intro k hk hk'
  exact h4 k hk

theorem toMesh_WF (cfg : Cfg) (f : Fem V) : WF (toMesh cfg f) :=
  ⟨by simp [toMesh, catRows], by simp [toMesh, catRows, nElem, length_elemIds]⟩

/-- **C04_bound_to_same_ids_own_order** — the full "bound to the same node and element ids" clause for the repaired
    writer (`Cfg.fixed`), **without** an alignment hypothesis: for every FEMData with any number of nodal and
    elemental variables, each stored in its own private row order (any permutation of the mesh's ids, a different
    one per variable), reading the written file back and cutting the rows into per-variable tables
    (`_read_associated_data`) gives for every variable a table that lists the mesh's ids and holds under every id
    exactly the row the variable had for that id. -/
theorem C04_bound_to_same_ids_own_order (f : Fem V) (h : FemOK f) :
    ∃ r, Ucd.read (write (toMesh Cfg.fixed f)) = some r ∧ r.nodes = f.nodes ∧
      BoundToSameIds (f.nodes.map Prod.fst) f.nodalVars (readTables r.nodalVars r.nodalRows) ∧
      BoundToSameIds (Ucd.elemIds f.blocks) f.elemVars (readTables r.elemVars r.elemRows) := by
  refine ⟨expectedRead (toMesh Cfg.fixed f), C04_roundtrip _ (toMesh_WF _ f), rfl, ?_, ?_⟩
  · have := readTables_aligned (f.nodes.map Prod.fst) f.nodalVars h.nodal
    have hlen : (f.nodes.map Prod.fst).length = (List.map Prod.fst f.nodes).length := rfl
    show BoundToSameIds _ _ (readTables
      (expData (f.nodalVars.map toVar) ((f.nodes.map Prod.fst).zip (catRows (f.nodalVars.map (rowsFor Cfg.fixed (f.nodes.map Prod.fst))) (f.nodes.map Prod.fst).length))).1
      (expData (f.nodalVars.map toVar) ((f.nodes.map Prod.fst).zip (catRows (f.nodalVars.map (rowsFor Cfg.fixed (f.nodes.map Prod.fst))) (f.nodes.map Prod.fst).length))).2)
    rw [this]
    exact boundToSameIds_aligned _ h.nodeIds _ h.nodal
  · have := readTables_aligned (Ucd.elemIds f.blocks) f.elemVars h.elemental
    show BoundToSameIds _ _ (readTables
      (expData (f.elemVars.map toVar) ((Ucd.elemIds f.blocks).zip (catRows (f.elemVars.map (rowsFor Cfg.fixed (Ucd.elemIds f.blocks))) (Ucd.elemIds f.blocks).length))).1
      (expData (f.elemVars.map toVar) ((Ucd.elemIds f.blocks).zip (catRows (f.elemVars.map (rowsFor Cfg.fixed (Ucd.elemIds f.blocks))) (Ucd.elemIds f.blocks).length))).2)
    rw [this]
    exact boundToSameIds_aligned _ h.elemIds _ h.elemental

/-- two nodal variables with different private orders (`[3, 7, 5]` and `[5, 3, 7]`; mesh order `[7, 3, 5]`) and an
    elemental variable in the order `[4, 9]` on a mesh whose `elements.ids` is `[9, 4]` -/
def exFem : Fem Nat :=
  ⟨[(7, [0, 0, 0]), (3, [1, 0, 0]), (5, [0, 1, 0])], [(5, [⟨9, [7, 3, 5]⟩, ⟨4, [3, 5, 7]⟩])],
   [⟨['T'], 1, [3, 7, 5], [[30], [70], [50]]⟩, ⟨['U'], 2, [5, 3, 7], [[51, 52], [31, 32], [71, 72]]⟩],
   [⟨['S'], 1, [4, 9], [[40], [90]]⟩]⟩

example : FemOK exFem := femOKB_sound _ (by decide)
example : (Ucd.read (write (toMesh Cfg.fixed exFem))).map (fun r => (readTables r.nodalVars r.nodalRows, readTables r.elemVars r.elemRows))
    = some ([⟨['T'], 1, [7, 3, 5], [[70], [30], [50]]⟩, ⟨['U'], 2, [7, 3, 5], [[71, 72], [31, 32], [51, 52]]⟩],
            [⟨['S'], 1, [9, 4], [[90], [40]]⟩]) := by decide

/-- the unrepaired writer (`Cfg.upstream`, rows taken positionally) on the same data: the values come back under
    other ids (F9) -/
theorem C04_own_order_counterexample_upstream :
    (Ucd.read (write (toMesh Cfg.upstream exFem))).map (fun r => readTables r.elemVars r.elemRows)
      = some [⟨['S'], 1, [9, 4], [[40], [90]]⟩] := by decide

/-! ### character level: the printer of the writer, the whitespace lexer of the reader -/
open Femio.Text in
/-- **C04_lex_print_line** — for every token line the writer can emit (counts, ids, element type names of the source
    table, value numerals that are non-empty, free of whitespace and commas, and are neither a decimal integer nor a
    type name; or a name line whose name has no whitespace and no comma): splitting the printed line
    `' '.join(tokens)` (`name + ", unit_unknown"` for a name line) at whitespace (`str.split()` / `\s+`, all 29
    Unicode whitespace characters of Python) and classifying the pieces gives the token line back. -/
theorem C04_lex_print_line (l : Line Str) (h : lineOKB l = true) : lexLine (lineText l) = l :=
  lexLine_lineText l h

example : lexLine (lineText [.n 12, .n 1, .t 8, .n 3, .n 40]) = [.n 12, .n 1, .t 8, .n 3, .n 40] := by decide
example : lineText [.n 12, .n 1, .t 8, .n 3, .n 40] = "12 1 tet 3 40".toList := by decide
example : lineOKB [.n 7, .v "-1.5e-300".toList, .v "NaN".toList, .v "inf".toList] = true := by decide
example : lexLine "  7\t-1.5e-300  NaN inf ".toList = [.n 7, .v "-1.5e-300".toList, .v "NaN".toList, .v "inf".toList] := by decide
example : lexLine (lineText [.w "tet".toList]) = [.w "tet".toList] := by decide

open Femio.Text in
/-- **C04_roundtrip_lines** — `C04_roundtrip` on lines of characters: every written token line printed as text
    and lexed again, then read by position, gives exactly `expectedRead m`. -/
theorem C04_roundtrip_lines (m : Mesh Str) (h : WF m) (hok : meshOKB m = true) :
    Ucd.read (((write m).map lineText).map lexLine) = some (expectedRead m) := by
  rw [lex_print_write m hok]; exact C04_roundtrip m h

open Femio.Text in
/-- **C04_roundtrip_chars** — the whole file as one string of characters (every line terminated by `'\n'`): the
    reader (`readText`: the non-empty lines between newlines as `StringSeries.read_file` delivers them, each split
    at whitespace, read by position) recovers exactly `expectedRead m` from the writer's text `fileText m`. -/
theorem C04_roundtrip_chars (m : Mesh Str) (h : WF m) (hok : meshOKB m = true) :
    readText (fileText m) = some (expectedRead m) := by
  unfold readText
  rw [fileLines_fileText m hok]; exact C04_roundtrip_lines m h hok

/-- the part of `meshOKB` that does not concern values: type tags of the source table, names without whitespace / comma -/
def shapeOKB (m : Mesh V) : Bool :=
  m.blocks.all (fun b => decide (b.1 < Femio.Gen.elementTypes.length)) &&
  m.nodalVars.all (fun x => nameOKB x.name) && m.elemVars.all (fun x => nameOKB x.name)

open Femio.Text in
/-- **C04_roundtrip_chars_printed** — values → characters → values: for any float printer / parser with
    `parse (print v) = v` (trusted: Python's shortest `repr` and `float()`) whose numerals are value tokens
    (`valOKB (print v)`: non-empty, no whitespace, no comma, not a decimal integer, not a type name — evaluated by the
    driver on every printed value of every generated case), writing the mesh to a text file and reading the text
    back is the identity on the mesh (tet2 → corner tet) and on every value. -/
theorem C04_roundtrip_chars_printed (print : V → Str) (parse : Str → V) (hpp : ∀ v, parse (print v) = v)
    (hval : ∀ v, valOKB (print v) = true) (m : Mesh V) (h : WF m) (hs : shapeOKB m = true) :
    (readText (fileText (mapMesh print m))).map (mapRead parse) = some (expectedRead m) := by
  have hWF : WF (mapMesh print m) := ⟨by simp [mapMesh, h.nodalRows], by simpa [mapMesh, nElem] using h.elemRows⟩
  have hok : meshOKB (mapMesh print m) = true := by
    simp only [shapeOKB, Bool.and_eq_true] at hs
    simp only [meshOKB, mapMesh, Bool.and_eq_true, List.all_map, List.all_eq_true]
    refine ⟨⟨⟨⟨⟨?_, ?_⟩, ?_⟩, ?_⟩, ?_⟩, ?_⟩
    · intro p _; simp [List.all_eq_true, hval]
    · simpa [List.all_eq_true] using hs.1.1
    · simpa [List.all_eq_true] using hs.1.2
    · intro p _; simp [List.all_eq_true, hval]
    · simpa [List.all_eq_true] using hs.2
    · intro p _; simp [List.all_eq_true, hval]
  have h1 := C04_roundtrip_chars _ hWF hok
  have h2 := C04_roundtrip_printed print parse hpp m h
  rw [C04_roundtrip _ hWF] at h2
  rw [h1]; exact h2

open Femio.Text in
/-- **C04_own_order_chars** — `C04_bound_to_same_ids_own_order` through the character level: the text file the
    repaired writer produces from a FEMData whose variables have private id orders is read back, from its
    characters, with every variable bound to the same ids. -/
theorem C04_own_order_chars (f : Fem Str) (h : FemOK f) (hok : meshOKB (toMesh Cfg.fixed f) = true) :
    ∃ r, readText (fileText (toMesh Cfg.fixed f)) = some r ∧ r.nodes = f.nodes ∧
      BoundToSameIds (f.nodes.map Prod.fst) f.nodalVars (readTables r.nodalVars r.nodalRows) ∧
      BoundToSameIds (Ucd.elemIds f.blocks) f.elemVars (readTables r.elemVars r.elemRows) := by
  obtain ⟨r, hr, h1, h2, h3⟩ := C04_bound_to_same_ids_own_order f h
  refine ⟨r, ?_, h1, h2, h3⟩
  rw [C04_roundtrip_chars _ (toMesh_WF _ f) hok, ← hr, C04_roundtrip _ (toMesh_WF _ f)]

open Femio.Text in
/-- a printed FEMData: coordinates / values as numerals, two nodal variables in different private orders -/
def exFemText : Fem Str :=
  ⟨[(7, ["0.0".toList, "-0.0".toList, "1e+300".toList]), (3, ["NaN".toList, "inf".toList, "5e-324".toList])],
   [(9, [⟨2, [7, 3, 7, 3, 7, 3, 7, 3, 7, 3]⟩])],
   [⟨"T".toList, 1, [3, 7], [["0.5".toList], ["-inf".toList]]⟩, ⟨"tet".toList, 1, [7, 3], [["1.5".toList], ["2.5".toList]]⟩],
   [⟨"E12".toList, 2, [2], [["0.1".toList, "1e-05".toList]]⟩]⟩

example : femOKB exFemText = true ∧ meshOKB (toMesh Cfg.fixed exFemText) = true := by decide +kernel
example : fileText (toMesh Cfg.fixed exFemText) =
    ("2 1 2 2 0\n7 0.0 -0.0 1e+300\n3 NaN inf 5e-324\n2 1 tet 7 3 7 3\n2 1 1\nT, unit_unknown\ntet, unit_unknown\n"
      ++ "7 -inf 1.5\n3 0.5 2.5\n1 2\nE12, unit_unknown\n2 0.1 1e-05\n").toList := by decide +kernel

/-- tie to the source table (regenerated from /repo on every run): the model's type tags are indices into
    `FEMElementalAttribute.ELEMENT_TYPES` -/
theorem C04_type_table :
    Femio.Gen.elementTypes[tet]? = some ['t', 'e', 't'] ∧ Femio.Gen.elementTypes[tet2]? = some ['t', 'e', 't', '2'] ∧
    allTypes = List.range Femio.Gen.elementTypes.length ∧ Femio.Gen.elementTypes.Nodup := by
  decide

/-! ### histories: the object is modified between construction and write, written twice, written after read
    (`Model/UcdHist.lean`; seeded change C04-6) -/
open Femio.Text

/-- **C04_history_roundtrip** — the property for an object with ANY history: whatever sequence of modifications
    (assignments, in-place edits through the arrays returned by `.data`, write-through `.loc`, arbitrary other
    functions of the whole object state, earlier writes) the session went through, the file a `write` produces now
    is read back, from its characters, with the coordinates of the object's CURRENT public state and with every
    variable of that state bound to the same ids (no hypothesis on the history, none on the frames; the public state
    at the time of the write is a FEMData the writer accepts). -/
theorem C04_history_roundtrip (s : Sess) (steps : List Step) (p : Nat)
    (h : FemOK (runSteps HCfg.tree s steps).obj.pub)
    (hok : meshOKB (toMesh Cfg.fixed (runSteps HCfg.tree s steps).obj.pub) = true) :
    ∃ t r, fileAt (runSteps HCfg.tree s (steps ++ [Step.write p])) p = some t ∧ readText t = some r ∧
      r.nodes = (runSteps HCfg.tree s steps).obj.pub.nodes ∧
      BoundToSameIds ((runSteps HCfg.tree s steps).obj.pub.nodes.map Prod.fst) (runSteps HCfg.tree s steps).obj.pub.nodalVars
        (readTables r.nodalVars r.nodalRows) ∧
      BoundToSameIds (Ucd.elemIds (runSteps HCfg.tree s steps).obj.pub.blocks) (runSteps HCfg.tree s steps).obj.pub.elemVars
        (readTables r.elemVars r.elemRows) := by
  obtain ⟨r, hr, h1, h2, h3⟩ := C04_own_order_chars _ h hok
  refine ⟨_, r, ?_, hr, h1, h2, h3⟩
  simp [runSteps, List.foldl_append, step, fileAt, writtenText, HCfg.tree]

/-- **C04_write_leaves_object** — `write` does not change the object (neither its public state nor its frames),
    whichever copy the writer reads. -/
theorem C04_write_leaves_object (cfg : HCfg) (s : Sess) (p : Nat) : (step cfg s (Step.write p)).obj = s.obj := rfl

/-- **C04_second_write_same_file** — writing the same object twice: the second file (same path or another one) has
    exactly the characters of the first, the first file is still what it was, and files at other paths are not touched. -/
theorem C04_second_write_same_file (cfg : HCfg) (s : Sess) (p q : Nat) :
    fileAt (runSteps cfg s [Step.write p, Step.write q]) q = fileAt (runSteps cfg s [Step.write p]) p ∧
    fileAt (runSteps cfg s [Step.write p, Step.write q]) p = fileAt (runSteps cfg s [Step.write p]) p ∧
    ∀ o, o ≠ p → o ≠ q → fileAt (runSteps cfg s [Step.write p, Step.write q]) o = fileAt s o := by
  refine ⟨by simp [runSteps, step, fileAt], ?_, ?_⟩
  · by_cases hpq : p = q
    · subst hpq; simp [runSteps, step, fileAt]
    · have : (p == q) = false := by simpa using hpq
      simp [runSteps, step, fileAt, List.lookup, this]
  · intro o hp hq
    have h1 : (o == q) = false := by simpa using hq
    have h2 : (o == p) = false := by simpa using hp
    simp [runSteps, step, fileAt, List.lookup, h1, h2]

/-- **C04_file_of_public_state_only** — two objects with the same public state (say: one that went through a history
    and an independently constructed fresh one) give byte-identical files, whatever their frames and their pasts. -/
theorem C04_file_of_public_state_only (o₁ o₂ : Obj) (h : o₁.pub = o₂.pub) :
    writtenText HCfg.tree o₁ = writtenText HCfg.tree o₂ := by
  simp [writtenText, HCfg.tree, h]

/-- a history of the kind the suite never runs: construct, move node 3 through the array returned by `nodes.data`
    and flag the value of node 7 as NaN (`nodal_data['T'].data[0, 0] = nan`), write -/
def exBefore : Fem Str :=
  ⟨[(7, ["0.0".toList, "0.0".toList, "0.0".toList]), (3, ["1.0".toList, "0.0".toList, "0.0".toList])],
   [(0, [⟨5, [7, 3]⟩])], [⟨"T".toList, 1, [7, 3], [["20.5".toList], ["21.5".toList]]⟩], []⟩
def exAfter : Fem Str :=
  ⟨[(7, ["0.0".toList, "0.0".toList, "0.0".toList]), (3, ["1.0".toList, "2.5".toList, "0.0".toList])],
   [(0, [⟨5, [7, 3]⟩])], [⟨"T".toList, 1, [7, 3], [["NaN".toList], ["21.5".toList]]⟩], []⟩
def exHistory : List Step := [Step.assign exBefore, Step.write 0, Step.inplace exAfter, Step.write 1]
def exStart : Sess := ⟨⟨⟨[], [], [], []⟩, ⟨[], [], [], []⟩⟩, []⟩

example : FemOK (runSteps HCfg.tree exStart exHistory).obj.pub := femOKB_sound _ (by decide +kernel)
example : ((fileAt (runSteps HCfg.tree exStart exHistory) 1).bind readText).map (fun r => (r.nodes, r.nodalRows))
    = some (exAfter.nodes, [(7, ["NaN".toList]), (3, ["21.5".toList])]) := by decide +kernel
example : fileAt (runSteps HCfg.tree exStart exHistory) 0 = some (fileText (toMesh Cfg.fixed exBefore)) := by decide +kernel

/-- **C04_stale_frame_counterexample** — a writer that takes coordinates and values from the attributes' frames
    instead of their public `data` views (`HCfg.staleFrame`) exports the state BEFORE the in-place edits: on the
    history above the second file is the first one again and reads back with the old coordinates and the old value. -/
theorem C04_stale_frame_counterexample :
    fileAt (runSteps HCfg.staleFrame exStart exHistory) 1 = fileAt (runSteps HCfg.staleFrame exStart exHistory) 0 ∧
    ((fileAt (runSteps HCfg.staleFrame exStart exHistory) 1).bind readText).map (fun r => (r.nodes, r.nodalRows))
      = some (exBefore.nodes, [(7, ["20.5".toList]), (3, ["21.5".toList])]) ∧
    exBefore.nodes ≠ (runSteps HCfg.staleFrame exStart exHistory).obj.pub.nodes := by
  decide +kernel

/-! ### ids of any sign: `_align_data` binds rows to ids as KEYS (seeded change C04-9) -/

/-- The dict of `_align_data` finds, for the `k`-th own id of a variable, the row `k` — for ids of ANY type with decidable
    equality (integers of any sign and size in particular), provided no id is repeated. -/
theorem C04_align_by_key {I : Type} [DecidableEq I] (ids : List I) (hnd : ids.Nodup) (k : Nat) (hk : k < ids.length) :
    keyPos ids ids[k] = some k := by
  induction ids generalizing k with
  | nil => simp at hk
  | cons a t ih =>
    have hnd' := List.nodup_cons.mp hnd
    cases k with
    | zero => simp [keyPos]
    | succ k =>
      have hk' : k < t.length := by simpa using hk
      have hne : t[k] ≠ a := by
        intro h
        exact hnd'.1 (h ▸ List.getElem_mem hk')
      simp [keyPos, hne, ih hnd'.2 k hk']

example : keyPos [3, -1, 0, 6, 2, 5, 1, (4 : Int)] (-1) = some 1 := by decide

theorem keyPos_spec {I : Type} [DecidableEq I] (ids : List I) (i : I) (h : i ∈ ids) :
    ∃ k, ∃ hk : k < ids.length, keyPos ids i = some k ∧ ids[k] = i := by
  induction ids with
  | nil => simp at h
  | cons a t ih =>
    by_cases hia : i = a
    · exact ⟨0, by simp, by simp [keyPos, hia], by simp [hia]⟩
    · have ht : i ∈ t := by
        rcases List.mem_cons.mp h with h | h
        · exact absurd h hia
        · exact h
      obtain ⟨k, hk, h1, h2⟩ := ih ht
      exact ⟨k + 1, by simpa using hk, by simp [keyPos, hia, h1], by simpa using h2⟩

/-- The writer of the tree (`ACfg.dict`) emits next to every mesh id — negative, zero or positive — a row that the variable
    holds under exactly that id, whatever the two id orders are. -/
theorem C04_align_any_sign (ownIds meshIds : List Int) (hp : meshIds.Perm ownIds) :
    alignPositions ACfg.dict ownIds meshIds = meshIds.map (keyPos ownIds) ∧
    ∀ i ∈ meshIds, ∃ k, ∃ hk : k < ownIds.length, keyPos ownIds i = some k ∧ ownIds[k] = i :=
  ⟨rfl, fun i hi => keyPos_spec ownIds i (hp.subset hi)⟩

example : alignPositions ACfg.dict [-1, 0, 1, 2, 3, 4, 5, 6] [3, -1, 0, 6, 2, 5, 1, 4]
    = [some 4, some 0, some 1, some 7, some 3, some 6, some 2, some 5] := by decide

/-- Seeded change C04-9 (ids used as array positions of a dense table, numpy wrap-around of negative indices): with node
    ids -1 .. 6 the ids -1 and 6 share a slot, and the row of id 6 is written next to the id -1; with non-negative ids
    the same table is right, which is why no input with positive ids can see the change. -/
theorem C04_dense_table_counterexample :
    alignPositions ACfg.denseTable [-1, 0, 1, 2, 3, 4, 5, 6] [3, -1, 0, 6, 2, 5, 1, 4]
      = [some 4, some 7, some 1, some 7, some 3, some 6, some 2, some 5] ∧
    alignPositions ACfg.denseTable [-1, 0, 1, 2, 3, 4, 5, 6] [3, -1, 0, 6, 2, 5, 1, 4]
      ≠ alignPositions ACfg.dict [-1, 0, 1, 2, 3, 4, 5, 6] [3, -1, 0, 6, 2, 5, 1, 4] ∧
    alignPositions ACfg.denseTable [7, 0, 1, 2, 3, 4, 5, 6] [3, 7, 0, 6, 2, 5, 1, 4]
      = alignPositions ACfg.dict [7, 0, 1, 2, 3, 4, 5, 6] [3, 7, 0, 6, 2, 5, 1, 4] := by decide

end Femio.C04
