import Femio.Lemmas.GradientLemmas
import Mathlib.LinearAlgebra.Matrix.Determinant.Basic
import Mathlib.Tactic.NormNum

/-! # C15 — spatial gradient operators are exact on affine fields

Theorems about `Femio.Gradient` (`Model/Gradient.lean`), the transcription of
`calculate_spatial_gradient_adjacency_matrices` and `calculate_{nodal,elemental}_spatial_gradients`.
They hold over every field `K` (the driver executes the same definitions at `K = ℚ`), for every vertex
count, every family of neighbour lists (hence every hop count, nodal or elemental graph), every weight
function `w` (hence every kernel, with or without volume weighting).

Guards of the real code that the totalised model does not need (`x / 0 = 0` in Lean): coincident
vertices (`|d_ij|² = 0`) and `Σ_j w_ij = 0` give `inf`/`nan` in numpy.  They are outside the property's
quantifier (positive volumes, positive kernels, distinct vertices); the driver reports both guards for
every generated case and the harness requires them to hold, so no case is "true for the wrong reason".
The only hypothesis of the exactness theorem is the one the property names: the neighbourhood spans space
(`IsUnit (det M_i)`), under which `inv3` *is* the inverse. -/
namespace Femio.C15
open Femio.Gradient V3

variable {K : Type} [Field K]

/-- row form: off-diagonal entries plus the diagonal `−row sum` annihilate constants -/
theorem const_zero_row (I : Inp K) (i : Nat) (c : K) : applyRow (opRow I i) (fun _ => c) = vzero := by
  unfold applyRow opRow
  rw [List.map_append, sumV_append]
  have := sumV_smul c (fun e : Nat × V3 K => e.2) (offRow I i)
  simp only [] at this ⊢
  rw [this]
  apply v3_ext <;> simp [V3.add, V3.smul, vneg, vzero]

/-- **C15, clause 1.**  Every spatial-gradient operator — with or without moment matrix, any neighbour
    lists (nodal / elemental, any hop count), any weights (any kernel, volume weighting on or off) — maps
    every constant field to zero, at every vertex; stated on the three COO matrices `grad_adjs[k]` applied
    with `sparse.dot`, i.e. on what the convenience functions compute. -/
theorem C15_const_zero (I : Inp K) (c : K) (i : Nat) (hi : i < I.n) :
    spatialGradients I (fun _ => c) i = vzero := by
  unfold spatialGradients
  simp only [dotCoo_gradAdj I _ _ i hi, const_zero_row]
  rfl

/-- row form of exactness -/
theorem affine_exact_row (I : Inp K) (hm : I.moment = true) (i : Nat) (hdet : det3 (momentAt I i) ≠ 0)
    (a : V3 K) (b : K) : applyRow (opRow I i) (fun j => dot a (I.pos j) + b) = a := by
  have hoff : offRow I i = (I.nbrs i).map fun j =>
      (j, mulVec (inv3 (momentAt I i)) (V3.smul (sq I i j) (dvec I i j))) := by
    unfold offRow; simp [hm]
  have key := sumV_shift (fun e : Nat × V3 K => dot a (I.pos e.1) + b) (fun e => e.2)
    (dot a (I.pos i) + b) (offRow I i)
  unfold applyRow opRow
  rw [List.map_append, sumV_append]
  have hlast : sumV ([(i, vneg (sumV ((offRow I i).map (·.2))))].map
      fun e : Nat × V3 K => V3.smul (dot a (I.pos e.1) + b) e.2)
      = V3.smul (dot a (I.pos i) + b) (vneg (sumV ((offRow I i).map (·.2)))) := by
    apply v3_ext <;> simp [V3.add, vzero]
  rw [hlast, ← key, hoff, List.map_map]
  have hd : ∀ j, dot a (I.pos j) + b - (dot a (I.pos i) + b) = dot a (dvec I i j) := by
    intro j; simp [dvec, dot, V3.sub]; ring
  simp only [Function.comp_def, hd]
  rw [sum_moment (inv3 (momentAt I i)) a (sq I i) (dvec I i) (I.nbrs i)]
  exact inv3_mulVec _ _ hdet

/-- **C15, clause 2.**  With the moment-matrix correction the computed gradient of every affine field
    `x ↦ a·x + b` equals `a` at every vertex `i` (interior or boundary alike: nothing is assumed about
    the neighbour list) whose moment matrix `M_i = Σ_j w_ij d_ij d_ijᵀ / |d_ij|²` is invertible, i.e. whose
    neighbourhood spans space.  Stated on the result of the convenience function. -/
theorem C15_affine_exact (I : Inp K) (hm : I.moment = true) (i : Nat) (hi : i < I.n)
    (hdet : IsUnit (toMatrix (momentAt I i)).det) (a : V3 K) (b : K) :
    spatialGradients I (fun j => dot a (I.pos j) + b) i = a := by
  have h : det3 (momentAt I i) ≠ 0 := by rw [det3_eq_det]; exact hdet.ne_zero
  have := affine_exact_row I hm i h a b
  unfold spatialGradients
  simp only [dotCoo_gradAdj I _ _ i hi, this]
  rfl

/-- **C15, clause 3.**  The convenience functions are the explicit matrices applied by hand
    (`np.stack([G_k.dot(data)])`, definitional), and each matrix row acts as the operator row
    "off-diagonal entries, diagonal = −row sum" of that vertex. -/
theorem C15_convenience (I : Inp K) (data : Nat → K) (i : Nat) (hi : i < I.n) :
    spatialGradients I data i
        = ⟨dotCoo (gradAdj I 0) data i, dotCoo (gradAdj I 1) data i, dotCoo (gradAdj I 2) data i⟩
      ∧ spatialGradients I data i = applyRow (opRow I i) data := by
  refine ⟨rfl, ?_⟩
  unfold spatialGradients
  simp only [dotCoo_gradAdj I _ _ i hi]
  rfl

/-! ### translation invariance (the metamorphic relation of the oracle's stream `translated`) -/

/-- the same input with every vertex position translated by `t` (same graph, same weights: the weights of the real
    code are functions of distances and of translation-invariant volumes) -/
def translate (I : Inp K) (t : V3 K) : Inp K := { I with pos := fun j => V3.add (I.pos j) t }

theorem dvec_translate (I : Inp K) (t : V3 K) (i j : Nat) : dvec (translate I t) i j = dvec I i j := by
  apply v3_ext <;> simp [dvec, translate, V3.sub, V3.add]

theorem offRow_translate (I : Inp K) (t : V3 K) (i : Nat) : offRow (translate I t) i = offRow I i := by
  have hs : ∀ j, sq (translate I t) i j = sq I i j := by
    intro j; simp only [Gradient.sq, dvec_translate]; rfl
  have hm : momentAt (translate I t) i = momentAt I i := by
    simp only [momentAt, dvec_translate, hs]; rfl
  have hw : sumW (translate I t) i = sumW I i := rfl
  unfold offRow
  simp only [hm, hs, hw, dvec_translate]
  rfl

/-- **C15, translation invariance.**  The operator is a function of the differences `x_j − x_i` only: translating every
    vertex by the same vector `t` changes neither any row of the three matrices nor what the convenience functions
    return for any data, for every variant (moment matrix or not, any neighbour lists, any weights).  This is an
    identity over every field; in binary64 the two sides differ by the conditioning of the differences
    (`ulp(max|x|) / |x_j − x_i|`), which is what the oracle's stream `translated` measures on the real code — a
    formula in absolute positions that is *equal over ℚ* (e.g. the expanded moment tensor, `C15_moment_expanded`)
    passes this theorem and fails there. -/
theorem C15_translation_invariant (I : Inp K) (t : V3 K) (data : Nat → K) (i : Nat) :
    opRow (translate I t) i = opRow I i
      ∧ spatialGradients (translate I t) data i = spatialGradients I data i := by
  have hrow : ∀ i', opRow (translate I t) i' = opRow I i' := by
    intro i'; unfold opRow; rw [offRow_translate]
  have hg : ∀ k, gradAdj (translate I t) k = gradAdj I k := by
    intro k; unfold gradAdj; simp only [hrow]; rfl
  exact ⟨hrow i, by unfold spatialGradients; simp only [hg]⟩

/-- **C15, why the exact model cannot see absolute-position formulas.**  Over every field the moment tensor
    `Σ_j s_j (x_j − x_i) ⊗ (x_j − x_i)` equals its expansion in ABSOLUTE positions
    `Σ_j s_j x_j ⊗ x_j − (Σ_j s_j x_j) ⊗ x_i − x_i ⊗ (Σ_j s_j x_j) + (Σ_j s_j) x_i ⊗ x_i`.
    A rewrite of femio along this identity is invisible to any exact-rational comparison and loses
    `(max|x| / h)²` in binary64; it is caught by the oracle on translated meshes only (seeded change C15-5). -/
theorem C15_moment_expanded (s : Nat → K) (x : Nat → V3 K) (xi : V3 K) (l : List Nat) :
    sumM (l.map fun j => msmul (s j) (outer (V3.sub (x j) xi) (V3.sub (x j) xi)))
      = madd (madd (sumM (l.map fun j => msmul (s j) (outer (x j) (x j))))
                   (msmul (-1) (madd (outer (sumV (l.map fun j => smul (s j) (x j))) xi)
                                     (outer xi (sumV (l.map fun j => smul (s j) (x j)))))))
             (msmul (sumR (l.map s)) (outer xi xi)) := by
  induction l with
  | nil =>
    obtain ⟨a, b, c⟩ := xi
    simp [madd, msmul, outer, mzero, vzero, V3.add, smul]
  | cons h t ih =>
    simp only [List.map_cons, sumM_cons, sumV_cons, sumR_cons, ih]
    generalize sumM (t.map fun j => msmul (s j) (outer (x j) (x j))) = A
    generalize sumV (t.map fun j => smul (s j) (x j)) = v
    generalize sumR (t.map s) = r
    obtain ⟨⟨a00, a01, a02⟩, ⟨a10, a11, a12⟩, ⟨a20, a21, a22⟩⟩ := A
    obtain ⟨v0, v1, v2⟩ := v
    obtain ⟨c0, c1, c2⟩ := xi
    generalize x h = xh
    obtain ⟨p0, p1, p2⟩ := xh
    simp only [madd, msmul, outer, V3.add, V3.sub, smul, M3.mk.injEq, V3.mk.injEq]
    refine ⟨⟨?_, ?_, ?_⟩, ⟨?_, ?_, ?_⟩, ⟨?_, ?_, ?_⟩⟩ <;> ring

/-! ### the weights of a vertex matter only up to a common factor (graded meshes, round-4 class J) -/

/-- the same input with the weights of every row `i` multiplied by `c i` (volume weighting on a graded mesh: the
    neighbour volumes of a vertex of the fine region are `(h_fine / h_coarse)³` times those of a vertex of the coarse
    region) -/
def scaleW (I : Inp K) (c : Nat → K) : Inp K := { I with w := fun i j => c i * I.w i j }

theorem sq_scaleW (I : Inp K) (c : Nat → K) (i j : Nat) : Gradient.sq (scaleW I c) i j = c i * Gradient.sq I i j := by
  simp only [Gradient.sq, scaleW, dvec, mul_div_assoc]

theorem sumM_msmul (k : K) (s : Nat → K) (d : Nat → V3 K) (l : List Nat) :
    sumM (l.map fun j => msmul (k * s j) (outer (d j) (d j)))
      = msmul k (sumM (l.map fun j => msmul (s j) (outer (d j) (d j)))) := by
  induction l with
  | nil => simp [msmul, mzero, vzero, smul]
  | cons h t ih =>
    simp only [List.map_cons, sumM_cons, ih]
    generalize sumM (t.map fun j => msmul (s j) (outer (d j) (d j))) = T
    obtain ⟨⟨t00, t01, t02⟩, ⟨t10, t11, t12⟩, ⟨t20, t21, t22⟩⟩ := T
    generalize d h = dh
    obtain ⟨d0, d1, d2⟩ := dh
    simp only [madd, msmul, outer, V3.add, smul, M3.mk.injEq, V3.mk.injEq]
    refine ⟨⟨?_, ?_, ?_⟩, ⟨?_, ?_, ?_⟩, ⟨?_, ?_, ?_⟩⟩ <;> ring

theorem momentAt_scaleW (I : Inp K) (c : Nat → K) (i : Nat) :
    momentAt (scaleW I c) i = msmul (c i) (momentAt I i) := by
  have h := sumM_msmul (c i) (Gradient.sq I i) (dvec I i) (I.nbrs i)
  simp only [momentAt, sq_scaleW]
  exact h

theorem det3_msmul (k : K) (M : M3 K) : det3 (msmul k M) = k ^ 3 * det3 M := by
  obtain ⟨⟨m00, m01, m02⟩, ⟨m10, m11, m12⟩, ⟨m20, m21, m22⟩⟩ := M
  simp only [det3, V3.det, msmul, smul]
  ring

theorem scale_div (k N D : K) (hk : k ≠ 0) : k ^ 2 * N / (k ^ 3 * D) = k⁻¹ * (N / D) := by
  by_cases hD : D = 0
  · simp [hD]
  · field_simp

/-- `inv (k M) = k⁻¹ inv M` for the adjugate / determinant inverse, `k ≠ 0` (also when `M` is singular: both sides are
    the totalised `adj / 0 = 0`) -/
theorem inv3_msmul (k : K) (hk : k ≠ 0) (M : M3 K) : inv3 (msmul k M) = msmul k⁻¹ (inv3 M) := by
  have hd := det3_msmul k M
  obtain ⟨⟨m00, m01, m02⟩, ⟨m10, m11, m12⟩, ⟨m20, m21, m22⟩⟩ := M
  generalize hD : det3 (⟨⟨m00, m01, m02⟩, ⟨m10, m11, m12⟩, ⟨m20, m21, m22⟩⟩ : M3 K) = D at hd
  have e : ∀ N : K, k ^ 2 * N / (k ^ 3 * D) = k⁻¹ * (N / D) := fun N => scale_div k N D hk
  unfold inv3
  rw [hd, hD]
  simp only [adj3, vdiv, msmul, smul, cross, M3.mk.injEq, V3.mk.injEq]
  refine ⟨⟨?_, ?_, ?_⟩, ⟨?_, ?_, ?_⟩, ⟨?_, ?_, ?_⟩⟩ <;> rw [← e] <;> congr 1 <;> ring

theorem offRow_scaleW (I : Inp K) (c : Nat → K) (hc : ∀ i, c i ≠ 0) (i : Nat) :
    offRow (scaleW I c) i = offRow I i := by
  unfold offRow
  have hm : (scaleW I c).moment = I.moment := rfl
  have hn : (scaleW I c).nbrs = I.nbrs := rfl
  have hdv : ∀ j, dvec (scaleW I c) i j = dvec I i j := fun _ => rfl
  rw [hm, hn]
  by_cases hmo : I.moment = true
  · simp only [hmo, if_true, momentAt_scaleW, inv3_msmul (c i) (hc i), sq_scaleW, hdv]
    apply List.map_congr_left
    intro j _
    generalize inv3 (momentAt I i) = B
    generalize Gradient.sq I i j = s
    generalize dvec I i j = d
    obtain ⟨⟨b00, b01, b02⟩, ⟨b10, b11, b12⟩, ⟨b20, b21, b22⟩⟩ := B
    obtain ⟨d0, d1, d2⟩ := d
    have := hc i
    simp only [Prod.mk.injEq, true_and]
    apply v3_ext <;> simp only [mulVec, msmul, smul, dot] <;> field_simp
  · simp only [hmo, Bool.false_eq_true, if_false, hdv]
    have hsw : sumW (scaleW I c) i = c i * sumW I i := by
      unfold sumW
      rw [hn]
      show sumR ((I.nbrs i).map fun j => c i * I.w i j) = c i * sumR ((I.nbrs i).map (I.w i))
      induction I.nbrs i with
      | nil => simp
      | cons h t ih => simp only [List.map_cons, sumR_cons, ih]; ring
    rw [hsw]
    apply List.map_congr_left
    intro j _
    have hw : (scaleW I c).w i j = c i * I.w i j := rfl
    rw [hw]
    have := hc i
    congr 2
    by_cases hs : sumW I i = 0
    · simp [hs]
    · field_simp

/-- **C15, the weights of a vertex matter only up to a common non-zero factor.**  Multiplying all weights `w_ij` of row
    `i` by `c_i ≠ 0` changes neither any operator row nor what the convenience functions return (every variant), while the
    determinant of the moment matrix is multiplied by `c_i³`.  With volume weighting `c_i` is of the order of the local
    cell volume `h_i³`, so on a graded mesh `det M_i ∼ h_i⁹` varies by `ratio⁹` between vertices whose operator rows are
    equally well determined: the SIZE of `det M_i` relative to other vertices says nothing about whether a neighbourhood
    spans space (seeded change C15-8 zeroed the rows with `|det M_i| < 1e-10 · max_k |det M_k|`, i.e. every vertex of a
    region refined more than 13 : 1).  The exactness theorem needs `det M_i ≠ 0` only, which is invariant. -/
theorem C15_row_weight_scale (I : Inp K) (c : Nat → K) (hc : ∀ i, c i ≠ 0) (data : Nat → K) (i : Nat) :
    opRow (scaleW I c) i = opRow I i
      ∧ spatialGradients (scaleW I c) data i = spatialGradients I data i
      ∧ det3 (momentAt (scaleW I c) i) = c i ^ 3 * det3 (momentAt I i)
      ∧ (det3 (momentAt (scaleW I c) i) ≠ 0 ↔ det3 (momentAt I i) ≠ 0) := by
  have hrow : ∀ i', opRow (scaleW I c) i' = opRow I i' := by
    intro i'; unfold opRow; rw [offRow_scaleW I c hc]
  have hg : ∀ k, gradAdj (scaleW I c) k = gradAdj I k := by
    intro k; unfold gradAdj; simp only [hrow]; rfl
  have hdet : det3 (momentAt (scaleW I c) i) = c i ^ 3 * det3 (momentAt I i) := by
    rw [momentAt_scaleW, det3_msmul]
  refine ⟨hrow i, by unfold spatialGradients; simp only [hg], hdet, ?_⟩
  rw [hdet]
  simp [hc i]

/-! ### integer-typed fields (round-4 class F): what an output array of the input's dtype loses -/

/-- numpy's conversion of a float to an integer dtype on assignment: truncation toward zero -/
def truncQ (q : ℚ) : ℚ := ((Int.tdiv q.num q.den : ℤ) : ℚ)
def truncV (v : V3 ℚ) : V3 ℚ := ⟨truncQ v.x, truncQ v.y, truncQ v.z⟩

theorem truncQ_int (n : ℤ) : truncQ (n : ℚ) = n := by
  simp [truncQ]

/-- **C15, integer-valued affine fields.**  For an affine field with integer slope `a`, given as integers (`f_j = a·x_j + b`
    evaluated in ℤ on integer-valued positions), the moment-corrected gradient is exactly the integer vector `a`: over ℚ
    an output array of the INPUT's integer dtype (truncation on assignment, seeded change C15-7) loses nothing on such a
    field.  Hence the exact model cannot see that change on affine fields; what reveals it is binary64 rounding
    (`15.999999999999998 → 15`: oracle, integer-typed arrays) or any non-affine integer field
    (`example` below: the truncated result differs from the explicit matrices applied by hand). -/
theorem C15_integer_affine_field (I : Inp ℚ) (hm : I.moment = true) (i : Nat) (hi : i < I.n)
    (hdet : IsUnit (toMatrix (momentAt I i)).det) (P : Nat → V3 ℤ)
    (hP : ∀ j, I.pos j = ⟨((P j).x : ℚ), ((P j).y : ℚ), ((P j).z : ℚ)⟩) (a : V3 ℤ) (b : ℤ) :
    spatialGradients I (fun j => ((a.x * (P j).x + a.y * (P j).y + a.z * (P j).z + b : ℤ) : ℚ)) i
        = ⟨(a.x : ℚ), (a.y : ℚ), (a.z : ℚ)⟩
      ∧ truncV (spatialGradients I (fun j => ((a.x * (P j).x + a.y * (P j).y + a.z * (P j).z + b : ℤ) : ℚ)) i)
        = spatialGradients I (fun j => ((a.x * (P j).x + a.y * (P j).y + a.z * (P j).z + b : ℤ) : ℚ)) i := by
  have hf : (fun j => ((a.x * (P j).x + a.y * (P j).y + a.z * (P j).z + b : ℤ) : ℚ))
      = fun j => dot (⟨(a.x : ℚ), (a.y : ℚ), (a.z : ℚ)⟩ : V3 ℚ) (I.pos j) + (b : ℚ) := by
    funext j
    rw [hP j]
    simp only [dot]
    push_cast
    ring
  have h := C15_affine_exact I hm i hi hdet ⟨(a.x : ℚ), (a.y : ℚ), (a.z : ℚ)⟩ (b : ℚ)
  rw [hf, h]
  exact ⟨rfl, by simp only [truncV, truncQ_int]⟩

/-! ### non-vacuity: a boundary vertex (corner) with three neighbours and unequal weights -/

/-- vertex 0 at the origin, neighbours at `(1,0,0)`, `(0,2,0)`, `(1,1,3)`; weights 1, 2, 5 -/
def I0 (moment : Bool) : Inp ℚ where
  n := 4
  pos := fun j => match j with | 0 => ⟨0, 0, 0⟩ | 1 => ⟨1, 0, 0⟩ | 2 => ⟨0, 2, 0⟩ | _ => ⟨1, 1, 3⟩
  nbrs := fun i => (List.range 4).filter (· != i)
  w := fun _ j => match j with | 1 => 1 | 2 => 2 | 3 => 5 | _ => 7
  moment := moment

example : IsUnit (toMatrix (momentAt (I0 true) 0)).det := by
  rw [← det3_eq_det, isUnit_iff_ne_zero]; decide +kernel
example : spatialGradients (I0 true) (fun j => dot ⟨2, -3, 5⟩ ((I0 true).pos j) + 11) 0 = ⟨2, -3, 5⟩ := by
  decide +kernel
example : spatialGradients (I0 false) (fun _ => 11) 0 = vzero ∧ spatialGradients (I0 true) (fun _ => 11) 3 = vzero := by
  decide +kernel
/-- without the correction the gradient of an affine field is *not* exact on this vertex -/
example : spatialGradients (I0 false) (fun j => dot ⟨2, -3, 5⟩ ((I0 false).pos j) + 11) 0 ≠ ⟨2, -3, 5⟩ := by
  decide +kernel

/-- translation invariance on the corner example: every row and the gradient of a non-affine field are unchanged by a
    large translation -/
example : opRow (translate (I0 true) ⟨431250, 3912500, 128⟩) 0 = opRow (I0 true) 0
    ∧ spatialGradients (translate (I0 false) ⟨431250, 3912500, 128⟩) (fun j => (j : ℚ) * j) 3
        = spatialGradients (I0 false) (fun j => (j : ℚ) * j) 3 := by
  decide +kernel
/-- the expansion on concrete data (both sides are the same non-zero matrix) -/
example : sumM ([1, 2, 3].map fun j => msmul ((I0 true).w 0 j) (outer (V3.sub ((I0 true).pos j) ⟨5, 7, 9⟩) (V3.sub ((I0 true).pos j) ⟨5, 7, 9⟩)))
    ≠ (mzero : M3 ℚ) := by
  decide +kernel

/-- row-wise rescaling of the weights on the corner example: vertex 0's weights divided by 10⁹ (a vertex of a region refined
    1000 : 1 under volume weighting), vertex 3's multiplied by 7: same rows, determinant of vertex 0 smaller by 10²⁷ -/
example : opRow (scaleW (I0 true) fun i => if i = 0 then 1 / 1000000000 else 7) 0 = opRow (I0 true) 0
    ∧ opRow (scaleW (I0 false) fun i => if i = 0 then 1 / 1000000000 else 7) 3 = opRow (I0 false) 3
    ∧ det3 (momentAt (scaleW (I0 true) fun i => if i = 0 then 1 / 1000000000 else 7) 0) * 1000000000 ^ 3
        = det3 (momentAt (I0 true) 0) := by
  decide +kernel

/-- a NON-affine integer (even Boolean) field, the indicator of vertex 2, on the corner example: the gradient (= the explicit
    matrices applied by hand) is `(0, 1/2, -1/6)`; an output array of the input's integer dtype holds `(0, 0, 0)` -/
example : spatialGradients (I0 true) (fun j => if j = 2 then 1 else 0) 0 = ⟨0, 1 / 2, -1 / 6⟩
    ∧ applyRow (opRow (I0 true) 0) (fun j => if j = 2 then 1 else 0) = ⟨0, 1 / 2, -1 / 6⟩
    ∧ truncV ⟨0, 1 / 2, -1 / 6⟩ = ⟨0, 0, 0⟩ := by
  decide +kernel

/-! ### round 6: the SIZE of the weights (absolute length unit x kernel options) and results returned by earlier calls -/

/-- **C15, tiny kernel weights: the operator is unchanged, the determinant is not representable.**  The corner example with
    all weights multiplied by `10⁻¹⁰⁹` (kernel `exp`, default `alpha`, millimetre coordinates with 250 mm elements): every
    entry of the moment matrix of vertex 0 is still far above the smallest normal binary64 number (`> 10⁻³⁰⁸`) and the operator
    row is the SAME row (`C15_row_weight_scale`), but `det M_0` - positive, so the neighbourhood spans space - lies below
    `10⁻³⁰⁸`: a closed-form inverse `adj / det` evaluated in binary64 (seeded change C15-11) divides by a subnormal number
    or reports "singular", although nothing about the vertex is degenerate.  Over `ℚ` (this model, the driver) the closed
    form is exact whatever the size of the weights, which is why only the oracle (stream kernel-scale) can see such a change. -/
theorem C15_det_underflow_counterexample :
    let c : Nat → ℚ := fun _ => 1 / 10 ^ 109
    let M := momentAt (scaleW (I0 true) c) 0
    opRow (scaleW (I0 true) c) 0 = opRow (I0 true) 0
      ∧ 0 < det3 (momentAt (I0 true) 0)
      ∧ 0 < det3 M ∧ det3 M < 1 / 10 ^ 308
      ∧ 1 / 10 ^ 200 < M.r0.x ∧ 1 / 10 ^ 200 < M.r1.y ∧ 1 / 10 ^ 200 < M.r2.z := by
  decide +kernel

/-- what a caller holds after some calls of a convenience function: the arrays returned so far (a call returns the index of
    its array).  femio as it is: every call allocates a new array (`np.stack`). -/
def callFresh {α : Type} (held : List α) (v : α) : List α × Nat := (held ++ [v], held.length)

/-- seeded change C15-12: the result is assembled in ONE work array kept on the object and that array is returned (all
    results of one shape and dtype are the same array) -/
def callWork {α : Type} (held : List α) (v : α) : List α × Nat :=
  match held with
  | [] => ([v], 0)
  | _ :: t => (v :: t, 0)

def callsFresh {α : Type} (held : List α) (vs : List α) : List α := vs.foldl (fun h v => (callFresh h v).1) held

/-- **C15, results are values.**  With a fresh array per call, whatever calls follow, every array returned earlier still
    holds what was returned (so it still equals the true gradient / the explicit matrices applied by hand to ITS field), and
    a call returns its own value. -/
theorem C15_held_results_stable {α : Type} (held : List α) (vs : List α) (k : Nat) (hk : k < held.length) (v : α) :
    (callsFresh held vs)[k]? = held[k]? ∧ (callFresh held v).1[(callFresh held v).2]? = some v := by
  constructor
  · induction vs generalizing held with
    | nil => rfl
    | cons w ws ih =>
      have hk' : k < (held ++ [w]).length := by simp; omega
      have := ih (held ++ [w]) hk'
      simp only [callsFresh, List.foldl_cons, callFresh] at this ⊢
      rw [this, List.getElem?_append_left hk]
  · simp [callFresh]

/-- the work-array variant: each call is right when it returns, but the array returned for the first field holds the
    gradient of the second field afterwards -/
theorem C15_work_array_counterexample :
    let h1 := callWork ([] : List (List ℚ)) [2, -3, 5]
    let h2 := callWork h1.1 [7, 0, 1]
    h1.1[h1.2]? = some [2, -3, 5] ∧ h2.1[h2.2]? = some [7, 0, 1] ∧ h2.1[h1.2]? ≠ h1.1[h1.2]? := by
  decide

end Femio.C15
