import Femio.Model.GraphOps
import Femio.Gen.Tables
import Femio.Lemmas.CoreProps
import Femio.Lemmas.GraphProps
import Mathlib.Algebra.BigOperators.Group.List.Basic
import Mathlib.Tactic.Ring

/-! C13 — mesh graph matrices equal their combinatorial definitions.  Property theorems. -/
namespace Femio.C13
open Core Graph

/-! ### incidence -/

/-- **C13_incidence** (uniform and mixed branch at once): with distinct node ids and distinct element ids,
`(i, j)` is an entry of the incidence matrix iff the node *stored at position* `i` belongs to the `j`-th
element of the flattened (id-sorted when mixed) element list. -/
theorem C13_incidence (nodeIds : List Id) (blocks : List (List Elem))
    (hn : nodeIds.Nodup) (he : (blocks.flatten.map Elem.id).Nodup) (i j : Nat) :
    (i, j) ∈ incidenceOpt false nodeIds blocks ↔
      ∃ (hi : i < nodeIds.length) (hj : j < (flatten blocks).length), nodeIds[i] ∈ ((flatten blocks)[j]).conn := by
  simpa [incidenceOpt] using incidence_spec nodeIds blocks hn he i j

theorem order1Blocks_ids (blocks : List (List Elem)) :
    (order1Blocks blocks).flatten.map Elem.id = blocks.flatten.map Elem.id := by
  induction blocks with
  | nil => rfl
  | cons b t ih =>
    simp only [order1Blocks, List.map_cons, List.flatten_cons, List.map_append] at ih ⊢
    rw [ih]; simp [Function.comp_def]

/-- **C13_incidence_order1**: with `order1_only`, rows are positions in the list of first-order nodes
(the nodes kept by `filter_first_order_nodes`, in storage order) and membership is in the corner
connectivity. -/
theorem C13_incidence_order1 (nodeIds : List Id) (blocks : List (List Elem))
    (hn : nodeIds.Nodup) (he : (blocks.flatten.map Elem.id).Nodup) (i j : Nat) :
    (i, j) ∈ incidenceOpt true nodeIds blocks ↔
      ∃ (hi : i < (order1Nodes nodeIds blocks).length) (hj : j < (flatten (order1Blocks blocks)).length),
        (order1Nodes nodeIds blocks)[i] ∈ ((flatten (order1Blocks blocks))[j]).conn := by
  have hn' : (order1Nodes nodeIds blocks).Nodup := by
    unfold order1Nodes; split
    · exact hn
    · exact hn.filter _
  have he' : ((order1Blocks blocks).flatten.map Elem.id).Nodup := by rw [order1Blocks_ids]; exact he
  simpa [incidenceOpt] using incidence_spec _ _ hn' he' i j

/-- the second-order test `'2' in t` on the generated `ELEMENT_TYPES` table -/
theorem C13_isSecond_table :
    (List.range Femio.Gen.elementTypes.length).all
      (fun k => isSecond k == (Femio.Gen.elementTypes.getD k []).contains '2') = true := by decide

example : (1, 1) ∈ incidenceOpt false [7, 3, 9] [[⟨5, 8, [3, 9]⟩], [⟨2, 14, [7]⟩]] := by decide

/-! ### adjacency -/

/-- **C13_adjacency** (elements): two elements are adjacent iff some node row is incident to both. -/
theorem C13_adjacency_elem (nNode : Nat) (I : BMat) (j k : Nat) :
    adjElem nNode I j k = true ↔ ∃ i, i < nNode ∧ I i j = true ∧ I i k = true := by
  simp [adjElem, List.any_eq_true, List.mem_range]

/-- **C13_adjacency** (nodes): two nodes are adjacent iff some element column is incident to both. -/
theorem C13_adjacency_node (nElem : Nat) (I : BMat) (i l : Nat) :
    adjNode nElem I i l = true ↔ ∃ j, j < nElem ∧ I i j = true ∧ I l j = true := by
  simp [adjNode, List.any_eq_true, List.mem_range]

theorem incB_iff (inc : List (Nat × Nat)) (i j : Nat) : incB inc i j = true ↔ (i, j) ∈ inc := by
  simp [incB]

/-! ### n-hop -/

theorem M.get_ofFn (n : Nat) (f : BMat) (i j : Nat) (hi : i < n) (hj : j < n) : (M.ofFn n f).get i j = f i j := by
  simp [M.get, M.ofFn, hi, hj]

theorem mul_congr (n : Nat) (A A' B B' : BMat) (hA : ∀ i k, i < n → k < n → A i k = A' i k)
    (hB : ∀ k j, k < n → j < n → B k j = B' k j) (i j : Nat) (hi : i < n) (hj : j < n) :
    mul n A B i j = mul n A' B' i j := by
  unfold mul
  apply Bool.eq_iff_iff.mpr
  simp only [List.any_eq_true, List.mem_range, Bool.and_eq_true]
  constructor
  · rintro ⟨k, hk, h1, h2⟩; exact ⟨k, hk, by rw [← hA i k hi hk]; exact h1, by rw [← hB k j hk hj]; exact h2⟩
  · rintro ⟨k, hk, h1, h2⟩; exact ⟨k, hk, by rw [hA i k hi hk]; exact h1, by rw [hB k j hk hj]; exact h2⟩

theorem nHopAuxM_refines (n : Nat) (A : BMat) (h : Nat) :
    ∀ i j, i < n → j < n →
      (nHopAuxM n (M.ofFn n A) h).1.get i j = (nHopAux n A h).1 i j ∧
      (nHopAuxM n (M.ofFn n A) h).2.get i j = (nHopAux n A h).2 i j := by
  induction h with
  | zero => intro i j hi hj; simp [nHopAuxM, nHopAux, M.get_ofFn n A i j hi hj]
  | succ h ih =>
    intro i j hi hj
    have hpw : ∀ i j, i < n → j < n →
        (M.ofFn n (mul n (nHopAuxM n (M.ofFn n A) h).2.get (M.ofFn n A).get)).get i j
          = mul n (nHopAux n A h).2 A i j := by
      intro i j hi hj
      rw [M.get_ofFn _ _ _ _ hi hj]
      exact mul_congr n _ _ _ _ (fun a b ha hb => (ih a b ha hb).2) (fun a b ha hb => M.get_ofFn n A a b ha hb) i j hi hj
    simp only [nHopAuxM, nHopAux]
    refine ⟨?_, hpw i j hi hj⟩
    rw [M.get_ofFn _ _ _ _ hi hj]
    simp only [add]
    rw [(ih i j hi hj).1, hpw i j hi hj]

/-- **C13_nhop_reach**: the materialised n-hop adjacency (what the driver computes and the harness compares
with `calculate_n_hop_adj`) is reachability within `hops` steps of the adjacency graph. -/
theorem C13_nhop_reach (n : Nat) (A : BMat) (hops : Nat) (hh : 1 ≤ hops) (i j : Nat) (hi : i < n) (hj : j < n) :
    (nHopM n A hops).get i j = true ↔ ∃ k, 1 ≤ k ∧ k ≤ hops ∧ Walk n A k i j := by
  unfold nHopM
  rw [(nHopAuxM_refines n A (hops - 1) i j hi hj).1]
  exact nHop_reach n A hops hh i j

example : (nHopM 3 (fun i j => (i, j) ∈ [(0, 1), (1, 0), (1, 2), (2, 1)]) 2).get 0 2 = true := by decide

/-- **C13_nhop_mono**: reachability within `h` steps implies reachability within any larger number of steps — a
query for a SMALLER hop count may never be answered from a larger one computed earlier on the same object
(the converse direction is the content of this implication being strict in general, see the example below). -/
theorem C13_nhop_mono (n : Nat) (A : BMat) (h h' : Nat) (h1 : 1 ≤ h) (hh : h ≤ h') (i j : Nat) (hi : i < n) (hj : j < n)
    (hr : (nHopM n A h).get i j = true) : (nHopM n A h').get i j = true := by
  rw [C13_nhop_reach n A h h1 i j hi hj] at hr
  rw [C13_nhop_reach n A h' (by omega) i j hi hj]
  obtain ⟨k, k1, k2, w⟩ := hr
  exact ⟨k, k1, by omega, w⟩

/-- strictness: on the path 0 – 1 – 2 vertex 2 is within 2 hops of vertex 0 but not within 1 -/
example : let A : BMat := fun i j => (i, j) ∈ [(0, 1), (1, 0), (1, 2), (2, 1)]
    (nHopM 3 A 2).get 0 2 = true ∧ (nHopM 3 A 1).get 0 2 = false := by decide

/-- **C13_nhop_selfloop_diag**: a vertex with its self loop in the adjacency (every element; every referenced node)
has diagonal entry exactly `0` in the self-loop-free n-hop matrix for EVERY hop count `≥ 1` — also when it is an
isolated single-element component — and off the diagonal the self-loop-free matrix is the 0/1 reachability. -/
theorem C13_nhop_selfloop_diag (n : Nat) (A : BMat) (hops : Nat) (hh : 1 ≤ hops) (i : Nat) (hi : i < n)
    (hA : A i i = true) :
    nHopEntry (nHopM n A hops) false i i = 0 ∧
    ∀ j, j ≠ i → nHopEntry (nHopM n A hops) false i j = if (nHopM n A hops).get i j then 1 else 0 := by
  constructor
  · have : (nHopM n A hops).get i i = true :=
      (C13_nhop_reach n A hops hh i i hi hi).mpr ⟨1, le_refl _, hh, Walk.one hA⟩
    simp [nHopEntry, this]
  · intro j hj
    have : i ≠ j := fun h => hj h.symm
    simp [nHopEntry, this]

example : nHopEntry (nHopM 3 (fun i j => i == j || (i, j) ∈ [(0, 1), (1, 0)]) 2) false 2 2 = 0 := by decide

theorem walk_succ_inv {n : Nat} {A : BMat} {k i j : Nat} (hk : 1 ≤ k) (w : Walk n A (k + 1) i j) :
    ∃ m, m < n ∧ Walk n A k i m ∧ A m j = true := by
  cases w with
  | one _ => omega
  | snoc w' hm ha => exact ⟨_, hm, w', ha⟩

/-- **C13_nhop_step**: the recursive formulation on the previous level is correct when the previous level is the
full Boolean reachability (self loops as the adjacency has them): `R_{h+1} = R_h ∨ R_h · A`. -/
theorem C13_nhop_step (n : Nat) (A : BMat) (h : Nat) (h1 : 1 ≤ h) (i j : Nat) (hi : i < n) (hj : j < n) :
    (nHopM n A (h + 1)).get i j = ((nHopM n A h).get i j || mul n (nHopM n A h).get A i j) := by
  apply Bool.eq_iff_iff.mpr
  rw [C13_nhop_reach n A (h + 1) (by omega) i j hi hj, Bool.or_eq_true, mul_true]
  constructor
  · rintro ⟨k, k1, k2, w⟩
    by_cases hk : k ≤ h
    · exact Or.inl ((C13_nhop_reach n A h h1 i j hi hj).mpr ⟨k, k1, hk, w⟩)
    · have hk' : k = h + 1 := by omega
      subst hk'
      obtain ⟨m, hm, w', ha⟩ := walk_succ_inv h1 w
      exact Or.inr ⟨m, hm, (C13_nhop_reach n A h h1 i m hi hm).mpr ⟨h, h1, le_refl _, w'⟩, ha⟩
  · rintro (hr | ⟨m, hm, hr, ha⟩)
    · obtain ⟨k, k1, k2, w⟩ := (C13_nhop_reach n A h h1 i j hi hj).mp hr
      exact ⟨k, k1, by omega, w⟩
    · obtain ⟨k, k1, k2, w⟩ := (C13_nhop_reach n A h h1 i m hi hm).mp hr
      exact ⟨k + 1, by omega, by omega, Walk.snoc w hm ha⟩

/-- when every vertex has its self loop the `R_h ∨` may be dropped: `R_{h+1} = R_h · A` -/
theorem C13_nhop_step_selfloops (n : Nat) (A : BMat) (hdiag : ∀ i, i < n → A i i = true) (h : Nat) (h1 : 1 ≤ h)
    (i j : Nat) (hi : i < n) (hj : j < n) :
    (nHopM n A (h + 1)).get i j = mul n (nHopM n A h).get A i j := by
  rw [C13_nhop_step n A h h1 i j hi hj]
  apply Bool.eq_iff_iff.mpr
  rw [Bool.or_eq_true, mul_true]
  constructor
  · rintro (hr | hm)
    · exact ⟨j, hj, hr, hdiag j hj⟩
    · exact hm
  · exact Or.inr

example : let A : BMat := fun i j => i == j || (i, j) ∈ [(0, 1), (1, 0), (1, 2), (2, 1)]
    (nHopM 3 A 2).get 0 2 = mul 3 (nHopM 3 A 1).get A 0 2 := by decide

/-- …but NOT when the previous level is the SELF-LOOP-FREE result (seeded change C13-6: the recursion forwards
`include_self_loop=False`): for an isolated single element (`n = 1`, `A = [[true]]`) extending the self-loop-free 1-hop
matrix by one hop and subtracting the identity gives `−1` on the diagonal, where `C13_nhop_selfloop_diag` demands `0`. -/
theorem C13_nhop_step_noloop_counterexample :
    let A : BMat := fun _ _ => true
    nHopEntry (nHopExtend 1 (nHopEntry (nHopM 1 A 1) false) A) false 0 0 = -1 ∧
    nHopEntry (nHopM 1 A 2) false 0 0 = 0 := by decide

/-! #### hop counts of 4 and more: composing reachability matrices (binary powering) -/

theorem walk_append {n : Nat} {A : BMat} {k1 k2 i m j : Nat} (w1 : Walk n A k1 i m) (hm : m < n)
    (w2 : Walk n A k2 m j) : Walk n A (k1 + k2) i j := by
  induction w2 with
  | one ha => exact Walk.snoc w1 hm ha
  | snoc _ hm' ha ih => exact Walk.snoc (ih w1 hm) hm' ha

theorem walk_split {n : Nat} {A : BMat} (k1 : Nat) (h1 : 1 ≤ k1) :
    ∀ (k2 : Nat), 1 ≤ k2 → ∀ {i j : Nat}, Walk n A (k1 + k2) i j → ∃ m, m < n ∧ Walk n A k1 i m ∧ Walk n A k2 m j := by
  intro k2 h2
  induction k2, h2 using Nat.le_induction with
  | base =>
    intro i j w
    obtain ⟨m, hm, w', ha⟩ := walk_succ_inv h1 w
    exact ⟨m, hm, w', Walk.one ha⟩
  | succ k2 h2 ih =>
    intro i j w
    have w' : Walk n A ((k1 + k2) + 1) i j := by simpa [Nat.add_assoc] using w
    obtain ⟨m', hm', w'', ha⟩ := walk_succ_inv (by omega) w'
    obtain ⟨m, hm, wa, wb⟩ := ih w''
    exact ⟨m, hm, wa, Walk.snoc wb hm' ha⟩

/-- **C13_nhop_add**: when every vertex has its self loop (every element; every referenced node), reachability within
`a + b` steps is the Boolean product of reachability within `a` and within `b` steps — what a formulation of
`calculate_n_hop_adj` by products of powers (binary powering, `O(log n_hop)` products) relies on.  Hop counts of 4 and more
are the first for which such a formulation can differ from the linear one (4 = 2 + 2 is the first squaring of a square). -/
theorem C13_nhop_add (n : Nat) (A : BMat) (hdiag : ∀ i, i < n → A i i = true) (a b : Nat) (ha : 1 ≤ a) (hb : 1 ≤ b)
    (i j : Nat) (hi : i < n) (hj : j < n) :
    (nHopM n A (a + b)).get i j = mul n (nHopM n A a).get (nHopM n A b).get i j := by
  apply Bool.eq_iff_iff.mpr
  rw [C13_nhop_reach n A (a + b) (by omega) i j hi hj, mul_true]
  constructor
  · rintro ⟨k, k1, k2, w⟩
    by_cases hk : k = 1
    · subst hk
      exact ⟨j, hj, (C13_nhop_reach n A a ha i j hi hj).mpr ⟨1, le_refl _, ha, w⟩,
        (C13_nhop_reach n A b hb j j hj hj).mpr ⟨1, le_refl _, hb, Walk.one (hdiag j hj)⟩⟩
    · -- k = ka + kb with 1 ≤ ka ≤ a, 1 ≤ kb ≤ b
      have hsplit : ∃ ka kb, 1 ≤ ka ∧ ka ≤ a ∧ 1 ≤ kb ∧ kb ≤ b ∧ k = ka + kb := by
        by_cases hka : k ≤ a
        · exact ⟨k - 1, 1, by omega, by omega, le_refl _, hb, by omega⟩
        · exact ⟨a, k - a, ha, le_refl _, by omega, by omega, by omega⟩
      obtain ⟨ka, kb, h1, h2, h3, h4, rfl⟩ := hsplit
      obtain ⟨m, hm, wa, wb⟩ := walk_split ka h1 kb h3 w
      exact ⟨m, hm, (C13_nhop_reach n A a ha i m hi hm).mpr ⟨ka, h1, h2, wa⟩,
        (C13_nhop_reach n A b hb m j hm hj).mpr ⟨kb, h3, h4, wb⟩⟩
  · rintro ⟨m, hm, hra, hrb⟩
    obtain ⟨ka, h1, h2, wa⟩ := (C13_nhop_reach n A a ha i m hi hm).mp hra
    obtain ⟨kb, h3, h4, wb⟩ := (C13_nhop_reach n A b hb m j hm hj).mp hrb
    exact ⟨ka + kb, by omega, by omega, walk_append wa hm wb⟩

/-- squaring: the `2a`-hop matrix is the Boolean square of the `a`-hop matrix (self loops present) -/
theorem C13_nhop_double (n : Nat) (A : BMat) (hdiag : ∀ i, i < n → A i i = true) (a : Nat) (ha : 1 ≤ a)
    (i j : Nat) (hi : i < n) (hj : j < n) :
    (nHopM n A (2 * a)).get i j = mul n (nHopM n A a).get (nHopM n A a).get i j := by
  have := C13_nhop_add n A hdiag a a ha ha i j hi hj
  rwa [← Nat.two_mul] at this

example : let A : BMat := fun i j => i == j || (i, j) ∈ [(0, 1), (1, 0), (1, 2), (2, 1), (2, 3), (3, 2)]
    (nHopM 4 A 3).get 0 3 = mul 4 (nHopM 4 A 1).get (nHopM 4 A 2).get 0 3 := by decide

/-- the path 0 – 1 – 2 – 3 – 4 with self loops (a strip of five elements) -/
def path5 : BMat := fun i j => i == j || i + 1 == j || j + 1 == i

/-- **C13_nhop_binary_power_counterexample** (seeded change C13-10): binary powering whose running power is updated
by `· adj` instead of being squared agrees with the definition for 1, 2 and 3 hops on every entry of the 5-path, and for
4 hops returns only the 3-hop matrix: the ends of the path, at distance exactly 4, are missing; with the squaring update
all hop counts 1..5 agree.  (Hop counts ≤ 3 and graphs of diameter ≤ 3 cannot tell the two apart.) -/
theorem C13_nhop_binary_power_counterexample :
    (∀ h ∈ [1, 2, 3], ∀ i ∈ List.range 5, ∀ j ∈ List.range 5,
        (nHopBin false 5 path5 h).get i j = (nHopM 5 path5 h).get i j) ∧
    (nHopBin false 5 path5 4).get 0 4 = false ∧ (nHopM 5 path5 4).get 0 4 = true ∧
    (∀ h ∈ [1, 2, 3, 4, 5], ∀ i ∈ List.range 5, ∀ j ∈ List.range 5,
        (nHopBin true 5 path5 h).get i j = (nHopM 5 path5 h).get i j) := by decide +kernel

/-! ### Laplacian -/

/-- **C13_laplacian_rowsum**: every row of the graph Laplacian sums to zero. -/
theorem C13_laplacian_rowsum (n : Nat) (A : BMat) (i : Nat) (hi : i < n) :
    ((List.range n).map (lapEntry n A i)).sum = 0 := by
  have key : ∀ (l : List Nat) (s : Int), l.Nodup → i ∈ l →
      (l.map (fun j => woLoop A i j - (if i = j then s else 0))).sum = (l.map (woLoop A i)).sum - s := by
    intro l s hnd hmem
    induction l with
    | nil => simp at hmem
    | cons a t ih =>
      rw [List.nodup_cons] at hnd
      simp only [List.map_cons, List.sum_cons]
      by_cases hia : i = a
      · subst hia
        have hnot : ∀ j ∈ t, (woLoop A i j - (if i = j then s else 0)) = woLoop A i j := by
          intro j hj; have : i ≠ j := fun h => hnd.1 (h ▸ hj); simp [this]
        rw [List.map_congr_left hnot]; simp; ring
      · have hmem' : i ∈ t := by
          rcases List.mem_cons.mp hmem with h | h
          · exact absurd h hia
          · exact h
        rw [ih hnd.2 hmem']; simp [hia]; ring
  unfold lapEntry
  rw [key (List.range n) _ List.nodup_range (List.mem_range.mpr hi)]
  ring

/-- off the diagonal the Laplacian is the adjacency -/
theorem C13_laplacian_offdiag (n : Nat) (A : BMat) (i j : Nat) (h : i ≠ j) :
    lapEntry n A i j = if A i j then 1 else 0 := by
  simp [lapEntry, woLoop, h]

/-- on the diagonal (of a vertex with its self loop, as `IᵀI` / `IIᵀ` give it) it is minus the number of neighbours -/
theorem C13_laplacian_diag (n : Nat) (A : BMat) (i : Nat) (hi : i < n) (hA : A i i = true) :
    lapEntry n A i i = - (((List.range n).filter fun j => j ≠ i ∧ A i j = true).length : Int) := by
  have key : ∀ (l : List Nat), l.Nodup →
      (l.map (woLoop A i)).sum = ((l.filter fun j => j ≠ i ∧ A i j = true).length : Int) - (if i ∈ l then 0 else 0) := by
    intro l hnd
    induction l with
    | nil => simp
    | cons a t ih =>
      rw [List.nodup_cons] at hnd
      simp only [List.map_cons, List.sum_cons, ih hnd.2, List.filter_cons]
      by_cases hai : a = i
      · subst hai; simp [woLoop, hA]
      · have hia : i ≠ a := fun h => hai h.symm
        by_cases hAa : A i a = true
        · simp [woLoop, hai, hia, hAa]; ring
        · simp [woLoop, hai, hia, hAa]
  simp only [lapEntry, woLoop, hA, if_true]
  rw [key _ List.nodup_range]
  simp

example : ((List.range 3).map (lapEntry 3 (fun i j => i == j || (i, j) ∈ [(0, 1), (1, 0)]) 0)) = [-1, 1, 0] := by decide

/-! ### edge gradient and edge-to-vertex aggregation -/

theorem mem_gradEdges (n : Nat) (A : BMat) (r c : Nat) :
    (r, c) ∈ gradEdges n A ↔ r < c ∧ c < n ∧ A r c = true := by
  simp only [gradEdges, List.mem_flatMap, List.mem_range, List.mem_filterMap]
  constructor
  · rintro ⟨r', hr', c', hc', h⟩
    split at h
    · rename_i hcond
      simp only [Bool.and_eq_true, decide_eq_true_eq] at hcond
      cases h; exact ⟨hcond.1, hc', hcond.2⟩
    · cases h
  · rintro ⟨h1, h2, h3⟩
    exact ⟨r, by omega, c, h2, by simp [h1, h3]⟩

theorem nodup_rowmajor {β : Type} (n : Nat) (f : Nat → Nat → Option β) (g : β → Nat × Nat)
    (hg : ∀ i j b, f i j = some b → g b = (i, j)) :
    ((List.range n).flatMap fun i => (List.range n).filterMap fun j => f i j).Nodup := by
  have hinj : ∀ (l : List Nat), l.Nodup → (l.flatMap fun i => (List.range n).filterMap fun j => f i j).Nodup := by
    intro l hl
    induction l with
    | nil => simp
    | cons a t ih =>
      rw [List.nodup_cons] at hl
      simp only [List.flatMap_cons]
      rw [List.nodup_append]
      refine ⟨?_, ih hl.2, ?_⟩
      · have : ∀ (m : List Nat), m.Nodup → (m.filterMap fun j => f a j).Nodup := by
          intro m hm
          induction m with
          | nil => simp
          | cons x xs ihx =>
            rw [List.nodup_cons] at hm
            simp only [List.filterMap_cons]
            cases hfx : f a x with
            | none => simpa [hfx] using ihx hm.2
            | some b =>
              simp only [hfx]
              rw [List.nodup_cons]
              refine ⟨?_, ihx hm.2⟩
              intro hb
              obtain ⟨y, hy, hfy⟩ := List.mem_filterMap.mp hb
              have h1 := hg a x b hfx
              have h2 := hg a y b hfy
              have : x = y := by rw [h1] at h2; exact (Prod.mk.inj h2).2
              exact hm.1 (this ▸ hy)
        exact this _ List.nodup_range
      · intro b hb1 b' hb2 hbb
        subst hbb
        obtain ⟨x, _, hfx⟩ := List.mem_filterMap.mp hb1
        obtain ⟨a', ha', hb3⟩ := List.mem_flatMap.mp hb2
        obtain ⟨y, _, hfy⟩ := List.mem_filterMap.mp hb3
        have h1 := hg a x b hfx
        have h2 := hg a' y b hfy
        have : a = a' := by rw [h1] at h2; exact (Prod.mk.inj h2).1
        exact hl.1 (this ▸ ha')
  exact hinj _ List.nodup_range

/-- **C13_edge_gradient**: the edge-gradient matrix has exactly one row (`+1` at `r`, `−1` at `c`) per pair
`r < c` joined by the adjacency — for a symmetric adjacency one row per undirected edge. -/
theorem C13_edge_gradient (n : Nat) (A : BMat) :
    (gradEdges n A).Nodup ∧ ∀ r c, (r, c) ∈ gradEdges n A ↔ r < c ∧ c < n ∧ A r c = true := by
  refine ⟨?_, mem_gradEdges n A⟩
  apply nodup_rowmajor n (fun r c => if r < c && A r c then some (r, c) else none) id
  intro i j b h
  split at h
  · cases h; rfl
  · cases h

/-- for a symmetric adjacency, an undirected edge `{a, b}` is represented exactly once -/
theorem C13_edge_gradient_undirected (n : Nat) (A : BMat) (hs : ∀ i j, A i j = A j i) (a b : Nat)
    (ha : a < n) (hb : b < n) (hab : a ≠ b) (hA : A a b = true) :
    ((a, b) ∈ gradEdges n A ∧ (b, a) ∉ gradEdges n A) ∨ ((b, a) ∈ gradEdges n A ∧ (a, b) ∉ gradEdges n A) := by
  simp only [mem_gradEdges]
  rcases Nat.lt_or_gt_of_ne hab with h | h
  · left; exact ⟨⟨h, hb, hA⟩, fun h' => by omega⟩
  · right; exact ⟨⟨h, ha, by rw [hs]; exact hA⟩, fun h' => by omega⟩

/-- **C13_e2v**: when every vertex has its self loop in the adjacency (every node touches an element /
every element has a node), the columns of the edge-to-vertex matrix are in one-to-one correspondence with
the directed edges `(i, j)`, `i ≠ j`, and column `(i, j)` has its single `1` in the row of its source `i`. -/
theorem C13_e2v (n : Nat) (A : BMat) (hdiag : ∀ i, i < n → A i i = true) :
    (e2vNonzeros n A false).Nodup ∧
    ∀ i j, (i, j) ∈ e2vNonzeros n A false ↔ i < n ∧ j < n ∧ i ≠ j ∧ A i j = true := by
  constructor
  · apply nodup_rowmajor n (fun i j => if (i ≠ j && A i j) || (i = j && !A i j) then some (i, j) else none) id
    intro i j b h
    split at h
    · cases h; rfl
    · cases h
  · intro i j
    simp only [e2vNonzeros, List.mem_flatMap, List.mem_range, List.mem_filterMap]
    constructor
    · rintro ⟨i', hi', j', hj', h⟩
      simp only [Bool.false_eq_true, if_false] at h
      split at h
      · rename_i hcond
        cases h
        simp only [Bool.or_eq_true, Bool.and_eq_true, decide_eq_true_eq, Bool.not_eq_true'] at hcond
        rcases hcond with ⟨h1, h2⟩ | ⟨h1, h2⟩
        · exact ⟨hi', hj', h1, h2⟩
        · subst h1; rw [hdiag _ hi'] at h2; cases h2
      · cases h
    · rintro ⟨hi, hj, hne, hA⟩
      exact ⟨i, hi, j, hj, by simp [hne, hA]⟩

/-- with self loops included the columns are all adjacency entries -/
theorem C13_e2v_selfloop (n : Nat) (A : BMat) (i j : Nat) :
    (i, j) ∈ e2vNonzeros n A true ↔ i < n ∧ j < n ∧ A i j = true := by
  simp only [e2vNonzeros, List.mem_flatMap, List.mem_range, List.mem_filterMap]
  constructor
  · rintro ⟨i', hi', j', hj', h⟩
    simp only [if_true] at h
    split at h
    · cases h; exact ⟨hi', hj', by assumption⟩
    · cases h
  · rintro ⟨hi, hj, hA⟩; exact ⟨i, hi, j, hj, by simp [hA]⟩

example : e2vNonzeros 2 (fun _ _ => true) false = [(0, 1), (1, 0)] ∧ gradEdges 2 (fun _ _ => true) = [(0, 1)] := by decide

/-- F13 (outside the property's quantifier, recorded): an isolated vertex (no self loop in `IIᵀ`) contributes
a spurious column, because `adj − I` has a `−1` on its diagonal. -/
theorem C13_e2v_isolated_vertex_column :
    e2vNonzeros 2 (fun i j => i == 0 && j == 0) false = [(1, 1)] := by decide

/-! ### histories of queries on one live object -/

theorem memoLookup_mem {κ' ν : Type} [DecidableEq κ'] (k : κ') (tbl : List (κ' × ν)) (v : ν)
    (h : memoLookup k tbl = some v) : (k, v) ∈ tbl := by
  induction tbl with
  | nil => simp [memoLookup] at h
  | cons a t ih =>
    obtain ⟨k', v'⟩ := a
    simp only [memoLookup] at h
    by_cases hk : k' = k
    · simp only [hk, if_true, Option.some.injEq] at h
      subst hk; subst h; exact List.mem_cons_self
    · simp only [hk, if_false] at h
      exact List.mem_cons_of_mem _ (ih h)

/-- the invariant the D-stream of the harness checks on the real code: every stored value is (still) the value of the
pure function at a key with that projection -/
def MemoSound {κ κ' ν : Type} (proj : κ → κ') (f : κ → ν) (tbl : List (κ' × ν)) : Prop :=
  ∀ e ∈ tbl, ∀ k, proj k = e.1 → e.2 = f k

/-- **C13_memo_history**: when the table is keyed on ALL of the key (`proj` injective: receiver and every option VALUE)
and stored values are never modified, every answer of every history — any order, any repeats, any capacity, hits,
misses and evictions alike — is the value of the pure function: the matrices of the model are the right expectation
for every call of a sequence on one live object. -/
theorem C13_memo_history {κ κ' ν : Type} [DecidableEq κ'] (proj : κ → κ') (hinj : Function.Injective proj)
    (f : κ → ν) (cap : Nat) (tbl : List (κ' × ν)) (hs : MemoSound proj f tbl) (ks : List κ) :
    memoRun proj f cap tbl ks = ks.map f := by
  induction ks generalizing tbl with
  | nil => rfl
  | cons k ks ih =>
    simp only [memoRun, List.map_cons]
    cases hl : memoLookup (proj k) tbl with
    | some v =>
      have hv : v = f k := hs _ (memoLookup_mem _ _ _ hl) k rfl
      simp only [memoQuery, hl]
      rw [ih tbl hs, hv]
    | none =>
      simp only [memoQuery, hl]
      rw [ih]
      intro e he k' hk'
      have he' := List.mem_of_mem_take he
      rcases List.mem_cons.mp he' with h | h
      · subst h
        simp only at hk' ⊢
        rw [hinj hk']
      · exact hs e h k' hk'

/-- from the empty table in particular -/
theorem C13_memo_history_fresh {κ κ' ν : Type} [DecidableEq κ'] (proj : κ → κ') (hinj : Function.Injective proj)
    (f : κ → ν) (cap : Nat) (ks : List κ) : memoRun proj f cap [] ks = ks.map f :=
  C13_memo_history proj hinj f cap [] (by intro e he; cases he) ks

example : memoRun (fun k : Nat × Bool => k) (fun k => if k.2 then k.1 + 1 else k.1) 1 []
    [(2, true), (2, false), (2, true), (2, true)] = [3, 2, 3, 3] := by decide

/-- a table keyed on part of the key only (the hop count but not `include_self_loop`; an option NAME but not its value)
answers a later query with the value of an earlier different one: the hypothesis `Function.Injective proj` is needed -/
theorem C13_memo_wrong_key_counterexample :
    memoRun (fun k : Nat × Bool => k.1) (fun k => if k.2 then k.1 + 1 else k.1) 4 [] [(2, true), (2, false)] = [3, 3] ∧
    [(2, true), (2, false)].map (fun k : Nat × Bool => if k.2 then k.1 + 1 else k.1) = [3, 2] := by decide

end Femio.C13
