import Femio.Model.SubMesh
import Femio.Lemmas.SubMeshProps
import Femio.Model.SubMeshTables
/-! # C09 — sub-mesh extraction keeps ids, values and geometry attached

Model: `Femio/Model/SubMesh.lean` (transcription of the eight operations of `femio/fem_data.py`).
Observation is id keyed: `Attr.lookup` (coordinates / a nodal variable at a node id), `FEM.elemAt`,
`FEM.nodalAt`, `FEM.elementalAt`.  The well-formedness hypotheses are explicit (`WF`, `EWF`, `Aligned`);
every statement is about an arbitrary successful call (`op … = .ok r`), `C09_cut_succeeds` and the
`…_succeeds` companions say when the call succeeds, so the error branches do not make anything vacuous. -/
namespace Femio.C09
open Core Femio.SubMesh

variable {α : Type}

/-- well-formed mesh: node ids pairwise distinct (`Nodup`), one coordinate row per node, element ids pairwise
    distinct over all blocks, type tags are indices into `ELEMENT_TYPES`, every referenced node exists -/
structure WF (m : FEM α) : Prop where
  nodeIds : m.nodes.ids.Nodup
  nodeLen : m.nodes.data.length = m.nodes.ids.length
  elemIds : IdsNodup m.elems.flatten
  types : TypesOk m.elems
  refs : ∀ e ∈ m.elems.flatten, ∀ n ∈ e.val, n ∈ m.nodes.ids

/-- elemental variables are id-unique tables with valid type tags -/
def EWF (m : FEM α) : Prop := ∀ kv ∈ m.elemental, IdsNodup kv.2.flatten ∧ TypesOk kv.2

/-- nodal variables stored in the mesh's own node order (the default stream of the generators) -/
def Aligned (m : FEM α) : Prop := ∀ kv ∈ m.nodal, kv.2.ids = m.nodes.ids ∧ kv.2.data.length = m.nodes.ids.length

/-- the clause "self-contained": every node an element refers to exists exactly once -/
def SelfContained (r : FEM α) : Prop :=
  r.nodes.ids.Nodup ∧ ∀ e ∈ r.elems.flatten, ∀ n ∈ e.val, n ∈ r.nodes.ids

/-- nodes of `r` are exactly the nodes its elements refer to -/
def NodesExactlyReferenced (r : FEM α) : Prop := ∀ n, n ∈ r.nodes.ids ↔ ∃ e ∈ r.elems.flatten, n ∈ e.val

/-- every node of `r` has the coordinates and the nodal-variable values it has in `m` -/
def NodeValuesKept (m r : FEM α) : Prop :=
  (∀ i ∈ r.nodes.ids, r.nodes.lookup i = m.nodes.lookup i ∧ (m.nodes.lookup i).isSome) ∧
  ∀ name, ∀ i ∈ r.nodes.ids, r.nodalAt name i = m.nodalAt name i

/-- every element of `r` is the element of `m` with that id (same type tag, same connectivity) and carries the
    same value of every elemental variable -/
def ElemValuesKept (m r : FEM α) : Prop :=
  (∀ e ∈ r.elems.flatten, m.elemAt e.id = some e ∧ r.elemAt e.id = some e) ∧
  ∀ name, ∀ e ∈ r.elems.flatten, r.elementalAt name e.id = m.elementalAt name e.id

theorem mem_connIds {blocks : EBlocks (List Id)} {n : Id} : n ∈ connIds blocks ↔ ∃ e ∈ blocks.flatten, n ∈ e.val := by
  simp [connIds, List.mem_flatMap]

/-! ## generic facts about `assemble` -/

theorem assemble_nodeValues {m r : FEM α} {nodeIds eids : List Id} (h : assemble m nodeIds eids = .ok r) :
    r.nodes.ids = nodeIds ∧ NodeValuesKept m r := by
  obtain ⟨h1, h2, _, _⟩ := assemble_ok h
  have hids := filterWithIds_ids h1
  refine ⟨hids, fun i hi => filterWithIds_lookup h1 (hids ▸ hi), fun name i hi => ?_⟩
  exact filterNodal_at h2 name (hids ▸ hi)

theorem assemble_elems {m r : FEM α} (hw : WF m) {nodeIds eids : List Id} (h : assemble m nodeIds eids = .ok r) :
    ∀ e, e ∈ r.elems.flatten ↔ e ∈ m.elems.flatten ∧ e.id ∈ eids := by
  obtain ⟨_, _, h3, _⟩ := assemble_ok h
  intro e; rw [h3]; exact mem_filterElems hw.elemIds hw.types

theorem assemble_elemValues {m r : FEM α} (hw : WF m) (he : EWF m) {nodeIds eids : List Id}
    (h : assemble m nodeIds eids = .ok r) : ElemValuesKept m r := by
  obtain ⟨_, _, h3, h4⟩ := assemble_ok h
  have hmem := assemble_elems hw h
  refine ⟨fun e her => ?_, fun name e her => ?_⟩
  · obtain ⟨hem, hid⟩ := (hmem e).mp her
    have h1 : m.elemAt e.id = some e := (find_id_eq_some hw.elemIds).mpr ⟨hem, rfl⟩
    refine ⟨h1, ?_⟩
    unfold FEM.elemAt at h1 ⊢
    rw [find_id_sub hw.elemIds (· ∈ eids) hmem hid, h1]
  · obtain ⟨_, hid⟩ := (hmem e).mp her
    unfold FEM.elementalAt
    rw [h4, filterElemental_find]
    cases hf : m.elemental.find? (·.1 == name) with
    | none => rfl
    | some kv =>
      obtain ⟨hn, ht⟩ := he kv (List.mem_of_find?_eq_some hf)
      simp only [Option.map_some, Option.bind_some]
      rw [find_id_sub hn (· ∈ eids) (fun e => mem_filterElems hn ht) hid]

/-! ## cut_with_element_ids -/

theorem cutElemIds_ok {m r : FEM α} {sel : List Id} (h : cutElemIds m sel = .ok r) :
    assemble m (uniqueSorted (connIds (filterElems m.elems sel))) sel = .ok r := by
  simp only [cutElemIds] at h
  split at h
  · cases h
  · exact h

/-- **self-contained** (`cut_with_element_ids`): node ids of the result are pairwise distinct and contain every node
    the retained elements refer to. No hypothesis on `m` is needed. -/
theorem C09_self_contained_cut_eids {m r : FEM α} {sel : List Id} (h : cutElemIds m sel = .ok r) : SelfContained r := by
  have ha := cutElemIds_ok h
  obtain ⟨hids, _⟩ := assemble_nodeValues ha
  obtain ⟨_, _, h3, _⟩ := assemble_ok ha
  refine ⟨hids ▸ uniqueSorted_nodup _, fun e he n hn => ?_⟩
  rw [hids, mem_uniqueSorted, mem_connIds, ← h3]
  exact ⟨e, he, hn⟩

/-- **exact selection** (`cut_with_element_ids`): the retained elements are exactly the elements of `m` whose id is
    requested (requested ids that do not exist are ignored, the order of the request is immaterial), and the
    retained nodes are exactly the nodes those elements refer to. -/
theorem C09_exact_selection_cut_eids {m r : FEM α} (hw : WF m) {sel : List Id} (h : cutElemIds m sel = .ok r) :
    (∀ e, e ∈ r.elems.flatten ↔ e ∈ m.elems.flatten ∧ e.id ∈ sel) ∧ NodesExactlyReferenced r := by
  have ha := cutElemIds_ok h
  obtain ⟨hids, _⟩ := assemble_nodeValues ha
  obtain ⟨_, _, h3, _⟩ := assemble_ok ha
  refine ⟨assemble_elems hw ha, fun n => ?_⟩
  rw [hids, mem_uniqueSorted, mem_connIds, ← h3]

/-- **values attached** (`cut_with_element_ids`): looked up by id, every retained node has its coordinates and the
    value of every nodal variable, every retained element its type, connectivity and the value of every
    elemental variable. -/
theorem C09_values_attached_cut_eids {m r : FEM α} (hw : WF m) (he : EWF m) {sel : List Id}
    (h : cutElemIds m sel = .ok r) : NodeValuesKept m r ∧ ElemValuesKept m r :=
  ⟨(assemble_nodeValues (cutElemIds_ok h)).2, assemble_elemValues hw he (cutElemIds_ok h)⟩

/-- the call succeeds on a well-formed mesh with complete nodal variables as soon as one requested id exists
    (otherwise femio raises `ValueError`: the selection is outside the property's quantifier) -/
theorem C09_cut_succeeds {m : FEM α} (hw : WF m) (hal : Aligned m) {sel : List Id}
    (hsel : ∃ e ∈ m.elems.flatten, e.id ∈ sel) : ∃ r, cutElemIds m sel = .ok r := by
  obtain ⟨e, hem, hes⟩ := hsel
  have hfe : e ∈ (filterElems m.elems sel).flatten := (mem_filterElems hw.elemIds hw.types).mpr ⟨hem, hes⟩
  have hlook : ∀ (a : Attr α), a.ids = m.nodes.ids → a.data.length = m.nodes.ids.length →
      ∀ i ∈ uniqueSorted (connIds (filterElems m.elems sel)), (a.lookup i).isSome := by
    intro a ha1 ha2 i hi
    rw [mem_uniqueSorted, mem_connIds] at hi
    obtain ⟨f, hf, hif⟩ := hi
    have hfm := ((mem_filterElems hw.elemIds hw.types).mp hf).1
    obtain ⟨k, hk⟩ := idPos_of_mem (hw.refs f hfm i hif)
    obtain ⟨hkl, _⟩ := idPos_some hk
    simp [Attr.lookup, ha1, hk, List.getElem?_eq_getElem (show k < a.data.length by omega)]
  obtain ⟨ns, hns⟩ := filterWithIds_isSome (hlook m.nodes rfl hw.nodeLen)
  have hnd : ∃ nd, filterNodal m.nodal (uniqueSorted (connIds (filterElems m.elems sel))) = some nd := by
    apply gather_isSome
    intro kv hkv
    obtain ⟨b, hb⟩ := filterWithIds_isSome (hlook kv.2 (hal kv hkv).1 (hal kv hkv).2)
    simp [hb]
  obtain ⟨nd, hnd⟩ := hnd
  refine ⟨⟨ns, filterElems m.elems sel, nd, filterElemental m.elemental sel⟩, ?_⟩
  simp only [cutElemIds, isEmpty_false_of_mem_flatten hfe, Bool.false_eq_true, if_false, assemble, hns, hnd]

/-! ## cut_with_element_type -/

/-- blocks are keyed by type: a block holds one type, and a type occurs in one block only -/
structure ByType (blocks : EBlocks (List Id)) : Prop where
  homog : ∀ b ∈ blocks, ∀ e ∈ b, ∀ f ∈ b, e.ty = f.ty
  sep : ∀ b ∈ blocks, ∀ b' ∈ blocks, ∀ e ∈ b, ∀ f ∈ b', e.ty = f.ty → b = b'

theorem cutElemType_ok {m r : FEM α} {t : Nat} (h : cutElemType m t = .ok r) :
    ∃ b ∈ m.elems, (∃ e ∈ b, e.ty = t) ∧ cutElemIds m (b.map (·.id)) = .ok r := by
  unfold cutElemType at h
  cases hf : m.elems.find? (fun b => b.any (·.ty == t)) with
  | none => simp [hf] at h
  | some b =>
    simp only [hf] at h
    have := List.find?_some hf
    simp only [List.any_eq_true, beq_iff_eq] at this
    exact ⟨b, List.mem_of_find?_eq_some hf, this, h⟩

/-- **self-contained** (`cut_with_element_type`) -/
theorem C09_self_contained_cut_type {m r : FEM α} {t : Nat} (h : cutElemType m t = .ok r) : SelfContained r := by
  obtain ⟨b, _, _, hc⟩ := cutElemType_ok h
  exact C09_self_contained_cut_eids hc

/-- **exact selection** (`cut_with_element_type`): the retained elements are exactly the elements of type `t`, the
    retained nodes exactly the nodes they refer to. -/
theorem C09_exact_selection_cut_type {m r : FEM α} (hw : WF m) (hb : ByType m.elems) {t : Nat}
    (h : cutElemType m t = .ok r) :
    (∀ e, e ∈ r.elems.flatten ↔ e ∈ m.elems.flatten ∧ e.ty = t) ∧ NodesExactlyReferenced r := by
  obtain ⟨b, hbm, ⟨g, hgb, hgt⟩, hc⟩ := cutElemType_ok h
  obtain ⟨h1, h2⟩ := C09_exact_selection_cut_eids hw hc
  refine ⟨fun e => ?_, h2⟩
  rw [h1]
  constructor
  · rintro ⟨hem, hid⟩
    obtain ⟨f, hfb, hfid⟩ := List.mem_map.mp hid
    have hfm : f ∈ m.elems.flatten := List.mem_flatten.mpr ⟨b, hbm, hfb⟩
    have : f = e := ent_unique hw.elemIds hfm hem hfid
    subst this
    exact ⟨hem, (hb.homog b hbm f hfb g hgb).trans hgt⟩
  · rintro ⟨hem, hty⟩
    obtain ⟨b', hb'm, heb'⟩ := List.mem_flatten.mp hem
    have : b' = b := hb.sep b' hb'm b hbm e heb' g hgb (hty.trans hgt.symm)
    subst this
    exact ⟨hem, List.mem_map.mpr ⟨e, heb', rfl⟩⟩

/-- **values attached** (`cut_with_element_type`) -/
theorem C09_values_attached_cut_type {m r : FEM α} (hw : WF m) (he : EWF m) {t : Nat}
    (h : cutElemType m t = .ok r) : NodeValuesKept m r ∧ ElemValuesKept m r := by
  obtain ⟨b, _, _, hc⟩ := cutElemType_ok h
  exact C09_values_attached_cut_eids hw he hc

/-! ## extract_with_element_indices -/

theorem extractIdx_ok {m r : FEM α} {idx : List Nat} (h : extractIdx m idx = .ok r) :
    ∃ picked, gatherPos (flattenE m.elems) idx = some picked ∧
      assemble m (uniqueSorted (picked.flatMap (·.val))) (picked.map (·.id)) = .ok r := by
  unfold extractIdx at h
  cases hg : gatherPos (flattenE m.elems) idx with
  | none => simp [hg] at h
  | some picked =>
    simp only [hg] at h
    split at h
    · cases h
    · exact ⟨picked, rfl, h⟩

theorem extractIdx_elems {m r : FEM α} (hw : WF m) {idx : List Nat} {picked : List (Ent (List Id))}
    (hg : gatherPos (flattenE m.elems) idx = some picked)
    (ha : assemble m (uniqueSorted (picked.flatMap (·.val))) (picked.map (·.id)) = .ok r) :
    ∀ e, e ∈ r.elems.flatten ↔ e ∈ picked := by
  have hpm : ∀ e ∈ picked, e ∈ m.elems.flatten := by
    intro e he
    obtain ⟨k, _, hk⟩ := gather_mem hg he
    exact mem_flattenE.mp (List.mem_of_getElem? hk)
  intro e
  rw [assemble_elems hw ha]
  constructor
  · rintro ⟨hem, hid⟩
    obtain ⟨f, hfp, hfid⟩ := List.mem_map.mp hid
    rw [← ent_unique hw.elemIds (hpm f hfp) hem hfid]; exact hfp
  · intro he
    exact ⟨hpm e he, List.mem_map.mpr ⟨e, he, rfl⟩⟩

/-- **self-contained** (`extract_with_element_indices`) -/
theorem C09_self_contained_extract_idx {m r : FEM α} (hw : WF m) {idx : List Nat} (h : extractIdx m idx = .ok r) :
    SelfContained r := by
  obtain ⟨picked, hg, ha⟩ := extractIdx_ok h
  obtain ⟨hids, _⟩ := assemble_nodeValues ha
  refine ⟨hids ▸ uniqueSorted_nodup _, fun e he n hn => ?_⟩
  rw [hids, mem_uniqueSorted, List.mem_flatMap]
  exact ⟨e, (extractIdx_elems hw hg ha e).mp he, hn⟩

/-- **exact selection** (`extract_with_element_indices`): the retained elements are exactly the elements stored at the
    requested positions of the flattened element list (`elements.ids[k]`, `elements.data[k]`), the retained nodes
    exactly the nodes they refer to. -/
theorem C09_exact_selection_extract_idx {m r : FEM α} (hw : WF m) {idx : List Nat} (h : extractIdx m idx = .ok r) :
    (∀ e, e ∈ r.elems.flatten ↔ ∃ k ∈ idx, (flattenE m.elems)[k]? = some e) ∧ NodesExactlyReferenced r := by
  obtain ⟨picked, hg, ha⟩ := extractIdx_ok h
  obtain ⟨hids, _⟩ := assemble_nodeValues ha
  have hel := extractIdx_elems hw hg ha
  refine ⟨fun e => ?_, fun n => ?_⟩
  · rw [hel]
    constructor
    · intro he; exact gather_mem hg he
    · rintro ⟨k, hk, hke⟩
      obtain ⟨a, ha', hka⟩ := gather_mem' hg hk
      rw [hke] at hka; cases hka; exact ha'
  · rw [hids, mem_uniqueSorted, List.mem_flatMap]
    constructor
    · rintro ⟨e, he, hn⟩; exact ⟨e, (hel e).mpr he, hn⟩
    · rintro ⟨e, he, hn⟩; exact ⟨e, (hel e).mp he, hn⟩

/-- **values attached** (`extract_with_element_indices`) -/
theorem C09_values_attached_extract_idx {m r : FEM α} (hw : WF m) (he : EWF m) {idx : List Nat}
    (h : extractIdx m idx = .ok r) : NodeValuesKept m r ∧ ElemValuesKept m r := by
  obtain ⟨picked, _, ha⟩ := extractIdx_ok h
  exact ⟨(assemble_nodeValues ha).2, assemble_elemValues hw he ha⟩

/-! ## cut_with_node_ids -/

theorem cutNodeIds_ok {m r : FEM α} {sel : List Id} (h : cutNodeIds m sel = .ok r) :
    assemble m sel (elemsInside m sel) = .ok r := by
  unfold cutNodeIds at h
  split at h
  · cases h
  · exact h

theorem mem_elemsInside {m : FEM α} {sel : List Id} {i : Id} :
    i ∈ elemsInside m sel ↔ ∃ e ∈ m.elems.flatten, e.id = i ∧ ∀ n ∈ e.val, n ∈ sel := by
  simp only [elemsInside, List.mem_map, List.mem_filter, mem_flattenE, List.all_eq_true, List.contains_eq_mem,
    decide_eq_true_eq]
  constructor
  · rintro ⟨e, ⟨he, hall⟩, hid⟩; exact ⟨e, he, hid, hall⟩
  · rintro ⟨e, he, hid, hall⟩; exact ⟨e, ⟨he, hall⟩, hid⟩

/-- **exact selection** (`cut_with_node_ids`): the retained nodes are exactly the requested ones (in the requested
    order), the retained elements exactly the elements all of whose nodes are requested. -/
theorem C09_exact_selection_cut_nids {m r : FEM α} (hw : WF m) {sel : List Id} (h : cutNodeIds m sel = .ok r) :
    r.nodes.ids = sel ∧ ∀ e, e ∈ r.elems.flatten ↔ e ∈ m.elems.flatten ∧ ∀ n ∈ e.val, n ∈ sel := by
  have ha := cutNodeIds_ok h
  refine ⟨(assemble_nodeValues ha).1, fun e => ?_⟩
  rw [assemble_elems hw ha, mem_elemsInside]
  constructor
  · rintro ⟨hem, f, hfm, hfid, hall⟩
    rw [← ent_unique hw.elemIds hfm hem hfid]; exact ⟨hfm, hall⟩
  · rintro ⟨hem, hall⟩; exact ⟨hem, e, hem, rfl, hall⟩

/-- **self-contained** (`cut_with_node_ids`), for a duplicate-free request -/
theorem C09_self_contained_cut_nids {m r : FEM α} (hw : WF m) {sel : List Id} (hs : sel.Nodup)
    (h : cutNodeIds m sel = .ok r) : SelfContained r := by
  obtain ⟨h1, h2⟩ := C09_exact_selection_cut_nids hw h
  exact ⟨h1 ▸ hs, fun e he n hn => h1 ▸ ((h2 e).mp he).2 n hn⟩

/-- **values attached** (`cut_with_node_ids`) -/
theorem C09_values_attached_cut_nids {m r : FEM α} (hw : WF m) (he : EWF m) {sel : List Id}
    (h : cutNodeIds m sel = .ok r) : NodeValuesKept m r ∧ ElemValuesKept m r :=
  ⟨(assemble_nodeValues (cutNodeIds_ok h)).2, assemble_elemValues hw he (cutNodeIds_ok h)⟩

/-! ## remove_useless_nodes -/

/-- the node ids some element refers to, ascending (`np.unique` of all connectivities) -/
def usefulIds (m : FEM α) : List Id := uniqueSorted (connIds m.elems)
/-- the node ids ascending (`self.nodes.ids[np.argsort(self.nodes.ids)]`) -/
def sortedIds (m : FEM α) : List Id := (sortedPairs m.nodes.ids).map (·.1)

theorem mem_sortedIds {m : FEM α} {n : Id} : n ∈ sortedIds m ↔ n ∈ m.nodes.ids := (sortedIds_perm _).mem_iff

theorem mem_usefulIds {m : FEM α} {n : Id} : n ∈ usefulIds m ↔ ∃ e ∈ m.elems.flatten, n ∈ e.val := by
  rw [usefulIds, mem_uniqueSorted, mem_connIds]

/-- **C09_sweep_correct**: on the ascending node ids and the ascending referenced ids of a well-formed mesh the
    two-pointer loop of `remove_useless_nodes` terminates inside the array and returns the membership mask
    `orig.map (· ∈ useful)`. (General form: `sweepE_correct`, for any strictly ascending `orig ⊇ useful`.) -/
theorem C09_sweep_correct {m : FEM α} (hw : WF m) :
    sweepE (sortedIds m) (usefulIds m) = some ((sortedIds m).map fun o => decide (o ∈ usefulIds m)) :=
  sweepE_correct _ _ (sortedIds_strict hw.nodeIds) (uniqueSorted_sorted _) (by
    intro u hu
    obtain ⟨e, he, hn⟩ := mem_usefulIds.mp hu
    exact mem_sortedIds.mpr (hw.refs e he u hn))

/-- the guard is sharp: if an element refers to a node that does not exist the loop runs off the end
    (`IndexError` in femio), it never returns a wrong mask silently -/
theorem C09_sweep_error_iff {m : FEM α} (hn : m.nodes.ids.Nodup) :
    sweepE (sortedIds m) (usefulIds m) = none ↔ ∃ e ∈ m.elems.flatten, ∃ n ∈ e.val, n ∉ m.nodes.ids := by
  constructor
  · intro h
    by_contra hc0
    have hc : ∀ e ∈ m.elems.flatten, ∀ n ∈ e.val, n ∈ m.nodes.ids := by
      intro e he n hn; by_contra hx; exact hc0 ⟨e, he, n, hn, hx⟩
    have := sweepE_correct (sortedIds m) (usefulIds m) (sortedIds_strict hn) (uniqueSorted_sorted _) (by
      intro u hu
      obtain ⟨e, he, hn'⟩ := mem_usefulIds.mp hu
      exact mem_sortedIds.mpr (hc e he u hn'))
    rw [h] at this; cases this
  · rintro ⟨e, he, n, hne, hnn⟩
    exact sweepE_none _ _ (uniqueSorted_sorted _) (sortedIds_strict hn)
      ⟨n, mem_usefulIds.mpr ⟨e, he, hne⟩, fun h => hnn (mem_sortedIds.mp h)⟩

/-- what a successful `remove_useless_nodes` returns -/
theorem removeUseless_ok {m r : FEM α} (hw : WF m) (h : removeUselessNodes m = .ok r) :
    r.elems = m.elems ∧ r.elemental = m.elemental ∧
    ((r = m ∧ sortedIds m = usefulIds m) ∨
     (∃ idx, gatherPos m.nodes.ids idx = some r.nodes.ids ∧ gatherPos m.nodes.data idx = some r.nodes.data ∧
        resliceNodal m.nodal r.nodes.ids idx = some r.nodal ∧
        r.nodes.ids = (sortedIds m).filter fun o => decide (o ∈ usefulIds m))) := by
  have hsw := C09_sweep_correct hw
  simp only [removeUselessNodes] at h
  split at h
  · split at h
    · rename_i heq
      cases h
      exact ⟨rfl, rfl, Or.inl ⟨rfl, heq⟩⟩
    · cases h
  · simp only [sortedIds, usefulIds] at hsw
    simp only [hsw] at h
    have hids := gather_maskFilter (gatherPos_argsort m.nodes.ids)
      ((sortedPairs m.nodes.ids).map (fun x => x.1) |>.map fun o => decide (o ∈ uniqueSorted (connIds m.elems)))
    rw [maskFilter_map] at hids
    split at h
    · rename_i ids data h1 h2
      have hidseq : some ((sortedPairs m.nodes.ids).map (fun x => x.1) |>.filter
          fun o => decide (o ∈ uniqueSorted (connIds m.elems))) = some ids := hids.symm.trans h1
      cases hidseq
      split at h
      · rename_i nd hnd
        cases h
        exact ⟨rfl, rfl, Or.inr ⟨_, h1, h2, hnd, rfl⟩⟩
      · cases h
    · cases h

theorem resliceNodal_at {vars nd : List (Nat × Attr α)} {ids ids' : List Id} (hn : ids.Nodup) {idx : List Nat}
    (hal : ∀ kv ∈ vars, kv.2.ids = ids) (hg : gatherPos ids idx = some ids')
    (h : resliceNodal vars ids' idx = some nd) (name : Nat) {i : Id} (hi : i ∈ ids') :
    ((nd.find? (·.1 == name)).bind fun kv => kv.2.lookup i) = ((vars.find? (·.1 == name)).bind fun kv => kv.2.lookup i) := by
  induction vars generalizing nd with
  | nil => simp [resliceNodal, gather] at h; subst h; rfl
  | cons kv t ih =>
    simp only [resliceNodal, gather] at h
    split at h
    · rename_i a r' hfi hgt
      cases h
      cases hf : gatherPos kv.2.data idx with
      | none => simp [hf] at hfi
      | some d =>
        simp only [hf, Option.map_some, Option.some.injEq] at hfi
        subst hfi
        simp only [List.find?_cons]
        by_cases hname : (kv.1 == name) = true
        · simp only [hname, Option.bind_some]
          have hk := hal kv (by simp)
          exact (reslice_lookup (a := kv.2) (hk ▸ hn) (hk ▸ hg) hf hi).1
        · simp only [hname]
          exact ih (fun kv' h' => hal kv' (List.mem_cons_of_mem _ h')) hgt
    · cases h

theorem lookup_isSome_of_mem {a : Attr α} (hl : a.data.length = a.ids.length) {i : Id} (hi : i ∈ a.ids) :
    (a.lookup i).isSome := by
  obtain ⟨k, hk⟩ := idPos_of_mem hi
  obtain ⟨hkl, _⟩ := idPos_some hk
  simp [Attr.lookup, hk, List.getElem?_eq_getElem (show k < a.data.length by omega)]

theorem elemValuesKept_of_eq {m r : FEM α} (hw : WF m) (h1 : r.elems = m.elems) (h2 : r.elemental = m.elemental) :
    ElemValuesKept m r := by
  refine ⟨fun e he => ?_, fun name e _ => ?_⟩
  · rw [h1] at he
    have : m.elemAt e.id = some e := (find_id_eq_some hw.elemIds).mpr ⟨he, rfl⟩
    exact ⟨this, by unfold FEM.elemAt at this ⊢; rw [h1]; exact this⟩
  · unfold FEM.elementalAt; rw [h2]

/-- **self-contained** (`remove_useless_nodes`) -/
theorem C09_self_contained_remove_useless {m r : FEM α} (hw : WF m) (h : removeUselessNodes m = .ok r) :
    SelfContained r := by
  obtain ⟨he, _, hc | ⟨idx, _, _, _, hids⟩⟩ := removeUseless_ok hw h
  · rw [hc.1]; exact ⟨hw.nodeIds, hw.refs⟩
  · refine ⟨hids ▸ ((sortedIds_strict hw.nodeIds).imp (fun h => Nat.ne_of_lt h)).sublist List.filter_sublist, ?_⟩
    intro e hem n hn
    rw [he] at hem
    rw [hids, List.mem_filter]
    exact ⟨mem_sortedIds.mpr (hw.refs e hem n hn), by simpa using mem_usefulIds.mpr ⟨e, hem, hn⟩⟩

/-- **exact selection** (`remove_useless_nodes`): all elements are kept, the retained nodes are exactly the nodes
    some element refers to. -/
theorem C09_exact_selection_remove_useless {m r : FEM α} (hw : WF m) (h : removeUselessNodes m = .ok r) :
    r.elems = m.elems ∧ NodesExactlyReferenced r := by
  obtain ⟨he, _, hc | ⟨idx, _, _, _, hids⟩⟩ := removeUseless_ok hw h
  · refine ⟨he, fun n => ?_⟩
    rw [hc.1, ← mem_sortedIds, hc.2, mem_usefulIds]
  · refine ⟨he, fun n => ?_⟩
    rw [hids, he, List.mem_filter, ← mem_usefulIds (m := m)]
    constructor
    · intro ⟨_, h2⟩; simpa using h2
    · intro h2
      obtain ⟨e, hem, hn⟩ := mem_usefulIds.mp h2
      exact ⟨mem_sortedIds.mpr (hw.refs e hem n hn), by simpa using h2⟩

/-- **values attached** (`remove_useless_nodes`), for nodal variables stored in the mesh's node order: the
    positional re-slicing `value.data[useful_indices]` gives every retained node id its own coordinates and
    values; elements and elemental variables are untouched. -/
theorem C09_values_attached_remove_useless {m r : FEM α} (hw : WF m) (hal : Aligned m)
    (h : removeUselessNodes m = .ok r) : NodeValuesKept m r ∧ ElemValuesKept m r := by
  obtain ⟨he, hed, hc | ⟨idx, h1, h2, h3, _⟩⟩ := removeUseless_ok hw h
  · refine ⟨?_, elemValuesKept_of_eq hw he hed⟩
    rw [hc.1]
    exact ⟨fun i hi => ⟨rfl, lookup_isSome_of_mem hw.nodeLen hi⟩, fun _ _ _ => rfl⟩
  · refine ⟨⟨fun i hi => ?_, fun name i hi => ?_⟩, elemValuesKept_of_eq hw he hed⟩
    · exact reslice_lookup hw.nodeIds h1 h2 hi
    · exact resliceNodal_at hw.nodeIds (fun kv hkv => (hal kv hkv).1) h1 h3 name hi

/-! ## to_first_order -/

theorem firstOrderEnt_some {s : Nat → Bool} {e e' : Ent (List Id)} (h : firstOrderEnt s e = some e') :
    e'.id = e.id ∧ e'.ty = e.ty ∧ ∀ n ∈ e'.val, n ∈ e.val := by
  unfold firstOrderEnt at h
  split at h
  · cases h; exact ⟨rfl, rfl, fun _ h => h⟩
  · split at h
    · cases h; exact ⟨rfl, rfl, fun _ h => List.mem_of_mem_take h⟩
    · split at h
      · cases h; exact ⟨rfl, rfl, fun _ h => List.mem_of_mem_take h⟩
      · cases h

theorem firstOrder_mem {s : Nat → Bool} {blocks fe : EBlocks (List Id)} (hg : gather (firstOrderBlock s) blocks = some fe) :
    (∀ e' ∈ fe.flatten, ∃ e ∈ blocks.flatten, firstOrderEnt s e = some e') ∧
    (∀ e ∈ blocks.flatten, ∃ e' ∈ fe.flatten, firstOrderEnt s e = some e') := by
  constructor
  · intro e' he'
    obtain ⟨b', hb', heb'⟩ := List.mem_flatten.mp he'
    obtain ⟨b, hb, hbb'⟩ := gather_mem hg hb'
    obtain ⟨e, he, hee'⟩ := gather_mem hbb' heb'
    exact ⟨e, List.mem_flatten.mpr ⟨b, hb, he⟩, hee'⟩
  · intro e he
    obtain ⟨b, hb, heb⟩ := List.mem_flatten.mp he
    obtain ⟨b', hb', hbb'⟩ := gather_mem' hg hb
    obtain ⟨e', he', hee'⟩ := gather_mem' hbb' heb
    exact ⟨e', List.mem_flatten.mpr ⟨b', hb', he'⟩, hee'⟩

/-- what a successful `to_first_order` returns: the object itself when no element type is second order, otherwise
    corner connectivities, the nodes selected by the boolean mask `np.isin(node ids, corner ids)`, nodal variables
    sliced with the same mask, elemental data untouched -/
theorem toFirstOrder_ok {s : Nat → Bool} {m r : FEM α} (h : toFirstOrder s m = .ok r) :
    (r = m ∧ ∀ e ∈ m.elems.flatten, s e.ty = false) ∨
    ∃ fe, gather (firstOrderBlock s) m.elems = some fe ∧ r.elems = fe ∧ r.elemental = m.elemental ∧
      r.nodes = ⟨maskFilter (m.nodes.ids.map fun i => (connIds fe).contains i) m.nodes.ids,
                 maskFilter (m.nodes.ids.map fun i => (connIds fe).contains i) m.nodes.data⟩ ∧
      r.nodal = m.nodal.filterMap (fun kv =>
        if kv.2.ids.length = (m.nodes.ids.map fun i => (connIds fe).contains i).length then
          some (kv.1, ⟨maskFilter (m.nodes.ids.map fun i => (connIds fe).contains i) kv.2.ids,
                       maskFilter (m.nodes.ids.map fun i => (connIds fe).contains i) kv.2.data⟩)
        else none) := by
  simp only [toFirstOrder] at h
  split at h
  · rename_i hall
    cases h
    refine Or.inl ⟨rfl, fun e he => ?_⟩
    obtain ⟨b, hb, heb⟩ := List.mem_flatten.mp he
    simp only [List.all_eq_true, Bool.not_eq_true'] at hall
    exact hall b hb e heb
  · split at h
    · cases h
    · rename_i fe hfe
      cases h
      exact Or.inr ⟨fe, hfe, rfl, rfl, rfl, rfl⟩

theorem firstOrder_nodeIds {m : FEM α} (fe : EBlocks (List Id)) :
    maskFilter (m.nodes.ids.map fun i => (connIds fe).contains i) m.nodes.ids =
      m.nodes.ids.filter fun i => (connIds fe).contains i := maskFilter_map _ _

/-- **self-contained** (`to_first_order`) -/
theorem C09_self_contained_first_order {s : Nat → Bool} {m r : FEM α} (hw : WF m) (h : toFirstOrder s m = .ok r) :
    SelfContained r := by
  rcases toFirstOrder_ok h with ⟨rfl, _⟩ | ⟨fe, hfe, he, _, hn, _⟩
  · exact ⟨hw.nodeIds, hw.refs⟩
  · have hids : r.nodes.ids = m.nodes.ids.filter fun i => (connIds fe).contains i := by rw [hn]; exact firstOrder_nodeIds fe
    refine ⟨hids ▸ hw.nodeIds.sublist List.filter_sublist, fun e' he' n hn' => ?_⟩
    rw [he] at he'
    obtain ⟨e, hem, hee'⟩ := (firstOrder_mem hfe).1 e' he'
    rw [hids, List.mem_filter]
    refine ⟨hw.refs e hem n ((firstOrderEnt_some hee').2.2 n hn'), ?_⟩
    simp only [List.contains_eq_mem, decide_eq_true_eq]
    exact mem_connIds.mpr ⟨e', he', hn'⟩

/-- **exact selection** (`to_first_order`): a mesh without second-order types is returned as it is; otherwise every
    element is retained with its id and type label and the corner part of its connectivity (`firstOrderEnt`),
    nothing else is retained, and the retained nodes are exactly the nodes of the reduced elements (mid-side and
    unreferenced nodes go). -/
theorem C09_exact_selection_first_order {s : Nat → Bool} {m r : FEM α} (hw : WF m) (h : toFirstOrder s m = .ok r) :
    (r = m ∧ ∀ e ∈ m.elems.flatten, s e.ty = false) ∨
    ((∀ e' ∈ r.elems.flatten, ∃ e ∈ m.elems.flatten, firstOrderEnt s e = some e') ∧
     (∀ e ∈ m.elems.flatten, ∃ e' ∈ r.elems.flatten, firstOrderEnt s e = some e') ∧ NodesExactlyReferenced r) := by
  rcases toFirstOrder_ok h with hc | ⟨fe, hfe, he, _, hn, _⟩
  · exact Or.inl hc
  · have hids : r.nodes.ids = m.nodes.ids.filter fun i => (connIds fe).contains i := by rw [hn]; exact firstOrder_nodeIds fe
    refine Or.inr ⟨he ▸ (firstOrder_mem hfe).1, he ▸ (firstOrder_mem hfe).2, fun n => ?_⟩
    rw [hids, he, List.mem_filter, ← mem_connIds]
    simp only [List.contains_eq_mem, decide_eq_true_eq]
    constructor
    · exact fun h => h.2
    · intro hn'
      obtain ⟨e', he', hne'⟩ := mem_connIds.mp hn'
      obtain ⟨e, hem, hee'⟩ := (firstOrder_mem hfe).1 e' he'
      exact ⟨hw.refs e hem n ((firstOrderEnt_some hee').2.2 n hne'), hn'⟩

theorem firstOrderNodal_at {vars : List (Nat × Attr α)} {ids : List Id} (mask : List Bool) (hml : mask.length = ids.length)
    (hal : ∀ kv ∈ vars, kv.2.ids = ids ∧ kv.2.data.length = ids.length) (name : Nat) (i : Id)
    (hm : ∀ k, idPos ids i = some k → mask[k]? = some true) :
    (((vars.filterMap fun kv =>
        if kv.2.ids.length = mask.length then some (kv.1, (⟨maskFilter mask kv.2.ids, maskFilter mask kv.2.data⟩ : Attr α))
        else none).find? (·.1 == name)).bind fun kv => kv.2.lookup i) =
      ((vars.find? (·.1 == name)).bind fun kv => kv.2.lookup i) := by
  induction vars with
  | nil => rfl
  | cons kv t ih =>
    have hk := hal kv (by simp)
    have hlen : kv.2.ids.length = mask.length := by rw [hk.1, hml]
    simp only [List.filterMap_cons, hlen, if_true, List.find?_cons]
    by_cases hname : (kv.1 == name) = true
    · simp only [hname, Option.bind_some]
      have := lookup_maskFilter mask kv.2.ids kv.2.data (hk.2.trans (by rw [hk.1])) i (hk.1 ▸ hm)
      exact this
    · simp only [hname]
      exact ih (fun kv' h' => hal kv' (List.mem_cons_of_mem _ h'))

/-- **values attached** (`to_first_order`), for nodal variables stored in the mesh's node order: every retained node
    keeps coordinates and nodal values (boolean-mask slicing), elemental data is passed on unchanged (the elements
    keep their ids, see `C09_exact_selection_first_order`). -/
theorem C09_values_attached_first_order {s : Nat → Bool} {m r : FEM α} (hw : WF m) (hal : Aligned m)
    (h : toFirstOrder s m = .ok r) : NodeValuesKept m r ∧ r.elemental = m.elemental := by
  rcases toFirstOrder_ok h with ⟨rfl, _⟩ | ⟨fe, hfe, he, hed, hn, hnd⟩
  · exact ⟨⟨fun i hi => ⟨rfl, lookup_isSome_of_mem hw.nodeLen hi⟩, fun _ _ _ => rfl⟩, rfl⟩
  · have hids : r.nodes.ids = m.nodes.ids.filter fun i => (connIds fe).contains i := by rw [hn]; exact firstOrder_nodeIds fe
    have hmask : ∀ i ∈ r.nodes.ids, ∀ k, idPos m.nodes.ids i = some k →
        (m.nodes.ids.map fun i => (connIds fe).contains i)[k]? = some true := by
      intro i hi k hk
      obtain ⟨hkl, hki⟩ := idPos_some hk
      rw [hids, List.mem_filter] at hi
      have h2 : i ∈ connIds fe := by simpa using hi.2
      simp [List.getElem?_eq_getElem hkl, hki, h2]
    refine ⟨⟨fun i hi => ⟨?_, lookup_isSome_of_mem hw.nodeLen ?_⟩, fun name i hi => ?_⟩, hed⟩
    · rw [hn]
      exact lookup_maskFilter _ m.nodes.ids m.nodes.data hw.nodeLen i (hmask i hi)
    · rw [hids] at hi; exact (List.mem_filter.mp hi).1
    · unfold FEM.nodalAt
      rw [hnd]
      exact firstOrderNodal_at _ (by simp) hal name i (hmask i hi)

/-! ## to_facets -/

abbrev FaceTable := Nat → Option (List (List Nat))

theorem toFacets_ok {ft : FaceTable} {m r : FEM α} (h : toFacets ft m = .ok r) :
    ∃ t3 t4, facetsOfWidth ft m.elems 3 = some t3 ∧ facetsOfWidth ft m.elems 4 = some t4 ∧
      r = ⟨m.nodes, surfaceElems (removeDuplicates t3) (removeDuplicates t4), m.nodal, []⟩ := by
  unfold toFacets at h
  split at h
  · rename_i t3 t4 h3 h4
    cases h
    exact ⟨t3, t4, h3, h4, rfl⟩
  · cases h

/-- every facet element is a face (3 or 4 vertices) of an element of `m` -/
def FacetsGenuine (ft : FaceTable) (m r : FEM α) : Prop :=
  ∀ e' ∈ r.elems.flatten, IsFacetOf ft m.elems 3 e'.val ∨ IsFacetOf ft m.elems 4 e'.val

/-- **self-contained** (`to_facets`) -/
theorem C09_self_contained_facets {ft : FaceTable} {m r : FEM α} (hw : WF m) (h : toFacets ft m = .ok r) :
    SelfContained r := by
  obtain ⟨t3, t4, h3, h4, rfl⟩ := toFacets_ok h
  refine ⟨hw.nodeIds, fun e' he' n hn => ?_⟩
  have hfac : ∃ w, IsFacetOf ft m.elems w e'.val := by
    rcases mem_surfaceElems he' with h' | h'
    · exact ⟨3, (mem_facetsOfWidth h3).mp (mem_removeDuplicates h')⟩
    · exact ⟨4, (mem_facetsOfWidth h4).mp (mem_removeDuplicates h')⟩
  obtain ⟨w, hf⟩ := hfac
  obtain ⟨e, he, hne⟩ := facet_nodes hf hn
  exact hw.refs e he n hne

/-- **exact selection** (`to_facets`): all nodes (with their nodal variables) are kept, no elemental data is attached to
    the new elements, every new element is a 3- or 4-vertex face of an element of `m`, and every such face is
    represented by a new element with the same vertex set (`np.sort` key). -/
theorem C09_exact_selection_facets {ft : FaceTable} {m r : FEM α} (h : toFacets ft m = .ok r) :
    r.nodes = m.nodes ∧ r.elemental = [] ∧ FacetsGenuine ft m r ∧
    ∀ row, IsFacetOf ft m.elems 3 row ∨ IsFacetOf ft m.elems 4 row →
      ∃ e' ∈ r.elems.flatten, faceKey e'.val = faceKey row := by
  obtain ⟨t3, t4, h3, h4, rfl⟩ := toFacets_ok h
  refine ⟨rfl, rfl, fun e' he' => ?_, fun row hrow => ?_⟩
  · rcases mem_surfaceElems he' with h' | h'
    · exact Or.inl ((mem_facetsOfWidth h3).mp (mem_removeDuplicates h'))
    · exact Or.inr ((mem_facetsOfWidth h4).mp (mem_removeDuplicates h'))
  · rcases hrow with hr | hr
    · obtain ⟨g, hg, hk⟩ := removeDuplicates_complete ((mem_facetsOfWidth h3).mpr hr)
      obtain ⟨e', he', hv⟩ := surfaceElems_complete (quads := removeDuplicates t4) (Or.inl hg)
      exact ⟨e', he', hv ▸ hk⟩
    · obtain ⟨g, hg, hk⟩ := removeDuplicates_complete ((mem_facetsOfWidth h4).mpr hr)
      obtain ⟨e', he', hv⟩ := surfaceElems_complete (tris := removeDuplicates t3) (Or.inr hg)
      exact ⟨e', he', hv ▸ hk⟩

/-- **values attached** (`to_facets`): nodes and nodal variables are passed on as they are -/
theorem C09_values_attached_facets {ft : FaceTable} {m r : FEM α} (hw : WF m) (h : toFacets ft m = .ok r) :
    NodeValuesKept m r := by
  obtain ⟨t3, t4, _, _, rfl⟩ := toFacets_ok h
  exact ⟨fun i hi => ⟨rfl, lookup_isSome_of_mem hw.nodeLen hi⟩, fun _ _ _ => rfl⟩

/-! ## to_surface -/

theorem toSurface_ok {ft : FaceTable} {m r : FEM α} (h : toSurface ft m = .ok r) :
    ∃ t3 t4 pt pq, facetsOfWidth ft m.elems 3 = some t3 ∧ facetsOfWidth ft m.elems 4 = some t4 ∧
      gather (gather (idPos m.nodes.ids)) (onceOnly t3) = some pt ∧
      gather (gather (idPos m.nodes.ids)) (onceOnly t4) = some pq ∧
      gatherPos m.nodes.ids (uniqueSorted (pt.flatten ++ pq.flatten)) = some r.nodes.ids ∧
      gatherPos m.nodes.data (uniqueSorted (pt.flatten ++ pq.flatten)) = some r.nodes.data ∧
      r.elems = surfaceElems (onceOnly t3) (onceOnly t4) ∧ r.elemental = [] ∧
      resliceNodal (m.nodal.filter fun kv => kv.2.ids.length == m.nodes.ids.length) r.nodes.ids
        (uniqueSorted (pt.flatten ++ pq.flatten)) = some r.nodal := by
  simp only [toSurface] at h
  split at h
  · rename_i t3 t4 h3 h4
    split at h
    · cases h
    · split at h
      · rename_i pt pq hpt hpq
        split at h
        · rename_i ids data st sq hids hdata hst hsq
          split at h
          · rename_i nd hnd
            cases h
            have e1 := ids_roundtrip hpt hst
            have e2 := ids_roundtrip hpq hsq
            subst e1 e2
            exact ⟨t3, t4, pt, pq, h3, h4, hpt, hpq, hids, hdata, rfl, rfl, hnd⟩
          · cases h
        · cases h
      · cases h
  · cases h

/-- position bookkeeping of `to_surface`: a node id is retained iff it occurs in a surface facet -/
theorem surface_nodes {ids : List Id} {tris quads : List (List Id)} {pt pq : List (List Nat)} {ids' : List Id}
    (hpt : gather (gather (idPos ids)) tris = some pt) (hpq : gather (gather (idPos ids)) quads = some pq)
    (hids : gatherPos ids (uniqueSorted (pt.flatten ++ pq.flatten)) = some ids') (n : Id) :
    n ∈ ids' ↔ ∃ row, (row ∈ tris ∨ row ∈ quads) ∧ n ∈ row := by
  have fwd : ∀ {rows : List (List Id)} {pp : List (List Nat)}, gather (gather (idPos ids)) rows = some pp →
      ∀ row ∈ rows, n ∈ row → ∃ k ∈ pp.flatten, ids[k]? = some n := by
    intro rows pp hg row hrow hn
    obtain ⟨pr, hpr, hrp⟩ := gather_mem' hg hrow
    obtain ⟨k, hk, hnk⟩ := gather_mem' hrp hn
    obtain ⟨hkl, hki⟩ := idPos_some hnk
    exact ⟨k, List.mem_flatten.mpr ⟨pr, hpr, hk⟩, by rw [List.getElem?_eq_getElem hkl, hki]⟩
  have bwd : ∀ {rows : List (List Id)} {pp : List (List Nat)}, gather (gather (idPos ids)) rows = some pp →
      ∀ k ∈ pp.flatten, ids[k]? = some n → ∃ row ∈ rows, n ∈ row := by
    intro rows pp hg k hk hkn
    obtain ⟨pr, hpr, hkpr⟩ := List.mem_flatten.mp hk
    obtain ⟨row, hrow, hrp⟩ := gather_mem hg hpr
    obtain ⟨n', hn', hnk⟩ := gather_mem hrp hkpr
    obtain ⟨hkl, hki⟩ := idPos_some hnk
    rw [List.getElem?_eq_getElem hkl, hki] at hkn
    exact ⟨row, hrow, (Option.some.inj hkn) ▸ hn'⟩
  rw [gatherPos_mem hids]
  constructor
  · rintro ⟨k, hk, hkn⟩
    rw [mem_uniqueSorted, List.mem_append] at hk
    rcases hk with hk | hk
    · obtain ⟨row, hrow, hn⟩ := bwd hpt k hk hkn; exact ⟨row, Or.inl hrow, hn⟩
    · obtain ⟨row, hrow, hn⟩ := bwd hpq k hk hkn; exact ⟨row, Or.inr hrow, hn⟩
  · rintro ⟨row, hrow | hrow, hn⟩
    · obtain ⟨k, hk, hkn⟩ := fwd hpt row hrow hn
      exact ⟨k, mem_uniqueSorted.mpr (List.mem_append.mpr (Or.inl hk)), hkn⟩
    · obtain ⟨k, hk, hkn⟩ := fwd hpq row hrow hn
      exact ⟨k, mem_uniqueSorted.mpr (List.mem_append.mpr (Or.inr hk)), hkn⟩

theorem surface_referenced {ft : FaceTable} {m r : FEM α} (h : toSurface ft m = .ok r) : NodesExactlyReferenced r := by
  obtain ⟨t3, t4, pt, pq, _, _, hpt, hpq, hids, _, hel, _, _⟩ := toSurface_ok h
  intro n
  rw [surface_nodes hpt hpq hids n, hel]
  constructor
  · rintro ⟨row, hrow, hn⟩
    obtain ⟨e', he', hv⟩ := surfaceElems_complete hrow
    exact ⟨e', he', hv ▸ hn⟩
  · rintro ⟨e', he', hn⟩
    exact ⟨e'.val, mem_surfaceElems he', hn⟩

/-- **self-contained** (`to_surface`) -/
theorem C09_self_contained_surface {ft : FaceTable} {m r : FEM α} (hw : WF m) (h : toSurface ft m = .ok r) :
    SelfContained r := by
  obtain ⟨t3, t4, pt, pq, _, _, _, _, hids, _, _, _, _⟩ := toSurface_ok h
  exact ⟨gatherPos_nodup hw.nodeIds (uniqueSorted_nodup _) hids, fun e he n hn => (surface_referenced h n).mpr ⟨e, he, hn⟩⟩

/-- **exact selection** (`to_surface`): the retained nodes are exactly the nodes of the new surface elements, no elemental
    data is attached, and every new element is a 3- or 4-vertex face of an element of `m` whose vertex set occurs
    exactly once among all such faces (that these are the boundary faces is C10). -/
theorem C09_exact_selection_surface {ft : FaceTable} {m r : FEM α} (h : toSurface ft m = .ok r) :
    NodesExactlyReferenced r ∧ r.elemental = [] ∧ FacetsGenuine ft m r := by
  refine ⟨surface_referenced h, ?_, ?_⟩
  · obtain ⟨_, _, _, _, _, _, _, _, _, _, _, hed, _⟩ := toSurface_ok h; exact hed
  · obtain ⟨t3, t4, pt, pq, h3, h4, _, _, _, _, hel, _, _⟩ := toSurface_ok h
    intro e' he'
    rw [hel] at he'
    rcases mem_surfaceElems he' with h' | h'
    · exact Or.inl ((mem_facetsOfWidth h3).mp (mem_onceOnly.mp h').1)
    · exact Or.inr ((mem_facetsOfWidth h4).mp (mem_onceOnly.mp h').1)

/-- **values attached** (`to_surface`), for nodal variables stored in the mesh's node order: the positional slicing
    `iloc[unique_indices]` gives every retained node id its own coordinates and values. -/
theorem C09_values_attached_surface {ft : FaceTable} {m r : FEM α} (hw : WF m) (hal : Aligned m)
    (h : toSurface ft m = .ok r) : NodeValuesKept m r := by
  obtain ⟨t3, t4, pt, pq, _, _, _, _, hids, hdata, _, _, hnd⟩ := toSurface_ok h
  have hfil : (m.nodal.filter fun kv => kv.2.ids.length == m.nodes.ids.length) = m.nodal := by
    apply List.filter_eq_self.mpr
    intro kv hkv
    simp [(hal kv hkv).1]
  rw [hfil] at hnd
  exact ⟨fun i hi => reslice_lookup hw.nodeIds hids hdata hi,
    fun name i hi => resliceNodal_at hw.nodeIds (fun kv hkv => (hal kv hkv).1) hids hnd name hi⟩

/-! ## to_surface at facet level: exactly the faces that belong to one element, each once

`C09_exact_selection_surface` says that every new element is a face; the clause "exactly the requested entities are
retained" also needs the converse (no boundary face is dropped) and "each once".  `t3` / `t4` are the lists of ALL
3- / 4-vertex faces of all elements (`facetsOfWidth`, characterised by `mem_facetsOfWidth` = `IsFacetOf`); the vertex set
of a row is `faceKey row` (the sorted row, what `np.unique(axis=0)` compares). -/

/-- `s` lists exactly the rows of `t` whose vertex set occurs once in `t`, and no vertex set twice -/
def OnceOnlyRows (t s : List (List Id)) : Prop :=
  (∀ row, row ∈ s ↔ row ∈ t ∧ (t.map faceKey).count (faceKey row) = 1) ∧ (s.map faceKey).Nodup

theorem onceOnlyRows_onceOnly (t : List (List Id)) : OnceOnlyRows t (onceOnly t) :=
  ⟨fun _ => mem_onceOnly, onceOnly_keys_nodup t⟩

/-- the new elements of `r`, in element-id order, are the once-only triangle faces followed by the once-only
    quadrangle faces of `m` -/
def SurfaceIsOnceOnly (ft : FaceTable) (m r : FEM α) : Prop :=
  ∃ t3 t4 s3 s4, facetsOfWidth ft m.elems 3 = some t3 ∧ facetsOfWidth ft m.elems 4 = some t4 ∧
    r.elems.flatten.map (·.val) = s3 ++ s4 ∧ OnceOnlyRows t3 s3 ∧ OnceOnlyRows t4 s4

/-- **exact selection, facet level** (`to_surface`): the surface elements are exactly the faces whose vertex set belongs
    to one face of one element only - none is dropped, none is invented, none is repeated. (A deduplication through a
    one-integer key instead of the rows does not have this property: `C09_radix_key_counterexample`.) -/
theorem C09_surface_once_only {ft : FaceTable} {m r : FEM α} (h : toSurface ft m = .ok r) : SurfaceIsOnceOnly ft m r := by
  obtain ⟨t3, t4, pt, pq, h3, h4, _, _, _, _, hel, _, _⟩ := toSurface_ok h
  exact ⟨t3, t4, onceOnly t3, onceOnly t4, h3, h4, by rw [hel, surfaceElems_vals], onceOnlyRows_onceOnly t3,
    onceOnlyRows_onceOnly t4⟩

/-! ## to_surface(remove_unnecessary_nodes=False) -/

theorem toSurfaceKeep_ok {ft : FaceTable} {m r : FEM α} (h : toSurfaceKeep ft m = .ok r) :
    ∃ t3 t4, facetsOfWidth ft m.elems 3 = some t3 ∧ facetsOfWidth ft m.elems 4 = some t4 ∧
      r = ⟨m.nodes, surfaceElems (onceOnly t3) (onceOnly t4), m.nodal, []⟩ := by
  simp only [toSurfaceKeep] at h
  split at h
  · rename_i t3 t4 h3 h4
    split at h
    · cases h
    · split at h
      · rename_i pt pq hpt hpq
        split at h
        · rename_i st sq hst hsq
          cases h
          have e1 := ids_roundtrip hpt hst
          have e2 := ids_roundtrip hpq hsq
          subst e1 e2
          exact ⟨t3, t4, h3, h4, rfl⟩
        · cases h
      · cases h
  · cases h

/-- **self-contained** (`to_surface(remove_unnecessary_nodes=False)`) -/
theorem C09_self_contained_surface_keep {ft : FaceTable} {m r : FEM α} (hw : WF m) (h : toSurfaceKeep ft m = .ok r) :
    SelfContained r := by
  obtain ⟨t3, t4, h3, h4, rfl⟩ := toSurfaceKeep_ok h
  refine ⟨hw.nodeIds, fun e' he' n hn => ?_⟩
  have hfac : ∃ w, IsFacetOf ft m.elems w e'.val := by
    rcases mem_surfaceElems he' with h' | h'
    · exact ⟨3, (mem_facetsOfWidth h3).mp (mem_onceOnly.mp h').1⟩
    · exact ⟨4, (mem_facetsOfWidth h4).mp (mem_onceOnly.mp h').1⟩
  obtain ⟨w, hf⟩ := hfac
  obtain ⟨e, he, hne⟩ := facet_nodes hf hn
  exact hw.refs e he n hne

/-- **exact selection** (`to_surface(remove_unnecessary_nodes=False)`): every node is kept, no elemental data is attached,
    and the new elements are exactly the once-only faces, each once -/
theorem C09_exact_selection_surface_keep {ft : FaceTable} {m r : FEM α} (h : toSurfaceKeep ft m = .ok r) :
    r.nodes = m.nodes ∧ r.elemental = [] ∧ SurfaceIsOnceOnly ft m r := by
  obtain ⟨t3, t4, h3, h4, rfl⟩ := toSurfaceKeep_ok h
  exact ⟨rfl, rfl, t3, t4, onceOnly t3, onceOnly t4, h3, h4, surfaceElems_vals _ _, onceOnlyRows_onceOnly t3,
    onceOnlyRows_onceOnly t4⟩

/-- **values attached** (`to_surface(remove_unnecessary_nodes=False)`): nodes and nodal variables are passed on -/
theorem C09_values_attached_surface_keep {ft : FaceTable} {m r : FEM α} (hw : WF m) (h : toSurfaceKeep ft m = .ok r) :
    NodeValuesKept m r := by
  obtain ⟨t3, t4, _, _, rfl⟩ := toSurfaceKeep_ok h
  exact ⟨fun i hi => ⟨rfl, lookup_isSome_of_mem hw.nodeLen hi⟩, fun _ _ _ => rfl⟩

/-! ## to_facets(remove_duplicates=False) -/

theorem toFacetsAll_ok {ft : FaceTable} {m r : FEM α} (h : toFacetsAll ft m = .ok r) :
    ∃ t3 t4, facetsOfWidth ft m.elems 3 = some t3 ∧ facetsOfWidth ft m.elems 4 = some t4 ∧
      r = ⟨m.nodes, surfaceElems t3 t4, m.nodal, []⟩ := by
  unfold toFacetsAll at h
  split at h
  · rename_i t3 t4 h3 h4
    cases h
    exact ⟨t3, t4, h3, h4, rfl⟩
  · cases h

/-- **self-contained** (`to_facets(remove_duplicates=False)`) -/
theorem C09_self_contained_facets_all {ft : FaceTable} {m r : FEM α} (hw : WF m) (h : toFacetsAll ft m = .ok r) :
    SelfContained r := by
  obtain ⟨t3, t4, h3, h4, rfl⟩ := toFacetsAll_ok h
  refine ⟨hw.nodeIds, fun e' he' n hn => ?_⟩
  have hfac : ∃ w, IsFacetOf ft m.elems w e'.val := by
    rcases mem_surfaceElems he' with h' | h'
    · exact ⟨3, (mem_facetsOfWidth h3).mp h'⟩
    · exact ⟨4, (mem_facetsOfWidth h4).mp h'⟩
  obtain ⟨w, hf⟩ := hfac
  obtain ⟨e, he, hne⟩ := facet_nodes hf hn
  exact hw.refs e he n hne

/-- **exact selection** (`to_facets(remove_duplicates=False)`): all nodes are kept, no elemental data is attached, and the
    new elements, in element-id order, are ALL 3-vertex faces followed by ALL 4-vertex faces of the elements of `m`
    (a face shared by two elements twice) -/
theorem C09_exact_selection_facets_all {ft : FaceTable} {m r : FEM α} (h : toFacetsAll ft m = .ok r) :
    r.nodes = m.nodes ∧ r.elemental = [] ∧
    ∃ t3 t4, facetsOfWidth ft m.elems 3 = some t3 ∧ facetsOfWidth ft m.elems 4 = some t4 ∧
      r.elems.flatten.map (·.val) = t3 ++ t4 := by
  obtain ⟨t3, t4, h3, h4, rfl⟩ := toFacetsAll_ok h
  exact ⟨rfl, rfl, t3, t4, h3, h4, surfaceElems_vals _ _⟩

/-- **values attached** (`to_facets(remove_duplicates=False)`) -/
theorem C09_values_attached_facets_all {ft : FaceTable} {m r : FEM α} (hw : WF m) (h : toFacetsAll ft m = .ok r) :
    NodeValuesKept m r := by
  obtain ⟨t3, t4, _, _, rfl⟩ := toFacetsAll_ok h
  exact ⟨fun i hi => ⟨rfl, lookup_isSome_of_mem hw.nodeLen hi⟩, fun _ _ _ => rfl⟩

/-! ## why rows, not one-integer keys -/

/-- the one-integer key `Σ id_k · base^(m-1-k)` identifies rows of equal length as long as every id is below the base
    (dense ids `1..n` with `base = n + 1`) ... -/
theorem C09_radix_key_injective {base : Nat} {r s : List Nat} (hl : r.length = s.length)
    (hr : ∀ x ∈ r, x < base) (hs : ∀ x ∈ s, x < base) (h : radixKey base r = radixKey base s) : r = s :=
  (radixKey_aux r s 0 0 hl hr hs h).2

/-- ... and not beyond: 9 nodes with ids {1..5, 11..14} (`base = 10`): the facets (2,3,4) and (1,12,14) get the key 234,
    so a deduplication by key counts two different boundary facets as one interior facet and drops both. -/
theorem C09_radix_key_counterexample :
    radixKey 10 [2, 3, 4] = radixKey 10 [1, 12, 14] ∧ faceKey [2, 3, 4] ≠ faceKey [1, 12, 14] ∧
    onceOnly [[2, 3, 4], [1, 12, 14]] = [[1, 12, 14], [2, 3, 4]] := by decide

/-! ## non-vacuity: the hypotheses hold and every operation succeeds non-trivially on a concrete mesh

Mixed mesh (two triangles + one tetrahedron), node ids unsorted in storage (30, 10, 20, 40, 50, 60), node 60
unreferenced, element ids 7, 5 (tri) and 6 (tet), one nodal variable (value = 10 · coordinate tag) in the mesh's node
order, one elemental variable in a single `unknown` block. Values are `Nat` tags. -/

def exMesh : FEM Nat :=
  { nodes := ⟨[30, 10, 20, 40, 50, 60], [3, 1, 2, 4, 5, 6]⟩
    elems := [[⟨7, 3, [10, 20, 30]⟩, ⟨5, 3, [20, 30, 40]⟩], [⟨6, 8, [10, 20, 30, 50]⟩]]
    nodal := [(0, ⟨[30, 10, 20, 40, 50, 60], [30, 10, 20, 40, 50, 60]⟩)]
    elemental := [(0, [[⟨5, 18, 55⟩, ⟨6, 18, 66⟩, ⟨7, 18, 77⟩]])] }

/-- a second-order mesh: one `tet2` (type index 9) with mid-edge nodes 12..34, storage order descending, one
    unreferenced node 99 -/
def exTet2 : FEM Nat :=
  { nodes := ⟨[99, 34, 24, 23, 14, 13, 12, 4, 3, 2, 1], [99, 34, 24, 23, 14, 13, 12, 4, 3, 2, 1]⟩
    elems := [[⟨8, 9, [1, 2, 3, 4, 23, 13, 12, 14, 24, 34]⟩]]
    nodal := [(0, ⟨[99, 34, 24, 23, 14, 13, 12, 4, 3, 2, 1], [990, 340, 240, 230, 140, 130, 120, 40, 30, 20, 10]⟩)]
    elemental := [] }

example : WF exMesh := ⟨by decide, by decide, by unfold IdsNodup; decide, by unfold TypesOk; decide, by decide⟩
example : EWF exMesh := by unfold EWF IdsNodup TypesOk; decide
example : Aligned exMesh := by unfold Aligned; decide
example : ByType exMesh.elems := ⟨by decide, by decide⟩
example : WF exTet2 := ⟨by decide, by decide, by unfold IdsNodup; decide, by unfold TypesOk; decide, by decide⟩
example : Aligned exTet2 := by unfold Aligned; decide

-- element 7 requested together with an id that does not exist, in "wrong" order: nodes 10, 20, 30 with their values
example : (cutElemIds exMesh [99, 7]).toOption.map (fun r => (r.nodes, r.nodal)) =
    some (⟨[10, 20, 30], [1, 2, 3]⟩, [(0, ⟨[10, 20, 30], [10, 20, 30]⟩)]) := by decide
example : (cutElemIds exMesh [99, 7]).toOption.map (fun r => r.elems.flatten.map (fun e => (e.id, e.val))) =
    some [(7, [10, 20, 30])] := by decide
example : (cutElemIds exMesh [6, 5]).toOption.map (fun r => (r.nodes.ids, r.elemental)) =
    some ([10, 20, 30, 40, 50], [(0, [[⟨6, 18, 66⟩, ⟨5, 18, 55⟩]])]) := by decide
example : (cutElemType exMesh 3).toOption.map (fun r => (r.nodes.ids, r.elems.flatten.map (·.id))) =
    some ([10, 20, 30, 40], [7, 5]) := by decide
example : (extractIdx exMesh [2, 0]).toOption.map (fun r => (r.nodes.ids, r.elems.flatten.map (·.id))) =
    some ([10, 20, 30, 40], [7, 5]) := by decide
example : (cutNodeIds exMesh [40, 30, 20, 60]).toOption.map (fun r => (r.nodes, r.elems.flatten.map (·.id))) =
    some (⟨[40, 30, 20, 60], [4, 3, 2, 6]⟩, [5]) := by decide
example : (removeUselessNodes exMesh).toOption.map (fun r => (r.nodes, r.nodal)) =
    some (⟨[10, 20, 30, 40, 50], [1, 2, 3, 4, 5]⟩, [(0, ⟨[10, 20, 30, 40, 50], [10, 20, 30, 40, 50]⟩)]) := by decide
example : (toFirstOrder isSecondType exTet2).toOption.map (fun r => (r.nodes, r.nodal)) =
    some (⟨[4, 3, 2, 1], [4, 3, 2, 1]⟩, [(0, ⟨[4, 3, 2, 1], [40, 30, 20, 10]⟩)]) := by decide
example : (toFirstOrder isSecondType exTet2).toOption.map (fun r => r.elems.flatten.map (fun e => (e.id, e.ty, e.val))) =
    some [(8, 9, [1, 2, 3, 4])] := by decide
-- surface of the mixed mesh: the triangle 10-20-30 is shared by element 7 and the tetrahedron and disappears
example : (toSurface faceTable exMesh).toOption.map (fun r => (r.nodes, r.elems.flatten.map fun e => (e.id, e.val))) =
    some (⟨[30, 10, 20, 40, 50], [3, 1, 2, 4, 5]⟩,
          [(1, [10, 20, 50]), (2, [10, 50, 30]), (3, [20, 30, 40]), (4, [20, 30, 50])]) := by decide
example : (toFacets faceTable exMesh).toOption.map (fun r => (r.nodes.ids, r.elems.flatten.map (·.id))) =
    some ([30, 10, 20, 40, 50, 60], [1, 2, 3, 4, 5]) := by decide
-- the error branches are real: an element refers to a node that does not exist
example : removeUselessNodes ({ exMesh with nodes := ⟨[30, 10, 20, 40, 60, 70], [3, 1, 2, 4, 6, 7]⟩ } : FEM Nat) = .error .index := by
  decide
example : cutElemIds exMesh [99] = .error .value := by decide

example : (toSurface faceTable exMesh).toOption.map (fun r => r.elems.flatten.map (·.val)) =
    (do let t3 ← facetsOfWidth faceTable exMesh.elems 3; pure (onceOnly t3)) := by decide
example : (toSurfaceKeep faceTable exMesh).toOption.map (fun r => (r.nodes.ids, r.elems.flatten.map (·.id))) =
    some ([30, 10, 20, 40, 50, 60], [1, 2, 3, 4]) := by decide
example : (toFacetsAll faceTable exMesh).toOption.map (fun r => (r.nodes.ids, r.elems.flatten.length)) =
    some ([30, 10, 20, 40, 50, 60], 6) := by decide
/-! ## the regenerated face tables are element surfaces (tie T obligation on `Femio.Gen.faces_*`, round 4) -/

/-- directed edges of a face given as a cycle of local node numbers -/
def cycEdges (f : List Nat) : List (Nat × Nat) := f.zip (f.drop 1 ++ f.take 1)

/-- a face table over local node numbers `0 .. arity-1` is a closed oriented surface: every face uses numbers below the
    arity, no number twice, and every directed edge of the table occurs exactly once and its reverse exactly once -/
def tableClosed (arity : Nat) (fs : List (List Nat)) : Bool :=
  let es := fs.flatMap cycEdges
  fs.all (fun f => f.all (· < arity) && f.all (fun i => f.count i == 1)) &&
    es.all fun e => es.count e == 1 && es.count (e.2, e.1) == 1

/-- **C09_face_tables_closed.** Every solid face table the C09 model is instantiated with - regenerated from
    `_generate_all_faces` of the working tree on every run: tet 8, tet2 9, pyr 10, prism 12, hex 14, hexprism 16 - is a
    closed oriented surface over the element's own local nodes (`tableClosed`).  `C09_surface_once_only` says the surface
    is the once-only faces *of the table*; this is the obligation on the table itself, so a wrong local node number in the
    source breaks a proof obligation of C09 and not only of C10 (seeded C09-8: `[7, 8, 9, 11]` for `[7, 8, 9, 10]`). -/
theorem C09_face_tables_closed :
    ∀ ta ∈ [(8, 4), (9, 10), (10, 5), (12, 6), (14, 8), (16, 12)],
      (faceTable ta.1).map (tableClosed ta.2) = some true := by decide

/-- non-vacuity / sensitivity: the hexprism table with one wrong entry in the top cap is not closed -/
example : tableClosed 12 [[0, 5, 4, 1], [1, 4, 3, 2], [5, 11, 10, 4], [4, 10, 9, 3], [3, 9, 8, 2], [0, 6, 11, 5],
    [6, 7, 10, 11], [7, 8, 9, 11], [1, 2, 8, 7], [0, 1, 7, 6]] = false := by decide
example : (faceTable 16).map List.length = some 10 := by decide

/-! ## variable tables: the KEY is the identity of a variable, the attribute's own name is data (round 5, seeded C09-10)

`nodal_data` / `elemental_data` are dicts key -> attribute, and every attribute also carries a `.name` of its own.  The two
agree for tables filled by the readers and by `update_data`, but `set_attribute_data(key, data, name=...)` and
`table[key2] = table[key]` make the relation key -> name arbitrary and many-to-one.  The `FEM` model above identifies a
variable by its key (`Nat × Attr α`) and has no name at all; here the name is put back in to state what a sub-mesh operation
may and may not do with it. -/

/-- one entry of a variable table: the table key, the attribute's own `.name`, the payload -/
structure Entry (β : Type) where
  key : Nat
  name : Nat
  val : β
deriving Repr, DecidableEq

/-- `{key: f(value) for key, value in self.items()}`: `FEMAttributes.filter_with_ids` and the tables of every `cut_*` -/
def mapTable {β γ} (f : β → γ) (t : List (Entry β)) : List (Entry γ) := t.map fun e => ⟨e.key, e.name, f e.val⟩

/-- `table[key]` -/
def tableAt {β} (t : List (Entry β)) (k : Nat) : Option β := (t.find? (·.key == k)).map (·.val)

/-- dict assignment `d[k] = e` (replaces the entry stored under `k`, else appends) -/
def dictSet {β} (k : Nat) (e : Entry β) : List (Entry β) → List (Entry β)
  | [] => [{ e with key := k }]
  | x :: r => if x.key == k then { e with key := k } :: r else x :: dictSet k e r

/-- the LIST form of the `FEMAttributes` constructor, `{a.name: a for a in attributes}`: the table is re-keyed by name -/
def rekeyByName {β} (t : List (Entry β)) : List (Entry β) := t.foldl (fun d e => dictSet e.name e d) []

/-- **C09_table_by_key.** A table rebuilt key by key binds every key to the transformed value of that same key, whatever
    the attribute names are (equal to the key, unrelated, shared by several keys): `values attached` needs no hypothesis on
    the names. -/
theorem C09_table_by_key {β γ} (f : β → γ) (t : List (Entry β)) (k : Nat) :
    tableAt (mapTable f t) k = (tableAt t k).map f ∧ (mapTable f t).map (·.key) = t.map (·.key) := by
  refine ⟨?_, by simp [mapTable]⟩
  induction t with
  | nil => rfl
  | cons e r ih =>
    simp only [mapTable, tableAt, List.map_cons, List.find?_cons] at ih ⊢
    cases h : (e.key == k) with
    | true => simp
    | false => simpa using ih

/-- the model's tables are rebuilt key by key: the keys of the filtered nodal / elemental tables are those of the input -/
theorem C09_filter_keeps_keys {α} (nodal : List (Nat × Attr α)) (elemental : List (Nat × EBlocks α)) (ids : List Id) :
    (∀ out, filterNodal nodal ids = some out → out.map (·.1) = nodal.map (·.1)) ∧
    (filterElemental elemental ids).map (·.1) = elemental.map (·.1) := by
  refine ⟨?_, by simp [filterElemental]⟩
  induction nodal with
  | nil => intro out h; simp [filterNodal, gather] at h; subst h; rfl
  | cons kv r ih =>
    intro out h
    simp only [filterNodal, gather] at h
    cases h1 : kv.2.filterWithIds ids with
    | none => simp [h1] at h
    | some a =>
      cases h2 : gather (fun (kv : Nat × Attr α) => (kv.2.filterWithIds ids).map fun a => (kv.1, a)) r with
      | none => simp [h1, h2] at h
      | some o =>
        simp [h1, h2] at h
        subst h
        simp [ih o (by simpa [filterNodal] using h2)]

/-- **C09_table_rekey_by_name_counterexample** (seeded C09-10).  Key 1 ('T_prev') is bound to an attribute that still
    carries the name of key 0 ('T').  Key by key both variables survive; re-keyed by name - the list form of the
    constructor - key 1 is lost and key 0 holds the OTHER variable's values.  No id, node or element is wrong. -/
theorem C09_table_rekey_by_name_counterexample :
    let t : List (Entry Nat) := [⟨0, 0, 10⟩, ⟨1, 0, 20⟩]
    (tableAt (mapTable (· + 1) t) 0 = some 11 ∧ tableAt (mapTable (· + 1) t) 1 = some 21) ∧
    tableAt (rekeyByName (mapTable (· + 1) t)) 1 = none ∧ tableAt (rekeyByName (mapTable (· + 1) t)) 0 = some 21 := by decide

theorem dictSet_append {β} (e : Entry β) (acc : List (Entry β)) (h : ∀ x ∈ acc, x.key ≠ e.key) :
    dictSet e.key e acc = acc ++ [e] := by
  induction acc with
  | nil => simp [dictSet]
  | cons x r ih =>
    have hx : (x.key == e.key) = false := by simpa using h x (by simp)
    simp [dictSet, hx, ih (fun y hy => h y (by simp [hy]))]

theorem rekey_foldl {β} (t acc : List (Entry β)) (hn : ∀ e ∈ t, e.name = e.key)
    (hd : (acc ++ t).Pairwise (fun a b => a.key ≠ b.key)) :
    t.foldl (fun d e => dictSet e.name e d) acc = acc ++ t := by
  induction t generalizing acc with
  | nil => simp
  | cons e r ih =>
    have he : e.name = e.key := hn e (by simp)
    have hacc : ∀ x ∈ acc, x.key ≠ e.key := by
      intro x hx
      have := List.pairwise_append.mp hd
      exact this.2.2 x hx e (by simp)
    simp only [List.foldl_cons, he, dictSet_append e acc hacc]
    rw [ih (acc ++ [e]) (fun y hy => hn y (by simp [hy])) (by simpa using hd)]
    simp

/-- **C09_table_rekey_blind.** On a table whose every attribute is named after its key (what the readers and
    `update_data` build: every table femio's own tests and a check with key = name ever see) re-keying by name is the
    identity - the reason a fresh-from-file mesh cannot distinguish the two constructors and the key -> name relation has
    to be a generator dimension. -/
theorem C09_table_rekey_blind {β} (t : List (Entry β)) (hn : ∀ e ∈ t, e.name = e.key)
    (hd : t.Pairwise (fun a b => a.key ≠ b.key)) : rekeyByName t = t := by
  simpa [rekeyByName] using rekey_foldl t [] hn (by simpa using hd)

example : rekeyByName ([⟨3, 3, 10⟩, ⟨1, 1, 20⟩, ⟨2, 2, 5⟩] : List (Entry Nat)) = [⟨3, 3, 10⟩, ⟨1, 1, 20⟩, ⟨2, 2, 5⟩] := by decide
example : tableAt (mapTable (· * 2) ([⟨3, 7, 10⟩, ⟨1, 7, 20⟩] : List (Entry Nat))) 1 = some 40 := by decide
end Femio.C09
