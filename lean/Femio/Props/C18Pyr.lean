import Femio.Model.Retype

/-! # C18 — table obligation for the pyramid kernel (DESIGN §5 F10)

Kept apart from `Props/C18.lean` on purpose: this `decide` is over the table that `harness/gen_tables.py` regenerates
by running `pyr_to_polyhedron` under a **non-identity** `argsort`; it does not type-check while the kernel emits
sorted ranks instead of storage positions (entries ≥ 1000 in the regenerated table). `Femio.lean` does not import
this module; `./check C18` builds and audits it. -/
namespace Femio.C18
open Femio.Gen

/-- **table obligation (F10).** The pyramid kernel, tabulated under a non-identity `argsort`, emits the storage
    positions of the element's own vertices in the pattern `pyrPolyFaces` — i.e. it applies `argsort[…]` like the
    other three kernels, whose regenerated tables the model uses directly. -/
theorem C18_pyr_table : polyFaces_pyr = pyrPolyFaces := by decide

/-- non-vacuity: the pattern is a genuine 5-face list over the local vertices 0..4 -/
example : pyrPolyFaces.length = 5 ∧ pyrPolyFaces.flatten.all (· < 5) = true := by decide

end Femio.C18
