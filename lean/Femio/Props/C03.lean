import Femio.Model.FistrCnt
import Femio.Model.FistrCntCanon
import Femio.Model.FistrCntHist
import Femio.Model.FistrCntGroups
import Femio.Lemmas.FistrMshProps
import Femio.Lemmas.CntProps
import Femio.Lemmas.FistrTextProps
import Femio.Lemmas.CntFile

/-! # C03 — FrontISTR `.cnt` write → read keeps the analysis conditions

Model: `Femio/Model/FistrCnt.lean` (text level) over `Femio/Model/Cnt.lean` (tables, `Presc`).
A table row is `(node id, cells)`, `none` = NaN = free; `Cnt.Presc t (i, d, x)` says that table `t`
prescribes value `x` on dof `d` of node `i` — the property's "(node id, degree of freedom, value)" set.

Proved in full: the per-kind round trips on the section level for **every** NaN pattern, node subset and
row order (values of any type `V`, in particular the exact decimals the text carries), the text level of
every data line (`C03_line_roundtrip`: what `%d,%d,%d,%.5E` … print is parsed back to the same
integers and the same decimal value), node-group expansion, the solution type.
The whole file: `C03_file_roundtrip` (the reader applied to everything `write_cnt` prints — boilerplate, comment /
blank filter, header scan, key search, `_extend_assignments`, row parsers — returns exactly `expectedCnt`) and
`C03_roundtrip` (the property: same prescription sets / scalar lists per kind), for every `WFCnt` input and every
node-group map; `C03_cflux_both_merged` says what happens outside `WFCnt` when `cflux` and `pure_cflux` are both given. -/
namespace Femio.C03
open Femio.Fistr Cnt Numeral

variable {V : Type}

/-! ### what the writers emit -/
theorem tableWidth_eq (t : List (Row V)) (w : Nat) (hw : ∀ r ∈ t, r.2.length = w) (hne : t ≠ []) : tableWidth t = w := by
  cases t with
  | nil => exact absurd rfl hne
  | cons r _ => exact hw r (by simp)

theorem mem_springRows (t : List (Row V)) (l : DLine V) :
    l ∈ springRows t ↔ ∃ r ∈ t, r.1 = l.id ∧ 1 ≤ l.dof ∧ r.2[l.dof - 1]? = some (some l.val) := by
  obtain ⟨i, d, x⟩ := l
  simp only [springRows, List.mem_flatMap, List.mem_filterMap, List.mem_range]
  constructor
  · rintro ⟨r, hr, k, hk, h⟩
    split at h
    · rename_i y hc
      simp only [Option.some.injEq, DLine.mk.injEq] at h
      obtain ⟨rfl, rfl, rfl⟩ := h
      exact ⟨r, hr, rfl, by omega, by simpa using hc⟩
    · cases h
  · rintro ⟨r, hr, rfl, h1, hc⟩
    have hlt : d - 1 < r.2.length := by
      by_contra hge
      rw [List.getElem?_eq_none (by omega)] at hc; cases hc
    refine ⟨r, hr, d - 1, hlt, ?_⟩
    rw [hc]
    simp only [Option.some.injEq, DLine.mk.injEq, true_and, and_true]
    omega

theorem presc_readDLine (l : DLine V) (hl : 1 ≤ l.dof) (p : Nat × Nat × V) :
    Presc [readDLine l] p ↔ (p.1 = l.id ∧ p.2.1 = l.dof ∧ p.2.1 ≤ 3 ∧ p.2.2 = l.val) := by
  obtain ⟨i, d, x⟩ := p
  simp only [Presc, List.mem_singleton, exists_eq_left, readDLine, List.getElem?_map]
  constructor
  · rintro ⟨hid, h1, hc⟩
    by_cases hd : d - 1 < 3
    · rw [List.getElem?_range hd] at hc
      simp only [Option.map_some, Option.some.injEq] at hc
      split at hc
      · cases hc; exact ⟨hid.symm, by omega, by omega, rfl⟩
      · cases hc
    · rw [List.getElem?_eq_none (by simpa using hd)] at hc; simp at hc
  · rintro ⟨rfl, rfl, h3, rfl⟩
    refine ⟨rfl, hl, ?_⟩
    rw [List.getElem?_range (by omega)]
    simp

/-- **C03 (boundary)**: the table read from the `!BOUNDARY` rows the writer emits for `t` denotes exactly
    the prescriptions of `t` — every NaN pattern, node subset, row order; 3 translational dofs. -/
theorem C03_boundary_roundtrip (t : List (Row V)) (hw : ∀ r ∈ t, r.2.length = 3) (p : Nat × Nat × V) :
    Presc ((boundaryRows t).map readBLine) p ↔ Presc t p := by
  by_cases hne : t = []
  · subst hne; simp [boundaryRows, genConstraints, Presc, tableWidth]
  · have := boundary_roundtrip t hw p
    simpa only [boundaryRows, tableWidth_eq t 3 hw hne, readBoundary, writeBoundary] using this

example : Presc ((boundaryRows [(7, [none, some (5 : Nat), none]), (3, [some 1, none, some 2])]).map readBLine) (3, 3, 2) :=
  (C03_boundary_roundtrip _ (by decide) _).mpr ⟨(3, [some 1, none, some 2]), by decide, rfl, by decide, rfl⟩

/-- the hypothesis "3 dofs" is necessary: a prescription on dof 4 of a 6-wide table is written but not read
    back (`d[start-1:end] = value` on a 3-wide row) — F14, outside the property's tables -/
theorem C03_boundary_dof_gt3_lost :
    Presc [(1, [none, none, none, some (9 : Nat), none, none])] (1, 4, 9) ∧
    ¬ Presc ((boundaryRows [(1, [none, none, none, some (9 : Nat), none, none])]).map readBLine) (1, 4, 9) := by
  constructor
  · exact ⟨(1, [none, none, none, some 9, none, none]), by simp, rfl, by decide, rfl⟩
  · rintro ⟨r, hr, -, -, hc⟩
    simp only [boundaryRows, tableWidth, genConstraints] at hr
    revert hc; revert hr; revert r; decide

/-- **C03 (cload)**: same statement for `!CLOAD` rows (`id, dof, value`; `d[dof-1] = value`). -/
theorem C03_cload_roundtrip (t : List (Row V)) (hw : ∀ r ∈ t, r.2.length = 3) (p : Nat × Nat × V) :
    Presc ((cloadRows t).map readDLine) p ↔ Presc t p := by
  obtain ⟨i, d, x⟩ := p
  by_cases hne : t = []
  · subst hne; simp [cloadRows, genConstraints, Presc, tableWidth]
  rw [presc_map]
  simp only [cloadRows, tableWidth_eq t 3 hw hne, List.mem_map, Prod.exists]
  constructor
  · rintro ⟨l, ⟨i', d', x', hmem, rfl⟩, hp⟩
    obtain ⟨r, hr, hid, h1, _, hc⟩ := (mem_gen 3 t _ _ _).mp hmem
    rw [presc_readDLine _ h1] at hp
    obtain ⟨rfl, rfl, _, rfl⟩ := hp
    exact ⟨r, hr, hid, h1, hc⟩
  · rintro ⟨r, hr, hid, h1, hc⟩
    simp only at hid h1 hc
    have hd3 : d ≤ 3 := by
      by_contra hgt
      rw [List.getElem?_eq_none (by rw [hw r hr]; omega)] at hc; cases hc
    refine ⟨⟨i, d, x⟩, ⟨i, d, x, (mem_gen 3 t i d x).mpr ⟨r, hr, hid, h1, hd3, hc⟩, rfl⟩, ?_⟩
    rw [presc_readDLine _ h1]; exact ⟨rfl, rfl, hd3, rfl⟩

example : Presc ((cloadRows [(4, [none, some (2 : Nat), none])]).map readDLine) (4, 2, 2) :=
  (C03_cload_roundtrip _ (by decide) _).mpr ⟨(4, [none, some 2, none]), by simp, rfl, by decide, rfl⟩

/-- **C03 (spring)**: same statement for `!SPRING` rows, which the writer emits row-major (`np.where`). -/
theorem C03_spring_roundtrip (t : List (Row V)) (hw : ∀ r ∈ t, r.2.length = 3) (p : Nat × Nat × V) :
    Presc ((springRows t).map readDLine) p ↔ Presc t p := by
  obtain ⟨i, d, x⟩ := p
  rw [presc_map]
  constructor
  · rintro ⟨l, hmem, hp⟩
    obtain ⟨r, hr, hid, h1, hc⟩ := (mem_springRows t l).mp hmem
    rw [presc_readDLine _ h1] at hp
    obtain ⟨rfl, rfl, _, rfl⟩ := hp
    exact ⟨r, hr, hid, h1, hc⟩
  · rintro ⟨r, hr, hid, h1, hc⟩
    simp only at hid h1 hc
    have hd3 : d ≤ 3 := by
      by_contra hgt
      rw [List.getElem?_eq_none (by rw [hw r hr]; omega)] at hc; cases hc
    refine ⟨⟨i, d, x⟩, (mem_springRows t _).mpr ⟨r, hr, hid, h1, hc⟩, ?_⟩
    rw [presc_readDLine _ h1]; exact ⟨rfl, rfl, hd3, rfl⟩

example : Presc ((springRows [(3, [none, some (25 : Nat), some 1]), (8, [some 7, none, none])]).map readDLine) (8, 1, 7) :=
  (C03_spring_roundtrip _ (by decide) _).mpr ⟨(8, [some 7, none, none]), by decide, rfl, by decide, rfl⟩

/-! ### text level of the data lines -/
theorem comma_not_mem_renderSci (p : Nat) (s : Sci) : ',' ∉ renderSci p s := by
  intro hc
  simp only [renderSci, List.mem_append, List.mem_cons] at hc
  rcases hc with ((hc | hc) | hc | hc) | hc | hc | hc
  · cases hn : s.neg <;> simp [hn] at hc
  · exact comma_not_mem_showNat _ hc
  · cases hc
  · exact not_mem_of_digits (fixDigits_isDigit _ _) ',' (by decide) hc
  · cases hc
  · split at hc <;> cases hc
  · exact not_mem_of_digits (expDigits_isDigit _) ',' (by decide) hc

/-- **C03 (data lines)**: every data line the writer prints (`%d,%d,%d,%.5E`, `%d,%d,%E`, `%d,%.12E`) is parsed
    back to the same integers and to exactly the decimal value printed — any id, dof, mantissa, exponent, sign. -/
theorem C03_line_roundtrip :
    (∀ l : BLine Sci, parseBLine (bLineText l) = some ⟨l.id, l.first, l.last, l.val.toDec 5⟩) ∧
    (∀ l : DLine Sci, parseDLine (dLineText l) = some ⟨l.id, l.dof, l.val.toDec 6⟩) ∧
    (∀ r : Nat × Sci, parseSLine (sLineText r) = some (r.1, r.2.toDec 12)) := by
  refine ⟨fun l => ?_, fun l => ?_, fun r => ?_⟩
  · unfold parseBLine bLineText
    rw [split_join ',' _ (by simp) (by
      intro f hf; simp only [List.mem_cons, List.not_mem_nil, or_false] at hf
      rcases hf with rfl | rfl | rfl | rfl
      · exact comma_not_mem_showNat _
      · exact comma_not_mem_showNat _
      · exact comma_not_mem_showNat _
      · exact comma_not_mem_renderSci _ _)]
    simp [parseNatTok_showNat, parseDec_renderSci]
  · unfold parseDLine dLineText
    rw [split_join ',' _ (by simp) (by
      intro f hf; simp only [List.mem_cons, List.not_mem_nil, or_false] at hf
      rcases hf with rfl | rfl | rfl
      · exact comma_not_mem_showNat _
      · exact comma_not_mem_showNat _
      · exact comma_not_mem_renderSci _ _)]
    simp [parseNatTok_showNat, parseDec_renderSci]
  · unfold parseSLine sLineText
    rw [split_join ',' _ (by simp) (by
      intro f hf; simp only [List.mem_cons, List.not_mem_nil, or_false] at hf
      rcases hf with rfl | rfl
      · exact comma_not_mem_showNat _
      · exact comma_not_mem_renderSci _ _)]
    simp [parseNatTok_showNat, parseDec_renderSci]

example : parseBLine (bLineText ⟨10, 3, 3, ⟨false, 150000, 0⟩⟩) = some ⟨10, 3, 3, ⟨false, 150000, -5⟩⟩ := by decide
example : bLineText ⟨10, 3, 3, ⟨false, 150000, 0⟩⟩ = c!"10,3,3,1.50000E+00" := by decide

theorem mapM_of_forall {α β} (f : α → Option β) (g : α → β) (h : ∀ a, f a = some (g a)) (l : List α) :
    l.mapM f = some (l.map g) := by
  induction l with
  | nil => rfl
  | cons a t ih => simp [List.mapM_cons, h a, ih]

/-- **C03 (fixtemp)**: the rows of a written `!FIXTEMP` section parse back to the same (node, value) list, in order -/
theorem C03_fixtemp_roundtrip (t : List (Nat × Sci)) :
    (t.map sLineText).mapM parseSLine = some (t.map fun r => (r.1, r.2.toDec 12)) := by
  rw [List.mapM_map]
  exact mapM_of_forall _ _ (fun r => C03_line_roundtrip.2.2 r) t

/-- **C03 (cflux / pure cflux)**: same rows, same reader -/
theorem C03_cflux_roundtrip (t : List (Nat × Sci)) :
    (t.map sLineText).mapM parseSLine = some (t.map fun r => (r.1, r.2.toDec 12)) := C03_fixtemp_roundtrip t

example : ([(15, (⟨true, 2250000000000, 0⟩ : Sci))].map sLineText).mapM parseSLine = some [(15, ⟨true, 2250000000000, -12⟩)] :=
  C03_fixtemp_roundtrip _

/-! ### node groups -/
/-- **C03 (group expansion)**: rows addressed to node-group names denote exactly the prescriptions of the same
    rows listed for each member of the group, for every group map and every mix of group and explicit rows
    (the reader's re-ordering — expanded rows first — is immaterial). -/
theorem C03_group_expansion (groups : Nat → List Nat) (ls : List (GLine V)) (p : Nat × Nat × V) :
    Presc (readBoundary (extend groups ls)) p ↔ Presc (readBoundary (explicit groups ls)) p :=
  group_expansion groups ls p

example : Presc (readBoundary (extend (fun _ => [4, 9]) [⟨.group 0, 1, 3, (5 : Nat)⟩, ⟨.node 2, 2, 2, 6⟩])) (9, 2, 5) := by
  refine ⟨readBLine ⟨9, 1, 3, 5⟩, by simp [readBoundary, extend], rfl, by decide, by decide⟩

/-! ### solution type -/
theorem isPrefix_append (k s : List Char) : isPrefix k (k ++ s) = true := by
  induction k with
  | nil => rfl
  | cons a k ih => simp [isPrefix, ih]

theorem takeWhile_word (s : List Char) (hs : ∀ c ∈ s, isWord c = true) : s.takeWhile isWord = s :=
  (span_all isWord s hs).1

/-- **C03 (solution type)**: for every solution-type token `s` (non-empty, `\w` characters — in particular every type
    the writer knows) the `!SOLUTION` line the writer prints is read back as `s`. -/
theorem C03_solution_type (s : Name) (hne : s ≠ []) (hs : ∀ c ∈ s, isWord c = true) :
    capture c!"TYPE=" (solutionLine s) = some s := by
  have htw := takeWhile_word s hs
  simp [solutionLine, capture, isPrefix, htw, hne]

/-- … and the whole written control file of the known types reads back its solution type (`decide`d on the
    model's complete output, including the `!SOLVER` … boilerplate that also contains `TYPE`-free headers) -/
theorem C03_solution_type_known :
    ∀ s ∈ [c!"STATIC", c!"HEAT"], ∀ os ∈ [true, false],
      (writeCnt ⟨s, os, none, none, none, none, none, none⟩).bind readSolution = some s := by decide

/-! ### the whole file -/
open Femio.Fistr.CntFile

/-- the table of the exact decimal values the text `%.kE` carries -/
def decTable (k : Nat) (t : List (Row Sci)) : List (Row Dec) :=
  t.map fun r => (r.1, r.2.map (Option.map (Sci.toDec k)))

/- `decB`, `decD`, `decS`, `WFCntBase`, `WFCnt` (decidable), `expectedCnt` are defined in `Model/FistrCntCanon.lean`
   (core only: the driver evaluates them on every generated case). -/

theorem readBLineG_written (o : Option (List (Row Sci))) :
    ∀ l ∈ optL o boundaryRows, readBLineG (decB l) = some (readBLine (decB l)) := by
  intro l hl
  obtain ⟨t, -, hl⟩ := (mem_optL _ _ _).mp hl
  simp only [boundaryRows, List.mem_map] at hl
  obtain ⟨⟨i, d, x⟩, hm, rfl⟩ := hl
  obtain ⟨r, _, _, h1, _, _⟩ := (mem_gen _ t i d x).mp hm
  have : d ≠ 0 := by omega
  simp [readBLineG, decB, this]

theorem readDLineG_cload_written (o : Option (List (Row Sci))) (hw : ∀ t, o = some t → ∀ r ∈ t, r.2.length = 3) :
    ∀ l ∈ optL o cloadRows, readDLineG (decD l) = some (readDLine (decD l)) := by
  intro l hl
  obtain ⟨t, ho, hl⟩ := (mem_optL _ _ _).mp hl
  simp only [cloadRows, List.mem_map] at hl
  obtain ⟨⟨i, d, x⟩, hm, rfl⟩ := hl
  obtain ⟨r, hr, _, h1, h2, _⟩ := (mem_gen _ t i d x).mp hm
  rw [tableWidth_eq t 3 (hw t ho) (List.ne_nil_of_mem hr)] at h2
  have : ¬ (d = 0 ∨ 3 < d) := by omega
  simp [readDLineG, decD, this]

theorem readDLineG_spring_written (o : Option (List (Row Sci))) (hw : ∀ t, o = some t → ∀ r ∈ t, r.2.length = 3) :
    ∀ l ∈ optL o springRows, readDLineG (decD l) = some (readDLine (decD l)) := by
  intro l hl
  obtain ⟨t, ho, hl⟩ := (mem_optL _ _ _).mp hl
  obtain ⟨r, hr, _, h1, hc⟩ := (mem_springRows t l).mp hl
  have hlt : l.dof - 1 < r.2.length := by
    by_contra hge
    rw [List.getElem?_eq_none (by omega)] at hc; cases hc
  rw [hw t ho r hr] at hlt
  have : ¬ (l.dof = 0 ∨ 3 < l.dof) := by omega
  simp [readDLineG, decD, this]

/-- the reader on the lines `write_cnt` emits, before the `cflux` / `pure_cflux` decision: every part of `_read_cnt`
    evaluated on the whole file, for every node-group map -/
theorem readCnt_written (ng : List (Name × List Nat)) (c : CntIn) (hne : c.solution ≠ [])
    (hs : ∀ ch ∈ c.solution, isWord ch = true) (hws : ∀ t, c.spring = some t → ∀ r ∈ t, r.2.length = 3)
    (hwl : ∀ t, c.cload = some t → ∀ r ∈ t, r.2.length = 3) :
    readCnt ng (cntText c) = finishCflux c.solution
      (nonemptyOr ((optL c.boundary boundaryRows).map fun l => readBLine (decB l)))
      (nonemptyOr ((optL c.spring springRows).map fun l => readDLine (decD l)))
      (nonemptyOr ((optL c.cload cloadRows).map fun l => readDLine (decD l)))
      (nonemptyOr ((optL c.fixtemp id).map decS))
      (nonemptyOr ((optL c.cflux id ++ optL c.pureCflux id).map decS))
      (optL c.pureCflux fun _ => [c!"PURE"]) := by
  rw [← cflux_types c hs]
  exact readCnt_eq ng _ _ _ _ _ _ _ _
    (by rw [readSolution_cntText c hs]; exact C03_solution_type _ hne hs) (toBlocks_cntText c hs)
    (readSection_rows ng _ _ _ _ _ bLineText decB (fun l => readBLine (decB l)) (extractData_cnt_boundary c hs)
      goodRow_bLine C03_line_roundtrip.1 (readBLineG_written _))
    (readSection_rows ng _ _ _ _ _ dLineText decD (fun l => readDLine (decD l)) (extractData_cnt_spring c hs)
      goodRow_dLine C03_line_roundtrip.2.1 (readDLineG_spring_written _ hws))
    (readSection_rows ng _ _ _ _ _ dLineText decD (fun l => readDLine (decD l)) (extractData_cnt_cload c hs)
      goodRow_dLine C03_line_roundtrip.2.1 (readDLineG_cload_written _ hwl))
    (readSection_rows ng _ _ _ _ _ sLineText decS decS (extractData_cnt_fixtemp c hs)
      goodRow_sLine C03_line_roundtrip.2.2 (fun _ _ => rfl))
    (readSection_rows ng _ _ _ _ _ sLineText decS decS (extractData_cnt_cflux c hs)
      goodRow_sLine C03_line_roundtrip.2.2 (fun _ _ => rfl))

/-- a control-file input with every kind of section: boundary with a mixed NaN pattern, an all-NaN row and shuffled
    ids, spring, cload, fixtemp, cflux -/
def exCnt : CntIn where
  solution := c!"STATIC"
  onlySolid := true
  boundary := some [(7, [none, some ⟨false, 150000, 0⟩, none]), (3, [some ⟨true, 100000, -2⟩, none, some ⟨false, 0, 0⟩]),
                    (12, [none, none, none])]
  spring := some [(5, [none, some ⟨false, 2500000, 3⟩, some ⟨false, 1000000, 0⟩]), (2, [some ⟨false, 7000000, 1⟩, none, none])]
  cload := some [(4, [none, some ⟨true, 2000000, 1⟩, none])]
  fixtemp := some [(9, ⟨false, 3000000000000, 2⟩), (1, ⟨false, 2731500000000, 2⟩)]
  cflux := some [(15, ⟨true, 2250000000000, 0⟩)]
  pureCflux := none

example : WFCnt exCnt := by decide

/-- **C03 (whole file)**: for every well-formed input `c` (`WFCnt`: `\w+` solution type, 3-wide tables, boundary and
    cload not all-NaN, not both cflux kinds) and **every** node-group map `ng`, `write_cnt` succeeds and `_read_cnt`
    applied to the whole written file — boilerplate included, through the comment / blank filter, the header scan,
    the key search, `_extend_assignments` and the row parsers — returns exactly `expectedCnt c`: the solution type,
    per section the table rebuilt from the written rows (exact decimal values), and "absent" for every section that
    was not given or has no entry. -/
theorem C03_file_roundtrip (ng : List (Name × List Nat)) (c : CntIn) (h : WFCnt c) :
    (writeCnt c).bind (readCnt ng) = some (expectedCnt c) := by
  obtain ⟨⟨⟨hne, hs⟩, hb, hsp, hl⟩, hx⟩ := h
  rw [writeCnt_eq c (fun t ht => (hb t ht).2) (fun t ht => (hl t ht).2), Option.bind_some,
    readCnt_written ng c hne hs hsp (fun t ht => (hl t ht).1)]
  have hB : nonemptyOr ((optL c.boundary boundaryRows).map fun l => readBLine (decB l)) = (expectedCnt c).boundary := by
    rw [nonemptyOr_optL]
    cases hc : c.boundary with
    | none => simp [expectedCnt, hc]
    | some t => simp [expectedCnt, hc, nonemptyOr_of_ne _ (by simpa using (hb t hc).2 : (boundaryRows t).map _ ≠ [])]
  have hL : nonemptyOr ((optL c.cload cloadRows).map fun l => readDLine (decD l)) = (expectedCnt c).cload := by
    rw [nonemptyOr_optL]
    cases hc : c.cload with
    | none => simp [expectedCnt, hc]
    | some t => simp [expectedCnt, hc, nonemptyOr_of_ne _ (by simpa using (hl t hc).2 : (cloadRows t).map _ ≠ [])]
  have hS : nonemptyOr ((optL c.spring springRows).map fun l => readDLine (decD l)) = (expectedCnt c).spring :=
    nonemptyOr_optL _ _ _
  have hF : nonemptyOr ((optL c.fixtemp id).map decS) = (expectedCnt c).fixtemp := nonemptyOr_optL _ _ _
  rw [hB, hL, hS, hF]
  have key : ∀ cf pf, (expectedCnt c).cflux = cf → (expectedCnt c).pureCflux = pf →
      some (⟨c.solution, (expectedCnt c).boundary, (expectedCnt c).spring, (expectedCnt c).cload,
        (expectedCnt c).fixtemp, cf, pf⟩ : CntRead) = some (expectedCnt c) := by
    intro cf pf h1 h2; subst h1; subst h2; rfl
  rcases hx with hx | hx
  · -- only `pure_cflux` may be present
    have e1 : (expectedCnt c).cflux = none := by simp [expectedCnt, hx]
    cases hp : c.pureCflux with
    | none =>
      have e2 : (expectedCnt c).pureCflux = none := by simp [expectedCnt, hp]
      simp only [hx, optL, List.append_nil, List.map_nil, nonemptyOr, List.isEmpty_nil, if_true, finishCflux]
      exact key _ _ e1 e2
    | some t =>
      cases t with
      | nil =>
        have e2 : (expectedCnt c).pureCflux = none := by simp [expectedCnt, hp, nonemptyOr]
        simp only [hx, optL, List.append_nil, List.map_nil, nonemptyOr, List.isEmpty_nil, if_true, finishCflux, id]
        exact key _ _ e1 e2
      | cons r t =>
        have e2 : (expectedCnt c).pureCflux = some ((r :: t).map decS) := by simp [expectedCnt, hp, nonemptyOr]
        simp only [hx, optL, List.nil_append, id, List.map_cons, nonemptyOr, List.isEmpty_cons, Bool.false_eq_true,
          if_false, finishCflux, if_true]
        exact key _ _ e1 e2
  · -- only `cflux` may be present
    have e2 : (expectedCnt c).pureCflux = none := by simp [expectedCnt, hx]
    cases hp : c.cflux with
    | none =>
      have e1 : (expectedCnt c).cflux = none := by simp [expectedCnt, hp]
      simp only [hx, optL, List.append_nil, List.map_nil, nonemptyOr, List.isEmpty_nil, if_true, finishCflux]
      exact key _ _ e1 e2
    | some t =>
      cases t with
      | nil =>
        have e1 : (expectedCnt c).cflux = none := by simp [expectedCnt, hp, nonemptyOr]
        simp only [hx, optL, List.append_nil, List.map_nil, nonemptyOr, List.isEmpty_nil, if_true, finishCflux, id]
        exact key _ _ e1 e2
      | cons r t =>
        have e1 : (expectedCnt c).cflux = some ((r :: t).map decS) := by simp [expectedCnt, hp, nonemptyOr]
        simp only [hx, optL, List.append_nil, id, List.map_cons, nonemptyOr, List.isEmpty_cons, Bool.false_eq_true,
          if_false, finishCflux, List.isEmpty_nil, if_true]
        exact key _ _ e1 e2

example : (writeCnt exCnt).bind (readCnt []) = some (expectedCnt exCnt) := C03_file_roundtrip [] exCnt (by decide)
example : (writeCnt exCnt).bind (readCnt [(c!"ALL", [1, 2, 3]), (c!"E1", [7])]) = some (expectedCnt exCnt) :=
  C03_file_roundtrip _ exCnt (by decide)

/-- empty tables: a spring table without entries and an empty fixtemp list are written as a header plus one empty
    line and read back as absent -/
def exCntEmpty : CntIn where
  solution := c!"HEAT"
  onlySolid := false
  boundary := none
  spring := some [(5, [none, none, none])]
  cload := none
  fixtemp := some []
  cflux := none
  pureCflux := some [(8, ⟨false, 1500000000000, 1⟩)]

example : (writeCnt exCntEmpty).bind (readCnt []) = some (expectedCnt exCntEmpty) ∧
    (expectedCnt exCntEmpty).spring = none ∧ (expectedCnt exCntEmpty).fixtemp = none ∧
    (expectedCnt exCntEmpty).pureCflux = some [(8, ⟨false, 1500000000000, -11⟩)] :=
  ⟨C03_file_roundtrip [] exCntEmpty (by decide), rfl, rfl, rfl⟩

/-- the prescriptions of an optional section: an absent section prescribes nothing -/
def prescOpt {W : Type} (o : Option (List (Row W))) (p : Nat × Nat × W) : Prop := ∃ t, o = some t ∧ Presc t p

/-- a scalar section (`fixtemp`, `cflux`, `pure_cflux`) read back: not given ↦ absent, no rows ↦ absent, otherwise
    the same (node id, value) list in the same order with the exact decimal values of `%.12E` -/
def scalarKept (o : Option (List (Nat × Sci))) (o' : Option (List (Nat × Dec))) : Prop :=
  (o = none → o' = none) ∧
  ∀ t, o = some t → (t = [] → o' = none) ∧ (t ≠ [] → o' = some (t.map fun r => (r.1, r.2.toDec 12)))

theorem prescOpt_nonemptyOr {W : Type} (l : List (Row W)) (p : Nat × Nat × W) : prescOpt (nonemptyOr l) p ↔ Presc l p := by
  cases l with
  | nil => simp [prescOpt, nonemptyOr, Presc]
  | cons a t => simp [prescOpt, nonemptyOr]

theorem scalarKept_expected (o : Option (List (Nat × Sci))) : scalarKept o (o.bind fun t => nonemptyOr (t.map decS)) := by
  cases o with
  | none => simp [scalarKept]
  | some t =>
    cases t with
    | nil => simp [scalarKept, nonemptyOr]
    | cons a t => simp [scalarKept, nonemptyOr, decS]

theorem boundary_dec (t : List (Row Sci)) :
    (boundaryRows t).map (fun l => readBLine (decB l)) = (boundaryRows (decTable 5 t)).map readBLine := by
  rw [show decTable 5 t = mapTable (Sci.toDec 5) t from rfl, boundaryRows_mapTable, List.map_map]; rfl

theorem cload_dec (t : List (Row Sci)) :
    (cloadRows t).map (fun l => readDLine (decD l)) = (cloadRows (decTable 6 t)).map readDLine := by
  rw [show decTable 6 t = mapTable (Sci.toDec 6) t from rfl, cloadRows_mapTable, List.map_map]; rfl

theorem spring_dec (t : List (Row Sci)) :
    (springRows t).map (fun l => readDLine (decD l)) = (springRows (decTable 6 t)).map readDLine := by
  rw [show decTable 6 t = mapTable (Sci.toDec 6) t from rfl, springRows_mapTable, List.map_map]; rfl

/-- **C03 (the property, whole file)**: for every well-formed input and every node-group map, writing the control
    file and reading the whole file back succeeds and keeps the analysis conditions:
    the solution type; for `boundary` and `cload` a table is read iff one was given and it denotes exactly the
    prescriptions `(node id, dof, value)` of the given table (values = the exact decimals of `%.5E` / `%E`);
    for `spring` the prescriptions read (an absent section prescribes nothing) are exactly those given;
    `fixtemp` / `cflux` / `pure_cflux` come back as the same (node id, value) list in order (`%.12E`), absent iff
    not given or empty. Every NaN pattern, node subset and row order. -/
theorem C03_roundtrip (ng : List (Name × List Nat)) (c : CntIn) (h : WFCnt c) :
    ∃ r, (writeCnt c).bind (readCnt ng) = some r ∧ r.solution = c.solution ∧
      ((c.boundary = none → r.boundary = none) ∧
        ∀ t, c.boundary = some t → ∃ t', r.boundary = some t' ∧ ∀ p, Presc t' p ↔ Presc (decTable 5 t) p) ∧
      ((c.spring = none → r.spring = none) ∧
        ∀ t, c.spring = some t → ∀ p, prescOpt r.spring p ↔ Presc (decTable 6 t) p) ∧
      ((c.cload = none → r.cload = none) ∧
        ∀ t, c.cload = some t → ∃ t', r.cload = some t' ∧ ∀ p, Presc t' p ↔ Presc (decTable 6 t) p) ∧
      scalarKept c.fixtemp r.fixtemp ∧ scalarKept c.cflux r.cflux ∧ scalarKept c.pureCflux r.pureCflux := by
  have hfile := C03_file_roundtrip ng c h
  obtain ⟨⟨-, hb, hsp, hl⟩, -⟩ := h
  refine ⟨expectedCnt c, hfile, rfl, ⟨?_, ?_⟩, ⟨?_, ?_⟩, ⟨?_, ?_⟩, scalarKept_expected _, scalarKept_expected _,
    scalarKept_expected _⟩
  · intro hc; simp [expectedCnt, hc]
  · intro t hc
    refine ⟨(boundaryRows t).map fun l => readBLine (decB l), by simp [expectedCnt, hc], fun p => ?_⟩
    rw [boundary_dec]
    exact C03_boundary_roundtrip (decTable 5 t) (mapTable_width _ t 3 (hb t hc).1) p
  · intro hc; simp [expectedCnt, hc]
  · intro t hc p
    have : (expectedCnt c).spring = nonemptyOr ((springRows t).map fun l => readDLine (decD l)) := by
      simp [expectedCnt, hc]
    rw [this, prescOpt_nonemptyOr, spring_dec]
    exact C03_spring_roundtrip (decTable 6 t) (mapTable_width _ t 3 (hsp t hc)) p
  · intro hc; simp [expectedCnt, hc]
  · intro t hc
    refine ⟨(cloadRows t).map fun l => readDLine (decD l), by simp [expectedCnt, hc], fun p => ?_⟩
    rw [cload_dec]
    exact C03_cload_roundtrip (decTable 6 t) (mapTable_width _ t 3 (hl t hc).1) p

/-- on `exCnt` (through the theorem): node 3 is fixed to `-1.00000E-02 = -100000·10⁻⁷` on dof 1 after the round trip,
    and the `fixtemp` list comes back in its order -/
example : ∃ r, (writeCnt exCnt).bind (readCnt []) = some r ∧
    (∃ t', r.boundary = some t' ∧ Presc t' (3, 1, ⟨true, 100000, -7⟩)) ∧
    r.fixtemp = some [(9, ⟨false, 3000000000000, -10⟩), (1, ⟨false, 2731500000000, -10⟩)] := by
  obtain ⟨r, hr, -, ⟨-, hb⟩, -, -, hft, -, -⟩ := C03_roundtrip [] exCnt (by decide)
  obtain ⟨t', ht', hp⟩ := hb _ rfl
  refine ⟨r, hr, ⟨t', ht', (hp _).mpr ?_⟩, (hft.2 _ rfl).2 (by decide)⟩
  exact ⟨(3, [some ⟨true, 100000, -7⟩, none, some ⟨false, 0, -5⟩]), by decide, rfl, by decide, rfl⟩

/-- **C03 (both cflux kinds, outside `WFCnt`)**: when `cflux` and `pure_cflux` are both given, `write_cnt` prints a
    `!CFLUX` and a `!CFLUX, TYPE=PURE` block, the reader's key `!CFLUX` matches both, and all rows come back merged
    under `pure_cflux` while `cflux` is lost — this is why `WFCnt` excludes the combination. -/
theorem C03_cflux_both_merged (ng : List (Name × List Nat)) (c : CntIn) (h : WFCntBase c) (t1 t2 : List (Nat × Sci))
    (h1 : c.cflux = some t1) (h2 : c.pureCflux = some t2) :
    ∃ r, (writeCnt c).bind (readCnt ng) = some r ∧ r.cflux = none ∧ r.pureCflux = nonemptyOr ((t1 ++ t2).map decS) := by
  obtain ⟨⟨hne, hs⟩, hb, hsp, hl⟩ := h
  rw [writeCnt_eq c (fun t ht => (hb t ht).2) (fun t ht => (hl t ht).2), Option.bind_some,
    readCnt_written ng c hne hs hsp (fun t ht => (hl t ht).1)]
  simp only [h1, h2, optL, id]
  rcases hL : List.map decS (t1 ++ t2) with _ | ⟨a, l⟩
  · exact ⟨_, rfl, rfl, rfl⟩
  · exact ⟨_, rfl, rfl, rfl⟩

/-- `exCnt` with a `pure_cflux` list as well -/
def exCntBoth : CntIn := { exCnt with pureCflux := some [(2, ⟨false, 1000000000000, 0⟩)] }

example : ∃ r, (writeCnt exCntBoth).bind (readCnt []) = some r ∧
    r.cflux = none ∧ r.pureCflux = some [(15, ⟨true, 2250000000000, -12⟩), (2, ⟨false, 1000000000000, -12⟩)] :=
  C03_cflux_both_merged [] exCntBoth (by decide) _ _ rfl rfl

/-! ### histories: the object is modified through public means between construction and `write()`

Model: `Femio/Model/FistrCntHist.lean` - a live constraint kind is `(ids, arr, frame)` (`FEMAttribute._data` and
`._data_frame`, which do not share memory), `ObjOp` = in-place edits through the arrays returned by `.data`, the data
setter / `update_data` / `overwrite`, `.loc` / `.iloc` write-through, replacing / adding / removing a kind, changing the
solution type.  `ObjSt.state` is the CURRENT public state `(.ids, .data)`; `HistCfg.fromArray` is whether the writer takes
the `!BOUNDARY` / `!CLOAD` rows from `.data` (the tree) or from `data_frame` (seeded change C03-6). -/

theorem zip_map_fst_snd {α β : Type} (l : List (α × β)) : (l.map (·.1)).zip (l.map (·.2)) = l := by
  induction l with
  | nil => rfl
  | cons a l ih => simp only [List.map_cons, List.zip_cons_cons, ih]

theorem rows_fresh {ρ : Type} (rows : List (Nat × ρ)) : (AttrSt.fresh rows).rows = rows := zip_map_fst_snd rows
theorem frameRows_fresh {ρ : Type} (rows : List (Nat × ρ)) : (AttrSt.fresh rows).frameRows = rows := zip_map_fst_snd rows

theorem optmap_fresh {ρ : Type} (g : AttrSt ρ → List (Nat × ρ)) (hg : ∀ rows, g (AttrSt.fresh rows) = rows)
    (o : Option (List (Nat × ρ))) : (o.map AttrSt.fresh).map g = o := by
  cases o with
  | none => rfl
  | some t => simp only [Option.map_some, hg]

/-- the view of an object that is written as constructed is the input it was constructed from - whichever of the two
    representations the writer reads -/
theorem view_fresh (cfg : HistCfg) (c : CntIn) : (ObjSt.fresh c).view cfg = c := by
  obtain ⟨fa⟩ := cfg
  cases fa <;>
    simp only [ObjSt.view, ObjSt.fresh, optmap_fresh _ rows_fresh, optmap_fresh _ frameRows_fresh, if_true, if_false,
      Bool.false_eq_true]

/-- **C03 (objects written as constructed cannot tell the writers apart)**: for an object that was not modified
    between construction and `write()` the control file is `writeCnt c` whether the writer reads `.data` or the pandas
    frame - which is why a check that writes every object exactly as constructed cannot see a writer that reads the
    stale representation (seeded C03-6), and why the history dimension is needed. -/
theorem C03_history_fresh_any_cfg (cfg : HistCfg) (c : CntIn) : writeObj cfg (ObjSt.fresh c) = writeCnt c := by
  rw [writeObj, view_fresh]

/-- **C03 (history, whole file)**: for every object `o`, every sequence `ops` of public modifications between
    construction and `write()` (in-place edits through `.data`, data setter, write-through, replacing / adding /
    removing kinds, solution type) whose final public state is well-formed, and every node-group map: the control file
    written for the modified object reads back to exactly `expectedCnt` of its CURRENT public state
    `(o.run ops).state` - prescriptions added, changed and released by the edits included. -/
theorem C03_history_roundtrip (ng : List (Name × List Nat)) (o : ObjSt) (ops : List ObjOp) (h : WFCnt (o.run ops).state) :
    (writeObj HistCfg.fixed (o.run ops)).bind (readCnt ng) = some (expectedCnt (o.run ops).state) :=
  C03_file_roundtrip ng _ h

/-- **C03 (history, the property)**: `C03_roundtrip` for the current public state of a modified object: the file written
    after the modifications keeps the solution type and, per kind, exactly the prescription set `(node id, dof, value)`
    of the table the object holds when `write()` is called. -/
theorem C03_history_property (ng : List (Name × List Nat)) (o : ObjSt) (ops : List ObjOp) (h : WFCnt (o.run ops).state) :
    ∃ r, (writeObj HistCfg.fixed (o.run ops)).bind (readCnt ng) = some r ∧ r.solution = (o.run ops).state.solution ∧
      (∀ t, (o.run ops).state.boundary = some t → ∃ t', r.boundary = some t' ∧ ∀ p, Presc t' p ↔ Presc (decTable 5 t) p) ∧
      (∀ t, (o.run ops).state.spring = some t → ∀ p, prescOpt r.spring p ↔ Presc (decTable 6 t) p) ∧
      (∀ t, (o.run ops).state.cload = some t → ∃ t', r.cload = some t' ∧ ∀ p, Presc t' p ↔ Presc (decTable 6 t) p) ∧
      scalarKept (o.run ops).state.fixtemp r.fixtemp ∧ scalarKept (o.run ops).state.cflux r.cflux ∧
      scalarKept (o.run ops).state.pureCflux r.pureCflux := by
  obtain ⟨r, hr, hs, hb, hsp, hl, h1, h2, h3⟩ := C03_roundtrip ng (o.run ops).state h
  exact ⟨r, hr, hs, hb.2, hsp.2, hl.2, h1, h2, h3⟩

/-- **C03 (history independence)**: the control file of a modified object is byte for byte the file of a FRESH object
    constructed with the content the modified object holds at `write()`. -/
theorem C03_history_fresh (o : ObjSt) (ops : List ObjOp) :
    writeObj HistCfg.fixed (o.run ops) = writeObj HistCfg.fixed (ObjSt.fresh (o.run ops).state) := by
  rw [C03_history_fresh_any_cfg]; rfl

/-- an in-place edit through the array returned by `.data` IS part of the state that is written: after
    `boundary.data[r] = f boundary.data[r]` the state's boundary table is the old one with row `r` replaced -/
theorem C03_history_poke_state (o : ObjSt) (r : Nat) (f : TRow → TRow) :
    (o.step (.table .boundary (.poke r f))).state.boundary = o.boundary.map fun a => a.ids.zip (modifyAt a.arr r f) := by
  cases hb : o.boundary <;> simp [ObjSt.step, ObjSt.getT, ObjSt.setT, ObjSt.view, HistCfg.fixed, AttrSt.step, AttrSt.rows, hb]

/-- `exCnt` constructed, then - the idiom of femio's `tests/util/test_random_generator.py`,
    `constraints['boundary'].data[-1] = …` - edited in place: dof 1 of node 3 RELEASED, dof 1 of node 7 newly prescribed
    (`2.50000E+00`), the all-NaN row of node 12 set to `1.00000E-03` on every dof; the load of node 4 changed -/
def exHistOps : List ObjOp :=
  [.table .boundary (.poke 1 (·.set 0 none)),
   .table .boundary (.poke 0 (·.set 0 (some ⟨false, 250000, 0⟩))),
   .table .boundary (.poke 2 (fun _ => [some ⟨false, 100000, -3⟩, some ⟨false, 100000, -3⟩, some ⟨false, 100000, -3⟩])),
   .table .cload (.poke 0 (·.set 1 (some ⟨false, 7500000, -1⟩)))]

def exHistObj : ObjSt := (ObjSt.fresh exCnt).run exHistOps

example : exHistObj.state.boundary =
    some [(7, [some ⟨false, 250000, 0⟩, some ⟨false, 150000, 0⟩, none]), (3, [none, none, some ⟨false, 0, 0⟩]),
          (12, [some ⟨false, 100000, -3⟩, some ⟨false, 100000, -3⟩, some ⟨false, 100000, -3⟩])] := by decide
example : WFCnt exHistObj.state := by decide
/-- through the theorem: after the round trip node 7 is fixed to `2.5` on dof 1 (added by the edit) -/
example : ∃ r, (writeObj HistCfg.fixed exHistObj).bind (readCnt []) = some r ∧
    ∃ t', r.boundary = some t' ∧ Presc t' (7, 1, ⟨false, 250000, -5⟩) := by
  obtain ⟨r, hr, -, hb, -⟩ := C03_history_property [] (ObjSt.fresh exCnt) exHistOps (by decide)
  obtain ⟨t', ht', hp⟩ := hb _ rfl
  refine ⟨r, hr, t', ht', (hp _).mpr ?_⟩
  exact ⟨(7, [some ⟨false, 250000, -5⟩, some ⟨false, 150000, -5⟩, none]), by decide, rfl, by decide, rfl⟩

/-- **C03 (counterexample: a writer that reads the pandas frame)**: with `fromArray := false` (the `!BOUNDARY` /
    `!CLOAD` rows taken from `data_frame`, seeded change C03-6) the file written for the object edited in place is the
    file of the table as it was when the attribute was created - read back, it is NOT the current state of the object
    (the released dof of node 3 comes back as a prescription, the new values are missing), while both files are
    well-formed and read without error. -/
theorem C03_history_counterexample_frame_writer :
    ∃ (o : ObjSt) (ops : List ObjOp), WFCnt (o.run ops).state ∧
      (writeObj ⟨false⟩ (o.run ops)).bind (readCnt []) = some (expectedCnt exCnt) ∧
      (writeObj HistCfg.fixed (o.run ops)).bind (readCnt []) = some (expectedCnt (o.run ops).state) ∧
      (expectedCnt exCnt).boundary ≠ (expectedCnt (o.run ops).state).boundary ∧
      (expectedCnt exCnt).cload ≠ (expectedCnt (o.run ops).state).cload := by
  refine ⟨ObjSt.fresh exCnt, exHistOps, by decide, ?_, C03_history_roundtrip [] _ _ (by decide), by decide, by decide⟩
  have hv : ((ObjSt.fresh exCnt).run exHistOps).view ⟨false⟩ = exCnt := rfl
  rw [writeObj, hv]
  exact C03_file_roundtrip [] exCnt (by decide)

/-! ### node-group definitions in the mesh text: the LAYOUT of an `!NGROUP` block (round 5, seeded change C03-10) -/
theorem sameLengths_of_forall (k : Nat) (chunks : List (List Nat)) (h : ∀ c ∈ chunks, c.length = k) :
    sameLengths chunks = true := by
  cases chunks with
  | nil => rfl
  | cons r t =>
    simp only [sameLengths, List.all_eq_true, beq_iff_eq]
    intro x hx
    rw [h x (List.mem_cons_of_mem _ hx), h r (by simp)]

theorem ngBlock_mapM (chunks : List (List Nat)) (hne : ∀ c ∈ chunks, c ≠ []) :
    (chunks.map renderNatRow).mapM parseRowI = some chunks := by
  have h := mapM_map_of_forall_mem renderNatRow parseRowI id chunks (fun c hc => parseRowI_natRow c (hne c hc))
  simpa using h

/-- **C03 (layout of a node-group definition)**: whichever way the members of a node group are distributed over the data
    lines of an `!NGROUP` block - every chunking `chunks` of the member list into non-empty lines: one id per line, all
    on one line, `k` per line, `k` per line with a shorter last line, arbitrary - the block denotes exactly the member
    list `chunks.flatten`: for the reader with the ragged-block repair always, for the upstream reader (`to_values` on the
    whole block) whenever the lines have the same number of ids. -/
theorem C03_ngroup_layout (chunks : List (List Nat)) (hne : ∀ c ∈ chunks, c ≠ []) :
    ngBlockIds NgCfg.repaired (chunks.map renderNatRow) = some chunks.flatten ∧
    (∀ k, (∀ c ∈ chunks, c.length = k) → ngBlockIds NgCfg.upstream (chunks.map renderNatRow) = some chunks.flatten) := by
  constructor
  · simp [ngBlockIds, NgCfg.repaired, ngBlock_mapM chunks hne]
  · intro k hk
    simp [ngBlockIds, NgCfg.upstream, ngBlock_mapM chunks hne, sameLengths_of_forall k chunks hk]

/-- two layouts of the same member list are the same definition -/
theorem C03_ngroup_layout_independent (c₁ c₂ : List (List Nat)) (h₁ : ∀ c ∈ c₁, c ≠ []) (h₂ : ∀ c ∈ c₂, c ≠ [])
    (hf : c₁.flatten = c₂.flatten) :
    ngBlockIds NgCfg.repaired (c₁.map renderNatRow) = ngBlockIds NgCfg.repaired (c₂.map renderNatRow) := by
  rw [(C03_ngroup_layout c₁ h₁).1, (C03_ngroup_layout c₂ h₂).1, hf]

example : ngBlockIds NgCfg.upstream ([[9, 10], [11, 12]].map renderNatRow) = some [9, 10, 11, 12] :=
  (C03_ngroup_layout [[9, 10], [11, 12]] (by decide)).2 2 (by decide)
example : ngBlockIds NgCfg.repaired ([[1, 2, 3], [4, 5]].map renderNatRow) =
    ngBlockIds NgCfg.repaired ([[1], [2], [3], [4], [5]].map renderNatRow) :=
  C03_ngroup_layout_independent _ _ (by decide) (by decide) rfl

/-- a 4-node mesh text whose group `FIX` = {1, 2, 3, 4} is laid out as the given lines -/
def exGroupMsh (chunks : List (List Nat)) : List Line :=
  [c!"!HEADER", c!"Data written by femio", c!"!NODE", c!"1,0.00000000E+00,0.00000000E+00,0.00000000E+00",
   c!"2,1.00000000E+00,0.00000000E+00,0.00000000E+00", c!"3,0.00000000E+00,1.00000000E+00,0.00000000E+00",
   c!"4,0.00000000E+00,0.00000000E+00,1.00000000E+00", c!"!ELEMENT, TYPE=341", c!"1,1,2,3,4"]
  ++ ngBlockText c!"FIX" chunks ++ [c!"!END"]
def exCntByName : List Line :=
  [c!"!VERSION", c!"5", c!"!SOLUTION, TYPE=STATIC", c!"!BOUNDARY", c!"FIX,1,2,0.00000E+00", c!"!END"]
def exCntExplicit : List Line :=
  [c!"!VERSION", c!"5", c!"!SOLUTION, TYPE=STATIC", c!"!BOUNDARY", c!"1,1,2,0.00000E+00", c!"2,1,2,0.00000E+00",
   c!"3,1,2,0.00000E+00", c!"4,1,2,0.00000E+00", c!"!END"]
/-- the node ids of the `!BOUNDARY` table read from a mesh text + control-file text -/
def boundaryNodes (cfg : NgCfg) (msh cnt : List Line) : Option (Option (List Nat)) :=
  (readCntFiles cfg msh cnt).map fun r => r.boundary.map fun t => t.map (·.1)

/-- **C03 (counterexample: a reader that takes the first id of every `!NGROUP` line)** - the structure of seeded change
    C03-10: with two ids per line the group-name row fixes nodes 1 and 3 only, the explicit listing nodes 1-4, without any
    error; the upstream reader gives 1-4 for both; with one id per line the two readers cannot be told apart. -/
theorem C03_ngroup_first_id_counterexample :
    boundaryNodes ⟨true, true⟩ (exGroupMsh [[1, 2], [3, 4]]) exCntByName = some (some [1, 3]) ∧
    boundaryNodes ⟨true, true⟩ (exGroupMsh [[1, 2], [3, 4]]) exCntExplicit = some (some [1, 2, 3, 4]) ∧
    boundaryNodes NgCfg.upstream (exGroupMsh [[1, 2], [3, 4]]) exCntByName = some (some [1, 2, 3, 4]) ∧
    boundaryNodes ⟨true, true⟩ (exGroupMsh [[1], [2], [3], [4]]) exCntByName = some (some [1, 2, 3, 4]) := by
  refine ⟨by decide, by decide, by decide, by decide⟩

/-- **C03 (counterexample, upstream: a ragged block)**: a block with three ids on the first line and one on the second
    (`k` per line, shorter last line) cannot be read by the upstream reader at all (`to_values` pads the short line and the
    integer conversion raises: finding `group-layout:ragged-block`), the repaired reader reads the same group as from any
    other layout. -/
theorem C03_ngroup_ragged_counterexample_upstream :
    boundaryNodes NgCfg.upstream (exGroupMsh [[1, 2, 3], [4]]) exCntByName = none ∧
    boundaryNodes NgCfg.repaired (exGroupMsh [[1, 2, 3], [4]]) exCntByName = some (some [1, 2, 3, 4]) ∧
    boundaryNodes NgCfg.repaired (exGroupMsh [[1, 2, 3], [4]]) exCntExplicit = some (some [1, 2, 3, 4]) := by
  refine ⟨by decide, by decide, by decide⟩

end Femio.C03
