import Femio.Model.FistrCnt
import Femio.Lemmas.CntProps
import Femio.Lemmas.FistrTextProps

/-! # C03 — FrontISTR `.cnt` write → read keeps the analysis conditions

Model: `Femio/Model/FistrCnt.lean` (text level) over `Femio/Model/Cnt.lean` (tables, `Presc`).
A table row is `(node id, cells)`, `none` = NaN = free; `Cnt.Presc t (i, d, x)` says that table `t`
prescribes value `x` on dof `d` of node `i` — the property's "(node id, degree of freedom, value)" set.

Proved in full: the per-kind round trips on the section level for **every** NaN pattern, node subset and
row order (values of any type `V`, in particular the exact decimals the text carries), the text level of
every data line (`C03_line_roundtrip`: what `%d,%d,%d,%.5E` … print is parsed back to the same
integers and the same decimal value), node-group expansion, the solution type.
Not a theorem (checked by the correspondence only): that the header scan of a *whole* written control
file finds exactly these sections. -/
namespace Femio.C03
open Femio.Fistr Cnt Numeral

variable {V : Type}

/-! ### what the writers emit -/
theorem tableWidth_eq (t : List (Row V)) (w : Nat) (hw : ∀ r ∈ t, r.2.length = w) (hne : t ≠ []) : tableWidth t = w := by
  cases t with
  | nil => exact absurd rfl hne
  | cons r _ => exact hw r (by simp)

theorem mem_springRows (t : List (Row V)) (l : DLine V) :
    l ∈ springRows t ↔ ∃ r ∈ t, r.1 = l.id ∧ 1 ≤ l.dof ∧ r.2[l.dof - 1]? = some (some l.val) := by
  obtain ⟨i, d, x⟩ := l
  simp only [springRows, List.mem_flatMap, List.mem_filterMap, List.mem_range]
  constructor
  · rintro ⟨r, hr, k, hk, h⟩
    split at h
    · rename_i y hc
      simp only [Option.some.injEq, DLine.mk.injEq] at h
      obtain ⟨rfl, rfl, rfl⟩ := h
      exact ⟨r, hr, rfl, by omega, by simpa using hc⟩
    · cases h
  · rintro ⟨r, hr, rfl, h1, hc⟩
    have hlt : d - 1 < r.2.length := by
      by_contra hge
      rw [List.getElem?_eq_none (by omega)] at hc; cases hc
    refine ⟨r, hr, d - 1, hlt, ?_⟩
    rw [hc]
    simp only [Option.some.injEq, DLine.mk.injEq, true_and, and_true]
    omega

theorem presc_readDLine (l : DLine V) (hl : 1 ≤ l.dof) (p : Nat × Nat × V) :
    Presc [readDLine l] p ↔ (p.1 = l.id ∧ p.2.1 = l.dof ∧ p.2.1 ≤ 3 ∧ p.2.2 = l.val) := by
  obtain ⟨i, d, x⟩ := p
  simp only [Presc, List.mem_singleton, exists_eq_left, readDLine, List.getElem?_map]
  constructor
  · rintro ⟨hid, h1, hc⟩
    by_cases hd : d - 1 < 3
    · rw [List.getElem?_range hd] at hc
      simp only [Option.map_some, Option.some.injEq] at hc
      split at hc
      · cases hc; exact ⟨hid.symm, by omega, by omega, rfl⟩
      · cases hc
    · rw [List.getElem?_eq_none (by simpa using hd)] at hc; simp at hc
  · rintro ⟨rfl, rfl, h3, rfl⟩
    refine ⟨rfl, hl, ?_⟩
    rw [List.getElem?_range (by omega)]
    simp

/-- **C03 (boundary)**: the table read from the `!BOUNDARY` rows the writer emits for `t` denotes exactly
    the prescriptions of `t` — every NaN pattern, node subset, row order; 3 translational dofs. -/
theorem C03_boundary_roundtrip (t : List (Row V)) (hw : ∀ r ∈ t, r.2.length = 3) (p : Nat × Nat × V) :
    Presc ((boundaryRows t).map readBLine) p ↔ Presc t p := by
  by_cases hne : t = []
  · subst hne; simp [boundaryRows, genConstraints, Presc, tableWidth]
  · have := boundary_roundtrip t hw p
    simpa only [boundaryRows, tableWidth_eq t 3 hw hne, readBoundary, writeBoundary] using this

example : Presc ((boundaryRows [(7, [none, some (5 : Nat), none]), (3, [some 1, none, some 2])]).map readBLine) (3, 3, 2) :=
  (C03_boundary_roundtrip _ (by decide) _).mpr ⟨(3, [some 1, none, some 2]), by decide, rfl, by decide, rfl⟩

/-- the hypothesis "3 dofs" is necessary: a prescription on dof 4 of a 6-wide table is written but not read
    back (`d[start-1:end] = value` on a 3-wide row) — F14, outside the property's tables -/
theorem C03_boundary_dof_gt3_lost :
    Presc [(1, [none, none, none, some (9 : Nat), none, none])] (1, 4, 9) ∧
    ¬ Presc ((boundaryRows [(1, [none, none, none, some (9 : Nat), none, none])]).map readBLine) (1, 4, 9) := by
  constructor
  · exact ⟨(1, [none, none, none, some 9, none, none]), by simp, rfl, by decide, rfl⟩
  · rintro ⟨r, hr, -, -, hc⟩
    simp only [boundaryRows, tableWidth, genConstraints] at hr
    revert hc; revert hr; revert r; decide

/-- **C03 (cload)**: same statement for `!CLOAD` rows (`id, dof, value`; `d[dof-1] = value`). -/
theorem C03_cload_roundtrip (t : List (Row V)) (hw : ∀ r ∈ t, r.2.length = 3) (p : Nat × Nat × V) :
    Presc ((cloadRows t).map readDLine) p ↔ Presc t p := by
  obtain ⟨i, d, x⟩ := p
  by_cases hne : t = []
  · subst hne; simp [cloadRows, genConstraints, Presc, tableWidth]
  rw [presc_map]
  simp only [cloadRows, tableWidth_eq t 3 hw hne, List.mem_map, Prod.exists]
  constructor
  · rintro ⟨l, ⟨i', d', x', hmem, rfl⟩, hp⟩
    obtain ⟨r, hr, hid, h1, _, hc⟩ := (mem_gen 3 t _ _ _).mp hmem
    rw [presc_readDLine _ h1] at hp
    obtain ⟨rfl, rfl, _, rfl⟩ := hp
    exact ⟨r, hr, hid, h1, hc⟩
  · rintro ⟨r, hr, hid, h1, hc⟩
    simp only at hid h1 hc
    have hd3 : d ≤ 3 := by
      by_contra hgt
      rw [List.getElem?_eq_none (by rw [hw r hr]; omega)] at hc; cases hc
    refine ⟨⟨i, d, x⟩, ⟨i, d, x, (mem_gen 3 t i d x).mpr ⟨r, hr, hid, h1, hd3, hc⟩, rfl⟩, ?_⟩
    rw [presc_readDLine _ h1]; exact ⟨rfl, rfl, hd3, rfl⟩

example : Presc ((cloadRows [(4, [none, some (2 : Nat), none])]).map readDLine) (4, 2, 2) :=
  (C03_cload_roundtrip _ (by decide) _).mpr ⟨(4, [none, some 2, none]), by simp, rfl, by decide, rfl⟩

/-- **C03 (spring)**: same statement for `!SPRING` rows, which the writer emits row-major (`np.where`). -/
theorem C03_spring_roundtrip (t : List (Row V)) (hw : ∀ r ∈ t, r.2.length = 3) (p : Nat × Nat × V) :
    Presc ((springRows t).map readDLine) p ↔ Presc t p := by
  obtain ⟨i, d, x⟩ := p
  rw [presc_map]
  constructor
  · rintro ⟨l, hmem, hp⟩
    obtain ⟨r, hr, hid, h1, hc⟩ := (mem_springRows t l).mp hmem
    rw [presc_readDLine _ h1] at hp
    obtain ⟨rfl, rfl, _, rfl⟩ := hp
    exact ⟨r, hr, hid, h1, hc⟩
  · rintro ⟨r, hr, hid, h1, hc⟩
    simp only at hid h1 hc
    have hd3 : d ≤ 3 := by
      by_contra hgt
      rw [List.getElem?_eq_none (by rw [hw r hr]; omega)] at hc; cases hc
    refine ⟨⟨i, d, x⟩, (mem_springRows t _).mpr ⟨r, hr, hid, h1, hc⟩, ?_⟩
    rw [presc_readDLine _ h1]; exact ⟨rfl, rfl, hd3, rfl⟩

example : Presc ((springRows [(3, [none, some (25 : Nat), some 1]), (8, [some 7, none, none])]).map readDLine) (8, 1, 7) :=
  (C03_spring_roundtrip _ (by decide) _).mpr ⟨(8, [some 7, none, none]), by decide, rfl, by decide, rfl⟩

/-! ### text level of the data lines -/
theorem comma_not_mem_renderSci (p : Nat) (s : Sci) : ',' ∉ renderSci p s := by
  intro hc
  simp only [renderSci, List.mem_append, List.mem_cons] at hc
  rcases hc with ((hc | hc) | hc | hc) | hc | hc | hc
  · cases hn : s.neg <;> simp [hn] at hc
  · exact comma_not_mem_showNat _ hc
  · cases hc
  · exact not_mem_of_digits (fixDigits_isDigit _ _) ',' (by decide) hc
  · cases hc
  · split at hc <;> cases hc
  · exact not_mem_of_digits (expDigits_isDigit _) ',' (by decide) hc

/-- **C03 (data lines)**: every data line the writer prints (`%d,%d,%d,%.5E`, `%d,%d,%E`, `%d,%.12E`) is parsed
    back to the same integers and to exactly the decimal value printed — any id, dof, mantissa, exponent, sign. -/
theorem C03_line_roundtrip :
    (∀ l : BLine Sci, parseBLine (bLineText l) = some ⟨l.id, l.first, l.last, l.val.toDec 5⟩) ∧
    (∀ l : DLine Sci, parseDLine (dLineText l) = some ⟨l.id, l.dof, l.val.toDec 6⟩) ∧
    (∀ r : Nat × Sci, parseSLine (sLineText r) = some (r.1, r.2.toDec 12)) := by
  refine ⟨fun l => ?_, fun l => ?_, fun r => ?_⟩
  · unfold parseBLine bLineText
    rw [split_join ',' _ (by simp) (by
      intro f hf; simp only [List.mem_cons, List.not_mem_nil, or_false] at hf
      rcases hf with rfl | rfl | rfl | rfl
      · exact comma_not_mem_showNat _
      · exact comma_not_mem_showNat _
      · exact comma_not_mem_showNat _
      · exact comma_not_mem_renderSci _ _)]
    simp [parseNatTok_showNat, parseDec_renderSci]
  · unfold parseDLine dLineText
    rw [split_join ',' _ (by simp) (by
      intro f hf; simp only [List.mem_cons, List.not_mem_nil, or_false] at hf
      rcases hf with rfl | rfl | rfl
      · exact comma_not_mem_showNat _
      · exact comma_not_mem_showNat _
      · exact comma_not_mem_renderSci _ _)]
    simp [parseNatTok_showNat, parseDec_renderSci]
  · unfold parseSLine sLineText
    rw [split_join ',' _ (by simp) (by
      intro f hf; simp only [List.mem_cons, List.not_mem_nil, or_false] at hf
      rcases hf with rfl | rfl
      · exact comma_not_mem_showNat _
      · exact comma_not_mem_renderSci _ _)]
    simp [parseNatTok_showNat, parseDec_renderSci]

example : parseBLine (bLineText ⟨10, 3, 3, ⟨false, 150000, 0⟩⟩) = some ⟨10, 3, 3, ⟨false, 150000, -5⟩⟩ := by decide
example : bLineText ⟨10, 3, 3, ⟨false, 150000, 0⟩⟩ = c!"10,3,3,1.50000E+00" := by decide

theorem mapM_of_forall {α β} (f : α → Option β) (g : α → β) (h : ∀ a, f a = some (g a)) (l : List α) :
    l.mapM f = some (l.map g) := by
  induction l with
  | nil => rfl
  | cons a t ih => simp [List.mapM_cons, h a, ih]

/-- **C03 (fixtemp)**: the rows of a written `!FIXTEMP` section parse back to the same (node, value) list, in order -/
theorem C03_fixtemp_roundtrip (t : List (Nat × Sci)) :
    (t.map sLineText).mapM parseSLine = some (t.map fun r => (r.1, r.2.toDec 12)) := by
  rw [List.mapM_map]
  exact mapM_of_forall _ _ (fun r => C03_line_roundtrip.2.2 r) t

/-- **C03 (cflux / pure cflux)**: same rows, same reader -/
theorem C03_cflux_roundtrip (t : List (Nat × Sci)) :
    (t.map sLineText).mapM parseSLine = some (t.map fun r => (r.1, r.2.toDec 12)) := C03_fixtemp_roundtrip t

example : ([(15, (⟨true, 2250000000000, 0⟩ : Sci))].map sLineText).mapM parseSLine = some [(15, ⟨true, 2250000000000, -12⟩)] :=
  C03_fixtemp_roundtrip _

/-! ### node groups -/
/-- **C03 (group expansion)**: rows addressed to node-group names denote exactly the prescriptions of the same
    rows listed for each member of the group, for every group map and every mix of group and explicit rows
    (the reader's re-ordering — expanded rows first — is immaterial). -/
theorem C03_group_expansion (groups : Nat → List Nat) (ls : List (GLine V)) (p : Nat × Nat × V) :
    Presc (readBoundary (extend groups ls)) p ↔ Presc (readBoundary (explicit groups ls)) p :=
  group_expansion groups ls p

example : Presc (readBoundary (extend (fun _ => [4, 9]) [⟨.group 0, 1, 3, (5 : Nat)⟩, ⟨.node 2, 2, 2, 6⟩])) (9, 2, 5) := by
  refine ⟨readBLine ⟨9, 1, 3, 5⟩, by simp [readBoundary, extend], rfl, by decide, by decide⟩

/-! ### solution type -/
theorem isPrefix_append (k s : List Char) : isPrefix k (k ++ s) = true := by
  induction k with
  | nil => rfl
  | cons a k ih => simp [isPrefix, ih]

theorem takeWhile_word (s : List Char) (hs : ∀ c ∈ s, isWord c = true) : s.takeWhile isWord = s :=
  (span_all isWord s hs).1

/-- **C03 (solution type)**: for every solution-type token `s` (non-empty, `\w` characters — in particular every type
    the writer knows) the `!SOLUTION` line the writer prints is read back as `s`. -/
theorem C03_solution_type (s : Name) (hne : s ≠ []) (hs : ∀ c ∈ s, isWord c = true) :
    capture c!"TYPE=" (solutionLine s) = some s := by
  have htw := takeWhile_word s hs
  simp [solutionLine, capture, isPrefix, htw, hne]

/-- … and the whole written control file of the known types reads back its solution type (`decide`d on the
    model's complete output, including the `!SOLVER` … boilerplate that also contains `TYPE`-free headers) -/
theorem C03_solution_type_known :
    ∀ s ∈ [c!"STATIC", c!"HEAT"], ∀ os ∈ [true, false],
      (writeCnt ⟨s, os, none, none, none, none, none, none⟩).bind readSolution = some s := by decide

end Femio.C03
