import Femio.Model.Attr
import Femio.Model.Core
import Femio.Lemmas.AttrProps
import Femio.Lemmas.CoreProps

/-! C08 — an attribute is one id-keyed table whichever way it is accessed.  Property theorems.

`Attr.State` models a `FEMAttribute`: `ids`, the positional `_data`, the id-keyed `_data_frame` and the
optional `id2index`; `Attr.step cfg` one public update.  The theorems are about `Cfg.fixed` (write-through of
a slice refreshes the parent's positional data, `overwrite` goes through the data setter, `id2index` follows
the frame); the correspondence run determines which `Cfg` the working tree implements. -/
namespace Femio.C08
open Attr Core

/-- **C08_inv_init**: a freshly constructed attribute satisfies the invariant -/
theorem C08_inv_init (ids : List Nat) (rows : List Row) (b : Bool) (s : State) (h : mk ids rows b = .ok s) : AInv s :=
  inv_mk ids rows b s h

/-- **C08_inv**: every public update (assigning data, update with overwrite, the failing append-update,
writing through a `.loc` / `.iloc` slice, `overwrite` with and without ids) preserves the invariant
"positional table = id-keyed table, id→position map = enumeration of the ids". -/
theorem C08_inv (s : State) (op : Op) (h : AInv s) : AInv (step Cfg.fixed s op) := inv_step_fixed s op h

/-- **C08_reachable**: … hence it holds after any finite sequence of public updates. -/
theorem C08_reachable (s : State) (ops : List Op) (h : AInv s) : AInv (ops.foldl (step Cfg.fixed) s) :=
  inv_reachable_fixed s ops h

theorem lookupRow_get (ids : List Nat) (rows : List Row) (hn : ids.Nodup) (hl : ids.length = rows.length)
    (k : Nat) (hk : k < ids.length) : lookupRow ids rows ids[k] = rows[k]? := by
  induction ids generalizing rows k with
  | nil => simp at hk
  | cons a t ih =>
    cases rows with
    | nil => simp at hl
    | cons r rs =>
      rw [List.nodup_cons] at hn
      cases k with
      | zero => simp [lookupRow]
      | succ j =>
        have hj : j < t.length := by simpa using hk
        have hne : a ≠ t[j] := fun h => hn.1 (h ▸ List.getElem_mem hj)
        simp only [List.getElem_cons_succ, lookupRow, hne, if_false, List.getElem?_cons_succ]
        exact ih rs hn.2 (by simpa using hl) j hj

theorem lookupIdx_zipIdx (l : List Nat) (n k : Nat) (hn : l.Nodup) (hk : k < l.length) :
    lookupIdx l[k] (l.zipIdx n) = some (n + k) := by
  induction l generalizing n k with
  | nil => simp at hk
  | cons a t ih =>
    rw [List.nodup_cons] at hn
    cases k with
    | zero => simp [List.zipIdx_cons, lookupIdx]
    | succ j =>
      have hj : j < t.length := by simpa using hk
      have hne : a ≠ t[j] := fun h => hn.1 (h ▸ List.getElem_mem hj)
      simp only [List.zipIdx_cons, lookupIdx, List.getElem_cons_succ, hne, if_false]
      rw [ih (n + 1) j hn.2 hj]; congr 1; omega

/-- **C08_views_agree**: under the invariant, for distinct ids, every id-keyed read path returns the row the
positional view holds at the position of that id: `.loc[id]`, `.iloc[k]`, `[id]` and `ids2indices`. -/
theorem C08_views_agree (s : State) (h : AInv s) (hn : s.ids.Nodup) (k : Nat) (hk : k < s.ids.length) :
    locView s s.ids[k] = dataView s k ∧ ilocView s k = dataView s k ∧
    (∀ m, s.id2index = some m → ids2indices s s.ids[k] = some k) := by
  obtain ⟨hfd, hlen, hidx⟩ := h
  refine ⟨?_, ?_, ?_⟩
  · unfold locView dataView
    rw [lookupRow_get s.ids s.frame hn hlen k hk, hfd]
  · unfold ilocView dataView; rw [hfd]
  · intro m hm
    have := hidx m hm
    unfold ids2indices
    rw [hm, this]
    simp only [Option.bind_some, enumIds]
    simpa using lookupIdx_zipIdx s.ids 0 k hn hk

/-- `filter_with_ids(sel)` returns, for every selected id, the row stored at that id's position -/
theorem C08_filter_with_ids (s : State) (h : AInv s) (hn : s.ids.Nodup) (ks : List Nat)
    (hks : ∀ k ∈ ks, k < s.ids.length) :
    filterWithIds s (ks.filterMap fun k => s.ids[k]?) = ks.mapM (dataView s) := by
  induction ks with
  | nil => simp [filterWithIds]
  | cons k t ih =>
    have hk : k < s.ids.length := hks k (by simp)
    have ht := ih (fun k hk' => hks k (by simp [hk']))
    have hv := (C08_views_agree s h hn k hk).1
    simp only [filterWithIds] at ht ⊢
    simp [List.filterMap_cons, List.getElem?_eq_getElem hk, List.mapM_cons, hv, ht]

/-! ### mixed-type element collections (`FEMElementalAttribute._update_self`) -/

theorem insertElem_sorted (e : Elem) (l : List Elem) (hl : l.Pairwise (fun a b => a.id ≤ b.id)) :
    (insertElem e l).Pairwise (fun a b => a.id ≤ b.id) := by
  induction l with
  | nil => simp [insertElem]
  | cons f t ih =>
    rw [List.pairwise_cons] at hl
    simp only [insertElem]
    split
    · rename_i hle
      rw [List.pairwise_cons]
      refine ⟨?_, List.pairwise_cons.mpr hl⟩
      intro x hx
      rcases List.mem_cons.mp hx with h | h
      · subst h; exact hle
      · exact Nat.le_trans hle (hl.1 x h)
    · rename_i hnle
      rw [List.pairwise_cons]
      refine ⟨?_, ih hl.2⟩
      intro x hx
      have := (insertElem_perm e t).subset hx
      rcases List.mem_cons.mp this with h | h
      · subst h; exact Nat.le_of_lt (Nat.lt_of_not_le hnle)
      · exact hl.1 x h

theorem sortElems_sorted (l : List Elem) : (sortElems l).Pairwise (fun a b => a.id ≤ b.id) := by
  induction l with
  | nil => simp [sortElems]
  | cons e t ih => exact insertElem_sorted e _ ih

/-- **C08_mixed_once_sorted**: for type blocks with pairwise distinct element ids, the flattened collection
(a) lists every element of every block exactly once (it is a permutation of the concatenation),
(b) when there are several blocks, is strictly ascending in id,
(c) has an id→position map consistent with it: the element at position `k` is found at `k` by its id,
so type and connectivity read at the position of an id are those of the block row that owns the id. -/
theorem C08_mixed_once_sorted (blocks : List (List Elem)) (he : (blocks.flatten.map Elem.id).Nodup) :
    (flatten blocks).Perm blocks.flatten ∧
    (blocks.length ≠ 1 → (flatten blocks).Pairwise (fun a b => a.id < b.id)) ∧
    (∀ k (hk : k < (flatten blocks).length), elemPos (flatten blocks) ((flatten blocks)[k]).id = some k) := by
  have hperm := flatten_perm blocks
  have hnd : ((flatten blocks).map Elem.id).Nodup := (hperm.map Elem.id).nodup_iff.mpr he
  refine ⟨hperm, ?_, ?_⟩
  · intro hne
    have hsorted : (flatten blocks).Pairwise (fun a b => a.id ≤ b.id) := by
      unfold flatten
      split
      · simp at hne
      · exact sortElems_sorted _
    have hne' : (flatten blocks).Pairwise (fun a b => a.id ≠ b.id) := by
      rw [List.Nodup, List.pairwise_map] at hnd; exact hnd
    exact (hsorted.and hne').imp (fun h => Nat.lt_of_le_of_ne h.1 h.2)
  · intro k hk
    unfold elemPos
    have := idPos_get hnd k (by simpa using hk)
    simpa using this

/-- non-vacuity: a mixed collection stored in type order with interleaved ids -/
example : (flatten [[⟨7, 8, [1, 2, 3, 4]⟩, ⟨2, 8, [2, 3, 4, 5]⟩], [⟨5, 14, [1, 2, 3, 4, 5, 6, 7, 8]⟩]]).map Elem.id = [2, 5, 7] := by
  decide

/-- non-vacuity of the invariant: a concrete history over unsorted ids ends in a consistent state -/
example : InvB ([Op.locWrite [3, 9] [[some 30], [some 50]], Op.update [1, 3] [[some 0], [none]] true,
    Op.overwrite [[some 1], [some 2], [some 3], [some 4]], Op.ilocWrite [0] [[some 8]]].foldl (step Cfg.fixed) s0) = true := by
  decide

/-! ### the three defects of the pinned upstream commit (each replayed on the implementation by the harness) -/

/-- F2: write through `.loc` leaves the positional view behind -/
theorem C08_counterexample_loc_write : InvB (step Cfg.current s0 (.locWrite [3, 9] [[some 30], [some 50]])) = false :=
  locWrite_breaks_current
/-- F3: `overwrite` without ids leaves the id-keyed view behind -/
theorem C08_counterexample_overwrite : InvB (step Cfg.current s0 (.overwrite [[some 7], [some 8], [some 9]])) = false :=
  overwrite_breaks_current
/-- F4: `update` re-sorts the ids but keeps the old id→position map -/
theorem C08_counterexample_update_index : InvB (step Cfg.current s0 (.update [1] [[some 0]] true)) = false :=
  update_breaks_current

end Femio.C08
