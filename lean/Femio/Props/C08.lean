import Femio.Model.Attr
import Femio.Model.Core
import Femio.Model.AttrLayout
import Femio.Lemmas.AttrProps
import Femio.Lemmas.AttrUpdate
import Femio.Lemmas.AttrHist
import Femio.Lemmas.CoreProps

/-! C08 — an attribute is one id-keyed table whichever way it is accessed.  Property theorems.

`Attr.State` models a `FEMAttribute`: `ids`, the positional `_data`, the id-keyed `_data_frame` and the
optional `id2index`; `Attr.step cfg` one public update.  The theorems are about `Cfg.fixed` (write-through of
a slice refreshes the parent's positional data, `overwrite` goes through the data setter, `id2index` follows
the frame); the correspondence run determines which `Cfg` the working tree implements. -/
namespace Femio.C08
open Attr Core

/-- **C08_inv_init**: a freshly constructed attribute satisfies the invariant -/
theorem C08_inv_init (ids : List Nat) (rows : List Row) (b : Bool) (s : State) (h : mk ids rows b = .ok s) : AInv s :=
  inv_mk ids rows b s h

/-- **C08_inv**: every public update (assigning data, update with overwrite, the failing append-update,
writing through a `.loc` / `.iloc` slice, `overwrite` with and without ids) preserves the invariant
"positional table = id-keyed table, id→position map = enumeration of the ids". -/
theorem C08_inv (s : State) (op : Op) (h : AInv s) : AInv (step Cfg.fixed s op) := inv_step_fixed s op h

/-- **C08_reachable**: … hence it holds after any finite sequence of public updates. -/
theorem C08_reachable (s : State) (ops : List Op) (h : AInv s) : AInv (ops.foldl (step Cfg.fixed) s) :=
  inv_reachable_fixed s ops h

theorem lookupRow_get (ids : List Nat) (rows : List Row) (hn : ids.Nodup) (hl : ids.length = rows.length)
    (k : Nat) (hk : k < ids.length) : lookupRow ids rows ids[k] = rows[k]? := by
  induction ids generalizing rows k with
  | nil => simp at hk
  | cons a t ih =>
    cases rows with
    | nil => simp at hl
    | cons r rs =>
      rw [List.nodup_cons] at hn
      cases k with
      | zero => simp [lookupRow]
      | succ j =>
        have hj : j < t.length := by simpa using hk
        have hne : a ≠ t[j] := fun h => hn.1 (h ▸ List.getElem_mem hj)
        simp only [List.getElem_cons_succ, lookupRow, hne, if_false, List.getElem?_cons_succ]
        exact ih rs hn.2 (by simpa using hl) j hj

theorem lookupIdx_zipIdx (l : List Nat) (n k : Nat) (hn : l.Nodup) (hk : k < l.length) :
    lookupIdx l[k] (l.zipIdx n) = some (n + k) := by
  induction l generalizing n k with
  | nil => simp at hk
  | cons a t ih =>
    rw [List.nodup_cons] at hn
    cases k with
    | zero => simp [List.zipIdx_cons, lookupIdx]
    | succ j =>
      have hj : j < t.length := by simpa using hk
      have hne : a ≠ t[j] := fun h => hn.1 (h ▸ List.getElem_mem hj)
      simp only [List.zipIdx_cons, lookupIdx, List.getElem_cons_succ, hne, if_false]
      rw [ih (n + 1) j hn.2 hj]; congr 1; omega

/-- **C08_views_agree**: under the invariant, for distinct ids, every id-keyed read path returns the row the
positional view holds at the position of that id: `.loc[id]`, `.iloc[k]`, `[id]` and `ids2indices`. -/
theorem C08_views_agree (s : State) (h : AInv s) (hn : s.ids.Nodup) (k : Nat) (hk : k < s.ids.length) :
    locView s s.ids[k] = dataView s k ∧ ilocView s k = dataView s k ∧
    (∀ m, s.id2index = some m → ids2indices s s.ids[k] = some k) := by
  obtain ⟨hfd, hlen, hidx⟩ := h
  refine ⟨?_, ?_, ?_⟩
  · unfold locView dataView
    rw [lookupRow_get s.ids s.frame hn hlen k hk, hfd]
  · unfold ilocView dataView; rw [hfd]
  · intro m hm
    have := hidx m hm
    unfold ids2indices
    rw [hm, this]
    simp only [Option.bind_some, enumIds]
    simpa using lookupIdx_zipIdx s.ids 0 k hn hk

/-- `filter_with_ids(sel)` returns, for every selected id, the row stored at that id's position -/
theorem C08_filter_with_ids (s : State) (h : AInv s) (hn : s.ids.Nodup) (ks : List Nat)
    (hks : ∀ k ∈ ks, k < s.ids.length) :
    filterWithIds s (ks.filterMap fun k => s.ids[k]?) = ks.mapM (dataView s) := by
  induction ks with
  | nil => simp [filterWithIds]
  | cons k t ih =>
    have hk : k < s.ids.length := hks k (by simp)
    have ht := ih (fun k hk' => hks k (by simp [hk']))
    have hv := (C08_views_agree s h hn k hk).1
    simp only [filterWithIds] at ht ⊢
    simp [List.filterMap_cons, List.getElem?_eq_getElem hk, List.mapM_cons, hv, ht]

/-! ### what an update does, stated on the id-keyed table -/

theorem zip_keys (ids : List Nat) (rows : List Row) (h : ids.length = rows.length) : (ids.zip rows).map Prod.fst = ids := by
  induction ids generalizing rows with
  | nil => simp
  | cons a t ih =>
    cases rows with
    | nil => simp at h
    | cons r rs => simp [ih rs (by simpa using h)]

/-- **C08_update_spec**: `update(ids', rows, allow_overwrite=True)` on a consistent attribute with distinct ids.
Afterwards, looked up by id: an id that was present and is updated holds the new row cell-wise where the new cell
is not NaN and the old cell otherwise (the pandas `combine_first` rule); an id that was present and is not
updated keeps its row; a new id holds the new row; no other id appears.  The ids stay distinct, and (unless the
update names exactly the stored ids in stored order) they are in ascending order. -/
theorem C08_update_spec (cfg : Cfg) (s t : State) (ids' : List Nat) (rows : List Row)
    (h : updateOverwrite cfg s ids' rows = .ok t) (hinv : AInv s) (hn : s.ids.Nodup) (hn' : ids'.Nodup) :
    (∀ i, locView t i =
      match lookupRow s.ids s.frame i, lookupRow ids' rows i with
      | some r, some n => some (combineRow n r)
      | some r, none => some r
      | none, some n => some n
      | none, none => none) ∧
    t.ids.Nodup ∧ (ids' ≠ s.ids → t.ids.Pairwise (· ≤ ·)) ∧ (∀ i, i ∈ t.ids ↔ i ∈ s.ids ∨ i ∈ ids') := by
  obtain ⟨hfd, hlen, _⟩ := hinv
  unfold updateOverwrite at h
  split at h
  · cases h
  · rename_i hl
    have hl' : ids'.length = rows.length := by simpa using hl
    -- the merged association list
    dsimp only at h
    obtain ⟨A, hA⟩ : ∃ A : List (Nat × Row), A = mergedOld ids' rows (s.ids.zip s.frame) := ⟨_, rfl⟩
    obtain ⟨B, hB⟩ : ∃ B : List (Nat × Row), B = newOnly s.ids (ids'.zip rows) := ⟨_, rfl⟩
    rw [← hA, ← hB] at h
    have hkeysA : A.map Prod.fst = s.ids := by
      simp only [hA, mergedOld, List.map_map]
      rw [show (Prod.fst ∘ fun (p : Nat × Row) => (p.1, mergeCell ids' rows p.1 p.2)) = Prod.fst from rfl]
      exact zip_keys s.ids s.frame hlen
    have hkeysB_sub : ∀ i ∈ B.map Prod.fst, i ∈ ids' ∧ i ∉ s.ids := by
      intro i hi
      obtain ⟨p, hp, rfl⟩ := List.mem_map.mp hi
      rw [hB, newOnly] at hp
      have hp' := List.mem_filter.mp hp
      refine ⟨?_, by simpa using hp'.2⟩
      have := List.mem_map_of_mem (f := Prod.fst) hp'.1
      rwa [zip_keys ids' rows hl'] at this
    have hkeysB_nd : (B.map Prod.fst).Nodup := by
      have : (B.map Prod.fst).Sublist ((ids'.zip rows).map Prod.fst) := by
        rw [hB, newOnly]; exact List.filter_sublist.map _
      rw [zip_keys ids' rows hl'] at this
      exact this.nodup hn'
    have hkeys_nd : ((A ++ B).map Prod.fst).Nodup := by
      rw [List.map_append, hkeysA]
      exact List.Nodup.append hn hkeysB_nd (fun i hi hi' => (hkeysB_sub i hi').2 hi)
    -- lookups in the merged list
    have hlookA : ∀ i, assocLookup i A = (lookupRow s.ids s.frame i).map (mergeCell ids' rows i) := by
      intro i; rw [hA, mergedOld, assocLookup_map, ← lookupRow_zip]
    have hlookB : ∀ i, i ∉ s.ids → assocLookup i B = lookupRow ids' rows i := by
      intro i hi
      rw [hB, newOnly, assocLookup_filter _ (fun i => !s.ids.contains i) i (by simpa using hi), ← lookupRow_zip]
    have hlookM : ∀ i, assocLookup i (A ++ B) =
        match lookupRow s.ids s.frame i, lookupRow ids' rows i with
        | some r, some n => some (combineRow n r)
        | some r, none => some r
        | none, some n => some n
        | none, none => none := by
      intro i
      rw [assocLookup_append, hlookA]
      by_cases hi : i ∈ s.ids
      · have : i ∈ (s.ids.zip s.frame).map Prod.fst := by rw [zip_keys _ _ hlen]; exact hi
        obtain ⟨r, hr⟩ := assocLookup_some_of_mem _ i this
        rw [lookupRow_zip, hr]
        cases hl2 : lookupRow ids' rows i <;> simp [mergeCell, hl2]
      · have : assocLookup i (s.ids.zip s.frame) = none :=
          assocLookup_none_of_not_mem _ i (by rw [zip_keys _ _ hlen]; exact hi)
        rw [lookupRow_zip, this, hlookB i hi]
        cases lookupRow ids' rows i <;> simp
    cases h
    by_cases hsame : ids' = s.ids
    · simp only [hsame, if_true] at *
      refine ⟨?_, hkeys_nd, fun h => absurd rfl h, ?_⟩
      · intro i; unfold locView; simp only; rw [assocLookup_unzip]; exact hlookM i
      · intro i
        rw [List.map_append, hkeysA]
        constructor
        · intro hi; rcases List.mem_append.mp hi with h | h
          · exact Or.inl h
          · exact Or.inl ((hkeysB_sub i h).1)
        · rintro (h | h) <;> exact List.mem_append_left _ h
    · simp only [hsame, if_false]
      refine ⟨?_, ?_, fun _ => sortById_sorted _, ?_⟩
      · intro i; unfold locView; simp only
        rw [assocLookup_unzip, assocLookup_sortById _ hkeys_nd]; exact hlookM i
      · exact (sortById_keys_perm _).nodup_iff.mpr hkeys_nd
      · intro i
        rw [(sortById_keys_perm (A ++ B)).mem_iff, List.map_append, hkeysA]
        constructor
        · intro hi; rcases List.mem_append.mp hi with h | h
          · exact Or.inl h
          · exact Or.inr ((hkeysB_sub i h).1)
        · rintro (h | h)
          · exact List.mem_append_left _ h
          · by_cases hs : i ∈ s.ids
            · exact List.mem_append_left _ hs
            · apply List.mem_append_right
              have : i ∈ (ids'.zip rows).map Prod.fst := by rw [zip_keys _ _ hl']; exact h
              obtain ⟨p, hp, hpi⟩ := List.mem_map.mp this
              rw [hB, newOnly]
              exact List.mem_map.mpr ⟨p, List.mem_filter.mpr ⟨hp, by simpa [hpi] using hs⟩, hpi⟩

/-- non-vacuity: unsorted ids, one updated id with a NaN cell, one new id -/
example : (updateOverwrite Cfg.fixed s0 [9, 4] [[none], [some 7]]).map (fun t => (t.ids, t.frame))
    = .ok ([3, 4, 5, 9], [[some 3], [some 7], [some 1], [some 5]]) := by decide

/-! ### histories with references retained by the caller; collections -/

/-- **C08_hist_inv**: in a history in which the caller keeps slices (`a.loc[…]`, `a.iloc[…]`), arrays returned by
`.data` and the `data_frame` alive across later updates, every step — a public update of the attribute, taking or
dropping a slice, keeping a reference, assigning to / updating a slice taken EARLIER (write-through to the parent as
it is now) — preserves "the attribute and every slice still held are consistent tables". -/
theorem C08_hist_inv (h : Hist) (op : HOp) (hi : HInv h) : HInv (hstep Cfg.fixed h op) := hinv_step_fixed h op hi

/-- **C08_hist_reachable**: … hence after any finite interleaving of parent and slice writes. -/
theorem C08_hist_reachable (h : Hist) (ops : List HOp) (hi : HInv h) : HInv (ops.foldl (hstep Cfg.fixed) h) :=
  hinv_reachable_fixed h ops hi

/-- **C08_keepRef_noop**: keeping what a read path returned is not an update. -/
theorem C08_keepRef_noop (cfg : Cfg) (h : Hist) : (hstep cfg h .keepRef).cur = h.cur ∧ (hstep cfg h .keepRef).held = h.held :=
  ⟨rfl, rfl⟩

theorem lookupRow_some_of_mem (ids : List Nat) (rows : List Row) (hl : ids.length = rows.length) (i : Nat) (hi : i ∈ ids) :
    ∃ r, lookupRow ids rows i = some r := by
  rw [lookupRow_zip]; exact assocLookup_some_of_mem _ i (by rw [zip_keys ids rows hl]; exact hi)

theorem mem_of_lookupRow_some (ids : List Nat) (rows : List Row) (hl : ids.length = rows.length) (i : Nat) (r : Row)
    (h : lookupRow ids rows i = some r) : i ∈ ids := by
  by_cases hi : i ∈ ids
  · exact hi
  · rw [lookupRow_zip, assocLookup_none_of_not_mem _ i (by rw [zip_keys ids rows hl]; exact hi)] at h
    cases h

/-- **C08_write_through_by_id**: a successful write through an id-selected slice (distinct selected ids) keeps the
ids and their order; looked up by id afterwards, a selected id holds the row written for it and every other id
keeps its row.  (`locWrite` is what `_update_parent` does; the parent `p` is the parent at the time of the WRITE.) -/
theorem C08_write_through_by_id (p t : State) (sel : List Nat) (v : List Row)
    (h : locWrite Cfg.fixed p sel v = .ok t) (hinv : AInv p) (hn : sel.Nodup) :
    t.ids = p.ids ∧ ∀ i, locView t i = match lookupRow sel v i with
      | some r => some r
      | none => locView p i := by
  obtain ⟨_, hlen, _⟩ := hinv
  unfold locWrite at h
  split at h
  · cases h
  · rename_i hall
    split at h
    · cases h
    · rename_i hl
      have hl' : sel.length = v.length := by simpa using hl
      cases h
      refine ⟨rfl, ?_⟩
      intro i
      unfold locView
      simp only
      rw [show (fun fr (x : Nat × Row) => match x with | (i, r) => setRow p.ids fr i r)
            = (fun fr (q : Nat × Row) => setRow p.ids fr q.1 q.2) from by funext fr ⟨i, r⟩; rfl]
      rw [lookupRow_foldl_setRow p.ids (sel.zip v) p.frame hlen (by rw [zip_keys sel v hl']; exact hn) i,
        ← lookupRow_zip]
      cases hs : lookupRow sel v i with
      | none => rfl
      | some r =>
        have hi : i ∈ sel := mem_of_lookupRow_some sel v hl' i r hs
        have hip : i ∈ p.ids := by
          have := hall
          simp only [List.any_eq_true, Bool.not_eq_true', not_exists, not_and] at this
          have h2 := this i hi
          simpa using h2
        obtain ⟨q, hq⟩ := lookupRow_some_of_mem p.ids p.frame hlen i hip
        simp [hq]

/-- **C08_held_write_by_id**: a slice taken earlier and kept while the parent was updated (rows inserted in front,
re-sorted, overwritten …) still writes BY ID: whatever the current parent `h.cur` looks like, after
`held[k].data = v` the ids of the slice hold the new rows in the parent, every other id keeps its row, the slice
itself holds the new rows, and the parent keeps its ids. -/
theorem C08_held_write_by_id (h : Hist) (k : Nat) (c : State) (v : List Row) (hi : HInv h)
    (hk : h.held[k]? = some c) (hn : c.ids.Nodup) (hl : c.ids.length = v.length) (hsub : ∀ i ∈ c.ids, i ∈ h.cur.ids) :
    ∃ p', hstepE Cfg.fixed h (.heldSet k v) =
        (none, { h with cur := p', held := h.held.set k { c with frame := v, data := v }, vws := h.vws.set k none }) ∧
      p'.ids = h.cur.ids ∧
      (∀ i, locView p' i = match lookupRow c.ids v i with | some r => some r | none => locView h.cur i) := by
  have hw : ∃ p', writeBack Cfg.fixed h.cur { c with frame := v, data := v } = .ok p' := by
    unfold writeBack locWrite
    have h1 : (c.ids.any fun i => !h.cur.ids.contains i) = false := by
      rw [List.any_eq_false]; intro i hi'; simpa using hsub i hi'
    simp only [h1, Bool.false_eq_true, if_false]
    have h2 : ¬ (c.ids.length ≠ v.length) := by simpa using hl
    simp only [h2, if_false]
    exact ⟨_, rfl⟩
  obtain ⟨p', hp'⟩ := hw
  refine ⟨p', ?_, ?_⟩
  · have h2 : ¬ (c.ids.length ≠ v.length) := by simpa using hl
    simp only [hstepE, heldApply, hk, setData, h2, if_false, hp', refreshAliases_fixed]
  · have := C08_write_through_by_id h.cur p' c.ids v (by simpa [writeBack] using hp') hi.1 hn
    exact this

/-- non-vacuity (the history of seeded change C08-5): slice `[30]` taken, then an update inserts id 5 in front of the
parent's rows, then the slice is assigned — id 30 holds the new row, id 20 (now at the slice's old position) keeps its own -/
example : let h0 : Hist := ⟨⟨[10, 20, 30, 40], [[some 1], [some 2], [some 3], [some 4]], [[some 1], [some 2], [some 3], [some 4]],
      some (enumIds [10, 20, 30, 40])⟩, [], 0, []⟩
    let h := [HOp.take [30], .keepRef, .pub (.update [5] [[some 0]] true), .heldSet 0 [[some (-7)]]].foldl (hstep Cfg.fixed) h0
    (h.cur.ids, h.cur.data, h.cur.frame == h.cur.data, h.held.map (·.frame)) =
      ([5, 10, 20, 30, 40], [[some 0], [some 1], [some 2], [some (-7)], [some 4]], true, [[[some (-7)]]]) := by decide

/-- **C08_collection_filter**: `FEMAttributes.filter_with_ids(sel)` / `extract_dict(sel)` on a collection of consistent
attributes — each with its OWN ids in its OWN order — returns for every attribute and every selected id the positional
row stored at the position that id has in THAT attribute (never at the position it has in another attribute). -/
theorem C08_collection_filter (c : List State) (sel : List Nat) (hinv : ∀ s ∈ c, AInv s) :
    collFilter c sel = c.mapM fun s => sel.mapM fun i => (posOf s.ids i).bind (dataView s) := by
  unfold collFilter
  induction c with
  | nil => rfl
  | cons s t ih =>
    have hs : filterWithIds s sel = sel.mapM fun i => (posOf s.ids i).bind (dataView s) := by
      obtain ⟨hfd, hlen, _⟩ := hinv s (by simp)
      unfold filterWithIds
      congr 1
      funext i
      unfold locView dataView
      rw [lookupRow_posOf s.ids s.frame hlen i, hfd]
    rw [List.mapM_cons, List.mapM_cons, hs, ih (fun u hu => hinv u (by simp [hu]))]

/-- non-vacuity (the collection of seeded change C08-6): two attributes over the same six ids stored in different
orders, filtered by `[2, 5, 6]` -/
example : collFilter [⟨[1, 2, 3, 4, 5, 6], [[some 10], [some 20], [some 30], [some 40], [some 50], [some 60]],
      [[some 10], [some 20], [some 30], [some 40], [some 50], [some 60]], none⟩,
    ⟨[4, 6, 2, 1, 5, 3], [[some 400], [some 600], [some 200], [some 100], [some 500], [some 300]],
      [[some 400], [some 600], [some 200], [some 100], [some 500], [some 300]], none⟩] [2, 5, 6]
    = some [[[some 20], [some 50], [some 60]], [[some 200], [some 500], [some 600]]] := by decide

/-- **C08_collection_set_attribute**: `set_attribute_data` creates a consistent attribute over the ids of the first
attribute of the collection, in that attribute's order. -/
theorem C08_collection_set_attribute (s a : State) (t : List State) (v : List Row)
    (h : collSetAttr (s :: t) v = .ok a) : a.ids = s.ids ∧ a.data = v ∧ AInv a := by
  unfold collSetAttr at h
  simp only at h
  split at h
  · cases h
  · have hi := inv_mk s.ids v false a h
    unfold mk at h
    split at h
    · cases h
    · cases h; exact ⟨rfl, rfl, hi⟩

/-! ### mixed-type element collections (`FEMElementalAttribute._update_self`) -/

theorem insertElem_sorted (e : Elem) (l : List Elem) (hl : l.Pairwise (fun a b => a.id ≤ b.id)) :
    (insertElem e l).Pairwise (fun a b => a.id ≤ b.id) := by
  induction l with
  | nil => simp [insertElem]
  | cons f t ih =>
    rw [List.pairwise_cons] at hl
    simp only [insertElem]
    split
    · rename_i hle
      rw [List.pairwise_cons]
      refine ⟨?_, List.pairwise_cons.mpr hl⟩
      intro x hx
      rcases List.mem_cons.mp hx with h | h
      · subst h; exact hle
      · exact Nat.le_trans hle (hl.1 x h)
    · rename_i hnle
      rw [List.pairwise_cons]
      refine ⟨?_, ih hl.2⟩
      intro x hx
      have := (insertElem_perm e t).subset hx
      rcases List.mem_cons.mp this with h | h
      · subst h; exact Nat.le_of_lt (Nat.lt_of_not_le hnle)
      · exact hl.1 x h

theorem sortElems_sorted (l : List Elem) : (sortElems l).Pairwise (fun a b => a.id ≤ b.id) := by
  induction l with
  | nil => simp [sortElems]
  | cons e t ih => exact insertElem_sorted e _ ih

/-- **C08_mixed_once_sorted**: for type blocks with pairwise distinct element ids, the flattened collection
(a) lists every element of every block exactly once (it is a permutation of the concatenation),
(b) when there are several blocks, is strictly ascending in id,
(c) has an id→position map consistent with it: the element at position `k` is found at `k` by its id,
so type and connectivity read at the position of an id are those of the block row that owns the id. -/
theorem C08_mixed_once_sorted (blocks : List (List Elem)) (he : (blocks.flatten.map Elem.id).Nodup) :
    (flatten blocks).Perm blocks.flatten ∧
    (blocks.length ≠ 1 → (flatten blocks).Pairwise (fun a b => a.id < b.id)) ∧
    (∀ k (hk : k < (flatten blocks).length), elemPos (flatten blocks) ((flatten blocks)[k]).id = some k) := by
  have hperm := flatten_perm blocks
  have hnd : ((flatten blocks).map Elem.id).Nodup := (hperm.map Elem.id).nodup_iff.mpr he
  refine ⟨hperm, ?_, ?_⟩
  · intro hne
    have hsorted : (flatten blocks).Pairwise (fun a b => a.id ≤ b.id) := by
      unfold flatten
      split
      · simp at hne
      · exact sortElems_sorted _
    have hne' : (flatten blocks).Pairwise (fun a b => a.id ≠ b.id) := by
      rw [List.Nodup, List.pairwise_map] at hnd; exact hnd
    exact (hsorted.and hne').imp (fun h => Nat.lt_of_le_of_ne h.1 h.2)
  · intro k hk
    unfold elemPos
    have := idPos_get hnd k (by simpa using hk)
    simpa using this

/-- non-vacuity: a mixed collection stored in type order with interleaved ids -/
example : (flatten [[⟨7, 8, [1, 2, 3, 4]⟩, ⟨2, 8, [2, 3, 4, 5]⟩], [⟨5, 14, [1, 2, 3, 4, 5, 6, 7, 8]⟩]]).map Elem.id = [2, 5, 7] := by
  decide

/-- non-vacuity of the invariant: a concrete history over unsorted ids ends in a consistent state -/
example : InvB ([Op.locWrite [3, 9] [[some 30], [some 50]], Op.update [1, 3] [[some 0], [none]] true,
    Op.overwrite [[some 1], [some 2], [some 3], [some 4]], Op.ilocWrite [0] [[some 8]]].foldl (step Cfg.fixed) s0) = true := by
  decide

/-! ### the three defects of the pinned upstream commit (each replayed on the implementation by the harness) -/

/-- F2: write through `.loc` leaves the positional view behind -/
theorem C08_counterexample_loc_write : InvB (step Cfg.current s0 (.locWrite [3, 9] [[some 30], [some 50]])) = false :=
  locWrite_breaks_current
/-- F3: `overwrite` without ids leaves the id-keyed view behind -/
theorem C08_counterexample_overwrite : InvB (step Cfg.current s0 (.overwrite [[some 7], [some 8], [some 9]])) = false :=
  overwrite_breaks_current
/-- F4: `update` re-sorts the ids but keeps the old id→position map -/
theorem C08_counterexample_update_index : InvB (step Cfg.current s0 (.update [1] [[some 0]] true)) = false :=
  update_breaks_current

/-! ### round 3: two more upstream defects around slices (each replayed on the implementation: corpus/C08/F16, F17) -/

def sDense : State := ⟨[1, 2, 3], [[some 1], [some 2], [some 3]], [[some 1], [some 2], [some 3]], none⟩
def cfgNoLabel : Cfg := { Cfg.fixed with ilocLabel := false }
def cfgViews : Cfg := { Cfg.fixed with sliceOwnsData := false }

/-- F16: `a.iloc[2]` (one int) was labelled with the position: on ids 1..3 the slice of position 2 (id 3) calls itself id 2,
and assigning to it overwrites the row of id 2 while id 3 — the row that was selected — keeps its value -/
theorem C08_counterexample_iloc_scalar :
    let h := [HOp.takeI1 2, .heldSet 0 [[some 99]]].foldl (hstep cfgNoLabel) ⟨sDense, [], 0, []⟩
    (h.held.map (·.ids), h.cur.ids, h.cur.data) = ([[2]], [1, 2, 3], [[some 1], [some 99], [some 3]]) := by decide
/-- … the repaired code labels it with id 3 and writes the row of id 3 -/
example : let h := [HOp.takeI1 2, .heldSet 0 [[some 99]]].foldl (hstep Cfg.fixed) ⟨sDense, [], 0, []⟩
    (h.held.map (·.ids), h.cur.ids, h.cur.data) = ([[3]], [1, 2, 3], [[some 1], [some 2], [some 99]]) := by decide

/-- F17: a slice that pandas serves as a view (`a.iloc[0:2]`) kept its positional rows as a view of the parent's block and
its id-keyed rows as a copy: after a later write to the parent the slice's two views disagree -/
theorem C08_counterexample_slice_alias :
    let h := [HOp.takeView [0, 1], .pub (.locWrite [2] [[some (-20)]])].foldl (hstep cfgViews) ⟨sDense, [], 0, []⟩
    h.held.map InvB = [false] ∧ h.held.map (·.data) = [[[some 1], [some (-20)]]] ∧ h.held.map (·.frame) = [[[some 1], [some 2]]] := by
  decide
/-- … in the repaired code the slice is a snapshot in both views -/
example : let h := [HOp.takeView [0, 1], .pub (.locWrite [2] [[some (-20)]])].foldl (hstep Cfg.fixed) ⟨sDense, [], 0, []⟩
    h.held.map InvB = [true] ∧ h.held.map (·.data) = [[[some 1], [some 2]]] := by decide

/-! ### round 4, class F: the dtype of the ids and the memory layout of the rows are not part of the table

Two shortcuts that are right for everything femio's readers and tests produce (signed ids, C-ordered arrays) and wrong inside the
property's quantifier; stated here with the reason why the usual inputs cannot see them. -/
section LayoutAndDtype
open AttrLayout

theorem diffU_pos (bits a b : Nat) (ha : a < 2 ^ bits) (hb : b < 2 ^ bits) (hne : a ≠ b) : 0 < diffU bits a b := by
  unfold diffU
  have hM : 0 < 2 ^ bits := Nat.two_pow_pos bits
  generalize 2 ^ bits = M at *
  rcases Nat.eq_zero_or_pos ((b + M - a) % M) with h0 | h0
  · exfalso
    obtain ⟨k, hk⟩ := Nat.dvd_of_mod_eq_zero h0
    rcases k with _ | _ | k
    · simp at hk; omega
    · simp at hk; omega
    · have h2 : M * 2 ≤ M * (k + 1 + 1) := Nat.mul_le_mul_left M (by omega)
      omega
  · exact h0

/-- **C08_unsigned_guard_vacuous**: on duplicate-free ids stored in an unsigned dtype of `bits` bits the test
`np.all(np.diff(ids) > 0)` is true for EVERY storage order (the difference wraps around and is never negative, and it is never zero
because the ids are distinct): as a guard for "the ids are already ascending" it says nothing. -/
theorem C08_unsigned_guard_vacuous (bits : Nat) (ids : List Nat) (hn : ids.Nodup) (hb : ∀ i ∈ ids, i < 2 ^ bits) :
    looksAscendingU bits ids = true := by
  unfold looksAscendingU
  induction ids with
  | nil => rfl
  | cons a t ih =>
    cases t with
    | nil => rfl
    | cons b t' =>
      have hn' := List.nodup_cons.mp hn
      have hab : a ≠ b := by
        intro h; subst h; exact hn'.1 (by simp)
      have h1 := diffU_pos bits a b (hb a (by simp)) (hb b (by simp)) hab
      have h2 := ih hn'.2 (fun i hi => hb i (List.mem_cons_of_mem _ hi))
      simp only [adjAll, Bool.and_eq_true, decide_eq_true_eq]
      exact ⟨h1, h2⟩

example : looksAscendingU 32 [1, 4, 6, 2, 3, 5, 7] = true ∧ looksAscendingS [1, 4, 6, 2, 3, 5, 7] = false := by decide

theorem adjAll_lt_pairwise (l : List Nat) (h : adjAll (fun a b => decide (a < b)) l = true) : l.Pairwise (· < ·) := by
  induction l with
  | nil => exact List.Pairwise.nil
  | cons a t ih =>
    cases t with
    | nil => simp
    | cons b t' =>
      simp only [adjAll, Bool.and_eq_true, decide_eq_true_eq] at h
      have hp := ih h.2
      rw [List.pairwise_cons]
      refine ⟨?_, hp⟩
      intro x hx
      rcases List.mem_cons.mp hx with hx | hx
      · subst hx; exact h.1
      · exact Nat.lt_trans h.1 ((List.pairwise_cons.mp hp).1 x hx)

theorem sortElems_of_sorted (l : List Elem) (h : l.Pairwise (fun a b => a.id ≤ b.id)) : sortElems l = l := by
  induction l with
  | nil => rfl
  | cons e t ih =>
    rw [List.pairwise_cons] at h
    show insertElem e (sortElems t) = e :: t
    rw [ih h.2]
    cases t with
    | nil => rfl
    | cons f t' => simp [insertElem, h.1 f (by simp)]

/-- **C08_signed_guard_sound**: the same shortcut with the comparison made in a signed (or unbounded) type is behaviour-preserving:
when every adjacent pair of the block-concatenated ids ascends, sorting by id is the identity. The idea of the shortcut is sound;
only the unsigned arithmetic of the guard breaks it. -/
theorem C08_signed_guard_sound (blocks : List (List Elem)) : flattenGuarded looksAscendingS blocks = flatten blocks := by
  rcases blocks with _ | ⟨b, _ | ⟨c, t⟩⟩
  · simp [flattenGuarded, flatten, sortElems]
  · rfl
  · simp only [flattenGuarded, flatten]
    split
    · rename_i hg
      have hp := adjAll_lt_pairwise _ hg
      rw [sortElems_of_sorted]
      exact (List.pairwise_map.mp hp).imp (fun h => Nat.le_of_lt h)
    · rfl

/-- seeded change C08-8 (tri 1 4 6 + quad 2 3 5 7 with uint32 ids): with the unsigned guard the collection stays in block order,
so it is not ascending and differs from `_update_self` -/
theorem C08_counterexample_unsigned_shortcut :
    let blocks : List (List Elem) := [[⟨1, 3, [1, 2, 3]⟩, ⟨4, 3, [2, 5, 3]⟩, ⟨6, 3, [5, 8, 9]⟩],
                                     [⟨2, 5, [1, 2, 5, 4]⟩, ⟨3, 5, [2, 3, 6, 5]⟩, ⟨5, 5, [4, 5, 8, 7]⟩, ⟨7, 5, [5, 6, 9, 8]⟩]]
    (flattenGuarded (looksAscendingU 32) blocks).map Elem.id = [1, 4, 6, 2, 3, 5, 7] ∧
    (flatten blocks).map Elem.id = [1, 2, 3, 4, 5, 6, 7] ∧
    elemPos (flattenGuarded (looksAscendingU 32) blocks) 2 = some 3 := by
  decide

/-- **C08_layout_C_roundtrip**: the frame row made in C order and cut back in C order (what every id-keyed read path does) is the
tensor that `.data[k]` serves - whatever the memory layout of the array was. -/
theorem C08_layout_C_roundtrip {α : Type} (q : Nat) (hq : 0 < q) (t : List (List α)) (ht : ∀ r ∈ t, r.length = q)
    (fuel : Nat) (hf : t.length ≤ fuel) : unflattenC q fuel (flattenC t) = t := by
  unfold flattenC
  induction t generalizing fuel with
  | nil => cases fuel <;> simp [unflattenC]
  | cons r t' ih =>
    cases fuel with
    | zero => simp at hf
    | succ f =>
      have hr : r.length = q := ht r (by simp)
      cases r with
      | nil => simp at hr; omega
      | cons x r' =>
        have e : ((x :: r') :: t').flatten = x :: (r' ++ t'.flatten) := by simp
        rw [e]
        show (x :: (r' ++ t'.flatten)).take q :: unflattenC q f ((x :: (r' ++ t'.flatten)).drop q) = (x :: r') :: t'
        have e2 : x :: (r' ++ t'.flatten) = (x :: r') ++ t'.flatten := rfl
        rw [e2, List.take_left' hr, List.drop_left' hr]
        rw [ih (fun r hr' => ht r (List.mem_cons_of_mem _ hr')) f (by simpa using hf)]

/-- **C08_layout_A_symmetric**: flattening by memory layout (`order='A'`) agrees with C order on C-ordered input, and on
Fortran-ordered input exactly when the tensor equals its transpose - which is why symmetric tensors (stresses, strains) and
everything of rank <= 2 cannot see the difference. -/
theorem C08_layout_A_symmetric {α : Type} (t : List (List α)) :
    flattenA false t = flattenC t ∧ (transposeT t = t → flattenA true t = flattenC t) := by
  refine ⟨rfl, ?_⟩
  intro h
  simp [flattenA, flattenC, h]

/-- seeded change C08-7: a non-symmetric tensor handed over Fortran-ordered is stored transposed in the id-keyed frame, so
`loc[id]` / `iloc[k]` / `filter_with_ids` return the transpose of what `.data[k]` serves -/
theorem C08_counterexample_layout_A :
    unflattenC 2 2 (flattenA true [[1, 2], [3, 4]]) = [[1, 3], [2, 4]] ∧
    unflattenC 2 2 (flattenA false [[1, 2], [3, 4]]) = [[1, 2], [3, 4]] ∧
    unflattenC 3 2 (flattenA true [[1, 2, 3], [4, 5, 6]]) = [[1, 4, 2], [5, 3, 6]] := by
  decide

/-- non-vacuity of `C08_layout_C_roundtrip` on a 2 x 3 tensor -/
example : unflattenC 3 2 (flattenC [[1, 2, 3], [4, 5, 6]]) = [[1, 2, 3], [4, 5, 6]] := by decide

end LayoutAndDtype

/-! ### round 5: the order in which a request names the ids is not part of the table (seeded change C08-10) -/
section RequestOrder

/-- lookup in an association list with distinct keys does not depend on the order of its entries -/
theorem assocLookup_perm {l₁ l₂ : List (Nat × Row)} (hp : l₁.Perm l₂) (hn : (l₁.map Prod.fst).Nodup) (i : Nat) :
    assocLookup i l₁ = assocLookup i l₂ := by
  induction hp with
  | nil => rfl
  | cons x _ ih =>
    obtain ⟨j, r⟩ := x
    have hn2 : (List.map Prod.fst _).Nodup := (List.nodup_cons.mp (by simpa using hn)).2
    simp only [assocLookup]
    rw [ih hn2]
  | swap x y l =>
    obtain ⟨j, r⟩ := x
    obtain ⟨k, q⟩ := y
    have hne : k ≠ j := by
      intro h
      subst h
      simp at hn
    simp only [assocLookup]
    by_cases h1 : k = i
    · have h2 : j ≠ i := fun h => hne (h1.trans h.symm)
      simp [h1, h2]
    · simp [h1]
  | trans h₁ _ ih₁ ih₂ =>
    rw [ih₁ hn, ih₂ ((h₁.map Prod.fst).nodup_iff.mp hn)]

/-- **C08_update_request_order**: the table after `update(ids', rows, allow_overwrite=True)` depends, by id, on WHICH row the
request gives for WHICH id and not on the order in which the request names the ids: two requests that pair the same (distinct)
ids with the same rows - one a permutation of the other, both well-formed (as many rows as ids, the condition under which
`update` does not raise) - produce tables that agree under lookup by id and list the same ids. -/
theorem C08_update_request_order (cfg : Cfg) (s t t' : State) (ids' ids'' : List Nat) (rows rows' : List Row)
    (hl : ids'.length = rows.length) (hl' : ids''.length = rows'.length)
    (hperm : (ids'.zip rows).Perm (ids''.zip rows'))
    (h : updateOverwrite cfg s ids' rows = .ok t) (h' : updateOverwrite cfg s ids'' rows' = .ok t')
    (hinv : AInv s) (hn : s.ids.Nodup) (hn' : ids'.Nodup) :
    (∀ i, locView t i = locView t' i) ∧ (∀ i, i ∈ t.ids ↔ i ∈ t'.ids) := by
  have hk : ids'.Perm ids'' := by
    have := hperm.map Prod.fst
    rwa [zip_keys ids' rows hl, zip_keys ids'' rows' hl'] at this
  have hn'' : ids''.Nodup := hk.nodup_iff.mp hn'
  have hlook : ∀ i, lookupRow ids' rows i = lookupRow ids'' rows' i := by
    intro i
    rw [lookupRow_zip, lookupRow_zip]
    exact assocLookup_perm hperm (by rw [zip_keys ids' rows hl]; exact hn') i
  obtain ⟨h1, _, _, h4⟩ := C08_update_spec cfg s t ids' rows h hinv hn hn'
  obtain ⟨h1', _, _, h4'⟩ := C08_update_spec cfg s t' ids'' rows' h' hinv hn hn''
  refine ⟨fun i => ?_, fun i => ?_⟩
  · rw [h1 i, h1' i, hlook i]
  · rw [h4 i, h4' i]
    exact or_congr Iff.rfl hk.mem_iff

/-- the in-place shortcut of seeded change C08-10 (`frame[index.isin(new_ids)] = new_values`): the rows whose id is requested are
overwritten through a boolean row mask, i.e. visited in STORAGE order, while the new rows are consumed in REQUEST order -/
def maskAssign : List Nat → List Row → List Nat → List Row → List Row
  | i :: is, r :: rs, req, n :: ns =>
    if req.contains i then n :: maskAssign is rs req ns else r :: maskAssign is rs req (n :: ns)
  | _, rs, _, _ => rs

def sUnsorted : State :=
  ⟨[30, 10, 50, 20, 40], [[some 30], [some 10], [some 50], [some 20], [some 40]],
   [[some 30], [some 10], [some 50], [some 20], [some 40]], some (enumIds [30, 10, 50, 20, 40])⟩

/-- **C08_counterexample_mask_update** (seeded change C08-10): on ids stored as 30, 10, 50, 20, 40 the request
"10 ↦ 1, 20 ↦ 2, 30 ↦ 3" - ascending, not in storage order - written through the row mask puts the row passed for id 10 under
id 30 and the one passed for id 30 under id 20, although every view of the resulting table agrees with every other; the modelled
`update` (`combine_first`, by label) holds under every id the row that was passed for it. -/
theorem C08_counterexample_mask_update :
    let masked := maskAssign sUnsorted.ids sUnsorted.frame [10, 20, 30] [[some 1], [some 2], [some 3]]
    masked = [[some 1], [some 2], [some 50], [some 3], [some 40]] ∧
    lookupRow sUnsorted.ids masked 30 = some [some 1] ∧ lookupRow sUnsorted.ids masked 20 = some [some 3] ∧
    (match updateOverwrite Cfg.fixed sUnsorted [10, 20, 30] [[some 1], [some 2], [some 3]] with
     | .ok t => [locView t 10, locView t 20, locView t 30, locView t 40, locView t 50]
     | .error _ => []) = [some [some 1], some [some 2], some [some 3], some [some 40], some [some 50]] := by
  decide

/-- … and the mask is harmless exactly when the request names the ids in storage order (all uses in femio's own tests) -/
example : maskAssign sUnsorted.ids sUnsorted.frame [30, 10, 20] [[some 3], [some 1], [some 2]]
    = [[some 3], [some 1], [some 50], [some 2], [some 40]] := by decide

/-- non-vacuity of `C08_update_request_order`: the same request named ascending and descending -/
example : (match updateOverwrite Cfg.fixed sUnsorted [10, 20, 30] [[some 1], [some 2], [some 3]],
                 updateOverwrite Cfg.fixed sUnsorted [30, 20, 10] [[some 3], [some 2], [some 1]] with
           | .ok t, .ok t' => t == t' | _, _ => false) = true := by decide

end RequestOrder

end Femio.C08
