import Femio.Gen.Kernels
import Femio.Model.GeomKernels
import Mathlib.Tactic.Ring
import Mathlib.Tactic.LinearCombination
import Mathlib.Tactic.NormNum
/-! # Tie S — the model kernels ARE the polynomials the code computes (symbolic-execution translator)

`Femio/Gen/Kernels.lean` is regenerated on every run by `harness/gen_kernels.py`: the real
`calculate_element_volumes / _areas / _normals` of the current working tree are executed on a single element
with *symbolic* node coordinates `x0 y0 z0 x1 …`; the polynomial that comes out (times the model's fixed integer
multiplier) is emitted as `Femio.Gen.kVol… / kArea… / kNormal…`.  Each theorem below states, over an arbitrary
commutative ring, that this polynomial equals the hand-written model kernel of `Model/Geom*.lean` /
`Model/GeomKernels.lean` on the points `⟨x0,y0,z0⟩, …` — proved by unfolding the model and `ring`, so Lean's kernel
re-checks it against what the code computes *now*.  A changed term in `geometry_processor.py` changes the generated
polynomial and the corresponding `KT_…` no longer builds.

Naming: `KT_<api>_<element type>_<mode>`; for each (type, mode) the right-hand side is what the model's dispatch
(`Femio.C11.volume / area / normal / volumePoly`) evaluates for that type and mode.  Areas: the code returns
`Σ_k c_k ‖v_k‖`; the generated vectors are `c_k · den · v_k` with `den = AreaNF.den`, so that
`area = (Σ_k √(normSq (model vector k))) / den` exactly as in the model.  Normals: the un-normalised vector (times the
stated integer).  Not covered here (tie P only): hex `gaussian` volume, quad `gaussian` area.
Each `KT_<kernel>` is followed by an `example` evaluating both sides at concrete integer points (`decide`). -/
open V3 Geom Femio.C11 Femio.Gen
namespace Femio.KT
set_option linter.unusedSimpArgs false
set_option linter.unusedVariables false
set_option linter.style.longLine false
set_option maxRecDepth 16000

/-- unfold the model kernels down to `+ − *` on the coordinates -/
macro "kt_model" : tactic => `(tactic| simp only [tet6, hexLin6, hexC24, quadC4, pyrLin6, pyrC24, prismLin6, prismC24,
    triCross, quadCrossC, quadLinCross1, quadLinCross2, quadLinNormal, polyFanCross, polyCentroidCross, polyFan6, faceFan6,
    faceCentroidK, cycPairs, consecPairs, vsum, vzero,
    List.getLast?_cons_cons, List.getLast?_singleton, List.dropLast, List.tail_cons, List.zip_cons_cons, List.zip_nil_right,
    List.zip_nil_left, List.map_cons, List.map_nil, List.foldr_cons, List.foldr_nil, List.sum_cons, List.sum_nil,
    V3.det, V3.cross, V3.sub, V3.add, V3.smul])

/-- every generated polynomial has integer coefficients after multiplication by the model's multiplier alone
    (a kernel whose scale is not 1 computes a different rational multiple than the model says) -/
theorem KT_integer_coefficients : ∀ p ∈ kernelScales, p.2 = 1 := by decide

section
variable {R : Type} [CommRing R]

/-- `6 · calculate_element_volumes(mode="linear")` of one `tet` -/
theorem KT_vol_tet_linear (x0 y0 z0 x1 y1 z1 x2 y2 z2 x3 y3 z3 : R) :
    kVolTetLinear x0 y0 z0 x1 y1 z1 x2 y2 z2 x3 y3 z3
      = tet6 ⟨x0, y0, z0⟩ ⟨x1, y1, z1⟩ ⟨x2, y2, z2⟩ ⟨x3, y3, z3⟩ := by
  simp only [kVolTetLinear]; kt_model; ring
example : kVolTetLinear (R := Int) 1 0 (-2) 0 (-1) 4 (-1) (-2) 4 1 (-1) (-2) = 6 ∧
    tet6 (R := Int) ⟨1, 0, -2⟩ ⟨0, -1, 4⟩ ⟨-1, -2, 4⟩ ⟨1, -1, -2⟩ = 6 := by decide

/-- `6 · calculate_element_volumes(mode="gaussian")` of one `tet` -/
theorem KT_vol_tet_gaussian (x0 y0 z0 x1 y1 z1 x2 y2 z2 x3 y3 z3 : R) :
    kVolTetGaussian x0 y0 z0 x1 y1 z1 x2 y2 z2 x3 y3 z3
      = tet6 ⟨x0, y0, z0⟩ ⟨x1, y1, z1⟩ ⟨x2, y2, z2⟩ ⟨x3, y3, z3⟩ := by
  simp only [kVolTetGaussian]; kt_model; ring
example : kVolTetGaussian (R := Int) 1 0 (-2) 0 (-1) 4 (-1) (-2) 4 1 (-1) (-2) = 6 ∧
    tet6 (R := Int) ⟨1, 0, -2⟩ ⟨0, -1, 4⟩ ⟨-1, -2, 4⟩ ⟨1, -1, -2⟩ = 6 := by decide

/-- `6 · calculate_element_volumes(mode="centroid")` of one `tet` -/
theorem KT_vol_tet_centroid (x0 y0 z0 x1 y1 z1 x2 y2 z2 x3 y3 z3 : R) :
    kVolTetCentroid x0 y0 z0 x1 y1 z1 x2 y2 z2 x3 y3 z3
      = tet6 ⟨x0, y0, z0⟩ ⟨x1, y1, z1⟩ ⟨x2, y2, z2⟩ ⟨x3, y3, z3⟩ := by
  simp only [kVolTetCentroid]; kt_model; ring
example : kVolTetCentroid (R := Int) 1 0 (-2) 0 (-1) 4 (-1) (-2) 4 1 (-1) (-2) = 6 ∧
    tet6 (R := Int) ⟨1, 0, -2⟩ ⟨0, -1, 4⟩ ⟨-1, -2, 4⟩ ⟨1, -1, -2⟩ = 6 := by decide

/-- `6 · calculate_element_volumes(mode="linear")` of one `tet2` -/
theorem KT_vol_tet2_linear (x0 y0 z0 x1 y1 z1 x2 y2 z2 x3 y3 z3 x4 y4 z4 x5 y5 z5 x6 y6 z6 x7 y7 z7 x8 y8 z8 x9 y9 z9 : R) :
    kVolTet2Linear x0 y0 z0 x1 y1 z1 x2 y2 z2 x3 y3 z3 x4 y4 z4 x5 y5 z5 x6 y6 z6 x7 y7 z7 x8 y8 z8 x9 y9 z9
      = tet6 ⟨x0, y0, z0⟩ ⟨x1, y1, z1⟩ ⟨x2, y2, z2⟩ ⟨x3, y3, z3⟩ := by
  simp only [kVolTet2Linear]; kt_model; ring
example : kVolTet2Linear (R := Int) 1 0 (-2) 0 (-1) 4 (-1) (-2) 4 1 (-1) (-2) (-3) 3 4 (-1) (-3) (-2) (-3) (-3) 0 0 (-3) 4 2 4 0 0 1 4 = 6 ∧
    tet6 (R := Int) ⟨1, 0, -2⟩ ⟨0, -1, 4⟩ ⟨-1, -2, 4⟩ ⟨1, -1, -2⟩ = 6 := by decide

/-- `6 · calculate_element_volumes(mode="gaussian")` of one `tet2` -/
theorem KT_vol_tet2_gaussian (x0 y0 z0 x1 y1 z1 x2 y2 z2 x3 y3 z3 x4 y4 z4 x5 y5 z5 x6 y6 z6 x7 y7 z7 x8 y8 z8 x9 y9 z9 : R) :
    kVolTet2Gaussian x0 y0 z0 x1 y1 z1 x2 y2 z2 x3 y3 z3 x4 y4 z4 x5 y5 z5 x6 y6 z6 x7 y7 z7 x8 y8 z8 x9 y9 z9
      = tet6 ⟨x0, y0, z0⟩ ⟨x1, y1, z1⟩ ⟨x2, y2, z2⟩ ⟨x3, y3, z3⟩ := by
  simp only [kVolTet2Gaussian]; kt_model; ring
example : kVolTet2Gaussian (R := Int) 1 0 (-2) 0 (-1) 4 (-1) (-2) 4 1 (-1) (-2) (-3) 3 4 (-1) (-3) (-2) (-3) (-3) 0 0 (-3) 4 2 4 0 0 1 4 = 6 ∧
    tet6 (R := Int) ⟨1, 0, -2⟩ ⟨0, -1, 4⟩ ⟨-1, -2, 4⟩ ⟨1, -1, -2⟩ = 6 := by decide

/-- `6 · calculate_element_volumes(mode="centroid")` of one `tet2` -/
theorem KT_vol_tet2_centroid (x0 y0 z0 x1 y1 z1 x2 y2 z2 x3 y3 z3 x4 y4 z4 x5 y5 z5 x6 y6 z6 x7 y7 z7 x8 y8 z8 x9 y9 z9 : R) :
    kVolTet2Centroid x0 y0 z0 x1 y1 z1 x2 y2 z2 x3 y3 z3 x4 y4 z4 x5 y5 z5 x6 y6 z6 x7 y7 z7 x8 y8 z8 x9 y9 z9
      = tet6 ⟨x0, y0, z0⟩ ⟨x1, y1, z1⟩ ⟨x2, y2, z2⟩ ⟨x3, y3, z3⟩ := by
  simp only [kVolTet2Centroid]; kt_model; ring
example : kVolTet2Centroid (R := Int) 1 0 (-2) 0 (-1) 4 (-1) (-2) 4 1 (-1) (-2) (-3) 3 4 (-1) (-3) (-2) (-3) (-3) 0 0 (-3) 4 2 4 0 0 1 4 = 6 ∧
    tet6 (R := Int) ⟨1, 0, -2⟩ ⟨0, -1, 4⟩ ⟨-1, -2, 4⟩ ⟨1, -1, -2⟩ = 6 := by decide

/-- `6 · calculate_element_volumes(mode="linear")` of one `pyr` -/
theorem KT_vol_pyr_linear (x0 y0 z0 x1 y1 z1 x2 y2 z2 x3 y3 z3 x4 y4 z4 : R) :
    kVolPyrLinear x0 y0 z0 x1 y1 z1 x2 y2 z2 x3 y3 z3 x4 y4 z4
      = pyrLin6 ⟨x0, y0, z0⟩ ⟨x1, y1, z1⟩ ⟨x2, y2, z2⟩ ⟨x3, y3, z3⟩ ⟨x4, y4, z4⟩ := by
  simp only [kVolPyrLinear]; kt_model; ring
example : kVolPyrLinear (R := Int) 1 0 (-2) 0 (-1) 4 (-1) (-2) 4 1 (-1) (-2) (-3) 3 4 = -54 ∧
    pyrLin6 (R := Int) ⟨1, 0, -2⟩ ⟨0, -1, 4⟩ ⟨-1, -2, 4⟩ ⟨1, -1, -2⟩ ⟨-3, 3, 4⟩ = -54 := by decide

/-- `6 · calculate_element_volumes(mode="gaussian")` of one `pyr` -/
theorem KT_vol_pyr_gaussian (x0 y0 z0 x1 y1 z1 x2 y2 z2 x3 y3 z3 x4 y4 z4 : R) :
    kVolPyrGaussian x0 y0 z0 x1 y1 z1 x2 y2 z2 x3 y3 z3 x4 y4 z4
      = pyrLin6 ⟨x0, y0, z0⟩ ⟨x1, y1, z1⟩ ⟨x2, y2, z2⟩ ⟨x3, y3, z3⟩ ⟨x4, y4, z4⟩ := by
  simp only [kVolPyrGaussian]; kt_model; ring
example : kVolPyrGaussian (R := Int) 1 0 (-2) 0 (-1) 4 (-1) (-2) 4 1 (-1) (-2) (-3) 3 4 = -54 ∧
    pyrLin6 (R := Int) ⟨1, 0, -2⟩ ⟨0, -1, 4⟩ ⟨-1, -2, 4⟩ ⟨1, -1, -2⟩ ⟨-3, 3, 4⟩ = -54 := by decide

/-- `24 · calculate_element_volumes(mode="centroid")` of one `pyr` -/
theorem KT_vol_pyr_centroid (x0 y0 z0 x1 y1 z1 x2 y2 z2 x3 y3 z3 x4 y4 z4 : R) :
    kVolPyrCentroid x0 y0 z0 x1 y1 z1 x2 y2 z2 x3 y3 z3 x4 y4 z4
      = pyrC24 4 ⟨x0, y0, z0⟩ ⟨x1, y1, z1⟩ ⟨x2, y2, z2⟩ ⟨x3, y3, z3⟩ ⟨x4, y4, z4⟩ := by
  simp only [kVolPyrCentroid]; kt_model; ring
example : kVolPyrCentroid (R := Int) 1 0 (-2) 0 (-1) 4 (-1) (-2) 4 1 (-1) (-2) (-3) 3 4 = -228 ∧
    pyrC24 (R := Int) 4 ⟨1, 0, -2⟩ ⟨0, -1, 4⟩ ⟨-1, -2, 4⟩ ⟨1, -1, -2⟩ ⟨-3, 3, 4⟩ = -228 := by decide

/-- `6 · calculate_element_volumes(mode="linear")` of one `prism` -/
theorem KT_vol_prism_linear (x0 y0 z0 x1 y1 z1 x2 y2 z2 x3 y3 z3 x4 y4 z4 x5 y5 z5 : R) :
    kVolPrismLinear x0 y0 z0 x1 y1 z1 x2 y2 z2 x3 y3 z3 x4 y4 z4 x5 y5 z5
      = prismLin6 ⟨x0, y0, z0⟩ ⟨x1, y1, z1⟩ ⟨x2, y2, z2⟩ ⟨x3, y3, z3⟩ ⟨x4, y4, z4⟩ ⟨x5, y5, z5⟩ := by
  simp only [kVolPrismLinear]; kt_model; ring
example : kVolPrismLinear (R := Int) 1 0 (-2) 0 (-1) 4 (-1) (-2) 4 1 (-1) (-2) (-3) 3 4 (-1) (-3) (-2) = 120 ∧
    prismLin6 (R := Int) ⟨1, 0, -2⟩ ⟨0, -1, 4⟩ ⟨-1, -2, 4⟩ ⟨1, -1, -2⟩ ⟨-3, 3, 4⟩ ⟨-1, -3, -2⟩ = 120 := by decide

/-- `6 · calculate_element_volumes(mode="gaussian")` of one `prism` -/
theorem KT_vol_prism_gaussian (x0 y0 z0 x1 y1 z1 x2 y2 z2 x3 y3 z3 x4 y4 z4 x5 y5 z5 : R) :
    kVolPrismGaussian x0 y0 z0 x1 y1 z1 x2 y2 z2 x3 y3 z3 x4 y4 z4 x5 y5 z5
      = prismLin6 ⟨x0, y0, z0⟩ ⟨x1, y1, z1⟩ ⟨x2, y2, z2⟩ ⟨x3, y3, z3⟩ ⟨x4, y4, z4⟩ ⟨x5, y5, z5⟩ := by
  simp only [kVolPrismGaussian]; kt_model; ring
example : kVolPrismGaussian (R := Int) 1 0 (-2) 0 (-1) 4 (-1) (-2) 4 1 (-1) (-2) (-3) 3 4 (-1) (-3) (-2) = 120 ∧
    prismLin6 (R := Int) ⟨1, 0, -2⟩ ⟨0, -1, 4⟩ ⟨-1, -2, 4⟩ ⟨1, -1, -2⟩ ⟨-3, 3, 4⟩ ⟨-1, -3, -2⟩ = 120 := by decide

/-- `24 · calculate_element_volumes(mode="centroid")` of one `prism` -/
theorem KT_vol_prism_centroid (x0 y0 z0 x1 y1 z1 x2 y2 z2 x3 y3 z3 x4 y4 z4 x5 y5 z5 : R) :
    kVolPrismCentroid x0 y0 z0 x1 y1 z1 x2 y2 z2 x3 y3 z3 x4 y4 z4 x5 y5 z5
      = prismC24 4 ⟨x0, y0, z0⟩ ⟨x1, y1, z1⟩ ⟨x2, y2, z2⟩ ⟨x3, y3, z3⟩ ⟨x4, y4, z4⟩ ⟨x5, y5, z5⟩ := by
  simp only [kVolPrismCentroid]; kt_model; ring
example : kVolPrismCentroid (R := Int) 1 0 (-2) 0 (-1) 4 (-1) (-2) 4 1 (-1) (-2) (-3) 3 4 (-1) (-3) (-2) = 408 ∧
    prismC24 (R := Int) 4 ⟨1, 0, -2⟩ ⟨0, -1, 4⟩ ⟨-1, -2, 4⟩ ⟨1, -1, -2⟩ ⟨-3, 3, 4⟩ ⟨-1, -3, -2⟩ = 408 := by decide

/-- `6 · calculate_element_volumes(mode="linear")` of one `hexprism` -/
theorem KT_vol_hexprism_linear (x0 y0 z0 x1 y1 z1 x2 y2 z2 x3 y3 z3 x4 y4 z4 x5 y5 z5 x6 y6 z6 x7 y7 z7 x8 y8 z8 x9 y9 z9 x10 y10 z10 x11 y11 z11 :
    R) :
    kVolHexprismLinear x0 y0 z0 x1 y1 z1 x2 y2 z2 x3 y3 z3 x4 y4 z4 x5 y5 z5 x6 y6 z6 x7 y7 z7 x8 y8 z8 x9 y9 z9 x10 y10 z10 x11 y11 z11
      = hexLin6 ⟨x0, y0, z0⟩ ⟨x1, y1, z1⟩ ⟨x2, y2, z2⟩ ⟨x3, y3, z3⟩ ⟨x6, y6, z6⟩ ⟨x7, y7, z7⟩ ⟨x8, y8, z8⟩ ⟨x9, y9, z9⟩ + hexLin6 ⟨x0, y0, z0⟩ ⟨x3,
          y3, z3⟩ ⟨x4, y4, z4⟩ ⟨x5, y5, z5⟩ ⟨x6, y6, z6⟩ ⟨x9, y9, z9⟩ ⟨x10, y10, z10⟩ ⟨x11, y11, z11⟩ := by
  simp only [kVolHexprismLinear]; kt_model; ring
example : kVolHexprismLinear (R := Int) 1 0 (-2) 0 (-1) 4 (-1) (-2) 4 1 (-1) (-2) (-3) 3 4 (-1) (-3) (-2) (-3) (-3) 0 0 (-3) 4 2 4 0 0 1 4 (-3) (-2)
    4 1 3 (-2) = 6 ∧
    hexLin6 (R := Int) ⟨1, 0, -2⟩ ⟨0, -1, 4⟩ ⟨-1, -2, 4⟩ ⟨1, -1, -2⟩ ⟨-3, -3, 0⟩ ⟨0, -3, 4⟩ ⟨2, 4, 0⟩ ⟨0, 1, 4⟩ + hexLin6 ⟨1, 0, -2⟩ ⟨1, -1, -2⟩ ⟨-3,
        3, 4⟩ ⟨-1, -3, -2⟩ ⟨-3, -3, 0⟩ ⟨0, 1, 4⟩ ⟨-3, -2, 4⟩ ⟨1, 3, -2⟩ = 6 := by decide

/-- `6 · calculate_element_volumes(mode="gaussian")` of one `hexprism` -/
theorem KT_vol_hexprism_gaussian (x0 y0 z0 x1 y1 z1 x2 y2 z2 x3 y3 z3 x4 y4 z4 x5 y5 z5 x6 y6 z6 x7 y7 z7 x8 y8 z8 x9 y9 z9 x10 y10 z10 x11 y11 z11 :
    R) :
    kVolHexprismGaussian x0 y0 z0 x1 y1 z1 x2 y2 z2 x3 y3 z3 x4 y4 z4 x5 y5 z5 x6 y6 z6 x7 y7 z7 x8 y8 z8 x9 y9 z9 x10 y10 z10 x11 y11 z11
      = hexLin6 ⟨x0, y0, z0⟩ ⟨x1, y1, z1⟩ ⟨x2, y2, z2⟩ ⟨x3, y3, z3⟩ ⟨x6, y6, z6⟩ ⟨x7, y7, z7⟩ ⟨x8, y8, z8⟩ ⟨x9, y9, z9⟩ + hexLin6 ⟨x0, y0, z0⟩ ⟨x3,
          y3, z3⟩ ⟨x4, y4, z4⟩ ⟨x5, y5, z5⟩ ⟨x6, y6, z6⟩ ⟨x9, y9, z9⟩ ⟨x10, y10, z10⟩ ⟨x11, y11, z11⟩ := by
  simp only [kVolHexprismGaussian]; kt_model; ring
example : kVolHexprismGaussian (R := Int) 1 0 (-2) 0 (-1) 4 (-1) (-2) 4 1 (-1) (-2) (-3) 3 4 (-1) (-3) (-2) (-3) (-3) 0 0 (-3) 4 2 4 0 0 1 4 (-3)
    (-2) 4 1 3 (-2) = 6 ∧
    hexLin6 (R := Int) ⟨1, 0, -2⟩ ⟨0, -1, 4⟩ ⟨-1, -2, 4⟩ ⟨1, -1, -2⟩ ⟨-3, -3, 0⟩ ⟨0, -3, 4⟩ ⟨2, 4, 0⟩ ⟨0, 1, 4⟩ + hexLin6 ⟨1, 0, -2⟩ ⟨1, -1, -2⟩ ⟨-3,
        3, 4⟩ ⟨-1, -3, -2⟩ ⟨-3, -3, 0⟩ ⟨0, 1, 4⟩ ⟨-3, -2, 4⟩ ⟨1, 3, -2⟩ = 6 := by decide

/-- `6 · calculate_element_volumes(mode="centroid")` of one `hexprism` -/
theorem KT_vol_hexprism_centroid (x0 y0 z0 x1 y1 z1 x2 y2 z2 x3 y3 z3 x4 y4 z4 x5 y5 z5 x6 y6 z6 x7 y7 z7 x8 y8 z8 x9 y9 z9 x10 y10 z10 x11 y11 z11 :
    R) :
    kVolHexprismCentroid x0 y0 z0 x1 y1 z1 x2 y2 z2 x3 y3 z3 x4 y4 z4 x5 y5 z5 x6 y6 z6 x7 y7 z7 x8 y8 z8 x9 y9 z9 x10 y10 z10 x11 y11 z11
      = hexLin6 ⟨x0, y0, z0⟩ ⟨x1, y1, z1⟩ ⟨x2, y2, z2⟩ ⟨x3, y3, z3⟩ ⟨x6, y6, z6⟩ ⟨x7, y7, z7⟩ ⟨x8, y8, z8⟩ ⟨x9, y9, z9⟩ + hexLin6 ⟨x0, y0, z0⟩ ⟨x3,
          y3, z3⟩ ⟨x4, y4, z4⟩ ⟨x5, y5, z5⟩ ⟨x6, y6, z6⟩ ⟨x9, y9, z9⟩ ⟨x10, y10, z10⟩ ⟨x11, y11, z11⟩ := by
  simp only [kVolHexprismCentroid]; kt_model; ring
example : kVolHexprismCentroid (R := Int) 1 0 (-2) 0 (-1) 4 (-1) (-2) 4 1 (-1) (-2) (-3) 3 4 (-1) (-3) (-2) (-3) (-3) 0 0 (-3) 4 2 4 0 0 1 4 (-3)
    (-2) 4 1 3 (-2) = 6 ∧
    hexLin6 (R := Int) ⟨1, 0, -2⟩ ⟨0, -1, 4⟩ ⟨-1, -2, 4⟩ ⟨1, -1, -2⟩ ⟨-3, -3, 0⟩ ⟨0, -3, 4⟩ ⟨2, 4, 0⟩ ⟨0, 1, 4⟩ + hexLin6 ⟨1, 0, -2⟩ ⟨1, -1, -2⟩ ⟨-3,
        3, 4⟩ ⟨-1, -3, -2⟩ ⟨-3, -3, 0⟩ ⟨0, 1, 4⟩ ⟨-3, -2, 4⟩ ⟨1, 3, -2⟩ = 6 := by decide

/-- `6 · calculate_element_volumes(mode="linear")` of one `hex` -/
theorem KT_vol_hex_linear (x0 y0 z0 x1 y1 z1 x2 y2 z2 x3 y3 z3 x4 y4 z4 x5 y5 z5 x6 y6 z6 x7 y7 z7 : R) :
    kVolHexLinear x0 y0 z0 x1 y1 z1 x2 y2 z2 x3 y3 z3 x4 y4 z4 x5 y5 z5 x6 y6 z6 x7 y7 z7
      = hexLin6 ⟨x0, y0, z0⟩ ⟨x1, y1, z1⟩ ⟨x2, y2, z2⟩ ⟨x3, y3, z3⟩ ⟨x4, y4, z4⟩ ⟨x5, y5, z5⟩ ⟨x6, y6, z6⟩ ⟨x7, y7, z7⟩ := by
  simp only [kVolHexLinear]; kt_model; ring
example : kVolHexLinear (R := Int) 1 0 (-2) 0 (-1) 4 (-1) (-2) 4 1 (-1) (-2) (-3) 3 4 (-1) (-3) (-2) (-3) (-3) 0 0 (-3) 4 = 72 ∧
    hexLin6 (R := Int) ⟨1, 0, -2⟩ ⟨0, -1, 4⟩ ⟨-1, -2, 4⟩ ⟨1, -1, -2⟩ ⟨-3, 3, 4⟩ ⟨-1, -3, -2⟩ ⟨-3, -3, 0⟩ ⟨0, -3, 4⟩ = 72 := by decide

/-- `24 · calculate_element_volumes(mode="centroid")` of one `hex` -/
theorem KT_vol_hex_centroid (x0 y0 z0 x1 y1 z1 x2 y2 z2 x3 y3 z3 x4 y4 z4 x5 y5 z5 x6 y6 z6 x7 y7 z7 : R) :
    kVolHexCentroid x0 y0 z0 x1 y1 z1 x2 y2 z2 x3 y3 z3 x4 y4 z4 x5 y5 z5 x6 y6 z6 x7 y7 z7
      = hexC24 ⟨x0, y0, z0⟩ ⟨x1, y1, z1⟩ ⟨x2, y2, z2⟩ ⟨x3, y3, z3⟩ ⟨x4, y4, z4⟩ ⟨x5, y5, z5⟩ ⟨x6, y6, z6⟩ ⟨x7, y7, z7⟩ := by
  simp only [kVolHexCentroid]; kt_model; ring
example : kVolHexCentroid (R := Int) 1 0 (-2) 0 (-1) 4 (-1) (-2) 4 1 (-1) (-2) (-3) 3 4 (-1) (-3) (-2) (-3) (-3) 0 0 (-3) 4 = 332 ∧
    hexC24 (R := Int) ⟨1, 0, -2⟩ ⟨0, -1, 4⟩ ⟨-1, -2, 4⟩ ⟨1, -1, -2⟩ ⟨-3, 3, 4⟩ ⟨-1, -3, -2⟩ ⟨-3, -3, 0⟩ ⟨0, -3, 4⟩ = 332 := by decide

/-- `6 · calculate_element_volumes(mode="linear")` of one `polyhedron` with the faces [[0, 2, 1], [0, 1, 3], [1, 2, 3], [2, 0, 3]] -/
theorem KT_vol_polyTet_linear (x0 y0 z0 x1 y1 z1 x2 y2 z2 x3 y3 z3 : R) :
    kVolPolyTetLinear x0 y0 z0 x1 y1 z1 x2 y2 z2 x3 y3 z3
      = polyFan6 [[⟨x0, y0, z0⟩, ⟨x2, y2, z2⟩, ⟨x1, y1, z1⟩], [⟨x0, y0, z0⟩, ⟨x1, y1, z1⟩, ⟨x3, y3, z3⟩], [⟨x1, y1, z1⟩, ⟨x2, y2, z2⟩, ⟨x3, y3, z3⟩],
          [⟨x2, y2, z2⟩, ⟨x0, y0, z0⟩, ⟨x3, y3, z3⟩]] := by
  simp only [kVolPolyTetLinear]; kt_model; ring
example : kVolPolyTetLinear (R := Int) 1 0 (-2) 0 (-1) 4 (-1) (-2) 4 1 (-1) (-2) = 6 ∧
    polyFan6 (R := Int) [[⟨1, 0, -2⟩, ⟨-1, -2, 4⟩, ⟨0, -1, 4⟩], [⟨1, 0, -2⟩, ⟨0, -1, 4⟩, ⟨1, -1, -2⟩], [⟨0, -1, 4⟩, ⟨-1, -2, 4⟩, ⟨1, -1, -2⟩], [⟨-1,
        -2, 4⟩, ⟨1, 0, -2⟩, ⟨1, -1, -2⟩]] = 6 := by decide

/-- `6 · calculate_element_volumes(mode="gaussian")` of one `polyhedron` with the faces [[0, 2, 1], [0, 1, 3], [1, 2, 3], [2, 0, 3]] -/
theorem KT_vol_polyTet_gaussian (x0 y0 z0 x1 y1 z1 x2 y2 z2 x3 y3 z3 : R) :
    kVolPolyTetGaussian x0 y0 z0 x1 y1 z1 x2 y2 z2 x3 y3 z3
      = polyFan6 [[⟨x0, y0, z0⟩, ⟨x2, y2, z2⟩, ⟨x1, y1, z1⟩], [⟨x0, y0, z0⟩, ⟨x1, y1, z1⟩, ⟨x3, y3, z3⟩], [⟨x1, y1, z1⟩, ⟨x2, y2, z2⟩, ⟨x3, y3, z3⟩],
          [⟨x2, y2, z2⟩, ⟨x0, y0, z0⟩, ⟨x3, y3, z3⟩]] := by
  simp only [kVolPolyTetGaussian]; kt_model; ring
example : kVolPolyTetGaussian (R := Int) 1 0 (-2) 0 (-1) 4 (-1) (-2) 4 1 (-1) (-2) = 6 ∧
    polyFan6 (R := Int) [[⟨1, 0, -2⟩, ⟨-1, -2, 4⟩, ⟨0, -1, 4⟩], [⟨1, 0, -2⟩, ⟨0, -1, 4⟩, ⟨1, -1, -2⟩], [⟨0, -1, 4⟩, ⟨-1, -2, 4⟩, ⟨1, -1, -2⟩], [⟨-1,
        -2, 4⟩, ⟨1, 0, -2⟩, ⟨1, -1, -2⟩]] = 6 := by decide

/-- `18 · calculate_element_volumes(mode="centroid")` of one `polyhedron` with the faces [[0, 2, 1], [0, 1, 3], [1, 2, 3], [2, 0, 3]] -/
theorem KT_vol_polyTet_centroid (kinv : Nat → R) (h3 : kinv 3 * 3 = 1) (x0 y0 z0 x1 y1 z1 x2 y2 z2 x3 y3 z3 : R) :
    kVolPolyTetCentroid x0 y0 z0 x1 y1 z1 x2 y2 z2 x3 y3 z3
      = 3 * polyC6 kinv [[⟨x0, y0, z0⟩, ⟨x2, y2, z2⟩, ⟨x1, y1, z1⟩], [⟨x0, y0, z0⟩, ⟨x1, y1, z1⟩, ⟨x3, y3, z3⟩], [⟨x1, y1, z1⟩, ⟨x2, y2, z2⟩, ⟨x3,
          y3, z3⟩], [⟨x2, y2, z2⟩, ⟨x0, y0, z0⟩, ⟨x3, y3, z3⟩]] := by
  have e3 : (3 : R) * kinv 3 = 1 := by linear_combination 1 * h3
  simp only [polyC6, List.map_cons, List.map_nil, List.sum_cons, List.sum_nil, List.length_cons, List.length_nil,
    Nat.reduceAdd, mul_add, mul_zero, add_zero, ← mul_assoc, e3]
  simp only [kVolPolyTetCentroid]; kt_model; ring
example : kVolPolyTetCentroid (R := Int) 1 0 (-2) 0 (-1) 4 (-1) (-2) 4 1 (-1) (-2) = 18 ∧
    ∃ kinv : Nat → ℚ, kinv 3 * 3 = 1 :=
  ⟨by decide, fun k => 1 / k, by norm_num⟩

/-- `6 · calculate_element_volumes(mode="linear")` of one `polyhedron` with the faces [[0, 3, 2, 1], [0, 1, 4], [1, 2, 4], [2, 3, 4], [3, 0, 4]] -/
theorem KT_vol_polyPyr_linear (x0 y0 z0 x1 y1 z1 x2 y2 z2 x3 y3 z3 x4 y4 z4 : R) :
    kVolPolyPyrLinear x0 y0 z0 x1 y1 z1 x2 y2 z2 x3 y3 z3 x4 y4 z4
      = polyFan6 [[⟨x0, y0, z0⟩, ⟨x3, y3, z3⟩, ⟨x2, y2, z2⟩, ⟨x1, y1, z1⟩], [⟨x0, y0, z0⟩, ⟨x1, y1, z1⟩, ⟨x4, y4, z4⟩], [⟨x1, y1, z1⟩, ⟨x2, y2, z2⟩,
          ⟨x4, y4, z4⟩], [⟨x2, y2, z2⟩, ⟨x3, y3, z3⟩, ⟨x4, y4, z4⟩], [⟨x3, y3, z3⟩, ⟨x0, y0, z0⟩, ⟨x4, y4, z4⟩]] := by
  simp only [kVolPolyPyrLinear]; kt_model; ring
example : kVolPolyPyrLinear (R := Int) 1 0 (-2) 0 (-1) 4 (-1) (-2) 4 1 (-1) (-2) (-3) 3 4 = -54 ∧
    polyFan6 (R := Int) [[⟨1, 0, -2⟩, ⟨1, -1, -2⟩, ⟨-1, -2, 4⟩, ⟨0, -1, 4⟩], [⟨1, 0, -2⟩, ⟨0, -1, 4⟩, ⟨-3, 3, 4⟩], [⟨0, -1, 4⟩, ⟨-1, -2, 4⟩, ⟨-3, 3,
        4⟩], [⟨-1, -2, 4⟩, ⟨1, -1, -2⟩, ⟨-3, 3, 4⟩], [⟨1, -1, -2⟩, ⟨1, 0, -2⟩, ⟨-3, 3, 4⟩]] = -54 := by decide

/-- `6 · calculate_element_volumes(mode="gaussian")` of one `polyhedron` with the faces [[0, 3, 2, 1], [0, 1, 4], [1, 2, 4], [2, 3, 4], [3, 0, 4]] -/
theorem KT_vol_polyPyr_gaussian (x0 y0 z0 x1 y1 z1 x2 y2 z2 x3 y3 z3 x4 y4 z4 : R) :
    kVolPolyPyrGaussian x0 y0 z0 x1 y1 z1 x2 y2 z2 x3 y3 z3 x4 y4 z4
      = polyFan6 [[⟨x0, y0, z0⟩, ⟨x3, y3, z3⟩, ⟨x2, y2, z2⟩, ⟨x1, y1, z1⟩], [⟨x0, y0, z0⟩, ⟨x1, y1, z1⟩, ⟨x4, y4, z4⟩], [⟨x1, y1, z1⟩, ⟨x2, y2, z2⟩,
          ⟨x4, y4, z4⟩], [⟨x2, y2, z2⟩, ⟨x3, y3, z3⟩, ⟨x4, y4, z4⟩], [⟨x3, y3, z3⟩, ⟨x0, y0, z0⟩, ⟨x4, y4, z4⟩]] := by
  simp only [kVolPolyPyrGaussian]; kt_model; ring
example : kVolPolyPyrGaussian (R := Int) 1 0 (-2) 0 (-1) 4 (-1) (-2) 4 1 (-1) (-2) (-3) 3 4 = -54 ∧
    polyFan6 (R := Int) [[⟨1, 0, -2⟩, ⟨1, -1, -2⟩, ⟨-1, -2, 4⟩, ⟨0, -1, 4⟩], [⟨1, 0, -2⟩, ⟨0, -1, 4⟩, ⟨-3, 3, 4⟩], [⟨0, -1, 4⟩, ⟨-1, -2, 4⟩, ⟨-3, 3,
        4⟩], [⟨-1, -2, 4⟩, ⟨1, -1, -2⟩, ⟨-3, 3, 4⟩], [⟨1, -1, -2⟩, ⟨1, 0, -2⟩, ⟨-3, 3, 4⟩]] = -54 := by decide

/-- `72 · calculate_element_volumes(mode="centroid")` of one `polyhedron` with the faces [[0, 3, 2, 1], [0, 1, 4], [1, 2, 4], [2, 3, 4], [3, 0, 4]] -/
theorem KT_vol_polyPyr_centroid (kinv : Nat → R) (h3 : kinv 3 * 3 = 1) (h4 : kinv 4 * 4 = 1) (x0 y0 z0 x1 y1 z1 x2 y2 z2 x3 y3 z3 x4 y4 z4 : R) :
    kVolPolyPyrCentroid x0 y0 z0 x1 y1 z1 x2 y2 z2 x3 y3 z3 x4 y4 z4
      = 12 * polyC6 kinv [[⟨x0, y0, z0⟩, ⟨x3, y3, z3⟩, ⟨x2, y2, z2⟩, ⟨x1, y1, z1⟩], [⟨x0, y0, z0⟩, ⟨x1, y1, z1⟩, ⟨x4, y4, z4⟩], [⟨x1, y1, z1⟩, ⟨x2,
          y2, z2⟩, ⟨x4, y4, z4⟩], [⟨x2, y2, z2⟩, ⟨x3, y3, z3⟩, ⟨x4, y4, z4⟩], [⟨x3, y3, z3⟩, ⟨x0, y0, z0⟩, ⟨x4, y4, z4⟩]] := by
  have e3 : (12 : R) * kinv 3 = 4 := by linear_combination 4 * h3
  have e4 : (12 : R) * kinv 4 = 3 := by linear_combination 3 * h4
  simp only [polyC6, List.map_cons, List.map_nil, List.sum_cons, List.sum_nil, List.length_cons, List.length_nil,
    Nat.reduceAdd, mul_add, mul_zero, add_zero, ← mul_assoc, e3, e4]
  simp only [kVolPolyPyrCentroid]; kt_model; ring
example : kVolPolyPyrCentroid (R := Int) 1 0 (-2) 0 (-1) 4 (-1) (-2) 4 1 (-1) (-2) (-3) 3 4 = -684 ∧
    ∃ kinv : Nat → ℚ, kinv 3 * 3 = 1 ∧ kinv 4 * 4 = 1 :=
  ⟨by decide, fun k => 1 / k, by norm_num, by norm_num⟩

/-- `calculate_element_areas(mode="linear")` of one `tri` is `(Σ_k ‖v_k‖) / 2` with the vector(s) `v_k` = -/
theorem KT_area_tri_linear (x0 y0 z0 x1 y1 z1 x2 y2 z2 : R) :
    (⟨kAreaTriLinearX x0 y0 z0 x1 y1 z1 x2 y2 z2,
      kAreaTriLinearY x0 y0 z0 x1 y1 z1 x2 y2 z2,
      kAreaTriLinearZ x0 y0 z0 x1 y1 z1 x2 y2 z2⟩ : V3 R)
      = triCross ⟨x0, y0, z0⟩ ⟨x1, y1, z1⟩ ⟨x2, y2, z2⟩ := by
  simp only [kAreaTriLinearX, kAreaTriLinearY, kAreaTriLinearZ]; kt_model; congr 1 <;> ring
example : (⟨kAreaTriLinearX (R := Int) 1 0 (-2) 0 (-1) 4 (-1) (-2) 4, kAreaTriLinearY (R := Int) 1 0 (-2) 0 (-1) 4 (-1) (-2) 4, kAreaTriLinearZ (R :=
    Int) 1 0 (-2) 0 (-1) 4 (-1) (-2) 4⟩ : V3 Int) = ⟨6, -6, 0⟩ ∧
    triCross (R := Int) ⟨1, 0, -2⟩ ⟨0, -1, 4⟩ ⟨-1, -2, 4⟩ = ⟨6, -6, 0⟩ := by decide

/-- `calculate_element_areas(mode="gaussian")` of one `tri` is `(Σ_k ‖v_k‖) / 2` with the vector(s) `v_k` = -/
theorem KT_area_tri_gaussian (x0 y0 z0 x1 y1 z1 x2 y2 z2 : R) :
    (⟨kAreaTriGaussianX x0 y0 z0 x1 y1 z1 x2 y2 z2,
      kAreaTriGaussianY x0 y0 z0 x1 y1 z1 x2 y2 z2,
      kAreaTriGaussianZ x0 y0 z0 x1 y1 z1 x2 y2 z2⟩ : V3 R)
      = triCross ⟨x0, y0, z0⟩ ⟨x1, y1, z1⟩ ⟨x2, y2, z2⟩ := by
  simp only [kAreaTriGaussianX, kAreaTriGaussianY, kAreaTriGaussianZ]; kt_model; congr 1 <;> ring
example : (⟨kAreaTriGaussianX (R := Int) 1 0 (-2) 0 (-1) 4 (-1) (-2) 4, kAreaTriGaussianY (R := Int) 1 0 (-2) 0 (-1) 4 (-1) (-2) 4, kAreaTriGaussianZ
    (R := Int) 1 0 (-2) 0 (-1) 4 (-1) (-2) 4⟩ : V3 Int) = ⟨6, -6, 0⟩ ∧
    triCross (R := Int) ⟨1, 0, -2⟩ ⟨0, -1, 4⟩ ⟨-1, -2, 4⟩ = ⟨6, -6, 0⟩ := by decide

/-- `calculate_element_areas(mode="centroid")` of one `tri` is `(Σ_k ‖v_k‖) / 2` with the vector(s) `v_k` = -/
theorem KT_area_tri_centroid (x0 y0 z0 x1 y1 z1 x2 y2 z2 : R) :
    (⟨kAreaTriCentroidX x0 y0 z0 x1 y1 z1 x2 y2 z2,
      kAreaTriCentroidY x0 y0 z0 x1 y1 z1 x2 y2 z2,
      kAreaTriCentroidZ x0 y0 z0 x1 y1 z1 x2 y2 z2⟩ : V3 R)
      = triCross ⟨x0, y0, z0⟩ ⟨x1, y1, z1⟩ ⟨x2, y2, z2⟩ := by
  simp only [kAreaTriCentroidX, kAreaTriCentroidY, kAreaTriCentroidZ]; kt_model; congr 1 <;> ring
example : (⟨kAreaTriCentroidX (R := Int) 1 0 (-2) 0 (-1) 4 (-1) (-2) 4, kAreaTriCentroidY (R := Int) 1 0 (-2) 0 (-1) 4 (-1) (-2) 4, kAreaTriCentroidZ
    (R := Int) 1 0 (-2) 0 (-1) 4 (-1) (-2) 4⟩ : V3 Int) = ⟨6, -6, 0⟩ ∧
    triCross (R := Int) ⟨1, 0, -2⟩ ⟨0, -1, 4⟩ ⟨-1, -2, 4⟩ = ⟨6, -6, 0⟩ := by decide

/-- `calculate_element_areas(mode="linear")` of one `quad` is `(Σ_k ‖v_k‖) / 2` with the vector(s) `v_k` = -/
theorem KT_area_quad_linear (x0 y0 z0 x1 y1 z1 x2 y2 z2 x3 y3 z3 : R) :
    (⟨kAreaQuadLinearV0X x0 y0 z0 x1 y1 z1 x2 y2 z2 x3 y3 z3,
      kAreaQuadLinearV0Y x0 y0 z0 x1 y1 z1 x2 y2 z2 x3 y3 z3,
      kAreaQuadLinearV0Z x0 y0 z0 x1 y1 z1 x2 y2 z2 x3 y3 z3⟩ : V3 R)
      = quadLinCross1 ⟨x0, y0, z0⟩ ⟨x1, y1, z1⟩ ⟨x2, y2, z2⟩ ⟨x3, y3, z3⟩ ∧
    (⟨kAreaQuadLinearV1X x0 y0 z0 x1 y1 z1 x2 y2 z2 x3 y3 z3,
      kAreaQuadLinearV1Y x0 y0 z0 x1 y1 z1 x2 y2 z2 x3 y3 z3,
      kAreaQuadLinearV1Z x0 y0 z0 x1 y1 z1 x2 y2 z2 x3 y3 z3⟩ : V3 R)
      = quadLinCross2 ⟨x0, y0, z0⟩ ⟨x1, y1, z1⟩ ⟨x2, y2, z2⟩ ⟨x3, y3, z3⟩ := by
  simp only [kAreaQuadLinearV0X, kAreaQuadLinearV0Y, kAreaQuadLinearV0Z, kAreaQuadLinearV1X, kAreaQuadLinearV1Y, kAreaQuadLinearV1Z]; kt_model;
      constructor <;> congr 1 <;> ring
example : (⟨kAreaQuadLinearV0X (R := Int) 1 0 (-2) 0 (-1) 4 (-1) (-2) 4 1 (-1) (-2), kAreaQuadLinearV0Y (R := Int) 1 0 (-2) 0 (-1) 4 (-1) (-2) 4 1
    (-1) (-2), kAreaQuadLinearV0Z (R := Int) 1 0 (-2) 0 (-1) 4 (-1) (-2) 4 1 (-1) (-2)⟩ : V3 Int) = ⟨6, -6, 0⟩ ∧
    quadLinCross1 (R := Int) ⟨1, 0, -2⟩ ⟨0, -1, 4⟩ ⟨-1, -2, 4⟩ ⟨1, -1, -2⟩ = ⟨6, -6, 0⟩ ∧
    (⟨kAreaQuadLinearV1X (R := Int) 1 0 (-2) 0 (-1) 4 (-1) (-2) 4 1 (-1) (-2), kAreaQuadLinearV1Y (R := Int) 1 0 (-2) 0 (-1) 4 (-1) (-2) 4 1 (-1)
        (-2), kAreaQuadLinearV1Z (R := Int) 1 0 (-2) 0 (-1) 4 (-1) (-2) 4 1 (-1) (-2)⟩ : V3 Int) = ⟨6, 0, 2⟩ ∧
    quadLinCross2 (R := Int) ⟨1, 0, -2⟩ ⟨0, -1, 4⟩ ⟨-1, -2, 4⟩ ⟨1, -1, -2⟩ = ⟨6, 0, 2⟩ := by decide

/-- `calculate_element_areas(mode="centroid")` of one `quad` is `(Σ_k ‖v_k‖) / 32` with the vector(s) `v_k` = -/
theorem KT_area_quad_centroid (x0 y0 z0 x1 y1 z1 x2 y2 z2 x3 y3 z3 : R) :
    (⟨kAreaQuadCentroidX x0 y0 z0 x1 y1 z1 x2 y2 z2 x3 y3 z3,
      kAreaQuadCentroidY x0 y0 z0 x1 y1 z1 x2 y2 z2 x3 y3 z3,
      kAreaQuadCentroidZ x0 y0 z0 x1 y1 z1 x2 y2 z2 x3 y3 z3⟩ : V3 R)
      = quadCrossC ⟨x0, y0, z0⟩ ⟨x1, y1, z1⟩ ⟨x2, y2, z2⟩ ⟨x3, y3, z3⟩ 4 := by
  simp only [kAreaQuadCentroidX, kAreaQuadCentroidY, kAreaQuadCentroidZ]; kt_model; congr 1 <;> ring
example : (⟨kAreaQuadCentroidX (R := Int) 1 0 (-2) 0 (-1) 4 (-1) (-2) 4 1 (-1) (-2), kAreaQuadCentroidY (R := Int) 1 0 (-2) 0 (-1) 4 (-1) (-2) 4 1
    (-1) (-2), kAreaQuadCentroidZ (R := Int) 1 0 (-2) 0 (-1) 4 (-1) (-2) 4 1 (-1) (-2)⟩ : V3 Int) = ⟨192, -96, 32⟩ ∧
    quadCrossC (R := Int) ⟨1, 0, -2⟩ ⟨0, -1, 4⟩ ⟨-1, -2, 4⟩ ⟨1, -1, -2⟩ 4 = ⟨192, -96, 32⟩ := by decide

/-- `calculate_element_areas(mode="linear")` of one `polygon` with 3 nodes is `(Σ_k ‖v_k‖) / 18` with the vector(s) `v_k` = -/
theorem KT_area_polygon3_linear (x0 y0 z0 x1 y1 z1 x2 y2 z2 : R) :
    (⟨kAreaPolygon3LinearX x0 y0 z0 x1 y1 z1 x2 y2 z2,
      kAreaPolygon3LinearY x0 y0 z0 x1 y1 z1 x2 y2 z2,
      kAreaPolygon3LinearZ x0 y0 z0 x1 y1 z1 x2 y2 z2⟩ : V3 R)
      = polyCentroidCross 3 [⟨x0, y0, z0⟩, ⟨x1, y1, z1⟩, ⟨x2, y2, z2⟩] := by
  simp only [kAreaPolygon3LinearX, kAreaPolygon3LinearY, kAreaPolygon3LinearZ]; kt_model; congr 1 <;> ring
example : (⟨kAreaPolygon3LinearX (R := Int) 1 0 (-2) 0 (-1) 4 (-1) (-2) 4, kAreaPolygon3LinearY (R := Int) 1 0 (-2) 0 (-1) 4 (-1) (-2) 4,
    kAreaPolygon3LinearZ (R := Int) 1 0 (-2) 0 (-1) 4 (-1) (-2) 4⟩ : V3 Int) = ⟨54, -54, 0⟩ ∧
    polyCentroidCross (R := Int) 3 [⟨1, 0, -2⟩, ⟨0, -1, 4⟩, ⟨-1, -2, 4⟩] = ⟨54, -54, 0⟩ := by decide

/-- `calculate_element_areas(mode="gaussian")` of one `polygon` with 3 nodes is `(Σ_k ‖v_k‖) / 18` with the vector(s) `v_k` = -/
theorem KT_area_polygon3_gaussian (x0 y0 z0 x1 y1 z1 x2 y2 z2 : R) :
    (⟨kAreaPolygon3GaussianX x0 y0 z0 x1 y1 z1 x2 y2 z2,
      kAreaPolygon3GaussianY x0 y0 z0 x1 y1 z1 x2 y2 z2,
      kAreaPolygon3GaussianZ x0 y0 z0 x1 y1 z1 x2 y2 z2⟩ : V3 R)
      = polyCentroidCross 3 [⟨x0, y0, z0⟩, ⟨x1, y1, z1⟩, ⟨x2, y2, z2⟩] := by
  simp only [kAreaPolygon3GaussianX, kAreaPolygon3GaussianY, kAreaPolygon3GaussianZ]; kt_model; congr 1 <;> ring
example : (⟨kAreaPolygon3GaussianX (R := Int) 1 0 (-2) 0 (-1) 4 (-1) (-2) 4, kAreaPolygon3GaussianY (R := Int) 1 0 (-2) 0 (-1) 4 (-1) (-2) 4,
    kAreaPolygon3GaussianZ (R := Int) 1 0 (-2) 0 (-1) 4 (-1) (-2) 4⟩ : V3 Int) = ⟨54, -54, 0⟩ ∧
    polyCentroidCross (R := Int) 3 [⟨1, 0, -2⟩, ⟨0, -1, 4⟩, ⟨-1, -2, 4⟩] = ⟨54, -54, 0⟩ := by decide

/-- `calculate_element_areas(mode="centroid")` of one `polygon` with 3 nodes is `(Σ_k ‖v_k‖) / 2` with the vector(s) `v_k` = -/
theorem KT_area_polygon3_centroid (x0 y0 z0 x1 y1 z1 x2 y2 z2 : R) :
    (⟨kAreaPolygon3CentroidX x0 y0 z0 x1 y1 z1 x2 y2 z2,
      kAreaPolygon3CentroidY x0 y0 z0 x1 y1 z1 x2 y2 z2,
      kAreaPolygon3CentroidZ x0 y0 z0 x1 y1 z1 x2 y2 z2⟩ : V3 R)
      = polyFanCross [⟨x0, y0, z0⟩, ⟨x1, y1, z1⟩, ⟨x2, y2, z2⟩] := by
  simp only [kAreaPolygon3CentroidX, kAreaPolygon3CentroidY, kAreaPolygon3CentroidZ]; kt_model; congr 1 <;> ring
example : (⟨kAreaPolygon3CentroidX (R := Int) 1 0 (-2) 0 (-1) 4 (-1) (-2) 4, kAreaPolygon3CentroidY (R := Int) 1 0 (-2) 0 (-1) 4 (-1) (-2) 4,
    kAreaPolygon3CentroidZ (R := Int) 1 0 (-2) 0 (-1) 4 (-1) (-2) 4⟩ : V3 Int) = ⟨6, -6, 0⟩ ∧
    polyFanCross (R := Int) [⟨1, 0, -2⟩, ⟨0, -1, 4⟩, ⟨-1, -2, 4⟩] = ⟨6, -6, 0⟩ := by decide

/-- `calculate_element_areas(mode="linear")` of one `polygon` with 5 nodes is `(Σ_k ‖v_k‖) / 50` with the vector(s) `v_k` = -/
theorem KT_area_polygon5_linear (x0 y0 z0 x1 y1 z1 x2 y2 z2 x3 y3 z3 x4 y4 z4 : R) :
    (⟨kAreaPolygon5LinearX x0 y0 z0 x1 y1 z1 x2 y2 z2 x3 y3 z3 x4 y4 z4,
      kAreaPolygon5LinearY x0 y0 z0 x1 y1 z1 x2 y2 z2 x3 y3 z3 x4 y4 z4,
      kAreaPolygon5LinearZ x0 y0 z0 x1 y1 z1 x2 y2 z2 x3 y3 z3 x4 y4 z4⟩ : V3 R)
      = polyCentroidCross 5 [⟨x0, y0, z0⟩, ⟨x1, y1, z1⟩, ⟨x2, y2, z2⟩, ⟨x3, y3, z3⟩, ⟨x4, y4, z4⟩] := by
  simp only [kAreaPolygon5LinearX, kAreaPolygon5LinearY, kAreaPolygon5LinearZ]; kt_model; congr 1 <;> ring
example : (⟨kAreaPolygon5LinearX (R := Int) 1 0 (-2) 0 (-1) 4 (-1) (-2) 4 1 (-1) (-2) (-3) 3 4, kAreaPolygon5LinearY (R := Int) 1 0 (-2) 0 (-1) 4
    (-1) (-2) 4 1 (-1) (-2) (-3) 3 4, kAreaPolygon5LinearZ (R := Int) 1 0 (-2) 0 (-1) 4 (-1) (-2) 4 1 (-1) (-2) (-3) 3 4⟩ : V3 Int) = ⟨150, -150,
    -50⟩ ∧
    polyCentroidCross (R := Int) 5 [⟨1, 0, -2⟩, ⟨0, -1, 4⟩, ⟨-1, -2, 4⟩, ⟨1, -1, -2⟩, ⟨-3, 3, 4⟩] = ⟨150, -150, -50⟩ := by decide

/-- `calculate_element_areas(mode="gaussian")` of one `polygon` with 5 nodes is `(Σ_k ‖v_k‖) / 50` with the vector(s) `v_k` = -/
theorem KT_area_polygon5_gaussian (x0 y0 z0 x1 y1 z1 x2 y2 z2 x3 y3 z3 x4 y4 z4 : R) :
    (⟨kAreaPolygon5GaussianX x0 y0 z0 x1 y1 z1 x2 y2 z2 x3 y3 z3 x4 y4 z4,
      kAreaPolygon5GaussianY x0 y0 z0 x1 y1 z1 x2 y2 z2 x3 y3 z3 x4 y4 z4,
      kAreaPolygon5GaussianZ x0 y0 z0 x1 y1 z1 x2 y2 z2 x3 y3 z3 x4 y4 z4⟩ : V3 R)
      = polyCentroidCross 5 [⟨x0, y0, z0⟩, ⟨x1, y1, z1⟩, ⟨x2, y2, z2⟩, ⟨x3, y3, z3⟩, ⟨x4, y4, z4⟩] := by
  simp only [kAreaPolygon5GaussianX, kAreaPolygon5GaussianY, kAreaPolygon5GaussianZ]; kt_model; congr 1 <;> ring
example : (⟨kAreaPolygon5GaussianX (R := Int) 1 0 (-2) 0 (-1) 4 (-1) (-2) 4 1 (-1) (-2) (-3) 3 4, kAreaPolygon5GaussianY (R := Int) 1 0 (-2) 0 (-1) 4
    (-1) (-2) 4 1 (-1) (-2) (-3) 3 4, kAreaPolygon5GaussianZ (R := Int) 1 0 (-2) 0 (-1) 4 (-1) (-2) 4 1 (-1) (-2) (-3) 3 4⟩ : V3 Int) = ⟨150, -150,
    -50⟩ ∧
    polyCentroidCross (R := Int) 5 [⟨1, 0, -2⟩, ⟨0, -1, 4⟩, ⟨-1, -2, 4⟩, ⟨1, -1, -2⟩, ⟨-3, 3, 4⟩] = ⟨150, -150, -50⟩ := by decide

/-- `calculate_element_areas(mode="centroid")` of one `polygon` with 5 nodes is `(Σ_k ‖v_k‖) / 2` with the vector(s) `v_k` = -/
theorem KT_area_polygon5_centroid (x0 y0 z0 x1 y1 z1 x2 y2 z2 x3 y3 z3 x4 y4 z4 : R) :
    (⟨kAreaPolygon5CentroidX x0 y0 z0 x1 y1 z1 x2 y2 z2 x3 y3 z3 x4 y4 z4,
      kAreaPolygon5CentroidY x0 y0 z0 x1 y1 z1 x2 y2 z2 x3 y3 z3 x4 y4 z4,
      kAreaPolygon5CentroidZ x0 y0 z0 x1 y1 z1 x2 y2 z2 x3 y3 z3 x4 y4 z4⟩ : V3 R)
      = polyFanCross [⟨x0, y0, z0⟩, ⟨x1, y1, z1⟩, ⟨x2, y2, z2⟩, ⟨x3, y3, z3⟩, ⟨x4, y4, z4⟩] := by
  simp only [kAreaPolygon5CentroidX, kAreaPolygon5CentroidY, kAreaPolygon5CentroidZ]; kt_model; congr 1 <;> ring
example : (⟨kAreaPolygon5CentroidX (R := Int) 1 0 (-2) 0 (-1) 4 (-1) (-2) 4 1 (-1) (-2) (-3) 3 4, kAreaPolygon5CentroidY (R := Int) 1 0 (-2) 0 (-1) 4
    (-1) (-2) 4 1 (-1) (-2) (-3) 3 4, kAreaPolygon5CentroidZ (R := Int) 1 0 (-2) 0 (-1) 4 (-1) (-2) 4 1 (-1) (-2) (-3) 3 4⟩ : V3 Int) = ⟨6, -6, -2⟩ ∧
    polyFanCross (R := Int) [⟨1, 0, -2⟩, ⟨0, -1, 4⟩, ⟨-1, -2, 4⟩, ⟨1, -1, -2⟩, ⟨-3, 3, 4⟩] = ⟨6, -6, -2⟩ := by decide

/-- `calculate_element_normals(mode="linear")` of one `tri` is the normalised vector `c` = -/
theorem KT_normal_tri_linear (x0 y0 z0 x1 y1 z1 x2 y2 z2 : R) :
    (⟨kNormalTriLinearX x0 y0 z0 x1 y1 z1 x2 y2 z2,
      kNormalTriLinearY x0 y0 z0 x1 y1 z1 x2 y2 z2,
      kNormalTriLinearZ x0 y0 z0 x1 y1 z1 x2 y2 z2⟩ : V3 R)
      = triCross ⟨x0, y0, z0⟩ ⟨x1, y1, z1⟩ ⟨x2, y2, z2⟩ := by
  simp only [kNormalTriLinearX, kNormalTriLinearY, kNormalTriLinearZ]; kt_model; congr 1 <;> ring
example : (⟨kNormalTriLinearX (R := Int) 1 0 (-2) 0 (-1) 4 (-1) (-2) 4, kNormalTriLinearY (R := Int) 1 0 (-2) 0 (-1) 4 (-1) (-2) 4, kNormalTriLinearZ
    (R := Int) 1 0 (-2) 0 (-1) 4 (-1) (-2) 4⟩ : V3 Int) = ⟨6, -6, 0⟩ ∧
    triCross (R := Int) ⟨1, 0, -2⟩ ⟨0, -1, 4⟩ ⟨-1, -2, 4⟩ = ⟨6, -6, 0⟩ := by decide

/-- `calculate_element_normals(mode="gaussian")` of one `tri` is the normalised vector `c` = -/
theorem KT_normal_tri_gaussian (x0 y0 z0 x1 y1 z1 x2 y2 z2 : R) :
    (⟨kNormalTriGaussianX x0 y0 z0 x1 y1 z1 x2 y2 z2,
      kNormalTriGaussianY x0 y0 z0 x1 y1 z1 x2 y2 z2,
      kNormalTriGaussianZ x0 y0 z0 x1 y1 z1 x2 y2 z2⟩ : V3 R)
      = triCross ⟨x0, y0, z0⟩ ⟨x1, y1, z1⟩ ⟨x2, y2, z2⟩ := by
  simp only [kNormalTriGaussianX, kNormalTriGaussianY, kNormalTriGaussianZ]; kt_model; congr 1 <;> ring
example : (⟨kNormalTriGaussianX (R := Int) 1 0 (-2) 0 (-1) 4 (-1) (-2) 4, kNormalTriGaussianY (R := Int) 1 0 (-2) 0 (-1) 4 (-1) (-2) 4,
    kNormalTriGaussianZ (R := Int) 1 0 (-2) 0 (-1) 4 (-1) (-2) 4⟩ : V3 Int) = ⟨6, -6, 0⟩ ∧
    triCross (R := Int) ⟨1, 0, -2⟩ ⟨0, -1, 4⟩ ⟨-1, -2, 4⟩ = ⟨6, -6, 0⟩ := by decide

/-- `calculate_element_normals(mode="centroid")` of one `tri` is the normalised vector `c` = -/
theorem KT_normal_tri_centroid (x0 y0 z0 x1 y1 z1 x2 y2 z2 : R) :
    (⟨kNormalTriCentroidX x0 y0 z0 x1 y1 z1 x2 y2 z2,
      kNormalTriCentroidY x0 y0 z0 x1 y1 z1 x2 y2 z2,
      kNormalTriCentroidZ x0 y0 z0 x1 y1 z1 x2 y2 z2⟩ : V3 R)
      = triCross ⟨x0, y0, z0⟩ ⟨x1, y1, z1⟩ ⟨x2, y2, z2⟩ := by
  simp only [kNormalTriCentroidX, kNormalTriCentroidY, kNormalTriCentroidZ]; kt_model; congr 1 <;> ring
example : (⟨kNormalTriCentroidX (R := Int) 1 0 (-2) 0 (-1) 4 (-1) (-2) 4, kNormalTriCentroidY (R := Int) 1 0 (-2) 0 (-1) 4 (-1) (-2) 4,
    kNormalTriCentroidZ (R := Int) 1 0 (-2) 0 (-1) 4 (-1) (-2) 4⟩ : V3 Int) = ⟨6, -6, 0⟩ ∧
    triCross (R := Int) ⟨1, 0, -2⟩ ⟨0, -1, 4⟩ ⟨-1, -2, 4⟩ = ⟨6, -6, 0⟩ := by decide

/-- `calculate_element_normals(mode="linear")` of one `quad` is the normalised vector `c` = -/
theorem KT_normal_quad_linear (x0 y0 z0 x1 y1 z1 x2 y2 z2 x3 y3 z3 : R) :
    (⟨kNormalQuadLinearX x0 y0 z0 x1 y1 z1 x2 y2 z2 x3 y3 z3,
      kNormalQuadLinearY x0 y0 z0 x1 y1 z1 x2 y2 z2 x3 y3 z3,
      kNormalQuadLinearZ x0 y0 z0 x1 y1 z1 x2 y2 z2 x3 y3 z3⟩ : V3 R)
      = quadLinNormal ⟨x0, y0, z0⟩ ⟨x1, y1, z1⟩ ⟨x2, y2, z2⟩ ⟨x3, y3, z3⟩ := by
  simp only [kNormalQuadLinearX, kNormalQuadLinearY, kNormalQuadLinearZ]; kt_model; congr 1 <;> ring
example : (⟨kNormalQuadLinearX (R := Int) 1 0 (-2) 0 (-1) 4 (-1) (-2) 4 1 (-1) (-2), kNormalQuadLinearY (R := Int) 1 0 (-2) 0 (-1) 4 (-1) (-2) 4 1
    (-1) (-2), kNormalQuadLinearZ (R := Int) 1 0 (-2) 0 (-1) 4 (-1) (-2) 4 1 (-1) (-2)⟩ : V3 Int) = ⟨12, -6, 2⟩ ∧
    quadLinNormal (R := Int) ⟨1, 0, -2⟩ ⟨0, -1, 4⟩ ⟨-1, -2, 4⟩ ⟨1, -1, -2⟩ = ⟨12, -6, 2⟩ := by decide

/-- `calculate_element_normals(mode="gaussian")` of one `quad` is the normalised vector `c` = -/
theorem KT_normal_quad_gaussian (x0 y0 z0 x1 y1 z1 x2 y2 z2 x3 y3 z3 : R) :
    (⟨kNormalQuadGaussianX x0 y0 z0 x1 y1 z1 x2 y2 z2 x3 y3 z3,
      kNormalQuadGaussianY x0 y0 z0 x1 y1 z1 x2 y2 z2 x3 y3 z3,
      kNormalQuadGaussianZ x0 y0 z0 x1 y1 z1 x2 y2 z2 x3 y3 z3⟩ : V3 R)
      = quadLinNormal ⟨x0, y0, z0⟩ ⟨x1, y1, z1⟩ ⟨x2, y2, z2⟩ ⟨x3, y3, z3⟩ := by
  simp only [kNormalQuadGaussianX, kNormalQuadGaussianY, kNormalQuadGaussianZ]; kt_model; congr 1 <;> ring
example : (⟨kNormalQuadGaussianX (R := Int) 1 0 (-2) 0 (-1) 4 (-1) (-2) 4 1 (-1) (-2), kNormalQuadGaussianY (R := Int) 1 0 (-2) 0 (-1) 4 (-1) (-2) 4
    1 (-1) (-2), kNormalQuadGaussianZ (R := Int) 1 0 (-2) 0 (-1) 4 (-1) (-2) 4 1 (-1) (-2)⟩ : V3 Int) = ⟨12, -6, 2⟩ ∧
    quadLinNormal (R := Int) ⟨1, 0, -2⟩ ⟨0, -1, 4⟩ ⟨-1, -2, 4⟩ ⟨1, -1, -2⟩ = ⟨12, -6, 2⟩ := by decide

/-- `calculate_element_normals(mode="centroid")` of one `quad` is the normalised vector `c` with `16 · c` = -/
theorem KT_normal_quad_centroid (x0 y0 z0 x1 y1 z1 x2 y2 z2 x3 y3 z3 : R) :
    (⟨kNormalQuadCentroidX x0 y0 z0 x1 y1 z1 x2 y2 z2 x3 y3 z3,
      kNormalQuadCentroidY x0 y0 z0 x1 y1 z1 x2 y2 z2 x3 y3 z3,
      kNormalQuadCentroidZ x0 y0 z0 x1 y1 z1 x2 y2 z2 x3 y3 z3⟩ : V3 R)
      = quadCrossC ⟨x0, y0, z0⟩ ⟨x1, y1, z1⟩ ⟨x2, y2, z2⟩ ⟨x3, y3, z3⟩ 4 := by
  simp only [kNormalQuadCentroidX, kNormalQuadCentroidY, kNormalQuadCentroidZ]; kt_model; congr 1 <;> ring
example : (⟨kNormalQuadCentroidX (R := Int) 1 0 (-2) 0 (-1) 4 (-1) (-2) 4 1 (-1) (-2), kNormalQuadCentroidY (R := Int) 1 0 (-2) 0 (-1) 4 (-1) (-2) 4
    1 (-1) (-2), kNormalQuadCentroidZ (R := Int) 1 0 (-2) 0 (-1) 4 (-1) (-2) 4 1 (-1) (-2)⟩ : V3 Int) = ⟨192, -96, 32⟩ ∧
    quadCrossC (R := Int) ⟨1, 0, -2⟩ ⟨0, -1, 4⟩ ⟨-1, -2, 4⟩ ⟨1, -1, -2⟩ 4 = ⟨192, -96, 32⟩ := by decide

/-- `calculate_element_normals(mode="linear")` of one `polygon` with 3 nodes is the normalised vector `c` = -/
theorem KT_normal_polygon3_linear (x0 y0 z0 x1 y1 z1 x2 y2 z2 : R) :
    (⟨kNormalPolygon3LinearX x0 y0 z0 x1 y1 z1 x2 y2 z2,
      kNormalPolygon3LinearY x0 y0 z0 x1 y1 z1 x2 y2 z2,
      kNormalPolygon3LinearZ x0 y0 z0 x1 y1 z1 x2 y2 z2⟩ : V3 R)
      = polyFanCross [⟨x0, y0, z0⟩, ⟨x1, y1, z1⟩, ⟨x2, y2, z2⟩] := by
  simp only [kNormalPolygon3LinearX, kNormalPolygon3LinearY, kNormalPolygon3LinearZ]; kt_model; congr 1 <;> ring
example : (⟨kNormalPolygon3LinearX (R := Int) 1 0 (-2) 0 (-1) 4 (-1) (-2) 4, kNormalPolygon3LinearY (R := Int) 1 0 (-2) 0 (-1) 4 (-1) (-2) 4,
    kNormalPolygon3LinearZ (R := Int) 1 0 (-2) 0 (-1) 4 (-1) (-2) 4⟩ : V3 Int) = ⟨6, -6, 0⟩ ∧
    polyFanCross (R := Int) [⟨1, 0, -2⟩, ⟨0, -1, 4⟩, ⟨-1, -2, 4⟩] = ⟨6, -6, 0⟩ := by decide

/-- `calculate_element_normals(mode="gaussian")` of one `polygon` with 3 nodes is the normalised vector `c` = -/
theorem KT_normal_polygon3_gaussian (x0 y0 z0 x1 y1 z1 x2 y2 z2 : R) :
    (⟨kNormalPolygon3GaussianX x0 y0 z0 x1 y1 z1 x2 y2 z2,
      kNormalPolygon3GaussianY x0 y0 z0 x1 y1 z1 x2 y2 z2,
      kNormalPolygon3GaussianZ x0 y0 z0 x1 y1 z1 x2 y2 z2⟩ : V3 R)
      = polyFanCross [⟨x0, y0, z0⟩, ⟨x1, y1, z1⟩, ⟨x2, y2, z2⟩] := by
  simp only [kNormalPolygon3GaussianX, kNormalPolygon3GaussianY, kNormalPolygon3GaussianZ]; kt_model; congr 1 <;> ring
example : (⟨kNormalPolygon3GaussianX (R := Int) 1 0 (-2) 0 (-1) 4 (-1) (-2) 4, kNormalPolygon3GaussianY (R := Int) 1 0 (-2) 0 (-1) 4 (-1) (-2) 4,
    kNormalPolygon3GaussianZ (R := Int) 1 0 (-2) 0 (-1) 4 (-1) (-2) 4⟩ : V3 Int) = ⟨6, -6, 0⟩ ∧
    polyFanCross (R := Int) [⟨1, 0, -2⟩, ⟨0, -1, 4⟩, ⟨-1, -2, 4⟩] = ⟨6, -6, 0⟩ := by decide

/-- `calculate_element_normals(mode="centroid")` of one `polygon` with 3 nodes is the normalised vector `c` with `9 · c` = -/
theorem KT_normal_polygon3_centroid (x0 y0 z0 x1 y1 z1 x2 y2 z2 : R) :
    (⟨kNormalPolygon3CentroidX x0 y0 z0 x1 y1 z1 x2 y2 z2,
      kNormalPolygon3CentroidY x0 y0 z0 x1 y1 z1 x2 y2 z2,
      kNormalPolygon3CentroidZ x0 y0 z0 x1 y1 z1 x2 y2 z2⟩ : V3 R)
      = polyCentroidCross 3 [⟨x0, y0, z0⟩, ⟨x1, y1, z1⟩, ⟨x2, y2, z2⟩] := by
  simp only [kNormalPolygon3CentroidX, kNormalPolygon3CentroidY, kNormalPolygon3CentroidZ]; kt_model; congr 1 <;> ring
example : (⟨kNormalPolygon3CentroidX (R := Int) 1 0 (-2) 0 (-1) 4 (-1) (-2) 4, kNormalPolygon3CentroidY (R := Int) 1 0 (-2) 0 (-1) 4 (-1) (-2) 4,
    kNormalPolygon3CentroidZ (R := Int) 1 0 (-2) 0 (-1) 4 (-1) (-2) 4⟩ : V3 Int) = ⟨54, -54, 0⟩ ∧
    polyCentroidCross (R := Int) 3 [⟨1, 0, -2⟩, ⟨0, -1, 4⟩, ⟨-1, -2, 4⟩] = ⟨54, -54, 0⟩ := by decide

/-- `calculate_element_normals(mode="linear")` of one `polygon` with 5 nodes is the normalised vector `c` with `3 · c` = -/
theorem KT_normal_polygon5_linear (x0 y0 z0 x1 y1 z1 x2 y2 z2 x3 y3 z3 x4 y4 z4 : R) :
    (⟨kNormalPolygon5LinearX x0 y0 z0 x1 y1 z1 x2 y2 z2 x3 y3 z3 x4 y4 z4,
      kNormalPolygon5LinearY x0 y0 z0 x1 y1 z1 x2 y2 z2 x3 y3 z3 x4 y4 z4,
      kNormalPolygon5LinearZ x0 y0 z0 x1 y1 z1 x2 y2 z2 x3 y3 z3 x4 y4 z4⟩ : V3 R)
      = polyFanCross [⟨x0, y0, z0⟩, ⟨x1, y1, z1⟩, ⟨x2, y2, z2⟩, ⟨x3, y3, z3⟩, ⟨x4, y4, z4⟩] := by
  simp only [kNormalPolygon5LinearX, kNormalPolygon5LinearY, kNormalPolygon5LinearZ]; kt_model; congr 1 <;> ring
example : (⟨kNormalPolygon5LinearX (R := Int) 1 0 (-2) 0 (-1) 4 (-1) (-2) 4 1 (-1) (-2) (-3) 3 4, kNormalPolygon5LinearY (R := Int) 1 0 (-2) 0 (-1) 4
    (-1) (-2) 4 1 (-1) (-2) (-3) 3 4, kNormalPolygon5LinearZ (R := Int) 1 0 (-2) 0 (-1) 4 (-1) (-2) 4 1 (-1) (-2) (-3) 3 4⟩ : V3 Int) = ⟨6, -6, -2⟩ ∧
    polyFanCross (R := Int) [⟨1, 0, -2⟩, ⟨0, -1, 4⟩, ⟨-1, -2, 4⟩, ⟨1, -1, -2⟩, ⟨-3, 3, 4⟩] = ⟨6, -6, -2⟩ := by decide

/-- `calculate_element_normals(mode="gaussian")` of one `polygon` with 5 nodes is the normalised vector `c` with `3 · c` = -/
theorem KT_normal_polygon5_gaussian (x0 y0 z0 x1 y1 z1 x2 y2 z2 x3 y3 z3 x4 y4 z4 : R) :
    (⟨kNormalPolygon5GaussianX x0 y0 z0 x1 y1 z1 x2 y2 z2 x3 y3 z3 x4 y4 z4,
      kNormalPolygon5GaussianY x0 y0 z0 x1 y1 z1 x2 y2 z2 x3 y3 z3 x4 y4 z4,
      kNormalPolygon5GaussianZ x0 y0 z0 x1 y1 z1 x2 y2 z2 x3 y3 z3 x4 y4 z4⟩ : V3 R)
      = polyFanCross [⟨x0, y0, z0⟩, ⟨x1, y1, z1⟩, ⟨x2, y2, z2⟩, ⟨x3, y3, z3⟩, ⟨x4, y4, z4⟩] := by
  simp only [kNormalPolygon5GaussianX, kNormalPolygon5GaussianY, kNormalPolygon5GaussianZ]; kt_model; congr 1 <;> ring
example : (⟨kNormalPolygon5GaussianX (R := Int) 1 0 (-2) 0 (-1) 4 (-1) (-2) 4 1 (-1) (-2) (-3) 3 4, kNormalPolygon5GaussianY (R := Int) 1 0 (-2) 0
    (-1) 4 (-1) (-2) 4 1 (-1) (-2) (-3) 3 4, kNormalPolygon5GaussianZ (R := Int) 1 0 (-2) 0 (-1) 4 (-1) (-2) 4 1 (-1) (-2) (-3) 3 4⟩ : V3 Int) = ⟨6,
    -6, -2⟩ ∧
    polyFanCross (R := Int) [⟨1, 0, -2⟩, ⟨0, -1, 4⟩, ⟨-1, -2, 4⟩, ⟨1, -1, -2⟩, ⟨-3, 3, 4⟩] = ⟨6, -6, -2⟩ := by decide

/-- `calculate_element_normals(mode="centroid")` of one `polygon` with 5 nodes is the normalised vector `c` with `25 · c` = -/
theorem KT_normal_polygon5_centroid (x0 y0 z0 x1 y1 z1 x2 y2 z2 x3 y3 z3 x4 y4 z4 : R) :
    (⟨kNormalPolygon5CentroidX x0 y0 z0 x1 y1 z1 x2 y2 z2 x3 y3 z3 x4 y4 z4,
      kNormalPolygon5CentroidY x0 y0 z0 x1 y1 z1 x2 y2 z2 x3 y3 z3 x4 y4 z4,
      kNormalPolygon5CentroidZ x0 y0 z0 x1 y1 z1 x2 y2 z2 x3 y3 z3 x4 y4 z4⟩ : V3 R)
      = polyCentroidCross 5 [⟨x0, y0, z0⟩, ⟨x1, y1, z1⟩, ⟨x2, y2, z2⟩, ⟨x3, y3, z3⟩, ⟨x4, y4, z4⟩] := by
  simp only [kNormalPolygon5CentroidX, kNormalPolygon5CentroidY, kNormalPolygon5CentroidZ]; kt_model; congr 1 <;> ring
example : (⟨kNormalPolygon5CentroidX (R := Int) 1 0 (-2) 0 (-1) 4 (-1) (-2) 4 1 (-1) (-2) (-3) 3 4, kNormalPolygon5CentroidY (R := Int) 1 0 (-2) 0
    (-1) 4 (-1) (-2) 4 1 (-1) (-2) (-3) 3 4, kNormalPolygon5CentroidZ (R := Int) 1 0 (-2) 0 (-1) 4 (-1) (-2) 4 1 (-1) (-2) (-3) 3 4⟩ : V3 Int) =
    ⟨150, -150, -50⟩ ∧
    polyCentroidCross (R := Int) 5 [⟨1, 0, -2⟩, ⟨0, -1, 4⟩, ⟨-1, -2, 4⟩, ⟨1, -1, -2⟩, ⟨-3, 3, 4⟩] = ⟨150, -150, -50⟩ := by decide

end

/-! ## the same, stated on the model's dispatch functions

`Femio.C11.volume / volumePoly / area / normal` (over `ℚ`) are what the driver evaluates for ties P and D and what the
per-type / per-mode theorems of `Props/C11*.lean` are instantiated with.  For every traced (element type, mode):
the model's value IS the traced polynomial over the model's denominator. -/

/-- close a dispatch goal after the traced polynomial has been rewritten into the model kernel -/
macro "kt_dispatch" : tactic => `(tactic| first | rfl | (simp [volume, volumePoly, area, normal]; done) |
    (simp [volume, volumePoly, area, normal]; norm_num))

/-- `volume "tet" .linear`: the traced polynomial over 6 -/
theorem KT_dispatch_vol_tet_linear (x0 y0 z0 x1 y1 z1 x2 y2 z2 x3 y3 z3 : ℚ) :
    volume "tet" .linear [⟨x0, y0, z0⟩, ⟨x1, y1, z1⟩, ⟨x2, y2, z2⟩, ⟨x3, y3, z3⟩]
      = some ⟨kVolTetLinear x0 y0 z0 x1 y1 z1 x2 y2 z2 x3 y3 z3, 6⟩ := by
  rw [KT_vol_tet_linear]; kt_dispatch

/-- `volume "tet" .gaussian`: the traced polynomial over 6 -/
theorem KT_dispatch_vol_tet_gaussian (x0 y0 z0 x1 y1 z1 x2 y2 z2 x3 y3 z3 : ℚ) :
    volume "tet" .gaussian [⟨x0, y0, z0⟩, ⟨x1, y1, z1⟩, ⟨x2, y2, z2⟩, ⟨x3, y3, z3⟩]
      = some ⟨kVolTetGaussian x0 y0 z0 x1 y1 z1 x2 y2 z2 x3 y3 z3, 6⟩ := by
  rw [KT_vol_tet_gaussian]; kt_dispatch

/-- `volume "tet" .centroid`: the traced polynomial over 6 -/
theorem KT_dispatch_vol_tet_centroid (x0 y0 z0 x1 y1 z1 x2 y2 z2 x3 y3 z3 : ℚ) :
    volume "tet" .centroid [⟨x0, y0, z0⟩, ⟨x1, y1, z1⟩, ⟨x2, y2, z2⟩, ⟨x3, y3, z3⟩]
      = some ⟨kVolTetCentroid x0 y0 z0 x1 y1 z1 x2 y2 z2 x3 y3 z3, 6⟩ := by
  rw [KT_vol_tet_centroid]; kt_dispatch

/-- `volume "tet2" .linear`: the traced polynomial over 6 -/
theorem KT_dispatch_vol_tet2_linear (x0 y0 z0 x1 y1 z1 x2 y2 z2 x3 y3 z3 x4 y4 z4 x5 y5 z5 x6 y6 z6 x7 y7 z7 x8 y8 z8 x9 y9 z9 : ℚ) :
    volume "tet2" .linear [⟨x0, y0, z0⟩, ⟨x1, y1, z1⟩, ⟨x2, y2, z2⟩, ⟨x3, y3, z3⟩, ⟨x4, y4, z4⟩, ⟨x5, y5, z5⟩, ⟨x6, y6, z6⟩, ⟨x7, y7, z7⟩, ⟨x8, y8,
        z8⟩, ⟨x9, y9, z9⟩]
      = some ⟨kVolTet2Linear x0 y0 z0 x1 y1 z1 x2 y2 z2 x3 y3 z3 x4 y4 z4 x5 y5 z5 x6 y6 z6 x7 y7 z7 x8 y8 z8 x9 y9 z9, 6⟩ := by
  rw [KT_vol_tet2_linear]; kt_dispatch

/-- `volume "tet2" .gaussian`: the traced polynomial over 6 -/
theorem KT_dispatch_vol_tet2_gaussian (x0 y0 z0 x1 y1 z1 x2 y2 z2 x3 y3 z3 x4 y4 z4 x5 y5 z5 x6 y6 z6 x7 y7 z7 x8 y8 z8 x9 y9 z9 : ℚ) :
    volume "tet2" .gaussian [⟨x0, y0, z0⟩, ⟨x1, y1, z1⟩, ⟨x2, y2, z2⟩, ⟨x3, y3, z3⟩, ⟨x4, y4, z4⟩, ⟨x5, y5, z5⟩, ⟨x6, y6, z6⟩, ⟨x7, y7, z7⟩, ⟨x8, y8,
        z8⟩, ⟨x9, y9, z9⟩]
      = some ⟨kVolTet2Gaussian x0 y0 z0 x1 y1 z1 x2 y2 z2 x3 y3 z3 x4 y4 z4 x5 y5 z5 x6 y6 z6 x7 y7 z7 x8 y8 z8 x9 y9 z9, 6⟩ := by
  rw [KT_vol_tet2_gaussian]; kt_dispatch

/-- `volume "tet2" .centroid`: the traced polynomial over 6 -/
theorem KT_dispatch_vol_tet2_centroid (x0 y0 z0 x1 y1 z1 x2 y2 z2 x3 y3 z3 x4 y4 z4 x5 y5 z5 x6 y6 z6 x7 y7 z7 x8 y8 z8 x9 y9 z9 : ℚ) :
    volume "tet2" .centroid [⟨x0, y0, z0⟩, ⟨x1, y1, z1⟩, ⟨x2, y2, z2⟩, ⟨x3, y3, z3⟩, ⟨x4, y4, z4⟩, ⟨x5, y5, z5⟩, ⟨x6, y6, z6⟩, ⟨x7, y7, z7⟩, ⟨x8, y8,
        z8⟩, ⟨x9, y9, z9⟩]
      = some ⟨kVolTet2Centroid x0 y0 z0 x1 y1 z1 x2 y2 z2 x3 y3 z3 x4 y4 z4 x5 y5 z5 x6 y6 z6 x7 y7 z7 x8 y8 z8 x9 y9 z9, 6⟩ := by
  rw [KT_vol_tet2_centroid]; kt_dispatch

/-- `volume "pyr" .linear`: the traced polynomial over 6 -/
theorem KT_dispatch_vol_pyr_linear (x0 y0 z0 x1 y1 z1 x2 y2 z2 x3 y3 z3 x4 y4 z4 : ℚ) :
    volume "pyr" .linear [⟨x0, y0, z0⟩, ⟨x1, y1, z1⟩, ⟨x2, y2, z2⟩, ⟨x3, y3, z3⟩, ⟨x4, y4, z4⟩]
      = some ⟨kVolPyrLinear x0 y0 z0 x1 y1 z1 x2 y2 z2 x3 y3 z3 x4 y4 z4, 6⟩ := by
  rw [KT_vol_pyr_linear]; kt_dispatch

/-- `volume "pyr" .gaussian`: the traced polynomial over 6 -/
theorem KT_dispatch_vol_pyr_gaussian (x0 y0 z0 x1 y1 z1 x2 y2 z2 x3 y3 z3 x4 y4 z4 : ℚ) :
    volume "pyr" .gaussian [⟨x0, y0, z0⟩, ⟨x1, y1, z1⟩, ⟨x2, y2, z2⟩, ⟨x3, y3, z3⟩, ⟨x4, y4, z4⟩]
      = some ⟨kVolPyrGaussian x0 y0 z0 x1 y1 z1 x2 y2 z2 x3 y3 z3 x4 y4 z4, 6⟩ := by
  rw [KT_vol_pyr_gaussian]; kt_dispatch

/-- `volume "pyr" .centroid`: the traced polynomial over 24 -/
theorem KT_dispatch_vol_pyr_centroid (x0 y0 z0 x1 y1 z1 x2 y2 z2 x3 y3 z3 x4 y4 z4 : ℚ) :
    volume "pyr" .centroid [⟨x0, y0, z0⟩, ⟨x1, y1, z1⟩, ⟨x2, y2, z2⟩, ⟨x3, y3, z3⟩, ⟨x4, y4, z4⟩]
      = some ⟨kVolPyrCentroid x0 y0 z0 x1 y1 z1 x2 y2 z2 x3 y3 z3 x4 y4 z4, 24⟩ := by
  rw [KT_vol_pyr_centroid]; kt_dispatch

/-- `volume "prism" .linear`: the traced polynomial over 6 -/
theorem KT_dispatch_vol_prism_linear (x0 y0 z0 x1 y1 z1 x2 y2 z2 x3 y3 z3 x4 y4 z4 x5 y5 z5 : ℚ) :
    volume "prism" .linear [⟨x0, y0, z0⟩, ⟨x1, y1, z1⟩, ⟨x2, y2, z2⟩, ⟨x3, y3, z3⟩, ⟨x4, y4, z4⟩, ⟨x5, y5, z5⟩]
      = some ⟨kVolPrismLinear x0 y0 z0 x1 y1 z1 x2 y2 z2 x3 y3 z3 x4 y4 z4 x5 y5 z5, 6⟩ := by
  rw [KT_vol_prism_linear]; kt_dispatch

/-- `volume "prism" .gaussian`: the traced polynomial over 6 -/
theorem KT_dispatch_vol_prism_gaussian (x0 y0 z0 x1 y1 z1 x2 y2 z2 x3 y3 z3 x4 y4 z4 x5 y5 z5 : ℚ) :
    volume "prism" .gaussian [⟨x0, y0, z0⟩, ⟨x1, y1, z1⟩, ⟨x2, y2, z2⟩, ⟨x3, y3, z3⟩, ⟨x4, y4, z4⟩, ⟨x5, y5, z5⟩]
      = some ⟨kVolPrismGaussian x0 y0 z0 x1 y1 z1 x2 y2 z2 x3 y3 z3 x4 y4 z4 x5 y5 z5, 6⟩ := by
  rw [KT_vol_prism_gaussian]; kt_dispatch

/-- `volume "prism" .centroid`: the traced polynomial over 24 -/
theorem KT_dispatch_vol_prism_centroid (x0 y0 z0 x1 y1 z1 x2 y2 z2 x3 y3 z3 x4 y4 z4 x5 y5 z5 : ℚ) :
    volume "prism" .centroid [⟨x0, y0, z0⟩, ⟨x1, y1, z1⟩, ⟨x2, y2, z2⟩, ⟨x3, y3, z3⟩, ⟨x4, y4, z4⟩, ⟨x5, y5, z5⟩]
      = some ⟨kVolPrismCentroid x0 y0 z0 x1 y1 z1 x2 y2 z2 x3 y3 z3 x4 y4 z4 x5 y5 z5, 24⟩ := by
  rw [KT_vol_prism_centroid]; kt_dispatch

/-- `volume "hexprism" .linear`: the traced polynomial over 6 -/
theorem KT_dispatch_vol_hexprism_linear (x0 y0 z0 x1 y1 z1 x2 y2 z2 x3 y3 z3 x4 y4 z4 x5 y5 z5 x6 y6 z6 x7 y7 z7 x8 y8 z8 x9 y9 z9 x10 y10 z10 x11
    y11 z11 : ℚ) :
    volume "hexprism" .linear [⟨x0, y0, z0⟩, ⟨x1, y1, z1⟩, ⟨x2, y2, z2⟩, ⟨x3, y3, z3⟩, ⟨x4, y4, z4⟩, ⟨x5, y5, z5⟩, ⟨x6, y6, z6⟩, ⟨x7, y7, z7⟩, ⟨x8,
        y8, z8⟩, ⟨x9, y9, z9⟩, ⟨x10, y10, z10⟩, ⟨x11, y11, z11⟩]
      = some ⟨kVolHexprismLinear x0 y0 z0 x1 y1 z1 x2 y2 z2 x3 y3 z3 x4 y4 z4 x5 y5 z5 x6 y6 z6 x7 y7 z7 x8 y8 z8 x9 y9 z9 x10 y10 z10 x11 y11 z11,
          6⟩ := by
  rw [KT_vol_hexprism_linear]; kt_dispatch

/-- `volume "hexprism" .gaussian`: the traced polynomial over 6 -/
theorem KT_dispatch_vol_hexprism_gaussian (x0 y0 z0 x1 y1 z1 x2 y2 z2 x3 y3 z3 x4 y4 z4 x5 y5 z5 x6 y6 z6 x7 y7 z7 x8 y8 z8 x9 y9 z9 x10 y10 z10 x11
    y11 z11 : ℚ) :
    volume "hexprism" .gaussian [⟨x0, y0, z0⟩, ⟨x1, y1, z1⟩, ⟨x2, y2, z2⟩, ⟨x3, y3, z3⟩, ⟨x4, y4, z4⟩, ⟨x5, y5, z5⟩, ⟨x6, y6, z6⟩, ⟨x7, y7, z7⟩, ⟨x8,
        y8, z8⟩, ⟨x9, y9, z9⟩, ⟨x10, y10, z10⟩, ⟨x11, y11, z11⟩]
      = some ⟨kVolHexprismGaussian x0 y0 z0 x1 y1 z1 x2 y2 z2 x3 y3 z3 x4 y4 z4 x5 y5 z5 x6 y6 z6 x7 y7 z7 x8 y8 z8 x9 y9 z9 x10 y10 z10 x11 y11 z11,
          6⟩ := by
  rw [KT_vol_hexprism_gaussian]; kt_dispatch

/-- `volume "hexprism" .centroid`: the traced polynomial over 6 -/
theorem KT_dispatch_vol_hexprism_centroid (x0 y0 z0 x1 y1 z1 x2 y2 z2 x3 y3 z3 x4 y4 z4 x5 y5 z5 x6 y6 z6 x7 y7 z7 x8 y8 z8 x9 y9 z9 x10 y10 z10 x11
    y11 z11 : ℚ) :
    volume "hexprism" .centroid [⟨x0, y0, z0⟩, ⟨x1, y1, z1⟩, ⟨x2, y2, z2⟩, ⟨x3, y3, z3⟩, ⟨x4, y4, z4⟩, ⟨x5, y5, z5⟩, ⟨x6, y6, z6⟩, ⟨x7, y7, z7⟩, ⟨x8,
        y8, z8⟩, ⟨x9, y9, z9⟩, ⟨x10, y10, z10⟩, ⟨x11, y11, z11⟩]
      = some ⟨kVolHexprismCentroid x0 y0 z0 x1 y1 z1 x2 y2 z2 x3 y3 z3 x4 y4 z4 x5 y5 z5 x6 y6 z6 x7 y7 z7 x8 y8 z8 x9 y9 z9 x10 y10 z10 x11 y11 z11,
          6⟩ := by
  rw [KT_vol_hexprism_centroid]; kt_dispatch

/-- `volume "hex" .linear`: the traced polynomial over 6 -/
theorem KT_dispatch_vol_hex_linear (x0 y0 z0 x1 y1 z1 x2 y2 z2 x3 y3 z3 x4 y4 z4 x5 y5 z5 x6 y6 z6 x7 y7 z7 : ℚ) :
    volume "hex" .linear [⟨x0, y0, z0⟩, ⟨x1, y1, z1⟩, ⟨x2, y2, z2⟩, ⟨x3, y3, z3⟩, ⟨x4, y4, z4⟩, ⟨x5, y5, z5⟩, ⟨x6, y6, z6⟩, ⟨x7, y7, z7⟩]
      = some ⟨kVolHexLinear x0 y0 z0 x1 y1 z1 x2 y2 z2 x3 y3 z3 x4 y4 z4 x5 y5 z5 x6 y6 z6 x7 y7 z7, 6⟩ := by
  rw [KT_vol_hex_linear]; kt_dispatch
/-- on the unit cube: 6 V = 6 -/
example : volume "hex" .linear [⟨0,0,0⟩, ⟨1,0,0⟩, ⟨1,1,0⟩, ⟨0,1,0⟩, ⟨0,0,1⟩, ⟨1,0,1⟩, ⟨1,1,1⟩, ⟨0,1,1⟩]
      = some ⟨kVolHexLinear 0 0 0 1 0 0 1 1 0 0 1 0 0 0 1 1 0 1 1 1 1 0 1 1, 6⟩ ∧
    kVolHexLinear (R := ℚ) 0 0 0 1 0 0 1 1 0 0 1 0 0 0 1 1 0 1 1 1 1 0 1 1 = 6 :=
  ⟨KT_dispatch_vol_hex_linear .., by norm_num [kVolHexLinear]⟩

/-- `volume "hex" .centroid`: the traced polynomial over 24 -/
theorem KT_dispatch_vol_hex_centroid (x0 y0 z0 x1 y1 z1 x2 y2 z2 x3 y3 z3 x4 y4 z4 x5 y5 z5 x6 y6 z6 x7 y7 z7 : ℚ) :
    volume "hex" .centroid [⟨x0, y0, z0⟩, ⟨x1, y1, z1⟩, ⟨x2, y2, z2⟩, ⟨x3, y3, z3⟩, ⟨x4, y4, z4⟩, ⟨x5, y5, z5⟩, ⟨x6, y6, z6⟩, ⟨x7, y7, z7⟩]
      = some ⟨kVolHexCentroid x0 y0 z0 x1 y1 z1 x2 y2 z2 x3 y3 z3 x4 y4 z4 x5 y5 z5 x6 y6 z6 x7 y7 z7, 24⟩ := by
  rw [KT_vol_hex_centroid]; kt_dispatch

/-- `volumePoly .linear` on the faces [[0, 2, 1], [0, 1, 3], [1, 2, 3], [2, 0, 3]] -/
theorem KT_dispatch_vol_polyTet_linear (x0 y0 z0 x1 y1 z1 x2 y2 z2 x3 y3 z3 : ℚ) :
    volumePoly .linear [[⟨x0, y0, z0⟩, ⟨x2, y2, z2⟩, ⟨x1, y1, z1⟩], [⟨x0, y0, z0⟩, ⟨x1, y1, z1⟩, ⟨x3, y3, z3⟩], [⟨x1, y1, z1⟩, ⟨x2, y2, z2⟩, ⟨x3, y3,
        z3⟩], [⟨x2, y2, z2⟩, ⟨x0, y0, z0⟩, ⟨x3, y3, z3⟩]] = ⟨kVolPolyTetLinear x0 y0 z0 x1 y1 z1 x2 y2 z2 x3 y3 z3, 6⟩ := by
  rw [KT_vol_polyTet_linear]; kt_dispatch

/-- `volumePoly .gaussian` on the faces [[0, 2, 1], [0, 1, 3], [1, 2, 3], [2, 0, 3]] -/
theorem KT_dispatch_vol_polyTet_gaussian (x0 y0 z0 x1 y1 z1 x2 y2 z2 x3 y3 z3 : ℚ) :
    volumePoly .gaussian [[⟨x0, y0, z0⟩, ⟨x2, y2, z2⟩, ⟨x1, y1, z1⟩], [⟨x0, y0, z0⟩, ⟨x1, y1, z1⟩, ⟨x3, y3, z3⟩], [⟨x1, y1, z1⟩, ⟨x2, y2, z2⟩, ⟨x3,
        y3, z3⟩], [⟨x2, y2, z2⟩, ⟨x0, y0, z0⟩, ⟨x3, y3, z3⟩]] = ⟨kVolPolyTetGaussian x0 y0 z0 x1 y1 z1 x2 y2 z2 x3 y3 z3, 6⟩ := by
  rw [KT_vol_polyTet_gaussian]; kt_dispatch

/-- `volumePoly .centroid` on the faces [[0, 2, 1], [0, 1, 3], [1, 2, 3], [2, 0, 3]]: `3 · num` is the traced polynomial, `den = 6` -/
theorem KT_dispatch_vol_polyTet_centroid (x0 y0 z0 x1 y1 z1 x2 y2 z2 x3 y3 z3 : ℚ) :
    3 * (volumePoly .centroid [[⟨x0, y0, z0⟩, ⟨x2, y2, z2⟩, ⟨x1, y1, z1⟩], [⟨x0, y0, z0⟩, ⟨x1, y1, z1⟩, ⟨x3, y3, z3⟩], [⟨x1, y1, z1⟩, ⟨x2, y2, z2⟩,
        ⟨x3, y3, z3⟩], [⟨x2, y2, z2⟩, ⟨x0, y0, z0⟩, ⟨x3, y3, z3⟩]]).num = kVolPolyTetCentroid x0 y0 z0 x1 y1 z1 x2 y2 z2 x3 y3 z3 ∧
    (volumePoly .centroid [[⟨x0, y0, z0⟩, ⟨x2, y2, z2⟩, ⟨x1, y1, z1⟩], [⟨x0, y0, z0⟩, ⟨x1, y1, z1⟩, ⟨x3, y3, z3⟩], [⟨x1, y1, z1⟩, ⟨x2, y2, z2⟩, ⟨x3,
        y3, z3⟩], [⟨x2, y2, z2⟩, ⟨x0, y0, z0⟩, ⟨x3, y3, z3⟩]]).den = 6 := by
  refine ⟨?_, rfl⟩
  rw [KT_vol_polyTet_centroid (fun k => 1 / (k : ℚ)) (by norm_num)]; rfl

/-- `volumePoly .linear` on the faces [[0, 3, 2, 1], [0, 1, 4], [1, 2, 4], [2, 3, 4], [3, 0, 4]] -/
theorem KT_dispatch_vol_polyPyr_linear (x0 y0 z0 x1 y1 z1 x2 y2 z2 x3 y3 z3 x4 y4 z4 : ℚ) :
    volumePoly .linear [[⟨x0, y0, z0⟩, ⟨x3, y3, z3⟩, ⟨x2, y2, z2⟩, ⟨x1, y1, z1⟩], [⟨x0, y0, z0⟩, ⟨x1, y1, z1⟩, ⟨x4, y4, z4⟩], [⟨x1, y1, z1⟩, ⟨x2, y2,
        z2⟩, ⟨x4, y4, z4⟩], [⟨x2, y2, z2⟩, ⟨x3, y3, z3⟩, ⟨x4, y4, z4⟩], [⟨x3, y3, z3⟩, ⟨x0, y0, z0⟩, ⟨x4, y4, z4⟩]] = ⟨kVolPolyPyrLinear x0 y0 z0 x1
        y1 z1 x2 y2 z2 x3 y3 z3 x4 y4 z4, 6⟩ := by
  rw [KT_vol_polyPyr_linear]; kt_dispatch

/-- `volumePoly .gaussian` on the faces [[0, 3, 2, 1], [0, 1, 4], [1, 2, 4], [2, 3, 4], [3, 0, 4]] -/
theorem KT_dispatch_vol_polyPyr_gaussian (x0 y0 z0 x1 y1 z1 x2 y2 z2 x3 y3 z3 x4 y4 z4 : ℚ) :
    volumePoly .gaussian [[⟨x0, y0, z0⟩, ⟨x3, y3, z3⟩, ⟨x2, y2, z2⟩, ⟨x1, y1, z1⟩], [⟨x0, y0, z0⟩, ⟨x1, y1, z1⟩, ⟨x4, y4, z4⟩], [⟨x1, y1, z1⟩, ⟨x2,
        y2, z2⟩, ⟨x4, y4, z4⟩], [⟨x2, y2, z2⟩, ⟨x3, y3, z3⟩, ⟨x4, y4, z4⟩], [⟨x3, y3, z3⟩, ⟨x0, y0, z0⟩, ⟨x4, y4, z4⟩]] = ⟨kVolPolyPyrGaussian x0 y0
        z0 x1 y1 z1 x2 y2 z2 x3 y3 z3 x4 y4 z4, 6⟩ := by
  rw [KT_vol_polyPyr_gaussian]; kt_dispatch

/-- `volumePoly .centroid` on the faces [[0, 3, 2, 1], [0, 1, 4], [1, 2, 4], [2, 3, 4], [3, 0, 4]]: `12 · num` is the traced polynomial, `den = 6` -/
theorem KT_dispatch_vol_polyPyr_centroid (x0 y0 z0 x1 y1 z1 x2 y2 z2 x3 y3 z3 x4 y4 z4 : ℚ) :
    12 * (volumePoly .centroid [[⟨x0, y0, z0⟩, ⟨x3, y3, z3⟩, ⟨x2, y2, z2⟩, ⟨x1, y1, z1⟩], [⟨x0, y0, z0⟩, ⟨x1, y1, z1⟩, ⟨x4, y4, z4⟩], [⟨x1, y1, z1⟩,
        ⟨x2, y2, z2⟩, ⟨x4, y4, z4⟩], [⟨x2, y2, z2⟩, ⟨x3, y3, z3⟩, ⟨x4, y4, z4⟩], [⟨x3, y3, z3⟩, ⟨x0, y0, z0⟩, ⟨x4, y4, z4⟩]]).num =
        kVolPolyPyrCentroid x0 y0 z0 x1 y1 z1 x2 y2 z2 x3 y3 z3 x4 y4 z4 ∧
    (volumePoly .centroid [[⟨x0, y0, z0⟩, ⟨x3, y3, z3⟩, ⟨x2, y2, z2⟩, ⟨x1, y1, z1⟩], [⟨x0, y0, z0⟩, ⟨x1, y1, z1⟩, ⟨x4, y4, z4⟩], [⟨x1, y1, z1⟩, ⟨x2,
        y2, z2⟩, ⟨x4, y4, z4⟩], [⟨x2, y2, z2⟩, ⟨x3, y3, z3⟩, ⟨x4, y4, z4⟩], [⟨x3, y3, z3⟩, ⟨x0, y0, z0⟩, ⟨x4, y4, z4⟩]]).den = 6 := by
  refine ⟨?_, rfl⟩
  rw [KT_vol_polyPyr_centroid (fun k => 1 / (k : ℚ)) (by norm_num) (by norm_num)]; rfl

/-- `area "tri" .linear`: radicands = squared norms of the traced vectors, denominator 2 -/
theorem KT_dispatch_area_tri_linear (x0 y0 z0 x1 y1 z1 x2 y2 z2 : ℚ) :
    area "tri" .linear [⟨x0, y0, z0⟩, ⟨x1, y1, z1⟩, ⟨x2, y2, z2⟩]
      = some ⟨[normSq ⟨kAreaTriLinearX x0 y0 z0 x1 y1 z1 x2 y2 z2, kAreaTriLinearY x0 y0 z0 x1 y1 z1 x2 y2 z2, kAreaTriLinearZ x0 y0 z0 x1 y1 z1 x2
          y2 z2⟩], 2⟩ := by
  rw [KT_area_tri_linear]; kt_dispatch

/-- `area "tri" .gaussian`: radicands = squared norms of the traced vectors, denominator 2 -/
theorem KT_dispatch_area_tri_gaussian (x0 y0 z0 x1 y1 z1 x2 y2 z2 : ℚ) :
    area "tri" .gaussian [⟨x0, y0, z0⟩, ⟨x1, y1, z1⟩, ⟨x2, y2, z2⟩]
      = some ⟨[normSq ⟨kAreaTriGaussianX x0 y0 z0 x1 y1 z1 x2 y2 z2, kAreaTriGaussianY x0 y0 z0 x1 y1 z1 x2 y2 z2, kAreaTriGaussianZ x0 y0 z0 x1 y1
          z1 x2 y2 z2⟩], 2⟩ := by
  rw [KT_area_tri_gaussian]; kt_dispatch

/-- `area "tri" .centroid`: radicands = squared norms of the traced vectors, denominator 2 -/
theorem KT_dispatch_area_tri_centroid (x0 y0 z0 x1 y1 z1 x2 y2 z2 : ℚ) :
    area "tri" .centroid [⟨x0, y0, z0⟩, ⟨x1, y1, z1⟩, ⟨x2, y2, z2⟩]
      = some ⟨[normSq ⟨kAreaTriCentroidX x0 y0 z0 x1 y1 z1 x2 y2 z2, kAreaTriCentroidY x0 y0 z0 x1 y1 z1 x2 y2 z2, kAreaTriCentroidZ x0 y0 z0 x1 y1
          z1 x2 y2 z2⟩], 2⟩ := by
  rw [KT_area_tri_centroid]; kt_dispatch

/-- `area "quad" .linear`: radicands = squared norms of the traced vectors, denominator 2 -/
theorem KT_dispatch_area_quad_linear (x0 y0 z0 x1 y1 z1 x2 y2 z2 x3 y3 z3 : ℚ) :
    area "quad" .linear [⟨x0, y0, z0⟩, ⟨x1, y1, z1⟩, ⟨x2, y2, z2⟩, ⟨x3, y3, z3⟩]
      = some ⟨[normSq ⟨kAreaQuadLinearV0X x0 y0 z0 x1 y1 z1 x2 y2 z2 x3 y3 z3, kAreaQuadLinearV0Y x0 y0 z0 x1 y1 z1 x2 y2 z2 x3 y3 z3,
          kAreaQuadLinearV0Z x0 y0 z0 x1 y1 z1 x2 y2 z2 x3 y3 z3⟩,
      normSq ⟨kAreaQuadLinearV1X x0 y0 z0 x1 y1 z1 x2 y2 z2 x3 y3 z3, kAreaQuadLinearV1Y x0 y0 z0 x1 y1 z1 x2 y2 z2 x3 y3 z3, kAreaQuadLinearV1Z x0
          y0 z0 x1 y1 z1 x2 y2 z2 x3 y3 z3⟩], 2⟩ := by
  rw [(KT_area_quad_linear x0 y0 z0 x1 y1 z1 x2 y2 z2 x3 y3 z3).1, (KT_area_quad_linear x0 y0 z0 x1 y1 z1 x2 y2 z2 x3 y3 z3).2]; kt_dispatch

/-- `area "quad" .centroid`: radicands = squared norms of the traced vectors, denominator 32 -/
theorem KT_dispatch_area_quad_centroid (x0 y0 z0 x1 y1 z1 x2 y2 z2 x3 y3 z3 : ℚ) :
    area "quad" .centroid [⟨x0, y0, z0⟩, ⟨x1, y1, z1⟩, ⟨x2, y2, z2⟩, ⟨x3, y3, z3⟩]
      = some ⟨[normSq ⟨kAreaQuadCentroidX x0 y0 z0 x1 y1 z1 x2 y2 z2 x3 y3 z3, kAreaQuadCentroidY x0 y0 z0 x1 y1 z1 x2 y2 z2 x3 y3 z3,
          kAreaQuadCentroidZ x0 y0 z0 x1 y1 z1 x2 y2 z2 x3 y3 z3⟩], 32⟩ := by
  rw [KT_area_quad_centroid]; kt_dispatch
/-- on a 2 × 3 rectangle: area = √((32·6)²) / 32 = 6 -/
example : area "quad" .centroid [⟨0,0,0⟩, ⟨2,0,0⟩, ⟨2,3,0⟩, ⟨0,3,0⟩] = some ⟨[(32 * 6) * (32 * 6)], 32⟩ := by
  rw [KT_dispatch_area_quad_centroid]
  norm_num [kAreaQuadCentroidX, kAreaQuadCentroidY, kAreaQuadCentroidZ, V3.normSq, V3.dot]

/-- `area "polygon" .linear`: radicands = squared norms of the traced vectors, denominator 18 -/
theorem KT_dispatch_area_polygon3_linear (x0 y0 z0 x1 y1 z1 x2 y2 z2 : ℚ) :
    area "polygon" .linear [⟨x0, y0, z0⟩, ⟨x1, y1, z1⟩, ⟨x2, y2, z2⟩]
      = some ⟨[normSq ⟨kAreaPolygon3LinearX x0 y0 z0 x1 y1 z1 x2 y2 z2, kAreaPolygon3LinearY x0 y0 z0 x1 y1 z1 x2 y2 z2, kAreaPolygon3LinearZ x0 y0
          z0 x1 y1 z1 x2 y2 z2⟩], 18⟩ := by
  rw [KT_area_polygon3_linear]; kt_dispatch

/-- `area "polygon" .gaussian`: radicands = squared norms of the traced vectors, denominator 18 -/
theorem KT_dispatch_area_polygon3_gaussian (x0 y0 z0 x1 y1 z1 x2 y2 z2 : ℚ) :
    area "polygon" .gaussian [⟨x0, y0, z0⟩, ⟨x1, y1, z1⟩, ⟨x2, y2, z2⟩]
      = some ⟨[normSq ⟨kAreaPolygon3GaussianX x0 y0 z0 x1 y1 z1 x2 y2 z2, kAreaPolygon3GaussianY x0 y0 z0 x1 y1 z1 x2 y2 z2, kAreaPolygon3GaussianZ
          x0 y0 z0 x1 y1 z1 x2 y2 z2⟩], 18⟩ := by
  rw [KT_area_polygon3_gaussian]; kt_dispatch

/-- `area "polygon" .centroid`: radicands = squared norms of the traced vectors, denominator 2 -/
theorem KT_dispatch_area_polygon3_centroid (x0 y0 z0 x1 y1 z1 x2 y2 z2 : ℚ) :
    area "polygon" .centroid [⟨x0, y0, z0⟩, ⟨x1, y1, z1⟩, ⟨x2, y2, z2⟩]
      = some ⟨[normSq ⟨kAreaPolygon3CentroidX x0 y0 z0 x1 y1 z1 x2 y2 z2, kAreaPolygon3CentroidY x0 y0 z0 x1 y1 z1 x2 y2 z2, kAreaPolygon3CentroidZ
          x0 y0 z0 x1 y1 z1 x2 y2 z2⟩], 2⟩ := by
  rw [KT_area_polygon3_centroid]; kt_dispatch

/-- `area "polygon" .linear`: radicands = squared norms of the traced vectors, denominator 50 -/
theorem KT_dispatch_area_polygon5_linear (x0 y0 z0 x1 y1 z1 x2 y2 z2 x3 y3 z3 x4 y4 z4 : ℚ) :
    area "polygon" .linear [⟨x0, y0, z0⟩, ⟨x1, y1, z1⟩, ⟨x2, y2, z2⟩, ⟨x3, y3, z3⟩, ⟨x4, y4, z4⟩]
      = some ⟨[normSq ⟨kAreaPolygon5LinearX x0 y0 z0 x1 y1 z1 x2 y2 z2 x3 y3 z3 x4 y4 z4, kAreaPolygon5LinearY x0 y0 z0 x1 y1 z1 x2 y2 z2 x3 y3 z3 x4
          y4 z4, kAreaPolygon5LinearZ x0 y0 z0 x1 y1 z1 x2 y2 z2 x3 y3 z3 x4 y4 z4⟩], 50⟩ := by
  rw [KT_area_polygon5_linear]; kt_dispatch

/-- `area "polygon" .gaussian`: radicands = squared norms of the traced vectors, denominator 50 -/
theorem KT_dispatch_area_polygon5_gaussian (x0 y0 z0 x1 y1 z1 x2 y2 z2 x3 y3 z3 x4 y4 z4 : ℚ) :
    area "polygon" .gaussian [⟨x0, y0, z0⟩, ⟨x1, y1, z1⟩, ⟨x2, y2, z2⟩, ⟨x3, y3, z3⟩, ⟨x4, y4, z4⟩]
      = some ⟨[normSq ⟨kAreaPolygon5GaussianX x0 y0 z0 x1 y1 z1 x2 y2 z2 x3 y3 z3 x4 y4 z4, kAreaPolygon5GaussianY x0 y0 z0 x1 y1 z1 x2 y2 z2 x3 y3
          z3 x4 y4 z4, kAreaPolygon5GaussianZ x0 y0 z0 x1 y1 z1 x2 y2 z2 x3 y3 z3 x4 y4 z4⟩], 50⟩ := by
  rw [KT_area_polygon5_gaussian]; kt_dispatch

/-- `area "polygon" .centroid`: radicands = squared norms of the traced vectors, denominator 2 -/
theorem KT_dispatch_area_polygon5_centroid (x0 y0 z0 x1 y1 z1 x2 y2 z2 x3 y3 z3 x4 y4 z4 : ℚ) :
    area "polygon" .centroid [⟨x0, y0, z0⟩, ⟨x1, y1, z1⟩, ⟨x2, y2, z2⟩, ⟨x3, y3, z3⟩, ⟨x4, y4, z4⟩]
      = some ⟨[normSq ⟨kAreaPolygon5CentroidX x0 y0 z0 x1 y1 z1 x2 y2 z2 x3 y3 z3 x4 y4 z4, kAreaPolygon5CentroidY x0 y0 z0 x1 y1 z1 x2 y2 z2 x3 y3
          z3 x4 y4 z4, kAreaPolygon5CentroidZ x0 y0 z0 x1 y1 z1 x2 y2 z2 x3 y3 z3 x4 y4 z4⟩], 2⟩ := by
  rw [KT_area_polygon5_centroid]; kt_dispatch

/-- `normal "tri" .linear`: the traced (un-normalised) vector -/
theorem KT_dispatch_normal_tri_linear (x0 y0 z0 x1 y1 z1 x2 y2 z2 : ℚ) :
    normal "tri" .linear [⟨x0, y0, z0⟩, ⟨x1, y1, z1⟩, ⟨x2, y2, z2⟩]
      = some ⟨kNormalTriLinearX x0 y0 z0 x1 y1 z1 x2 y2 z2,
      kNormalTriLinearY x0 y0 z0 x1 y1 z1 x2 y2 z2,
      kNormalTriLinearZ x0 y0 z0 x1 y1 z1 x2 y2 z2⟩ := by
  rw [KT_normal_tri_linear]; kt_dispatch

/-- `normal "tri" .gaussian`: the traced (un-normalised) vector -/
theorem KT_dispatch_normal_tri_gaussian (x0 y0 z0 x1 y1 z1 x2 y2 z2 : ℚ) :
    normal "tri" .gaussian [⟨x0, y0, z0⟩, ⟨x1, y1, z1⟩, ⟨x2, y2, z2⟩]
      = some ⟨kNormalTriGaussianX x0 y0 z0 x1 y1 z1 x2 y2 z2,
      kNormalTriGaussianY x0 y0 z0 x1 y1 z1 x2 y2 z2,
      kNormalTriGaussianZ x0 y0 z0 x1 y1 z1 x2 y2 z2⟩ := by
  rw [KT_normal_tri_gaussian]; kt_dispatch

/-- `normal "tri" .centroid`: the traced (un-normalised) vector -/
theorem KT_dispatch_normal_tri_centroid (x0 y0 z0 x1 y1 z1 x2 y2 z2 : ℚ) :
    normal "tri" .centroid [⟨x0, y0, z0⟩, ⟨x1, y1, z1⟩, ⟨x2, y2, z2⟩]
      = some ⟨kNormalTriCentroidX x0 y0 z0 x1 y1 z1 x2 y2 z2,
      kNormalTriCentroidY x0 y0 z0 x1 y1 z1 x2 y2 z2,
      kNormalTriCentroidZ x0 y0 z0 x1 y1 z1 x2 y2 z2⟩ := by
  rw [KT_normal_tri_centroid]; kt_dispatch
/-- on a right triangle with legs 2, 3: un-normalised normal (0, 0, 6) -/
example : normal "tri" .centroid [⟨0,0,0⟩, ⟨2,0,0⟩, ⟨0,3,0⟩] = some ⟨0, 0, 6⟩ := by
  rw [KT_dispatch_normal_tri_centroid]; norm_num [kNormalTriCentroidX, kNormalTriCentroidY, kNormalTriCentroidZ]

/-- `normal "quad" .linear`: the traced (un-normalised) vector -/
theorem KT_dispatch_normal_quad_linear (x0 y0 z0 x1 y1 z1 x2 y2 z2 x3 y3 z3 : ℚ) :
    normal "quad" .linear [⟨x0, y0, z0⟩, ⟨x1, y1, z1⟩, ⟨x2, y2, z2⟩, ⟨x3, y3, z3⟩]
      = some ⟨kNormalQuadLinearX x0 y0 z0 x1 y1 z1 x2 y2 z2 x3 y3 z3,
      kNormalQuadLinearY x0 y0 z0 x1 y1 z1 x2 y2 z2 x3 y3 z3,
      kNormalQuadLinearZ x0 y0 z0 x1 y1 z1 x2 y2 z2 x3 y3 z3⟩ := by
  rw [KT_normal_quad_linear]; kt_dispatch

/-- `normal "quad" .gaussian`: the traced (un-normalised) vector -/
theorem KT_dispatch_normal_quad_gaussian (x0 y0 z0 x1 y1 z1 x2 y2 z2 x3 y3 z3 : ℚ) :
    normal "quad" .gaussian [⟨x0, y0, z0⟩, ⟨x1, y1, z1⟩, ⟨x2, y2, z2⟩, ⟨x3, y3, z3⟩]
      = some ⟨kNormalQuadGaussianX x0 y0 z0 x1 y1 z1 x2 y2 z2 x3 y3 z3,
      kNormalQuadGaussianY x0 y0 z0 x1 y1 z1 x2 y2 z2 x3 y3 z3,
      kNormalQuadGaussianZ x0 y0 z0 x1 y1 z1 x2 y2 z2 x3 y3 z3⟩ := by
  rw [KT_normal_quad_gaussian]; kt_dispatch

/-- `normal "quad" .centroid`: the traced (un-normalised) vector -/
theorem KT_dispatch_normal_quad_centroid (x0 y0 z0 x1 y1 z1 x2 y2 z2 x3 y3 z3 : ℚ) :
    normal "quad" .centroid [⟨x0, y0, z0⟩, ⟨x1, y1, z1⟩, ⟨x2, y2, z2⟩, ⟨x3, y3, z3⟩]
      = some ⟨kNormalQuadCentroidX x0 y0 z0 x1 y1 z1 x2 y2 z2 x3 y3 z3,
      kNormalQuadCentroidY x0 y0 z0 x1 y1 z1 x2 y2 z2 x3 y3 z3,
      kNormalQuadCentroidZ x0 y0 z0 x1 y1 z1 x2 y2 z2 x3 y3 z3⟩ := by
  rw [KT_normal_quad_centroid]; kt_dispatch

/-- `normal "polygon" .linear`: the traced (un-normalised) vector -/
theorem KT_dispatch_normal_polygon3_linear (x0 y0 z0 x1 y1 z1 x2 y2 z2 : ℚ) :
    normal "polygon" .linear [⟨x0, y0, z0⟩, ⟨x1, y1, z1⟩, ⟨x2, y2, z2⟩]
      = some ⟨kNormalPolygon3LinearX x0 y0 z0 x1 y1 z1 x2 y2 z2,
      kNormalPolygon3LinearY x0 y0 z0 x1 y1 z1 x2 y2 z2,
      kNormalPolygon3LinearZ x0 y0 z0 x1 y1 z1 x2 y2 z2⟩ := by
  rw [KT_normal_polygon3_linear]; kt_dispatch

/-- `normal "polygon" .gaussian`: the traced (un-normalised) vector -/
theorem KT_dispatch_normal_polygon3_gaussian (x0 y0 z0 x1 y1 z1 x2 y2 z2 : ℚ) :
    normal "polygon" .gaussian [⟨x0, y0, z0⟩, ⟨x1, y1, z1⟩, ⟨x2, y2, z2⟩]
      = some ⟨kNormalPolygon3GaussianX x0 y0 z0 x1 y1 z1 x2 y2 z2,
      kNormalPolygon3GaussianY x0 y0 z0 x1 y1 z1 x2 y2 z2,
      kNormalPolygon3GaussianZ x0 y0 z0 x1 y1 z1 x2 y2 z2⟩ := by
  rw [KT_normal_polygon3_gaussian]; kt_dispatch

/-- `normal "polygon" .centroid`: the traced (un-normalised) vector -/
theorem KT_dispatch_normal_polygon3_centroid (x0 y0 z0 x1 y1 z1 x2 y2 z2 : ℚ) :
    normal "polygon" .centroid [⟨x0, y0, z0⟩, ⟨x1, y1, z1⟩, ⟨x2, y2, z2⟩]
      = some ⟨kNormalPolygon3CentroidX x0 y0 z0 x1 y1 z1 x2 y2 z2,
      kNormalPolygon3CentroidY x0 y0 z0 x1 y1 z1 x2 y2 z2,
      kNormalPolygon3CentroidZ x0 y0 z0 x1 y1 z1 x2 y2 z2⟩ := by
  rw [KT_normal_polygon3_centroid]; kt_dispatch

/-- `normal "polygon" .linear`: the traced (un-normalised) vector -/
theorem KT_dispatch_normal_polygon5_linear (x0 y0 z0 x1 y1 z1 x2 y2 z2 x3 y3 z3 x4 y4 z4 : ℚ) :
    normal "polygon" .linear [⟨x0, y0, z0⟩, ⟨x1, y1, z1⟩, ⟨x2, y2, z2⟩, ⟨x3, y3, z3⟩, ⟨x4, y4, z4⟩]
      = some ⟨kNormalPolygon5LinearX x0 y0 z0 x1 y1 z1 x2 y2 z2 x3 y3 z3 x4 y4 z4,
      kNormalPolygon5LinearY x0 y0 z0 x1 y1 z1 x2 y2 z2 x3 y3 z3 x4 y4 z4,
      kNormalPolygon5LinearZ x0 y0 z0 x1 y1 z1 x2 y2 z2 x3 y3 z3 x4 y4 z4⟩ := by
  rw [KT_normal_polygon5_linear]; kt_dispatch

/-- `normal "polygon" .gaussian`: the traced (un-normalised) vector -/
theorem KT_dispatch_normal_polygon5_gaussian (x0 y0 z0 x1 y1 z1 x2 y2 z2 x3 y3 z3 x4 y4 z4 : ℚ) :
    normal "polygon" .gaussian [⟨x0, y0, z0⟩, ⟨x1, y1, z1⟩, ⟨x2, y2, z2⟩, ⟨x3, y3, z3⟩, ⟨x4, y4, z4⟩]
      = some ⟨kNormalPolygon5GaussianX x0 y0 z0 x1 y1 z1 x2 y2 z2 x3 y3 z3 x4 y4 z4,
      kNormalPolygon5GaussianY x0 y0 z0 x1 y1 z1 x2 y2 z2 x3 y3 z3 x4 y4 z4,
      kNormalPolygon5GaussianZ x0 y0 z0 x1 y1 z1 x2 y2 z2 x3 y3 z3 x4 y4 z4⟩ := by
  rw [KT_normal_polygon5_gaussian]; kt_dispatch

/-- `normal "polygon" .centroid`: the traced (un-normalised) vector -/
theorem KT_dispatch_normal_polygon5_centroid (x0 y0 z0 x1 y1 z1 x2 y2 z2 x3 y3 z3 x4 y4 z4 : ℚ) :
    normal "polygon" .centroid [⟨x0, y0, z0⟩, ⟨x1, y1, z1⟩, ⟨x2, y2, z2⟩, ⟨x3, y3, z3⟩, ⟨x4, y4, z4⟩]
      = some ⟨kNormalPolygon5CentroidX x0 y0 z0 x1 y1 z1 x2 y2 z2 x3 y3 z3 x4 y4 z4,
      kNormalPolygon5CentroidY x0 y0 z0 x1 y1 z1 x2 y2 z2 x3 y3 z3 x4 y4 z4,
      kNormalPolygon5CentroidZ x0 y0 z0 x1 y1 z1 x2 y2 z2 x3 y3 z3 x4 y4 z4⟩ := by
  rw [KT_normal_polygon5_centroid]; kt_dispatch

end Femio.KT
