import Femio.Props.C20
import Femio.Lemmas.C20FluxRun
import Femio.Model.GeomKernels

/-! C20 — the pipeline of `compress()` as a transition system with arbitrary choices
    (`Femio/Model/CompressSteps.lean`): the invariant "closed cells over exactly the listed nodes, volume conserved"
    holds for EVERY run, i.e. whatever clusters, edges and vertices the heuristics choose.
    (Per-step theorems first, then the theorems about whole runs.) -/
namespace Femio.C20
open Faces V3

/-! ### 1. every step keeps the invariant -/

/-- **C20_shrink_inv**: `shrink` keeps every cell closed with simple faces of ≥ 3 nodes; on such a state it only drops
cells (those with fewer than three faces). -/
theorem C20_shrink_inv {cells : List Cell} (h : Inv cells) :
    Inv (shrink cells) ∧ shrink cells = cells.filter fun c => decide (2 < c.length) :=
  ⟨shrink_inv h, shrink_eq_filter h⟩

/-- **C20_merge_step_inv**: `merge_elements` with ANY grouping of the cell indices (repeated or out-of-range indices
included) yields closed cells with simple faces of ≥ 3 nodes. -/
theorem C20_merge_step_inv {cells : List Cell} (h : Inv cells) (groups : List (List Nat)) :
    Inv (groups.map fun g => mergeCells (g.map fun i => cells.getD i [])) :=
  merge_step_inv h groups

/-- **C20_remove_edge_inv**: for ANY edge `A–B` of ANY cell of the invariant, `remove_one_edge_from_polyhedron` either
refuses (`none`, the cell is kept) or returns a closed cell with simple faces of ≥ 3 nodes over nodes of the old cell;
hence one iteration of the edge loop of `remove_edges` on ANY list `ps` of cells keeps the invariant. -/
theorem C20_remove_edge_inv {cells : List Cell} (h : Inv cells) (A B : Nat) (ps : List Nat) :
    (∀ c ∈ cells, ∀ c', removeOneEdge A B c = some c' → CellOK c' ∧ ∀ f' ∈ c', ∀ v ∈ f', v ∈ c.flatten) ∧
    Inv (removeEdgeStep A B ps cells) :=
  ⟨fun c hc c' hr => ⟨removeOneEdge_cellOK (h c hc) hr, removeOneEdge_nodes hr⟩, removeEdgeStep_inv h A B ps⟩

/-- **C20_remove_vertices_2_inv** (= `C20_rv2_assert_never_fires`): on a state of the invariant none of the `assert`s of
`remove_vertices_2` fires (`k >= 3`, `check_polyhedron` after the removal of all nodes with at most two neighbours), and
the result is again a state of the invariant over nodes of the old state. -/
theorem C20_remove_vertices_2_inv {cells : List Cell} (h : Inv cells) :
    ∃ cells', removeVertices2 cells = some cells' ∧ Inv cells' ∧
      ∀ v ∈ cells'.flatten.flatten, v ∈ cells.flatten.flatten := by
  obtain ⟨cells', h1, h2⟩ := removeVertices2_inv h
  exact ⟨cells', h1, h2, removeVertices2_nodesSub h1⟩

/-- the per-cell statement behind it, for ANY set `rm` of nodes each of which has all its neighbours (in this cell) among
two nodes: removing them from every face and dropping the faces left with ≤ 2 nodes keeps the cell closed. -/
theorem C20_rv2_cell {rm : Nat → Bool} {c : Cell} (hc : CellOK c)
    (hrm : ∀ w, rm w = true → ∃ a b, NbrIn (edgesOf c) w a b) : CellOK (rv2Cell rm c) :=
  rv2Cell_cellOK hc hrm

/-- **C20_merge_vertex_inv**: `merge(a, b)` of `merge_vertices` for ANY two nodes keeps every cell closed with simple
faces of ≥ 3 nodes; the nodes afterwards are old nodes or `a`, and `b` is gone (`a ≠ b`). -/
theorem C20_merge_vertex_inv {cells : List Cell} (h : Inv cells) (a b : Nat) :
    Inv (cells.map (mergeVertexCell a b)) ∧
    ∀ c ∈ cells, (∀ v ∈ (mergeVertexCell a b c).flatten, v ∈ c.flatten ∨ v = a) ∧
      (a ≠ b → b ∉ (mergeVertexCell a b c).flatten) :=
  ⟨mergeVertex_inv h a b, fun c hc => ⟨mergeVertexCell_nodes (h c hc) a b, fun hab => mergeVertexCell_not_mem (h c hc) hab⟩⟩

/-- **C20_reindex_inv**: the final renumbering keeps the invariant when every used node is a row of `node_conv`. -/
theorem C20_reindex_inv {cells : List Cell} {conv : List Nat} (h : Inv cells)
    (hr : ∀ v ∈ cells.flatten.flatten, v < conv.length) : Inv (reindex cells conv).cells := by
  obtain ⟨_, _, _, hcells, _, hinj⟩ := C20_nodes_exact cells conv
  rw [hcells]
  intro c' hc'
  obtain ⟨c, hc, rfl⟩ := List.mem_map.mp hc'
  refine ⟨?_, fun f' hf' => ?_⟩
  · rw [edgesOf_map]
    exact bal_map (fun v => ((reindex cells conv).kept.idxOf? v).getD 0) (h c hc).1
  · obtain ⟨f, hf, rfl⟩ := List.mem_map.mp hf'
    have hmem : ∀ v ∈ f, v ∈ cells.flatten.flatten := fun v hv => mem_nodes.mpr ⟨c, hc, f, hf, hv⟩
    refine ⟨List.Nodup.map_on (fun v hv w hw e => ?_) ((h c hc).2 f hf).1, by rw [List.length_map]; exact ((h c hc).2 f hf).2⟩
    exact hinj v (hmem v hv) w (hmem w hw) (hr v (hmem v hv)) (hr w (hmem w hw)) e

/-! ### 2. every run -/

/-- **C20_pipeline_invariant**: from a state of the invariant (`Good`: cells closed with simple faces of ≥ 3 nodes, node
indices are rows of `node_conv`, no used node has been merged away), EVERY finite sequence of operations — any grouping
of cells, any edges on any cells, `remove_vertices_2`, any vertex pairs, `shrink`, in any order — runs without a failing
`assert` and ends in a state of the invariant. -/
theorem C20_pipeline_invariant (ops : List Op) (st : St) (h : Good st) :
    ∃ st', runOps ops st = some st' ∧ Good st' ∧ st'.conv.length = st.conv.length :=
  runOps_good ops st h

/-- **C20_pipeline_output** (clauses (a) and (b) for every run): the output of `compress()` for ANY sequence of choices
consists of closed cells with simple faces of ≥ 3 nodes, and the node indices used by its faces are exactly
`0 … K-1`, `K = len(kept)` the number of listed nodes. -/
theorem C20_pipeline_output (ops : List Op) (st : St) (h : Good st) :
    ∃ r, compressRun ops st = some r ∧ Inv r.cells ∧ ∀ k, k ∈ r.cells.flatten.flatten ↔ k < r.kept.length := by
  obtain ⟨st', hrun, hg, _⟩ := runOps_good ops st h
  refine ⟨reindex st'.cells st'.conv, by simp only [compressRun, hrun, Option.map_some], C20_reindex_inv hg.inv hg.range, ?_⟩
  obtain ⟨_, h2, h3, _⟩ := C20_nodes_exact st'.cells st'.conv
  exact fun k => ⟨fun hk => h2 hg.range k hk, fun hk => h3 k hk⟩

/-- **C20_pipeline_conv**: in that output every listed node `k < K` is the image under the new `node_conv` of an
original node (so no row of the nodal conversion matrix is empty, the hypothesis of `C20_rows_cols_nonempty`), and
`node_conv` has no entry `≥ K`. -/
theorem C20_pipeline_conv (ops : List Op) (st : St) (h : Good st) :
    ∃ r, compressRun ops st = some r ∧ (∀ k < r.kept.length, ∃ v : Nat, r.conv[v]? = some (some k)) ∧
      ∀ (v k : Nat), r.conv[v]? = some (some k) → k < r.kept.length := by
  obtain ⟨st', hrun, hg, _⟩ := runOps_good ops st h
  refine ⟨reindex st'.cells st'.conv, by simp only [compressRun, hrun, Option.map_some], ?_, ?_⟩
  · intro k hk
    obtain ⟨⟨hpw, hmem⟩, _⟩ := C20_nodes_exact st'.cells st'.conv
    have hnd : (reindex st'.cells st'.conv).kept.Nodup := hpw.imp (fun h => Nat.ne_of_lt h)
    set v := (reindex st'.cells st'.conv).kept[k] with hv
    have hvm := (hmem v).mp (List.getElem_mem hk)
    have hroot := chase_fixed st'.conv.length hvm.1 (hg.fixed v hvm.2)
    refine ⟨v, ?_⟩
    have hlen : v < (chase st'.conv.length st'.conv).length := by rw [chase_length]; exact hvm.1
    have hrv : (chase st'.conv.length st'.conv)[v] = v := by
      have := hroot
      rw [List.getD_eq_getElem?_getD, List.getElem?_eq_getElem hlen, Option.getD_some] at this
      exact this
    have hidx : (reindex st'.cells st'.conv).kept.idxOf? v = some k := by
      rw [List.idxOf?_eq_some_iff]
      refine ⟨hk, rfl, fun j hj he => ?_⟩
      have := (hnd.getElem_inj_iff (hi := by omega) (hj := hk)).mp he
      omega
    show (reindex st'.cells st'.conv).conv[v]? = some (some k)
    rw [reindex_conv, List.getElem?_map, List.getElem?_eq_getElem hlen, hrv, Option.map_some,
      if_pos (List.contains_iff_mem.mpr hvm.2)]
    exact congrArg some hidx
  · intro v k hvk
    rw [reindex_conv, List.getElem?_map] at hvk
    cases hp : (chase st'.conv.length st'.conv)[v]? with
    | none => rw [hp] at hvk; simp at hvk
    | some p =>
      rw [hp, Option.map_some] at hvk
      have hvk' := Option.some.inj hvk
      split at hvk'
      · exact (List.idxOf?_eq_some_iff.mp hvk').1
      · cases hvk'

/-- the polyhedron volume kernel of C11 (`_calculate_element_volumes_polyhedron_core`, 6·V) is the flux used here -/
theorem C20_cellFlux_eq_polyFan6 {R : Type} [CommRing R] (pos : Nat → V3 R) (c : Cell) :
    cellFlux pos c = Femio.C11.polyFan6 (c.map fun f => f.map pos) := by
  unfold cellFlux Femio.C11.polyFan6
  rw [List.map_map]
  congr 1
  apply List.map_congr_left
  intro f _
  simp only [Function.comp, faceFlux]
  cases hf : f.map pos with
  | nil => rfl
  | cons a rest =>
    show fanAux a rest = ((Femio.C11.consecPairs rest).map fun (b, c) => V3.det a b c).sum
    clear hf
    induction rest with
    | nil => rfl
    | cons b t ih =>
      cases t with
      | nil => rfl
      | cons c t =>
        rw [fanAux, ih]
        simp [Femio.C11.consecPairs]

/-- **C20_pipeline_flux** (clause (c) for every run): if all faces of the initial cells are planar, cells are merged
along partitions, faces are merged along an edge only when the two faces are coplanar, and no vertices are merged
(`FluxRun`), then EVERY such run conserves the total flux `Σ cells 6·V` (femio's polyhedron kernel), all faces stay
planar, and `node_conv` is untouched.  `remove_vertices_2` and `shrink` need no hypothesis: under planar faces they
conserve the flux by themselves. -/
theorem C20_pipeline_flux {R : Type} [CommRing R] (pos : Nat → V3 R) (ops : List Op) (st : St) (h : Good st)
    (hcop : AllCop pos st.cells) (hrun : FluxRun pos ops st) :
    ∃ st', runOps ops st = some st' ∧ Good st' ∧ totalFlux pos st'.cells = totalFlux pos st.cells ∧
      AllCop pos st'.cells ∧ st'.conv = st.conv :=
  runOps_flux pos ops st h hcop hrun

/-- **C20_pipeline_output_flux**: … and so does the renumbered output, the new node `k` sitting where the old node
`kept[k]` sat (what `recalc_node_pos` computes when no vertices were merged). -/
theorem C20_pipeline_output_flux {R : Type} [CommRing R] (pos : Nat → V3 R) (ops : List Op) (st : St) (h : Good st)
    (hcop : AllCop pos st.cells) (hrun : FluxRun pos ops st) :
    ∃ r, compressRun ops st = some r ∧
      totalFlux (fun k => pos (r.kept.getD k 0)) r.cells = totalFlux pos st.cells := by
  obtain ⟨st', hr, hg, hflux, _, _⟩ := runOps_flux pos ops st h hcop hrun
  refine ⟨reindex st'.cells st'.conv, by simp only [compressRun, hr, Option.map_some], ?_⟩
  obtain ⟨_, _, _, hcells, hspec, _⟩ := C20_nodes_exact st'.cells st'.conv
  rw [hcells, ← hflux]
  apply map_flux
  intro v hv
  obtain ⟨hlt, hget⟩ := hspec v hv (hg.range v hv)
  show pos ((reindex st'.cells st'.conv).kept.getD _ 0) = pos v
  rw [List.getD_eq_getElem?_getD, List.getElem?_eq_getElem hlt, Option.getD_some, hget]

/-- the three per-step flux statements the run theorem is made of -/
theorem C20_step_flux {R : Type} [CommRing R] (pos : Nat → V3 R) {cells : List Cell} (h : Inv cells)
    (hcop : AllCop pos cells) :
    (∀ groups : List (List Nat), groups.flatten.Perm (List.range cells.length) →
      totalFlux pos (groups.map fun g => mergeCells (g.map fun i => cells.getD i [])) = totalFlux pos cells) ∧
    (∀ cells', removeVertices2 cells = some cells' → totalFlux pos cells' = totalFlux pos cells) ∧
    totalFlux pos (shrink cells) = totalFlux pos cells ∧
    (∀ c ∈ cells, ∀ A B c', (∀ f1 ∈ c, ∀ f2 ∈ c, hasE A B f1 = true → hasE B A f2 = true → Cop pos (f1 ++ f2)) →
      removeOneEdge A B c = some c' → cellFlux pos c' = cellFlux pos c) :=
  ⟨fun groups hp => merge_step_flux pos h hcop groups hp,
   fun cells' hr => (removeVertices2_flux pos h hcop hr).1,
   shrink_flux pos h hcop,
   fun c hc A B c' hm hr => (removeOneEdge_flux pos (h c hc) (hcop c hc) hm hr).1⟩

/-! ### 3. non-vacuity: concrete runs -/

/-- two tetrahedra glued along {1,2,3}; the nodes 0, 1, 2, 4 lie in the plane z = 0 -/
def twoTetSt : St := ⟨twoTetCells, [0, 1, 2, 3, 4]⟩
def twoTetPos : Nat → V3 Int := fun v => match v with
  | 0 => ⟨0, 0, 0⟩ | 1 => ⟨1, 0, 0⟩ | 2 => ⟨0, 1, 0⟩ | 3 => ⟨0, 0, 1⟩ | _ => ⟨1, 1, 0⟩

/-- merge the two cells, merge the coplanar faces [4,1,2] and [0,2,1] along 1–2, remove_vertices_2, shrink -/
def twoTetOps : List Op := [.merge [[0, 1]], .removeEdge 1 2 [0], .removeVertices2, .shrink]

example : goodB twoTetSt = true ∧
    (runOps twoTetOps twoTetSt).map (·.cells) = some [[[3,0,1],[3,2,0],[4,3,1],[4,2,3],[0,2,4,1]]] := by decide

example : Good twoTetSt := goodB_sound (by decide)

example : AllCop twoTetPos twoTetSt.cells := by unfold AllCop Cop; decide

example : totalFlux twoTetPos twoTetSt.cells = 2 ∧
    totalFlux twoTetPos [[[3,0,1],[3,2,0],[4,3,1],[4,2,3],[0,2,4,1]]] = 2 := by decide

/-- a tetrahedron with an extra node 4 on the edge 0–1: `remove_vertices_2` removes it -/
def hangSt : St := ⟨[[[0,2,1,4],[3,0,4,1],[3,2,0],[3,1,2]]], [0, 1, 2, 3, 4]⟩
def hangPos : Nat → V3 Int := fun v => match v with
  | 0 => ⟨0, 0, 0⟩ | 1 => ⟨2, 0, 0⟩ | 2 => ⟨0, 2, 0⟩ | 3 => ⟨0, 0, 2⟩ | _ => ⟨1, 0, 0⟩

example : goodB hangSt = true ∧ canRm hangSt.cells 4 = true ∧ canRm hangSt.cells 0 = false ∧
    removeVertices2 hangSt.cells = some [[[0,2,1],[3,0,1],[3,2,0],[3,1,2]]] := by decide

example : AllCop hangPos hangSt.cells ∧ totalFlux hangPos hangSt.cells = 8 ∧
    totalFlux hangPos [[[0,2,1],[3,0,1],[3,2,0],[3,1,2]]] = 8 := by unfold AllCop Cop; decide

/-- `merge(0, 4)` on that cell: the two faces through the edge lose a node, the cell stays closed -/
example : (hangSt.cells.map (mergeVertexCell 0 4)) = [[[0,2,1],[0,1,3],[3,2,0],[3,1,2]]] ∧
    ((step hangSt (.mergeVertex 0 4)).map (·.conv)) = some [0, 1, 2, 3, 0] := by decide

/-- the volume clause needs its coplanarity hypothesis: merging the non-coplanar faces `[3,1,2]`, `[0,2,1]` of a
tetrahedron along 1–2 is accepted by `remove_one_edge_from_polyhedron` and keeps the cell closed, but changes the flux -/
example : (removeOneEdge 1 2 [[0,2,1],[3,0,1],[3,2,0],[3,1,2]]) = some [[3,0,1],[3,2,0],[0,2,3,1]] ∧
    cellFlux twoTetPos [[0,2,1],[3,0,1],[3,2,0],[3,1,2]] = 1 ∧
    cellFlux twoTetPos [[3,0,1],[3,2,0],[0,2,3,1]] = 0 := by decide

end Femio.C20
