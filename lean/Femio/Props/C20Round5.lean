import Femio.Props.C20Pipeline

/-! # C20, round 5: the dtype of the transferred field and the vertex -> cell table of `merge_vertices`

* `kind="sum"` whose result is cast back to the integer dtype of the source field does not conserve the total
  (`C20_sum_truncation_counterexample`); the documented transfer does (`C20_sum_total`).
* `kind="mean"` whose row sum is accumulated in a narrow unsigned dtype (`mat @ x` with a bool matrix and a uint8 field)
  equals the documented mean exactly when no row sum reaches `2^bits` (`C20_mean_wrap_eq`), and does not keep the constant
  100 over three related entries in 8 bits, nor `True` over two in a bool (`C20_mean_narrow_accumulation_counterexample`).
* `merge(a, b)` of `merge_vertices` rewrites only the cells listed for `a` and `b` in a table built ONCE per sweep.
  With a table that lists every cell a node occurs in this is the rewrite of all cells (`C20_merge_via_table_eq`); a merge
  keeps the table valid for every node except the survivor `a` (`C20_table_valid_after_merge`) - which is why the code
  marks BOTH ends as done.  Merging the survivor again within the sweep leaves a cell that uses a node that has been
  merged away (`C20_stale_table_counterexample`). -/

namespace Femio.C20

/-! ### 1. dtype of the field -/

/-- cast of a rational to an integer dtype: truncation toward zero (`ndarray.astype(int64)`) -/
def truncRat (q : Rat) : Rat := if q < 0 then -(((-q).floor : Int) : Rat) else ((q.floor : Int) : Rat)

/-- `kind="sum"` followed by a cast of every entry to the integer dtype of the source field -/
def transferSumTrunc (m : Mat) (x : Nat → Rat) : List Rat := (transferSum m x).map truncRat

/-- **C20_sum_truncation_counterexample**: counts (3, 5, 2) on three nodes, two compressed nodes related to nodes {0,1}
and {1,2}: the documented 'sum' gives (11/2, 9/2), total 10; cast to an integer dtype it gives (5, 4), total 9. -/
theorem C20_sum_truncation_counterexample :
    let m : Mat := ⟨3, [[0,1],[1,2]]⟩
    let x : Nat → Rat := fun i => [3, 5, 2].getD i 0
    transferSum m x = [11/2, 9/2] ∧ sumL (transferSum m x) = sumL ((List.range m.ncols).map x) ∧
    transferSumTrunc m x = [5, 4] ∧ sumL (transferSumTrunc m x) ≠ sumL ((List.range m.ncols).map x) := by
  decide +kernel

/-- natural-number row sum -/
def sumN : List Nat → Nat := fun l => l.foldr (· + ·) 0

/-- `kind="mean"` on an unsigned integer field of `bits` bits when `mat @ x` accumulates in the dtype of the field -/
def transferMeanWrap (bits : Nat) (m : Mat) (x : Nat → Nat) : List Rat :=
  m.rows.map fun r => ((sumN (r.map x) % 2 ^ bits : Nat) : Rat) / (r.length : Rat)

/-- … on a bool field: the sum of bools is their disjunction -/
def transferMeanOr (m : Mat) (x : Nat → Bool) : List Rat :=
  m.rows.map fun r => (if r.any x then 1 else 0 : Rat) / (r.length : Rat)

theorem sumL_cast (r : List Nat) (x : Nat → Nat) : sumL (r.map fun j => (x j : Rat)) = ((sumN (r.map x) : Nat) : Rat) := by
  induction r with
  | nil => simp [sumL, sumN]
  | cons a t ih =>
    simp only [sumL, sumN, List.map_cons, List.foldr_cons] at ih ⊢
    rw [ih]; push_cast; rfl

/-- **C20_mean_wrap_eq**: when no row sum reaches `2^bits` the accumulation in the narrow dtype is the documented mean. -/
theorem C20_mean_wrap_eq (bits : Nat) (m : Mat) (x : Nat → Nat) (h : ∀ r ∈ m.rows, sumN (r.map x) < 2 ^ bits) :
    transferMeanWrap bits m x = transferMean m (fun j => (x j : Rat)) := by
  unfold transferMeanWrap transferMean
  apply List.map_congr_left
  intro r hr
  rw [Nat.mod_eq_of_lt (h r hr), sumL_cast]

example : (∀ r ∈ (⟨3, [[0,1,2],[1]]⟩ : Mat).rows, sumN (r.map fun _ => 80) < 2 ^ 8) ∧
    transferMeanWrap 8 ⟨3, [[0,1,2],[1]]⟩ (fun _ => 80) = [80, 80] := by decide +kernel

/-- **C20_mean_narrow_accumulation_counterexample**: the constant 100 over three related entries: 300 mod 256 = 44, mean 44/3;
`True` over two related entries: `True or True` = 1, mean 1/2.  The documented mean keeps both constants. -/
theorem C20_mean_narrow_accumulation_counterexample :
    let m : Mat := ⟨3, [[0,1,2]]⟩
    transferMean m (fun _ => 100) = [100] ∧ transferMeanWrap 8 m (fun _ => 100) = [44/3] ∧
    transferMean ⟨2, [[0,1]]⟩ (fun _ => 1) = [1] ∧ transferMeanOr ⟨2, [[0,1]]⟩ (fun _ => true) = [1/2] := by
  decide +kernel

/-! ### 2. the vertex -> cell table of one sweep of `merge_vertices` -/

/-- `merge(a, b)` as coded: only the cells listed for `a` or `b` in the table `vp` (built once per sweep) are rewritten -/
def mergeVertexVia (vp : Nat → List Nat) (a b : Nat) (cells : List Cell) : List Cell :=
  cells.mapIdx fun p c => if p ∈ vp a ∨ p ∈ vp b then mergeVertexCell a b c else c

/-- the table lists, for the node `v`, every cell `v` occurs in (it may list more) -/
def TableValidAt (vp : Nat → List Nat) (cells : List Cell) (v : Nat) : Prop :=
  ∀ p (h : p < cells.length), v ∈ (cells[p]).flatten → p ∈ vp v

/-- **C20_merge_via_table_eq**: with a table that is valid for both ends, rewriting the listed cells is rewriting all cells
(what `Op.mergeVertex` of the pipeline model does, `C20_merge_vertex_inv`). -/
theorem C20_merge_via_table_eq (vp : Nat → List Nat) (a b : Nat) (cells : List Cell)
    (ha : TableValidAt vp cells a) (hb : TableValidAt vp cells b) :
    mergeVertexVia vp a b cells = cells.map (mergeVertexCell a b) := by
  unfold mergeVertexVia
  apply List.ext_getElem
  · simp
  · intro p h1 h2
    simp only [List.getElem_mapIdx, List.getElem_map]
    have hp : p < cells.length := by simpa using h1
    split
    · rfl
    · rename_i hn
      rw [not_or] at hn
      exact (mergeVertexCell_id (fun h => hn.1 (ha p hp h)) (fun h => hn.2 (hb p hp h))).symm

/-- **C20_table_valid_after_merge**: `merge(a, b)` keeps the table valid for every node other than the survivor `a`
(a merge introduces no node but `a` into a cell) - for `a` itself it does not: `a` enters the cells of `b`.  Hence both
ends of a merged edge must be closed for the rest of the sweep (`done[a] = done[b] = 1`). -/
theorem C20_table_valid_after_merge (vp : Nat → List Nat) (a b : Nat) {cells : List Cell} (h : Inv cells)
    {v : Nat} (hv : v ≠ a) (hval : TableValidAt vp cells v) :
    TableValidAt vp (cells.map (mergeVertexCell a b)) v := by
  intro p hp hmem
  have hp' : p < cells.length := by simpa using hp
  rw [List.getElem_map] at hmem
  rcases mergeVertexCell_nodes (h _ (List.getElem_mem hp')) a b v hmem with h1 | h1
  · exact hval p hp' h1
  · exact absurd h1 hv

/-- table of a list of cells: the indices of the cells a node occurs in -/
def tableOf (cells : List Cell) (v : Nat) : List Nat :=
  (List.range cells.length).filter fun p => (cells.getD p []).flatten.contains v

/-- **C20_stale_table_counterexample**: three tetrahedra, `c1 = 0 1 5 6`, `c2 = 1 2 3 4` (contains node 1, not node 0) and
`c3 = 0 5 7 8`; the table is built once.  `merge(0, 1)` through the fresh table is the rewrite of all cells: node 1
disappears and node 0 enters `c2`.  If node 0 is not closed for the rest of the sweep and `merge(5, 0)` follows through the
SAME table, only the cells listed for 5 and for 0 (`c1`, `c3`) are rewritten: `c2` keeps using node 0 although node 0 has
been merged into node 5 (`node_conv[0] = 5`), whereas the rewrite of all cells removes it.  After `reindex` such a cell
refers to a node to which no input node maps. -/
theorem C20_stale_table_counterexample :
    let c1 : Cell := [[0,1,5],[1,0,6],[0,5,6],[5,1,6]]          -- tetrahedron 0 1 5 6
    let c2 : Cell := [[1,2,3],[2,1,4],[1,3,4],[3,2,4]]          -- tetrahedron 1 2 3 4: contains 1, not 0
    let c3 : Cell := [[0,5,7],[5,0,8],[0,7,8],[7,5,8]]          -- tetrahedron 0 5 7 8: contains 0 and 5, not 1
    let cells := [c1, c2, c3]
    let vp := tableOf cells
    -- first merge: 1 -> 0, with the fresh table (valid): the second cell now uses node 0
    let s1 := mergeVertexVia vp 0 1 cells
    -- second merge IN THE SAME SWEEP: 0 -> 5 through the stale table: cell 2 is not listed for 0 nor for 5
    let s2 := mergeVertexVia vp 5 0 s1
    let s2' := s1.map (mergeVertexCell 5 0)
    s1 = cells.map (mergeVertexCell 0 1) ∧ vp 0 = [0, 2] ∧ vp 5 = [0, 2] ∧
    (0 ∈ (s2.getD 1 []).flatten) ∧ (0 ∉ (s2'.getD 1 []).flatten) ∧ s2 ≠ s2' := by
  decide +kernel

end Femio.C20
