import Femio.Driver.Proto
import Femio.Model.Compress
/-! driver commands for C20 (mesh compression)

```
flat := list nat                                   -- femio's record [m, k_1, v…, k_2, v…]
c20.check_cell <flat>
   -> ok <parsed> <check_polyhedron> <checkCell> <balanced> <nodes: list nat>
c20.merge      <cells: list flat>                  -- one face-connected group, in cell order
   -> ok <faces: list (list nat)>
c20.remove_edge <A> <B> <flat>
   -> ok 0 | ok 1 <faces: list (list nat)>
c20.reindex    <cells: list flat> <conv: list nat>
   -> ok <conv': list int> <kept: list nat> <cells: list (list (list nat))>
c20.transfer   <mean|sum> <ncols> <rows: list (list nat)> <f> <x: ncols × f rats, row major>
   -> ok <M*f rats, row major>
c20.transfer   sumbroadcast <ncols> <rows> 1 <x: ncols rats>
   -> ok <M*ncols rats, row major>                 -- the unrepaired `x / mat.sum(axis=0)` broadcast
``` -/
namespace Femio.C20
open Femio.Proto

def showFaces (fs : List (List Nat)) : String := showList (fun f => showList toString f) fs

def cellsP : P (List Cell) := do
  let flats ← listOf (listOf nat)
  match flats.mapM parseCell with
  | some cs => pure cs
  | none => failure

def handle : List String → Option String
  | "c20.check_cell" :: rest => do
    let flat ← run (listOf nat) rest
    match parseCell flat with
    | none => some "ok 0 0 0 0 0"
    | some c =>
      some s!"ok 1 {showBool (checkPolyhedron c)} {showBool (checkCell c)} {showBool (balancedCell c)} {showList toString (cellNodes c)}"
  | "c20.merge" :: rest => do
    let cells ← run cellsP rest
    some ("ok " ++ showFaces (mergeCells cells))
  | "c20.remove_edge" :: rest => do
    let (a, b, flat) ← run (do let a ← nat; let b ← nat; let f ← listOf nat; pure (a, b, f)) rest
    let c ← parseCell flat
    match removeEdge a b c with
    | none => some "ok 0"
    | some c' => some ("ok 1 " ++ showFaces c')
  | "c20.reindex" :: rest => do
    let (cells, conv) ← run (do let cs ← cellsP; let conv ← listOf nat; pure (cs, conv)) rest
    let r := reindex cells conv
    let showO : Option Nat → String := fun o => match o with | none => "-1" | some n => toString n
    some s!"ok {showList showO r.conv} {showList toString r.kept} {showList showFaces r.cells}"
  | "c20.transfer" :: kind :: rest => do
    let (ncols, rows, f, xs) ← run (do
      let ncols ← nat; let rows ← listOf (listOf nat); let f ← nat
      let rec go : Nat → P (List Rat)
        | 0 => pure []
        | k + 1 => do let a ← rat; let r ← go k; pure (a :: r)
      let xs ← go (ncols * f)
      pure (ncols, rows, f, xs)) rest
    let xa := xs.toArray
    let m : Mat := ⟨ncols, rows⟩
    let col (k : Nat) : Nat → Rat := fun j => xa.getD (j * f + k) 0
    if kind = "mean" ∨ kind = "sum" then
      let cols := (List.range f).map fun k => (if kind = "mean" then transferMean m (col k) else transferSum m (col k)).toArray
      let out := (List.range rows.length).flatMap fun i => cols.map fun c => c.getD i 0
      some ("ok " ++ String.intercalate " " (out.map showRat))
    else if kind = "sumbroadcast" ∧ f = 1 then
      some ("ok " ++ String.intercalate " " ((transferSumBroadcast m (col 0)).flatten.map showRat))
    else none
  | _ => none

end Femio.C20
