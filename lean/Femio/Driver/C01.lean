import Femio.Driver.Proto
import Femio.Model.FistrMsh
import Femio.Model.FistrCanon
import Femio.Model.FistrSections
/-! driver commands for C01 (FrontISTR `.msh`)

```
c01.write <mshin>            -> ok 1 <list line> | ok 0          (0: the model says the writer raises)
c01.read <bang> <merge> <list line> -> ok 1 <mshread> | ok 0   (0: raises / outside the model; flags = ReadCfg)
c01.canon <mshin>            -> ok <wf> <mshread>   (wf = decide (Femio.C01.WF m), mshread = Femio.C01.canon m: hypothesis
                                and right-hand side of theorem C01_roundtrip)
c01.secmat list(bool str str) list(str sci sci) -> ok <list line>   (section + material lines of several sections)
c01.assign <bang> <merge> <list line> -> ok 1 list(id list(dec)) | ok 0   (Femio.Fistr.assignOfRead of the text read by the
                                model reader: the reader's resolution of materials onto elements; 0: raises)
mshin  := list(node) list(block) bool list(group) opt(sec) opt(list(id sci))
node   := id list(sci)           sci := bool nat int             block := ty list(id list(nat))
group  := str list(nat)          sec := bool str str sci sci
mshread:= list(id list(dec)) list(ty list(id list(nat))) list(group) list(group)
          list(str str str) list(str list(dec)) list(str list(id list(dec)))      dec := bool nat int
``` -/
namespace Femio.C01
open Femio.Proto Femio.Fistr

def sciP : P Sci := do let n ← bool; let m ← nat; let e ← int; pure ⟨n, m, e⟩
def rowP : P (Nat × List Nat) := do let i ← nat; let c ← listOf nat; pure (i, c)
def groupP : P (Name × List Nat) := do let n ← str; let c ← listOf nat; pure (n, c)
def secP : P SecIn := do
  let sh ← bool; let g ← str; let m ← str; let y ← sciP; let p ← sciP; pure ⟨sh, g, m, y, p⟩

def mshInP : P MshIn := do
  let nodes ← listOf (do let i ← nat; let c ← listOf sciP; pure (i, c))
  let blocks ← listOf (do let t ← nat; let r ← listOf rowP; pure (t, r))
  let hasAll ← bool
  let groups ← listOf groupP
  let sec ← optOf secP
  let temp ← optOf (listOf (do let i ← nat; let s ← sciP; pure (i, s)))
  pure ⟨nodes, blocks, hasAll, groups, sec, temp⟩

def showLines (ls : List Line) : String := showList escape ls
def showDec (d : Dec) : String := s!"{showBool d.neg} {d.m} {d.e}"
def showNats (l : List Nat) : String := showList toString l
def showGroup (g : Name × List Nat) : String := escape g.1 ++ " " ++ showNats g.2
def showRowD (r : Nat × List Dec) : String := s!"{r.1} " ++ showList showDec r.2

def showRead (r : MshRead) : String :=
  String.intercalate " " [
    showList showRowD r.nodes,
    showList (fun (b : Nat × List (Nat × List Nat)) => s!"{b.1} " ++ showList (fun (e : Nat × List Nat) => s!"{e.1} " ++ showNats e.2) b.2) r.elems,
    showList showGroup r.ngroups,
    showList showGroup r.egroups,
    showList (fun (s : Name × Name × Name) => escape s.1 ++ " " ++ escape s.2.1 ++ " " ++ escape s.2.2) r.sections,
    showList (fun (m : Name × List Dec) => escape m.1 ++ " " ++ showList showDec m.2) r.materials,
    showList (fun (n : Name × List (Nat × List Dec)) => escape n.1 ++ " " ++ showList showRowD n.2) r.nodal]

def handle : List String → Option String
  | "c01.write" :: rest => do
    let m ← run mshInP rest
    match writeMsh m with
    | some ls => some ("ok 1 " ++ showLines ls)
    | none => some "ok 0"
  | "c01.canon" :: rest => do
    let m ← run mshInP rest
    some ("ok " ++ showBool (decide (WF m)) ++ " " ++ showRead (canon m))
  | "c01.read" :: rest => do
    let (bang, merge, ls) ← run (do let b ← bool; let m ← bool; let l ← listOf str; pure (b, m, l)) rest
    match readMshCfg ⟨bang, merge⟩ ls with
    | some r => some ("ok 1 " ++ showRead r)
    | none => some "ok 0"
  | "c01.secmat" :: rest => do
    let (secs, mats) ← run (do
      let s ← listOf (do let sh ← bool; let g ← str; let m ← str; pure (sh, g, m))
      let m ← listOf (do let n ← str; let y ← sciP; let p ← sciP; pure (n, y, p))
      pure (s, m)) rest
    some ("ok " ++ showLines (secMatLines secs mats))
  | "c01.assign" :: rest => do
    let (bang, merge, ls) ← run (do let b ← bool; let m ← bool; let l ← listOf str; pure (b, m, l)) rest
    match (readMshCfg ⟨bang, merge⟩ ls).bind assignOfRead with
    | some r => some ("ok 1 " ++ showList showRowD r)
    | none => some "ok 0"
  | _ => none

end Femio.C01
