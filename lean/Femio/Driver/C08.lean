import Femio.Driver.Mesh
import Femio.Model.Attr
/-! driver commands for C08 (stateless: every request carries the model state)

```
val   := n | rat                     row := list(val)          rows := list(row)
state := list(id) rows(data) rows(frame) opt(list(id nat))
c08.new  <withIndex> list(id) rows                    -> ok <err> <state>
c08.step <sync> <ovw> <reidx> <state> <op>            -> ok <err> <state>     (err: ok | value_error | key_error | other)
  op := setData rows | update list(id) rows <ow> | locWrite list(id) rows | ilocWrite list(nat) rows
      | overwrite rows | overwriteIds list(id) rows
c08.flatten list(block)                               -> ok list(id ty list(id))
hist  := <state> list(state) <nrefs> list(opt(list(nat)))
c08.hstep <sync> <ovw> <reidx> <ilocLabel> <sliceOwnsData> <hist> <hop>   -> ok <err> <hist>
  hop := pub <op> | keepRef | take list(id) | takeI list(nat) | heldSet <k> rows | heldUpdate <k> list(id) rows | drop <k>
       | takeI1 <k> | takeView list(nat)
c08.cfilter list(state) list(id)                      -> ok opt(list(rows)) opt(<common length>)
c08.csetattr list(state) rows                         -> ok <err> <state>
``` -/
namespace Femio.C08D
open Femio.Proto Attr

def valP : P Val := do
  match (← get) with
  | "n" :: ts => set ts; pure none
  | _ => some <$> rat
def rowsP : P (List Row) := listOf (listOf valP)
def stateP : P State := do
  let ids ← listOf nat; let data ← rowsP; let frame ← rowsP
  let idx ← optOf (listOf (do let a ← nat; let b ← nat; pure (a, b)))
  pure ⟨ids, frame, data, idx⟩

def showVal : Val → String | none => "n" | some q => showRat q
def showRows (rs : List Row) : String := showList (showList showVal) rs
def showState (s : State) : String :=
  s!"{showList toString s.ids} {showRows s.data} {showRows s.frame} {showOpt (showList fun (a, b) => s!"{a} {b}") s.id2index}"

def showErr : Err → String | .valueError => "value_error" | .keyError => "key_error" | .other => "other"
def reply (s : State) : Except Err State → String
  | .ok t => s!"ok ok {showState t}"
  | .error e => s!"ok {showErr e} {showState s}"

def opP : P Op := do
  let t ← tok
  match t with
  | "setData" => Op.setData <$> rowsP
  | "update" => do let i ← listOf nat; let r ← rowsP; let ow ← bool; pure (.update i r ow)
  | "locWrite" => do let i ← listOf nat; let r ← rowsP; pure (.locWrite i r)
  | "ilocWrite" => do let i ← listOf nat; let r ← rowsP; pure (.ilocWrite i r)
  | "overwrite" => Op.overwrite <$> rowsP
  | "overwriteIds" => do let i ← listOf nat; let r ← rowsP; pure (.overwriteIds i r)
  | _ => failure

def histP : P Hist := do
  let cur ← stateP; let held ← listOf stateP; let refs ← nat; let vws ← listOf (optOf (listOf nat))
  pure ⟨cur, held, refs, vws⟩
def showHist (h : Hist) : String :=
  s!"{showState h.cur} {showList showState h.held} {h.refs} {showList (showOpt (showList toString)) h.vws}"

def hopP : P HOp := do
  let t ← tok
  match t with
  | "pub" => HOp.pub <$> opP
  | "keepRef" => pure .keepRef
  | "take" => HOp.take <$> listOf nat
  | "takeI" => HOp.takeI <$> listOf nat
  | "heldSet" => do let k ← nat; let r ← rowsP; pure (.heldSet k r)
  | "heldUpdate" => do let k ← nat; let i ← listOf nat; let r ← rowsP; pure (.heldUpdate k i r)
  | "drop" => HOp.drop <$> nat
  | "takeI1" => HOp.takeI1 <$> nat
  | "takeView" => HOp.takeView <$> listOf nat
  | _ => failure

def handle : List String → Option String
  | "c08.new" :: rest => do
    let (wi, ids, rows) ← run (do let wi ← bool; let i ← listOf nat; let r ← rowsP; pure (wi, i, r)) rest
    some (reply ⟨[], [], [], none⟩ (mk ids rows wi))
  | "c08.step" :: rest => do
    let (cfg, s, op) ← run (do
      let a ← bool; let b ← bool; let c ← bool; let s ← stateP; let op ← opP; pure ((⟨a, b, c, true, true⟩ : Cfg), s, op)) rest
    let r := stepE cfg s op
    -- consistency of the driver with the function the theorems are about
    let s' := step cfg s op
    let chk := match r with | .ok t => t == s' | .error _ => s == s'
    if chk then some (reply s r) else some "err model-inconsistent"
  | "c08.flatten" :: rest => do
    let bs ← run (listOf blockP) rest
    let flat := Core.flatten (bs.map (·.2))
    some ("ok " ++ showList (fun (e : Core.Elem) => s!"{e.id} {e.ty} {showList toString e.conn}") flat)
  | "c08.hstep" :: rest => do
    let (cfg, h, op) ← run (do
      let a ← bool; let b ← bool; let c ← bool; let d ← bool; let e ← bool; let h ← histP; let op ← hopP
      pure ((⟨a, b, c, d, e⟩ : Cfg), h, op)) rest
    let (e, h') := hstepE cfg h op
    some s!"ok {match e with | none => "ok" | some e => showErr e} {showHist h'}"
  | "c08.cfilter" :: rest => do
    let (c, sel) ← run (do let c ← listOf stateP; let sel ← listOf nat; pure (c, sel)) rest
    some ("ok " ++ showOpt (showList showRows) (collFilter c sel) ++ " " ++ showOpt toString (collLength c))
  | "c08.csetattr" :: rest => do
    let (c, v) ← run (do let c ← listOf stateP; let v ← rowsP; pure (c, v)) rest
    some (reply ⟨[], [], [], none⟩ (collSetAttr c v))
  | _ => none

end Femio.C08D
