import Femio.Driver.Proto
import Femio.Model.Search
/-! driver commands for C16 (spatial searches)

```
p3   := rat rat rat
box  := p3 rat                                   -- centre, half width (node_xyzw[0])
c16.knn       <box> <depth> <k> <bound2: opt rat> <targets: list p3> <queries: list p3>
   -> ok <queue emptied: bool> <nq> row_1 … row_nq      row := k × ( idx d2 vx vy vz | -1 )
c16.hausdorff <box> <depth> <A: list p3> <B: list p3>
   -> ok <hd2 A→B> <hd2 B→A> <#leaves A> <#leaves B>
c16.leaf      <box> <depth> <pts: list p3>
   -> ok <n> path_1 … path_n                              path := depth digits (the leaf each point is stored in)
c16.hop       <mode: nodal|elemental> <V> <thr2: rat> <elements: list (list nat)> <pos: list p3>
   -> ok <n> r c r c …                                    (sorted pairs)
``` -/
namespace Femio.C16
open Femio.Proto

def p3P : P P3 := do let x ← rat; let y ← rat; let z ← rat; pure ⟨x, y, z⟩
def boxP : P Box := do let c ← p3P; let w ← rat; pure ⟨c, w⟩

def ptOf (a : Array P3) : Nat → P3 := fun i => a.getD i ⟨0, 0, 0⟩

def showHit : Option Hit → String
  | none => "-1"
  | some h => s!"{h.idx} {showRat h.d2} {showRat h.vec.x} {showRat h.vec.y} {showRat h.vec.z}"

def handle : List String → Option String
  | "c16.knn" :: rest => do
    let (root, depth, k, bound, ts, qs) ← run (do
      let root ← boxP; let depth ← nat; let k ← nat; let bound ← optOf rat
      let ts ← listOf p3P; let qs ← listOf p3P
      pure (root, depth, k, bound, ts, qs)) rest
    let pt := ptOf ts.toArray
    let t := build pt depth root (List.range ts.length)
    let fuel := t.size
    let runs := qs.map fun q => (q, knnRun pt k bound root t q fuel)
    let okq := runs.all fun r => r.2.queue.isEmpty
    let rows := runs.map fun r => String.intercalate " " ((knnOut pt k r.1 r.2.res).map showHit)
    some ("ok " ++ showBool okq ++ " " ++ toString qs.length ++ (if rows.isEmpty then "" else " " ++ String.intercalate " " rows))
  | "c16.knnsweep" :: rest => do
    -- same as c16.knn for a list of (k, bound2) pairs over ONE tree:  … <targets> <queries> <combos: list (k optrat)>
    -- reply: ok <queue emptied> then, per combo, the rows of c16.knn (nq rows of k entries)
    let (root, depth, ts, qs, combos) ← run (do
      let root ← boxP; let depth ← nat
      let ts ← listOf p3P; let qs ← listOf p3P
      let combos ← listOf (do let k ← nat; let b ← optOf rat; pure (k, b))
      pure (root, depth, ts, qs, combos)) rest
    let pt := ptOf ts.toArray
    let t := build pt depth root (List.range ts.length)
    let fuel := t.size
    let outs := combos.map fun (k, bound) =>
      let runs : List (P3 × CSt) := qs.map fun q => (q, knnRun pt k bound root t q fuel)
      (runs.all fun (r : P3 × CSt) => r.2.queue.isEmpty,
       String.intercalate " " (runs.flatMap fun (r : P3 × CSt) => (knnOut pt k r.1 r.2.res).map showHit))
    some ("ok " ++ showBool (outs.all (·.1)) ++ " " ++ String.intercalate " " (outs.map (·.2)))
  | "c16.hausdorff" :: rest => do
    let (root, depth, as, bs) ← run (do
      let root ← boxP; let depth ← nat; let as ← listOf p3P; let bs ← listOf p3P
      pure (root, depth, as, bs)) rest
    let pa := ptOf as.toArray
    let pb := ptOf bs.toArray
    let tA := build pa depth root (List.range as.length)
    let tB := build pb depth root (List.range bs.length)
    let ab := hausDirectedT pa pb root tA tB
    let ba := hausDirectedT pb pa root tB tA
    some s!"ok {showRat ab} {showRat ba} {(leavesOf root tA).length} {(leavesOf root tB).length}"
  | "c16.leaf" :: rest => do
    let (root, depth, ps) ← run (do
      let root ← boxP; let depth ← nat; let ps ← listOf p3P
      pure (root, depth, ps)) rest
    some ("ok " ++ showList (fun p => String.intercalate "" ((assign root p depth).map toString)) ps)
  | "c16.hop" :: rest => do
    let (mode, v, thr2, els, pos) ← run (do
      let mode ← tok; let v ← nat; let thr2 ← rat; let els ← listOf (listOf nat); let pos ← listOf p3P
      pure (mode, v, thr2, els, pos)) rest
    let ea := els.toArray
    let e := els.length
    let pt := ptOf pos.toArray
    -- incidence in CSR order: elements of a node ascending
    let elemsOfArr : Array (List Nat) := (Array.range v).map fun n =>
      (List.range e).filter fun j => (ea.getD j []).contains n
    let h : Hop := ⟨v, fun n => elemsOfArr.getD n [], fun j => ea.getD j []⟩
    let fuel := v + e
    if mode = "nodal" then
      let pairs := (List.range v).flatMap fun s =>
        (hopNodal h (fun w => decide (dist2 (pt s) (pt w) ≤ thr2)) fuel s).map fun w => (s, w)
      some ("ok " ++ showPairs pairs)
    else if mode = "elemental" then
      let pairs := (List.range e).flatMap fun s =>
        let vs := ea.getD s []
        (hopElemental h (fun w => vs.any fun u => decide (dist2 (pt w) (pt u) ≤ thr2)) fuel s).map fun w => (s, w)
      some ("ok " ++ showPairs pairs)
    else none
  | _ => none

end Femio.C16
