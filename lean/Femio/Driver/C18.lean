import Femio.Driver.Mesh
import Femio.Model.Retype
/-! driver commands for C18 (to_polyhedron, resolve_degeneracy, make_elements_positive) -/
namespace Femio.C18
open Femio.Proto Core Faces Femio.C10

def ptOf (m : PMesh) : Nat → V3 Rat := fun i => (m.pos? i).getD ⟨0, 0, 0⟩
/-- coordinates by storage position (what polyhedron face lists refer to) -/
def ptPos (m : PMesh) : Nat → V3 Rat := fun k => (m.nodes[k]?.map (·.2)).getD ⟨0, 0, 0⟩

def showElems (es : List Elem) : String :=
  showList (fun (e : Elem) => s!"{e.id} {showList toString e.conn}") es

def polyVolLin (pp : Nat → V3 Rat) (fs : List (List Nat)) : Rat :=
  (fs.foldl (fun acc f => acc + fanLin6 (0 : Rat) pp f) 0) / 6

def polyVolCentroid (pp : Nat → V3 Rat) (fs : List (List Nat)) : Rat :=
  (fs.foldl (fun acc f => acc + fanCentroid (0 : Rat) pp f / (f.length : Rat)) 0) / 6

def handle : List String → Option String
  | "c18.poly" :: rest => do
    let (fixed, m) ← run (do let b ← bool; let m ← meshP; pure (b, m)) rest
    let cfg : Cfg := ⟨fixed, true⟩
    let pt := ptOf m
    let pp := ptPos m
    let rows := (flatten m.elemBlocks).mapM fun e => do
      let fs ← polyFaces cfg m.nodeIds e
      pure s!"{e.id} {showList toString e.conn} {showList toString (encodeFaces fs)} {showRat (polyVolLin pp fs)} {showRat (polyVolCentroid pp fs)} {showRat (elemVolLin6 (0 : Rat) pt e / 6)} {showRat (elemVol24 (4 : Rat) 0 pt e / 24)}"
    match rows with
    | none => some "err unsupported"
    | some rs => some ("ok " ++ showList id rs)
  | "c18.degen" :: rest => do
    let m ← run meshP rest
    let hexes := ((m.blocks.filter (·.1 == 14)).map (·.2)).flatten
    let prisms := ((m.blocks.filter (·.1 == 12)).map (·.2)).flatten
    if (m.blocks.filter (·.1 == 14)).isEmpty then
      some ("ok " ++ showList (fun (b : Nat × List Elem) => s!"{b.1} {showElems b.2}") m.blocks)
    else
    match resolveDegeneracy hexes prisms with
    | none => some "err value_error"
    | some (h, p) =>
      let others := m.blocks.filter fun b => b.1 != 14 && b.1 != 12
      let nb := others ++ (if h.isEmpty then [] else [(14, h)]) ++ (if p.isEmpty then [] else [(12, p)])
      let sorted := (nb.toArray.qsort fun a b => a.1 < b.1).toList
      some ("ok " ++ showList (fun (b : Nat × List Elem) => s!"{b.1} {showElems b.2}") sorted)
  | "c18.positive" :: rest => do
    let m ← run meshP rest
    let pt := ptOf m
    let es := m.elemBlocks.flatten
    let after := es.map (makePositive (0 : Rat) pt)
    some ("ok " ++ showElems after ++ " " ++ showList (fun (e : Elem) => showRat (tetVol6 (0 : Rat) pt e.conn / 6)) es
      ++ " " ++ showList (fun (e : Elem) => showRat (tetVol6 (0 : Rat) pt e.conn / 6)) after)
  | "c18.hist" :: rest => do
    -- c18.hist <freshMetric> <mesh> <ops>: ops = list of `m r a` | `v r a` | `p`; reply: connectivity after the history
    let (fresh, m, ops) ← run (do
      let b ← bool; let m ← meshP
      let ops ← listOf (do
        let t ← tok
        if t = "m" then do let r ← bool; let a ← bool; pure (HOp.metrics r a)
        else if t = "v" then do let r ← bool; let a ← bool; pure (HOp.volumes r a)
        else if t = "p" then pure HOp.positive
        else failure)
      pure (b, m, ops)) rest
    let pt := ptOf m
    let s := runH (⟨true, fresh⟩ : Cfg) (0 : Rat) pt (fresh0 m.elemBlocks.flatten) ops
    some ("ok " ++ showElems s.elems ++ " " ++ showList (fun (e : Elem) => showRat (tetVol6 (0 : Rat) pt e.conn / 6)) s.elems)
  | "c18.pos" :: rest => do
    let (ids, x) ← run (do let l ← listOf nat; let x ← nat; pure (l, x)) rest
    some ("ok " ++ showOpt toString (posOf ids x) ++ " " ++ toString (rankOf ids x))
  | _ => none

end Femio.C18
