import Femio.Driver.Mesh
import Femio.Model.GraphOps
/-! driver commands for C13 (every matrix is computed by the functions the theorems are about;
    Boolean functions are materialised with `M.ofFn` between stages, cf. `M.get_ofFn`) -/
namespace Femio.C13
open Femio.Proto Core Graph

structure G where
  nN : Nat
  nE : Nat
  inc : List (Nat × Nat)

def mkG (order1 : Bool) (m : PMesh) : G :=
  let inc := incidenceOpt order1 m.nodeIds m.elemBlocks
  ⟨nRows order1 m.nodeIds m.elemBlocks, m.elemBlocks.flatten.length, inc⟩

/-- (dimension, materialised adjacency) for mode 0 = elemental, 1 = nodal -/
def adjOf (g : G) (mode : Nat) : Nat × M :=
  let mx := max g.nN g.nE
  let Im := M.ofFn mx (incB g.inc)
  if mode = 0 then (g.nE, M.ofFn g.nE (adjElem g.nN Im.get)) else (g.nN, M.ofFn g.nN (adjNode g.nE Im.get))

def showTriples (ts : List (Nat × Nat × Int)) : String :=
  showList (fun (a, b, v) => s!"{a} {b} {v}") ts

def triples (n : Nat) (f : Nat → Nat → Int) : List (Nat × Nat × Int) :=
  (List.range n).flatMap fun i => (List.range n).filterMap fun j => if f i j ≠ 0 then some (i, j, f i j) else none

def modeP : P Nat := do
  let t ← tok
  match t with | "elemental" => pure 0 | "nodal" => pure 1 | _ => failure

def handle : List String → Option String
  | "c13.inc" :: rest => do
    let (o1, m) ← run (do let o ← bool; let m ← meshP; pure (o, m)) rest
    if o1 && !supportedO1 m.elemBlocks then some "err value_error" else
    let g := mkG o1 m
    some s!"ok {g.nN} {g.nE} {showPairs g.inc.eraseDups}"
  | "c13.adj" :: rest => do
    let (mode, o1, m) ← run (do let md ← modeP; let o ← bool; let m ← meshP; pure (md, o, m)) rest
    if o1 && !supportedO1 m.elemBlocks then some "err value_error" else
    let (n, A) := adjOf (mkG o1 m) mode
    some s!"ok {n} {showPairs (entries n A.get)}"
  | "c13.nhop" :: rest => do
    let (mode, hops, sl, o1, m) ← run (do
      let md ← modeP; let h ← nat; let sl ← bool; let o ← bool; let m ← meshP; pure (md, h, sl, o, m)) rest
    if hops = 0 then some "err bad-op" else
    if o1 && !supportedO1 m.elemBlocks then some "err value_error" else
    -- femio: the elemental adjacency ignores order1_only in calculate_n_hop_adj
    let (n, A) := adjOf (mkG (o1 && mode = 1) m) mode
    let R := nHopM n A.get hops
    some s!"ok {n} {showTriples (triples n (nHopEntry R sl))}"
  | "c13.lap" :: rest => do
    let (mode, o1, m) ← run (do let md ← modeP; let o ← bool; let m ← meshP; pure (md, o, m)) rest
    if o1 && !supportedO1 m.elemBlocks then some "err value_error" else
    let (n, A) := adjOf (mkG o1 m) mode
    some s!"ok {n} {showTriples (triples n (lapEntry n A.get))}"
  | "c13.grad" :: rest => do
    let (mode, o1, m) ← run (do let md ← modeP; let o ← bool; let m ← meshP; pure (md, o, m)) rest
    if o1 && !supportedO1 m.elemBlocks then some "err value_error" else
    let (n, A) := adjOf (mkG o1 m) mode
    some s!"ok {n} {showPairs (gradEdges n A.get)}"
  | "c13.e2v" :: rest => do
    let (mode, sl, m) ← run (do let md ← modeP; let sl ← bool; let m ← meshP; pure (md, sl, m)) rest
    let (n, A) := adjOf (mkG false m) mode
    let nz := e2vNonzeros n A.get sl
    some s!"ok {n} {nz.length} {showList toString ((nz.map (·.1)).toArray.qsort (· < ·)).toList}"
  | _ => none

end Femio.C13
