import Femio.Driver.Proto
import Femio.Model.QueryCache
/-! driver command for C19 (stateless: one request = one history)

```
c19.run <invalidate> list(<meth> <cap>) list(<meth> <args> <version> list(<meth> <args> <recv>)) list(op)
   op := q <obj> <meth> <args> | m <obj>
-> ok <n> (v <stamp> <hits> <misses> | m) …
``` -/
namespace Femio.C19
open Femio.Proto

def callP : P Call := do let m ← nat; let a ← nat; let r ← nat; pure ⟨m, a, r⟩
def ruleP : P ((Nat × Nat × Nat) × List Call) := do let m ← nat; let a ← nat; let v ← nat; let cs ← listOf callP; pure ((m, a, v), cs)
def opP : P Op := do
  let t ← tok
  match t with
  | "q" => do let o ← nat; let m ← nat; let a ← nat; pure (.query ⟨o, m, a⟩)
  | "m" => Op.modify <$> nat
  | _ => failure

def showObs : Obs → String
  | .value s h m => s!"v {s} {h} {m}"
  | .modified => "m"

def handle : List String → Option String
  | "c19.run" :: rest => do
    let (inv, caps, rules, ops) ← Femio.Proto.run (do
      let i ← bool; let caps ← listOf (do let m ← nat; let c ← nat; pure (m, c))
      let rules ← listOf ruleP; let ops ← listOf opP; pure (i, caps, rules, ops)) rest
    let r := Femio.C19.run ⟨inv⟩ rules (World.init caps) ops
    some ("ok " ++ showList showObs r.2)
  | _ => none

end Femio.C19
