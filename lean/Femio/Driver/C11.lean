import Femio.Driver.Proto
import Femio.Driver.Mesh
import Femio.Model.GeomKernels
import Femio.Model.GeomHistory
import Femio.Model.Brick
import Femio.Gen.Tables
/-! driver commands for C11 (all values exact rationals)

```
c11.vol     <type> <mode> <list v3>            -> ok 1 <volume> | ok 0
c11.polyvol <mode> <list (list v3)>            -> ok <volume>
c11.area    <type> <mode> <list v3>            -> ok 1 <den> <list radicand> | ok 0      area = Σ√q / den
c11.normal  <type> <mode> <list v3>            -> ok 1 <x> <y> <z> <|c|²> | ok 0        normal = c / √|c|²
c11.meshvol <alignById> <mode> <mesh>          -> ok <list (eid (1 <volume> | 0))>      via the id → position lookup
c11.mesharea <alignById> <mode> <mesh>         -> ok <list (eid (1 <den> <list radicand> | 0))>
c11.meshnormal <alignById> <mode> <mesh>       -> ok <list (eid (1 x y z |c|² | 0))>
c11.brick   <type> <nx> <ny> <nz> <lx> <ly> <lz> -> ok 1 <list v3> <list (list id)> | ok 0
c11.seq <alignById> <absInPlace> <shell> <mesh> <list call> -> ok <list step>   call history on one object (Model/GeomHistory)
        call = (b | m) <mode> <raiseNeg> <retAbs> <explicit> <update>
        step = v <list (eid value)> | neg | unsup | upderr | nokernel      value = <volume> (solid) | <den> <list radicand> (shell)
```
mode = linear | gaussian | centroid -/
namespace Femio.C11
open Femio.Proto

def modeP : P Mode := do
  let t ← tok
  match t with
  | "linear" => pure .linear | "gaussian" => pure .gaussian | "centroid" => pure .centroid
  | _ => failure

def showVol : Option VolNF → String
  | none => "0"
  | some v => "1 " ++ showRat v.val

def showArea : Option AreaNF → String
  | none => "0"
  | some a => "1 " ++ showRat a.den ++ " " ++ showList showRat a.rads

def typeName (ty : Nat) : String :=
  match Femio.Gen.elementTypes[ty]? with
  | some s => String.ofList s
  | none => "unknown"

def callP : P Call := do
  let a ← tok
  let api ← (match a with | "b" => pure Api.base | "m" => pure Api.metric | _ => failure : P Api)
  let mo ← modeP; let rn ← bool; let ra ← bool; let ex ← bool; let up ← bool
  pure ⟨api, mo, ⟨rn, ra⟩, ex, up⟩

def allSome {α : Type} : List (Nat × Option α) → Option (List (Nat × α))
  | [] => some []
  | (e, some v) :: t => (allSome t).map ((e, v) :: ·)
  | (_, none) :: _ => none

def showOut {V : Type} (f : V → String) : Out V → String
  | .vals v => "v " ++ showList (fun (e, x) => toString e ++ " " ++ f x) v
  | .negative => "neg"
  | .unsupported => "unsup"
  | .updateError => "upderr"

def seqReply {V : Type} (S : Sgn V) (f : V → String) (cfg : HCfg) (mixed supported : Bool)
    (fresh : Mode → Option (Vals V)) (calls : List Call) : String :=
  match fresh .linear, fresh .gaussian, fresh .centroid with
  | some l, some g, some c =>
    let mi : MeshInfo V := ⟨fun m => match m with | .linear => l | .gaussian => g | .centroid => c, mixed, supported⟩
    "ok " ++ showList (showOut f) (runCalls cfg S mi calls HState.empty)
  | _, _, _ => "ok " ++ showList (fun _ => "nokernel") calls

def handle : List String → Option String
  | "c11.seq" :: rest => do
    let (ab, ip, shell, m, calls) ← run (do
      let ab ← bool; let ip ← bool; let sh ← bool; let m ← meshP; let cs ← listOf callP; pure (ab, ip, sh, m, cs)) rest
    let mixed := m.blocks.length != 1
    let supported := m.blocks.all fun (ty, _) => typeName ty != "pyr"
    if shell then
      some (seqReply areaSgn (fun a => showRat a.den ++ " " ++ showList showRat a.rads) ⟨ip⟩ mixed supported (fun mode =>
        allSome (assemble ⟨ab⟩ (m.blocks.map fun (ty, es) =>
          elemMetrics (area (typeName ty) (shellModeInMesh m.blocks.length mode)) m.nodes (es.map fun e => (e.id, e.conn))))) calls)
    else
      some (seqReply ratSgn showRat ⟨ip⟩ mixed supported (fun mode =>
        (allSome (assemble ⟨ab⟩ (m.blocks.map fun (ty, es) =>
          elemMetrics (volume (typeName ty) mode) m.nodes (es.map fun e => (e.id, e.conn))))).map
            (fun l => l.map fun (e, v) => (e, v.val))) calls)
  | "c11.vol" :: rest => do
    let (ty, mode, pts) ← run (do let ty ← tok; let m ← modeP; let pts ← listOf v3P; pure (ty, m, pts)) rest
    some ("ok " ++ showVol (volume ty mode pts))
  | "c11.polyvol" :: rest => do
    let (mode, faces) ← run (do let m ← modeP; let fs ← listOf (listOf v3P); pure (m, fs)) rest
    some ("ok " ++ showRat (volumePoly mode faces).val)
  | "c11.area" :: rest => do
    let (ty, mode, pts) ← run (do let ty ← tok; let m ← modeP; let pts ← listOf v3P; pure (ty, m, pts)) rest
    some ("ok " ++ showArea (area ty mode pts))
  | "c11.normal" :: rest => do
    let (ty, mode, pts) ← run (do let ty ← tok; let m ← modeP; let pts ← listOf v3P; pure (ty, m, pts)) rest
    match normal ty mode pts with
    | none => some "ok 0"
    | some c => some ("ok 1 " ++ showV3 c ++ " " ++ showRat (V3.normSq c))
  | "c11.meshvol" :: rest => do
    let (ab, mode, m) ← run (do let ab ← bool; let mo ← modeP; let m ← meshP; pure (ab, mo, m)) rest
    let out := assemble ⟨ab⟩ (m.blocks.map fun (ty, es) =>
      elemMetrics (volume (typeName ty) mode) m.nodes (es.map fun e => (e.id, e.conn)))
    some ("ok " ++ showList (fun (e, v) => toString e ++ " " ++ showVol v) out)
  | "c11.mesharea" :: rest => do
    let (ab, mode, m) ← run (do let ab ← bool; let mo ← modeP; let m ← meshP; pure (ab, mo, m)) rest
    let mode := shellModeInMesh m.blocks.length mode
    let out := assemble ⟨ab⟩ (m.blocks.map fun (ty, es) =>
      elemMetrics (area (typeName ty) mode) m.nodes (es.map fun e => (e.id, e.conn)))
    some ("ok " ++ showList (fun (e, v) => toString e ++ " " ++ showArea v) out)
  | "c11.meshnormal" :: rest => do
    let (ab, mode, m) ← run (do let ab ← bool; let mo ← modeP; let m ← meshP; pure (ab, mo, m)) rest
    let mode := shellModeInMesh m.blocks.length mode
    let out := assemble ⟨ab⟩ (m.blocks.map fun (ty, es) =>
      elemMetrics (normal (typeName ty) mode) m.nodes (es.map fun e => (e.id, e.conn)))
    some ("ok " ++ showList (fun (e, v) => toString e ++ " " ++ (match v with
      | none => "0" | some c => "1 " ++ showV3 c ++ " " ++ showRat (V3.normSq c))) out)
  | "c11.brick" :: rest => do
    let (ty, nx, ny, nz, lx, ly, lz) ← run (do
      let ty ← tok; let nx ← nat; let ny ← nat; let nz ← nat; let lx ← rat; let ly ← rat; let lz ← rat
      pure (ty, nx, ny, nz, lx, ly, lz)) rest
    match brickConn ty nx ny nz with
    | none => some "ok 0"
    | some conn =>
      let nodes : List (V3 Rat) :=
        if ty = "hex" ∨ ty = "tet" then brickNodes3 nx ny nz (lx / nx) (ly / ny) (lz / nz)
        else brickNodes2 nx ny (lx / nx) (ly / ny) 0
      some ("ok 1 " ++ showList showV3 nodes ++ " " ++ showList (showList toString) conn)
  | _ => none

end Femio.C11
