import Femio.Driver.Proto
import Femio.Model.Core
import Femio.Model.Geom
/-! protocol encoding of meshes (shared by the geometric / graph properties)

```
mesh  := list(node) list(block)
node  := id rat rat rat
block := etype-index list(elem)          -- index into ELEMENT_TYPES, blocks in ELEMENT_TYPES order
elem  := id list(id)
``` -/
namespace Femio.Proto
open Core

structure PMesh where
  nodes : List (Nat × V3 Rat)
  blocks : List (Nat × List Elem)

def v3P : P (V3 Rat) := do let x ← rat; let y ← rat; let z ← rat; pure ⟨x, y, z⟩
def nodeP : P (Nat × V3 Rat) := do let i ← nat; let p ← v3P; pure (i, p)
def elemP (ty : Nat) : P Elem := do let i ← nat; let c ← listOf nat; pure ⟨i, ty, c⟩
def blockP : P (Nat × List Elem) := do let ty ← nat; let es ← listOf (elemP ty); pure (ty, es)
def meshP : P PMesh := do let ns ← listOf nodeP; let bs ← listOf blockP; pure ⟨ns, bs⟩

def PMesh.nodeIds (m : PMesh) : List Nat := m.nodes.map (·.1)
def PMesh.elemBlocks (m : PMesh) : List (List Elem) := m.blocks.map (·.2)
/-- coordinates of a node id (first match in storage order) -/
def PMesh.pos? (m : PMesh) (i : Nat) : Option (V3 Rat) := (m.nodes.find? (·.1 == i)).map (·.2)

def showV3 (v : V3 Rat) : String := s!"{showRat v.x} {showRat v.y} {showRat v.z}"

end Femio.Proto
