import Femio.Driver.Mesh
import Femio.Model.Incidence
/-! driver commands for C12 (facet list, signed incidence, exact area vectors / centres / divergence sums) -/
namespace Femio.C12
open Femio.Proto Core Faces Femio.C10

def ptOf (m : PMesh) : Nat → V3 Rat := fun i => (m.pos? i).getD ⟨0, 0, 0⟩

def showFaces (fs : List (List Nat)) : String := showList (showList toString) fs

def handle : List String → Option String
  | "c12.incidence" :: rest => do
    let m ← run meshP rest
    let bs := m.elemBlocks
    let cells := flatten bs
    let facets := toFacets bs
    let fs := allFaces bs
    let flags := [wfB bs, faceDeterminedB cells facets, ownNodesB cells, distinctKeysB cells, mirrorConformingB fs]
    let inc := signedIncidence (ptOf m) cells facets
    some ("ok " ++ String.intercalate " " (flags.map showBool) ++ " " ++ showFaces facets ++ " "
      ++ showList (fun (t : Nat × Nat × Int) => s!"{t.1} {t.2.1} {t.2.2}") inc)
  | "c12.geom" :: rest => do
    let m ← run meshP rest
    let bs := m.elemBlocks
    let pt := ptOf m
    let cells := flatten bs
    let facets := toFacets bs
    let perFacet := facets.map fun f =>
      let ps := f.map pt
      s!"{showV3 (areaVec2 ps)} {showV3 (vsum ps)} {f.length}"
    let perCell := cells.map fun c =>
      let cp := c.conn.map pt
      let inc := facets.filter (incident c.conn)
      let s : V3 Rat := inc.foldl (fun acc f =>
        let ps := f.map pt
        let sg : Rat := ((signOf cp ps : Int) : Rat)
        V3.add acc (V3.smul sg (areaVec2 ps))) ⟨0, 0, 0⟩
      let d : Rat := inc.foldl (fun acc f =>
        let ps := f.map pt
        let sg : Rat := ((signOf cp ps : Int) : Rat)
        acc + sg * V3.dot (areaVec2 ps) (vsum ps) / (f.length : Rat)) 0
      s!"{showV3 s} {showRat (d / 6)} {showRat (elemVol24 (4 : Rat) 0 pt c / 24)} {showV3 (vsum cp)}"
    some ("ok " ++ showList id perFacet ++ " " ++ showList id perCell)
  | "c12.meanplane" :: rest => do
    let m ← run meshP rest
    let cells := flatten m.elemBlocks
    some ("ok " ++ showList showBool (cells.map (meanPlaneB (ptOf m))))
  | _ => none

end Femio.C12
