import Femio.Driver.Proto
import Femio.Driver.Mesh
import Femio.Model.SubMesh
import Femio.Model.Meshio
import Femio.Gen.Tables
import Femio.Model.SubMeshTables
/-! driver commands for C09 (`c09.<op>`) and C06 (`c06.to_meshio`)

```
fem    := mesh list(var) list(evar)
var    := name list(id) list(row)          row := list(rat)
evar   := name list(eblock)                eblock := type-index list(id row)
reply  := ok list(id row) list(type list(id list(id))) list(name list(id) list(row)) list(name list(type list(id row)))
        | err value|key|index|other
``` -/
namespace Femio.C09
open Femio.Proto Femio.SubMesh Core

abbrev Row := List Rat

def rowP : P Row := listOf rat
def varP : P (Nat × Attr Row) := do let n ← nat; let ids ← listOf nat; let rows ← listOf rowP; pure (n, ⟨ids, rows⟩)
def entP (ty : Nat) : P (Ent Row) := do let i ← nat; let r ← rowP; pure ⟨i, ty, r⟩
def eblockP : P (List (Ent Row)) := do let ty ← nat; listOf (entP ty)
def evarP : P (Nat × EBlocks Row) := do let n ← nat; let bs ← listOf eblockP; pure (n, bs)

def ofPMesh (m : PMesh) : Attr Row × EBlocks (List Id) :=
  (⟨m.nodes.map (·.1), m.nodes.map fun (_, v) => [v.x, v.y, v.z]⟩,
   m.blocks.map fun (_, es) => es.map fun e => ⟨e.id, e.ty, e.conn⟩)

def femP : P (FEM Row) := do
  let m ← meshP
  let nd ← listOf varP
  let ed ← listOf evarP
  let (ns, es) := ofPMesh m
  pure ⟨ns, es, nd, ed⟩

def showRow (r : Row) : String := showList showRat r
def showAttr (a : Attr Row) : String := showList toString a.ids ++ " " ++ showList showRow a.data

def showFEM (m : FEM Row) : String :=
  showList (fun (p : Id × Row) => s!"{p.1} {showRow p.2}") (m.nodes.ids.zip m.nodes.data) ++ " " ++
  showList (fun (b : List (Ent (List Id))) =>
    s!"{(b.head?.map (·.ty)).getD 0} " ++ showList (fun e => s!"{e.id} {showList toString e.val}") b) m.elems ++ " " ++
  showList (fun (kv : Nat × Attr Row) => s!"{kv.1} {showAttr kv.2}") m.nodal ++ " " ++
  showList (fun (kv : Nat × EBlocks Row) => s!"{kv.1} " ++
    showList (fun (b : List (Ent Row)) =>
      s!"{(b.head?.map (·.ty)).getD 0} " ++ showList (fun e => s!"{e.id} {showRow e.val}") b) kv.2) m.elemental

def showErr : Err → String
  | .value => "err value" | .key => "err key" | .index => "err index" | .other => "err other"

def reply : Except Err (FEM Row) → String
  | .ok m => "ok " ++ showFEM m
  | .error e => showErr e

def vtkVarP : P (Femio.Meshio.NodalVar Row) := do
  let n ← nat; let r ← nat; let ids ← listOf nat; let rows ← listOf rowP; pure ⟨n, r, ⟨ids, rows⟩⟩

def showOut (o : Femio.Meshio.Out Row) : String :=
  showList showRow o.points ++ " " ++
  showList (fun (c : Femio.Meshio.CellBlock) =>
    s!"{c.ty} {escape c.name} " ++ showList (fun r => showList toString r) c.rows) o.cells ++ " " ++
  showList (fun (kv : Nat × List Row) => s!"{kv.1} " ++ showList showRow kv.2) o.pointData

def handle : List String → Option String
  | "c09.cut_eids" :: rest => do
    let (m, sel) ← run (do let m ← femP; let s ← listOf nat; pure (m, s)) rest
    some (reply (cutElemIds m sel))
  | "c09.cut_type" :: rest => do
    let (m, t) ← run (do let m ← femP; let t ← nat; pure (m, t)) rest
    some (reply (cutElemType m t))
  | "c09.cut_nids" :: rest => do
    let (m, sel) ← run (do let m ← femP; let s ← listOf nat; pure (m, s)) rest
    some (reply (cutNodeIds m sel))
  | "c09.extract_idx" :: rest => do
    let (m, sel) ← run (do let m ← femP; let s ← listOf nat; pure (m, s)) rest
    some (reply (extractIdx m sel))
  | "c09.remove_useless" :: rest => do
    let m ← run femP rest
    some (reply (removeUselessNodes m))
  | "c09.first_order" :: rest => do
    let m ← run femP rest
    some (reply (toFirstOrder isSecondType m))
  | "c09.surface" :: rest => do
    let m ← run femP rest
    some (reply (toSurface faceTable m))
  | "c09.facets" :: rest => do
    let m ← run femP rest
    some (reply (toFacets faceTable m))
  | "c09.surface_keep" :: rest => do
    let m ← run femP rest
    some (reply (toSurfaceKeep faceTable m))
  | "c09.facets_all" :: rest => do
    let m ← run femP rest
    some (reply (toFacetsAll faceTable m))
  | "c06.to_meshio" :: rest => do
    let v ← run (do
      let m ← meshP
      let nd ← listOf vtkVarP
      let (ns, es) := ofPMesh m
      pure (⟨ns, es, nd⟩ : Femio.Meshio.VtkIn Row)) rest
    match Femio.Meshio.toMeshio meshioName Femio.Gen.tet2ToMeshio v with
    | .ok o => some ("ok " ++ showOut o)
    | .error e => some (showErr e)
  | _ => none

end Femio.C09
