import Femio.Driver.Mesh
import Femio.Model.Surface
import Femio.Model.Obj
/-! driver commands for C10 (surface extraction, flux / volume sums, FrontISTR face list, OBJ text) -/
namespace Femio.C10
open Femio.Proto Core Faces

def ptOf (m : PMesh) : Nat → V3 Rat := fun i => (m.pos? i).getD ⟨0, 0, 0⟩

def showFaces (fs : List (List Nat)) : String := showList (showList toString) fs

def showNumbered (l : List (Nat × List Nat)) : String :=
  showList (fun (p : Nat × List Nat) => s!"{p.1} {showList toString p.2}") l

def handle : List String → Option String
  | "c10.surface" :: rest => do
    let m ← run meshP rest
    let bs := m.elemBlocks
    let fs := allFaces bs
    let flags := [wfB bs, balB (edgesOf fs), conformingB fs, mirrorConformingB fs, manifoldB (boundaryB fs)]
    match extractSurface m.nodeIds bs with
    | none => some "err missing-node"
    | some (t, q) =>
      some ("ok " ++ String.intercalate " " (flags.map showBool) ++ " " ++ showFaces t ++ " " ++ showFaces q)
  | "c10.flux" :: rest => do
    let m ← run meshP rest
    let bs := m.elemBlocks
    let pt := ptOf m
    let sf : Rat := surfaceFlux24 4 0 pt (allFaces bs)
    let tv : Rat := totalVol24 4 0 pt bs
    let per := (flatten bs).map fun e =>
      s!"{e.id} {showRat (elemVol24 (4 : Rat) 0 pt e / 24)} {showRat (elemVolLin6 (0 : Rat) pt e / 6)}"
    some (s!"ok {showRat (sf / 24)} {showRat (tv / 24)} " ++ showList id per)
  | "c10.fistr" :: rest => do
    let m ← run meshP rest
    some ("ok " ++ showFaces (boundaryLexScan m.elemBlocks.flatten))
  | "c10.tosurface" :: rest => do
    let m ← run meshP rest
    let s := toSurface m.nodeIds m.elemBlocks
    some ("ok " ++ showList toString s.nodeIds ++ " " ++ showNumbered s.tris ++ " " ++ showNumbered s.quads)
  | "c10.obj" :: rest => do
    let (m, verts) ← run (do let m ← meshP; let v ← listOf (listOf str); pure (m, v)) rest
    match Obj.objOfMesh m.nodeIds m.elemBlocks verts with
    | none => some "err missing-node"
    | some ls =>
      let back := match Obj.readObj (Obj.tokenize (Obj.render ls)) with
        | none => "0"
        | some (vs, fs) => "1 " ++ showList (showList escape) vs ++ " " ++ showFaces fs
      -- second field: the Boolean hypothesis of `C10_obj_roundtrip_chars` evaluated on this input
      some ("ok " ++ escape (Obj.render ls) ++ " " ++ showBool (Obj.vertsOKB verts) ++ " " ++ back)
  | "c10.objread" :: rest => do
    let txt ← run str rest
    match Obj.readObj (Obj.tokenize txt) with
    | none => some "err parse"
    | some (vs, fs) => some ("ok " ++ showList (showList escape) vs ++ " " ++ showFaces fs)
  | _ => none

end Femio.C10
