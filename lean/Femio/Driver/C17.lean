import Femio.Driver.Proto
import Femio.Model.Tensor
import Femio.Model.TensorRound
/-! driver commands for C17 (exact rationals in, exact rationals out) -/
namespace Femio.C17D
open Femio.Proto Femio.Gradient Femio.Tensor

def v3P : P (V3 Rat) := do let x ← rat; let y ← rat; let z ← rat; pure ⟨x, y, z⟩
def m3P : P (M3 Rat) := do let a ← v3P; let b ← v3P; let c ← v3P; pure ⟨a, b, c⟩
def showRats (l : List Rat) : String := showList showRat l
def showV (v : V3 Rat) : String := String.intercalate " " ((v3list v).map showRat)
def showM (A : M3 Rat) : String := String.intercalate " " ((flat A).map showRat)
def entryP : P ((Nat × Nat) × Rat) := do let i ← nat; let j ← nat; let v ← rat; pure ((i, j), v)
def showSp (s : Sp Rat) : String := showList (fun (e : (Nat × Nat) × Rat) => s!"{e.1.1} {e.1.2} {showRat e.2}") s

def msub (A B : M3 Rat) : M3 Rat := ⟨V3.sub A.r0 B.r0, V3.sub A.r1 B.r1, V3.sub A.r2 B.r2⟩

def handle : List String → Option String
  | "c17.arr2mat" :: rest => do
    let (o, e, a) ← run (do let o ← listOf nat; let e ← bool; let a ← listOf rat; pure (o, e, a)) rest
    some ("ok " ++ showRats (arr2mat o e a))
  | "c17.mat2arr" :: rest => do
    let (o, e, a) ← run (do let o ← listOf nat; let e ← bool; let a ← listOf rat; pure (o, e, a)) rest
    some ("ok " ++ showRats (mat2arr o e a))
  | "c17.principal" :: rest => do
    let (w, V) ← run (do let w ← v3P; let V ← m3P; pure (w, V)) rest
    let p := principalPost w V
    some (String.intercalate " " ["ok", showV p.vals, showV p.d0, showV p.d1, showV p.d2, showV p.v0, showV p.v1, showV p.v2])
  | "c17.residual" :: rest => do
    -- the eigh post-condition evaluated exactly: A·V − V·diag(w), Vᵀ·V − 1, ascending?
    let (A, w, V) ← run (do let A ← m3P; let w ← v3P; let V ← m3P; pure (A, w, V)) rest
    let r1 := msub (mmul A V) (mmul V (diag3 w))
    let r2 := msub (mmul (transpose V) V) (diag3 ⟨1, 1, 1⟩)
    some (String.intercalate " " ["ok", showM r1, showM r2, showBool (decide (w.x ≤ w.y ∧ w.y ≤ w.z))])
  | "c17.fromeigens" :: rest => do
    let (vals, d0, d1, d2, e) ← run (do
      let vals ← v3P; let d0 ← v3P; let d1 ← v3P; let d2 ← v3P; let e ← bool; pure (vals, d0, d1, d2, e)) rest
    some ("ok " ++ showRats (arrayFromEigens vals d0 d1 d2 e))
  | "c17.invstrain" :: rest => do
    let (w, V, e) ← run (do let w ← v3P; let V ← m3P; let e ← bool; pure (w, V, e)) rest
    some ("ok " ++ showRats (invertStrainPost w V e))
  | "c17.ltemat" :: rest => do
    let f ← run (listOf rat) rest
    some ("ok " ++ showM (lteMatrix f))
  | "c17.lteg2l" :: rest => do
    let (w, V) ← run (do let w ← v3P; let V ← m3P; pure (w, V)) rest
    let r := lteGlobal2LocalPost w V
    some ("ok " ++ showV r.1 ++ " " ++ showRats r.2)
  | "c17.ltel2g" :: rest => do
    let (l, o) ← run (do let l ← v3P; let o ← listOf rat; pure (l, o)) rest
    some ("ok " ++ showRats (lteLocal2Global l o))
  | "c17.diagshortcut" :: rest => do
    -- shear-free tensor diag(a) with the descending order (i, j, k) of its diagonal: column frame of coordinate axes
    let (a, i, j, k) ← run (do let a ← v3P; let i ← nat; let j ← nat; let k ← nat; pure (a, i, j, k)) rest
    let p := diagShortcut true a i j k
    some (String.intercalate " " ["ok", showV p.vals, showV p.d0, showV p.d1, showV p.d2])
  | "c17.align" :: rest => do
    let (cells, ms) ← run (do let c ← nat; let ms ← listOf (listOf entryP); pure (c, ms)) rest
    some ("ok " ++ showRat (dummyScale cells ms) ++ " " ++ showList showSp (alignNnz cells ms))
  | "c17.alignfl" :: rest => do
    -- binary64 model of the dummy trick: D, then (c, v) pairs -> fl(fl(v + d_c) - d_c) for every pair
    let (D, cv) ← run (do let D ← rat; let cv ← listOf (do let c ← nat; let v ← rat; pure (c, v)); pure (D, cv)) rest
    some ("ok " ++ showRats (cv.map fun e => Femio.TensorRound.alignEntryFl D e.1 e.2))
  | _ => none

end Femio.C17D
