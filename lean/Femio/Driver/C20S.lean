import Femio.Driver.Proto
import Femio.Driver.C20
import Femio.Model.CompressSteps
import Femio.Model.CompressAdmit
/-! driver commands for the step models of C20 (`Model/CompressSteps.lean`)

```
c20.shrink <cells: list flat>                      -> ok <cells: list (list (list nat))>
c20.remove_one_edge <A> <B> <flat>                 -> ok <r> <r>      (spec model, literal model)
        r := 0 | 1 <faces: list (list nat)>
c20.rv2 <cells: list flat>                         -> ok 0 | ok 1 <removed nodes: list nat> <cells>
c20.merge_vertex <a> <b> <flat>                    -> ok <faces>
c20.good <cells: list flat> <conv: list nat>       -> ok <goodB: the hypothesis `Good` of the pipeline theorems>
c20.run <cells: list flat> <conv: list nat> <n> <op>*n
        op := merge <groups: list (list nat)> | edge <A> <B> <ps: list nat> | rv2 | mv <a> <b> | shrink
                                                   -> ok 0 | ok 1 <cells> <conv: list nat>
c20.admit <T: rat> <f: list point> <g: list point>     point := <x: rat> <y: rat> <z: rat>
        -> ok <admits fixed: 0|1> <admits upstream: 0|1> <unsigned squared test (fan normals): 0|1>
              <fan normal of f: 3 rat> <fan normal of g: 3 rat>        (Model/CompressAdmit.lean)
``` -/
namespace Femio.C20S
open Femio.Proto Femio.C20

def showCells (cs : List Cell) : String := showList showFaces cs

def showRes : Option Cell → String
  | none => "0"
  | some c => "1 " ++ showFaces c

def opP : P Op := do
  let t ← tok
  if t = "merge" then do let g ← listOf (listOf nat); pure (.merge g)
  else if t = "edge" then do let a ← nat; let b ← nat; let ps ← listOf nat; pure (.removeEdge a b ps)
  else if t = "rv2" then pure .removeVertices2
  else if t = "mv" then do let a ← nat; let b ← nat; pure (.mergeVertex a b)
  else if t = "shrink" then pure .shrink
  else failure

def opsP : Nat → P (List Op)
  | 0 => pure []
  | n + 1 => do let o ← opP; let r ← opsP n; pure (o :: r)

def handle : List String → Option String
  | "c20.shrink" :: rest => do
    let cells ← run cellsP rest
    some ("ok " ++ showCells (shrink cells))
  | "c20.remove_one_edge" :: rest => do
    let (a, b, flat) ← run (do let a ← nat; let b ← nat; let f ← listOf nat; pure (a, b, f)) rest
    let c ← parseCell flat
    some s!"ok {showRes (removeOneEdge a b c)} {showRes (removeOneEdgeCoded a b c)}"
  | "c20.rv2" :: rest => do
    let cells ← run cellsP rest
    match removeVertices2 cells with
    | none => some "ok 0"
    | some cs =>
      let used := cellNodes cells.flatten
      some s!"ok 1 {showList toString (used.filter (canRm cells))} {showCells cs}"
  | "c20.merge_vertex" :: rest => do
    let (a, b, flat) ← run (do let a ← nat; let b ← nat; let f ← listOf nat; pure (a, b, f)) rest
    let c ← parseCell flat
    some ("ok " ++ showFaces (mergeVertexCell a b c))
  | "c20.good" :: rest => do
    let (cells, conv) ← run (do let cs ← cellsP; let conv ← listOf nat; pure (cs, conv)) rest
    some s!"ok {showBool (goodB ⟨cells, conv⟩)}"
  | "c20.run" :: rest => do
    let (cells, conv, ops) ← run (do
      let cs ← cellsP; let conv ← listOf nat; let n ← nat; let ops ← opsP n; pure (cs, conv, ops)) rest
    match runOps ops ⟨cells, conv⟩ with
    | none => some "ok 0"
    | some s => some s!"ok 1 {showCells s.cells} {showList toString s.conv}"
  | "c20.admit" :: rest => do
    let pt : P (V3 Rat) := do let x ← rat; let y ← rat; let z ← rat; pure ⟨x, y, z⟩
    let (T, f, g) ← run (do let T ← rat; let f ← listOf pt; let g ← listOf pt; pure (T, f, g)) rest
    let x := fanNormal f
    let y := fanNormal g
    let sh (v : V3 Rat) : String := s!"{showRat v.x} {showRat v.y} {showRat v.z}"
    some s!"ok {showBool (admits NormalCfg.fixed T f g)} {showBool (admits NormalCfg.upstream T f g)} {showBool (cosGeUnsigned (V3.dot x y) (V3.normSq x * V3.normSq y) T)} {sh x} {sh y}"
  | _ => none

end Femio.C20S
