/-! Line protocol between the Python harness and the model driver (core Lean only).

One request per line, blank-separated tokens; lists are length-prefixed; rationals are `num` or
`num/den`; strings are hex-free `%`-escaped tokens (`%20` = blank, `%25` = `%`, `%0A` = newline,
the empty string is the token `%e`).  The driver never defaults on malformed input: a parser
failure is answered with `err bad-op`. -/
namespace Femio.Proto

abbrev P := StateT (List String) Option

def tok : P String := do
  match (← get) with
  | [] => failure
  | t :: ts => set ts; pure t

def nat : P Nat := do let t ← tok; match t.toNat? with | some n => pure n | none => failure
def int : P Int := do let t ← tok; match t.toInt? with | some n => pure n | none => failure
def bool : P Bool := do let t ← tok; if t = "1" then pure true else if t = "0" then pure false else failure

def rat : P Rat := do
  let t ← tok
  match t.splitOn "/" with
  | [a] => match a.toInt? with | some n => pure (n : Rat) | none => failure
  | [a, b] => match a.toInt?, b.toNat? with
    | some n, some d => if d = 0 then failure else pure (mkRat n d)
    | _, _ => failure
  | _ => failure

def listOf {α} (p : P α) : P (List α) := do
  let n ← nat
  let rec go : Nat → P (List α)
    | 0 => pure []
    | k + 1 => do let a ← p; let r ← go k; pure (a :: r)
  go n

def optOf {α} (p : P α) : P (Option α) := do
  let b ← bool
  if b then (some <$> p) else pure none

private def hexVal (c : Char) : Option Nat :=
  if '0' ≤ c ∧ c ≤ '9' then some (c.toNat - '0'.toNat)
  else if 'A' ≤ c ∧ c ≤ 'F' then some (c.toNat - 'A'.toNat + 10)
  else none

def unescape : List Char → Option (List Char)
  | [] => some []
  | '%' :: 'e' :: [] => some []
  | '%' :: a :: b :: t => do
    let x ← hexVal a; let y ← hexVal b; let r ← unescape t
    pure (Char.ofNat (16 * x + y) :: r)
  | '%' :: _ => none
  | c :: t => do let r ← unescape t; pure (c :: r)

private def hexDigit (n : Nat) : Char :=
  if n < 10 then Char.ofNat ('0'.toNat + n) else Char.ofNat ('A'.toNat + n - 10)

def escape (s : List Char) : String :=
  if s.isEmpty then "%e" else
  String.ofList (s.flatMap fun c =>
    if c = ' ' ∨ c = '%' ∨ c = '\n' ∨ c = '\t' ∨ c = '\r' then ['%', hexDigit (c.toNat / 16), hexDigit (c.toNat % 16)] else [c])

/-- a string token as `List Char` (the model never uses `String`) -/
def str : P (List Char) := do
  let t ← tok
  match unescape t.toList with
  | some s => pure s
  | none => failure

def run {α} (p : P α) (toks : List String) : Option α :=
  match p.run toks with
  | some (a, []) => some a
  | _ => none

/-! output helpers -/

def showRat (q : Rat) : String := if q.den = 1 then toString q.num else s!"{q.num}/{q.den}"

def showList {α} (f : α → String) (l : List α) : String :=
  String.intercalate " " (toString l.length :: l.map f)

def showOpt {α} (f : α → String) : Option α → String
  | none => "0"
  | some a => "1 " ++ f a

def showBool (b : Bool) : String := if b then "1" else "0"

def sortPairs (ps : List (Nat × Nat)) : List (Nat × Nat) :=
  (ps.toArray.qsort (fun a b => a.1 < b.1 || (a.1 == b.1 && a.2 < b.2))).toList

def showPairs (ps : List (Nat × Nat)) : String :=
  showList (fun (a, b) => s!"{a} {b}") (sortPairs ps)

def tokens (line : String) : List String :=
  (line.trimAscii.toString.splitOn " ").filter (· ≠ "")

end Femio.Proto
