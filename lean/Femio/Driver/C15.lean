import Femio.Driver.Proto
import Femio.Driver.Mesh
import Femio.Model.Gradient
/-! driver commands for C15 -/
namespace Femio.C15D
open Femio.Proto Femio.Gradient

/-- `⌊q · 2^120⌋`: the exact rational entries have denominators of thousands of bits; the harness compares
    floats, so a 120-bit fixed-point rendering loses nothing it could see -/
def approx (q : Rat) : String := toString ((q.num * (2 : Int) ^ 120) / (q.den : Int))

def showV (v : V3 Rat) : String := s!"{approx v.x} {approx v.y} {approx v.z}"

def tripleP : P (Nat × Nat × Rat) := do let i ← nat; let j ← nat; let v ← rat; pure (i, j, v)

/-- positions of the vertices of the graph: node coordinates in storage order, or element centroids in
    the flattened element order -/
def positions (nodal : Bool) (m : PMesh) : Array (V3 Rat) :=
  if nodal then (m.nodes.map (·.2)).toArray
  else ((Core.flatten m.elemBlocks).map fun e => centroid (e.conn.filterMap m.pos?)).toArray

def mkInp (nodal : Bool) (hops : Nat) (moment : Bool) (m : PMesh) (W : List (Nat × Nat × Rat)) : Inp Rat :=
  let pos := positions nodal m
  let nN := m.nodes.length
  let nE := (Core.flatten m.elemBlocks).length
  let n := pos.size
  let nb := neighbours nodal nN nE (Core.incidence m.nodeIds m.elemBlocks) hops
  let wt : Array (Array Rat) := W.foldl
    (fun a (t : Nat × Nat × Rat) => if t.1 < a.size then a.modify t.1 (fun r => if t.2.1 < r.size then r.set! t.2.1 t.2.2 else r) else a)
    (Array.replicate n (Array.replicate n 0))
  { n := n, pos := fun j => pos.getD j ⟨0, 0, 0⟩, nbrs := fun i => nb.getD i [],
    w := fun i j => (wt.getD i #[]).getD j 0, moment := moment }

/-- `c15.op <nodal> <hops> <moment> <mesh> <W: list (i j rat)> <data: list (list rat)>`
    reply `ok n <distinct> <sumw> <list detNonzero> <rows: n × list (j gx gy gz)> <grads: list (n × gx gy gz)>` -/
def handle : List String → Option String
  | "c15.op" :: rest => do
    let (nodal, hops, moment, m, W, data) ← run (do
      let nodal ← bool; let hops ← nat; let moment ← bool; let m ← meshP
      let W ← listOf tripleP; let data ← listOf (listOf rat)
      pure (nodal, hops, moment, m, W, data)) rest
    let I := mkInp nodal hops moment m W
    let idx := List.range I.n
    let distinct := idx.all fun i => (I.nbrs i).all fun j => V3.normSq (dvec I i j) != 0
    let sumw := idx.all fun i => sumW I i != 0
    let dets := idx.map fun i => if moment then det3 (momentAt I i) != 0 else true
    let rows := idx.map (opRow I)
    let rowsS := rows.map fun r => showList (fun (e : Nat × V3 Rat) => s!"{e.1} {showV e.2}") r
    let grads := data.map fun col =>
      let arr := col.toArray
      String.intercalate " " (rows.map fun r => showV (applyRow r fun j => arr.getD j 0))
    some (String.intercalate " " (["ok", toString I.n, showBool distinct, showBool sumw, showList showBool dets]
      ++ rowsS ++ [toString data.length] ++ grads))
  | "c15.conv" :: rest => do
    -- literal evaluation of the convenience function of the model (small cases only: quadratic cost)
    let (nodal, hops, moment, m, W, col) ← run (do
      let nodal ← bool; let hops ← nat; let moment ← bool; let m ← meshP
      let W ← listOf tripleP; let col ← listOf rat
      pure (nodal, hops, moment, m, W, col)) rest
    let I := mkInp nodal hops moment m W
    let arr := col.toArray
    some ("ok " ++ String.intercalate " " ((List.range I.n).map fun i => showV (spatialGradients I (fun j => arr.getD j 0) i)))
  | _ => none

end Femio.C15D
