import Femio.Driver.Proto
import Femio.Model.ResFile
import Femio.Model.ResDir
/-! driver commands for C02 (FrontISTR result files)

```
sec   := list(var) list(row)        var := str nat        row := nat list(str)      -- values are numeral strings
text  := str                        -- the characters of the whole file, every line terminated by a newline
c02.render <layout 0|1> <trail 0|1> <comment:str> <time:str> <nElemHeader> <wcN> <wvN> <wcE> <wvE> <sec> <0 | 1 sec>
        -> ok <hyp 0|1> <text>      -- text = `fileText trail (renderFile …)`; hyp = the Boolean hypotheses
                                    -- `fileOKB f && hdrOKB L comment time` of `C02_parse_render_chars` on this input
c02.parse <nNodes> <nElems> <text>  -> ok 0 | ok 1 <sec> <0 | 1 sec>
c02.readdir <wrapSingleton 0|1> <timeSeries 0|1> <nNodes> <nElems> <typeIds: list(nat list(nat))> <files: list(str text)>
        -> ok 0                                             (the real code raises)
         | ok 1 <steps: list nat> <nodal: list sattr> <elemental: list sattr>
c02.find <listing: list str>       -> ok <list str>    -- `findRes`: the names `read_directory` globs as `*.res.*`
   sattr := str list(nat) list( list( list str ) )          -- name, ids, per step: per id: values
``` -/
namespace Femio.C02
open Femio.Proto Res Femio.Text

def varP : P Var := do let n ← str; let w ← nat; pure ⟨n, w⟩
def rowP : P (Nat × List Str) := do let i ← nat; let v ← listOf str; pure (i, v)
def secP : P (Sec Str) := do let vs ← listOf varP; let rs ← listOf rowP; pure ⟨vs, rs⟩
def textP : P Str := str

def showStr (s : Str) : String := escape s
def showSec (s : Sec Str) : String :=
  showList (fun (x : Var) => s!"{showStr x.name} {x.width}") s.vars ++ " " ++
  showList (fun (r : Nat × List Str) => s!"{r.1} {showList showStr r.2}") s.rows

def showSAttr (a : SeriesAttr Str) : String :=
  s!"{showStr a.name} {showList toString a.ids} " ++
    showList (fun step => showList (fun row => showList showStr row) step) a.steps

def showDir (d : DirReading Str) : String :=
  s!"ok 1 {showList toString d.timeSteps} {showList showSAttr d.nodal} {showList showSAttr d.elemental}"

def toSeries (a : Attr Str) : SeriesAttr Str := ⟨a.name, a.ids, [a.data]⟩

def handle : List String → Option String
  | "c02.render" :: rest => do
    let (lay, trail, comment, time, nE, wcN, wvN, wcE, wvE, sn, se) ← run (do
      let lay ← bool; let trail ← bool; let comment ← str; let time ← str; let nE ← nat
      let wcN ← nat; let wvN ← nat; let wcE ← nat; let wvE ← nat
      let sn ← secP; let se ← optOf secP
      pure (lay, trail, comment, time, nE, wcN, wvN, wcE, wvE, sn, se)) rest
    let L : Layout := if lay then .v2 else .old
    let ls := renderFile L comment [.v time] nE wcN wvN wcE wvE ⟨sn, se⟩
    -- the solver ends numeric lines with a blank; name lines have none (`printLine`)
    some (s!"ok {showBool (fileOKB ⟨sn, se⟩ && hdrOKB L comment [.v time])} {showStr (fileText trail ls)}")
  | "c02.parse" :: rest => do
    let (nN, nE, text) ← run (do let a ← nat; let b ← nat; let t ← textP; pure (a, b, t)) rest
    match readResText text nN nE with
    | none => some "ok 0"
    | some f => some ("ok 1 " ++ showSec f.nodal ++ " " ++ showOpt showSec f.elemental)
  | "c02.readdir" :: rest => do
    let (wrap, ts, nN, nE, typeIds, files) ← run (do
      let wrap ← bool; let ts ← bool; let a ← nat; let b ← nat
      let tys ← listOf (do let t ← nat; let ids ← listOf nat; pure (t, ids))
      let files ← listOf (do let n ← str; let t ← textP; pure (n, t))
      pure (wrap, ts, a, b, tys, files)) rest
    match files.mapM fun f => (stepOf f.1).map fun s => (s, lexFile f.2) with
    | none => some "ok 0"
    | some fs =>
      if ts then
        match readDirSeries ⟨wrap⟩ eNotStr typeIds nN nE fs with
        | none => some "ok 0"
        | some d => some (showDir d)
      else
        match readDirLatest eNotStr typeIds nN nE fs with
        | none => some "ok 0"
        | some none => some (showDir ⟨[], [], []⟩)
        | some (some (s, r)) => some (showDir ⟨[s], r.nodal.map toSeries, r.elemental.map toSeries⟩)
  | "c02.find" :: rest => do
    let listing ← run (listOf str) rest
    some ("ok " ++ showList showStr (findRes listing))
  | _ => none

end Femio.C02
