import Femio.Driver.Proto
import Femio.Model.ResFile
/-! driver commands for C02 (FrontISTR result files)

```
sec   := list(var) list(row)        var := str nat        row := nat list(str)      -- values are numeral strings
text  := list(str)                  -- one escaped token per line
c02.render <layout 0|1> <trail 0|1> <comment:str> <time:str> <nElemHeader> <wcN> <wvN> <wcE> <wvE> <sec> <0 | 1 sec>
        -> ok <text>
c02.parse <nNodes> <nElems> <text>  -> ok 0 | ok 1 <sec> <0 | 1 sec>
c02.readdir <wrapSingleton 0|1> <timeSeries 0|1> <nNodes> <nElems> <typeIds: list(nat list(nat))> <files: list(str text)>
        -> ok 0                                             (the real code raises)
         | ok 1 <steps: list nat> <nodal: list sattr> <elemental: list sattr>
   sattr := str list(nat) list( list( list str ) )          -- name, ids, per step: per id: values
``` -/
namespace Femio.C02
open Femio.Proto Res Femio.Text

def varP : P Var := do let n ← str; let w ← nat; pure ⟨n, w⟩
def rowP : P (Nat × List Str) := do let i ← nat; let v ← listOf str; pure (i, v)
def secP : P (Sec Str) := do let vs ← listOf varP; let rs ← listOf rowP; pure ⟨vs, rs⟩
def textP : P (List Str) := listOf str

def showStr (s : Str) : String := escape s
def showSec (s : Sec Str) : String :=
  showList (fun (x : Var) => s!"{showStr x.name} {x.width}") s.vars ++ " " ++
  showList (fun (r : Nat × List Str) => s!"{r.1} {showList showStr r.2}") s.rows
def showText (t : List Str) : String := showList showStr t

def showSAttr (a : SeriesAttr Str) : String :=
  s!"{showStr a.name} {showList toString a.ids} " ++
    showList (fun step => showList (fun row => showList showStr row) step) a.steps

def showDir (d : DirReading Str) : String :=
  s!"ok 1 {showList toString d.timeSteps} {showList showSAttr d.nodal} {showList showSAttr d.elemental}"

def toSeries (a : Attr Str) : SeriesAttr Str := ⟨a.name, a.ids, [a.data]⟩

/-- E-notation test of the abstract value tokens = the same regular expression on their text -/
def eNotStr : Str → Bool := matchE

def handle : List String → Option String
  | "c02.render" :: rest => do
    let (lay, trail, comment, time, nE, wcN, wvN, wcE, wvE, sn, se) ← run (do
      let lay ← bool; let trail ← bool; let comment ← str; let time ← str; let nE ← nat
      let wcN ← nat; let wvN ← nat; let wcE ← nat; let wvE ← nat
      let sn ← secP; let se ← optOf secP
      pure (lay, trail, comment, time, nE, wcN, wvN, wcE, wvE, sn, se)) rest
    let ls := renderFile (if lay then .v2 else .old) comment [.v time] nE wcN wvN wcE wvE ⟨sn, se⟩
    -- the solver ends numeric lines with a blank; name lines have none
    some ("ok " ++ showText (ls.map fun l => lineText (trail && !isName l) l))
  | "c02.parse" :: rest => do
    let (nN, nE, text) ← run (do let a ← nat; let b ← nat; let t ← textP; pure (a, b, t)) rest
    match readRes eNotStr (text.map lexLine) nN nE with
    | none => some "ok 0"
    | some f => some ("ok 1 " ++ showSec f.nodal ++ " " ++ showOpt showSec f.elemental)
  | "c02.readdir" :: rest => do
    let (wrap, ts, nN, nE, typeIds, files) ← run (do
      let wrap ← bool; let ts ← bool; let a ← nat; let b ← nat
      let tys ← listOf (do let t ← nat; let ids ← listOf nat; pure (t, ids))
      let files ← listOf (do let n ← str; let t ← textP; pure (n, t))
      pure (wrap, ts, a, b, tys, files)) rest
    match files.mapM fun f => (stepOf f.1).map fun s => (s, f.2.map lexLine) with
    | none => some "ok 0"
    | some fs =>
      if ts then
        match readDirSeries ⟨wrap⟩ eNotStr typeIds nN nE fs with
        | none => some "ok 0"
        | some d => some (showDir d)
      else
        match readDirLatest eNotStr typeIds nN nE fs with
        | none => some "ok 0"
        | some none => some (showDir ⟨[], [], []⟩)
        | some (some (s, r)) => some (showDir ⟨[s], r.nodal.map toSeries, r.elemental.map toSeries⟩)
  | _ => none

end Femio.C02
