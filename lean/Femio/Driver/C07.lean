import Femio.Driver.Proto
import Femio.Model.WritePaths
/-! driver commands for C07 -/
namespace Femio.C07
open Femio.Proto

def fmtP : P Fmt := do
  let t ← tok
  match t with
  | "fistr" => pure .fistr | "ucd" => pure .ucd | "obj" => pure .obj | "stl" => pure .stl
  | "vtu" => pure .vtu | "vtp" => pure .vtp | "vtk" => pure .vtk
  | _ => failure

/-- `c07.observe <checkFinal> <vtpBackup> <fmt> <name> <ctrl> <overwrite> <mshOnly> <watch: list str> <present: list bool>`
    existing files have content 1, created files content 2.
    reply: `ok <raised> <k> c_1 … c_k` with c = 0 (absent) | 1 (old content) | 2 (new content) -/
def handle : List String → Option String
  | "c07.observe" :: rest => do
    let (cf, vb, f, name, ctrl, ow, mo, watch, present) ← run (do
      let cf ← bool; let vb ← bool; let f ← fmtP; let name ← str; let ctrl ← str; let ow ← bool; let mo ← bool
      let watch ← listOf str; let present ← listOf bool
      pure (cf, vb, f, name, ctrl, ow, mo, watch, present)) rest
    if watch.length ≠ present.length then none else
    let pres := (watch.zip present).filter (·.2) |>.map (·.1)
    let fs : FS := fun p => if pres.contains p then some 1 else none
    let (raised, obs) := observe fs watch (plan ⟨cf, vb⟩ ctrl f name ow mo (fun _ => 2))
    some ("ok " ++ showBool raised ++ " " ++ showList (fun o => match o with | none => "0" | some n => toString n) obs)
  | "c07.final" :: rest => do
    let (f, name) ← run (do let f ← fmtP; let name ← str; pure (f, name)) rest
    some ("ok " ++ escape (finalName f name))
  | _ => none

end Femio.C07
